(* C05 wave 8: EVERY row of basic and special characters addressed by a preamble code without tab offset satisfies the
   hypothesis dd of proofs/SccMixedDoublingFacts.v: its words with the special characters single are related to its words with
   every code doubled. Hence popon_refines_608_mixed applies to every SCCWriter line over the basic + special character sets. *)
From Coq Require Import List ZArith QArith Lia Bool ZifyBool.
From PV Require Import lib.Sx lib.Str lib.Result model.GenScc model.SccTime model.SccStash model.SccDecoder.
From PV Require Import spec.Spec608 spec.SpecScc05 spec.SpecScc05Inline spec.SpecSccMixed.
From PV Require Import proofs.SccTableFacts proofs.SccPoponStage1 proofs.SccPoponStage2 proofs.SccLineLayoutFacts proofs.SccInlineEdmFacts
                       proofs.SccMixedDoublingFacts.
Import ListNotations.
Open Scope Z_scope.
Ltac Zify.zify_post_hook ::= Z.to_euclidean_division_equations.

(* ---- the word classes ---------------------------------------------------------------------------------------- *)
Definition cbyte (b : Z) : Prop := 0 <= b < 256 /\ b <> 148 /\ b <> 151 /\ b <> 145.

Lemma parity_bytes2 : forallb (fun y => (0 <=? odd_parity y) && (odd_parity y <? 256) && negb (odd_parity y =? 148)
                                        && negb (odd_parity y =? 151) && negb (odd_parity y =? 145)) (0 :: zrange 32 95) = true.
Proof. vm_compute. reflexivity. Qed.

Lemma opc : forall c, cbyte (odd_parity (basic_code c)).
Proof.
  intros c. pose proof parity_bytes2 as T. rewrite forallb_forall in T. specialize (T _ (hd_filter_in _ _ : In (basic_code c) _)).
  unfold cbyte. lia.
Qed.

Lemma cw_quiet : forall b x, cbyte b -> 0 <= x < 256 -> quiet (b * 256 + x) = true.
Proof. intros b x (_ & H & _) Hx. apply word_quiet; assumption. Qed.

Lemma cw_tab : forall b x, cbyte b -> 0 <= x < 256 -> tab_of (b * 256 + x) = None.
Proof.
  intros b x (Hb & _ & H & _) Hx. unfold tab_of.
  assert (K : forallb (fun kv => fst kv / 256 =? 151) scc_tab_offsets = true) by (vm_compute; reflexivity).
  revert K. generalize scc_tab_offsets. induction l as [|[k v] t IH]; intros K; [reflexivity|].
  cbn [forallb fst] in K. apply andb_true_iff in K. destruct K as [K1 K2]. cbn [assocz].
  destruct (Z.eqb_spec k (b * 256 + x)) as [E|_]; [exfalso; subst k; lia|]. apply IH, K2.
Qed.

Definition spw (w : Z) : Prop := exists i, 0 <= i < 16 /\ w = special_word i.

Lemma sp_facts : forallb (fun i => quiet (special_word i) && tab_none (special_word i) && dupable (special_word i)
                                   && (special_word i / 256 =? 145) && negb (special_word i =? w_rcl)) (zrange 0 16) = true.
Proof. vm_compute. reflexivity. Qed.

Lemma spw_facts : forall w, spw w -> quiet w = true /\ tab_of w = None /\ dupable w = true /\ w / 256 = 145 /\ w <> w_rcl.
Proof.
  intros w (i & Hi & ->). pose proof sp_facts as T. rewrite forallb_forall in T.
  assert (Hin : In i (zrange 0 16)) by (apply in_zrange; lia). specialize (T _ Hin).
  apply andb_true_iff in T. destruct T as [T T5]. apply andb_true_iff in T. destruct T as [T T4].
  apply andb_true_iff in T. destruct T as [T T3]. apply andb_true_iff in T. destruct T as [T1 T2].
  unfold tab_none in T2. destruct (tab_of (special_word i)); [discriminate|].
  apply Z.eqb_eq in T4. apply negb_true_iff in T5. apply Z.eqb_neq in T5. repeat split; assumption.
Qed.

Lemma spw_ne_cw : forall w b x, spw w -> cbyte b -> 0 <= x < 256 -> b * 256 + x <> w.
Proof. intros w b x Hs (Hb & _ & _ & H) Hx E. destruct (spw_facts w Hs) as (_ & _ & _ & Hd & _). subst w. lia. Qed.

(* ---- pack ------------------------------------------------------------------------------------------------------ *)
Definition wtok (t : tok) : Prop := match t with TCh _ => True | TCode w => spw w end.
Fixpoint noadj (ts : list tok) : Prop :=
  match ts with
  | TCode w :: ((TCode w' :: _) as t) => w <> w' /\ noadj t
  | _ :: t => noadj t
  | [] => True
  end.
Definition hd_code_ne (ts : list tok) (prev : option Z) : Prop :=
  match ts with TCode w :: _ => prev <> Some w | _ => True end.
Definition pendc (p : option Z) : Prop := match p with Some b => cbyte b | None => True end.

Lemma flush_dd : forall pend prev m d, pendc pend -> (forall p, dd p m d) -> dd prev (flush pend ++ m) (flush pend ++ d).
Proof.
  intros [b|] prev m d Hp H; cbn [flush app]; [|apply H].
  apply dd_same; [apply cw_quiet; [exact Hp|lia]|apply cw_tab; [exact Hp|lia]|apply H].
Qed.

(* the first word of a packed run with a pending half word is a character word *)
Lemma pack_pend_head : forall d ts b rm, exists x, 0 <= x < 256 /\ nexto (pack d ts (Some b) ++ rm) = Some (b * 256 + x).
Proof.
  intros d ts b rm. destruct ts as [|[c|w] t]; cbn [pack flush app nexto].
  - exists 128. split; [lia|reflexivity].
  - exists (odd_parity (basic_code c)). split; [apply opc|reflexivity].
  - exists 128. split; [lia|reflexivity].
Qed.

Lemma noadj_tl : forall t ts, noadj (t :: ts) -> noadj ts.
Proof. intros [c|w] [|[c'|w'] ts] H; cbn [noadj] in *; tauto. Qed.

Lemma dd_pack : forall ts pend prev rm rd, Forall wtok ts -> noadj ts -> pendc pend ->
  (forall p, dd p rm rd) -> (forall w, spw w -> nexto rm <> Some w) ->
  (pend = None -> hd_code_ne ts prev) ->
  dd prev (pack false ts pend ++ rm) (pack true ts pend ++ rd).
Proof.
  induction ts as [|t ts IH]; intros pend prev rm rd F Hna Hp Hr Hnx Hhd.
  - cbn [pack]. apply flush_dd; assumption.
  - inversion F as [|x y Ht F']; subst. pose proof (noadj_tl _ _ Hna) as Hna'. destruct t as [c|w].
    + cbn [pack]. destruct pend as [b|].
      * cbn [app]. apply dd_same; [apply cw_quiet; [exact Hp|apply opc]|apply cw_tab; [exact Hp|apply opc]|].
        apply (IH None _ rm rd F' Hna' I Hr Hnx).
        intros _. destruct ts as [|[c'|w'] t']; cbn [hd_code_ne]; try exact I.
        assert (Hw' : spw w') by (inversion F'; assumption).
        intros E. injection E as E. exact (spw_ne_cw w' b _ Hw' Hp (proj1 (opc c)) E).
      * apply (IH (Some (odd_parity (basic_code c))) prev rm rd F' Hna' (opc c) Hr Hnx). discriminate.
    + cbn [pack ctl]. rewrite <- !app_assoc. cbn [app].
      destruct (spw_facts w Ht) as (Hq & Htab & Hdup & _ & _).
      assert (Hrest : dd (Some w) (pack false ts None ++ rm) (pack true ts None ++ rd)).
      { apply (IH None (Some w) rm rd F' Hna' I Hr Hnx).
        intros _. destruct ts as [|[c'|w'] t']; cbn [hd_code_ne]; try exact I. cbn [noadj] in Hna. intros E. injection E as E. tauto. }
      assert (Hnext : nexto (pack false ts None ++ rm) <> Some w).
      { destruct ts as [|[c'|w'] t'].
        - cbn [pack flush app]. apply Hnx, Ht.
        - cbn [pack]. destruct (pack_pend_head false t' (odd_parity (basic_code c')) rm) as (x & Hx & ->). intros E. injection E as E.
          exact (spw_ne_cw w _ x Ht (opc c') Hx E).
        - cbn [pack flush ctl app nexto]. cbn [noadj] in Hna. intros E. injection E as E. symmetry in E. tauto. }
      destruct pend as [b|]; cbn [flush app].
      * apply dd_same; [apply cw_quiet; [exact Hp|lia]|apply cw_tab; [exact Hp|lia]|].
        apply dd_dup; try assumption. intros E. injection E as E. exact (spw_ne_cw w b 128 Ht Hp ltac:(lia) E).
      * apply dd_dup; try assumption. exact (Hhd eq_refl).
Qed.

(* ---- rows and loads ------------------------------------------------------------------------------------------- *)
Definition witem (it : item) : Prop := match it with Ch _ => True | Sp i => 0 <= i < 16 | _ => False end.
Fixpoint noadj_items (its : list item) : Prop :=
  match its with
  | Sp i :: ((Sp j :: _) as t) => i <> j /\ noadj_items t
  | _ :: t => noadj_items t
  | [] => True
  end.
(* a row as SCCWriter sends it: no tab offset, basic and special characters, no special character twice in a row *)
Definition wrow (r : row) : Prop :=
  1 <= rw_row r <= 15 /\ 0 <= pac_attr r < 32 /\ rw_tab r = 0 /\ Forall witem (rw_items r) /\ noadj_items (rw_items r).

Lemma witems_toks : forall its, Forall witem its -> noadj_items its ->
  Forall wtok (flat_map toks_of_item its) /\ noadj (flat_map toks_of_item its).
Proof.
  induction its as [|it t IH]; intros F Hn; [split; [constructor|exact I]|].
  inversion F as [|x y Hit F']; subst.
  assert (Hn' : noadj_items t) by (destruct it as [c|i|s g i|a|]; destruct t as [|[c'|j|s' g' j|a'|] t']; cbn [noadj_items] in Hn; tauto).
  destruct (IH F' Hn') as [IH1 IH2]. destruct it as [c|i|s g i|a|]; cbn [witem] in Hit; try contradiction; cbn [flat_map toks_of_item app].
  - split; [constructor; [exact I|exact IH1]|]. destruct (flat_map toks_of_item t) as [|[?|?] ?]; exact IH2.
  - split; [constructor; [exists i; split; [exact Hit|reflexivity]|exact IH1]|].
    destruct t as [|[c'|j|s' g' j|a'|] t']; cbn [flat_map toks_of_item app noadj] in *; try exact IH2; try (inversion F'; subst; contradiction).
    all: try (destruct (flat_map toks_of_item t') as [|[?|?] ?]; exact IH2).
    all: split; [|exact IH2]; destruct Hn as [Hij _]; intros E; apply Hij;
         assert (Hj : 0 <= j < 16) by (inversion F'; assumption); exact (special_word_inj i j Hit Hj E).
Qed.

Lemma pac_sp_facts : forallb (fun r => forallb (fun a => quiet (pac_word r a) && tab_none (pac_word r a)
                                           && forallb (fun i => negb (pac_word r a =? special_word i)) (zrange 0 16))
                                        (zrange 0 32)) (zrange 1 15) = true.
Proof. vm_compute. reflexivity. Qed.

Lemma pac_facts_w : forall r a, 1 <= r <= 15 -> 0 <= a < 32 ->
  quiet (pac_word r a) = true /\ tab_of (pac_word r a) = None /\ (forall w, spw w -> pac_word r a <> w).
Proof.
  intros r a Hr Ha. pose proof pac_sp_facts as T. rewrite forallb_forall in T.
  assert (Hir : In r (zrange 1 15)) by (apply in_zrange; lia). specialize (T _ Hir). rewrite forallb_forall in T.
  assert (Hia : In a (zrange 0 32)) by (apply in_zrange; lia). specialize (T _ Hia).
  apply andb_true_iff in T. destruct T as [T T3]. apply andb_true_iff in T. destruct T as [T1 T2].
  unfold tab_none in T2. destruct (tab_of (pac_word r a)); [discriminate|]. split; [exact T1|split; [reflexivity|]].
  intros w (i & Hi & ->). rewrite forallb_forall in T3. assert (Hii : In i (zrange 0 16)) by (apply in_zrange; lia).
  specialize (T3 _ Hii). apply negb_true_iff in T3. apply Z.eqb_neq in T3. exact T3.
Qed.

Lemma dd_row : forall r prev rm rd, wrow r -> (forall p, dd p rm rd) -> (forall w, spw w -> nexto rm <> Some w) ->
  dd prev (emit_row_m r ++ rm) (emit_row true r ++ rd).
Proof.
  intros r prev rm rd (Hr & Ha & Ht & Hi & Hn) Hrm Hnx. unfold emit_row_m, emit_row, pac_unit. rewrite Ht. cbn [Z.ltb Z.compare app].
  destruct (pac_facts_w _ _ Hr Ha) as (Hq & Htab & Hne). destruct (witems_toks _ Hi Hn) as [Hw Hna].
  rewrite <- ?app_assoc. cbn [app].
  apply dd_same; [exact Hq|exact Htab|]. apply dd_same; [exact Hq|exact Htab|].
  apply dd_pack; try assumption; [exact I|].
  intros _. destruct (flat_map toks_of_item (rw_items r)) as [|[c|w] t]; cbn [hd_code_ne]; try exact I.
  inversion Hw as [|x y Hsw _]; subst. intros E. injection E as E. exact (Hne w Hsw E).
Qed.

(* EVERY load of such rows is inside the hypothesis of popon_refines_608_mixed *)
Theorem writer_rows_dd : forall l, Forall wrow l -> forall p, dd p (body_m l) (flat_map (emit_row true) l).
Proof.
  induction l as [|r t IH]; intros F p; [constructor|]. inversion F as [|x y Hr F']; subst.
  unfold body_m. cbn [flat_map]. apply dd_row; [exact Hr|exact (IH F')|].
  intros w Hw. destruct t as [|r' t']; [discriminate|]. inversion F' as [|x1 y1 (Hr' & Ha' & Ht' & _) _]; subst.
  cbn [flat_map]. unfold emit_row_m, pac_unit. rewrite Ht'. cbn [Z.ltb Z.compare app nexto].
  intros E. injection E as E. exact (proj2 (proj2 (pac_facts_w _ _ Hr' Ha')) w Hw E).
Qed.

Example exm_wrows : Forall wrow exm_l.
Proof.
  repeat constructor; cbn; try lia; try discriminate.
Qed.
