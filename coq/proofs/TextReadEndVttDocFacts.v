(* C04 end to end, WebVTT DOCUMENT level on the models: line loop (vtt_document_cues) composed with the cue theorem. *)
From Coq Require Import List ZArith Bool.
From PV Require Import lib.Sx lib.Str model.TextNodes model.TextRead spec.SpecTextLines spec.SpecTextRead.
From PV Require Import proofs.TextReadVttDocFacts proofs.TextReadEndVttFacts proofs.TextReadEndVttStripFacts.
Import ListNotations.
Open Scope Z_scope.

(* a whole document - header lines, cue identifiers, NOTE / STYLE / REGION blocks, any number of blank lines between the
   blocks: the reader model returns one caption per cue, in order, and every caption shows what its cue displays *)
Theorem vtt_document_end_to_end : forall header bs,
  forallb line_plain header = true -> wf_blocks bs = true ->
  Forall (fun items => forallb vtt_item_ok items = true) (cues_of bs) ->
  vtt_parse true (vtt_document_lines header bs) = map (read_vtt true) (cues_of bs) /\
  Forall (fun items => ok_lines_a (SpecTextRead.display items) (node_lines (read_vtt true items)) = true) (cues_of bs).
Proof.
  intros header bs Hh Hw Hc. split.
  - rewrite (vtt_document_cues true header bs Hh Hw). reflexivity.
  - rewrite Forall_forall in *. intros items Hi. apply vtt_end_to_end_any, Hc, Hi.
Qed.
