(* C05 / C06, stage 6 of the pop-on refinement: WHOLE PROGRAMS of basic rows. Several loads, each with several rows of
   basic characters (plain white preambles, pairwise distinct rows, any transmission order), each load on its own line,
   Erase-Displayed-Memory lines anywhere in between, control codes single or doubled.
   Stage 3 (one load of several rows, from the initial state) and stage 4 (several one-row loads with clear lines) are
   combined: the load step of stage 3 is redone from any between-lines state `B`, what is stored for a load is the batch
   `map (cap_of t0 t1) (expected_load l)` (one stash_extend call), the stream is folded over its segments, and the
   stash is computed in closed form: the captions of load i carry the i-th span of the display events. *)
From Coq Require Import List ZArith QArith Qabs Lia Bool ZifyBool Lqa.
From PV Require Import lib.Sx lib.Str lib.Result model.GenScc model.SccLen model.SccTime model.SccStash model.SccDecoder model.SccLayout
                       model.SccPopon spec.Spec608 spec.SpecScc05 spec.SpecSccLen spec.SpecSccTime proofs.SccTableFacts
                       proofs.SccDoubleFacts proofs.SccLenFacts proofs.SccStashFacts proofs.SccTimeFacts proofs.SccPoponFacts
                       proofs.SccPoponStage1 proofs.SccPoponStage3 proofs.SccPoponStage4.
Import ListNotations. Open Scope Z_scope.

(* performance only (see stage 1) *)
Local Strategy 1000 [basic_code is_basic].
Local Arguments stash_extend : simpl never.

(* ---- 0. the stream ------------------------------------------------------------------------------------ *)
Inductive pseg : Type := PLoad (tc : str) (l : load) | PClear (tc : str).
Definition pseg_line (d : bool) (s : pseg) : sline :=
  match s with PLoad tc l => (tc, emit_load d l) | PClear tc => (tc, emit_clear d) end.
Definition pseg_ok (s : pseg) : bool := match s with PLoad _ l => basic_load l | PClear _ => true end.
(* the display event of a segment: the instant of its (first) End-Of-Caption word / of its Erase-Displayed-Memory word *)
Definition pseg_event (d : bool) (off : Q) (s : pseg) : result ev :=
  match s with
  | PLoad tc l => match get_time tc (Z.of_nat (length (emit_load d l)) - (if d then 2 else 1)) off with
                  | Ok t => Ok (Show t) | Err e => Err e end
  | PClear tc => match get_time tc 0 off with Ok t => Ok (Clear t) | Err e => Err e end
  end.
Definition ploads_of (segs : list pseg) : list load :=
  flat_map (fun s => match s with PLoad _ l => [l] | PClear _ => [] end) segs.

Definition rmap {A B} (f : A -> B) (r : result A) : result B := match r with Ok a => Ok (f a) | Err e => Err e end.

(* ---- 1. End-Of-Caption on any non-empty buffer, with or without a queued cue ------------------------------- *)
Lemma tw_eoc6 : forall st tk l ds nodes pa ro q tm tc fr off n t, cr_is_empty (mkCr nodes SNone) = false ->
  last_is l w_eoc = false -> get_time tc fr off = Ok t ->
  translate_word (mkR st tk l ds (mkCr nodes SNone) pa ro MPop q tm tc fr off None) w_eoc n
  = mkR (popped st q t) tk (LWord w_eoc) ds creator0 pa ro MPop (Some (mkCr nodes SNone, t)) t tc (fr + 1) off None.
Proof.
  intros st tk l ds nodes pa ro q tm tc fr off n t Hne Hl Hg.
  unfold translate_word. proj_red. rewrite (hd_eoc _ _ _ _ _ _ _ _ _ _ _ _ Hl). proj_red.
  replace (is_command w_eoc || is_pac w_eoc) with true by (vm_compute; reflexivity).
  rewrite translate_command_eoc. unfold with_time. proj_red. rewrite Hg. cbv zeta.
  destruct q as [[c1 t1]|]; proj_red.
  - unfold pop_on. proj_red. unfold store. proj_red. rewrite Hne. proj_red. reflexivity.
  - rewrite Hne. proj_red. reflexivity.
Qed.

Lemma eoc_gen6 : forall d st tk l ds nodes pa ro q tm tc fr off nx t, cr_is_empty (mkCr nodes SNone) = false ->
  last_is l w_eoc = false -> get_time tc fr off = Ok t ->
  exists l' ds', tws (mkR st tk l ds (mkCr nodes SNone) pa ro MPop q tm tc fr off None) (ctl d (ctrl_word 47)) nx
   = mkR (popped st q t) tk l' ds' creator0 pa ro MPop (Some (mkCr nodes SNone, t)) t tc (fr + (if d then 2 else 1)) off None
   /\ (l' = LNone \/ l' = LWord w_eoc).
Proof.
  intros d st tk l ds nodes pa ro q tm tc fr off nx t Hne Hl Hg. change (ctrl_word 47) with w_eoc.
  destruct (ctl_pair d w_eoc nx _ _ (fun n => tw_eoc6 st tk l ds nodes pa ro q tm tc fr off n t Hne Hl Hg) eq_refl eq_refl eq_refl)
    as (l1 & ds1 & E1 & Hl1).
  red_in E1. rewrite E1. exists l1, ds1. split; [|exact Hl1]. f_equal. destruct d; lia.
Qed.

(* ---- 2. (i) a load line from any between-lines state -------------------------------------------------------- *)
(* the creator holding the load l *)
Definition lcr (l : load) : creator := mkCr (load_nodes l) SNone.

Lemma load_line6 : forall d off st tk l ds q tm tc fr tc' ld t, basic_load ld = true -> last_is l w_enm = false ->
  get_time tc' (Z.of_nat (length (emit_load d ld)) - (if d then 2 else 1)) off = Ok t ->
  exists tk' l' ds' fr',
    translate_line (B off st tk l ds q tm tc fr) (tc', emit_load d ld)
    = B off (popped st q t) tk' l' ds' (Some (lcr ld, t)) t tc' fr'
    /\ last_is l' w_edm = false /\ last_is l' w_enm = false.
Proof.
  intros d off st tk l ds q tm tc fr tc' ld t H Hl Hg. rewrite translate_line_B. unfold B.
  destruct (basic_load_parts ld H) as (r & rest & -> & Hrow & Frest & Hch).
  destruct (basic_row_facts r Hrow) as (_ & _ & _ & Hk & _ & _ & _ & Hne & _).
  assert (El : emit_load d (r :: rest) = (ctl d (ctrl_word 46) ++ ctl d (ctrl_word 32)) ++ emit_row d r
               ++ flat_map (emit_row d) rest ++ ctl d (ctrl_word 47)).
  { unfold emit_load. cbn [flat_map]. rewrite <- !app_assoc. reflexivity. }
  rewrite El in *. rewrite !app_length, !Nat2Z.inj_add, !ctl_length in Hg.
  rewrite (tws_app (ctl d (ctrl_word 46) ++ ctl d (ctrl_word 32))), (tws_app (emit_row d r)),
          (tws_app (flat_map (emit_row d) rest)).
  destruct (prologue_gen d st tk l ds creator0 creator0 creator0 q tm tc' 0 off
              (nxt (emit_row d r ++ flat_map (emit_row d) rest ++ ctl d (ctrl_word 47)) None) Hl)
    as (l0 & ds0 & -> & Hl0).
  destruct (pac_row_facts r Hrow) as (_ & _ & _ & I).
  assert (Hc0 : last_contains l0 (pac_word (rw_row r) (pac_attr r)) = false).
  { destruct Hl0 as [->| ->]; [reflexivity|]. cbn [last_contains]. apply Z.eqb_neq. intros E. apply (in_ctl _ I).
    rewrite <- E. unfold ctl_words. cbn [In]. tauto. }
  destruct (row_run3 st ds0 creator0 creator0 q tm tc' off r d (tracker_reset tk) l0 [] (0 + (if d then 4 else 2))
              (nxt (flat_map (emit_row d) rest ++ ctl d (ctrl_word 47)) None)
              (mkTk [row_pos r] None false (row_pos r)) (mkTk [row_pos r] None false (row_pos r)) [] (row_pos r)
              Hrow eq_refl Hc0 (or_intror eq_refl)) as (l1 & E1 & Hl1).
  { unfold tracker_reset, row_pos. apply tracker_new. lia. }
  { intros s. apply add_chars_first. }
  { intros txt s. apply (add_chars_plain (row_pos r) [] (row_pos r) []). }
  unfold SG in E1. fold creator0 in E1. rewrite E1.
  destruct (rows_run3 st ds0 creator0 creator0 q tm tc' off d rest Frest (nxt (ctl d (ctrl_word 47)) None)
              [] (row_text r) (row_pos r) [] (rw_row r) (rw_indent r + rw_tab r) (row_pos r) l1
              (0 + (if d then 4 else 2) + Z.of_nat (length (emit_row d r))) Hch Hl1 eq_refl) as (tk2 & l2 & E2 & Hl2).
  unfold SG in E2. rewrite E2. cbn [app].
  set (f := 0 + (if d then 4 else 2) + Z.of_nat (length (emit_row d r)) + Z.of_nat (length (flat_map (emit_row d) rest))) in *.
  replace ((if d then 2 else 1) + (if d then 2 else 1) + (Z.of_nat (length (emit_row d r)) +
           (Z.of_nat (length (flat_map (emit_row d) rest)) + (if d then 2 else 1))) - (if d then 2 else 1)) with f in Hg
    by (unfold f; destruct d; lia).
  destruct (eoc_gen6 d st tk2 l2 ds0 (mkI IText (row_text r) (row_pos r) :: tail_nodes rest (row_pos r) (rw_row r))
              creator0 creator0 q tm tc' f off None t) as (l3 & ds3 & E3 & Hl3).
  { unfold cr_is_empty. cbn [cr_nodes existsb i_text]. destruct (row_text r); [congruence|reflexivity]. }
  { apply charlast_not_eoc. exact Hl2. }
  { exact Hg. }
  exists tk2, l3, ds3, (f + (if d then 2 else 1)). split; [exact E3|]. destruct Hl3 as [->| ->]; split; reflexivity.
Qed.

(* ---- 3. (i) what is stored for a load: one batch, the captions of the 608 screen with the given times ---------- *)
Definition lcaps (l : load) (t0 t1 : Q) : list precap := map (cap_of t0 t1) (expected_load l).

Lemma store_load6 : forall st l t0 t1, basic_load l = true ->
  create_and_store st (lcr l) t0 t1 = stash_extend st (lcaps l t0 t1).
Proof.
  intros st l t0 t1 H. destruct (basic_load_parts l H) as (r & t & -> & Hrow & F & _).
  destruct (basic_row_facts r Hrow) as (_ & _ & _ & _ & _ & _ & _ & Hne & _).
  destruct (row_text_facts r Hrow) as [Hrs _]. destruct (tail_nodes_plain t F (row_pos r) (rw_row r)) as [P1 P2].
  unfold create_and_store, lcr, lcaps.
  assert (E : cr_is_empty (mkCr (load_nodes (r :: t)) SNone) = false).
  { unfold cr_is_empty. cbn [cr_nodes load_nodes existsb i_text]. destruct (row_text r); [congruence|reflexivity]. }
  rewrite E. cbn [cr_nodes]. rewrite format_plain.
  - rewrite build_skip_empty, (build_load t0 t1 r t Hrow F). reflexivity.
  - cbn [load_nodes]. constructor; [reflexivity|exact P1].
  - cbn [load_nodes]. constructor; [|exact P2]. unfold rstrip_node. cbn [i_kind i_text i_pos]. rewrite Hrs. reflexivity.
Qed.

Lemma lcaps_nodes : forall l t0 t1, basic_load l = true -> filter has_nodes (lcaps l t0 t1) = lcaps l t0 t1.
Proof.
  intros l t0 t1 H. destruct (basic_load_parts l H) as (r & t & -> & Hrow & F & _).
  apply has_nodes_caps. exact (expected_load_good r t Hrow F).
Qed.

Lemma basic_load_expected : forall l, basic_load l = true -> expected_load l <> [] /\ Forall good_ecap (expected_load l).
Proof.
  intros l H. destruct (basic_load_parts l H) as (r & t & -> & Hrow & F & _).
  split; [apply expected_load_nonempty|exact (expected_load_good r t Hrow F)].
Qed.

(* ---- 4. the run of the reader at the level of loads ----------------------------------------------------------- *)
Definition aq6 : Type := option (load * Q).
Definition qreal6 (q : aq6) : option (creator * Q) := match q with Some (l, t) => Some (lcr l, t) | None => None end.
Definition item6 : Type := (option load * Q)%type.       (* a load l shown at t / a clear at t *)
Definition astep6 (a : stash * aq6) (it : item6) : stash * aq6 :=
  let '(st, q) := a in
  (match q with Some (l0, t0) => stash_extend st (lcaps l0 t0 (snd it)) | None => st end,
   match fst it with Some l => Some (l, snd it) | None => None end).
Definition afinish6 (a : stash * aq6) : stash :=
  let '(st, q) := a in match q with Some (l0, t0) => stash_extend st (lcaps l0 t0 0) | None => st end.
Definition a06 : stash * aq6 := (stash0, None).

Definition pseg_item (d : bool) (off : Q) (s : pseg) : result item6 :=
  match s with
  | PLoad tc l => match get_time tc (Z.of_nat (length (emit_load d l)) - (if d then 2 else 1)) off with
                  | Ok t => Ok (Some l, t) | Err e => Err e end
  | PClear tc => match get_time tc 0 off with Ok t => Ok (None, t) | Err e => Err e end
  end.
Definition ev_of6 (it : item6) : ev := match fst it with Some _ => Show (snd it) | None => Clear (snd it) end.
Definition loads_of6 (its : list item6) : list load := flat_map (fun it => match fst it with Some l => [l] | None => [] end) its.

Lemma pseg_items : forall d off segs evs, res_map (pseg_event d off) segs = Ok evs ->
  exists its, res_map (pseg_item d off) segs = Ok its /\ map ev_of6 its = evs /\ loads_of6 its = ploads_of segs.
Proof.
  intros d off. induction segs as [|s segs IH]; intros evs H.
  - inversion H. exists []. auto.
  - destruct (res_map_cons _ _ _ _ _ _ H) as (e & es & He & Hes & ->). destruct (IH es Hes) as (its & Hi & Hm & Hr).
    destruct s as [tc l|tc]; cbn [pseg_event] in He.
    + destruct (get_time tc _ off) as [t|x] eqn:Eg; [|discriminate]. inversion He. subst e.
      exists ((Some l, t) :: its). cbn [res_map pseg_item bind]. rewrite Eg, Hi. cbn [bind map ev_of6 fst snd]. rewrite Hm.
      unfold loads_of6, ploads_of in *. cbn [flat_map fst]. rewrite Hr. auto.
    + destruct (get_time tc 0 off) as [t|x] eqn:Eg; [|discriminate]. inversion He. subst e.
      exists ((None, t) :: its). cbn [res_map pseg_item bind]. rewrite Eg, Hi. cbn [bind map ev_of6 fst snd]. rewrite Hm.
      unfold loads_of6, ploads_of in *. cbn [flat_map fst]. rewrite Hr. auto.
Qed.

Lemma ploads_basic : forall segs, forallb pseg_ok segs = true -> Forall (fun l => basic_load l = true) (ploads_of segs).
Proof.
  induction segs as [|s segs IH]; intros H; [constructor|].
  rewrite forallb_cons in H. apply andb_true_iff in H. destruct H as [Hs Ht]. unfold ploads_of in *. cbn [flat_map].
  destruct s as [tc l|tc]; cbn [app]; [constructor; [exact Hs|]|]; exact (IH Ht).
Qed.

(* ---- 5. the lines of the stream, run from a between-lines state ------------------------------------------------ *)
Definition q_ok6 (q : aq6) : Prop := match q with Some (l, _) => basic_load l = true | None => True end.
Definition inv6 (l : lastcmd) (q : aq6) : Prop :=
  last_is l w_enm = false /\ (q = None \/ last_is l w_edm = false) /\ q_ok6 q.

Lemma run_psegs : forall d off segs its st tk l ds q tm tc fr,
  forallb pseg_ok segs = true -> res_map (pseg_item d off) segs = Ok its -> inv6 l q ->
  exists tk' l' ds' tm' tc' fr',
    fold_left translate_line (map (pseg_line d) segs) (B off st tk l ds (qreal6 q) tm tc fr)
    = B off (fst (fold_left astep6 its (st, q))) tk' l' ds' (qreal6 (snd (fold_left astep6 its (st, q)))) tm' tc' fr'
    /\ q_ok6 (snd (fold_left astep6 its (st, q))).
Proof.
  intros d off. induction segs as [|s segs IH]; intros its st tk l ds q tm tc fr Hok Hi (Hl1 & Hl2 & Hq).
  - inversion Hi. cbn [map fold_left fst snd]. exists tk, l, ds, tm, tc, fr. auto.
  - destruct (res_map_cons _ _ _ _ _ _ Hi) as (it & its' & Hit & Hi' & ->).
    rewrite forallb_cons in Hok. apply andb_true_iff in Hok. destruct Hok as [Hs Hok].
    cbn [map fold_left]. destruct s as [tc1 ld|tc1]; cbn [pseg_item pseg_ok pseg_line] in *.
    + destruct (get_time tc1 _ off) as [t|x] eqn:Eg; [|discriminate]. inversion Hit. subst it.
      destruct (load_line6 d off st tk l ds (qreal6 q) tm tc fr tc1 ld t Hs Hl1 Eg) as (tk' & l' & ds' & fr' & E & Hl' & Hl'').
      rewrite E.
      assert (Ep : popped st (qreal6 q) t = fst (astep6 (st, q) (Some ld, t))).
      { destruct q as [[l0 t0]|]; [|reflexivity]. cbn [qreal6 popped astep6 fst snd]. apply store_load6. exact Hq. }
      rewrite Ep. change (Some (lcr ld, t)) with (qreal6 (snd (astep6 (st, q) (Some ld, t)))).
      destruct (IH its' (fst (astep6 (st, q) (Some ld, t))) tk' l' ds'
                   (snd (astep6 (st, q) (Some ld, t))) t tc1 fr' Hok Hi') as (tk2 & l2 & ds2 & tm2 & tc2 & fr2 & E2 & Hq2).
      { split; [exact Hl''|split; [right; exact Hl'|exact Hs]]. }
      rewrite <- surjective_pairing in E2, Hq2. exists tk2, l2, ds2, tm2, tc2, fr2. split; assumption.
    + destruct (get_time tc1 0 off) as [t|x] eqn:Eg; [|discriminate]. inversion Hit. subst it.
      destruct q as [[l0 t0]|].
      * destruct Hl2 as [X|Hl2]; [discriminate|]. cbn [qreal6].
        destruct (clear_line_some d off st tk l ds (lcr l0) t0 tm tc fr tc1 t Hl2 Eg) as (l' & ds' & fr' & E & Hl').
        rewrite E, (store_load6 st l0 t0 t Hq).
        destruct (IH its' (stash_extend st (lcaps l0 t0 t)) tk l' ds' None tm tc1 fr' Hok Hi')
          as (tk2 & l2 & ds2 & tm2 & tc2 & fr2 & E2 & Hq2).
        { split; [exact Hl'|split; [left; reflexivity|exact I]]. }
        exists tk2, l2, ds2, tm2, tc2, fr2. split; assumption.
      * cbn [qreal6].
        destruct (clear_line_none d off st tk l ds tm tc fr tc1) as (l' & ds' & fr' & E & Hl').
        rewrite E.
        destruct (IH its' st tk l' ds' None tm tc1 fr' Hok Hi') as (tk2 & l2 & ds2 & tm2 & tc2 & fr2 & E2 & Hq2).
        { split; [exact Hl'|split; [left; reflexivity|exact I]]. }
        exists tk2, l2, ds2, tm2, tc2, fr2. split; assumption.
Qed.

(* (ii) read-level: the whole stream is read as the tail of read() applied to the load-level run *)
Theorem read_psegs : forall d off segs its,
  forallb pseg_ok segs = true -> res_map (pseg_item d off) segs = Ok its ->
  read off (map (pseg_line d) segs) = finish_read (afinish6 (fold_left astep6 its a06)).
Proof.
  intros d off segs its Hok Hi.
  destruct (run_psegs d off segs its stash0 tracker0 LNone false None 0%Q (lit "00:00:00;00") 0 Hok Hi)
    as (tk & l & ds & tm & tc & fr & E & Hq).
  { split; [reflexivity|split; [left; reflexivity|exact I]]. }
  unfold read, run_lines. change (rstate0 off) with (B off stash0 tracker0 LNone false (qreal6 None) 0%Q (lit "00:00:00;00") 0).
  rewrite E. clear E. revert Hq. change (@pair stash aq6 stash0 None) with a06. destruct (fold_left astep6 its a06) as [st q]. cbn [fst snd]. intros Hq.
  unfold B. cbn [r_err]. unfold flush_implicit. cbn [r_active r_queue].
  destruct q as [[l0 t0]|]; cbn [qreal6 afinish6].
  - unfold pop_on. cbn [r_queue]. unfold store, set_queue, set_stash. cbn [r_err r_stash]. rewrite (store_load6 st l0 t0 0%Q Hq).
    reflexivity.
  - reflexivity.
Qed.

(* ---- 6. the stash in closed form: batches ------------------------------------------------------------------------ *)
(* a batch: a load with the (start, end) its captions carry *)
Definition batch : Type := (load * (Q * Q))%type.
Definition bcaps (b : batch) : list precap := lcaps (fst b) (fst (snd b)) (snd (snd b)).
Definition extb (st : stash) (b : batch) : stash := stash_extend st (bcaps b).
Definition bbasic (b : batch) : Prop := basic_load (fst b) = true.

(* what is stored, in order: every queued load with the instant of the event that takes it off the screen (0: none) *)
Fixpoint braw (its : list item6) (q : aq6) : list batch :=
  match its with
  | [] => match q with Some (l, s) => [(l, (s, 0%Q))] | None => [] end
  | it :: r => match q with Some (l, s) => [(l, (s, snd it))] | None => [] end
               ++ braw r (match fst it with Some l => Some (l, snd it) | None => None end)
  end.

Lemma afold6 : forall its st q, afinish6 (fold_left astep6 its (st, q)) = fold_left extb (braw its q) st.
Proof.
  induction its as [|it its IH]; intros st q.
  - destruct q as [[l s]|]; reflexivity.
  - cbn [fold_left astep6 braw]. rewrite IH. destruct q as [[l s]|]; reflexivity.
Qed.

Definition qload (q : aq6) : list load := match q with Some (l, _) => [l] | None => [] end.

Lemma braw_fst : forall its q, map fst (braw its q) = qload q ++ loads_of6 its.
Proof.
  induction its as [|it its IH]; intros q.
  - destruct q as [[l s]|]; reflexivity.
  - cbn [braw]. rewrite map_app, IH. unfold loads_of6. cbn [flat_map]. destruct q as [[l s]|]; destruct (fst it); reflexivity.
Qed.

Lemma braw_snd : forall its q, map snd (braw its q) = stores (option_map snd q) (map ev_of6 its).
Proof.
  induction its as [|it its IH]; intros q.
  - destruct q as [[l s]|]; reflexivity.
  - cbn [braw map]. rewrite map_app, IH. unfold stores, ev_of6. destruct it as [[ld|] t]; destruct q as [[l s]|]; reflexivity.
Qed.

Lemma braw_basic : forall its q, Forall (fun l => basic_load l = true) (qload q ++ loads_of6 its) -> Forall bbasic (braw its q).
Proof.
  intros its q H. rewrite <- braw_fst in H. rewrite Forall_forall in *. intros b Hb. apply H. apply in_map. exact Hb.
Qed.

(* the lookahead form on batches: closeM of stage C06 on the spans, the loads carried along *)
Fixpoint closeB (l : list batch) : list batch :=
  match l with
  | [] => []
  | (ld, (s, e)) :: r =>
      (ld, (s, match r with
               | (_, (s', _)) :: _ => if Qeq_bool e 0 || negb (Qle_bool join_threshold (s' - e)) then s' else e
               | [] => e
               end)) :: closeB r
  end.

Lemma closeB_fst : forall l, map fst (closeB l) = map fst l.
Proof. induction l as [|[ld [s e]] r IH]; [reflexivity|]. cbn [closeB map fst]. rewrite IH. reflexivity. Qed.

Lemma closeB_snd : forall l, map snd (closeB l) = closeM (map snd l).
Proof.
  induction l as [|[ld [s e]] r IH]; [reflexivity|]. cbn [closeB map snd closeM]. rewrite IH.
  destruct r as [|[ld' [s' e']] r']; reflexivity.
Qed.

Lemma skipn_app_len : forall A (acc X : list A), skipn (length (acc ++ X) - length X) (acc ++ X) = X.
Proof.
  intros A acc X. rewrite app_length. replace (length acc + length X - length X)%nat with (length acc) by lia.
  rewrite skipn_app, skipn_all, Nat.sub_diag. reflexivity.
Qed.

Lemma map_tail_app_len : forall A (f : A -> A) (acc X : list A), map_tail (length X) f (acc ++ X) = acc ++ map f X.
Proof.
  intros A f acc X. unfold map_tail. rewrite skipn_app_len, app_length.
  replace (length acc + length X - length X)%nat with (length acc) by lia.
  rewrite firstn_app, firstn_all, Nat.sub_diag. cbn [firstn]. rewrite app_nil_r. reflexivity.
Qed.

Lemma last_some_ne : forall A (l : list A), l <> [] -> exists x, last (map Some l) None = Some x.
Proof.
  intros A. induction l as [|a t IH]; intros H; [congruence|]. destruct t as [|b t'].
  - exists a. reflexivity.
  - destruct IH as [x Hx]; [discriminate|]. exists x. exact Hx.
Qed.

Lemma extb_first : forall b, bbasic b -> extb stash0 b = mkStash ([] ++ bcaps b) (length (bcaps b)).
Proof. intros b Hb. unfold extb. rewrite stash_extend0. unfold bcaps. rewrite lcaps_nodes by exact Hb. reflexivity. Qed.

(* storing the next batch decides the end of the whole previous batch *)
Lemma extb_snoc : forall acc ld s e b', basic_load ld = true -> bbasic b' ->
  extb (mkStash (acc ++ bcaps (ld, (s, e))) (length (bcaps (ld, (s, e))))) b' =
  mkStash ((acc ++ bcaps (ld, (s, if Qeq_bool e 0 || negb (Qle_bool join_threshold (fst (snd b') - e))
                                   then fst (snd b') else e))) ++ bcaps b') (length (bcaps b')).
Proof.
  intros acc ld s e [ld' [s' e']] Hb Hb'. unfold bbasic in Hb'. cbn [fst snd] in *.
  destruct (basic_load_expected ld Hb) as [Hne _]. destruct (basic_load_expected ld' Hb') as [Hne' _].
  unfold extb, stash_extend. unfold bcaps at 3 4 5. cbn [fst snd]. rewrite (lcaps_nodes ld' s' e' Hb'). f_equal. f_equal.
  unfold update_last_batch. cbn [st_caps st_batch]. rewrite skipn_app_len.
  unfold bcaps, lcaps. cbn [fst snd]. rewrite last_map_some.
  destruct (last_some_ne _ _ Hne) as [x ->]. cbn [option_map].
  destruct (expected_load ld') as [|e0 es']; [congruence|]. cbn [map].
  change (pc_end (cap_of s e x)) with e. change (pc_start (cap_of s' e' e0)) with s'.
  destruct (Qeq_bool e 0 || negb (Qle_bool join_threshold (s' - e))); [|reflexivity].
  rewrite map_tail_app_len, map_map. reflexivity.
Qed.

Lemma fold_extb : forall r acc b, bbasic b -> Forall bbasic r ->
  st_caps (fold_left extb r (mkStash (acc ++ bcaps b) (length (bcaps b)))) = acc ++ flat_map bcaps (closeB (b :: r)).
Proof.
  induction r as [|b' r IH]; intros acc [ld [s e]] Hb Hr.
  - cbn [fold_left st_caps closeB flat_map]. rewrite app_nil_r. reflexivity.
  - inversion Hr as [|? ? Hb' Hr']; subst. cbn [fold_left]. rewrite (extb_snoc acc ld s e b' Hb Hb').
    rewrite IH by assumption. rewrite <- app_assoc. destruct b' as [ld' [s' e']]. reflexivity.
Qed.

Lemma fold_extb0 : forall l, Forall bbasic l -> st_caps (fold_left extb l stash0) = flat_map bcaps (closeB l).
Proof.
  intros [|b r] H; [reflexivity|]. inversion H as [|? ? Hb Hr]; subst. cbn [fold_left].
  rewrite (extb_first b Hb), fold_extb by assumption. reflexivity.
Qed.

Lemma closeB_basic : forall l, Forall bbasic l -> Forall bbasic (closeB l).
Proof.
  intros l H. rewrite Forall_forall in *. intros b Hb. unfold bbasic. 
  assert (Hi : In (fst b) (map fst (closeB l))) by (apply in_map; exact Hb).
  rewrite closeB_fst in Hi. apply in_map_iff in Hi. destruct Hi as (b0 & <- & Hb0). exact (H b0 Hb0).
Qed.

(* ---- 7. the tail of read() on batches ------------------------------------------------------------------------------ *)
Lemma offending_app : forall a b, offending (a ++ b) = offending a ++ offending b.
Proof. intros a b. unfold offending. rewrite map_app, concat_app. reflexivity. Qed.

Lemma batches_not_long : forall bl, Forall bbasic bl -> offending (map to_lcap (flat_map bcaps bl)) = [].
Proof.
  intros bl F. induction F as [|b bl Hb F IH]; [reflexivity|].
  cbn [flat_map]. rewrite map_app, offending_app, IH, app_nil_r. unfold bcaps, lcaps.
  apply caps_not_long. exact (proj2 (basic_load_expected _ Hb)).
Qed.

Lemma batch_flash : forall b, bbasic b -> existsb is_flash (bcaps b) = flash (snd b).
Proof.
  intros [ld [s e]] Hb. destruct (basic_load_expected ld Hb) as [Hne _]. unfold bcaps, lcaps. cbn [fst snd].
  assert (E : forall es, es <> [] -> existsb is_flash (map (cap_of s e) es) = flash (s, e)).
  { induction es as [|x es IH]; intros H; [congruence|]. cbn [map existsb].
    change (is_flash (cap_of s e x)) with (flash (s, e)). destruct es as [|y es]; [apply orb_false_r|].
    rewrite IH by discriminate. apply orb_diag. }
  apply E. exact Hne.
Qed.

Lemma batches_flash : forall bl, Forall bbasic bl -> existsb is_flash (flat_map bcaps bl) = existsb flash (map snd bl).
Proof.
  intros bl F. induction F as [|b bl Hb F IH]; [reflexivity|].
  cbn [flat_map map existsb]. rewrite existsb_app, IH, (batch_flash b Hb). reflexivity.
Qed.

Lemma bcaps_nonempty : forall b, bbasic b -> bcaps b <> [].
Proof.
  intros [ld [s e]] Hb. destruct (basic_load_expected ld Hb) as [Hne _]. unfold bcaps, lcaps. cbn [fst snd].
  destruct (expected_load ld); [congruence|discriminate].
Qed.

Lemma finish_read_batches : forall st bl, Forall bbasic bl -> st_caps st = flat_map bcaps bl ->
  finish_read st = if existsb flash (map snd bl) then RErr ETiming
                   else match bl with [] => RErr ENoCaptions | _ => ROk (fix_last (flat_map bcaps bl)) end.
Proof.
  intros st bl F E. unfold finish_read. rewrite E.
  rewrite (proj2 (length_check_none_iff _) (batches_not_long bl F)), (batches_flash bl F).
  destruct (existsb flash (map snd bl)); [reflexivity|]. destruct bl as [|b bl']; [reflexivity|].
  inversion F as [|? ? Hb F']; subst. pose proof (bcaps_nonempty b Hb) as Hne. cbn [flat_map] in *.
  destruct (bcaps b) as [|c0 cs]; [congruence|]. reflexivity.
Qed.

Lemma bcaps_ended : forall bl, Forall pos_end (map snd bl) -> forall c, In c (flat_map bcaps bl) -> Qeq_bool (pc_end c) 0 = false.
Proof.
  intros bl H c Hc. apply in_flat_map in Hc. destruct Hc as ([ld [s e]] & Hb & Hc).
  unfold bcaps, lcaps in Hc. cbn [fst snd] in Hc. apply in_map_iff in Hc. destruct Hc as (x & <- & _).
  change (pc_end (cap_of s e x)) with e. apply Qeq_bool_pos_false.
  rewrite Forall_forall in H. apply (H (s, e)). change (s, e) with (snd (ld, (s, e))). apply in_map. exact Hb.
Qed.

Lemma map_snd_app_inv : forall (bl : list batch) l p, map snd bl = l ++ [p] ->
  exists bl1 ld, bl = bl1 ++ [(ld, p)] /\ map snd bl1 = l.
Proof.
  intros bl l p H. induction bl as [|b0 bl0 _] using rev_ind.
  - destruct l; discriminate.
  - rewrite map_app in H. cbn [map] in H. apply app_inj_tail in H. destruct H as [H1 H2]. destruct b0 as [ld p0]. cbn [snd] in H2.
    subst p0. exists bl0, ld. split; [reflexivity|exact H1].
Qed.

(* ---- 8. the read theorem: the captions of load i carry the i-th span of the display events ---------------------- *)
Theorem popon_stage6_read_batches : forall d off segs evs,
  forallb pseg_ok segs = true -> res_map (pseg_event d off) segs = Ok evs -> positive evs ->
  match expected_with join_threshold evs with
  | Ok spans => exists bl, map fst bl = ploads_of segs /\ map snd bl = spans /\
                           read off (map (pseg_line d) segs) = ROk (flat_map bcaps bl)
  | Err e => read off (map (pseg_line d) segs) = RErr e
  end.
Proof.
  intros d off segs evs Hok He Hp. destruct (pseg_items d off segs evs He) as (its & Hi & Hm & Hr).
  rewrite (read_psegs d off segs its Hok Hi). unfold a06. rewrite afold6.
  assert (Fb : Forall bbasic (braw its None)).
  { apply braw_basic. cbn [qload app]. rewrite Hr. apply ploads_basic. exact Hok. }
  pose proof (closeB_basic _ Fb) as Fc.
  rewrite (finish_read_batches _ (closeB (braw its None)) Fc (fold_extb0 _ Fb)).
  assert (Ef : map fst (closeB (braw its None)) = ploads_of segs) by (rewrite closeB_fst, braw_fst; exact Hr).
  assert (Es : map snd (closeB (braw its None)) = closeM (map deflt (raw_spans evs None))).
  { rewrite closeB_snd, braw_snd, Hm. reflexivity. }
  revert Fc Ef Es. generalize (closeB (braw its None)). intros bl Fc Ef Es.
  assert (G : good (raw_spans evs None)) by (apply raw_spans_good; [exact Hp|intros s Hs; discriminate]).
  unfold expected_with. cbv zeta.
  destruct (close_shape _ G) as [[HF HE]|[l [s [HF [Hs [HE HG]]]]]].
  - rewrite HE in Es. rewrite <- Es in *. destruct (existsb flash (map snd bl)); [reflexivity|].
    destruct bl as [|b bl']; [reflexivity|]. cbn [map]. exists (b :: bl'). split; [exact Ef|split; [reflexivity|]].
    rewrite fix_last_ended; [reflexivity|]. apply bcaps_ended. exact HF.
  - rewrite HE in Es. rewrite HG. destruct (map_snd_app_inv bl l (s, 0%Q) Es) as (bl1 & ld & -> & E1).
    rewrite map_app, !existsb_app. cbn [map existsb snd].
    change (flash (s, 0%Q)) with (is_flash (cue s 0)). rewrite (pending_not_flash s Hs), four_s_not_flash. rewrite E1.
    destruct (existsb flash l); [reflexivity|]. cbn [orb].
    assert (X : forall (A : Type) (x : A) (k : list A) (R : Type) (a b : R),
                   match k ++ [x] with [] => a | _ :: _ => b end = b) by (intros A x [|y k] R a b; reflexivity).
    rewrite !X. exists (bl1 ++ [(ld, (s, (s + four_s)%Q))]). rewrite !map_app in *. cbn [map fst snd] in *.
    split; [exact Ef|split; [rewrite E1; reflexivity|]].
    rewrite !flat_map_app. cbn [flat_map]. rewrite !app_nil_r. rewrite fix_last_spec_all.
    + f_equal. f_equal. unfold bcaps, lcaps. cbn [fst snd]. rewrite map_map. reflexivity.
    + intros c Hc. unfold bcaps, lcaps in Hc. cbn [fst snd] in Hc. apply in_map_iff in Hc. destruct Hc as (x & <- & _). reflexivity.
    + apply bcaps_ended. rewrite E1. exact HF.
Qed.

Lemma combine_fst_snd : forall A X (l : list (A * X)), combine (map fst l) (map snd l) = l.
Proof. intros A X. induction l as [|[a b] l IH]; [reflexivity|]. cbn [map combine fst snd]. rewrite IH. reflexivity. Qed.

(* the same, with the batches written out: load i paired with span i *)
Corollary popon_stage6_read : forall d off segs evs,
  forallb pseg_ok segs = true -> res_map (pseg_event d off) segs = Ok evs -> positive evs ->
  match expected_with join_threshold evs with
  | Ok spans => length spans = length (ploads_of segs) /\
                read off (map (pseg_line d) segs)
                = ROk (flat_map (fun b => map (cap_of (fst (snd b)) (snd (snd b))) (expected_load (fst b)))
                                (combine (ploads_of segs) spans))
  | Err e => read off (map (pseg_line d) segs) = RErr e
  end.
Proof.
  intros d off segs evs Hok He Hp. pose proof (popon_stage6_read_batches d off segs evs Hok He Hp) as H.
  destruct (expected_with join_threshold evs) as [spans|e]; [|exact H].
  destruct H as (bl & <- & <- & ->). rewrite combine_fst_snd, !map_length. split; reflexivity.
Qed.

(* ---- 9. C06: the times --------------------------------------------------------------------------------------------- *)
(* the spans read: span i repeated once per caption of load i *)
Definition bspans (b : batch) : list (Q * Q) := repeat (snd b) (length (expected_load (fst b))).

Lemma spans_batches : forall bl, map (fun c => (pc_start c, pc_end c)) (flat_map bcaps bl) = flat_map bspans bl.
Proof.
  induction bl as [|[ld [s e]] bl IH]; [reflexivity|]. cbn [flat_map]. rewrite map_app, IH. f_equal.
  unfold bcaps, lcaps, bspans. cbn [fst snd]. rewrite map_map. cbn [cap_of pc_start pc_end].
  induction (expected_load ld) as [|x es IHes]; [reflexivity|]. cbn [map length repeat]. rewrite IHes. reflexivity.
Qed.

(* multiplicity version of C06: exactly the expected spans, the span of load i repeated length (expected_load l_i) times *)
Theorem popon_stage6_spans_mult : forall d off segs evs,
  forallb pseg_ok segs = true -> res_map (pseg_event d off) segs = Ok evs -> positive evs ->
  spans_of (read off (map (pseg_line d) segs))
  = rmap (fun spans => flat_map bspans (combine (ploads_of segs) spans)) (expected_with join_threshold evs).
Proof.
  intros d off segs evs Hok He Hp. pose proof (popon_stage6_read_batches d off segs evs Hok He Hp) as H.
  destruct (expected_with join_threshold evs) as [spans|e]; cbn [rmap].
  - destruct H as (bl & <- & <- & ->). cbn [spans_of]. rewrite combine_fst_snd, spans_batches. reflexivity.
  - rewrite H. reflexivity.
Qed.

Lemma Qeq_bool_refl : forall q, Qeq_bool q q = true.
Proof. intros q. apply Qeq_bool_iff. reflexivity. Qed.

Lemma screens_repeat : forall x n rest, screens (repeat x (S n) ++ rest) = screens (x :: rest).
Proof.
  intros x. induction n as [|n IH]; intros rest; [reflexivity|].
  change (repeat x (S (S n)) ++ rest) with (x :: x :: (repeat x n ++ rest)).
  change (screens (x :: x :: (repeat x n ++ rest)))
    with (if Qeq_bool (fst x) (fst x) && Qeq_bool (snd x) (snd x) then screens (x :: (repeat x n ++ rest))
          else x :: screens (x :: (repeat x n ++ rest))).
  rewrite !Qeq_bool_refl. cbn [andb]. exact (IH rest).
Qed.

Lemma screens_cons_hd : forall x l l', hd_error l = hd_error l' -> screens l = screens l' -> screens (x :: l) = screens (x :: l').
Proof.
  intros x l l' Hh Hs. destruct l as [|y l], l' as [|y' l'']; try discriminate Hh; [reflexivity|].
  inversion Hh. subst y'. cbn [screens] in *. rewrite Hs. reflexivity.
Qed.

Lemma screens_batches : forall bl, Forall bbasic bl -> screens (flat_map bspans bl) = screens (map snd bl).
Proof.
  intros bl F. induction F as [|b bl Hb F IH]; [reflexivity|].
  destruct (basic_load_expected _ Hb) as [Hne _]. cbn [flat_map map]. unfold bspans at 1.
  destruct (expected_load (fst b)) as [|e0 es]; [congruence|]. cbn [length]. rewrite screens_repeat.
  apply screens_cons_hd; [|exact IH].
  destruct F as [|b' bl' Hb' F']; [reflexivity|]. destruct (basic_load_expected _ Hb') as [Hne' _].
  cbn [flat_map map hd_error]. unfold bspans at 1. destruct (expected_load (fst b')) as [|e1 es']; [congruence|]. reflexivity.
Qed.

(* C06 *)
Theorem popon_stage6_spans : forall d off segs evs,
  forallb pseg_ok segs = true -> res_map (pseg_event d off) segs = Ok evs -> positive evs ->
  rmap screens (spans_of (read off (map (pseg_line d) segs))) = rmap screens (expected_with join_threshold evs).
Proof.
  intros d off segs evs Hok He Hp. pose proof (popon_stage6_read_batches d off segs evs Hok He Hp) as H.
  destruct (expected_with join_threshold evs) as [spans|e]; cbn [rmap].
  - destruct H as (bl & Hf & <- & ->). cbn [spans_of rmap]. rewrite spans_batches, screens_batches; [reflexivity|].
    assert (Fl : Forall (fun l => basic_load l = true) (map fst bl)) by (rewrite Hf; apply ploads_basic; exact Hok).
    rewrite Forall_forall in *. intros b Hb. apply Fl. apply in_map. exact Hb.
  - rewrite H. reflexivity.
Qed.

(* ---- 10. C05: the property oracle ---------------------------------------------------------------------------------- *)
(* The oracle demands start < end for every caption and strictly increasing starts from load to load. The instants of a
   stream are whatever its timecodes say, so this needs a hypothesis on the events: every event happens strictly after
   the most recent Show (in particular the Show instants increase strictly, and a caption is taken off the screen
   strictly after it was shown). Strictly increasing event instants imply it (sorted_after_show). *)
Fixpoint after_show (last : option Q) (evs : list ev) : Prop :=
  match evs with
  | [] => True
  | e :: r => match last with Some s => (s < ev_time e)%Q | None => True end
              /\ after_show (match e with Show t => Some t | Clear _ => last end) r
  end.

Definition lt_opt (lo : option Q) (s : Q) : Prop := match lo with Some x => (x < s)%Q | None => True end.

Fixpoint wf_raw (lo : option Q) (l : list (Q * option Q)) : Prop :=
  match l with
  | [] => True
  | (s, oe) :: t => lt_opt lo s /\ match oe with Some e => (s < e)%Q | None => True end /\ wf_raw (Some s) t
  end.

Fixpoint wf_spans (lo : option Q) (l : list (Q * Q)) : Prop :=
  match l with
  | [] => True
  | (s, e) :: t => lt_opt lo s /\ (s < e)%Q /\ wf_spans (Some s) t
  end.

Lemma raw_wf : forall evs last shown lo, after_show last evs ->
  match shown with Some s => last = Some s /\ lt_opt lo s | None => lo = last end ->
  wf_raw lo (raw_spans evs shown).
Proof.
  induction evs as [|e evs IH]; intros last shown lo Ha Hs.
  - destruct shown as [s|]; cbn [raw_spans wf_raw]; [|exact I]. destruct Hs as [_ Hs]. auto.
  - cbn [after_show] in Ha. destruct Ha as [Hlt Ha]. destruct e as [t|t]; cbn [ev_time raw_spans] in *.
    + destruct shown as [s|].
      * destruct Hs as [-> Hlo]. cbn [app wf_raw]. split; [exact Hlo|split; [exact Hlt|]].
        apply (IH (Some t)); [exact Ha|]. split; [reflexivity|exact Hlt].
      * subst lo. cbn [app]. apply (IH (Some t)); [exact Ha|]. split; [reflexivity|exact Hlt].
    + destruct shown as [s|].
      * destruct Hs as [-> Hlo]. cbn [app wf_raw]. split; [exact Hlo|split; [exact Hlt|]].
        apply (IH (Some s)); [exact Ha|reflexivity].
      * subst lo. cbn [app]. apply (IH last); [exact Ha|reflexivity].
Qed.

Lemma four_s_pos : forall s : Q, (s < s + four_s)%Q.
Proof. intros s. unfold four_s. change (inject_Z 4000000) with (4000000 # 1)%Q. lra. Qed.

Lemma close_wf : forall thr r lo, wf_raw lo r -> wf_spans lo (close_gaps thr r).
Proof.
  intros thr. induction r as [|[s oe] r IH]; intros lo H; [exact I|].
  cbn [wf_raw] in H. destruct H as (Hlo & He & Hr). cbn [close_gaps wf_spans]. split; [exact Hlo|split; [|apply IH; exact Hr]].
  destruct oe as [e|]; [|apply four_s_pos]. destruct r as [|[s' oe'] r']; [exact He|].
  destruct (Qle_bool thr (s' - e)); [exact He|]. cbn [wf_raw lt_opt] in Hr. apply Hr.
Qed.

Lemma expected_wf : forall thr evs spans, after_show None evs -> expected_with thr evs = Ok spans -> wf_spans None spans.
Proof.
  intros thr evs spans Ha H. unfold expected_with in H. cbv zeta in H.
  destruct (existsb flash _); [discriminate|].
  assert (W : wf_spans None (close_gaps thr (raw_spans evs None))).
  { apply close_wf. apply (raw_wf evs None None None Ha). reflexivity. }
  destruct (close_gaps thr (raw_spans evs None)); [discriminate|]. inversion H. subst spans. exact W.
Qed.

(* strictly increasing event instants are enough *)
Fixpoint increasing (last : option Q) (evs : list ev) : Prop :=
  match evs with
  | [] => True
  | e :: r => lt_opt last (ev_time e) /\ increasing (Some (ev_time e)) r
  end.

Lemma sorted_after_show : forall evs last prev, increasing prev evs ->
  match last with Some s => match prev with Some p => (s <= p)%Q | None => False end | None => True end ->
  after_show last evs.
Proof.
  induction evs as [|e evs IH]; intros last prev Hi Hl; [exact I|].
  cbn [increasing after_show] in *. destruct Hi as [Hp Hi]. split.
  - destruct last as [s|]; [|exact I]. destruct prev as [p|]; [|contradiction]. cbn [lt_opt] in Hp. cbv beta iota in Hl. lra.
  - apply (IH _ (Some (ev_time e)) Hi). destruct e as [t|t]; cbn [ev_time] in *.
    + apply Qle_refl.
    + destruct last as [s|]; [|exact I]. destruct prev as [p|]; [|contradiction]. cbn [lt_opt] in Hp. cbv beta iota in Hl. lra.
Qed.

Corollary increasing_after_show : forall evs, increasing None evs -> after_show None evs.
Proof. intros evs H. apply (sorted_after_show evs None None H). exact I. Qed.

(* the captions of one load, followed by the rest of the observation *)
Lemma load_ok_rest : forall t1 t2 es rest, Forall good_ecap es -> (t1 < t2)%Q -> forall span,
  span = None \/ span = Some (t1, t2) ->
  load_ok es (map (ocap_of t1 t2) es ++ rest) span = Some (rest, match es with [] => span | _ => Some (t1, t2) end).
Proof.
  intros t1 t2 es rest F Hlt. induction F as [|e es He F IH]; intros span Hs; [reflexivity|].
  cbn [map app load_ok]. rewrite (cap_ok_good t1 t2 e He Hlt). cbn [andb].
  assert (Hq : match span with
               | Some (s, t) => Qeq_bool s (o_start (ocap_of t1 t2 e)) && Qeq_bool t (o_end (ocap_of t1 t2 e))
               | None => true
               end = true).
  { destruct Hs as [->| ->]; [reflexivity|]. cbn [ocap_of o_start o_end].
    apply andb_true_iff. split; apply Qeq_bool_iff; reflexivity. }
  rewrite Hq. cbn [ocap_of o_start o_end]. rewrite IH by (right; reflexivity). destruct es; reflexivity.
Qed.

Definition bocaps (b : batch) : list ocap := map (ocap_of (fst (snd b)) (snd (snd b))) (expected_load (fst b)).

Lemma observe_batches : forall bl, map observe (flat_map bcaps bl) = flat_map bocaps bl.
Proof.
  induction bl as [|b bl IH]; [reflexivity|]. cbn [flat_map]. rewrite map_app, IH. f_equal.
  unfold bcaps, lcaps, bocaps. rewrite map_map. apply map_ext. intros e. apply observe_cap_of.
Qed.

Lemma loads_ok_batches : forall bl prev, Forall bbasic bl -> wf_spans prev (map snd bl) ->
  loads_ok (map fst bl) (flat_map bocaps bl) prev = true.
Proof.
  intros bl prev F. revert prev. induction F as [|[ld [s e]] bl Hb F IH]; intros prev W; [reflexivity|].
  cbn [map snd wf_spans] in W. destruct W as (Hlo & Hlt & W).
  destruct (basic_load_expected ld Hb) as [Hne Hg]. cbn [map fst flat_map loads_ok]. unfold bocaps at 1. cbn [fst snd].
  rewrite (load_ok_rest s e _ _ Hg Hlt None (or_introl eq_refl)).
  destruct (expected_load ld) as [|e0 es]; [congruence|]. rewrite (IH (Some s) W), andb_true_r.
  destruct prev as [p|]; [|reflexivity]. cbn [lt_opt] in Hlo.
  destruct (Qle_bool s p) eqn:E; [|reflexivity]. apply Qle_bool_iff in E. exfalso. exact (Qlt_not_le _ _ Hlo E).
Qed.

(* C05: the whole program, as the harness observes it, satisfies the property oracle *)
Theorem popon_stage6_ok : forall d off segs evs caps,
  forallb pseg_ok segs = true -> res_map (pseg_event d off) segs = Ok evs -> positive evs -> after_show None evs ->
  read off (map (pseg_line d) segs) = ROk caps ->
  ok_c05 (mkProg d (ploads_of segs)) (Ok (map observe caps)) = true.
Proof.
  intros d off segs evs caps Hok He Hp Ha Hread. pose proof (popon_stage6_read_batches d off segs evs Hok He Hp) as H.
  destruct (expected_with join_threshold evs) as [spans|e] eqn:Ee; [|rewrite H in Hread; discriminate].
  destruct H as (bl & Hf & Hs & Hr). rewrite Hr in Hread. inversion Hread. subst caps.
  unfold ok_c05. cbn [pg_loads]. rewrite observe_batches, <- Hf. apply loads_ok_batches.
  - assert (Fl : Forall (fun l => basic_load l = true) (map fst bl)) by (rewrite Hf; apply ploads_basic; exact Hok).
    rewrite Forall_forall in *. intros b Hb. apply Fl. apply in_map. exact Hb.
  - rewrite Hs. exact (expected_wf _ evs spans Ha Ee).
Qed.

(* with the read outcome made explicit: a stream whose expected spans contain no flash is read, and meets the oracle *)
Corollary popon_stage6 : forall d off segs evs spans,
  forallb pseg_ok segs = true -> res_map (pseg_event d off) segs = Ok evs -> positive evs -> after_show None evs ->
  expected_with join_threshold evs = Ok spans ->
  exists caps, read off (map (pseg_line d) segs) = ROk caps /\
               ok_c05 (mkProg d (ploads_of segs)) (Ok (map observe caps)) = true /\
               dom_c05 (mkProg d (ploads_of segs)) = true.
Proof.
  intros d off segs evs spans Hok He Hp Ha Ee. pose proof (popon_stage6_read_batches d off segs evs Hok He Hp) as H.
  rewrite Ee in H. destruct H as (bl & Hf & Hs & Hr). exists (flat_map bcaps bl). split; [exact Hr|split].
  - exact (popon_stage6_ok d off segs evs _ Hok He Hp Ha Hr).
  - unfold dom_c05. cbn [pg_loads]. pose proof (ploads_basic segs Hok) as Fl.
    destruct (ploads_of segs) as [|l0 ls] eqn:El.
    + exfalso. destruct bl as [|b bl']; [|discriminate Hf]. cbn [map] in Hs. subst spans.
      unfold expected_with in Ee. cbv zeta in Ee. destruct (existsb flash _); [discriminate|].
      destruct (close_gaps _ _); discriminate.
    + apply forallb_forall. intros l Hl. rewrite Forall_forall in Fl. specialize (Fl l Hl).
      unfold basic_load in Fl. apply andb_true_iff in Fl. apply Fl.
Qed.

(* ---- 11. non-vacuity ------------------------------------------------------------------------------------------------- *)
(* two loads (three captions, then one), a clear line in between: four captions, spans 1.. as expected *)
Definition wit_segs : list pseg :=
  [PLoad (lit "00:00:01;00") wit_load; PClear (lit "00:00:03;00");
   PLoad (lit "00:00:04;00") [wit_row 15 0 0 (lit "ok")]].
Example wit_segs_ok : forallb pseg_ok wit_segs = true /\
  map (fun l => length (expected_load l)) (ploads_of wit_segs) = [3; 1]%nat.
Proof. vm_compute. split; reflexivity. Qed.

(* the hypotheses of the theorems hold for it (doubled control codes, offset 0), and the model, run directly, returns
   the three captions of the first load with the span of the first Show and the caption of the second with its own *)
Example wit_segs_run :
  let evs := [Show (5600000 # 3); Clear 3000000; Show (12700000 # 3)] in
  res_map (pseg_event true 0) wit_segs = Ok evs /\ positive evs /\ after_show None evs /\
  expected_with join_threshold evs = Ok [(5600000 # 3, 3000000%Q); (12700000 # 3, 24700000 # 3)] /\
  spans_of (read 0 (map (pseg_line true) wit_segs))
  = Ok [(5600000 # 3, 3000000%Q); (5600000 # 3, 3000000%Q); (5600000 # 3, 3000000%Q); (12700000 # 3, 24700000 # 3)].
Proof.
  cbv zeta. split; [vm_compute; reflexivity|]. split.
  - intros e [<-|[<-|[<-|[]]]]; reflexivity.
  - split; [cbn; repeat split|split; vm_compute; reflexivity].
Qed.

(* the hypothesis `after_show` of popon_stage6_ok cannot be dropped: timecodes running backwards give positive instants,
   the stream is read, and the first caption ends before it starts, which the oracle rejects *)
Definition back_segs : list pseg :=
  [PLoad (lit "00:00:05;00") [wit_row 15 0 0 (lit "a")]; PLoad (lit "00:00:01;00") [wit_row 15 0 0 (lit "b")]].
Example after_show_needed :
  forallb pseg_ok back_segs = true /\
  res_map (pseg_event false 0) back_segs = Ok [Show (15400000 # 3); Show (3400000 # 3)] /\
  positive [Show (15400000 # 3); Show (3400000 # 3)] /\
  match read 0 (map (pseg_line false) back_segs) with
  | ROk caps => ok_c05 (mkProg false (ploads_of back_segs)) (Ok (map observe caps)) = false
  | _ => False
  end.
Proof.
  split; [vm_compute; reflexivity|]. split; [vm_compute; reflexivity|]. split.
  - intros e [<-|[<-|[]]]; reflexivity.
  - vm_compute. reflexivity.
Qed.

(* Open: nothing of the stage-6 plan. Outside this stage (as in stages 1, 3, 4): rows with special / extended characters,
   mid-row codes, backspaces, italic or coloured preambles (stage 2 / 5 material), and streams whose loads are not each
   on a line of their own. *)
