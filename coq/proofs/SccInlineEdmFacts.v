(* C05 / C06 / C17 gap, wave 7: the Erase-Displayed-Memory code INSIDE a load line, before its End-Of-Caption
   (`94ae 94ae 9420 9420 <rows> 942c 942c 942f 942f`, the line pycaption's own SCCWriter produces).

   1. FRAME: a "quiet" word (anything but RDC, RU2/3/4, EOC, CR, EDM) in pop-on mode neither reads nor writes the
      display side of the reader state (caption stash, pop-on queue, self.time, the timecode string): frame_tw / frame_tws.
   2. the prologue ENM RCL forgets last_command / double_starter / the buffer (prologue_det);
      EDM single or doubled on any pop-on state (edm_ctl); EOC forgets last_command (eoc_washout).
   3. INLINE: from any pop-on state, the line  ENM RCL body EDM EOC  (body quiet) leaves the reader in the same state -
      up to the representation of the clock - as the two lines  EDM | ENM RCL body EOC  stamped with the instants the
      EDM and EOC words have on the one line (inline_edm).
   4. quiet_rows: the words of a well-formed load (load_wf) are quiet.
   5. whole programs: segments wseg = a line of the old layout (PLoad / PClear) or a writer-style load line (WInline);
      read of the stream = read of the expanded pseg stream (read_wsegs); popon_refines_608_inline, popon_times_inline. *)
From Coq Require Import List ZArith QArith Lia Bool ZifyBool.
From PV Require Import lib.Sx lib.Str lib.Result model.GenScc model.SccLen model.SccTime model.SccStash model.SccDecoder model.SccPopon.
From PV Require Import spec.Spec608 spec.SpecScc05 spec.SpecScc05Inline spec.SpecSccTime.
From PV Require Import proofs.SccTableFacts proofs.SccTimeFacts proofs.SccPoponFacts proofs.SccPoponStage1 proofs.SccPoponStage2 proofs.SccPoponStage3 proofs.SccPoponStage4
                       proofs.SccPoponStage6 proofs.SccPoponStage7 proofs.SccPoponStage8 proofs.SccPoponStage9
                       proofs.SccLineLayoutFacts.
Import ListNotations.
Open Scope Z_scope.

(* ================================================================================================== *)
(* 1. the frame lemma                                                                                  *)

(* quiet : spec/SpecScc05Inline.v *)

(* x with another display side *)
Definition fr_set (x : rstate) (st : stash) (q : option (creator * Q)) (tm : Q) (tc : str) : rstate :=
  mkR st (r_tk x) (r_last x) (r_dstart x) (r_pop x) (r_paint x) (r_roll x) (r_active x) q tm tc (r_frames x) (r_offset x)
      (r_err x).

Lemma fr_eta : forall x, fr_set x (r_stash x) (r_queue x) (r_time x) (r_tc x) = x.
Proof. intros x. destruct x. reflexivity. Qed.

Lemma quiet_parts : forall w, quiet w = true ->
  (w =? w_rdc) = false /\ (w =? w_ru2) = false /\ (w =? w_ru3) = false /\ (w =? w_ru4) = false /\ (w =? w_eoc) = false /\
  (w =? w_cr) = false /\ (w =? w_edm) = false.
Proof.
  intros w H. unfold quiet in H. apply negb_true_iff in H.
  repeat (apply orb_false_iff in H; let H' := fresh "H" in destruct H as [H H']). repeat split; assumption.
Qed.

Lemma frame_hd : forall x st q tm tc w,
  handle_double (fr_set x st q tm tc) w = (fst (handle_double x w), fr_set (snd (handle_double x w)) st q tm tc).
Proof.
  intros x st q tm tc w. destruct x as [st0 tk0 l0 ds0 po pa ro ac q0 tm0 tc0 fr0 off0 e0]. unfold handle_double, fr_set. proj_red. cbv zeta.
  repeat match goal with
         | |- context [if ?b then _ else _] => destruct b
         | |- context [match ?x with _ => _ end] => destruct x
         end; reflexivity.
Qed.

Lemma hd_active : forall x w, r_active (snd (handle_double x w)) = r_active x.
Proof.
  intros x w. unfold handle_double. cbv zeta.
  repeat match goal with
         | |- context [if ?b then _ else _] => destruct b
         | |- context [match ?x with _ => _ end] => destruct x
         end; cbn [snd]; destruct x; reflexivity.
Qed.

Lemma frame_tc : forall x st q tm tc w n, r_active x = MPop -> quiet w = true ->
  translate_command (fr_set x st q tm tc) w n = fr_set (translate_command x w n) st q tm tc.
Proof.
  intros x st q tm tc w n Ha Hq. destruct (quiet_parts w Hq) as (H1 & H2 & H3 & H4 & H5 & H6 & H7).
  destruct x as [st0 tk0 l0 ds0 po pa ro ac q0 tm0 tc0 fr0 off0 e0]. cbn [r_active] in Ha. subst. unfold translate_command, fr_set. rewrite H1, H2, H3, H4, H5, H6, H7. proj_red.
  destruct (w =? w_rcl); [unfold activate; proj_red; cbn [mode_eqb]; reflexivity|].
  destruct (w =? w_enm); [reflexivity|].
  unfold do_interpret. proj_red.
  destruct (interpret_command tk0 po w n) as [[t c] e]. destruct e; reflexivity.
Qed.

Lemma frame_add : forall x st q tm tc txt, add_to_buf (fr_set x st q tm tc) txt = fr_set (add_to_buf x txt) st q tm tc.
Proof.
  intros x st q tm tc txt. destruct x as [st0 tk0 l0 ds0 po pa ro ac q0 tm0 tc0 fr0 off0 e0]. unfold add_to_buf, fr_set. proj_red.
  destruct ac; proj_red; match goal with |- context [add_chars ?a ?b ?c] => destruct (add_chars a b c) end; reflexivity.
Qed.

Lemma frame_buf : forall x st q tm tc, buf (fr_set x st q tm tc) = buf x.
Proof. intros x st q tm tc. destruct x as [st0 tk0 l0 ds0 po pa ro ac q0 tm0 tc0 fr0 off0 e0]. destruct ac; reflexivity. Qed.
Lemma frame_set_buf : forall x st q tm tc c, set_buf (fr_set x st q tm tc) c = fr_set (set_buf x c) st q tm tc.
Proof. intros x st q tm tc c. destruct x as [st0 tk0 l0 ds0 po pa ro ac q0 tm0 tc0 fr0 off0 e0]. destruct ac; reflexivity. Qed.
Lemma frame_bump : forall x st q tm tc, bump (fr_set x st q tm tc) = fr_set (bump x) st q tm tc.
Proof. intros x st q tm tc. destruct x. reflexivity. Qed.
Lemma frame_tail : forall y st q tm tc,
  match r_err (fr_set y st q tm tc) with Some _ => fr_set y st q tm tc | None => bump (fr_set y st q tm tc) end
  = fr_set (match r_err y with Some _ => y | None => bump y end) st q tm tc.
Proof. intros y st q tm tc. destruct y as [st0 tk0 l0 ds0 po pa ro ac q0 tm0 tc0 fr0 off0 e0]. destruct e0; reflexivity. Qed.

Theorem frame_tw : forall x st q tm tc w n, r_active x = MPop -> quiet w = true ->
  translate_word (fr_set x st q tm tc) w n = fr_set (translate_word x w n) st q tm tc.
Proof.
  intros x st q tm tc w n Ha Hq. unfold translate_word.
  replace (r_err (fr_set x st q tm tc)) with (r_err x) by (destruct x; reflexivity).
  destruct (r_err x); [reflexivity|].
  rewrite frame_hd. pose proof (hd_active x w) as Hact. destruct (handle_double x w) as [k a]. cbn [fst snd] in *.
  rewrite Ha in Hact. destruct k; [apply frame_bump|]. cbv zeta.
  destruct (is_command w || is_pac w).
  { rewrite (frame_tc a st q tm tc w n Hact Hq). apply frame_tail. }
  destruct (special_of w); [rewrite frame_add; apply frame_tail|].
  destruct (extended_of w); [rewrite frame_buf, frame_set_buf, frame_add; apply frame_tail|].
  destruct (char_of (hi w)); [|apply frame_tail]. destruct (char_of (lo w)); [rewrite frame_add|]; apply frame_tail.
Qed.

Lemma quiet_active : forall x w n, r_active x = MPop -> quiet w = true -> r_active (translate_word x w n) = MPop.
Proof.
  intros x w n Ha Hq. unfold translate_word. destruct (r_err x); [exact Ha|].
  pose proof (hd_active x w) as Hact. destruct (handle_double x w) as [k a]. cbn [snd] in Hact. rewrite Ha in Hact.
  destruct k; [destruct a; exact Hact|]. cbv zeta.
  assert (T : forall y, r_active y = MPop -> r_active (match r_err y with Some _ => y | None => bump y end) = MPop).
  { intros y Hy. destruct y as [st0 tk0 l0 ds0 po pa ro ac q0 tm0 tc0 fr0 off0 e0]. destruct e0; exact Hy. }
  assert (A : forall txt y, r_active y = MPop -> r_active (add_to_buf y txt) = MPop).
  { intros txt y Hy. destruct y as [st0 tk0 l0 ds0 po pa ro ac q0 tm0 tc0 fr0 off0 e0]. cbn [r_active] in Hy. subst. unfold add_to_buf. proj_red.
    match goal with |- context [add_chars ?a ?b ?c] => destruct (add_chars a b c) end. reflexivity. }
  apply T.
  destruct (is_command w || is_pac w).
  { destruct (quiet_parts w Hq) as (H1 & H2 & H3 & H4 & H5 & H6 & H7).
    destruct a as [st0 tk0 l0 ds0 po pa ro ac q0 tm0 tc0 fr0 off0 e0]. cbn [r_active] in Hact. subst. unfold translate_command. rewrite H1, H2, H3, H4, H5, H6, H7. proj_red.
    destruct (w =? w_rcl); [unfold activate; proj_red; cbn [mode_eqb]; reflexivity|].
    destruct (w =? w_enm); [reflexivity|].
    unfold do_interpret. proj_red. destruct (interpret_command tk0 po w n) as [[t c] e]. destruct e; reflexivity. }
  destruct (special_of w); [apply A, Hact|].
  destruct (extended_of w); [apply A; destruct a as [st0 tk0 l0 ds0 po pa ro ac q0 tm0 tc0 fr0 off0 e0]; cbn [r_active] in Hact; subst; reflexivity|].
  destruct (char_of (hi w)); [|exact Hact]. destruct (char_of (lo w)); [apply A|]; exact Hact.
Qed.

Theorem frame_tws : forall ws x st q tm tc nx, r_active x = MPop -> forallb quiet ws = true ->
  tws (fr_set x st q tm tc) ws nx = fr_set (tws x ws nx) st q tm tc /\ r_active (tws x ws nx) = MPop.
Proof.
  induction ws as [|w t IH]; intros x st q tm tc nx Ha Hq; [split; [reflexivity|exact Ha]|].
  rewrite forallb_cons in Hq. apply andb_true_iff in Hq. destruct Hq as [Hw Ht]. cbn [tws].
  rewrite (frame_tw x st q tm tc w _ Ha Hw). apply IH; [apply quiet_active; assumption|exact Ht].
Qed.

(* what a run of quiet words leaves alone *)
Corollary quiet_keeps : forall ws x nx, r_active x = MPop -> forallb quiet ws = true ->
  r_stash (tws x ws nx) = r_stash x /\ r_queue (tws x ws nx) = r_queue x /\ r_time (tws x ws nx) = r_time x /\
  r_active (tws x ws nx) = MPop.
Proof.
  intros ws x nx Ha Hq. destruct (frame_tws ws x (r_stash x) (r_queue x) (r_time x) (r_tc x) nx Ha Hq) as [E A].
  rewrite fr_eta in E. split; [|split; [|split; [|exact A]]]; rewrite E at 1; reflexivity.
Qed.

(* ================================================================================================== *)
(* 2. the control codes around the body                                                                *)

(* ENM RCL, single or doubled, from ANY pop-on state: the result does not depend on last_command (as long as it is not
   ENM), double_starter or the pop-on buffer *)
Lemma prologue_det : forall d st tk l ds c pa ro q tm tc fr off nx, last_is l w_enm = false ->
  tws (mkR st tk l ds c pa ro MPop q tm tc fr off None) (ctl d w_enm ++ ctl d w_rcl) nx
  = mkR st (tracker_reset tk) (if d then LNone else LWord w_rcl) d creator0 pa ro MPop q tm tc (fr + (if d then 4 else 2)) off None.
Proof.
  intros d st tk l ds c pa ro q tm tc fr off nx Hl. destruct d; cbn [ctl app tws].
  - rewrite (tw_enm _ _ _ _ _ _ _ _ _ _ _ _ _ Hl).
    rewrite (tw_second _ w_enm); [|reflexivity|reflexivity|reflexivity].
    unfold bump, set_dbl, set_clock. proj_red. rewrite tw_rcl by reflexivity.
    rewrite (tw_second _ w_rcl); [|reflexivity|reflexivity|reflexivity].
    unfold bump, set_dbl, set_clock. proj_red. replace (is_cue_start w_rcl) with true by (vm_compute; reflexivity).
    f_equal. lia.
  - rewrite (tw_enm _ _ _ _ _ _ _ _ _ _ _ _ _ Hl). rewrite tw_rcl by reflexivity. f_equal. lia.
Qed.

(* Erase-Displayed-Memory is interpreted without effect on any buffer *)
Lemma interp_edm_any : forall tk c n, interpret_command tk c w_edm n = (tk, c, None).
Proof.
  intros tk c n. unfold interpret_command, update_positioning.
  replace (tab_of w_edm) with (@None Z) by (vm_compute; reflexivity).
  replace (pac_pos w_edm) with (@None pos) by (vm_compute; reflexivity).
  replace (w_edm =? w_bs) with false by reflexivity.
  replace (memz w_edm scc_background_color_codes) with false by (vm_compute; reflexivity).
  replace (memz w_edm scc_style_setting_commands) with false by (vm_compute; reflexivity).
  replace (memz w_edm scc_mid_row_codes) with false by (vm_compute; reflexivity).
  cbn [andb]. destruct (prev_text (cr_nodes c)) as [[txt brk]|]; reflexivity.
Qed.

Lemma tw_edm_none_any : forall st tk l ds c pa ro tm tc fr off n, last_is l w_edm = false ->
  translate_word (mkR st tk l ds c pa ro MPop None tm tc fr off None) w_edm n
  = mkR st tk (LWord w_edm) ds c pa ro MPop None tm tc (fr + 1) off None.
Proof.
  intros st tk l ds c pa ro tm tc fr off n Hl.
  unfold translate_word. proj_red. rewrite (hd_edm _ _ _ _ _ _ _ _ _ _ _ _ Hl). proj_red.
  replace (is_command w_edm || is_pac w_edm) with true by (vm_compute; reflexivity).
  rewrite translate_command_edm. proj_red. unfold do_interpret. proj_red. rewrite interp_edm_any. proj_red. reflexivity.
Qed.

(* EDM single or doubled on any pop-on state: a queued cue is stored with the instant of the first copy as its end; with
   nothing queued nothing happens (whatever last_command is) *)
Lemma edm_ctl : forall d st tk l ds c pa ro q tm tc fr off nx tE,
  match q with Some _ => get_time tc fr off = Ok tE /\ last_is l w_edm = false | None => True end ->
  exists l', tws (mkR st tk l ds c pa ro MPop q tm tc fr off None) (ctl d w_edm) nx
             = mkR (popped st q tE) tk l' ds c pa ro MPop None tm tc (fr + (if d then 2 else 1)) off None
             /\ (l' = LNone \/ l' = LWord w_edm).
Proof.
  intros d st tk l ds c pa ro q tm tc fr off nx tE Hq.
  assert (Hcs : is_cue_start w_edm = false) by (vm_compute; reflexivity).
  destruct q as [[c0 t0]|].
  - destruct Hq as [Hg Hl]. cbn [popped]. destruct d; cbn [ctl tws].
    + rewrite (tw_edm_some _ _ _ _ _ _ _ _ _ _ _ _ _ _ _ Hl Hg), tw_edm_skip. exists LNone. split; [f_equal; lia|left; reflexivity].
    + rewrite (tw_edm_some _ _ _ _ _ _ _ _ _ _ _ _ _ _ _ Hl Hg). exists (LWord w_edm). split; [reflexivity|right; reflexivity].
  - cbn [popped]. destruct (last_is l w_edm) eqn:Hl.
    + assert (El : l = LWord w_edm).
      { destruct l as [|x|a b]; try discriminate Hl. cbn [last_is] in Hl. apply Z.eqb_eq in Hl. subst x. reflexivity. }
      subst l. destruct d; cbn [ctl tws].
      * rewrite tw_edm_skip, tw_edm_none_any by reflexivity. exists (LWord w_edm). split; [f_equal; lia|right; reflexivity].
      * rewrite tw_edm_skip. exists LNone. split; [reflexivity|left; reflexivity].
    + destruct d; cbn [ctl tws].
      * rewrite (tw_edm_none_any _ _ _ _ _ _ _ _ _ _ _ _ Hl), tw_edm_skip. exists LNone. split; [f_equal; lia|left; reflexivity].
      * rewrite (tw_edm_none_any _ _ _ _ _ _ _ _ _ _ _ _ Hl). exists (LWord w_edm). split; [reflexivity|right; reflexivity].
Qed.

(* End-Of-Caption forgets last_command (unless it is EOC itself) *)
Lemma eoc_washout : forall d st tk l l' ds c pa ro q tm tc fr off nx, last_is l w_eoc = false -> last_is l' w_eoc = false ->
  tws (mkR st tk l ds c pa ro MPop q tm tc fr off None) (ctl d w_eoc) nx
  = tws (mkR st tk l' ds c pa ro MPop q tm tc fr off None) (ctl d w_eoc) nx.
Proof.
  intros d st tk l l' ds c pa ro q tm tc fr off nx Hl Hl'.
  assert (E : forall n, translate_word (mkR st tk l ds c pa ro MPop q tm tc fr off None) w_eoc n
                      = translate_word (mkR st tk l' ds c pa ro MPop q tm tc fr off None) w_eoc n).
  { intro n. unfold translate_word. proj_red. rewrite (hd_eoc _ _ _ _ _ _ _ _ _ _ _ _ Hl), (hd_eoc _ _ _ _ _ _ _ _ _ _ _ _ Hl').
    reflexivity. }
  destruct d; cbn [ctl tws]; rewrite E; reflexivity.
Qed.

(* ================================================================================================== *)
(* 3. the inline lemma                                                                                 *)

Lemma tws_nx : forall ws x nx, next_punct nx = false -> tws x ws nx = tws x ws None.
Proof.
  induction ws as [|w t IH]; intros x nx H; [reflexivity|]. destruct t as [|w' t'].
  - cbn [tws]. rewrite (tw_next_irrelevant x w nx); [reflexivity|]. rewrite H. apply orb_true_r.
  - change (tws x (w :: w' :: t') nx) with (tws (translate_word x w (Some w')) (w' :: t') nx).
    change (tws x (w :: w' :: t') None) with (tws (translate_word x w (Some w')) (w' :: t') None). apply IH, H.
Qed.

Lemma tws_error : forall ws x nx e, r_err x = Some e -> tws x ws nx = x.
Proof.
  induction ws as [|w t IH]; intros x nx e H; [reflexivity|]. cbn [tws]. rewrite (tw_err _ _ _ _ H). eapply IH, H.
Qed.

(* a quiet word leaves last_command as handle_double set it *)
Lemma quiet_last_hd : forall x w n, r_err x = None -> r_active x = MPop -> quiet w = true ->
  r_last (translate_word x w n) = r_last (snd (handle_double x w)).
Proof.
  intros x w n He Ha Hq. unfold translate_word. rewrite He.
  pose proof (hd_active x w) as Hact. destruct (handle_double x w) as [k a]. cbn [snd] in *. rewrite Ha in Hact.
  destruct k; [destruct a; reflexivity|]. cbv zeta.
  assert (T : forall y, r_last (match r_err y with Some _ => y | None => bump y end) = r_last y).
  { intros y. destruct y as [st0 tk0 l0 ds0 po pa ro ac q0 tm0 tc0 fr0 off0 e0]. destruct e0; reflexivity. }
  assert (A : forall txt y, r_last (add_to_buf y txt) = r_last y).
  { intros txt y. destruct y as [st0 tk0 l0 ds0 po pa ro ac q0 tm0 tc0 fr0 off0 e0]. unfold add_to_buf. proj_red.
    destruct ac; proj_red; match goal with |- context [add_chars ?a ?b ?c] => destruct (add_chars a b c) end; reflexivity. }
  rewrite T.
  destruct (is_command w || is_pac w).
  { destruct (quiet_parts w Hq) as (H1 & H2 & H3 & H4 & H5 & H6 & H7).
    destruct a as [st0 tk0 l0 ds0 po pa ro ac q0 tm0 tc0 fr0 off0 e0]. cbn [r_active] in Hact. subst.
    unfold translate_command. rewrite H1, H2, H3, H4, H5, H6, H7. proj_red.
    destruct (w =? w_rcl); [unfold activate; proj_red; cbn [mode_eqb]; reflexivity|].
    destruct (w =? w_enm); [reflexivity|].
    unfold do_interpret. proj_red. destruct (interpret_command tk0 po w n) as [[t c] e]. destruct e; reflexivity. }
  destruct (special_of w); [apply A|].
  destruct (extended_of w); [rewrite A; destruct a as [st0 tk0 l0 ds0 po pa ro ac q0 tm0 tc0 fr0 off0 e0]; destruct ac; reflexivity|].
  destruct (char_of (hi w)); [|reflexivity]. destruct (char_of (lo w)); [apply A|reflexivity].
Qed.

Lemma hd_last_ne : forall x w w0, (w =? w0) = false -> last_is (r_last x) w0 = false ->
  last_is (r_last (snd (handle_double x w))) w0 = false.
Proof.
  intros x w w0 Hne Hl. destruct x as [st0 tk0 l0 ds0 po pa ro ac q0 tm0 tc0 fr0 off0 e0]. cbn [r_last] in Hl.
  unfold handle_double. proj_red. cbv zeta.
  repeat match goal with
         | |- context [if ?b then _ else _] => destruct b
         | |- context [match ?x with _ => _ end] => destruct x
         end; cbn [snd]; proj_red; cbn [last_is]; try reflexivity; try exact Hne; try exact Hl; try discriminate.
Qed.

Lemma quiet_last : forall w0, quiet w0 = false -> forall ws x nx, r_active x = MPop -> forallb quiet ws = true ->
  last_is (r_last x) w0 = false -> last_is (r_last (tws x ws nx)) w0 = false.
Proof.
  intros w0 H0. induction ws as [|w t IH]; intros x nx Ha Hq Hl; [exact Hl|].
  rewrite forallb_cons in Hq. apply andb_true_iff in Hq. destruct Hq as [Hw Ht]. cbn [tws].
  apply IH; [apply quiet_active; assumption|exact Ht|].
  destruct (r_err x) eqn:He; [rewrite (tw_err _ _ _ _ He); exact Hl|].
  rewrite (quiet_last_hd x w _ He Ha Hw). apply hd_last_ne; [|exact Hl].
  destruct (Z.eqb_spec w w0) as [->|]; [congruence|reflexivity].
Qed.

Lemma ctl_length2 : forall d w, Z.of_nat (length (ctl d w)) = if d then 2 else 1.
Proof. intros [|] w; reflexivity. Qed.

(* THE INLINE LEMMA. From any pop-on state: the writer's load line (body quiet) = the clear line, then the load line *)
Theorem inline_edm : forall d s tc tcE tcL body',
  r_err s = None -> r_active s = MPop -> last_is (r_last s) w_enm = false ->
  (last_is (r_last s) w_edm = false \/ r_queue s = None) ->
  forallb quiet body' = true ->
  same_clock (r_offset s) tc (Z.of_nat (length (ctl d w_enm ++ ctl d w_rcl ++ body'))) tcE ->
  same_clock (r_offset s) tc (if d then 2 else 1) tcL ->
  r_err (translate_line (translate_line s (tcE, ctl d w_edm)) (tcL, (ctl d w_enm ++ ctl d w_rcl ++ body') ++ ctl d w_eoc)) = None ->
  state_eq (translate_line s (tc, (ctl d w_enm ++ ctl d w_rcl ++ body') ++ ctl d w_edm ++ ctl d w_eoc))
           (translate_line (translate_line s (tcE, ctl d w_edm)) (tcL, (ctl d w_enm ++ ctl d w_rcl ++ body') ++ ctl d w_eoc)).
Proof.
  intros d s tc tcE tcL body' He Ha Hl Hlq Hq HcE HcL Hne.
  destruct s as [st tk l ds c pa ro ac q tm tc0 fr0 off e]. cbn [r_err r_active r_last r_queue r_offset] in *. subst ac e.
  set (k := if d then 4 else 2).
  set (ee := if d then 2 else 1) in *.
  assert (Hlen : Z.of_nat (length (ctl d w_enm ++ ctl d w_rcl ++ body')) = k + Z.of_nat (length body')).
  { rewrite !app_length, !Nat2Z.inj_add, !ctl_length2. unfold k. destruct d; lia. }
  rewrite Hlen in HcE.
  (* the clear line of the two-line stream *)
  unfold translate_line at 3. unfold translate_line at 2 in Hne. cbn [r_err fst snd] in *. unfold set_clock in *. proj_red. rs_cbn_in Hne.
  rewrite tws_words in *.
  assert (HqE : exists tE, match q with Some _ => get_time tcE 0 off = Ok tE /\ last_is l w_edm = false | None => True end).
  { destruct q as [[c0 t0]|]; [|exists 0%Q; exact I].
    destruct Hlq as [Hl'|Hl']; [|discriminate Hl'].
    destruct (get_time tcE 0 off) as [tE|er] eqn:Hg; [exists tE; split; [reflexivity|exact Hl']|]. exfalso.
    assert (X : forall n, translate_word (mkR st tk l ds c pa ro MPop (Some (c0, t0)) tm tcE 0 off None) w_edm n
                          = mkR st tk (LWord w_edm) ds c pa ro MPop (Some (c0, t0)) tm tcE 0 off (Some er)).
    { intro n. unfold translate_word. proj_red. rewrite (hd_edm _ _ _ _ _ _ _ _ _ _ _ _ Hl'). proj_red.
      replace (is_command w_edm || is_pac w_edm) with true by (vm_compute; reflexivity).
      rewrite translate_command_edm. proj_red. unfold with_time. proj_red. rewrite Hg. reflexivity. }
    assert (Y : tws (mkR st tk l ds c pa ro MPop (Some (c0, t0)) tm tcE 0 off None) (ctl d w_edm) None
                = mkR st tk (LWord w_edm) ds c pa ro MPop (Some (c0, t0)) tm tcE 0 off (Some er)).
    { destruct d; cbn [ctl tws]; rewrite X; [apply (tw_err _ _ _ er); reflexivity|reflexivity]. }
    rewrite Y in Hne. unfold translate_line in Hne. cbn [r_err] in Hne. discriminate Hne. }
  destruct HqE as [tE HqE].
  destruct (edm_ctl d st tk l ds c pa ro q tm tcE 0 off None tE HqE) as (lE & EE & HlE).
  rewrite EE in *. clear EE.
  assert (HlE1 : last_is lE w_enm = false) by (destruct HlE as [->| ->]; reflexivity).
  unfold translate_line in *. cbn [r_err fst snd] in *. unfold set_clock in *. proj_red. rs_cbn_in Hne.
  rewrite !tws_words in *.
  (* both load lines: prologue, body *)
  rewrite !(SccPoponStage1.tws_app (ctl d w_enm ++ ctl d w_rcl ++ body')) in *.
  rewrite !(app_assoc (ctl d w_enm)) in *.
  rewrite !(SccPoponStage1.tws_app (ctl d w_enm ++ ctl d w_rcl)) in *.
  rewrite !prologue_det in * by assumption. fold k in Hne |- *.
  rewrite (tws_nx body' _ (nxt (ctl d w_edm ++ ctl d w_eoc) None)) by (destruct d; reflexivity).
  rewrite (tws_nx body' _ (nxt (ctl d w_eoc) None)) in * by (destruct d; reflexivity).
  set (P0 := mkR st (tracker_reset tk) (if d then LNone else LWord w_rcl) d creator0 pa ro MPop q tm tc (0 + k) off None).
  change (mkR (popped st q tE) (tracker_reset tk) (if d then LNone else LWord w_rcl) d creator0 pa ro MPop None tm tcL (0 + k) off None)
    with (fr_set P0 (popped st q tE) None tm tcL) in *.
  destruct (frame_tws body' P0 (popped st q tE) None tm tcL None eq_refl Hq) as [EF _]. rewrite EF in *. clear EF.
  destruct (quiet_keeps body' P0 None eq_refl Hq) as (K1 & K2 & K3 & K4).
  assert (K5 : last_is (r_last (tws P0 body' None)) w_eoc = false).
  { apply (quiet_last w_eoc eq_refl); [reflexivity|exact Hq|destruct d; reflexivity]. }
  assert (K6 : last_is (r_last (tws P0 body' None)) w_edm = false).
  { apply (quiet_last w_edm eq_refl); [reflexivity|exact Hq|destruct d; reflexivity]. }
  pose proof (tws_clock body' P0) as (C1 & C2 & C3). rewrite tws_words in C1, C2, C3.
  destruct (tws P0 body' None) as [stX tkX lX dsX cX paX roX acX qX tmX tcX frX offX eX] eqn:EX.
  cbn [r_stash r_queue r_time r_active r_last r_tc r_offset r_err r_frames] in *. unfold P0 in K1, K2, K3, C1, C2, C3.
  cbn [r_stash r_queue r_time r_tc r_offset r_frames] in *. subst stX qX tmX acX tcX offX.
  assert (EeX : eX = None).
  { destruct eX as [er|]; [|reflexivity]. exfalso. unfold fr_set in Hne. proj_red. rs_cbn_in Hne.
    rewrite (tws_error _ _ _ er) in Hne by reflexivity. discriminate Hne. }
  subst eX. specialize (C3 eq_refl). subst frX. unfold fr_set. proj_red.
  (* the EDM of the one-line stream *)
  assert (HqX : match q with Some _ => get_time tc (0 + k + Z.of_nat (length body')) off = Ok tE /\ last_is lX w_edm = false
                | None => True end).
  { destruct q as [[c0 t0]|]; [|exact I]. destruct HqE as [Hg _]. split; [|exact K6].
    rewrite <- Hg. replace (0 + k + Z.of_nat (length body')) with (k + Z.of_nat (length body') + 0) by lia. apply HcE. lia. }
  destruct (edm_ctl d st tkX lX dsX cX paX roX q tm tc (0 + k + Z.of_nat (length body')) off (nxt (ctl d w_eoc) None) tE HqX)
    as (lX' & EX' & HlX').
  rewrite (SccPoponStage1.tws_app (ctl d w_edm)). rewrite EX'. clear EX'.
  assert (HlX1 : last_is lX' w_eoc = false) by (destruct HlX' as [->| ->]; reflexivity).
  rewrite (eoc_washout d _ _ lX' LNone) by (exact HlX1 || reflexivity).
  rewrite (eoc_washout d _ _ lX LNone) by (exact K5 || reflexivity).
  rewrite <- !tws_words. apply se_translate_words. apply se_mk. intros j Hj.
  fold ee. replace (0 + k + Z.of_nat (length body') + ee + j) with (ee + (0 + k + Z.of_nat (length body') + j)) by lia.
  apply HcL. lia.
Qed.

(* ================================================================================================== *)
(* 4. the words of a well-formed load are quiet                                                        *)

Lemma word_quiet : forall b x, b <> 148 -> 0 <= x < 256 -> quiet (b * 256 + x) = true.
Proof.
  intros b x Hb Hx. unfold quiet. apply negb_true_iff. repeat (apply orb_false_iff; split); apply Z.eqb_neq;
    unfold w_rdc, w_ru2, w_ru3, w_ru4, w_eoc, w_cr, w_edm; lia.
Qed.

Definition byteq (y : Z) : Prop := 0 <= y < 256 /\ y <> 148.

Lemma hd_filter_in : forall (f : Z -> bool) l, In (hd 0 (filter f l)) (0 :: l).
Proof.
  intros f. induction l as [|a t IH]; [left; reflexivity|]. cbn [filter]. destruct (f a).
  - right. left. reflexivity.
  - destruct IH as [E|I]; [left; exact E|right; right; exact I].
Qed.

Lemma parity_bytes : forallb (fun y => (0 <=? odd_parity y) && (odd_parity y <? 256) && negb (odd_parity y =? 148))
                             (0 :: zrange 32 95) = true.
Proof. vm_compute. reflexivity. Qed.

Lemma opq : forall c, byteq (odd_parity (basic_code c)).
Proof.
  intros c. pose proof parity_bytes as T. rewrite forallb_forall in T. specialize (T _ (hd_filter_in _ _ : In (basic_code c) _)).
  apply andb_true_iff in T. destruct T as [T T3]. apply andb_true_iff in T. destruct T as [T1 T2].
  apply negb_true_iff in T3. apply Z.eqb_neq in T3. apply Z.leb_le in T1. apply Z.ltb_lt in T2. split; [split|]; assumption.
Qed.

Definition tokq (t : tok) : Prop := match t with TCh _ => True | TCode w => quiet w = true end.
Definition pendq (p : option Z) : Prop := match p with Some b => byteq b | None => True end.

Lemma forallb_app_true : forall (f : Z -> bool) a b, forallb f a = true -> forallb f b = true -> forallb f (a ++ b) = true.
Proof. intros f a b Ha Hb. rewrite forallb_app, Ha, Hb. reflexivity. Qed.

Lemma flush_quiet : forall p, pendq p -> forallb quiet (flush p) = true.
Proof.
  intros [b|] H; [|reflexivity]. cbn [flush forallb]. destruct H as [_ H]. rewrite (word_quiet b 128 H) by lia. reflexivity.
Qed.
Lemma ctl_quiet : forall d w, quiet w = true -> forallb quiet (ctl d w) = true.
Proof. intros [|] w H; cbn [ctl forallb]; rewrite H; reflexivity. Qed.

Lemma pack_quiet : forall d ts p, Forall tokq ts -> pendq p -> forallb quiet (pack d ts p) = true.
Proof.
  intros d. induction ts as [|t ts IH]; intros p F Hp; [apply flush_quiet, Hp|].
  inversion F as [|x y Ht F']; subst. destruct t as [c|w]; cbn [pack].
  - destruct p as [b|].
    + cbn [forallb]. destruct Hp as [_ Hb]. destruct (opq c) as [Hr _]. rewrite (word_quiet b _ Hb Hr).
      apply (IH None F' I).
    + apply (IH (Some (odd_parity (basic_code c))) F'). apply opq.
  - apply forallb_app_true; [apply flush_quiet, Hp|]. apply forallb_app_true; [apply ctl_quiet, Ht|]. apply (IH None F' I).
Qed.

Lemma code_words_quiet :
  forallb (fun i => quiet (special_word i)) (zrange 0 16) = true /\
  forallb (fun a => quiet (midrow_word a)) (zrange 0 16) = true /\
  forallb (fun i => quiet (ext_word 0 i) && quiet (ext_word 1 i)) (zrange 0 32) = true /\
  quiet (ctrl_word 33) = true /\
  forallb (fun t => quiet (tab_word t)) (zrange 1 3) = true /\
  forallb (fun r => forallb (fun a => quiet (pac_word r a)) (zrange 0 32)) (zrange 1 15) = true.
Proof. repeat split; vm_compute; reflexivity. Qed.

Lemma items_quiet : forall its prev, items_ok its prev = true -> Forall tokq (flat_map toks_of_item its).
Proof.
  destruct code_words_quiet as (QS & QM & QE & QB & _).
  rewrite forallb_forall in QS, QM, QE.
  induction its as [|it t IH]; intros prev H; [constructor|].
  cbn [items_ok] in H. apply andb_true_iff in H. destruct H as [H1 H2]. cbn [flat_map]. apply Forall_app. split; [|exact (IH _ H2)].
  destruct it as [c|i|s g i|a|]; cbn [toks_of_item].
  - constructor; [exact I|constructor].
  - constructor; [|constructor]. cbn [tokq]. apply QS. apply in_zrange.
    apply andb_true_iff in H1. destruct H1 as [H1 _]. clear - H1. lia.
  - constructor; [exact I|]. constructor; [|constructor]. cbn [tokq].
    apply andb_true_iff in H1. destruct H1 as [H1 Hi2]. apply andb_true_iff in H1. destruct H1 as [H1 Hi1].
    apply andb_true_iff in H1. destruct H1 as [H1 Hg2]. apply andb_true_iff in H1. destruct H1 as [_ Hg1].
    assert (Hi : In i (zrange 0 32)) by (apply in_zrange; clear - Hi1 Hi2; lia). specialize (QE _ Hi). apply andb_true_iff in QE.
    assert (Hg : g = 0 \/ g = 1) by (clear - Hg1 Hg2; lia). destruct Hg as [->| ->]; tauto.
  - constructor; [|constructor]. cbn [tokq]. apply QM. apply in_zrange.
    apply andb_true_iff in H1. destruct H1 as [H1 _]. clear - H1. lia.
  - constructor; [|constructor]. exact QB.
Qed.

Lemma row_quiet : forall d r, row_ok r = true -> forallb quiet (emit_row d r) = true.
Proof.
  intros d r H. destruct (row_ok_parts r H) as (Hr & Hm & Ht & Hio & _). destruct (row_ok_style r H) as [Hs1 Hs2].
  destruct (pac_attr_facts2 r (mem_In _ _ Hm) Hs1 Hs2) as (Ha & _).
  destruct code_words_quiet as (_ & _ & _ & _ & QT & QP). rewrite forallb_forall in QT, QP.
  unfold emit_row. apply forallb_app_true; [|apply pack_quiet; [exact (items_quiet _ _ Hio)|exact I]].
  assert (Hp : quiet (pac_word (rw_row r) (pac_attr r)) = true).
  { assert (Hi : In (rw_row r) (zrange 1 15)) by (apply in_zrange; lia). specialize (QP _ Hi). rewrite forallb_forall in QP.
    apply QP. apply in_zrange. lia. }
  assert (Hu : forallb quiet (pac_word (rw_row r) (pac_attr r) :: (if 0 <? rw_tab r then [tab_word (rw_tab r)] else [])) = true).
  { cbn [forallb]. rewrite Hp. destruct (0 <? rw_tab r) eqn:E; [|reflexivity]. cbn [forallb]. rewrite QT; [reflexivity|].
    apply in_zrange. lia. }
  unfold pac_unit. cbv zeta. destruct d; [apply forallb_app_true; exact Hu|exact Hu].
Qed.

Theorem load_quiet : forall d l, load_wf l = true -> forallb quiet (flat_map (emit_row d) l) = true.
Proof.
  intros d l H. unfold load_wf in H. destruct l as [|r0 t0]; [discriminate H|]. apply andb_true_iff in H. destruct H as [H _].
  revert H. generalize (r0 :: t0). induction l as [|r t IH]; intros H; [reflexivity|].
  rewrite forallb_cons in H. apply andb_true_iff in H. destruct H as [Hr Ht]. cbn [flat_map].
  apply forallb_app_true; [apply row_quiet, Hr|apply IH, Ht].
Qed.

(* ================================================================================================== *)
(* 5. whole programs                                                                                   *)

(* a segment: a line of the old layout, or a writer-style load line  tc: ENM RCL rows EDM EOC.  tcE / tcL are timecodes
   denoting the instant of the line's EDM word / the instant (1 | 2) frames after tc: the line is then equivalent to the
   two lines  tcE: EDM | tcL: ENM RCL rows EOC  in which the EDM and the EOC keep their instants. For rendered timecodes
   such tcE / tcL exist (winline_rendered below). *)
Inductive wseg : Type :=
| WSeg (p : pseg)
| WInline (tc tcE tcL : str) (l : load).

Definition wseg_line (d : bool) (s : wseg) : sline :=
  match s with WSeg p => pseg_line d p | WInline tc _ _ l => (tc, emit_load_w d l) end.
Definition wseg_expand (s : wseg) : list pseg :=
  match s with WSeg p => [p] | WInline _ tcE tcL l => [PClear tcE; PLoad tcL l] end.
Definition wseg_clock (d : bool) (off : Q) (s : wseg) : Prop :=
  match s with
  | WSeg _ => True
  | WInline tc tcE tcL l => same_clock off tc (Z.of_nat (length (load_body d l))) tcE /\
                            same_clock off tc (if d then 2 else 1) tcL
  end.
Definition wexpand (ws : list wseg) : list pseg := flat_map wseg_expand ws.

Definition binv (l : lastcmd) (q : option (creator * Q)) : Prop :=
  last_is l w_enm = false /\ (q = None \/ last_is l w_edm = false).

Lemma pseg_step : forall d off p ev, pseg_ok8 p = true -> pseg_event d off p = Ok ev ->
  forall st tk l ds q tm tc fr, binv l q ->
  exists st' tk' l' ds' q' tm' tc' fr',
    translate_line (B off st tk l ds q tm tc fr) (pseg_line d p) = B off st' tk' l' ds' q' tm' tc' fr' /\ binv l' q'.
Proof.
  intros d off p ev Hok Hev st tk l ds q tm tc fr [Hl1 Hl2]. destruct p as [tc1 ld|tc1]; cbn [pseg_ok8 pseg_event pseg_line] in *.
  - destruct (get_time tc1 _ off) as [t|x] eqn:Eg; [|discriminate].
    destruct (line8 d off ld st tk l ds q tm tc fr tc1 t Hok Hl1 Eg) as (cr & tk' & l' & ds' & fr' & E & _ & Hl' & Hl'').
    rewrite E. eexists _, _, _, _, _, _, _, _. split; [reflexivity|]. split; [exact Hl''|right; exact Hl'].
  - destruct (get_time tc1 0 off) as [t|x] eqn:Eg; [|discriminate]. destruct q as [[c0 t0]|].
    + destruct Hl2 as [X|Hl2]; [discriminate|].
      destruct (clear_line_some d off st tk l ds c0 t0 tm tc fr tc1 t Hl2 Eg) as (l' & ds' & fr' & E & Hl').
      rewrite E. eexists _, _, _, _, _, _, _, _. split; [reflexivity|]. split; [exact Hl'|left; reflexivity].
    + destruct (clear_line_none d off st tk l ds tm tc fr tc1) as (l' & ds' & fr' & E & Hl').
      rewrite E. eexists _, _, _, _, _, _, _, _. split; [reflexivity|]. split; [exact Hl'|left; reflexivity].
Qed.

Lemma emit_load_shape : forall d l,
  emit_load d l = (ctl d w_enm ++ ctl d w_rcl ++ flat_map (emit_row d) l) ++ ctl d w_eoc.
Proof. intros d l. unfold emit_load. rewrite <- !app_assoc. reflexivity. Qed.
Lemma emit_load_w_shape : forall d l,
  emit_load_w d l = (ctl d w_enm ++ ctl d w_rcl ++ flat_map (emit_row d) l) ++ ctl d w_edm ++ ctl d w_eoc.
Proof. reflexivity. Qed.

Lemma run_wsegs : forall d off ws, Forall (wseg_clock d off) ws -> forallb pseg_ok8 (wexpand ws) = true ->
  Forall (fun p => exists ev, pseg_event d off p = Ok ev) (wexpand ws) ->
  forall s1 st tk l ds q tm tc fr, binv l q -> state_eq s1 (B off st tk l ds q tm tc fr) ->
  state_eq (run s1 (map (wseg_line d) ws)) (run (B off st tk l ds q tm tc fr) (map (pseg_line d) (wexpand ws))).
Proof.
  intros d off. induction ws as [|w ws IH]; intros Hck Hok Hev s1 st tk l ds q tm tc fr Hinv Hse; [exact Hse|].
  inversion Hck as [|w0 ws0 Hw Hck']; subst. unfold wexpand in *. cbn [flat_map map] in *.
  rewrite forallb_app in Hok. apply andb_true_iff in Hok. destruct Hok as [Hok1 Hok2].
  apply Forall_app in Hev. destruct Hev as [Hev1 Hev2].
  destruct w as [p|tc1 tcE tcL ld]; cbn [wseg_expand wseg_line app map] in *.
  - unfold run. cbn [fold_left]. cbn [forallb] in Hok1. apply andb_true_iff in Hok1. destruct Hok1 as [Hp _].
    inversion Hev1 as [|p0 x0 [ev Hevp] _]; subst.
    destruct (pseg_step d off p ev Hp Hevp st tk l ds q tm tc fr Hinv) as (st' & tk' & l' & ds' & q' & tm' & tc' & fr' & E & Hinv').
    rewrite E. apply (IH Hck' Hok2 Hev2); [exact Hinv'|]. rewrite <- E. apply se_translate_line, Hse.
  - unfold run. cbn [fold_left]. cbn [forallb] in Hok1. apply andb_true_iff in Hok1. destruct Hok1 as [_ Hok1].
    apply andb_true_iff in Hok1. destruct Hok1 as [Hld _].
    inversion Hev1 as [|p0 x0 [ev1 Hevc] Hev1']; subst. inversion Hev1' as [|p1 x1 [ev2 Hevl] _]; subst.
    destruct (pseg_step d off (PClear tcE) ev1 eq_refl Hevc st tk l ds q tm tc fr Hinv)
      as (st' & tk' & l' & ds' & q' & tm' & tc' & fr' & E1 & Hinv').
    destruct (pseg_step d off (PLoad tcL ld) ev2 Hld Hevl st' tk' l' ds' q' tm' tc' fr' Hinv')
      as (st2 & tk2 & l2 & ds2 & q2 & tm2 & tc2 & fr2 & E2 & Hinv2).
    cbn [pseg_line] in E1, E2 |- *. rewrite E1, E2.
    apply (IH Hck' Hok2 Hev2); [exact Hinv2|]. rewrite <- E2, <- E1.
    destruct Hw as [HcE HcL]. destruct Hinv as [Hl1 Hl2].
    assert (Hs2 : state_eq (translate_line (translate_line s1 (tcE, emit_clear d)) (tcL, emit_load d ld))
                           (translate_line (translate_line (B off st tk l ds q tm tc fr) (tcE, emit_clear d)) (tcL, emit_load d ld))).
    { apply se_translate_line, se_translate_line, Hse. }
    eapply se_trans; [|exact Hs2].
    rewrite emit_load_shape, emit_load_w_shape in *. unfold emit_clear in *. change (ctrl_word 44) with w_edm in *.
    apply inline_edm.
    + rewrite (se_err _ _ Hse). reflexivity.
    + rewrite (se_active _ _ Hse). reflexivity.
    + rewrite (se_last _ _ Hse). exact Hl1.
    + rewrite (se_last _ _ Hse), (se_queue _ _ Hse). cbn [r_last r_queue B]. destruct Hl2; [right|left]; assumption.
    + apply load_quiet. exact Hld.
    + rewrite (se_offset _ _ Hse). exact HcE.
    + rewrite (se_offset _ _ Hse). exact HcL.
    + rewrite (se_err _ _ Hs2), E1, E2. reflexivity.
Qed.

(* reading the stream with writer-style load lines = reading the stream with the EDM on a line of its own *)
Theorem read_wsegs : forall d off ws evs, Forall (wseg_clock d off) ws -> forallb pseg_ok8 (wexpand ws) = true ->
  res_map (pseg_event d off) (wexpand ws) = Ok evs ->
  read off (map (wseg_line d) ws) = read off (map (pseg_line d) (wexpand ws)).
Proof.
  intros d off ws evs Hck Hok Hev.
  assert (F : Forall (fun p => exists ev, pseg_event d off p = Ok ev) (wexpand ws)).
  { clear - Hev. revert evs Hev. induction (wexpand ws) as [|p t IH]; intros evs Hev; [constructor|].
    destruct (res_map_cons _ _ _ _ _ _ Hev) as (b & bs & Hb & Ht & _). constructor; [exists b; exact Hb|exact (IH _ Ht)]. }
  pose proof (run_wsegs d off ws Hck Hok F (rstate0 off) stash0 tracker0 LNone false None 0%Q (lit "00:00:00;00") 0
                (conj eq_refl (or_introl eq_refl)) (se_refl _)) as H0.
  change (B off stash0 tracker0 LNone false None 0%Q (lit "00:00:00;00") 0) with (rstate0 off) in H0. unfold run in H0.
  assert (HR : state_eq (run_lines off (map (wseg_line d) ws)) (run_lines off (map (pseg_line d) (wexpand ws)))).
  { unfold run_lines. cbv zeta. rewrite (se_err _ _ H0).
    destruct (r_err (fold_left translate_line (map (pseg_line d) (wexpand ws)) (rstate0 off))); [exact H0|].
    apply se_flush_implicit, H0. }
  unfold read. cbv zeta. rewrite (se_err _ _ HR), (se_stash _ _ HR). reflexivity.
Qed.

Theorem popon_refines_608_inline : forall d off ws evs spans,
  Forall (wseg_clock d off) ws -> forallb pseg_ok8 (wexpand ws) = true ->
  res_map (pseg_event d off) (wexpand ws) = Ok evs -> positive evs -> after_show None evs ->
  expected_with join_threshold evs = Ok spans ->
  exists caps, read off (map (wseg_line d) ws) = ROk caps /\
               ok_c05 (mkProg d (ploads_of (wexpand ws))) (Ok (map observe caps)) = true /\
               dom_c05 (mkProg d (ploads_of (wexpand ws))) = true.
Proof.
  intros d off ws evs spans Hck Hok Hev Hp Ha Hx. rewrite (read_wsegs d off ws evs Hck Hok Hev).
  exact (popon_refines_608 d off (wexpand ws) evs spans Hok Hev Hp Ha Hx).
Qed.

Theorem popon_times_inline : forall d off ws evs,
  Forall (wseg_clock d off) ws -> forallb pseg_ok8 (wexpand ws) = true ->
  res_map (pseg_event d off) (wexpand ws) = Ok evs -> positive evs ->
  spans_of (read off (map (wseg_line d) ws))
  = rmap (fun spans => flat_map bspans (combine (ploads_of (wexpand ws)) spans)) (expected_with join_threshold evs).
Proof.
  intros d off ws evs Hck Hok Hev Hp. rewrite (read_wsegs d off ws evs Hck Hok Hev).
  exact (popon_times d off (wexpand ws) evs Hok Hev Hp).
Qed.

(* ================================================================================================== *)
(* 6. rendered timecodes: the side timecodes of a writer-style line exist                              *)

Ltac Zify.zify_post_hook ::= Z.to_euclidean_division_equations.

Definition tc_total (t : timecode) : Z := (tc_h t * 3600 + tc_m t * 60 + tc_s t) * 30 + tc_f t.
(* the canonical timecode n frames later (frame field 0..29) *)
Definition tc_shift (t : timecode) (n : Z) : timecode :=
  let F := tc_total t + n in mkTc (F / 108000) ((F / 1800) mod 60) ((F / 30) mod 60) (tc_drop t) (F mod 30).

Theorem same_clock_shift : forall off t n, tc_wf t = true -> 0 <= n -> tc_total t + n < 10800000 ->
  same_clock off (render_tc t) n (render_tc (tc_shift t n)).
Proof.
  intros off t n W Hn Hb.
  assert (H0 : 0 <= tc_total t) by (unfold tc_total, tc_wf in *; lia).
  apply same_clock_wf; try assumption.
  - unfold tc_wf, tc_shift. cbn [tc_h tc_m tc_s tc_f tc_drop]. generalize dependent (tc_total t). intros T HT HT0. lia.
  - reflexivity.
  - unfold tc_shift. cbn [tc_h tc_m tc_s tc_f tc_drop]. fold (tc_total t). generalize dependent (tc_total t). intros T HT HT0. lia.
Qed.

(* the segment for a writer-style line stamped with a rendered timecode *)
Definition winline (d : bool) (t : timecode) (l : load) : wseg :=
  WInline (render_tc t) (render_tc (tc_shift t (Z.of_nat (length (load_body d l)))))
          (render_tc (tc_shift t (if d then 2 else 1))) l.

Theorem winline_clock : forall d off t l, tc_wf t = true ->
  tc_total t + Z.of_nat (length (load_body d l)) + 2 < 10800000 -> wseg_clock d off (winline d t l).
Proof.
  intros d off t l W Hb. unfold winline, wseg_clock. split; apply same_clock_shift; try assumption; try lia; destruct d; lia.
Qed.

(* an instance: two writer-style lines (the second one directly after the first: no clear line in between, as the writer
   does when the next caption follows at once) and a final clear line, control codes doubled *)
Definition exw_l1 : load := [mkRow 14 0 0 16 [Ch 72; Ch 105]; mkRow 15 0 0 16 [Ch 116; Ch 104; Ch 101; Ch 114; Ch 101]].
Definition exw_l2 : load := [mkRow 15 0 0 16 [Ch 98; Ch 121; Ch 101]].
Definition exw_ws : list wseg :=
  [winline true (mkTc 0 0 1 false 0) exw_l1; winline true (mkTc 0 0 2 false 27) exw_l2; WSeg (PClear (lit "00:00:05:00"))].

(* 94ae 94ae 9420 9420 94d0 94d0 c8e9 9470 9470 f468 e5f2 e580 942c 942c 942f 942f : the words SCCWriter writes for "Hi\nthere" *)
Example exw_lines : map (wseg_line true) exw_ws =
  [ (lit "00:00:01:00", [38062; 38062; 37920; 37920; 38096; 38096; 51433; 38000; 38000; 62568; 58866; 58752; 37932; 37932; 37935; 37935]);
    (lit "00:00:02:27", [38062; 38062; 37920; 37920; 38000; 38000; 25209; 58752; 37932; 37932; 37935; 37935]);
    (lit "00:00:05:00", [37932; 37932]) ].
Proof. vm_compute. reflexivity. Qed.

Example exw_hyps : Forall (wseg_clock true 0) exw_ws /\ forallb pseg_ok8 (wexpand exw_ws) = true.
Proof.
  split; [|vm_compute; reflexivity].
  constructor; [apply winline_clock; [reflexivity|vm_compute; reflexivity]|].
  constructor; [apply winline_clock; [reflexivity|vm_compute; reflexivity]|]. constructor; [exact I|constructor].
Qed.

Example exw_runs :
  match res_map (pseg_event true 0) (wexpand exw_ws) with
  | Ok evs => match read 0 (map (wseg_line true) exw_ws) with
              | ROk caps => ok_c05 (mkProg true [exw_l1; exw_l2]) (Ok (map observe caps)) && Nat.eqb (length caps) 2
              | _ => false
              end
  | Err _ => false
  end = true.
Proof. vm_compute. reflexivity. Qed.
