(* Proofs for C08.  Part 1: the projection algebra (pure arithmetic on Z).
   Part 2: a hop of the model (C02 writer model, then C01 reader model, through the printed
   tokens) is the projection pi_F, and a chain of hops is the closed form. *)
From Coq Require Import List ZArith QArith Qround Lia Bool ZifyBool.
From PV Require Import lib.Sx lib.Str lib.Result lib.Dec.
From PV Require Import model.Base spec.SpecBase proofs.BaseFacts.
From PV Require Import model.TimeRead spec.SpecTime proofs.TimeStrFacts proofs.TimeReadFacts.
From PV Require Import model.TimeWrite spec.SpecTimeW proofs.TimeWriteFacts.
From PV Require Import model.Chain spec.SpecChain.
Import ListNotations.
Open Scope Z_scope.
#[local] Ltac Zify.zify_post_hook ::= Z.to_euclidean_division_equations.

(* ============================== algebra ====================================== *)
Definition is_unit (u : Z) : Prop := u = 1 \/ u = 1000 \/ u = 40000.

Lemma unit_of_is_unit : forall f, is_unit (unit_of f).
Proof. intros []; unfold is_unit, unit_of; lia. Qed.

(* flooring twice = flooring once to the coarser unit *)
Lemma fl_fl : forall u v t, is_unit u -> is_unit v -> fl v (fl u t) = fl (Z.max u v) t.
Proof.
  intros u v t Hu Hv. unfold fl, is_unit in *.
  destruct Hu as [->|[->| ->]], Hv as [->|[->| ->]]; cbn [Z.max]; lia.
Qed.

Lemma fl_idem : forall u t, is_unit u -> fl u (fl u t) = fl u t.
Proof. intros. rewrite fl_fl by assumption. rewrite Z.max_id. reflexivity. Qed.

Lemma fl_plus_4s : forall u t, is_unit u -> fl u (fl u t + 4000000) = fl u t + 4000000.
Proof. intros u t Hu. unfold fl, is_unit in *. destruct Hu as [->|[->| ->]]; lia. Qed.

Lemma fl_le : forall u t, is_unit u -> fl u t <= t.
Proof. intros u t Hu. unfold fl, is_unit in *. destruct Hu as [->|[->| ->]]; lia. Qed.

Lemma fl_mono : forall u a b, is_unit u -> a <= b -> fl u a <= fl u b.
Proof. intros u a b Hu H. unfold fl, is_unit in *. destruct Hu as [->|[->| ->]]; lia. Qed.

Lemma pi_pt_pi_pt : forall u v c, is_unit u -> is_unit v -> pi_pt v (pi_pt u c) = pi_pt (Z.max u v) c.
Proof. intros u v [s e] Hu Hv. unfold pi_pt. cbn [fst snd]. rewrite !fl_fl by assumption. reflexivity. Qed.

Lemma set_last_end_idem : forall cs, set_last_end (set_last_end cs) = set_last_end cs.
Proof.
  induction cs as [|c t IH]; [reflexivity|].
  destruct t as [|c' t']; [reflexivity|].
  change (set_last_end (c :: c' :: t')) with (c :: set_last_end (c' :: t')).
  destruct (set_last_end (c' :: t')) as [|d dt] eqn:E.
  - destruct t'; discriminate.
  - change (set_last_end (c :: d :: dt)) with (c :: set_last_end (d :: dt)). rewrite IH. reflexivity.
Qed.

Lemma set_last_end_cons2 : forall c c' t, set_last_end (c :: c' :: t) = c :: set_last_end (c' :: t).
Proof. reflexivity. Qed.

Lemma set_last_end_nonempty : forall c t, set_last_end (c :: t) <> [].
Proof. intros c [|c' t]; discriminate. Qed.

(* a pointwise floor commutes with the four-second tail when the times are already multiples
   of a unit that the new unit refines or coarsens *)
Lemma map_pt_set_last_end : forall u v cs, is_unit u -> is_unit v ->
  map (pi_pt v) (set_last_end (map (pi_pt u) cs))
  = set_last_end (map (pi_pt v) (map (pi_pt u) cs)).
Proof.
  intros u v cs Hu Hv. induction cs as [|c t IH]; [reflexivity|].
  destruct t as [|c' t'].
  - destruct c as [s e]. cbn [map set_last_end pi_pt fst snd].
    assert (E : fl v (fl u s + 4000000) = fl v (fl u s) + 4000000).
    { unfold fl, is_unit in *. destruct Hu as [->|[->| ->]], Hv as [->|[->| ->]]; lia. }
    unfold pi_pt at 1. cbn [fst snd]. rewrite E. reflexivity.
  - cbn [map] in *. rewrite !set_last_end_cons2. cbn [map]. f_equal. exact IH.
Qed.

Lemma map_map_pt : forall u v cs, is_unit u -> is_unit v ->
  map (pi_pt v) (map (pi_pt u) cs) = map (pi_pt (Z.max u v)) cs.
Proof.
  intros. rewrite map_map. apply map_ext. intros c. apply pi_pt_pi_pt; assumption.
Qed.

(* one more hop on a closed form is a closed form *)
Lemma pi_nf : forall f u b cs, is_unit u ->
  pi f (nf u b cs) = nf (Z.max u (unit_of f)) (b || is_sami f) cs.
Proof.
  intros f u b cs Hu. pose proof (unit_of_is_unit f) as Hv.
  assert (Hm : is_unit (Z.max u (unit_of f))).
  { unfold is_unit in *. destruct Hu as [->|[->| ->]], Hv as [->|[->| ->]]; cbn [Z.max]; lia. }
  unfold nf. destruct f; cbn [pi is_sami unit_of] in *; rewrite ?orb_false_r, ?orb_true_r;
    destruct b;
    rewrite ?map_pt_set_last_end, ?map_map_pt by (assumption || (unfold is_unit; lia));
    rewrite ?set_last_end_idem; reflexivity.
Qed.

Lemma nf_id : forall cs, nf 1 false cs = cs.
Proof.
  intros cs. unfold nf. rewrite <- (map_id cs) at 2. apply map_ext.
  intros [s e]. unfold pi_pt, fl. cbn [fst snd]. f_equal; lia.
Qed.

Lemma coarsest_unit : forall chain, is_unit (coarsest chain).
Proof.
  intros [|f t]; unfold coarsest, is_unit; [lia|]. destruct (existsb is_mdvd (f :: t)); lia.
Qed.

Lemma run_nf_gen : forall chain u b cs, is_unit u ->
  run chain (nf u b cs) =
  nf (fold_left (fun a f => Z.max a (unit_of f)) chain u) (fold_left (fun a f => a || is_sami f) chain b) cs.
Proof.
  induction chain as [|f t IH]; intros u b cs Hu; [reflexivity|].
  cbn [run fold_left]. rewrite pi_nf by exact Hu. apply IH.
  pose proof (unit_of_is_unit f) as Hv.
  unfold is_unit in *. destruct Hu as [->|[->| ->]], Hv as [->|[->| ->]]; cbn [Z.max]; lia.
Qed.

Lemma fold_max_units : forall chain u, is_unit u ->
  fold_left (fun a f => Z.max a (unit_of f)) chain u
  = Z.max u (match chain with [] => 1 | _ => if existsb is_mdvd chain then 40000 else 1000 end).
Proof.
  induction chain as [|f t IH]; intros u Hu.
  - unfold is_unit in Hu. cbn [fold_left]. lia.
  - cbn [fold_left]. rewrite IH.
    + unfold is_unit in Hu. cbn [existsb].
      destruct f, t as [|g t']; cbn [unit_of is_mdvd orb existsb]; try destruct (is_mdvd g || existsb is_mdvd t'); lia.
    + pose proof (unit_of_is_unit f) as Hv.
      unfold is_unit in *. destruct Hu as [->|[->| ->]], Hv as [->|[->| ->]]; cbn [Z.max]; lia.
Qed.

Lemma fold_orb_sami : forall chain b, fold_left (fun a f => a || is_sami f) chain b = b || existsb is_sami chain.
Proof.
  induction chain as [|f t IH]; intros b; cbn [fold_left existsb]; [rewrite orb_false_r; reflexivity|].
  rewrite IH. rewrite orb_assoc. reflexivity.
Qed.

(* a chain of hops = every time floored to the coarsest resolution on the chain, and the
   four-second tail if SAMI is on the chain *)
Theorem run_closed_form : forall chain cs, run chain cs = expected chain cs.
Proof.
  intros chain cs. unfold expected.
  rewrite <- (nf_id cs) at 1. rewrite run_nf_gen by (unfold is_unit; lia).
  rewrite fold_max_units by (unfold is_unit; lia). rewrite fold_orb_sami. cbn [orb].
  f_equal. unfold coarsest. destruct chain; [reflexivity|]. destruct (existsb is_mdvd (f :: chain)); reflexivity.
Qed.

Lemma nf_idem : forall u b cs, is_unit u -> nf u b (nf u b cs) = nf u b cs.
Proof.
  intros u b cs Hu. unfold nf. destruct b.
  - rewrite map_pt_set_last_end by assumption. rewrite map_map_pt by assumption.
    rewrite Z.max_id. apply set_last_end_idem.
  - rewrite map_map_pt by assumption. rewrite Z.max_id. reflexivity.
Qed.

(* each projection is idempotent *)
Theorem pi_idempotent : forall f cs, pi f (pi f cs) = pi f cs.
Proof.
  intros f cs.
  assert (E : forall x, pi f x = nf (unit_of f) (is_sami f) x) by (intros x; destruct f; reflexivity).
  rewrite !E. apply nf_idem. apply unit_of_is_unit.
Qed.

(* running the same chain a second time changes nothing *)
Theorem chain_fixpoint : forall chain cs, run chain (run chain cs) = run chain cs.
Proof.
  intros chain cs. rewrite !run_closed_form. unfold expected. apply nf_idem. apply coarsest_unit.
Qed.

(* composition takes the coarser resolution; the order of two hops does not matter *)
Theorem pi_compose : forall f g cs,
  pi g (pi f cs) = nf (Z.max (unit_of f) (unit_of g)) (is_sami f || is_sami g) cs.
Proof.
  intros f g cs.
  assert (E : forall x, pi f x = nf (unit_of f) (is_sami f) x) by (intros x; destruct f; reflexivity).
  rewrite E. apply pi_nf. apply unit_of_is_unit.
Qed.

Theorem pi_commute : forall f g cs, pi g (pi f cs) = pi f (pi g cs).
Proof. intros. rewrite !pi_compose. rewrite Z.max_comm, orb_comm. reflexivity. Qed.

(* every start and every non-final end of the result is the floor to the coarsest unit *)
Theorem chain_times_coarsest : forall chain cs i c,
  nth_error cs i = Some c ->
  exists c', nth_error (run chain cs) i = Some c' /\
             fst c' = fl (coarsest chain) (fst c) /\
             ((S i < length cs)%nat \/ existsb is_sami chain = false -> snd c' = fl (coarsest chain) (snd c)) /\
             (S i = length cs -> existsb is_sami chain = true -> snd c' = fl (coarsest chain) (fst c) + 4000000).
Proof.
  intros chain cs i c Hn. rewrite run_closed_form. unfold expected, nf.
  set (u := coarsest chain). destruct (existsb is_sami chain).
  - revert i Hn. induction cs as [|d t IH]; intros i Hn; [destruct i; discriminate|].
    destruct i as [|i].
    + cbn [nth_error] in Hn. inversion Hn; subst d. destruct t as [|d' t'].
      * eexists. split; [reflexivity|]. cbn [pi_pt fst snd length]. repeat split; intros; try lia;
          try (match goal with H : _ \/ _ |- _ => destruct H as [H|H]; [lia|discriminate] end).
      * cbn [map]. rewrite set_last_end_cons2. eexists. split; [reflexivity|].
        cbn [pi_pt fst snd length]. repeat split; intros; try lia; try reflexivity.
    + cbn [nth_error] in Hn. destruct t as [|d' t']; [destruct i; discriminate|].
      destruct (IH i Hn) as [c' [H1 [H2 [H3 H4]]]].
      cbn [map] in *. rewrite set_last_end_cons2. cbn [nth_error]. exists c'. split; [exact H1|].
      split; [exact H2|]. cbn [length] in *. split; intros; [apply H3|apply H4]; try lia; try assumption;
        try (match goal with H : _ \/ _ |- _ => destruct H as [H|H]; [left; lia|right; exact H] end).
  - exists (pi_pt u c). split; [apply map_nth_error; exact Hn|].
    cbn [pi_pt fst snd]. repeat split; intros; try reflexivity. discriminate.
Qed.

(* ============================== hops of the model ============================== *)
Lemma Qfloor_inject : forall z, Qfloor (inject_Z z) = z.
Proof. intros. unfold inject_Z. rewrite Qfloor_nd. apply Z.div_1_r. Qed.

Lemma two_padded : forall h, 0 <= h < 100 -> two h = padded (if h <? 10 then 1%nat else 0%nat) h.
Proof.
  intros h Hh. apply str_eqb_eq.
  apply (range_forall (fun z => str_eqb (two z) (padded (if z <? 10 then 1%nat else 0%nat) z)) 100);
    [vm_compute; reflexivity|lia].
Qed.

(* the fields the formatters print for an integer time t below 24 h *)
Definition f_h (t : Z) := t / 1000000 / 3600.
Definition f_m (t : Z) := t / 1000000 mod 3600 / 60.
Definition f_s (t : Z) := t / 1000000 mod 3600 mod 60.
Definition f_ms (t : Z) := t mod 1000000 / 1000.

Lemma format_ts_int : forall sep t, 0 <= t < 86400000000 ->
  format_ts sep (inject_Z t) = two (f_h t) ++ 58 :: two (f_m t) ++ 58 :: two (f_s t) ++ sep :: three (f_ms t).
Proof.
  intros sep t Ht. pose proof (format_ts_shape sep (inject_Z t)) as H. rewrite rhe_int in H.
  exact (H Ht).
Qed.

Lemma hop_time_srt_exact : forall t, 0 <= t < 86400000000 -> hop_time_srt t = Ok (fl 1000 t).
Proof.
  intros t Ht. unfold hop_time_srt. rewrite srt_ts_full by (rewrite rhe_int; exact Ht).
  rewrite format_ts_int by exact Ht.
  assert (Hh : 0 <= f_h t < 100) by (unfold f_h; lia).
  rewrite (two_padded (f_h t) Hh).
  change (padded (if f_h t <? 10 then 1%nat else 0%nat) (f_h t) ++ 58 :: two (f_m t) ++ 58 :: two (f_s t) ++ 44 :: three (f_ms t))
    with (srt_render_stamp (mkSrt (if f_h t <? 10 then 1%nat else 0%nat) (f_h t) (f_m t) (f_s t) (Some (f_ms t)))).
  rewrite srt_stamp_exact.
  - unfold srt_instant. cbn [sr_h sr_m sr_s sr_ms]. rewrite us_split. f_equal.
    unfold secs, fl, f_h, f_m, f_s, f_ms. lia.
  - unfold srt_stamp_dom. cbn [sr_h sr_m sr_s sr_ms]. unfold f_h, f_m, f_s, f_ms. lia.
Qed.

Lemma hop_time_dfxp_exact : forall t, 0 <= t < 86400000000 -> hop_time_dfxp t = Ok (fl 1000 t).
Proof.
  intros t Ht. unfold hop_time_dfxp, dfxp_ts. rewrite format_ts_int by exact Ht.
  assert (Hh : 0 <= f_h t < 100) by (unfold f_h; lia).
  rewrite (two_padded (f_h t) Hh).
  set (ms := f_ms t).
  change (padded (if f_h t <? 10 then 1%nat else 0%nat) (f_h t) ++ 58 :: two (f_m t) ++ 58 :: two (f_s t) ++ 46 :: three ms)
    with (texpr_render (Clock (if f_h t <? 10 then 1%nat else 0%nat) (f_h t) (f_m t) (f_s t)
                              (Frac [ms / 100; ms / 10 mod 10; ms mod 10]))).
  assert (Hms : 0 <= ms < 1000) by (unfold ms, f_ms; lia).
  rewrite dfxp_time_exact.
  - unfold texpr_instant, tail_q, frac_q. rewrite us_split. f_equal.
    cbn [length pos10 digits_num fold_left].
    change (Zpos (10 * (10 * (10 * 1)))) with 1000.
    unfold secs, fl, f_h, f_m, f_s. unfold ms, f_ms. lia.
  - unfold texpr_dom, digits_ok. cbn [forallb length Nat.eqb negb].
    unfold f_h, f_m, f_s. lia.
Qed.

Lemma hop_time_vtt_exact : forall t, 0 <= t < 86400000000 -> hop_time_vtt t = Ok (fl 1000 t).
Proof.
  intros t Ht. unfold hop_time_vtt.
  pose proof (vtt_ts_shape (inject_Z t)) as H. rewrite rhe_int in H. specialize (H Ht). cbv zeta in H.
  rewrite H. clear H.
  set (hh := t / 1000000 / 60 / 60). set (m := t / 1000000 / 60 mod 60).
  set (s := t / 1000000 mod 60). set (ms := t mod 1000000 / 1000).
  assert (Hh : 0 <= hh < 100) by (unfold hh; lia).
  assert (Hm : 0 <= m < 60) by (unfold m; lia). assert (Hs : 0 <= s < 60) by (unfold s; lia).
  assert (Hms : 0 <= ms < 1000) by (unfold ms; lia).
  destruct (hh =? 0) eqn:E.
  - change (two m ++ 58 :: two s ++ 46 :: three ms) with (vtt_render_stamp (mkVtt None m s ms)).
    rewrite <- (app_nil_r (vtt_render_stamp _)). rewrite vtt_stamp_exact.
    + unfold vtt_instant. cbn [vt_h vt_m vt_s vt_ms]. rewrite us_split. f_equal.
      unfold secs, fl. unfold hh, m, s, ms in *. lia.
    + unfold vtt_stamp_dom. cbn [vt_h vt_m vt_s vt_ms]. lia.
  - rewrite (two_padded hh Hh).
    assert (R : padded (if hh <? 10 then 1%nat else 0%nat) hh ++ 58 :: two m ++ 58 :: two s ++ 46 :: three ms
                = vtt_render_stamp (mkVtt (Some ((if hh <? 10 then 1%nat else 0%nat), hh)) m s ms)).
    { unfold vtt_render_stamp. cbn [vt_h vt_m vt_s vt_ms]. rewrite <- app_assoc. reflexivity. }
    rewrite R. rewrite <- (app_nil_r (vtt_render_stamp _)). rewrite vtt_stamp_exact.
    + unfold vtt_instant. cbn [vt_h vt_m vt_s vt_ms]. rewrite us_split. f_equal.
      unfold secs, fl. unfold hh, m, s, ms in *. lia.
    + unfold vtt_stamp_dom. cbn [vt_h vt_m vt_s vt_ms]. lia.
Qed.

Lemma hop_time_mdvd_exact : forall t, 0 <= t -> hop_time_mdvd t = Ok (fl 40000 t).
Proof.
  intros t Ht. unfold hop_time_mdvd.
  destruct (mdvd_frame_int t Ht) as [P _]. unfold parse_int in P. unfold py_int. rewrite P.
  cbn [bind]. unfold frames_to_micro. cbn [fst snd]. change (25 =? 0) with false. cbv iota.
  f_equal. unfold fl. lia.
Qed.

(* ---- invariant carried along a chain: sorted, non-overlapping, every cue at least u long ---- *)
Fixpoint dom_u (u lo : Z) (cs : list cue) : Prop :=
  match cs with
  | [] => True
  | (s, e) :: t => lo <= s /\ s + u <= e /\ s < 86396000000 /\ e < 86400000000 /\ dom_u u e t
  end.

Lemma dom_u_weaken : forall u lo lo' cs, lo' <= lo -> dom_u u lo cs -> dom_u u lo' cs.
Proof. intros u lo lo' [|[s e] t] H D; [exact I|]. cbn [dom_u] in *. intuition lia. Qed.

Lemma sorted_from_dom_u : forall u lo cs, 0 <= u -> sorted_from u lo 86396000000 cs = true -> dom_u u lo cs.
Proof.
  intros u lo cs Hu. revert lo. induction cs as [|[s e] t IH]; intros lo H; [exact I|].
  cbn [sorted_from] in H. cbn [dom_u].
  apply andb_true_iff in H. destruct H as [H H4]. apply andb_true_iff in H. destruct H as [H H3].
  apply andb_true_iff in H. destruct H as [H1 H2].
  split; [lia|split; [lia|split; [lia|split; [lia|apply IH; exact H4]]]].
Qed.

Definition big_unit (u : Z) : Prop := u = 1000 \/ u = 40000.

Lemma hop_cues_exact : forall (f : Z -> result Z) v u lo cs,
  big_unit u -> (v = 1000 \/ v = 40000) -> v <= u -> 0 <= lo ->
  (forall t, 0 <= t < 86400000000 -> f t = Ok (fl v t)) ->
  dom_u u lo cs ->
  hop_cues f cs = Ok (map (pi_pt v) cs) /\ dom_u u (fl v lo) (map (pi_pt v) cs).
Proof.
  intros f v u lo cs Hu Hv Hvu Hlo Hf. revert lo Hlo.
  induction cs as [|[s e] t IH]; intros lo Hlo D; [split; [reflexivity|exact I]|].
  cbn [dom_u] in D. destruct D as [D1 [D2 [D3 [D4 D5]]]].
  assert (He0 : 0 <= e) by (unfold big_unit in Hu; lia).
  destruct (IH e He0 D5) as [IH1 IH2].
  unfold hop_cues in *. cbn [res_map map fst snd].
  rewrite (Hf s) by (unfold big_unit in Hu; lia). cbn [bind].
  rewrite (Hf e) by lia. cbn [bind]. rewrite IH1. cbn [bind].
  split; [reflexivity|]. cbn [dom_u pi_pt fst snd].
  unfold fl, big_unit in *.
  repeat split; try exact IH2; destruct Hu as [-> | ->], Hv as [-> | ->]; lia.
Qed.

(* SRT: no two neighbours share a span, so the merge loop leaves the list alone *)
Lemma same_span_cap_of : forall a b, fst a <> fst b -> same_span (cap_of a) (cap_of b) = false.
Proof.
  intros [s e] [s' e'] H. cbn [fst] in H. unfold same_span, cap_of. cbn [c_start c_end fst snd].
  assert (E : Qeq_bool (inject_Z s) (inject_Z s') = false).
  { destruct (Qeq_bool (inject_Z s) (inject_Z s')) eqn:Q; [|reflexivity].
    apply Qeq_bool_iff in Q. unfold Qeq, inject_Z in Q. cbn [Qnum Qden] in Q. lia. }
  rewrite E. reflexivity.
Qed.

Lemma srt_fold_distinct : forall t c acc lo u, 0 < u -> dom_u u lo (c :: t) ->
  fold_left srt_step (map cap_of t) (cap_of c :: acc) = rev (map cap_of t) ++ cap_of c :: acc.
Proof.
  induction t as [|d t IH]; intros c acc lo u Hu D; [reflexivity|].
  destruct c as [s e], d as [s' e']. cbn [dom_u] in D. destruct D as [D1 [D2 [D3 [D4 D5]]]].
  cbn [map fold_left srt_step].
  rewrite same_span_cap_of by (cbn [fst]; cbn [dom_u] in D5; lia).
  rewrite (IH (s', e') (cap_of (s, e) :: acc) e u Hu D5).
  cbn [rev]. rewrite <- app_assoc. reflexivity.
Qed.

Lemma srt_written_id : forall cs u lo, 0 < u -> dom_u u lo cs -> srt_written cs = map cap_of cs.
Proof.
  intros [|c t] u lo Hu D; [reflexivity|].
  unfold srt_written, srt_merge. cbn [map].
  rewrite (srt_fold_distinct t c [] lo u Hu D). rewrite rev_app_distr. cbn [rev app].
  rewrite rev_involutive. reflexivity.
Qed.

Lemma hop_srt_exact : forall u lo cs, big_unit u -> 0 <= lo -> dom_u u lo cs ->
  hop FSrt cs = Ok (pi FSrt cs) /\ dom_u u (fl 1000 lo) (pi FSrt cs).
Proof.
  intros u lo cs Hu Hlo D. cbn [hop pi unit_of].
  rewrite (srt_written_id cs u lo) by (unfold big_unit in Hu; first [lia|exact D]).
  destruct (hop_cues_exact hop_time_srt 1000 u lo cs Hu ltac:(lia) ltac:(unfold big_unit in Hu; lia) Hlo
              hop_time_srt_exact D) as [H1 H2].
  split; [|exact H2]. rewrite <- H1. unfold hop_cues.
  clear. induction cs as [|c t IH]; [reflexivity|]. cbn [map res_map]. rewrite IH. reflexivity.
Qed.

(* ---- SAMI hop: sync rule (C02), then back-filling (C01) --------------------------------- *)
Fixpoint sami_abs (cs : list cue) : list (Z * bool) :=
  match cs with
  | [] => []
  | (s, e) :: t =>
      (s / 1000, true)
      :: (match t with
          | (s', _) :: _ => if s' / 1000 =? e / 1000 then [] else [(e / 1000, false)]
          | [] => []
          end) ++ sami_abs t
  end.

Definition ev_abs (e : sev) : Z * bool :=
  match e with SCue ms _ => (ms, true) | SBlank ms => (ms, false) end.

Lemma floor_ms_inject : forall z, floor_ms (inject_Z z) = z / 1000.
Proof. intros. rewrite floor_ms_div, Qfloor_inject. reflexivity. Qed.

Definition flip_blank (p : Z * bool) : Z * bool := (fst p, negb (snd p)).

Lemma sami_rule_abs : forall cs, map flip_blank (sami_rule (map cue_q cs)) = sami_abs cs.
Proof.
  induction cs as [|[s e] t IH]; [reflexivity|].
  cbn [map cue_q sami_rule fst snd sami_abs flip_blank negb]. rewrite floor_ms_inject. f_equal.
  rewrite map_app, IH.
  destruct t as [|[s' e'] t']; [reflexivity|].
  cbn [map cue_q fst snd]. rewrite !floor_ms_inject.
  destruct (s' / 1000 =? e / 1000); reflexivity.
Qed.

Lemma sami_spec_abs : forall cs, map ev_abs (sami_write (map cue_q cs)) = sami_abs cs.
Proof.
  intros cs. rewrite <- sami_rule_abs, <- sami_sync_rule. rewrite map_map. apply map_ext.
  intros [ms i|ms]; reflexivity.
Qed.

Lemma sami_abs_incr : forall cs lo b, dom_u 1000 lo cs ->
  (forall s e t, cs = (s, e) :: t -> b < s / 1000) ->
  sami_incr_from b (sami_abs cs) = true.
Proof.
  induction cs as [|[s e] t IH]; intros lo b D Hb; [reflexivity|].
  cbn [dom_u] in D. destruct D as [D1 [D2 [D3 [D4 D5]]]].
  specialize (Hb s e t eq_refl).
  cbn [sami_abs sami_incr_from app].
  assert (Hlt : (b <? s / 1000) = true) by lia. rewrite Hlt. cbn [andb].
  destruct t as [|[s' e'] t'].
  - reflexivity.
  - cbn [dom_u] in D5. destruct D5 as [E1 [E2 [E3 [E4 E5]]]].
    destruct (s' / 1000 =? e / 1000) eqn:Q.
    + cbn [app]. apply (IH e); [cbn [dom_u]; tauto|].
      intros s0 e0 t0 H0. inversion H0; subst. lia.
    + cbn [app sami_incr_from].
      assert (H1 : (s / 1000 <? e / 1000) = true) by lia. rewrite H1. cbn [andb].
      apply (IH e); [cbn [dom_u]; tauto|].
      intros s0 e0 t0 H0. inversion H0; subst. lia.
Qed.

Lemma sami_expected_blank : forall ms rest, sami_expected ((ms, false) :: rest) = sami_expected rest.
Proof. intros. reflexivity. Qed.

Lemma sami_abs_expected : forall cs lo, dom_u 1000 lo cs ->
  sami_expected (sami_abs cs) = set_last_end (map (pi_pt 1000) cs).
Proof.
  induction cs as [|[s e] t IH]; intros lo D; [reflexivity|].
  cbn [dom_u] in D. destruct D as [D1 [D2 [D3 [D4 D5]]]].
  destruct t as [|[s' e'] t'].
  - cbn [sami_abs app sami_expected map set_last_end pi_pt fst snd]. unfold fl. f_equal. f_equal. lia.
  - specialize (IH e D5).
    cbn [map]. rewrite set_last_end_cons2. cbn [map] in IH. rewrite <- IH.
    cbn [sami_abs].
    destruct (s' / 1000 =? e / 1000) eqn:Q.
    + cbn [app]. cbn [sami_abs] in *.
      change (sami_expected ((s / 1000, true) :: (s' / 1000, true) :: ?x))
        with ((s / 1000 * 1000, s' / 1000 * 1000) :: sami_expected ((s' / 1000, true) :: x)).
      cbn [sami_expected app]. unfold pi_pt, fl. cbn [fst snd]. apply Z.eqb_eq in Q. rewrite Q. reflexivity.
    + cbn [app sami_expected]. unfold pi_pt, fl. cbn [fst snd]. reflexivity.
Qed.

Lemma dom_u_nonneg_ms : forall cs lo, 0 <= lo -> dom_u 1000 lo cs ->
  forall p, In p (sami_abs cs) -> 0 <= fst p.
Proof.
  induction cs as [|[s e] t IH]; intros lo Hlo D p Hp; [destruct Hp|].
  cbn [dom_u] in D. destruct D as [D1 [D2 [D3 [D4 D5]]]].
  cbn [sami_abs] in Hp. destruct Hp as [<-|Hp]; [cbn [fst]; lia|].
  apply in_app_or in Hp. destruct Hp as [Hp|Hp].
  - destruct t as [|[s' e'] t']; [destruct Hp|].
    destruct (s' / 1000 =? e / 1000); [destruct Hp|]. destruct Hp as [<-|[]]. cbn [fst]. lia.
  - apply (IH e); [lia|exact D5|exact Hp].
Qed.

Lemma hop_sami_exact : forall u lo cs, big_unit u -> 0 <= lo -> dom_u u lo cs ->
  hop FSami cs = Ok (pi FSami cs) /\ dom_u u (fl 1000 lo) (pi FSami cs).
Proof.
  intros u lo cs Hu Hlo D.
  assert (D1 : dom_u 1000 lo cs).
  { clear Hlo. revert lo D. induction cs as [|[s e] t IH]; intros lo D; [exact I|].
    cbn [dom_u] in *. unfold big_unit in Hu. destruct D as [E1 [E2 [E3 [E4 E5]]]].
    split; [lia|split; [lia|split; [lia|split; [lia|apply IH; exact E5]]]]. }
  split.
  - cbn [hop pi].
    (* the events as abstract paragraphs with unpadded start strings *)
    set (evs := sami_write (map cue_q cs)).
    assert (A : map ev_abs evs = sami_abs cs) by apply sami_spec_abs.
    pose (ps := map (fun p : Z * bool => mkSp 0 (fst p) (snd p)) (sami_abs cs)).
    assert (P1 : map (fun p => (sp_ms p, sp_text p)) ps = sami_abs cs).
    { unfold ps. rewrite map_map. cbn [sp_ms sp_text]. rewrite <- (map_id (sami_abs cs)) at 2.
      apply map_ext. intros [a b]. reflexivity. }
    assert (P2 : map sami_p_of evs = map (fun p => (Some (sami_render_start p), sp_text p)) ps).
    { unfold ps. rewrite <- A. rewrite !map_map. apply map_ext_in. intros ev Hin.
      assert (N : 0 <= fst (ev_abs ev)).
      { apply (dom_u_nonneg_ms cs lo Hlo D1). rewrite <- A. apply in_map. exact Hin. }
      destruct ev as [ms i|ms]; cbn [ev_abs fst snd sami_p_of sami_render_start sp_pad sp_ms sp_text] in *;
        unfold sami_token, padded; rewrite dec_z_nonneg by exact N; reflexivity. }
    rewrite P2. rewrite sami_translate_str_exact.
    + rewrite P1. rewrite (sami_abs_expected cs lo D1). reflexivity.
    + rewrite P1. unfold sami_dom. apply (sami_abs_incr cs lo (-1) D1).
      intros s e t H. subst cs. cbn [dom_u] in D1. lia.
  - cbn [pi]. clear D1. revert lo Hlo D. induction cs as [|[s e] t IH]; intros lo Hlo D; [exact I|].
    cbn [dom_u] in D. destruct D as [E1 [E2 [E3 [E4 E5]]]].
    destruct t as [|[s' e'] t'].
    + cbn [map set_last_end pi_pt fst snd dom_u]. unfold fl, big_unit in *.
      destruct Hu as [-> | ->]; repeat split; lia.
    + cbn [map]. rewrite set_last_end_cons2. cbn [dom_u pi_pt fst snd].
      assert (He : 0 <= e) by (unfold big_unit in Hu; lia).
      specialize (IH e He E5). cbn [map] in IH.
      unfold fl, big_unit in *.
      split; [destruct Hu as [-> | ->]; lia|]. split; [destruct Hu as [-> | ->]; lia|].
      split; [lia|]. split; [lia|]. exact IH.
Qed.

(* ---- one hop, and a chain of hops, of the model = the projection / the closed form --------- *)
Lemma hop_exact : forall f u lo cs, big_unit u -> unit_of f <= u -> 0 <= lo -> dom_u u lo cs ->
  hop f cs = Ok (pi f cs) /\ dom_u u (fl (unit_of f) lo) (pi f cs).
Proof.
  intros f u lo cs Hu Hf Hlo D. destruct f.
  - apply hop_srt_exact; assumption.
  - exact (hop_cues_exact hop_time_vtt 1000 u lo cs Hu ltac:(lia) Hf Hlo hop_time_vtt_exact D).
  - exact (hop_cues_exact hop_time_dfxp 1000 u lo cs Hu ltac:(lia) Hf Hlo hop_time_dfxp_exact D).
  - apply hop_sami_exact; assumption.
  - refine (hop_cues_exact hop_time_mdvd 40000 u lo cs Hu ltac:(lia) Hf Hlo _ D).
    intros t Ht. apply hop_time_mdvd_exact. lia.
Qed.

Lemma run_model_exact_gen : forall chain u lo cs, big_unit u ->
  Forall (fun f => unit_of f <= u) chain -> 0 <= lo -> dom_u u lo cs ->
  run_model chain cs = Ok (run chain cs) /\ exists lo', 0 <= lo' /\ dom_u u lo' (run chain cs).
Proof.
  induction chain as [|f t IH]; intros u lo cs Hu Hc Hlo D; [split; [reflexivity|exists lo; split; assumption]|].
  inversion Hc as [|x l Hf Ht]; subst.
  destruct (hop_exact f u lo cs Hu Hf Hlo D) as [H1 H2].
  cbn [run_model run fold_left]. rewrite H1. cbn [bind].
  apply (IH u (fl (unit_of f) lo)); try assumption.
  unfold fl. destruct f; cbn [unit_of]; lia.
Qed.

Lemma chain_units_le : forall chain, chain <> [] -> Forall (fun f => unit_of f <= coarsest chain) chain.
Proof.
  intros chain Hne. unfold coarsest. destruct chain as [|f0 t0]; [congruence|].
  destruct (existsb is_mdvd (f0 :: t0)) eqn:E.
  - apply Forall_forall. intros f _. destruct f; cbn [unit_of]; lia.
  - apply Forall_forall. intros f Hin. destruct f; cbn [unit_of]; try lia.
    exfalso. assert (X : existsb is_mdvd (f0 :: t0) = true) by (apply existsb_exists; exists FMdvd; split; [exact Hin|reflexivity]).
    congruence.
Qed.

(* ---- chains without SAMI: cues may be shorter than the unit, neighbours start in different units ---- *)
Fixpoint dom_s (u lo : Z) (cs : list cue) : Prop :=
  match cs with
  | [] => True
  | (s, e) :: t =>
      lo <= s /\ s <= e /\ e < 86400000000
      /\ match t with (s', _) :: _ => fl u s < fl u s' | [] => True end
      /\ dom_s u e t
  end.

Lemma starts_apart_dom_s : forall u lo cs, starts_apart u lo 86400000000 cs = true -> dom_s u lo cs.
Proof.
  intros u lo cs. revert lo. induction cs as [|[s e] t IH]; intros lo H; [exact I|].
  cbn [starts_apart] in H. cbn [dom_s].
  apply andb_true_iff in H. destruct H as [H H5]. apply andb_true_iff in H. destruct H as [H H4].
  apply andb_true_iff in H. destruct H as [H H3]. apply andb_true_iff in H. destruct H as [H1 H2].
  split; [lia|split; [lia|split; [lia|split; [|apply IH; exact H5]]]].
  destruct t as [|[s' e'] t']; [exact I|lia].
Qed.

Lemma hop_cues_exact_s : forall (f : Z -> result Z) v u lo cs,
  big_unit u -> (v = 1000 \/ v = 40000) -> v <= u -> 0 <= lo ->
  (forall t, 0 <= t < 86400000000 -> f t = Ok (fl v t)) ->
  dom_s u lo cs ->
  hop_cues f cs = Ok (map (pi_pt v) cs) /\ dom_s u (fl v lo) (map (pi_pt v) cs).
Proof.
  intros f v u lo cs Hu Hv Hvu Hlo Hf. revert lo Hlo.
  induction cs as [|[s e] t IH]; intros lo Hlo D; [split; [reflexivity|exact I]|].
  cbn [dom_s] in D. destruct D as [D1 [D2 [D3 [D4 D5]]]].
  assert (He0 : 0 <= e) by lia.
  destruct (IH e He0 D5) as [IH1 IH2].
  unfold hop_cues in *. cbn [res_map map fst snd].
  rewrite (Hf s) by lia. cbn [bind]. rewrite (Hf e) by lia. cbn [bind]. rewrite IH1. cbn [bind].
  split; [reflexivity|]. cbn [dom_s pi_pt fst snd].
  assert (Uu : is_unit u) by (unfold big_unit in Hu; unfold is_unit; lia).
  assert (Uv : is_unit v) by (unfold is_unit; lia).
  split; [apply fl_mono; assumption|]. split; [apply fl_mono; assumption|].
  split; [pose proof (fl_le v e Uv); lia|]. split; [|exact IH2].
  destruct t as [|[s' e'] t']; [exact I|]. cbn [map pi_pt fst snd].
  rewrite !fl_fl by assumption. replace (Z.max v u) with u by lia. exact D4.
Qed.

Lemma srt_fold_distinct_s : forall t c acc lo u, big_unit u -> dom_s u lo (c :: t) ->
  fold_left srt_step (map cap_of t) (cap_of c :: acc) = rev (map cap_of t) ++ cap_of c :: acc.
Proof.
  induction t as [|d t IH]; intros c acc lo u Hu D; [reflexivity|].
  destruct c as [s e], d as [s' e']. cbn [dom_s] in D. destruct D as [D1 [D2 [D3 [D4 D5]]]].
  cbn [map fold_left srt_step].
  assert (Hne : s' <> s) by (intros ->; lia).
  rewrite same_span_cap_of by (cbn [fst]; exact Hne).
  rewrite (IH (s', e') (cap_of (s, e) :: acc) e u Hu D5).
  cbn [rev]. rewrite <- app_assoc. reflexivity.
Qed.

Lemma srt_written_id_s : forall cs u lo, big_unit u -> dom_s u lo cs -> srt_written cs = map cap_of cs.
Proof.
  intros [|c t] u lo Hu D; [reflexivity|].
  unfold srt_written, srt_merge. cbn [map].
  rewrite (srt_fold_distinct_s t c [] lo u Hu D). rewrite rev_app_distr. cbn [rev app].
  rewrite rev_involutive. reflexivity.
Qed.

Lemma hop_exact_s : forall f u lo cs, big_unit u -> is_sami f = false -> unit_of f <= u -> 0 <= lo ->
  dom_s u lo cs ->
  hop f cs = Ok (pi f cs) /\ dom_s u (fl (unit_of f) lo) (pi f cs).
Proof.
  intros f u lo cs Hu Hs Hf Hlo D. destruct f; try discriminate Hs.
  - cbn [hop pi unit_of]. rewrite (srt_written_id_s cs u lo Hu D).
    destruct (hop_cues_exact_s hop_time_srt 1000 u lo cs Hu ltac:(lia) Hf Hlo hop_time_srt_exact D) as [H1 H2].
    split; [|exact H2]. rewrite <- H1. unfold hop_cues.
    clear. induction cs as [|c t IH]; [reflexivity|]. cbn [map res_map]. rewrite IH. reflexivity.
  - exact (hop_cues_exact_s hop_time_vtt 1000 u lo cs Hu ltac:(lia) Hf Hlo hop_time_vtt_exact D).
  - exact (hop_cues_exact_s hop_time_dfxp 1000 u lo cs Hu ltac:(lia) Hf Hlo hop_time_dfxp_exact D).
  - refine (hop_cues_exact_s hop_time_mdvd 40000 u lo cs Hu ltac:(lia) Hf Hlo _ D).
    intros t Ht. apply hop_time_mdvd_exact. lia.
Qed.

Lemma run_model_exact_gen_s : forall chain u lo cs, big_unit u ->
  Forall (fun f => unit_of f <= u) chain -> existsb is_sami chain = false -> 0 <= lo -> dom_s u lo cs ->
  run_model chain cs = Ok (run chain cs) /\ exists lo', 0 <= lo' /\ dom_s u lo' (run chain cs).
Proof.
  induction chain as [|f t IH]; intros u lo cs Hu Hc Hs Hlo D; [split; [reflexivity|exists lo; split; assumption]|].
  inversion Hc as [|x l Hf Ht]; subst.
  cbn [existsb] in Hs. apply orb_false_iff in Hs. destruct Hs as [Hs1 Hs2].
  destruct (hop_exact_s f u lo cs Hu Hs1 Hf Hlo D) as [H1 H2].
  cbn [run_model run fold_left]. rewrite H1. cbn [bind].
  apply (IH u (fl (unit_of f) lo)); try assumption.
  unfold fl. destruct f; cbn [unit_of]; lia.
Qed.

(* the chain of model hops - printing every timing token with the writer models and parsing it
   back with pycaption's own reader models - is the closed form, on the whole domain *)
Lemma run_model_twice_gen : forall chain cs, chain_dom chain cs = true ->
  run_model chain cs = Ok (run chain cs) /\ run_model chain (run chain cs) = Ok (run chain (run chain cs)).
Proof.
  intros chain cs D.
  destruct chain as [|f t]; [split; reflexivity|].
  pose proof (coarsest_unit (f :: t)) as Hu.
  assert (Hb : big_unit (coarsest (f :: t))).
  { unfold coarsest, big_unit. destruct (existsb is_mdvd (f :: t)); lia. }
  assert (Hc : Forall (fun g => unit_of g <= coarsest (f :: t)) (f :: t)) by (apply chain_units_le; discriminate).
  unfold chain_dom in D. destruct (existsb is_sami (f :: t)) eqn:ES.
  - destruct (run_model_exact_gen (f :: t) (coarsest (f :: t)) 0 cs Hb Hc ltac:(lia)) as [E1 [lo' [L D']]].
    + apply sorted_from_dom_u; [unfold big_unit in Hb; lia|exact D].
    + split; [exact E1|]. exact (proj1 (run_model_exact_gen (f :: t) (coarsest (f :: t)) lo' _ Hb Hc L D')).
  - apply andb_true_iff in D. destruct D as [D _].
    destruct (run_model_exact_gen_s (f :: t) (coarsest (f :: t)) 0 cs Hb Hc ES ltac:(lia)) as [E1 [lo' [L D']]].
    + apply starts_apart_dom_s. exact D.
    + split; [exact E1|]. exact (proj1 (run_model_exact_gen_s (f :: t) (coarsest (f :: t)) lo' _ Hb Hc ES L D')).
Qed.

Theorem run_model_exact : forall chain cs, chain_dom chain cs = true ->
  run_model chain cs = Ok (expected chain cs).
Proof.
  intros chain cs D. rewrite <- run_closed_form. exact (proj1 (run_model_twice_gen chain cs D)).
Qed.

(* the SECOND pass of the model over its own output changes nothing *)
Theorem run_model_second_pass : forall chain cs, chain_dom chain cs = true ->
  (do o1 <- run_model chain cs; run_model chain o1) = Ok (expected chain cs).
Proof.
  intros chain cs D. destruct (run_model_twice_gen chain cs D) as [E1 E2].
  rewrite E1. cbn [bind]. rewrite E2. rewrite chain_fixpoint, run_closed_form. reflexivity.
Qed.

(* hence the model meets the property oracle: closed form after one pass, unchanged by a second *)
Theorem run_model_ok : forall chain cs, chain_dom chain cs = true ->
  exists o1, run_model chain cs = Ok o1 /\ o1 = expected chain cs /\ run chain o1 = o1.
Proof.
  intros chain cs D. exists (expected chain cs). split; [apply run_model_exact; exact D|].
  split; [reflexivity|]. rewrite <- run_closed_form. apply chain_fixpoint.
Qed.

(* ---- outside the domain: cues shorter than the resolution (recorded findings) ------------- *)
(* sorted, non-overlapping, positive length - but shorter than one millisecond *)
Lemma short_cues_srt_merge_refuted :
  exists chain cs, sorted_from 1 0 86396000000 cs = true /\ run_model chain cs <> Ok (expected chain cs).
Proof.
  exists [FDfxp; FSrt], [(1000, 1400); (1500, 1900); (5000, 9000)].
  split; [reflexivity|]. vm_compute. discriminate.
Qed.

Lemma short_cue_sami_end_refuted :
  exists cs, sorted_from 1 0 86396000000 cs = true /\ hop FSami cs <> Ok (pi FSami cs).
Proof.
  exists [(1000, 1400); (3000, 4000)]. split; [reflexivity|]. vm_compute. discriminate.
Qed.

Lemma cues_eqb_refl : forall a, cues_eqb a a = true.
Proof.
  intros a. unfold cues_eqb. rewrite Nat.eqb_refl. cbn [andb].
  induction a as [|c t IH]; [reflexivity|]. cbn [combine forallb fst snd]. rewrite !Z.eqb_refl, IH. reflexivity.
Qed.

Lemma near_fl : forall u t, is_unit u -> near u t (fl u t) = true.
Proof. intros u t Hu. unfold near, fl, is_unit in *. destruct Hu as [->|[->| ->]]; lia. Qed.

Lemma within_nf : forall u b cs, is_unit u -> within u b cs (nf u b cs) = true.
Proof.
  intros u b cs Hu. unfold nf. induction cs as [|[s e] t IH]; [destruct b; reflexivity|].
  destruct b.
  - destruct t as [|c' t'].
    + cbn [map set_last_end within pi_pt fst snd]. rewrite near_fl by exact Hu. reflexivity.
    + cbn [map] in *. rewrite set_last_end_cons2. cbn [within pi_pt fst snd].
      rewrite !near_fl by exact Hu. cbn [andb orb]. exact IH.
  - cbn [map within pi_pt fst snd]. rewrite !near_fl by exact Hu. rewrite orb_true_r. cbn [andb]. exact IH.
Qed.

(* the chain of model hops, REALLY run twice, satisfies the property oracle on the whole domain *)
Theorem run_model_meets_oracle : forall chain cs, chain_dom chain cs = true ->
  ok_chain chain cs (run_model chain cs) (do o1 <- run_model chain cs; run_model chain o1) = true.
Proof.
  intros chain cs D. rewrite run_model_second_pass by exact D. rewrite run_model_exact by exact D. unfold ok_chain.
  unfold expected at 1. rewrite within_nf by apply coarsest_unit. apply cues_eqb_refl.
Qed.

(* ---- several languages through DFXP / SAMI ---------------------------------------------------------- *)
Lemma run_model_set_ok : forall chain (cs : capset) (r : str * list cue -> list cue),
  forallb carries_languages chain = true ->
  (forall lc, In lc cs -> run_model chain (snd lc) = Ok (r lc)) ->
  run_model_set chain cs = Ok (map (fun lc => (fst lc, r lc)) cs).
Proof.
  induction chain as [|f t IH]; intros cs r Hc H.
  - cbn [run_model_set]. f_equal. rewrite <- (map_id cs) at 1. apply map_ext_in.
    intros [l c] Hin. specialize (H _ Hin). cbn [run_model snd] in H.
    assert (E : c = r (l, c)) by congruence. cbn [fst]. rewrite <- E. reflexivity.
  - cbn [forallb] in Hc. apply andb_true_iff in Hc. destruct Hc as [Hf Ht].
    cbn [run_model_set]. unfold hop_set. rewrite Hf.
    (* every language passes the hop *)
    assert (S : forall lc, In lc cs -> exists c', hop f (snd lc) = Ok c' /\ run_model t c' = Ok (r lc)).
    { intros lc Hin. specialize (H _ Hin). cbn [run_model] in H.
      destruct (hop f (snd lc)) as [c'|e]; [exists c'; split; [reflexivity|exact H]|discriminate H]. }
    set (h := fun lc : str * list cue => match hop f (snd lc) with Ok c' => c' | Err _ => [] end).
    assert (R : res_map (fun lc : str * list cue => do c <- hop f (snd lc); Ok (fst lc, c)) cs
                = Ok (map (fun lc => (fst lc, h lc)) cs)).
    { clear IH. induction cs as [|lc cs IHcs]; [reflexivity|].
      destruct (S lc (or_introl eq_refl)) as [c' [E _]].
      cbn [res_map map]. unfold h at 1. rewrite E. cbn [bind].
      rewrite IHcs; [reflexivity|intros x Hx; apply H; right; exact Hx|intros x Hx; apply S; right; exact Hx]. }
    rewrite R. cbn [bind].
    rewrite (IH (map (fun lc => (fst lc, h lc)) cs) (fun lc' => match run_model t (snd lc') with Ok x => x | Err _ => [] end) Ht).
    + f_equal. rewrite map_map. apply map_ext_in. intros lc Hin. cbn [fst snd].
      destruct (S lc Hin) as [c' [E1 E2]]. unfold h. rewrite E1, E2. reflexivity.
    + intros lc' Hin. apply in_map_iff in Hin. destruct Hin as [lc [<- Hin]]. cbn [snd].
      destruct (S lc Hin) as [c' [E1 E2]]. unfold h. rewrite E1, E2. reflexivity.
Qed.

Theorem run_model_set_exact : forall chain cs, set_dom chain cs = true ->
  run_model_set chain cs = Ok (expected_set chain cs).
Proof.
  intros chain cs H. unfold set_dom in H. apply andb_true_iff in H. destruct H as [Hc Hd].
  unfold expected_set. apply run_model_set_ok; [exact Hc|].
  intros lc Hin. apply run_model_exact. rewrite forallb_forall in Hd. apply Hd. exact Hin.
Qed.
