(* C05, stage 1 of the pop-on refinement: a single load with one row of basic characters (control codes single or
   doubled, any row / indent / tab offset) is decoded into exactly one text node carrying the row's characters at the
   row's cursor address, queued at the End-Of-Caption instant; the read-level corollary and the link to ok_c05. *)
From Coq Require Import List ZArith QArith Qabs Lia Bool ZifyBool.
From PV Require Import lib.Sx lib.Str lib.Result model.GenScc model.SccLen model.SccTime model.SccStash model.SccDecoder model.SccLayout
                       spec.Spec608 spec.SpecScc05 spec.SpecSccLen proofs.SccTableFacts proofs.SccDoubleFacts
                       proofs.SccLenFacts proofs.SccStashFacts.
Import ListNotations. Open Scope Z_scope.

Definition basic_item (it : item) : bool := match it with Ch _ => true | _ => false end.
Definition basic_row (r : row) : bool := row_ok r && negb (rw_ital r) && forallb basic_item (rw_items r).
Definition row_text (r : row) : str := map (fun it => match it with Ch c => c | _ => 0 end) (rw_items r).
Definition row_pos (r : row) : pos := (rw_row r, rw_indent r + rw_tab r).
Definition start_state (off : Q) (tc : str) : rstate := set_clock (rstate0 off) tc 0.

(* ---- 0. words with a trailing "next" ------------------------------------------------------------- *)
Fixpoint tws (s : rstate) (ws : list Z) (nx : option Z) : rstate :=
  match ws with
  | [] => s
  | w :: t => tws (translate_word s w (match t with n :: _ => Some n | [] => nx end)) t nx
  end.
Definition nxt (b : list Z) (nx : option Z) : option Z := match b with n :: _ => Some n | [] => nx end.

Lemma tws_words : forall ws s, translate_words s ws = tws s ws None.
Proof. induction ws as [|w t IH]; intros s; [reflexivity|]. cbn [translate_words tws]. apply IH. Qed.

Lemma tws_app : forall a b s nx, tws s (a ++ b) nx = tws (tws s a (nxt b nx)) b nx.
Proof.
  induction a as [|w t IH]; intros b s nx; [reflexivity|].
  cbn [app tws]. rewrite IH. destruct t as [|n t']; reflexivity.
Qed.

(* ---- 1. bytes and basic characters ---------------------------------------------------------------- *)
Lemma odd_parity_range : forall x, 0 <= odd_parity x < 256.
Proof.
  intros x. unfold odd_parity. cbv zeta. pose proof (Z.mod_pos_bound x 128 ltac:(lia)).
  destruct (Z.even _); lia.
Qed.

Lemma hi_word : forall b1 b2, 0 <= b2 < 256 -> hi (b1 * 256 + b2) = b1.
Proof.
  intros b1 b2 H. unfold hi. rewrite Z.add_comm, Z.div_add by lia. rewrite Z.div_small by lia. reflexivity.
Qed.

Lemma lo_word : forall b1 b2, 0 <= b2 < 256 -> lo (b1 * 256 + b2) = b2.
Proof.
  intros b1 b2 H. unfold lo. rewrite Z.add_comm, Z.mod_add by lia. apply Z.mod_small. lia.
Qed.

Lemma hd_filter_in : forall (f : Z -> bool) l, hd 0 (filter f l) = 0 \/ In (hd 0 (filter f l)) l.
Proof.
  intros f. induction l as [|a l IH]; [left; reflexivity|].
  cbn [filter]. destruct (f a).
  - right. left. reflexivity.
  - destruct IH as [IH|IH]; [left; exact IH|right; right; exact IH].
Qed.

Lemma zrange_bounds : forall lo n x, In x (zrange lo n) -> Z.of_nat lo <= x < Z.of_nat lo + Z.of_nat n.
Proof.
  intros lo n x H. unfold zrange in H. apply in_map_iff in H. destruct H as [k [<- Hk]]. apply in_seq in Hk. lia.
Qed.

Lemma basic_code_cases : forall c, basic_code c = 0 \/ In (basic_code c) (zrange 32 95).
Proof. intros c. exact (hd_filter_in (fun c0 => basic_608 c0 =? c) (zrange 32 95)). Qed.

Lemma basic_code_range : forall c, is_basic c = true -> 32 <= basic_code c <= 126 /\ basic_608 (basic_code c) = c.
Proof.
  intros c H. unfold is_basic in H.
  apply andb_true_iff in H. destruct H as [H H3]. apply andb_true_iff in H. destruct H as [H1 _].
  apply Z.eqb_eq in H1. apply Z.leb_le in H3. split; [|exact H1]. split; [exact H3|].
  destruct (basic_code_cases c) as [E|E].
  - rewrite E in H3. lia.
  - apply zrange_bounds in E. lia.
Qed.

Definition bc (c : Z) : Z := odd_parity (basic_code c).

Lemma char_of_basic : forall c, is_basic c = true -> char_of (bc c) = Some [c].
Proof.
  intros c H. destruct (basic_code_range c H) as [R E]. unfold bc. rewrite (chars_match_608 _ R), E. reflexivity.
Qed.

Lemma char_of_pad : char_of 128 = Some [].
Proof. vm_compute. reflexivity. Qed.

(* a word made of two bytes of the character table is in no other class *)
Lemma char_word_class : forall w a b, char_of (hi w) = Some a -> char_of (lo w) = Some b ->
  is_command w = false /\ is_pac w = false /\ special_of w = None /\ extended_of w = None /\
  tab_of w = None /\ is_cue_start w = false /\ (w =? w_bs) = false.
Proof.
  intros w a b Ha Hb. destruct classes_disjoint as (_ & _ & _ & _ & D).
  assert (N : forall P : Prop, (P -> char_of (hi w) = None \/ char_of (lo w) = None) -> ~ P).
  { intros P HP p. destruct (HP p) as [E|E]; congruence. }
  assert (Hc : is_command w = false).
  { destruct (is_command w) eqn:E; [|reflexivity]. exfalso. apply (N (is_command w || is_pac w = true)).
    - intros X. apply D. left. exact X.
    - rewrite E. reflexivity. }
  assert (Hp : is_pac w = false).
  { destruct (is_pac w) eqn:E; [|reflexivity]. exfalso. apply (N (is_command w || is_pac w = true)).
    - intros X. apply D. left. exact X.
    - rewrite E. apply orb_true_r. }
  assert (Hs : special_of w = None).
  { destruct (special_of w) eqn:E; [|reflexivity]. exfalso. apply (N (special_of w <> None)).
    - intros X. apply D. right. left. exact X.
    - congruence. }
  assert (He : extended_of w = None).
  { destruct (extended_of w) eqn:E; [|reflexivity]. exfalso. apply (N (extended_of w <> None)).
    - intros X. apply D. right. right. exact X.
    - congruence. }
  assert (Ht : tab_of w = None).
  { destruct (tab_of w) eqn:E; [|reflexivity]. exfalso.
    assert (X : tab_of w <> None) by congruence. destruct (tab_facts w X) as [Y _]. congruence. }
  assert (Hq : is_cue_start w = false).
  { destruct (is_cue_start w) eqn:E; [|reflexivity]. exfalso. unfold is_cue_start in E.
    destruct control_codes as (_ & _ & _ & _ & _ & _ & _ & _ & _ & _ & F & L). rewrite L in E.
    apply memz_In in E. rewrite Forall_forall in F.
    assert (Y : is_command w = true).
    { apply F. cbn [In] in *. intuition. }
    congruence. }
  assert (Hb' : (w =? w_bs) = false).
  { destruct (Z.eqb_spec w w_bs) as [->|]; [|reflexivity]. exfalso.
    assert (Y : is_command w_bs = true) by (vm_compute; reflexivity). congruence. }
  repeat split; assumption.
Qed.
