(* C05, stage 1 of the pop-on refinement: a single load with one row of basic characters (control codes single or
   doubled, any row / indent / tab offset) is decoded into exactly one text node carrying the row's characters at the
   row's cursor address, queued at the End-Of-Caption instant; the read-level corollary and the link to ok_c05. *)
From Coq Require Import List ZArith QArith Qabs Lia Bool ZifyBool.
From PV Require Import lib.Sx lib.Str lib.Result model.GenScc model.SccLen model.SccTime model.SccStash model.SccDecoder model.SccLayout
                       spec.Spec608 spec.SpecScc05 spec.SpecSccLen proofs.SccTableFacts proofs.SccDoubleFacts
                       proofs.SccLenFacts proofs.SccStashFacts.
Import ListNotations. Open Scope Z_scope.

Definition basic_item (it : item) : bool := match it with Ch _ => true | _ => false end.
(* plain white preamble (style attribute 0), basic characters only *)
Definition basic_row (r : row) : bool := row_ok r && (rw_style r =? 0) && forallb basic_item (rw_items r).
Lemma basic_row_style : forall r, basic_row r = true -> rw_style r = 0.
Proof.
  intros r H. unfold basic_row in H. apply andb_true_iff in H. destruct H as [H _].
  apply andb_true_iff in H. destruct H as [_ H]. apply Z.eqb_eq in H. exact H.
Qed.
Definition row_text (r : row) : str := map (fun it => match it with Ch c => c | _ => 0 end) (rw_items r).
Definition row_pos (r : row) : pos := (rw_row r, rw_indent r + rw_tab r).
Definition start_state (off : Q) (tc : str) : rstate := set_clock (rstate0 off) tc 0.

(* ---- 0. words with a trailing "next" ------------------------------------------------------------- *)
Fixpoint tws (s : rstate) (ws : list Z) (nx : option Z) : rstate :=
  match ws with
  | [] => s
  | w :: t => tws (translate_word s w (match t with n :: _ => Some n | [] => nx end)) t nx
  end.
Definition nxt (b : list Z) (nx : option Z) : option Z := match b with n :: _ => Some n | [] => nx end.

Lemma tws_words : forall ws s, translate_words s ws = tws s ws None.
Proof. induction ws as [|w t IH]; intros s; [reflexivity|]. cbn [translate_words tws]. apply IH. Qed.

Lemma tws_app : forall a b s nx, tws s (a ++ b) nx = tws (tws s a (nxt b nx)) b nx.
Proof.
  induction a as [|w t IH]; intros b s nx; [reflexivity|].
  cbn [app tws]. rewrite IH. destruct t as [|n t']; reflexivity.
Qed.

(* ---- 1. bytes and basic characters ---------------------------------------------------------------- *)
Lemma odd_parity_range : forall x, 0 <= odd_parity x < 256.
Proof.
  intros x. unfold odd_parity. cbv zeta. pose proof (Z.mod_pos_bound x 128 ltac:(lia)).
  destruct (Z.even _); lia.
Qed.

Lemma hi_word : forall b1 b2, 0 <= b2 < 256 -> hi (b1 * 256 + b2) = b1.
Proof.
  intros b1 b2 H. unfold hi. rewrite Z.add_comm, Z.div_add by lia. rewrite Z.div_small by lia. reflexivity.
Qed.

Lemma lo_word : forall b1 b2, 0 <= b2 < 256 -> lo (b1 * 256 + b2) = b2.
Proof.
  intros b1 b2 H. unfold lo. rewrite Z.add_comm, Z.mod_add by lia. apply Z.mod_small. lia.
Qed.

Lemma hd_filter_in : forall (f : Z -> bool) l, hd 0 (filter f l) = 0 \/ In (hd 0 (filter f l)) l.
Proof.
  intros f. induction l as [|a l IH]; [left; reflexivity|].
  cbn [filter]. destruct (f a).
  - right. left. reflexivity.
  - destruct IH as [IH|IH]; [left; exact IH|right; right; exact IH].
Qed.

Lemma zrange_bounds : forall lo n x, In x (zrange lo n) -> Z.of_nat lo <= x < Z.of_nat lo + Z.of_nat n.
Proof.
  intros lo n x H. unfold zrange in H. apply in_map_iff in H. destruct H as [k [<- Hk]]. apply in_seq in Hk. lia.
Qed.

Lemma basic_code_cases : forall c, basic_code c = 0 \/ In (basic_code c) (zrange 32 95).
Proof. intros c. exact (hd_filter_in (fun c0 => basic_608 c0 =? c) (zrange 32 95)). Qed.

(* performance only: keep the conversion from evaluating the filter inside basic_code on a variable *)
Local Strategy 1000 [basic_code is_basic].

Lemma is_basic_unfold : forall c, is_basic c = (basic_608 (basic_code c) =? c) && negb (c =? 9608) && (32 <=? basic_code c).
Proof. intros c. unfold is_basic. reflexivity. Qed.

(* (basic_code c is generalised before the boolean reasoning: the kernel must not evaluate the filter) *)
Lemma is_basic_parts : forall c, is_basic c = true -> basic_608 (basic_code c) = c /\ 32 <= basic_code c.
Proof.
  intros c H. rewrite is_basic_unfold in H. generalize dependent (basic_code c). intros b H.
  apply andb_true_iff in H. destruct H as [H H3]. apply andb_true_iff in H. destruct H as [H1 _].
  apply Z.eqb_eq in H1. apply Z.leb_le in H3. split; assumption.
Qed.

Lemma basic_code_range : forall c, is_basic c = true -> 32 <= basic_code c <= 126 /\ basic_608 (basic_code c) = c.
Proof.
  intros c H. destruct (is_basic_parts c H) as [H1 H3]. split; [|exact H1]. split; [exact H3|].
  destruct (basic_code_cases c) as [E|E].
  - rewrite E in H3. lia.
  - apply zrange_bounds in E. lia.
Qed.

Notation bc c := (odd_parity (basic_code c)).

Lemma char_of_basic : forall c, is_basic c = true -> char_of (bc c) = Some [c].
Proof.
  intros c H. destruct (basic_code_range c H) as [R E]. rewrite (chars_match_608 _ R), E. reflexivity.
Qed.

Lemma char_of_pad : char_of 128 = Some [].
Proof. vm_compute. reflexivity. Qed.

(* a word made of two bytes of the character table is in no other class *)
Lemma char_word_class : forall w a b, char_of (hi w) = Some a -> char_of (lo w) = Some b ->
  is_command w = false /\ is_pac w = false /\ special_of w = None /\ extended_of w = None /\
  tab_of w = None /\ is_cue_start w = false /\ (w =? w_bs) = false.
Proof.
  intros w a b Ha Hb. destruct classes_disjoint as (_ & _ & _ & _ & D).
  assert (N : forall P : Prop, (P -> char_of (hi w) = None \/ char_of (lo w) = None) -> ~ P).
  { intros P HP p. destruct (HP p) as [E|E]; congruence. }
  assert (Hc : is_command w = false).
  { destruct (is_command w) eqn:E; [|reflexivity]. exfalso. apply (N (is_command w || is_pac w = true)).
    - intros X. apply D. left. exact X.
    - rewrite E. reflexivity. }
  assert (Hp : is_pac w = false).
  { destruct (is_pac w) eqn:E; [|reflexivity]. exfalso. apply (N (is_command w || is_pac w = true)).
    - intros X. apply D. left. exact X.
    - rewrite E. apply orb_true_r. }
  assert (Hs : special_of w = None).
  { destruct (special_of w) eqn:E; [|reflexivity]. exfalso. apply (N (special_of w <> None)).
    - intros X. apply D. right. left. exact X.
    - congruence. }
  assert (He : extended_of w = None).
  { destruct (extended_of w) eqn:E; [|reflexivity]. exfalso. apply (N (extended_of w <> None)).
    - intros X. apply D. right. right. exact X.
    - congruence. }
  assert (Ht : tab_of w = None).
  { destruct (tab_of w) eqn:E; [|reflexivity]. exfalso.
    assert (X : tab_of w <> None) by congruence. destruct (tab_facts w X) as [Y _]. congruence. }
  assert (Hq : is_cue_start w = false).
  { destruct (is_cue_start w) eqn:E; [|reflexivity]. exfalso. unfold is_cue_start in E.
    destruct control_codes as (_ & _ & _ & _ & _ & _ & _ & _ & _ & _ & F & L).
    apply memz_In in E. apply (proj1 (L w)) in E. rewrite Forall_forall in F.
    assert (Y : is_command w = true).
    { apply F. cbn [In] in *. intuition. }
    congruence. }
  assert (Hb' : (w =? w_bs) = false).
  { destruct (Z.eqb_spec w w_bs) as [->|]; [|reflexivity]. exfalso.
    assert (Y : is_command w_bs = true) by (vm_compute; reflexivity). congruence. }
  repeat split; assumption.
Qed.

(* ---- 2. one word of characters ----------------------------------------------------------------------- *)
(* the pop-on buffer holds the text txt at p: no node yet (txt empty) or exactly one text node *)
Definition holds (nodes : list inode) (txt : str) (p : pos) : Prop :=
  (nodes = [] /\ txt = []) \/ nodes = [mkI IText txt p].

Lemma add_chars_holds : forall p dflt nodes txt s, holds nodes txt p ->
  add_chars (mkTk [p] None false dflt) (mkCr nodes SNone) s
  = (mkTk [p] None false dflt, mkCr [mkI IText (txt ++ s) p] SNone).
Proof. intros p dflt nodes txt s [[-> ->]| ->]; reflexivity. Qed.

Ltac proj_red :=
  cbn [r_stash r_tk r_last r_dstart r_pop r_paint r_roll r_active r_queue r_time r_tc r_frames r_offset r_err
       set_dbl set_buf set_tk set_stash set_active set_queue set_time set_clock set_err buf bump
       andb orb negb fst snd].

Lemma tw_char : forall st p dflt l ds nodes txt pa ro q tm tc fr off w a b n,
  char_of (hi w) = Some a -> char_of (lo w) = Some b -> holds nodes txt p ->
  translate_word (mkR st (mkTk [p] None false dflt) l ds (mkCr nodes SNone) pa ro MPop q tm tc fr off None) w n
  = mkR st (mkTk [p] None false dflt) (LWord w) ds (mkCr [mkI IText (txt ++ a ++ b) p] SNone) pa ro MPop q tm tc (fr + 1) off None.
Proof.
  intros st p dflt l ds nodes txt pa ro q tm tc fr off w a b n Ha Hb Hh.
  destruct (char_word_class w a b Ha Hb) as (Hc & Hp & Hs & He & Ht & Hq & Hbs).
  unfold translate_word. proj_red. unfold handle_double. proj_red. rewrite Hc, Hp, Hs, He, Ht, Hq.
  proj_red. rewrite ?andb_false_r. proj_red. rewrite Ha, Hb. unfold add_to_buf. proj_red.
  rewrite (add_chars_holds p dflt nodes txt (a ++ b) Hh). proj_red. reflexivity.
Qed.

Lemma w_eoc_command : is_command w_eoc = true.
Proof. vm_compute. reflexivity. Qed.

Lemma char_word_not_eoc : forall w a b, char_of (hi w) = Some a -> char_of (lo w) = Some b -> (w =? w_eoc) = false.
Proof.
  intros w a b Ha Hb. destruct (char_word_class w a b Ha Hb) as (Hc & _).
  destruct (Z.eqb_spec w w_eoc) as [->|]; [|reflexivity]. rewrite w_eoc_command in Hc. discriminate.
Qed.

(* ---- 3. a run of basic characters ------------------------------------------------------------------- *)
(* the packing on abstract bytes (so that the kernel never evaluates basic_code on a variable) *)
Fixpoint packb (bs : list Z) (pend : option Z) : list Z :=
  match bs with
  | [] => flush pend
  | b :: t => match pend with
              | None => packb t (Some b)
              | Some b0 => (b0 * 256 + b) :: packb t None
              end
  end.

Lemma pack_packb : forall d cs pend, pack d (map TCh cs) pend = packb (map (fun c => bc c) cs) pend.
Proof.
  intros d. induction cs as [|c t IH]; intros pend; [reflexivity|].
  cbn [map pack packb]. destruct pend as [b0|]; rewrite IH; reflexivity.
Qed.

(* byte b carries the character c *)
Definition carries (b c : Z) : Prop := 0 <= b < 256 /\ char_of b = Some [c].

Lemma carries_bc : forall c, is_basic c = true -> carries (bc c) c.
Proof. intros c Hc. exact (conj (odd_parity_range (basic_code c)) (char_of_basic c Hc)). Qed.

(* (rewriting, not conversion: the kernel must not evaluate is_basic c) *)
Lemma forallb_cons : forall A (f : A -> bool) a l, forallb f (a :: l) = f a && forallb f l.
Proof. reflexivity. Qed.

Lemma carries_basic : forall cs, forallb is_basic cs = true -> Forall2 carries (map (fun c => bc c) cs) cs.
Proof.
  induction cs as [|c t IH]; intros H; [constructor|].
  rewrite forallb_cons in H. apply andb_true_iff in H. destruct H as [Hc Ht].
  exact (Forall2_cons _ _ (carries_bc c Hc) (IH Ht)).
Qed.

Section Chars.
Variables (st : stash) (p dflt : pos) (ds : bool) (pa ro : creator) (q : option (creator * Q)) (tm : Q) (tc : str) (off : Q).

Definition SC (l : lastcmd) (nodes : list inode) (fr : Z) : rstate :=
  mkR st (mkTk [p] None false dflt) l ds (mkCr nodes SNone) pa ro MPop q tm tc fr off None.

Lemma sc_word : forall l nodes txt fr w a b n,
  char_of (hi w) = Some a -> char_of (lo w) = Some b -> holds nodes txt p ->
  translate_word (SC l nodes fr) w n = SC (LWord w) [mkI IText (txt ++ a ++ b) p] (fr + 1).
Proof. intros. unfold SC. apply tw_char; assumption. Qed.

Lemma holds_one : forall txt, holds [mkI IText txt p] txt p.
Proof. intros txt. right. reflexivity. Qed.

Definition chars_goal (l : lastcmd) (nodes : list inode) (fr : Z) (nx : option Z) (ws : list Z) (txt' : str) : Prop :=
  exists l' nodes',
    tws (SC l nodes fr) ws nx = SC l' nodes' (fr + Z.of_nat (length ws)) /\
    holds nodes' txt' p /\ (last_is l w_eoc = false -> last_is l' w_eoc = false).

Lemma bytes_run : forall nx bs cs, Forall2 carries bs cs ->
  (forall l nodes txt fr, holds nodes txt p -> chars_goal l nodes fr nx (packb bs None) (txt ++ cs)) /\
  (forall b0 c0 l nodes txt fr, carries b0 c0 -> holds nodes txt p ->
     chars_goal l nodes fr nx (packb bs (Some b0)) (txt ++ c0 :: cs)).
Proof.
  intros nx bs cs F. unfold chars_goal. induction F as [|b c bs cs [Rg Hc] F IH].
  - split.
    + intros l nodes txt fr Hh. exists l, nodes. cbn [packb flush tws length]. rewrite app_nil_r, Z.add_0_r. auto.
    + intros b0 c0 l nodes txt fr [Rg0 Hc0] Hh. cbn [packb flush tws length].
      assert (Ha : char_of (hi (b0 * 256 + 128)) = Some [c0]) by (rewrite hi_word by lia; exact Hc0).
      assert (Hl : char_of (lo (b0 * 256 + 128)) = Some []) by (rewrite lo_word by lia; exact char_of_pad).
      exists (LWord (b0 * 256 + 128)), [mkI IText (txt ++ [c0]) p]. split; [|split].
      * rewrite (sc_word l nodes txt fr _ _ _ nx Ha Hl Hh). rewrite app_nil_r. reflexivity.
      * apply holds_one.
      * intros _. cbn [last_is]. exact (char_word_not_eoc _ _ _ Ha Hl).
  - destruct IH as [IHa IHb]. split.
    + intros l nodes txt fr Hh. cbn [packb]. apply IHb; [split; assumption|exact Hh].
    + intros b0 c0 l nodes txt fr [Rg0 Hc0] Hh. cbn [packb].
      set (w := b0 * 256 + b). set (rest := packb bs None).
      assert (Ha : char_of (hi w) = Some [c0]) by (unfold w; rewrite hi_word by exact Rg; exact Hc0).
      assert (Hl : char_of (lo w) = Some [c]) by (unfold w; rewrite lo_word by exact Rg; exact Hc).
      cbn [tws]. fold (nxt rest nx). rewrite (sc_word l nodes txt fr w _ _ (nxt rest nx) Ha Hl Hh).
      destruct (IHa (LWord w) [mkI IText (txt ++ [c0] ++ [c]) p] (txt ++ [c0] ++ [c]) (fr + 1) (holds_one _))
        as (l' & nodes' & E & Hh' & Hl').
      exists l', nodes'. split; [|split].
      * unfold rest. rewrite E. f_equal. cbn [length]. lia.
      * replace (txt ++ c0 :: c :: cs) with ((txt ++ [c0] ++ [c]) ++ cs); [exact Hh'|].
        rewrite <- app_assoc. reflexivity.
      * intros _. apply Hl'. cbn [last_is]. exact (char_word_not_eoc _ _ _ Ha Hl).
Qed.

Lemma chars_run : forall d nx cs l nodes txt fr, forallb is_basic cs = true -> holds nodes txt p ->
  chars_goal l nodes fr nx (pack d (map TCh cs) None) (txt ++ cs).
Proof.
  intros d nx cs l nodes txt fr Hb Hh. rewrite pack_packb.
  exact (proj1 (bytes_run nx _ cs (carries_basic cs Hb)) l nodes txt fr Hh).
Qed.
End Chars.

(* ---- 4. the domain: what row_ok gives for a basic row ------------------------------------------------- *)
Lemma row_cells_basic : forall its acc ital, forallb basic_item its = true ->
  row_cells its acc ital = acc ++ map (fun c => Cell c ital) (map (fun it => match it with Ch c => c | _ => 0 end) its).
Proof.
  induction its as [|it t IH]; intros acc ital H; [cbn [row_cells map]; rewrite app_nil_r; reflexivity|].
  rewrite forallb_cons in H. apply andb_true_iff in H. destruct H as [Hi Ht].
  destruct it; try discriminate Hi. cbn [row_cells map]. rewrite (IH _ _ Ht), <- app_assoc. reflexivity.
Qed.

Lemma items_ok_cons : forall it t prev, items_ok (it :: t) prev = true ->
  (match it with Ch c => is_basic c = true | _ => True end) /\ items_ok t (Some it) = true.
Proof.
  intros it t prev H. destruct it; cbn [items_ok] in H; apply andb_true_iff in H; destruct H as [H1 H2];
    (split; [try exact I; exact H1|exact H2]).
Qed.

Lemma items_ok_basic : forall its prev, items_ok its prev = true -> forallb basic_item its = true ->
  forallb is_basic (map (fun it => match it with Ch c => c | _ => 0 end) its) = true.
Proof.
  induction its as [|it t IH]; intros prev H Hb; [reflexivity|].
  rewrite forallb_cons in Hb. apply andb_true_iff in Hb. destruct Hb as [Hi Ht].
  destruct (items_ok_cons it t prev H) as [H1 H2].
  destruct it; try discriminate Hi. cbn [map]. rewrite forallb_cons, H1. exact (IH _ H2 Ht).
Qed.

Lemma is_basic_ge32 : forall c, is_basic c = true -> 32 <= c.
Proof.
  intros c H. destruct (basic_code_range c H) as [R E]. rewrite <- E. clear E H. generalize dependent (basic_code c). intros b R.
  unfold basic_608. repeat match goal with |- context [if ?x then _ else _] => destruct x end; lia.
Qed.

Lemma basic_space : forall c, is_basic c = true -> is_space c = true -> c = 32.
Proof.
  intros c H Hs. destruct (basic_code_range c H) as [R E].
  rewrite <- E in Hs |- *. clear E H. revert R Hs. generalize (basic_code c). intros b R.
  unfold basic_608.
  repeat match goal with |- context [if ?x =? ?y then _ else _] => destruct (Z.eqb_spec x y) end; intros Hs;
    try (vm_compute in Hs; discriminate Hs); unfold is_space in Hs; lia.
Qed.

Lemma row_ok_parts : forall r, row_ok r = true ->
  1 <= rw_row r <= 15 /\ mem (rw_indent r) indents_608 = true /\ 0 <= rw_tab r <= 3 /\
  items_ok (rw_items r) None = true /\ existsb cell_vis (cells_of r) = true /\
  cell_space (last (cells_of r) Opt) = false /\ rw_indent r + rw_tab r + Z.of_nat (length (cells_of r)) <= 32.
Proof.
  intros r. unfold row_ok. cbv zeta. generalize (cells_of r) (items_ok (rw_items r) None). intros cs io H.
  repeat (apply andb_true_iff in H; let H' := fresh "H" in destruct H as [H H']).
  apply negb_true_iff in H1. repeat split; try assumption; lia.
Qed.

Lemma mem_In : forall x l, mem x l = true -> In x l.
Proof.
  intros x l H. unfold mem in H. apply existsb_exists in H. destruct H as [y [Hy E]]. apply Z.eqb_eq in E. subst. exact Hy.
Qed.

Lemma existsb_nonnil : forall A (f : A -> bool) l, existsb f l = true -> l <> [].
Proof. intros A f l H E. subst. discriminate. Qed.

Lemma last_map : forall A B (f : A -> B) l a, l <> [] -> last (map f l) (f a) = f (last l a).
Proof.
  intros A B f. induction l as [|x t IH]; intros a H; [congruence|].
  destruct t as [|y t']; [reflexivity|]. change (last (map f (y :: t')) (f a) = f (last (y :: t') a)).
  apply IH. discriminate.
Qed.

Lemma last_indep : forall A (l : list A) a b, l <> [] -> last l a = last l b.
Proof.
  intros A. induction l as [|x t IH]; intros a b H; [congruence|].
  destruct t as [|y t']; [reflexivity|]. change (last (y :: t') a = last (y :: t') b). apply IH. discriminate.
Qed.

Lemma basic_row_facts : forall r, basic_row r = true ->
  rw_ital r = false /\ 1 <= rw_row r <= 15 /\ In (rw_indent r) indents_608 /\ 0 <= rw_tab r <= 3 /\
  flat_map toks_of_item (rw_items r) = map TCh (row_text r) /\ forallb is_basic (row_text r) = true /\
  cells_of r = map (fun c => Cell c false) (row_text r) /\ row_text r <> [] /\
  last (row_text r) 0 <> 32 /\ rw_indent r + rw_tab r + Z.of_nat (length (row_text r)) <= 32.
Proof.
  intros r H. unfold basic_row in H. apply andb_true_iff in H. destruct H as [H Hb].
  apply andb_true_iff in H. destruct H as [Hok Hi]. apply Z.eqb_eq in Hi.
  assert (Hi' : rw_ital r = false) by (unfold rw_ital; rewrite Hi; apply andb_false_r).
  clear Hi; rename Hi' into Hi.
  destruct (row_ok_parts r Hok) as (Hr & Hm & Ht & Hio & Hv & Hl & Hn).
  assert (Hc : cells_of r = map (fun c => Cell c false) (row_text r)).
  { unfold cells_of. rewrite Hi. rewrite (row_cells_basic _ [] false Hb). reflexivity. }
  assert (Hne : row_text r <> []).
  { intros E. rewrite Hc, E in Hv. discriminate. }
  rewrite Hc in Hl, Hn. rewrite map_length in Hn.
  repeat split; try assumption; try lia.
  - apply mem_In. exact Hm.
  - unfold row_text. clear -Hb. induction (rw_items r) as [|it t IH]; [reflexivity|].
    rewrite forallb_cons in Hb. apply andb_true_iff in Hb. destruct Hb as [Hi Ht].
    destruct it; try discriminate Hi. cbn [flat_map toks_of_item map app]. rewrite (IH Ht). reflexivity.
  - exact (items_ok_basic _ _ Hio Hb).
  - intros E. rewrite (last_indep _ _ Opt (Cell 0 false)) in Hl by (intros X; apply map_eq_nil in X; congruence).
    rewrite (last_map _ _ (fun c => Cell c false) _ 0 Hne) in Hl. cbn [cell_space] in Hl. rewrite E in Hl. discriminate.
Qed.

(* ---- 5. the preamble address code of a row --------------------------------------------------------------- *)
Lemma pac_attr_facts : forall r, rw_style r = 0 -> In (rw_indent r) indents_608 ->
  0 <= pac_attr r < 32 /\ pac_col (pac_attr r) = rw_indent r /\ pac_italics (pac_attr r) = false.
Proof.
  intros r Hi Hin. unfold pac_attr. rewrite Hi. unfold indents_608 in Hin. cbn [In] in Hin.
  repeat (destruct Hin as [<-|Hin]; [split; [split; [apply Z.leb_le|apply Z.ltb_lt]; vm_compute; reflexivity
                                           |split; vm_compute; reflexivity]|]).
  destruct Hin.
Qed.

Definition ctl_words : list Z := [w_rcl; w_ru2; w_ru3; w_ru4; w_rdc; w_edm; w_cr; w_enm; w_eoc].

Record interpreted (w : Z) : Prop := mkInt {
  in_bs : (w =? w_bs) = false;
  in_ctl : ~ In w ctl_words;
  in_bg : memz w scc_background_color_codes = false;
  in_mid : memz w scc_mid_row_codes = false;
  in_ital : memz w scc_style_setting_commands = true -> memz w scc_italics_commands = false;
  in_cue : is_cue_start w = false;
  in_cp : (is_command w || is_pac w) = true }.

Lemma pac_row_facts : forall r, basic_row r = true ->
  let p := pac_word (rw_row r) (pac_attr r) in
  pac_pos p = Some (rw_row r, rw_indent r) /\ is_pac p = true /\ tab_of p = None /\ interpreted p.
Proof.
  intros r H p. destruct (basic_row_facts r H) as (Hi & Hr & Hin & _).
  destruct (pac_attr_facts r (basic_row_style r H) Hin) as (Ha & Hc & Hit).
  assert (Hp : pac_pos p = Some (rw_row r, rw_indent r)) by (unfold p; rewrite (pac_grid _ _ Hr Ha), Hc; reflexivity).
  assert (Hpac : is_pac p = true) by (unfold is_pac; rewrite Hp; reflexivity).
  destruct (pac_facts p Hpac) as [Ht Hq].
  destruct classes_disjoint as (_ & _ & D & _). destruct (D p Hpac) as (_ & Hm & Hb & Hn).
  repeat split; try assumption.
  - destruct (Z.eqb_spec p w_bs) as [E|]; [|reflexivity]. exfalso. apply Hn. rewrite E. cbn [In]. auto.
  - intros X. apply Hn. unfold ctl_words in X. cbn [In] in *. intuition.
  - intros _. unfold p. rewrite (proj1 (style_classes _ _ Hr Ha)). exact Hit.
  - rewrite Hpac. apply orb_true_r.
Qed.

Lemma tab_row_facts : forall k, 1 <= k <= 3 -> tab_of (tab_word k) = Some k /\ interpreted (tab_word k).
Proof.
  intros k Hk. pose proof (proj1 tab_offsets_1_2_3 k Hk) as Ht. split; [exact Ht|].
  assert (X : tab_of (tab_word k) <> None) by congruence.
  destruct classes_disjoint as (_ & _ & _ & D & _). destruct (D _ X) as (Hc & Hm & Hb & Hs & Hbs & Hn).
  destruct (tab_facts _ X) as (_ & Hq & _).
  split; try assumption.
  - apply Z.eqb_neq. exact Hbs.
  - intros Y. congruence.
  - rewrite Hc. reflexivity.
Qed.

(* ---- 6. executing an interpreted word on an empty pop-on buffer ------------------------------------------- *)
Lemma translate_command_other : forall s w n, ~ In w ctl_words -> translate_command s w n = do_interpret s w n.
Proof.
  intros s w n H. unfold ctl_words in H. cbn [In] in H.
  assert (E : forall x, (x = w -> False) -> (w =? x) = false) by (intros x Hx; apply Z.eqb_neq; intros Y; apply Hx; symmetry; exact Y).
  unfold translate_command.
  rewrite (E w_rcl), (E w_rdc), (E w_ru2), (E w_ru3), (E w_ru4), (E w_enm), (E w_eoc), (E w_cr), (E w_edm) by tauto.
  reflexivity.
Qed.

Lemma interp_empty : forall tk w n, interpreted w ->
  interpret_command tk creator0 w n = (update_positioning tk creator0 w, creator0, None).
Proof.
  intros tk w n I. unfold interpret_command. cbv zeta. rewrite (in_bs w I), (in_bg w I).
  destruct (memz w scc_style_setting_commands) eqn:Es.
  - rewrite (in_ital w I Es). reflexivity.
  - reflexivity.
Qed.

Lemma tw_interp : forall st tk l ds pa ro q tm tc fr off w n l',
  interpreted w -> handle_double (mkR st tk l ds creator0 pa ro MPop q tm tc fr off None) w
                   = (false, mkR st tk l' ds creator0 pa ro MPop q tm tc fr off None) ->
  translate_word (mkR st tk l ds creator0 pa ro MPop q tm tc fr off None) w n
  = mkR st (update_positioning tk creator0 w) l' ds creator0 pa ro MPop q tm tc (fr + 1) off None.
Proof.
  intros st tk l ds pa ro q tm tc fr off w n l' I Hd.
  unfold translate_word. proj_red. rewrite Hd. proj_red. rewrite (in_cp w I).
  rewrite (translate_command_other _ w n (in_ctl w I)). unfold do_interpret. proj_red.
  rewrite (interp_empty tk w n I). proj_red. reflexivity.
Qed.

Lemma hd_pac : forall st tk l ds c pa ro q tm tc fr off p,
  is_pac p = true -> last_contains l p = false ->
  handle_double (mkR st tk l ds c pa ro MPop q tm tc fr off None) p
  = (false, mkR st tk (LWord p) ds c pa ro MPop q tm tc fr off None).
Proof.
  intros st tk l ds c pa ro q tm tc fr off p Hp Hl. destruct (pac_facts p Hp) as [Ht Hq].
  assert (Hli : last_is l p = false) by (destruct l; cbn [last_is last_contains] in *; try reflexivity; try exact Hl).
  unfold handle_double. proj_red. rewrite Hp, Hl, Hli, Ht, Hq. rewrite !andb_false_r. proj_red. reflexivity.
Qed.

Lemma hd_tab : forall st tk ds c pa ro q tm tc fr off p t k,
  is_pac p = true -> tab_of t = Some k ->
  handle_double (mkR st tk (LWord p) ds c pa ro MPop q tm tc fr off None) t
  = (false, mkR st tk (LPacTo p t) ds c pa ro MPop q tm tc fr off None).
Proof.
  intros st tk ds c pa ro q tm tc fr off p t k Hp Ht.
  assert (X : tab_of t <> None) by congruence. destruct (tab_facts t X) as (_ & Hq & Hpt & _).
  unfold handle_double. proj_red. cbn [last_is last_contains]. rewrite (pac_neq_tab p t Hp X), Hq, Hpt, Ht, Hp.
  rewrite !andb_false_r. proj_red. reflexivity.
Qed.

Lemma tracker_first : forall dflt pos, tracker_update (mkTk [] None false dflt) pos = mkTk [pos] None false pos.
Proof. reflexivity. Qed.

Lemma tracker_tab : forall row col k, 1 <= k <= 3 ->
  tracker_update (mkTk [(row, col)] None false (row, col)) (row, col + k) = mkTk [(row, col + k)] None false (row, col + k).
Proof.
  intros row col k Hk. unfold tracker_update, pos_eqb. cbn [tk_pos tk_break tk_repos tk_default map last fst snd].
  rewrite Z.eqb_refl.
  replace (row =? row + 1) with false by lia. replace (col + 1 <=? col + k) with true by lia.
  replace (col + k <=? col + 3) with true by lia. replace (col + k =? col) with false by lia. reflexivity.
Qed.

Lemma tw_second : forall s w n, r_err s = None -> r_last s = LWord w -> doubled_type s w = true ->
  translate_word s w n = bump (set_dbl s LNone (if is_cue_start w then true else r_dstart s)).
Proof.
  intros s w n He Hl Hd. unfold translate_word. rewrite He, (handle_double_second s w Hl Hd). reflexivity.
Qed.

(* the first preamble address code of an empty buffer resets the tracker *)
Lemma tracker_reset_first : forall tk pos, tracker_update (tracker_reset tk) pos = mkTk [pos] None false pos.
Proof. reflexivity. Qed.

Lemma up_pac_gen : forall tk c p pos, tab_of p = None -> pac_pos p = Some pos ->
  update_positioning tk c p = tracker_update (match cr_nodes c with [] => tracker_reset tk | _ => tk end) pos.
Proof. intros tk c p pos Ht Hp. unfold update_positioning. rewrite Ht, Hp. reflexivity. Qed.

Lemma up_pac_empty : forall tk c p pos, tab_of p = None -> pac_pos p = Some pos -> cr_nodes c = [] ->
  update_positioning tk c p = tracker_update (tracker_reset tk) pos.
Proof. intros tk c p pos Ht Hp Hc. rewrite (up_pac_gen _ _ _ _ Ht Hp), Hc. reflexivity. Qed.

Lemma up_pac_nonempty : forall tk c p pos, tab_of p = None -> pac_pos p = Some pos -> cr_nodes c <> [] ->
  update_positioning tk c p = tracker_update tk pos.
Proof.
  intros tk c p pos Ht Hp Hc. rewrite (up_pac_gen _ _ _ _ Ht Hp). destruct (cr_nodes c); [congruence|reflexivity].
Qed.

(* (the name used by the later stages: the buffer hypothesis comes last) *)
Lemma up_pac : forall tk c p pos, tab_of p = None -> pac_pos p = Some pos -> cr_nodes c <> [] ->
  update_positioning tk c p = tracker_update tk pos.
Proof. exact up_pac_nonempty. Qed.

(* a tracker that is already in its reset form is not changed by the reset: any buffer *)
Lemma up_pac_fresh : forall dflt c p pos, tab_of p = None -> pac_pos p = Some pos ->
  update_positioning (mkTk [] None false dflt) c p = tracker_update (mkTk [] None false dflt) pos.
Proof.
  intros dflt c p pos Ht Hp. rewrite (up_pac_gen _ _ _ _ Ht Hp). destruct (cr_nodes c); reflexivity.
Qed.

Lemma up_tab : forall tk t k, tab_of t = Some k ->
  update_positioning tk creator0 t = tracker_update tk (fst (tk_default tk), snd (tk_default tk) + k).
Proof. intros tk t k Ht. unfold update_positioning. rewrite Ht. reflexivity. Qed.

(* ---- 7. the PAC unit of a basic row --------------------------------------------------------------------- *)
Section PacUnit.
Variable r : row.
Hypothesis Hrow : basic_row r = true.
Variables (st : stash) (ds : bool) (pa ro : creator) (q : option (creator * Q)) (tm : Q) (tc : str) (off : Q).

Definition SP (tk : tracker) (l : lastcmd) (fr : Z) : rstate := mkR st tk l ds creator0 pa ro MPop q tm tc fr off None.
Notation p := (pac_word (rw_row r) (pac_attr r)).
Notation t := (tab_word (rw_tab r)).
Notation pos0 := (rw_row r, rw_indent r).

Lemma pac_step : forall dflt l fr n, last_contains l p = false ->
  translate_word (SP (mkTk [] None false dflt) l fr) p n = SP (mkTk [pos0] None false pos0) (LWord p) (fr + 1).
Proof.
  intros dflt l fr n Hl. destruct (pac_row_facts r Hrow) as (Hp & Hpac & Ht & I). unfold SP.
  rewrite (tw_interp _ _ _ _ _ _ _ _ _ _ _ _ n (LWord p) I (hd_pac _ _ _ _ _ _ _ _ _ _ _ _ _ Hpac Hl)).
  rewrite (up_pac_empty _ creator0 _ _ Ht Hp eq_refl), tracker_reset_first. reflexivity.
Qed.

Lemma tab_step : forall fr n, 1 <= rw_tab r <= 3 ->
  translate_word (SP (mkTk [pos0] None false pos0) (LWord p) fr) t n = SP (mkTk [row_pos r] None false (row_pos r)) (LPacTo p t) (fr + 1).
Proof.
  intros fr n Hk. destruct (pac_row_facts r Hrow) as (Hp & Hpac & Ht & _). destruct (tab_row_facts _ Hk) as [Htab I]. unfold SP.
  rewrite (tw_interp _ _ _ _ _ _ _ _ _ _ _ _ n (LPacTo p t) I (hd_tab _ _ _ _ _ _ _ _ _ _ _ _ _ _ Hpac Htab)).
  rewrite (up_tab _ _ _ Htab). cbn [tk_default fst snd]. rewrite (tracker_tab _ _ _ Hk). reflexivity.
Qed.

Lemma pac_again : forall tk l fr n, last_contains l p = true -> translate_word (SP tk l fr) p n = SP tk LNone (fr + 1).
Proof.
  intros tk l fr n Hl. destruct (pac_row_facts r Hrow) as (_ & Hpac & _). unfold SP.
  rewrite (pac_second (mkR st tk l ds creator0 pa ro MPop q tm tc fr off None) p n eq_refl Hpac Hl). reflexivity.
Qed.

Lemma tab_again : forall tk fr n, 1 <= rw_tab r <= 3 -> translate_word (SP tk LNone fr) t n = SP tk LNone (fr + 1).
Proof.
  intros tk fr n Hk. destruct (tab_row_facts _ Hk) as [Htab _]. unfold SP.
  rewrite (tab_skip_none (mkR st tk LNone ds creator0 pa ro MPop q tm tc fr off None) t n eq_refl eq_refl); [reflexivity|congruence].
Qed.

Lemma pac_unit_run : forall d dflt l fr nx, last_contains l p = false ->
  exists l', tws (SP (mkTk [] None false dflt) l fr) (pac_unit d r) nx
             = SP (mkTk [row_pos r] None false (row_pos r)) l' (fr + Z.of_nat (length (pac_unit d r)))
             /\ last_is l' w_eoc = false.
Proof.
  intros d dflt l fr nx Hl. destruct (basic_row_facts r Hrow) as (_ & _ & _ & Hk & _).
  destruct (pac_row_facts r Hrow) as (_ & Hpac & _ & I).
  assert (Hne : (p =? w_eoc) = false).
  { apply Z.eqb_neq. intros E. apply (in_ctl _ I). rewrite E. unfold ctl_words. cbn [In]. tauto. }
  unfold pac_unit. cbv zeta. destruct (0 <? rw_tab r) eqn:Et.
  - assert (Hk' : 1 <= rw_tab r <= 3) by lia. destruct d.
    + exists LNone. split; [|reflexivity]. cbn [app tws length].
      rewrite (pac_step dflt l fr _ Hl), (tab_step _ _ Hk'), pac_again, (tab_again _ _ _ Hk').
      * f_equal. lia.
      * cbn [last_contains]. rewrite Z.eqb_refl. reflexivity.
    + exists (LPacTo p t). split; [|reflexivity]. cbn [app tws length].
      rewrite (pac_step dflt l fr _ Hl), (tab_step _ _ Hk'). f_equal. lia.
  - assert (E0 : rw_tab r = 0) by lia. unfold row_pos. rewrite E0, Z.add_0_r. destruct d.
    + exists LNone. split; [|reflexivity]. cbn [app tws length].
      rewrite (pac_step dflt l fr _ Hl), pac_again.
      * f_equal. lia.
      * cbn [last_contains]. apply Z.eqb_refl.
    + exists (LWord p). split; [|cbn [last_is]; exact Hne]. cbn [app tws length].
      rewrite (pac_step dflt l fr _ Hl). reflexivity.
Qed.
End PacUnit.

(* ---- 8. prologue (ENM RCL) and End-Of-Caption ----------------------------------------------------------------- *)
Lemma prologue_run : forall d off tc nx, exists l ds,
  tws (start_state off tc) (ctl d (ctrl_word 46) ++ ctl d (ctrl_word 32)) nx
  = mkR stash0 tracker0 l ds creator0 creator0 creator0 MPop None 0 tc (if d then 4 else 2) off None
  /\ (l = LNone \/ l = LWord w_rcl).
Proof.
  intros d off tc nx. destruct d.
  - exists LNone, true. split; [vm_compute; reflexivity|left; reflexivity].
  - exists (LWord w_rcl), false. split; [vm_compute; reflexivity|right; reflexivity].
Qed.

Lemma translate_command_eoc : forall s n, translate_command s w_eoc n =
  with_time s (fun t =>
      let s := set_time s t in
      let s := match r_queue s with Some _ => pop_on s t | None => s end in
      if cr_is_empty (buf s) then s
      else set_buf (set_queue s (Some (buf s, t))) creator0).
Proof. reflexivity. Qed.

Lemma hd_eoc : forall st tk l ds c pa ro q tm tc fr off, last_is l w_eoc = false ->
  handle_double (mkR st tk l ds c pa ro MPop q tm tc fr off None) w_eoc
  = (false, mkR st tk (LWord w_eoc) ds c pa ro MPop q tm tc fr off None).
Proof.
  intros st tk l ds c pa ro q tm tc fr off Hl. unfold handle_double. proj_red. rewrite Hl.
  rewrite !andb_false_r. reflexivity.
Qed.

Lemma eoc_run : forall d st tk l ds txt p pa ro tm tc fr off nx t, txt <> [] -> last_is l w_eoc = false ->
  get_time tc fr off = Ok t ->
  exists l' ds', tws (mkR st tk l ds (mkCr [mkI IText txt p] SNone) pa ro MPop None tm tc fr off None) (ctl d (ctrl_word 47)) nx
   = mkR st tk l' ds' creator0 pa ro MPop (Some (mkCr [mkI IText txt p] SNone, t)) t tc (fr + (if d then 2 else 1)) off None
   /\ last_is l' w_edm = false.
Proof.
  intros d st tk l ds txt p pa ro tm tc fr off nx t Hne Hl Hg.
  change (ctrl_word 47) with w_eoc. destruct txt as [|c0 txt']; [congruence|].
  assert (E1 : forall n, translate_word (mkR st tk l ds (mkCr [mkI IText (c0 :: txt') p] SNone) pa ro MPop None tm tc fr off None) w_eoc n
          = mkR st tk (LWord w_eoc) ds creator0 pa ro MPop (Some (mkCr [mkI IText (c0 :: txt') p] SNone, t)) t tc (fr + 1) off None).
  { intros n. unfold translate_word. proj_red. rewrite (hd_eoc _ _ _ _ _ _ _ _ _ _ _ _ Hl). proj_red.
    replace (is_command w_eoc || is_pac w_eoc) with true by (vm_compute; reflexivity).
    rewrite translate_command_eoc. unfold with_time. proj_red. rewrite Hg. reflexivity. }
  destruct d; cbn [ctl tws].
  - exists LNone, ds. split; [|reflexivity]. rewrite E1. rewrite tw_second; [| reflexivity | reflexivity | reflexivity].
    unfold bump, set_dbl, set_clock. proj_red. f_equal; first [lia | reflexivity].
  - exists (LWord w_eoc), ds. split; [|reflexivity]. rewrite E1. reflexivity.
Qed.

(* ---- 9. the whole load ------------------------------------------------------------------------------------------ *)
Lemma emit_load_one : forall d r, basic_row r = true ->
  emit_load d [r] = (ctl d (ctrl_word 46) ++ ctl d (ctrl_word 32)) ++ pac_unit d r ++ pack d (map TCh (row_text r)) None ++ ctl d (ctrl_word 47).
Proof.
  intros d r H. destruct (basic_row_facts r H) as (_ & _ & _ & _ & Hf & _).
  unfold emit_load, emit_row. cbn [flat_map]. rewrite Hf, app_nil_r, <- !app_assoc. reflexivity.
Qed.

Lemma ctl_length : forall d w, Z.of_nat (length (ctl d w)) = if d then 2 else 1.
Proof. intros [] w; reflexivity. Qed.

Lemma stage1_state : forall d r off tc nx t, basic_row r = true ->
  get_time tc (Z.of_nat (length (emit_load d [r])) - (if d then 2 else 1)) off = Ok t ->
  exists l ds,
   tws (start_state off tc) (emit_load d [r]) nx =
     mkR stash0 (mkTk [row_pos r] None false (row_pos r)) l ds creator0 creator0 creator0 MPop
         (Some (mkCr [mkI IText (row_text r) (row_pos r)] SNone, t)) t tc (Z.of_nat (length (emit_load d [r]))) off None
   /\ last_is l w_edm = false.
Proof.
  intros d r off tc nx t H Hg. destruct (basic_row_facts r H) as (_ & _ & _ & _ & _ & Hb & _ & Hne & _).
  rewrite (emit_load_one d r H) in *. rewrite !app_length, !Nat2Z.inj_add, !ctl_length in *.
  rewrite (tws_app (ctl d (ctrl_word 46) ++ ctl d (ctrl_word 32))), (tws_app (pac_unit d r)),
          (tws_app (pack d (map TCh (row_text r)) None)).
  destruct (prologue_run d off tc (nxt (pac_unit d r ++ pack d (map TCh (row_text r)) None ++ ctl d (ctrl_word 47)) nx))
    as (l0 & ds0 & -> & Hl0).
  destruct (pac_row_facts r H) as (_ & _ & _ & I).
  assert (Hc0 : last_contains l0 (pac_word (rw_row r) (pac_attr r)) = false).
  { destruct Hl0 as [->| ->]; [reflexivity|]. cbn [last_contains]. apply Z.eqb_neq. intros E. apply (in_ctl _ I).
    rewrite <- E. unfold ctl_words. cbn [In]. tauto. }
  destruct (pac_unit_run r H stash0 ds0 creator0 creator0 None 0%Q tc off d (14, 0) l0 (if d then 4 else 2)
              (nxt (pack d (map TCh (row_text r)) None ++ ctl d (ctrl_word 47)) nx) Hc0) as (l1 & E1 & Hl1).
  unfold SP in E1. unfold tracker0. rewrite E1.
  destruct (chars_run stash0 (row_pos r) (row_pos r) ds0 creator0 creator0 None 0%Q tc off d (nxt (ctl d (ctrl_word 47)) nx)
              (row_text r) l1 [] [] ((if d then 4 else 2) + Z.of_nat (length (pac_unit d r))) Hb
              (or_introl (conj eq_refl eq_refl))) as (l2 & nodes2 & E2 & Hh2 & Hl2).
  unfold SC in E2. fold creator0 in E2. rewrite E2. cbn [app] in Hh2.
  destruct Hh2 as [[_ X]| ->]; [congruence|].
  set (fr := (if d then 4 else 2) + Z.of_nat (length (pac_unit d r)) + Z.of_nat (length (pack d (map TCh (row_text r)) None))) in *.
  replace ((if d then 2 else 1) + (if d then 2 else 1) + (Z.of_nat (length (pac_unit d r)) +
           (Z.of_nat (length (pack d (map TCh (row_text r)) None)) + (if d then 2 else 1))) - (if d then 2 else 1)) with fr in Hg
    by (unfold fr; destruct d; lia).
  destruct (eoc_run d stash0 (mkTk [row_pos r] None false (row_pos r)) l2 ds0 (row_text r) (row_pos r) creator0 creator0 0%Q tc fr off nx t
              Hne (Hl2 Hl1) Hg) as (l3 & ds3 & E3 & Hl3).
  exists l3, ds3. split; [|exact Hl3]. rewrite E3. f_equal. unfold fr. destruct d; lia.
Qed.

Theorem popon_stage1 : forall d r off tc, basic_row r = true ->
  (forall k, exists t, get_time tc k off = Ok t) ->
  let ws := emit_load d [r] in
  let s := translate_words (start_state off tc) ws in
  r_err s = None /\ r_stash s = stash0 /\ buf s = creator0 /\ r_active s = MPop /\
  exists t, get_time tc (Z.of_nat (length ws) - (if d then 2 else 1)) off = Ok t /\
            r_queue s = Some (mkCr [mkI IText (row_text r) (row_pos r)] SNone, t).
Proof.
  intros d r off tc H Ht ws s. destruct (Ht (Z.of_nat (length ws) - (if d then 2 else 1))) as [t Hg].
  destruct (stage1_state d r off tc None t H Hg) as (l & ds & E & _).
  unfold s, ws. rewrite tws_words, E. cbn [r_err r_stash buf r_active r_pop r_queue].
  repeat split. exists t. split; [exact Hg|reflexivity].
Qed.

(* ---- 10. the read-level corollary: one more line carrying the Erase-Displayed-Memory --------------------------- *)
Lemma translate_command_edm : forall s n, translate_command s w_edm n =
  if (match r_queue s with Some _ => true | None => false end) then with_time s (fun t => pop_on s t)
  else do_interpret s w_edm n.
Proof. reflexivity. Qed.

Lemma hd_edm : forall st tk l ds c pa ro q tm tc fr off, last_is l w_edm = false ->
  handle_double (mkR st tk l ds c pa ro MPop q tm tc fr off None) w_edm
  = (false, mkR st tk (LWord w_edm) ds c pa ro MPop q tm tc fr off None).
Proof.
  intros st tk l ds c pa ro q tm tc fr off Hl. unfold handle_double. proj_red. rewrite Hl.
  rewrite !andb_false_r. reflexivity.
Qed.

Lemma edm_run : forall d st tk l ds pa ro c t1 tm tc fr off t2, last_is l w_edm = false -> get_time tc fr off = Ok t2 ->
  exists l' ds' fr', translate_words (mkR st tk l ds creator0 pa ro MPop (Some (c, t1)) tm tc fr off None) (ctl d (ctrl_word 44))
  = mkR (create_and_store st c t1 t2) tk l' ds' creator0 pa ro MPop None tm tc fr' off None.
Proof.
  intros d st tk l ds pa ro c t1 tm tc fr off t2 Hl Hg. change (ctrl_word 44) with w_edm.
  assert (E1 : forall n, translate_word (mkR st tk l ds creator0 pa ro MPop (Some (c, t1)) tm tc fr off None) w_edm n
          = mkR (create_and_store st c t1 t2) tk (LWord w_edm) ds creator0 pa ro MPop None tm tc (fr + 1) off None).
  { intros n. unfold translate_word. proj_red. rewrite (hd_edm _ _ _ _ _ _ _ _ _ _ _ _ Hl). proj_red.
    replace (is_command w_edm || is_pac w_edm) with true by (vm_compute; reflexivity).
    rewrite translate_command_edm. proj_red. unfold with_time. proj_red. rewrite Hg. reflexivity. }
  destruct d; cbn [ctl translate_words].
  - eexists LNone, _, _. rewrite E1. rewrite tw_second; [| reflexivity | reflexivity | reflexivity].
    unfold bump, set_dbl, set_clock. proj_red. reflexivity.
  - eexists (LWord w_edm), _, _. rewrite E1. reflexivity.
Qed.

Lemma format_one : forall c0 txt p, format_italics [mkI IText (c0 :: txt) p] = [mkI IText (rstrip (c0 :: txt)) p].
Proof. reflexivity. Qed.

Lemma rstrip_id : forall s, s <> [] -> is_space (last s 0) = false -> rstrip s = s.
Proof.
  intros s Hne Hl. destruct (exists_last Hne) as (l & x & ->). rewrite last_last in Hl.
  unfold rstrip, rstrip_by. rewrite rev_unit. cbn [lstrip_by]. rewrite Hl. rewrite <- rev_unit. apply rev_involutive.
Qed.

Lemma store_one : forall c0 txt p t1 t2, rstrip (c0 :: txt) = c0 :: txt ->
  create_and_store stash0 (mkCr [mkI IText (c0 :: txt) p] SNone) t1 t2
  = mkStash [mkPre t1 t2 [CText (c0 :: txt) p] (Some p)] 1.
Proof.
  intros c0 txt p t1 t2 H. unfold create_and_store. cbn [cr_is_empty cr_nodes existsb i_text nonempty orb negb].
  rewrite format_one, H. reflexivity.
Qed.

Lemma split_no_sep : forall sep s cur, (forall c, In c s -> c <> sep) -> split_ch_aux sep s cur = [rev cur ++ s].
Proof.
  intros sep. induction s as [|c t IH]; intros cur H; cbn [split_ch_aux].
  - rewrite app_nil_r. reflexivity.
  - destruct (Z.eqb_spec c sep) as [E|_]; [exfalso; exact (H c (or_introl eq_refl) E)|].
    rewrite IH by (intros x Hx; apply H; right; exact Hx). cbn [rev]. rewrite <- app_assoc. reflexivity.
Qed.

Lemma row_text_facts : forall r, basic_row r = true ->
  rstrip (row_text r) = row_text r /\ offending [(format_ts 0, row_text r)] = [].
Proof.
  intros r H. destruct (basic_row_facts r H) as (_ & _ & Hin & Hk & _ & Hb & _ & Hne & Hl & Hn).
  rewrite forallb_forall in Hb. split.
  - apply rstrip_id; [exact Hne|]. destruct (is_space (last (row_text r) 0)) eqn:E; [|reflexivity]. exfalso. apply Hl.
    apply basic_space; [|exact E]. apply Hb. destruct (exists_last Hne) as (l & x & ->). rewrite last_last.
    apply in_or_app. right. left. reflexivity.
  - unfold offending. cbn [map snd concat]. unfold spec_lines, split_ch. rewrite split_no_sep.
    + cbn [rev app filter]. unfold spec_long.
      assert (0 <= rw_indent r) by (unfold indents_608 in Hin; cbn [In] in Hin; lia).
      replace (32 <? Z.of_nat (length (row_text r))) with false by lia. reflexivity.
    + intros c Hc E. pose proof (is_basic_ge32 c (Hb c Hc)). lia.
Qed.

Theorem popon_stage1_read : forall d r off tc tc2 t1 t2, basic_row r = true ->
  (forall k, exists t, get_time tc k off = Ok t) ->
  get_time tc (Z.of_nat (length (emit_load d [r])) - (if d then 2 else 1)) off = Ok t1 ->
  get_time tc2 0 off = Ok t2 -> Qeq_bool t2 0 = false -> is_flash (mkPre t1 t2 [] None) = false ->
  read off [(tc, emit_load d [r]); (tc2, emit_clear d)] =
  ROk [mkPre t1 t2 [CText (row_text r) (row_pos r)] (Some (row_pos r))].
Proof.
  intros d r off tc tc2 t1 t2 H _ Hg1 Hg2 Hz Hfl.
  destruct (stage1_state d r off tc None t1 H Hg1) as (l & ds & E & Hl).
  destruct (row_text_facts r H) as [Hrs Hoff].
  destruct (basic_row_facts r H) as (_ & _ & _ & _ & _ & _ & _ & Hne & _).
  destruct (edm_run d stash0 (mkTk [row_pos r] None false (row_pos r)) l ds creator0 creator0
              (mkCr [mkI IText (row_text r) (row_pos r)] SNone) t1 t1 tc2 0 off t2 Hl Hg2) as (l' & ds' & fr' & E2).
  assert (S1 : translate_line (rstate0 off) (tc, emit_load d [r]) = translate_words (start_state off tc) (emit_load d [r]))
    by reflexivity.
  rewrite tws_words, E in S1.
  unfold read, run_lines. cbn [fold_left]. rewrite S1. unfold translate_line, set_clock.
  cbn [r_err fst snd r_stash r_tk r_last r_dstart r_pop r_paint r_roll r_active r_queue r_time r_tc r_frames r_offset].
  unfold emit_clear. rewrite E2. cbn [r_err flush_implicit r_active r_queue r_stash].
  destruct (row_text r) as [|c0 txt] eqn:Et; [congruence|].
  rewrite (store_one c0 txt (row_pos r) t1 t2 Hrs).
  unfold finish_read. cbn [st_caps map]. unfold to_lcap, cap_text. cbn [pc_start pc_nodes map node_text concat].
  rewrite app_nil_r.
  match goal with |- context [length_check ?x] => assert (Hlc : length_check x = None) end.
  { apply length_check_none_iff. unfold offending in *. cbn [map snd concat] in *. exact Hoff. }
  rewrite Hlc. cbn [existsb]. change (is_flash (mkPre t1 t2 [CText (c0 :: txt) (row_pos r)] (Some (row_pos r))))
    with (is_flash (mkPre t1 t2 [] None)). rewrite Hfl. cbn [orb].
  rewrite fix_last_ended; [reflexivity|]. intros c [<-|[]]. exact Hz.
Qed.

(* ---- 11. the caption returned, observed as the harness observes it, satisfies the oracle ----------------------- *)
Fixpoint rs (l : str) : str :=
  match l with
  | [] => []
  | c :: t => match rs t with [] => if is_space c then [] else [c] | t' => c :: t' end
  end.

Lemma rstrip_cells_map : forall it l, rstrip_cells (map (fun c => Cell c it) l) = map (fun c => Cell c it) (rs l).
Proof.
  intros it. induction l as [|c t IH]; [reflexivity|]. cbn [map rstrip_cells rs]. rewrite IH.
  destruct (rs t); cbn [map cell_blank]; [destruct (is_space c)|]; reflexivity.
Qed.

Lemma rstrip_obs_map : forall it l, rstrip_obs (map (fun c => (c, it)) l) = map (fun c => (c, it)) (rs l).
Proof.
  intros it. induction l as [|c t IH]; [reflexivity|]. cbn [map rstrip_obs rs]. rewrite IH.
  destruct (rs t); cbn [map fst]; [destruct (is_space c)|]; reflexivity.
Qed.

Lemma match_cells_same : forall it l, match_cells (map (fun c => Cell c it) l) (map (fun c => (c, it)) l) = true.
Proof.
  intros it. induction l as [|c t IH]; [reflexivity|]. cbn [map match_cells]. rewrite Z.eqb_refl, eqb_reflx, orb_true_r, IH.
  reflexivity.
Qed.

Lemma match_line_basic : forall it l, match_line (map (fun c => Cell c it) l) (map (fun c => (c, it)) l) = true.
Proof. intros it l. unfold match_line. rewrite rstrip_cells_map, rstrip_obs_map. apply match_cells_same. Qed.

Lemma q_near9_eq : forall a b : Q, (a == b)%Q -> q_near9 a b = true.
Proof.
  intros a b H. unfold q_near9. apply Qle_bool_iff.
  assert (E : (a - b == 0)%Q) by (rewrite H; ring). rewrite E. discriminate.
Qed.

Theorem popon_stage1_ok_core : forall d r t1 t2, basic_row r = true -> (t1 < t2)%Q ->
  ok_c05 (mkProg d [[r]]) (Ok [mkO t1 t2 [OText (row_text r)] (Some (layout_of_pos (row_pos r)))]) = true.
Proof.
  intros d r t1 t2 H Hlt.
  destruct (basic_row_facts r H) as (_ & Hr & Hin & Hk & _ & _ & Hc & Hne & _ & Hn).
  assert (Hlen : (0 < length (row_text r))%nat) by (destruct (row_text r); [congruence|cbn; lia]).
  assert (H0 : 0 <= rw_indent r) by (unfold indents_608 in Hin; cbn [In] in Hin; lia).
  assert (Hg : In (row_pos r) grid_positions) by (apply grid_positions_complete; [exact Hr|lia]).
  destruct (layout_linear_exhaustive _ Hg) as (Lx & Ly & _).
  assert (Hcap : cap_ok (mkE (rw_row r) (rw_indent r + rw_tab r) [cells_of r])
                        (mkO t1 t2 [OText (row_text r)] (Some (layout_of_pos (row_pos r)))) = true).
  { unfold cap_ok. cbn [e_lines e_row e_col o_nodes o_xy o_start o_end obs_lines app match_lines balanced negb].
    rewrite Hc, match_line_basic. unfold row_pos in *. cbn [fst snd] in Lx, Ly.
    destruct (layout_of_pos (rw_row r, rw_indent r + rw_tab r)) as [x y].
    destruct (layout_608 (rw_row r) (rw_indent r + rw_tab r)) as [ex ey]. cbn [fst snd] in Lx, Ly.
    rewrite (q_near9_eq _ _ Lx), (q_near9_eq _ _ Ly).
    destruct (Qle_bool t2 t1) eqn:E; [|reflexivity].
    apply Qle_bool_iff in E. exfalso. exact (Qlt_not_le _ _ Hlt E). }
  unfold ok_c05. cbn [pg_loads loads_ok expected_load group_rows load_ok]. rewrite Hcap.
  cbn [andb load_ok o_start o_end loads_ok]. reflexivity.
Qed.

Theorem popon_stage1_ok : forall d r off tc tc2 t1 t2, basic_row r = true ->
  (forall k, exists t, get_time tc k off = Ok t) ->
  get_time tc (Z.of_nat (length (emit_load d [r])) - (if d then 2 else 1)) off = Ok t1 ->
  get_time tc2 0 off = Ok t2 -> Qeq_bool t2 0 = false -> is_flash (mkPre t1 t2 [] None) = false ->
  (t1 < t2)%Q ->
  read off [(tc, emit_load d [r]); (tc2, emit_clear d)] =
    ROk [mkPre t1 t2 [CText (row_text r) (row_pos r)] (Some (row_pos r))] /\
  ok_c05 (mkProg d [[r]]) (Ok [mkO t1 t2 [OText (row_text r)] (Some (layout_of_pos (row_pos r)))]) = true.
Proof.
  intros d r off tc tc2 t1 t2 H Ht Hg1 Hg2 Hz Hfl Hlt. split.
  - exact (popon_stage1_read d r off tc tc2 t1 t2 H Ht Hg1 Hg2 Hz Hfl).
  - exact (popon_stage1_ok_core d r t1 t2 H Hlt).
Qed.

