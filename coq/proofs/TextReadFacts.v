(* C04: the text-node matcher keeps every word of wrapped text; the tree walks add no characters and turn
   br into breaks; SAMI stage 1 keeps & < > escaped so that the second parse decodes exactly once;
   MicroDVD / SRT line splitting. *)
From Coq Require Import List ZArith Bool Lia ZifyBool.
From PV Require Import lib.Sx lib.Str lib.Result model.TextNodes model.GenText model.TextRead.
From PV Require Import spec.SpecTextXml spec.SpecTextLines.
From PV Require Import proofs.TextStrFacts proofs.TextLinesFacts proofs.TextXmlFacts.
Import ListNotations.
Open Scope Z_scope.

(* ---- words ------------------------------------------------------------------------------------- *)
Lemma words_aux_app_space : forall a w b cur, is_space w = true ->
  words_aux (a ++ w :: b) cur = words_aux a cur ++ words_aux b [].
Proof.
  induction a as [|c a IH]; intros w b cur Hw.
  - cbn [app words_aux]. rewrite Hw. destruct cur; reflexivity.
  - cbn [app words_aux]. destruct (is_space c).
    + destruct cur; rewrite IH by exact Hw; reflexivity.
    + apply IH. exact Hw.
Qed.

Lemma words_app_space : forall a w b, is_space w = true -> words (a ++ w :: b) = words a ++ words b.
Proof. intros. unfold words. apply words_aux_app_space. assumption. Qed.

Lemma words_app_allspace : forall a b, forallb is_space a = true -> words (a ++ b) = words b.
Proof.
  induction a as [|c a IH]; intros b H; [reflexivity|].
  cbn [forallb] in H. apply andb_true_iff in H. destruct H as [Hc Ha].
  cbn [app]. rewrite words_cons_space by exact Hc. apply IH. exact Ha.
Qed.

Lemma words_lstrip : forall s, words (lstrip s) = words s.
Proof.
  unfold lstrip. induction s as [|c s IH]; [reflexivity|]. cbn [lstrip_by].
  destruct (is_space c) eqn:E; [|reflexivity]. rewrite IH, words_cons_space by exact E. reflexivity.
Qed.

Lemma words_allspace : forall s, forallb is_space s = true -> words s = [].
Proof. intros s H. apply words_nil_iff_all_space. exact H. Qed.

Lemma nlcr_space : forall c, is_nl_cr c = true -> is_space c = true.
Proof. intros c H. unfold is_nl_cr in H. unfold is_space. lia. Qed.

(* splitting at white-space characters loses no word *)
Lemma words_split_by : forall f s, (forall c, f c = true -> is_space c = true) ->
  flat_map words (split_by f s) = words s.
Proof.
  intros f s Hf. unfold split_by.
  assert (G : forall s cur, flat_map words (split_by_aux f s cur) = words (rev cur ++ s)).
  { clear s. induction s as [|c s IH]; intros cur.
    - cbn [split_by_aux flat_map]. rewrite !app_nil_r. reflexivity.
    - cbn [split_by_aux]. destruct (f c) eqn:E.
      + cbn [flat_map]. rewrite (IH []). cbn [rev app]. rewrite words_app_space by (apply Hf; exact E). reflexivity.
      + rewrite (IH (c :: cur)). cbn [rev]. rewrite <- app_assoc. reflexivity. }
  rewrite (G s []). reflexivity.
Qed.

(* ---- the text-node matcher --------------------------------------------------------------------- *)
Lemma firstn_take_while : forall f (s : str), firstn (length (take_while f s)) s = take_while f s.
Proof.
  intros f s. induction s as [|c s IH]; [reflexivity|]. cbn [take_while].
  destruct (f c); [|reflexivity]. cbn [length firstn]. rewrite IH. reflexivity.
Qed.

Lemma take_while_forallb : forall f (s : str), forallb f (take_while f s) = true.
Proof.
  intros f s. induction s as [|c s IH]; [reflexivity|]. cbn [take_while].
  destruct (f c) eqn:E; [|reflexivity]. cbn [forallb]. rewrite E, IH. reflexivity.
Qed.

Lemma take_drop_while : forall f (s : str), take_while f s ++ drop_while f s = s.
Proof.
  intros f s. induction s as [|c s IH]; [reflexivity|]. cbn [take_while drop_while].
  destruct (f c); [|reflexivity]. cbn [app]. rewrite IH. reflexivity.
Qed.

Lemma skipn_take_while : forall f (s : str), skipn (length (take_while f s)) s = drop_while f s.
Proof.
  intros f s. induction s as [|c s IH]; [reflexivity|]. cbn [take_while drop_while].
  destruct (f c); [|reflexivity]. cbn [length skipn]. exact IH.
Qed.

Lemma skipn_add : forall a b (s : str), skipn (a + b) s = skipn b (skipn a s).
Proof.
  induction a as [|a IH]; intros b s; [reflexivity|]. destruct s as [|c s].
  - cbn. destruct b; reflexivity.
  - cbn [Nat.add skipn]. apply IH.
Qed.

Lemma firstn_add : forall a b (s : str), firstn (a + b) s = firstn a s ++ firstn b (skipn a s).
Proof.
  induction a as [|a IH]; intros b s; [reflexivity|]. destruct s as [|c s].
  - cbn. destruct b; reflexivity.
  - cbn [Nat.add firstn skipn app]. rewrite IH. reflexivity.
Qed.

(* the leading run of line ends and white space is white space *)
Lemma lead_run_space : forall s,
  let n1 := length (take_while is_nl_cr s) in
  let w := match n1 with O => O | _ => (n1 + length (take_while is_space (skipn n1 s)))%nat end in
  forallb is_space (firstn w s) = true.
Proof.
  intros s n1 w. subst w. destruct n1 as [|k] eqn:E; [reflexivity|]. rewrite <- E. clear k E. subst n1.
  rewrite firstn_add, forallb_app, !firstn_take_while, take_while_forallb, andb_true_r.
  apply forallb_forall. intros c Hc. apply nlcr_space.
  pose proof (take_while_forallb is_nl_cr s) as H. rewrite forallb_forall in H. apply H. exact Hc.
Qed.

Lemma rstrip_by_prefix : forall f (c : str), exists tail, c = rstrip_by f c ++ tail.
Proof.
  intros f c. induction c as [|x c IH] using rev_ind.
  - exists []. reflexivity.
  - rewrite rstrip_by_snoc. destruct (f x).
    + destruct IH as [tail Ht]. exists (tail ++ [x]). rewrite app_assoc, <- Ht. reflexivity.
    + exists []. rewrite app_nil_r. reflexivity.
Qed.

Lemma forallb_firstn : forall (P : Z -> bool) n s, forallb P s = true -> forallb P (firstn n s) = true.
Proof.
  intros P n. induction n as [|n IH]; intros s H; [reflexivity|]. destruct s as [|c s]; [reflexivity|].
  cbn [firstn forallb] in *. apply andb_true_iff in H. destruct H as [Hc Hs]. rewrite Hc, (IH s Hs). reflexivity.
Qed.

(* what precedes the match is white space *)
Lemma text_first_prefix_space : forall s p first, text_first s = Some (p, first) ->
  forallb is_space (firstn p s) = true /\ first = take_while not_lf (skipn p s).
Proof.
  intros s p first H. unfold text_first in H.
  set (n1 := length (take_while is_nl_cr s)) in *.
  set (w := match n1 with O => O | _ => (n1 + length (take_while is_space (skipn n1 s)))%nat end) in *.
  destruct (rstrip_by is_lf (firstn (S w) s)) as [|x c] eqn:E; [discriminate|].
  injection H as Hp Hf. split; [|rewrite <- Hp; symmetry; exact Hf].
  destruct (rstrip_by_prefix is_lf (firstn (S w) s)) as [tail Ht]. rewrite E in Ht.
  assert (Hlen : (length (x :: c) <= S w)%nat).
  { apply (f_equal (@length Z)) in Ht. rewrite app_length, firstn_length in Ht. lia. }
  assert (Hpw : (p <= w)%nat) by (subst p; cbn [length] in *; lia).
  pose proof (lead_run_space s) as Hsp. cbv zeta in Hsp. fold n1 in Hsp. fold w in Hsp.
  replace (firstn p s) with (firstn p (firstn w s)) by (rewrite firstn_firstn; f_equal; lia).
  apply forallb_firstn. exact Hsp.
Qed.

Definition cont_lines (rest : str) : str :=
  concat (map (fun l => 32 :: lstrip l) (filter nonblank_b (split_by is_nl_cr rest))).

Lemma words_cont : forall L a,
  words (a ++ concat (map (fun l => 32 :: lstrip l) (filter nonblank_b L))) = words a ++ flat_map words L.
Proof.
  induction L as [|l L IH]; intros a.
  - cbn. rewrite !app_nil_r. reflexivity.
  - cbn [filter flat_map]. unfold nonblank_b at 1. destruct (forallb is_space l) eqn:E; cbn [negb].
    + rewrite (words_allspace l E). cbn [app]. apply IH.
    + cbn [map concat]. rewrite app_assoc. rewrite IH.
      change (a ++ 32 :: lstrip l) with (a ++ 32 :: lstrip l).
      rewrite words_app_space by reflexivity. rewrite words_lstrip, app_assoc. reflexivity.
Qed.

(* text wrapped over several source lines keeps all of its words (and gains none) *)
Theorem text_node_keeps_words : forall s t, text_node true s = Some t -> words t = words s.
Proof.
  intros s t H. unfold text_node in H. destruct (text_first s) as [[p first]|] eqn:E; [|discriminate].
  injection H as <-. destruct (text_first_prefix_space s p first E) as [Hsp Hfirst].
  rewrite words_cont.
  rewrite (words_split_by is_nl_cr) by (apply nlcr_space).
  assert (Hs : words s = words (skipn p s)).
  { rewrite <- (firstn_skipn p s) at 1. apply words_app_allspace. exact Hsp. }
  assert (Hr : skipn (p + length first) s = drop_while not_lf (skipn p s)).
  { rewrite Hfirst. rewrite skipn_add. apply skipn_take_while. }
  rewrite Hs, Hr. set (r := skipn p s) in *.
  rewrite <- (take_drop_while not_lf r) at 2. rewrite <- Hfirst.
  destruct (drop_while not_lf r) as [|c rest] eqn:D.
  - rewrite !app_nil_r. reflexivity.
  - assert (Hc : is_space c = true).
    { assert (Q : not_lf c = false).
      { clear - D. induction r as [|x r IH]; [discriminate|]. cbn [drop_while] in D.
        destruct (not_lf x) eqn:N; [apply IH; exact D|]. injection D as -> _. exact N. }
      unfold not_lf in Q. unfold is_space. lia. }
    rewrite words_app_space by exact Hc.
    rewrite words_cons_space by exact Hc. reflexivity.
Qed.

(* the pinned matcher lost them *)
Theorem text_node_wrapped_refuted : exists s t, text_node false s = Some t /\ words t <> words s.
Proof. exists (lit "first line" ++ [10] ++ lit "  wrapped"), (lit "first line"). split; [vm_compute; reflexivity|vm_compute; discriminate]. Qed.

(* a dropped text node had no word *)
Lemma lstrip_by_nil_all : forall f (x : str), lstrip_by f x = [] -> forallb f x = true.
Proof.
  intros f x. induction x as [|c x IH]; intros H; [reflexivity|]. cbn [lstrip_by] in H.
  destruct (f c) eqn:E; [|discriminate]. cbn [forallb]. rewrite E. apply IH. exact H.
Qed.

Lemma rstrip_by_nil_all : forall f (x : str), rstrip_by f x = [] -> forallb f x = true.
Proof.
  intros f x H. unfold rstrip_by in H. apply (f_equal (@rev Z)) in H. rewrite rev_involutive in H. cbn in H.
  apply lstrip_by_nil_all in H. rewrite forallb_rev in H. exact H.
Qed.

Lemma drop_while_head : forall f (s : str) c t, drop_while f s = c :: t -> f c = false.
Proof.
  intros f s. induction s as [|x s IH]; intros c t H; [discriminate|]. cbn [drop_while] in H.
  destruct (f x) eqn:E; [apply (IH c t H)|]. injection H as <- _. exact E.
Qed.

Theorem text_node_none_no_word : forall s, text_node true s = None -> words s = [].
Proof.
  intros s H. unfold text_node in H. destruct (text_first s) as [[p first]|] eqn:E; [discriminate|]. clear H.
  unfold text_first in E.
  set (n1 := length (take_while is_nl_cr s)) in *.
  set (w := match n1 with O => O | _ => (n1 + length (take_while is_space (skipn n1 s)))%nat end) in *.
  destruct (rstrip_by is_lf (firstn (S w) s)) as [|x c] eqn:R; [|discriminate]. clear E.
  apply rstrip_by_nil_all in R.
  destruct n1 as [|k] eqn:En.
  - (* no leading line end: s must be empty *)
    destruct s as [|c s]; [reflexivity|]. subst w. cbn [firstn forallb] in R. rewrite andb_true_r in R.
    unfold n1 in En. cbn [take_while] in En. unfold is_lf in R.
    assert (is_nl_cr c = true) by (unfold is_nl_cr; lia). rewrite H in En. discriminate.
  - pose proof (lead_run_space s) as Hsp. cbv zeta in Hsp. fold n1 in Hsp. rewrite En in Hsp. rewrite <- En in *.
    assert (Hw : w = (n1 + length (take_while is_space (skipn n1 s)))%nat) by (subst w; rewrite En; reflexivity).
    rewrite <- Hw in Hsp.
    destruct (skipn w s) as [|d tail] eqn:T.
    + rewrite <- (firstn_skipn w s), T, app_nil_r. apply words_allspace. exact Hsp.
    + exfalso.
      assert (Hd : is_space d = false).
      { rewrite Hw, skipn_add, skipn_take_while in T. apply (drop_while_head _ _ _ _ T). }
      assert (F : firstn (S w) s = firstn w s ++ [d]).
      { replace (S w) with (w + 1)%nat by lia. rewrite firstn_add, T. reflexivity. }
      rewrite F, forallb_app in R. apply andb_true_iff in R. destruct R as [_ R]. cbn [forallb] in R.
      rewrite andb_true_r in R. unfold is_lf in R. unfold is_space in Hd. lia.
Qed.

(* ---- visible characters ---------------------------------------------------------------------- *)
Definition vis (s : str) : str := filter (fun c => negb (is_space c)) s.

Lemma vis_app : forall a b, vis (a ++ b) = vis a ++ vis b.
Proof. intros. unfold vis. apply filter_app. Qed.

Lemma vis_words_aux : forall s cur, forallb (fun c => negb (is_space c)) cur = true ->
  concat (words_aux s cur) = rev cur ++ vis s.
Proof.
  induction s as [|c s IH]; intros cur Hc.
  - cbn [words_aux vis filter]. rewrite app_nil_r. destruct cur; [reflexivity|]. cbn [concat]. rewrite app_nil_r. reflexivity.
  - cbn [words_aux]. unfold vis. cbn [filter]. fold (vis s). destruct (is_space c) eqn:E; cbn [negb].
    + destruct cur as [|x cur'].
      * rewrite (IH [] eq_refl). reflexivity.
      * cbn [concat]. rewrite (IH [] eq_refl). reflexivity.
    + rewrite IH by (cbn [forallb]; rewrite E, Hc; reflexivity). cbn [rev]. rewrite <- app_assoc. reflexivity.
Qed.

Lemma vis_words : forall s, concat (words s) = vis s.
Proof. intros s. unfold words. rewrite vis_words_aux by reflexivity. reflexivity. Qed.

(* line structure and characters as one string: a break is the mark -1 (not a character, not white space) *)
Definition brk_mark : Z := -1.
Definition node_flat1 (n : node) : str :=
  match n with NText s => s | NBreak => [brk_mark] | NStyle _ _ => [] end.
Definition node_flat (ns : list node) : str := flat_map node_flat1 ns.

Fixpoint tree_flat (x : xnode) : str :=
  match x with
  | XText s => s
  | XElem n _ kids => if str_eqb n (lit "br") then [brk_mark] else flat_map tree_flat kids
  end.

Section xnode_induction.
  Variable P : xnode -> Prop.
  Hypothesis Htext : forall s, P (XText s).
  Hypothesis Helem : forall n a kids, Forall P kids -> P (XElem n a kids).
  Fixpoint xnode_ind2 (x : xnode) : P x :=
    match x with
    | XText s => Htext s
    | XElem n a kids =>
        Helem n a kids ((fix go (l : list xnode) : Forall P l :=
                           match l with
                           | [] => Forall_nil P
                           | y :: t => Forall_cons y (xnode_ind2 y) (go t)
                           end) kids)
    end.
End xnode_induction.

Lemma vis_text_node : forall s, vis (match text_node true s with Some t => t | None => [] end) = vis s.
Proof.
  intros s. destruct (text_node true s) as [t|] eqn:E.
  - rewrite <- !vis_words. rewrite (text_node_keeps_words s t E). reflexivity.
  - rewrite <- (vis_words s), (text_node_none_no_word s E). reflexivity.
Qed.

Lemma vis_flat_map_kids : forall (f : xnode -> list node) kids,
  Forall (fun x => vis (node_flat (f x)) = vis (tree_flat x)) kids ->
  vis (node_flat (flat_map f kids)) = vis (flat_map tree_flat kids).
Proof.
  intros f kids H. induction H as [|x l Hx Hl IH]; [reflexivity|].
  cbn [flat_map]. unfold node_flat in *. rewrite flat_map_app, !vis_app, Hx, IH. reflexivity.
Qed.

(* DFXP tree walk: br becomes a break, span (style) nodes contribute no character, every visible character of
   every text node is kept, in order *)
Theorem dfxp_walk_visible : forall x, vis (node_flat (dfxp_nodes true x)) = vis (tree_flat x).
Proof.
  induction x as [s|n a kids IH] using xnode_ind2.
  - cbn [dfxp_nodes tree_flat]. pose proof (vis_text_node s) as H. destruct (text_node true s); cbn; [rewrite app_nil_r|]; exact H.
  - cbn [dfxp_nodes tree_flat]. destruct (str_eqb n (lit "br")); [reflexivity|].
    destruct (str_eqb n (lit "span")).
    + unfold node_flat. rewrite !flat_map_app. cbn [flat_map node_flat1 app]. rewrite app_nil_r.
      apply (vis_flat_map_kids (dfxp_nodes true) kids IH).
    + apply (vis_flat_map_kids (dfxp_nodes true) kids IH).
Qed.

Theorem sami_walk_visible : forall x, vis (node_flat (sami_nodes true x)) = vis (tree_flat x).
Proof.
  induction x as [s|n a kids IH] using xnode_ind2.
  - cbn [sami_nodes tree_flat]. pose proof (vis_text_node s) as H. destruct (text_node true s); cbn; [rewrite app_nil_r|]; exact H.
  - cbn [sami_nodes tree_flat]. destruct (str_eqb n (lit "br")); [reflexivity|].
    assert (W : forall st, vis (node_flat ([NStyle true st] ++ flat_map (sami_nodes true) kids ++ [NStyle false st]))
                         = vis (flat_map tree_flat kids)).
    { intros st. unfold node_flat. rewrite !flat_map_app. cbn [flat_map node_flat1 app]. rewrite app_nil_r.
      apply (vis_flat_map_kids (sami_nodes true) kids IH). }
    destruct (str_eqb n (lit "i")); [apply W|]. destruct (str_eqb n (lit "b")); [apply W|].
    destruct (str_eqb n (lit "u")); [apply W|]. destruct (str_eqb n (lit "span")).
    + destruct (sami_span_args a); [apply W|apply (vis_flat_map_kids (sami_nodes true) kids IH)].
    + apply (vis_flat_map_kids (sami_nodes true) kids IH).
Qed.

(* ---- SAMI: the two-stage parse decodes exactly once ---------------------------------------------- *)
Lemma trun_gen_app : forall l a b st,
  trun_gen l st (a ++ b) = match trun_gen l st a with Some st' => trun_gen l st' b | None => None end.
Proof.
  intros l. induction a as [|c a IH]; intros b st; [reflexivity|].
  cbn [app trun_gen]. destruct (tstep_gen l st c); [apply IH|reflexivity].
Qed.

(* a literal character other than & and < in lenient (HTML) character data *)
Lemma tstep_html_char : forall c nbr cur out, xml_text_char c = true -> c <> 38 -> c <> 60 ->
  exists nbr', tstep_gen true (mkT (MText nbr false) cur out) c = Some (mkT (MText nbr' false) (c :: cur) out).
Proof.
  intros c nbr cur out Hc H38 H60. unfold xml_text_char in Hc. apply andb_true_iff in Hc. destruct Hc as [Hx H13].
  unfold tstep_gen. cbn [ts_mode ts_cur ts_out].
  destruct (Z.eqb_spec c 60); [congruence|]. destruct (Z.eqb_spec c 38); [congruence|].
  rewrite Hx. cbn [negb]. rewrite andb_false_r.
  destruct (c =? 13); [discriminate|]. rewrite andb_false_r. eexists. reflexivity.
Qed.

Lemma trun_html_esc_char : forall v nbr cur out, xml_text_char v = true ->
  exists nbr', trun_gen true (mkT (MText nbr false) cur out) (esc_char v) = Some (mkT (MText nbr' false) (v :: cur) out).
Proof.
  intros v nbr cur out Hv. unfold esc_char.
  destruct (Z.eqb_spec v 38) as [->|H38]; [exists 0%nat; vm_compute; reflexivity|].
  destruct (Z.eqb_spec v 62) as [->|H62]; [exists 0%nat; vm_compute; reflexivity|].
  destruct (Z.eqb_spec v 60) as [->|H60]; [exists 0%nat; vm_compute; reflexivity|].
  cbn [trun_gen]. destruct (tstep_html_char v nbr cur out Hv H38 H60) as [n' ->]. exists n'. reflexivity.
Qed.

Definition data_char_ok (c : Z) : bool := xml_text_char c && negb (c =? 38) && negb (c =? 60).

Lemma trun_html_data : forall d nbr cur out, forallb data_char_ok d = true ->
  exists nbr', trun_gen true (mkT (MText nbr false) cur out) d = Some (mkT (MText nbr' false) (rev d ++ cur) out).
Proof.
  induction d as [|c d IH]; intros nbr cur out H; [exists nbr; reflexivity|].
  cbn [forallb] in H. apply andb_true_iff in H. destruct H as [Hc Hd].
  unfold data_char_ok in Hc. apply andb_true_iff in Hc. destruct Hc as [Hc H60]. apply andb_true_iff in Hc. destruct Hc as [Hx H38].
  cbn [trun_gen].
  destruct (tstep_html_char c nbr cur out Hx) as [n1 ->]; [intros ->; discriminate|intros ->; discriminate|].
  destruct (IH n1 (c :: cur) out Hd) as [n2 ->]. exists n2. cbn [rev]. rewrite <- app_assoc. reflexivity.
Qed.

(* what a text event denotes; None = not a (well-formed) text event *)
Definition is_kept (n : str) : bool := str_eqb n (lit "gt") || str_eqb n (lit "lt") || str_eqb n (lit "amp").
Definition kept_value (n : str) : Z := if str_eqb n (lit "gt") then 62 else if str_eqb n (lit "lt") then 60 else 38.

Definition ev_chars (e : hev) : option str :=
  match e with
  | EvData d => if forallb data_char_ok d then Some d else None
  | EvEntity n => if is_kept n then Some [kept_value n]
                  else match assoc_str n sami_name2codepoint with Some v => Some [v] | None => None end
  | EvCharref n => match charref_value true n with
                   | Ok v => if xml_text_char v then Some [v] else None
                   | Err _ => None
                   end
  | _ => None
  end.

(* the generated entity table: every code point is an XML Char, and only amp / lt / gt denote & < > *)
Lemma table_ok : forallb (fun kv => xml_text_char (snd kv) &&
                                    (is_kept (fst kv) || negb ((snd kv =? 38) || (snd kv =? 60) || (snd kv =? 62))))
                         sami_name2codepoint = true.
Proof. vm_compute. reflexivity. Qed.

Lemma assoc_str_in : forall n l v, assoc_str n l = Some v -> exists k, In (k, v) l /\ str_eqb n k = true.
Proof.
  intros n l. induction l as [|[k v'] l IH]; intros v H; [discriminate|]. cbn [assoc_str] in H.
  destruct (str_eqb n k) eqn:E.
  - injection H as <-. exists k. split; [left; reflexivity|exact E].
  - destruct (IH v H) as [k' [Hin He]]. exists k'. split; [right; exact Hin|exact He].
Qed.

Lemma str_eqb_eq' : forall a b, str_eqb a b = true -> a = b.
Proof.
  induction a as [|x a IH]; intros [|y b] H; cbn [str_eqb] in H; try discriminate; [reflexivity|].
  apply andb_true_iff in H. destruct H as [H1 H2]. apply Z.eqb_eq in H1. subst. f_equal. apply IH. exact H2.
Qed.

Lemma sami_step_text : forall e cs st nbr cur out, ev_chars e = Some cs ->
  exists st' nbr', sami_step true st e = Ok st' /\ s_queue st' = s_queue st /\
    exists piece, s_out st' = s_out st ++ piece /\
      trun_gen true (mkT (MText nbr false) cur out) piece = Some (mkT (MText nbr' false) (rev cs ++ cur) out).
Proof.
  intros e cs st nbr cur out H. destruct e as [t a|t|n|n|d]; cbn [ev_chars] in H; try discriminate.
  - (* entity reference *)
    cbn [sami_step]. destruct (is_kept n) eqn:K.
    + injection H as <-. unfold is_kept in K. cbn [andb]. rewrite K.
      eexists. eexists. split; [reflexivity|]. split; [reflexivity|]. eexists. split; [reflexivity|].
      unfold kept_value.
      destruct (str_eqb n (lit "gt")) eqn:G; [apply str_eqb_eq' in G; subst n; vm_compute; reflexivity|].
      destruct (str_eqb n (lit "lt")) eqn:L; [apply str_eqb_eq' in L; subst n; vm_compute; reflexivity|].
      cbn [orb] in K. apply str_eqb_eq' in K. subst n. vm_compute. reflexivity.
    + unfold is_kept in K. cbn [andb]. rewrite K.
      destruct (assoc_str n sami_name2codepoint) as [v|] eqn:A; [|discriminate]. injection H as <-.
      destruct (assoc_str_in _ _ _ A) as [k [Hin Hk]]. apply str_eqb_eq' in Hk. subst k.
      pose proof table_ok as T. rewrite forallb_forall in T. specialize (T _ Hin). cbn [fst snd] in T.
      apply andb_true_iff in T. destruct T as [Tx Tk]. unfold is_kept in Tk. rewrite K in Tk. cbn [orb] in Tk.
      destruct (tstep_html_char v nbr cur out Tx) as [n' Hn']; [lia|lia|].
      eexists. exists n'. split; [reflexivity|]. split; [reflexivity|]. eexists. split; [reflexivity|].
      cbn [trun_gen rev app]. rewrite Hn'. reflexivity.
  - (* character reference *)
    cbn [sami_step]. destruct (charref_value true n) as [v|err] eqn:C; [|discriminate].
    destruct (xml_text_char v) eqn:X; [|discriminate]. injection H as <-.
    destruct (trun_html_esc_char v nbr cur out X) as [n' Hn'].
    eexists. exists n'. split; [reflexivity|]. split; [reflexivity|]. eexists. split; [reflexivity|]. exact Hn'.
  - (* data *)
    destruct (forallb data_char_ok d) eqn:D; [|discriminate]. injection H as <-.
    destruct (trun_html_data d nbr cur out D) as [n' Hn'].
    cbn [sami_step]. eexists. exists n'. split; [reflexivity|]. split; [reflexivity|]. eexists. split; [reflexivity|]. exact Hn'.
Qed.

Fixpoint evs_chars (evs : list hev) : option str :=
  match evs with
  | [] => Some []
  | e :: t => match ev_chars e, evs_chars t with Some a, Some b => Some (a ++ b) | _, _ => None end
  end.

Lemma sami_run_text : forall evs cs st nbr cur out, evs_chars evs = Some cs ->
  exists st' nbr' piece, sami_run true st evs = Ok st' /\ s_queue st' = s_queue st /\ s_out st' = s_out st ++ piece /\
    trun_gen true (mkT (MText nbr false) cur out) piece = Some (mkT (MText nbr' false) (rev cs ++ cur) out).
Proof.
  induction evs as [|e evs IH]; intros cs st nbr cur out H.
  - injection H as <-. exists st, nbr, []. rewrite app_nil_r. repeat split; reflexivity.
  - cbn [evs_chars] in H. destruct (ev_chars e) as [a|] eqn:Ea; [|discriminate].
    destruct (evs_chars evs) as [b|] eqn:Eb; [|discriminate]. injection H as <-.
    destruct (sami_step_text e a st nbr cur out Ea) as (st1 & n1 & Hs & Hq & p1 & Ho & Ht).
    destruct (IH b st1 n1 (rev a ++ cur) out eq_refl) as (st2 & n2 & p2 & Hr & Hq2 & Ho2 & Ht2).
    exists st2, n2, (p1 ++ p2). cbn [sami_run]. rewrite Hs. split; [exact Hr|]. split; [congruence|].
    split; [rewrite Ho2, Ho, app_assoc; reflexivity|].
    rewrite trun_gen_app, Ht, Ht2. rewrite rev_app_distr, <- app_assoc. reflexivity.
Qed.

(* every spelling of every character - raw, named reference, decimal or hexadecimal reference, the characters
   & < > included - comes out of the two parses as exactly that character: decoded once, never twice *)
Theorem sami_entities_once : forall evs cs, evs_chars evs = Some cs ->
  exists out, sami_stage1 true evs = Ok out /\ content_parse_html out = Some (text_nodes cs).
Proof.
  intros evs cs H.
  destruct (sami_run_text evs cs (mkS [] [] []) 0%nat [] [] H) as (st' & n' & piece & Hr & Hq & Ho & Ht).
  cbn [s_queue s_out app] in *. unfold sami_stage1. rewrite Hr, Hq. cbn [close_all]. exists piece. rewrite Ho.
  split; [reflexivity|]. unfold content_parse_html, t_init. rewrite Ht. unfold t_finish. cbn [ts_mode ts_cur ts_out].
  rewrite app_nil_r. destruct cs as [|c cs]; [reflexivity|].
  unfold flush. destruct (rev (c :: cs)) eqn:E.
  - apply (f_equal (@length Z)) in E. rewrite rev_length in E. discriminate.
  - rewrite <- E, rev_involutive. reflexivity.
Qed.

(* the pinned parser decoded &amp;lt; twice and crashed on &#X41; *)
Theorem sami_double_decode_refuted :
  exists evs out, evs_chars evs = Some (lit "&lt;") /\ sami_stage1 false evs = Ok out /\
                  content_parse_html out = Some [XText (lit "<")].
Proof. exists [EvEntity (lit "amp"); EvData (lit "lt;")], (lit "&lt;"). repeat split; vm_compute; reflexivity. Qed.

Theorem sami_upper_hex_refuted : sami_stage1 false [EvCharref (lit "X41")] = Err ValueError /\
                                 sami_stage1 true [EvCharref (lit "X41")] = Ok (lit "A").
Proof. split; vm_compute; reflexivity. Qed.

(* ---- MicroDVD / SRT ---------------------------------------------------------------------------- *)
Lemma removelast_cons2 : forall {A} (a b : A) X, X <> [] -> removelast (a :: b :: X) = a :: b :: removelast X.
Proof. intros A a b X H. destruct X; [congruence|reflexivity]. Qed.

Lemma node_lines_text_break_aux : forall ls l cur,
  node_lines_aux (removelast (flat_map (fun l => [NText l; NBreak]) (l :: ls))) cur = (cur ++ l) :: ls.
Proof.
  induction ls as [|l2 ls IH]; intros l cur; [reflexivity|].
  change (flat_map (fun l => [NText l; NBreak]) (l :: l2 :: ls))
    with (NText l :: NBreak :: flat_map (fun l => [NText l; NBreak]) (l2 :: ls)).
  rewrite removelast_cons2 by discriminate. cbn [node_lines_aux]. rewrite (IH l2 []). reflexivity.
Qed.

Lemma node_lines_text_break : forall ls, ls <> [] ->
  node_lines (removelast (flat_map (fun l => [NText l; NBreak]) ls)) = ls.
Proof. intros [|l ls] H; [congruence|]. unfold node_lines. apply node_lines_text_break_aux. Qed.

(* MicroDVD: '|' is the line break; empty pieces are skipped *)
Theorem mdvd_pipes : forall txt, filter SpecTextLines.nonempty (split_ch 124 txt) <> [] ->
  node_lines (mdvd_text_nodes txt) = filter SpecTextLines.nonempty (split_ch 124 txt).
Proof.
  intros txt H. unfold mdvd_text_nodes.
  assert (E : flat_map (fun l => match l with [] => [] | _ => [NText l; NBreak] end) (split_ch 124 txt)
              = flat_map (fun l => [NText l; NBreak]) (filter SpecTextLines.nonempty (split_ch 124 txt))).
  { generalize (split_ch 124 txt). induction l as [|x l IH]; [reflexivity|].
    cbn [flat_map filter]. destruct x; cbn [SpecTextLines.nonempty]; [exact IH|]. cbn [flat_map app]. rewrite IH. reflexivity. }
  rewrite E. apply node_lines_text_break. exact H.
Qed.

(* ---- the entity table is looked up by exact (case-sensitive) name ------------------------------------------- *)
Fixpoint keys_distinct (l : list (str * Z)) : bool :=
  match l with
  | [] => true
  | (k, _) :: t => negb (existsb (fun kv => str_eqb k (fst kv)) t) && keys_distinct t
  end.

Lemma table_keys_distinct : keys_distinct sami_name2codepoint = true.
Proof. vm_compute. reflexivity. Qed.

Lemma str_eqb_refl' : forall s, str_eqb s s = true.
Proof. induction s as [|c s IH]; [reflexivity|]. cbn [str_eqb]. rewrite Z.eqb_refl, IH. reflexivity. Qed.

Lemma assoc_str_exact_gen : forall l n v, keys_distinct l = true ->
  (assoc_str n l = Some v <-> In (n, v) l).
Proof.
  induction l as [|[k w] l IH]; intros n v H.
  - split; [discriminate|intros []].
  - cbn [keys_distinct] in H. apply andb_true_iff in H. destruct H as [Hk Hl]. apply negb_true_iff in Hk.
    cbn [assoc_str]. destruct (str_eqb n k) eqn:E.
    + apply str_eqb_eq' in E. subst k. split.
      * intros Q. injection Q as <-. left. reflexivity.
      * intros [Q|Q]; [injection Q as <-; reflexivity|]. exfalso.
        assert (existsb (fun kv => str_eqb n (fst kv)) l = true).
        { apply existsb_exists. exists (n, v). split; [exact Q|apply str_eqb_refl']. }
        congruence.
    + rewrite (IH n v Hl). split; [intros Q; right; exact Q|].
      intros [Q|Q]; [|exact Q]. injection Q as -> ->. rewrite str_eqb_refl' in E. discriminate.
Qed.

(* a reference &name; denotes v exactly when the pair (name, v) is in the table: names differing only by the
   case of a letter (Eacute / eacute, Prime / prime, Dagger / dagger ...) are different entries *)
Theorem sami_entity_lookup_exact : forall n v, assoc_str n sami_name2codepoint = Some v <-> In (n, v) sami_name2codepoint.
Proof. intros n v. apply assoc_str_exact_gen. exact table_keys_distinct. Qed.

Example sami_entity_case :
  ev_chars (EvEntity (lit "Eacute")) = Some [201] /\ ev_chars (EvEntity (lit "eacute")) = Some [233] /\
  ev_chars (EvEntity (lit "Prime")) = Some [8243] /\ ev_chars (EvEntity (lit "prime")) = Some [8242].
Proof. repeat split; vm_compute; reflexivity. Qed.

(* the entry pycaption adds to the table itself *)
Lemma sami_entity_apos : assoc_str (lit "apos") sami_name2codepoint = Some 39 /\ ev_chars (EvEntity (lit "apos")) = Some [39].
Proof. split; vm_compute; reflexivity. Qed.
