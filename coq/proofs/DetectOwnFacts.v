(* C20 own-output theorems: a document of the SCC / SRT / MicroDVD / WebVTT shape (spec/SpecOwn.v) assembled from
   marker-free pieces is detected as its own format by the model of detect_format. *)
From Coq Require Import List ZArith Bool Lia ZifyBool.
From PV Require Import lib.Sx lib.Str lib.Result lib.Dec model.Generated model.Detect spec.SpecDetect spec.SpecOwn
  proofs.DetectFacts.
Import ListNotations.
Open Scope Z_scope.

(* ---------------- occurrences of a marker in assembled strings ---------------- *)
Lemma is_prefix_incl : forall m s, is_prefix m s = true -> incl m s.
Proof.
  induction m as [|x m IH]; intros s H; [intros y []|].
  destruct s as [|y s]; [discriminate|]. cbn in H. apply andb_true_iff in H. destruct H as [Hxy H].
  apply Z.eqb_eq in Hxy. subst y. intros z [<-|Hz]; [left; reflexivity|]. right. apply (IH s H z Hz).
Qed.

Lemma is_infix_cons : forall m y s, is_infix m (y :: s) = is_prefix m (y :: s) || is_infix m s.
Proof. reflexivity. Qed.

Lemma is_infix_incl : forall m s, is_infix m s = true -> incl m s.
Proof.
  intros m. induction s as [|y s IH]; intros H.
  - cbn in H. rewrite orb_false_r in H. apply is_prefix_incl. exact H.
  - rewrite is_infix_cons in H. apply orb_true_iff in H. destruct H as [H|H].
    + apply is_prefix_incl. exact H.
    + intros z Hz. right. apply (IH H z Hz).
Qed.

(* a character of the marker that the string does not contain rules the marker out *)
Lemma is_infix_missing_char : forall m s x, In x m -> ~ In x s -> is_infix m s = false.
Proof.
  intros m s x Hm Hs. destruct (is_infix m s) eqn:E; [|reflexivity].
  exfalso. apply Hs. apply (is_infix_incl m s E x Hm).
Qed.

Lemma forallb_not_in : forall (P : Z -> bool) s x, forallb P s = true -> P x = false -> ~ In x s.
Proof.
  intros P s x H Hx Hin. rewrite forallb_forall in H. rewrite (H x Hin) in Hx. discriminate.
Qed.

Lemma is_prefix_app_sep : forall m a sep b, ~ In sep m -> is_prefix m (a ++ sep :: b) = true -> is_prefix m a = true.
Proof.
  induction m as [|x m IH]; intros a sep b Hs H; [reflexivity|].
  destruct a as [|y a].
  - cbn in H. apply andb_true_iff in H. destruct H as [H _]. apply Z.eqb_eq in H. subst. exfalso. apply Hs. left. reflexivity.
  - cbn in H |- *. apply andb_true_iff in H. destruct H as [H1 H2]. rewrite H1. cbn.
    apply (IH a sep b); [intros Hin; apply Hs; right; exact Hin|exact H2].
Qed.

Lemma is_prefix_app_l : forall m a b, is_prefix m a = true -> is_prefix m (a ++ b) = true.
Proof.
  induction m as [|x m IH]; intros a b H; [reflexivity|].
  destruct a as [|y a]; [discriminate|]. cbn in H |- *. apply andb_true_iff in H. destruct H as [H1 H2].
  rewrite H1. cbn. apply IH. exact H2.
Qed.

Lemma is_infix_app_l : forall m a b, is_infix m a = true -> is_infix m (a ++ b) = true.
Proof.
  intros m. induction a as [|y a IH]; intros b H.
  - cbn in H. rewrite orb_false_r in H. destruct m; [|discriminate]. destruct b; reflexivity.
  - rewrite is_infix_cons in H. cbn [app]. rewrite is_infix_cons. apply orb_true_iff in H. destruct H as [H|H].
    + change (y :: a ++ b) with ((y :: a) ++ b). rewrite (is_prefix_app_l _ _ _ H). reflexivity.
    + rewrite (IH b H). apply orb_true_r.
Qed.

Lemma is_infix_app_r : forall m a b, is_infix m b = true -> is_infix m (a ++ b) = true.
Proof.
  intros m. induction a as [|y a IH]; intros b H; [exact H|].
  cbn [app]. rewrite is_infix_cons, (IH b H). apply orb_true_r.
Qed.

(* a separator that is not a character of the marker splits the search *)
Lemma is_infix_sep : forall m a sep b, m <> [] -> ~ In sep m ->
  is_infix m (a ++ sep :: b) = true -> is_infix m a = true \/ is_infix m b = true.
Proof.
  intros m a sep b Hm Hs. induction a as [|y a IH]; intros H.
  - cbn [app] in H. rewrite is_infix_cons in H. apply orb_true_iff in H. destruct H as [H|H]; [|right; exact H].
    destruct m as [|x m]; [congruence|]. cbn in H. apply andb_true_iff in H. destruct H as [H _].
    apply Z.eqb_eq in H. subst. exfalso. apply Hs. left. reflexivity.
  - cbn [app] in H. rewrite is_infix_cons in H. apply orb_true_iff in H. destruct H as [H|H].
    + left. rewrite is_infix_cons.
      change (y :: a ++ sep :: b) with ((y :: a) ++ sep :: b) in H.
      rewrite (is_prefix_app_sep _ _ _ _ Hs H). reflexivity.
    + destruct (IH H) as [H'|H']; [left|right; exact H']. rewrite is_infix_cons, H'. apply orb_true_r.
Qed.

(* an occurrence cannot start inside a stretch that lacks the marker's first character *)
Lemma is_infix_skip_prefix : forall x m p b, ~ In x p -> is_infix (x :: m) (p ++ b) = true -> is_infix (x :: m) b = true.
Proof.
  intros x m. induction p as [|y p IH]; intros b Hp H; [exact H|].
  cbn [app] in H. rewrite is_infix_cons in H. apply orb_true_iff in H. destruct H as [H|H].
  - cbn in H. apply andb_true_iff in H. destruct H as [H _]. apply Z.eqb_eq in H. subst. exfalso. apply Hp. left. reflexivity.
  - apply IH; [intros Hin; apply Hp; right; exact Hin|exact H].
Qed.

(* ---------------- u_lower ---------------- *)
Lemma u_lower_app : forall a b, u_lower (a ++ b) = u_lower a ++ u_lower b.
Proof. intros. unfold u_lower. apply flat_map_app. Qed.

Lemma u_lower_cons : forall c s, u_lower (c :: s) = u_lower_ch c ++ u_lower s.
Proof. reflexivity. Qed.

Lemma assoc_none : forall c m, ~ In c (map fst m) -> assoc c m = None.
Proof.
  intros c. induction m as [|[k v] t IH]; intros H; [reflexivity|].
  cbn. destruct (k =? c) eqn:E.
  - apply Z.eqb_eq in E. subst. exfalso. apply H. left. reflexivity.
  - apply IH. intros Hin. apply H. right. exact Hin.
Qed.

(* characters outside the table's keys are their own lower case *)
Definition lower_key (c : Z) : bool := existsb (Z.eqb c) (map fst lower_ascii_map).

Lemma u_lower_ch_id : forall c, lower_key c = false -> u_lower_ch c = [c].
Proof.
  intros c H. unfold u_lower_ch. rewrite assoc_none; [reflexivity|].
  intros Hin.
  assert (E : lower_key c = true).
  { unfold lower_key. apply existsb_exists. exists c. split; [exact Hin|apply Z.eqb_refl]. }
  rewrite E in H. discriminate.
Qed.

Lemma u_lower_id : forall s, forallb (fun c => negb (lower_key c)) s = true -> u_lower s = s.
Proof.
  induction s as [|c s IH]; intros H; [reflexivity|].
  cbn [forallb] in H. apply andb_true_iff in H. destruct H as [Hc Hs]. apply negb_true_iff in Hc.
  rewrite u_lower_cons, (u_lower_ch_id c Hc), (IH Hs). reflexivity.
Qed.

Lemma u_lower_nl : u_lower_ch 10 = [10].
Proof. reflexivity. Qed.

(* ---------------- has / free ---------------- *)
Lemma has_sep_nl : forall m lw a b, m <> [] -> ~ In 10 m ->
  has m lw (a ++ 10 :: b) = true -> has m lw a = true \/ has m lw b = true.
Proof.
  intros m lw a b Hm Hn H. unfold has in *. destruct lw.
  - rewrite u_lower_app, u_lower_cons, u_lower_nl in H. cbn [app] in H. apply (is_infix_sep m _ 10 _ Hm Hn H).
  - apply (is_infix_sep m _ 10 _ Hm Hn H).
Qed.

Lemma has_nil : forall m lw, m <> [] -> has m lw [] = false.
Proof. intros m lw Hm. unfold has. destruct m as [|x m]; [congruence|]. destruct lw; reflexivity. Qed.

Lemma has_app_l : forall m lw a b, has m lw a = true -> has m lw (a ++ b) = true.
Proof.
  intros m lw a b H. unfold has in *. destruct lw.
  - rewrite u_lower_app. apply is_infix_app_l. exact H.
  - apply is_infix_app_l. exact H.
Qed.

(* lines terminated by newlines: an occurrence lies in one of the lines *)
Lemma has_lines : forall m lw pieces, m <> [] -> ~ In 10 m ->
  has m lw (concat (map (fun p => p ++ [10]) pieces)) = true -> exists p, In p pieces /\ has m lw p = true.
Proof.
  intros m lw pieces Hm Hn. induction pieces as [|p t IH]; intros H.
  - cbn in H. rewrite has_nil in H by exact Hm. discriminate.
  - cbn [map concat] in H. rewrite <- app_assoc in H. cbn [app] in H.
    destruct (has_sep_nl m lw _ _ Hm Hn H) as [H1|H1].
    + exists p. split; [left; reflexivity|exact H1].
    + destruct (IH H1) as [q [Hq Hh]]. exists q. split; [right; exact Hq|exact Hh].
Qed.

(* the marker list of a writer: every marker is non-empty and has no newline *)
Definition markers_ok (ms : list (str * bool)) : bool :=
  forallb (fun mk => match fst mk with [] => false | _ => true end && forallb (fun c => negb (c =? 10)) (fst mk)) ms.

Lemma markers_ok_spec : forall ms m lw, markers_ok ms = true -> In (m, lw) ms -> m <> [] /\ ~ In 10 m.
Proof.
  intros ms m lw H Hin. unfold markers_ok in H. rewrite forallb_forall in H. specialize (H _ Hin).
  cbn [fst] in H. apply andb_true_iff in H. destruct H as [H1 H2]. split.
  - destruct m; [discriminate|discriminate].
  - intros Hn. rewrite forallb_forall in H2. specialize (H2 10 Hn). discriminate.
Qed.

Lemma free_spec : forall ms s, free ms s = true <-> (forall m lw, In (m, lw) ms -> has m lw s = false).
Proof.
  intros ms s. unfold free. rewrite forallb_forall. split.
  - intros H m lw Hin. specialize (H (m, lw) Hin). cbn in H. apply negb_true_iff in H. exact H.
  - intros H [m lw] Hin. cbn. apply negb_true_iff. apply H. exact Hin.
Qed.

(* free pieces, joined as newline-terminated lines, give a free document *)
Lemma free_lines : forall ms pieces, markers_ok ms = true -> forallb (free ms) pieces = true ->
  free ms (concat (map (fun p => p ++ [10]) pieces)) = true.
Proof.
  intros ms pieces Hok Hp. apply free_spec. intros m lw Hin.
  destruct (markers_ok_spec ms m lw Hok Hin) as [Hm Hn].
  destruct (has m lw (concat (map (fun p => p ++ [10]) pieces))) eqn:E; [|reflexivity].
  destruct (has_lines m lw pieces Hm Hn E) as [p [Hpin Hh]].
  rewrite forallb_forall in Hp. specialize (Hp p Hpin).
  rewrite (proj1 (free_spec ms p) Hp m lw Hin) in Hh. discriminate.
Qed.

(* a prefix of a free string is free *)
Lemma free_prefix : forall ms a b, free ms (a ++ b) = true -> free ms a = true.
Proof.
  intros ms a b H. apply free_spec. intros m lw Hin.
  destruct (has m lw a) eqn:E; [|reflexivity].
  pose proof (has_app_l m lw a b E) as H'. rewrite (proj1 (free_spec ms (a ++ b)) H m lw Hin) in H'. discriminate.
Qed.

(* ---------------- the sniffers in terms of `has`; detect_format as a cascade ---------------- *)
Lemma detect_dfxp_has : forall s, detect_dfxp s = Ok (has dfxp_marker true s).
Proof. reflexivity. Qed.
Lemma detect_vtt_has : forall s, detect_vtt s = Ok (has vtt_marker false s).
Proof. reflexivity. Qed.
Lemma detect_sami_has : forall s, detect_sami s = Ok (has sami_marker true s).
Proof. reflexivity. Qed.

Lemma detect_format_cascade : forall s, s <> [] -> detect_format s = first_match [0; 1; 2; 3; 4; 5] s.
Proof.
  intros s Hs. unfold detect_format. destruct s; [congruence|]. rewrite generated_order_documented. reflexivity.
Qed.

Lemma free_srt_parts : forall s, free before_srt s = true ->
  has dfxp_marker true s = false /\ has vtt_marker false s = false /\ has sami_marker true s = false.
Proof.
  intros s H. pose proof (proj1 (free_spec before_srt s) H) as F.
  repeat split; apply F; cbn; auto.
Qed.

Lemma markers_ok_srt : markers_ok before_srt = true.
Proof. vm_compute. reflexivity. Qed.
Lemma markers_ok_vtt : markers_ok before_vtt = true.
Proof. vm_compute. reflexivity. Qed.

(* ---------------- character classes ---------------- *)
(* a class of characters none of which is changed by lower() *)
Definition class_plain (P : Z -> bool) : bool := forallb (fun k => negb (P k)) (map fst lower_ascii_map).

Lemma class_plain_spec : forall P, class_plain P = true -> forall c, P c = true -> lower_key c = false.
Proof.
  intros P H c Hc. destruct (lower_key c) eqn:E; [|reflexivity].
  unfold lower_key in E. apply existsb_exists in E. destruct E as [k [Hk Hck]]. apply Z.eqb_eq in Hck. subst k.
  unfold class_plain in H. rewrite forallb_forall in H. specialize (H c Hk). rewrite Hc in H. discriminate.
Qed.

Lemma class_lower_id : forall P s, class_plain P = true -> forallb P s = true -> u_lower s = s.
Proof.
  intros P s HP Hs. apply u_lower_id. apply forallb_forall. intros c Hc. apply negb_true_iff.
  apply (class_plain_spec P HP). rewrite forallb_forall in Hs. apply Hs. exact Hc.
Qed.

(* a string over a class that lacks one character of the marker does not contain the marker *)
Lemma class_has_false : forall P m lw s x, class_plain P = true -> forallb P s = true -> In x m -> P x = false ->
  has m lw s = false.
Proof.
  intros P m lw s x HP Hs Hx HPx. unfold has.
  assert (E : (if lw then u_lower s else s) = s) by (destruct lw; [apply (class_lower_id P s HP Hs)|reflexivity]).
  rewrite E. apply (is_infix_missing_char m s x Hx). apply (forallb_not_in P s x Hs HPx).
Qed.

Lemma class_free_srt : forall P s, class_plain P = true -> forallb P s = true -> P 60 = false -> P 87 = false ->
  free before_srt s = true.
Proof.
  intros P s HP Hs H60 H87. apply free_spec. intros m lw Hin. cbn in Hin.
  destruct Hin as [E|[E|[E|[]]]]; injection E as <- <-.
  - apply (class_has_false P _ _ s 60 HP Hs); [vm_compute; auto|exact H60].
  - apply (class_has_false P _ _ s 87 HP Hs); [vm_compute; auto|exact H87].
  - apply (class_has_false P _ _ s 60 HP Hs); [vm_compute; auto|exact H60].
Qed.

(* ---------------- splitlines: the first line ---------------- *)
Lemma splitlines_aux_line : forall l rest cur started, no_linebreak l = true ->
  splitlines_aux (l ++ 10 :: rest) cur started = rev (rev l ++ cur) :: splitlines_aux rest [] false.
Proof.
  induction l as [|c l IH]; intros rest cur started H.
  - reflexivity.
  - cbn [no_linebreak forallb] in H. apply andb_true_iff in H. destruct H as [Hc Hl]. apply negb_true_iff in Hc.
    cbn [app splitlines_aux]. rewrite Hc. rewrite (IH rest (c :: cur) true Hl).
    cbn [rev]. rewrite <- app_assoc. reflexivity.
Qed.

Lemma splitlines_line : forall l rest, no_linebreak l = true -> splitlines (l ++ 10 :: rest) = l :: splitlines rest.
Proof.
  intros l rest H. unfold splitlines. rewrite (splitlines_aux_line l rest [] false H).
  rewrite app_nil_r, rev_involutive. reflexivity.
Qed.

(* ---------------- SCC ---------------- *)
Lemma scc_class_plain : class_plain scc_body_char = true.
Proof. vm_compute. reflexivity. Qed.

Lemma scc_document_free : forall body, forallb scc_body_char body = true -> free before_scc (scc_document body) = true.
Proof.
  intros body Hb. apply free_spec. intros m lw Hin.
  destruct (markers_ok_spec before_srt m lw markers_ok_srt Hin) as [Hm Hn].
  destruct (has m lw (scc_document body)) eqn:E; [|reflexivity]. exfalso.
  unfold scc_document in E. cbn [app] in E.
  destruct (has_sep_nl m lw _ _ Hm Hn E) as [H1|H1].
  - cbn in Hin. destruct Hin as [X|[X|[X|[]]]]; injection X as <- <-; vm_compute in H1; discriminate.
  - change (10 :: body) with ([] ++ 10 :: body) in H1.
    destruct (has_sep_nl m lw _ _ Hm Hn H1) as [H2|H2]; [rewrite has_nil in H2 by exact Hm; discriminate|].
    pose proof (class_free_srt scc_body_char body scc_class_plain Hb eq_refl eq_refl) as F.
    rewrite (proj1 (free_spec _ _) F m lw Hin) in H2. discriminate.
Qed.

Theorem own_scc : forall body, forallb scc_body_char body = true ->
  detect_format (scc_document body) = Ok (Some R_SCC).
Proof.
  intros body Hb.
  destruct (free_srt_parts _ (scc_document_free body Hb)) as [F1 [F2 F3]].
  rewrite detect_format_cascade by (unfold scc_document, scc_header; discriminate).
  cbn [first_match detect_of].
  rewrite detect_dfxp_has, F1. cbn [bind].
  assert (Hm : detect_mdvd (scc_document body) = Ok false) by reflexivity.
  rewrite Hm. cbn [bind].
  rewrite detect_vtt_has, F2. cbn [bind].
  rewrite detect_sami_has, F3. cbn [bind].
  assert (Hl : splitlines (scc_document body) = scc_header :: splitlines (10 :: body)).
  { unfold scc_document. cbn [app]. apply splitlines_line. vm_compute. reflexivity. }
  unfold detect_srt, detect_scc. rewrite Hl.
  assert (Hd : u_isdigit scc_header = false) by (vm_compute; reflexivity).
  rewrite Hd. cbn [bind]. rewrite str_eqb_refl. reflexivity.
Qed.

(* ---------------- SRT ---------------- *)
Fixpoint srt_pieces (k : Z) (cues : list (str * str)) : list str :=
  match cues with
  | [] => []
  | (tl, txt) :: t => dec_z k :: tl :: txt :: [] :: srt_pieces (k + 1) t
  end.

Lemma srt_blocks_lines : forall cues k,
  srt_blocks k cues = concat (map (fun p => p ++ [10]) (srt_pieces k cues)).
Proof.
  induction cues as [|[tl txt] t IH]; intros k; [reflexivity|].
  cbn [srt_blocks srt_pieces map concat]. rewrite IH.
  rewrite <- !app_assoc. reflexivity.
Qed.

Lemma digit_class_plain : class_plain is_digit = true.
Proof. vm_compute. reflexivity. Qed.

Lemma dec_index_free : forall k, 1 <= k -> free before_srt (dec_z k) = true.
Proof.
  intros k Hk. unfold dec_z. replace (k <? 0) with false by lia.
  apply (class_free_srt is_digit _ digit_class_plain); [apply dec_nonneg_digits; lia|reflexivity|reflexivity].
Qed.

Lemma nil_free : forall ms, markers_ok ms = true -> free ms [] = true.
Proof.
  intros ms H. apply free_spec. intros m lw Hin. apply has_nil.
  apply (proj1 (markers_ok_spec ms m lw H Hin)).
Qed.

Lemma srt_pieces_free : forall cues k, 1 <= k -> forallb srt_cue_ok cues = true ->
  forallb (free before_srt) (srt_pieces k cues) = true.
Proof.
  induction cues as [|[tl txt] t IH]; intros k Hk H; [reflexivity|].
  cbn [forallb] in H. apply andb_true_iff in H. destruct H as [Hc Ht].
  unfold srt_cue_ok in Hc. cbn [fst snd] in Hc. apply andb_true_iff in Hc. destruct Hc as [Htl Htxt].
  cbn [srt_pieces forallb]. rewrite (dec_index_free k Hk), Htl, Htxt, (nil_free _ markers_ok_srt).
  cbn [andb]. apply IH; [lia|exact Ht].
Qed.

Lemma drop_last_split : forall s, exists t, s = drop_last s ++ t.
Proof. intros s. exists (skipn (length s - 1) s). unfold drop_last. symmetry. apply firstn_skipn. Qed.

Lemma drop_last_app : forall a x, x <> [] -> drop_last (a ++ x) = a ++ drop_last x.
Proof.
  intros a x Hx. unfold drop_last. rewrite app_length.
  destruct x as [|c x]; [congruence|]. cbn [length].
  replace (length a + S (length x) - 1)%nat with (length a + length x)%nat by lia.
  replace (S (length x) - 1)%nat with (length x) by lia.
  rewrite firstn_app. rewrite firstn_all2 by lia.
  replace (length a + length x - length a)%nat with (length x) by lia. reflexivity.
Qed.

Theorem own_srt : forall tl txt rest, srt_first_ok tl = true -> forallb srt_cue_ok ((tl, txt) :: rest) = true ->
  detect_format (srt_document ((tl, txt) :: rest)) = Ok (Some R_SRT).
Proof.
  intros tl txt rest Hfirst Hcues.
  unfold srt_first_ok in Hfirst. apply andb_true_iff in Hfirst. destruct Hfirst as [Hnl Harrow].
  (* the document is free of the three earlier markers *)
  assert (Hfree : free before_srt (srt_document ((tl, txt) :: rest)) = true).
  { destruct (drop_last_split (srt_blocks 1 ((tl, txt) :: rest))) as [t Ht].
    apply (free_prefix before_srt _ t). unfold srt_document. rewrite <- Ht.
    rewrite srt_blocks_lines. apply (free_lines _ _ markers_ok_srt).
    apply srt_pieces_free; [lia|exact Hcues]. }
  destruct (free_srt_parts _ Hfree) as [F1 [F2 F3]].
  (* its first two lines *)
  assert (Hshape : srt_document ((tl, txt) :: rest)
                   = [49] ++ 10 :: tl ++ 10 :: drop_last (txt ++ [10; 10] ++ srt_blocks 2 rest)).
  { assert (E : srt_blocks 1 ((tl, txt) :: rest)
                = ([49] ++ [10] ++ tl ++ [10]) ++ (txt ++ [10; 10] ++ srt_blocks 2 rest)).
    { cbn [srt_blocks]. change (dec_z 1) with [49]. change (1 + 1) with 2. rewrite <- !app_assoc. reflexivity. }
    unfold srt_document. rewrite E, drop_last_app by (destruct txt; discriminate).
    rewrite <- !app_assoc. reflexivity. }
  rewrite detect_format_cascade by (rewrite Hshape; discriminate).
  cbn [first_match detect_of].
  rewrite detect_dfxp_has, F1. cbn [bind].
  assert (Hm : detect_mdvd (srt_document ((tl, txt) :: rest)) = Ok false) by (rewrite Hshape; reflexivity).
  rewrite Hm. cbn [bind].
  rewrite detect_vtt_has, F2. cbn [bind].
  rewrite detect_sami_has, F3. cbn [bind].
  unfold detect_srt. rewrite Hshape.
  rewrite (splitlines_line [49] _ eq_refl), (splitlines_line tl _ Hnl).
  change (u_isdigit [49]) with true. cbn iota. rewrite Harrow. reflexivity.
Qed.

(* ---------------- MicroDVD ---------------- *)
Lemma is_digit_re_digit : forall c, is_digit c = true -> re_digit c = true.
Proof.
  intros c H. unfold re_digit, in_ranges.
  change re_digit_ranges with ((48, 57) :: tl re_digit_ranges).
  cbn [existsb fst snd]. unfold is_digit in H. rewrite H. reflexivity.
Qed.

Lemma take_while_stop : forall (f : Z -> bool) d y rest, forallb f d = true -> f y = false ->
  take_while f (d ++ y :: rest) = d /\ drop_while f (d ++ y :: rest) = y :: rest.
Proof.
  intros f. induction d as [|c d IH]; intros y rest Hd Hy.
  - cbn. rewrite Hy. split; reflexivity.
  - cbn [forallb] in Hd. apply andb_true_iff in Hd. destruct Hd as [Hc Hd].
    cbn [app take_while drop_while]. rewrite Hc. destruct (IH y rest Hd Hy) as [E1 E2]. rewrite E1, E2. split; reflexivity.
Qed.

Lemma brace_digits_frames : forall d rest, ascii_digits d = true ->
  brace_digits ([123] ++ d ++ 125 :: rest) = Some rest.
Proof.
  intros d rest Hd. unfold ascii_digits in Hd. destruct d as [|c d]; [discriminate|].
  assert (Hre : forallb re_digit (c :: d) = true).
  { apply forallb_forall. intros x Hx. apply is_digit_re_digit. rewrite forallb_forall in Hd. apply Hd. exact Hx. }
  assert (H125 : re_digit 125 = false) by (vm_compute; reflexivity).
  destruct (take_while_stop re_digit (c :: d) 125 rest Hre H125) as [E1 E2].
  cbn [app brace_digits]. cbn [app] in E1, E2. rewrite E1, E2. reflexivity.
Qed.

Lemma frame_class_plain : class_plain frame_char = true.
Proof. vm_compute. reflexivity. Qed.

Lemma mdvd_line_free : forall c, mdvd_cue_ok c = true -> has dfxp_marker true (fst c ++ snd c) = false.
Proof.
  intros [p txt] H. unfold mdvd_cue_ok in H. cbn [fst snd] in *. apply andb_true_iff in H. destruct H as [Hp Ht].
  pose proof (proj1 (free_spec before_mdvd txt) Ht dfxp_marker true (or_introl eq_refl)) as Hfree.
  destruct (has dfxp_marker true (p ++ txt)) eqn:E; [|reflexivity]. exfalso.
  unfold has in E, Hfree. rewrite u_lower_app, (class_lower_id frame_char p frame_class_plain Hp) in E.
  change dfxp_marker with (60 :: tl dfxp_marker) in E, Hfree.
  rewrite (is_infix_skip_prefix 60 _ p _ (forallb_not_in frame_char p 60 Hp eq_refl) E) in Hfree. discriminate.
Qed.

Lemma mdvd_document_lines : forall cues,
  mdvd_document cues = concat (map (fun p => p ++ [10]) (map (fun c : str * str => fst c ++ snd c) cues)).
Proof.
  unfold mdvd_document. induction cues as [|c t IH]; [reflexivity|].
  cbn [map concat]. rewrite IH, <- !app_assoc. reflexivity.
Qed.

Theorem own_mdvd : forall d1 d2 txt rest, ascii_digits d1 = true -> ascii_digits d2 = true ->
  forallb mdvd_cue_ok ((frames_prefix d1 d2, txt) :: rest) = true ->
  detect_format (mdvd_document ((frames_prefix d1 d2, txt) :: rest)) = Ok (Some R_MDVD).
Proof.
  intros d1 d2 txt rest H1 H2 Hcues.
  set (cues := (frames_prefix d1 d2, txt) :: rest) in *.
  assert (Hd : has dfxp_marker true (mdvd_document cues) = false).
  { destruct (has dfxp_marker true (mdvd_document cues)) eqn:E; [|reflexivity]. exfalso.
    rewrite mdvd_document_lines in E.
    destruct (markers_ok_spec before_vtt dfxp_marker true markers_ok_vtt (or_introl eq_refl)) as [Hm Hn].
    destruct (has_lines _ _ _ Hm Hn E) as [p [Hp Hh]].
    apply in_map_iff in Hp. destruct Hp as [c [<- Hc]].
    rewrite forallb_forall in Hcues. rewrite (mdvd_line_free c (Hcues c Hc)) in Hh. discriminate. }
  assert (Hshape : mdvd_document cues
                   = [123] ++ d1 ++ 125 :: ([123] ++ d2 ++ 125 :: (txt ++ [10] ++ mdvd_document rest))).
  { unfold mdvd_document, cues, frames_prefix. cbn [map concat fst snd]. rewrite <- !app_assoc. reflexivity. }
  rewrite detect_format_cascade by (rewrite Hshape; discriminate).
  cbn [first_match detect_of].
  rewrite detect_dfxp_has, Hd. cbn [bind].
  unfold detect_mdvd. rewrite Hshape.
  rewrite (brace_digits_frames d1 _ H1), (brace_digits_frames d2 _ H2). reflexivity.
Qed.

(* ---------------- WebVTT ---------------- *)
Lemma is_prefix_refl : forall m, is_prefix m m = true.
Proof. induction m as [|x m IH]; [reflexivity|]. cbn. rewrite Z.eqb_refl. exact IH. Qed.

Lemma is_infix_self_app : forall m b, is_infix m (m ++ b) = true.
Proof.
  intros m b. apply is_infix_app_l. destruct m as [|x m]; [reflexivity|].
  rewrite is_infix_cons, is_prefix_refl. reflexivity.
Qed.

Lemma has_join : forall m lw pieces, m <> [] -> ~ In 10 m ->
  has m lw (join [10] pieces) = true -> exists p, In p pieces /\ has m lw p = true.
Proof.
  intros m lw pieces Hm Hn. induction pieces as [|p t IH]; intros H.
  - cbn in H. rewrite has_nil in H by exact Hm. discriminate.
  - destruct t as [|q t'].
    + exists p. split; [left; reflexivity|exact H].
    + change (join [10] (p :: q :: t')) with (p ++ [10] ++ join [10] (q :: t')) in H. cbn [app] in H.
      destruct (has_sep_nl m lw _ _ Hm Hn H) as [H1|H1].
      * exists p. split; [left; reflexivity|exact H1].
      * destruct (IH H1) as [r [Hr Hh]]. exists r. split; [right; exact Hr|exact Hh].
Qed.

Theorem own_vtt : forall pieces, forallb (free before_vtt) pieces = true ->
  detect_format (vtt_document pieces) = Ok (Some R_VTT).
Proof.
  intros pieces Hp.
  destruct (markers_ok_spec before_vtt dfxp_marker true markers_ok_vtt (or_introl eq_refl)) as [Hm Hn].
  assert (Hd : has dfxp_marker true (vtt_document pieces) = false).
  { destruct (has dfxp_marker true (vtt_document pieces)) eqn:E; [|reflexivity]. exfalso.
    unfold vtt_document in E. cbn [app] in E.
    destruct (has_sep_nl _ _ _ _ Hm Hn E) as [H1|H1]; [vm_compute in H1; discriminate|].
    change (10 :: join [10] pieces) with ([] ++ 10 :: join [10] pieces) in H1.
    destruct (has_sep_nl _ _ _ _ Hm Hn H1) as [H2|H2]; [rewrite has_nil in H2 by exact Hm; discriminate|].
    destruct (has_join _ _ _ Hm Hn H2) as [p [Hin Hh]].
    rewrite forallb_forall in Hp.
    rewrite (proj1 (free_spec before_vtt p) (Hp p Hin) dfxp_marker true (or_introl eq_refl)) in Hh. discriminate. }
  rewrite detect_format_cascade by (unfold vtt_document, vtt_marker; discriminate).
  cbn [first_match detect_of].
  rewrite detect_dfxp_has, Hd. cbn [bind].
  assert (Hmd : detect_mdvd (vtt_document pieces) = Ok false) by reflexivity.
  rewrite Hmd. cbn [bind].
  rewrite detect_vtt_has. unfold has, vtt_document. rewrite is_infix_self_app. reflexivity.
Qed.
