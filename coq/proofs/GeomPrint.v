(* C18 / C13: Size.__str__ rounds to two decimals (within 1/200, canonical form) and its output re-parses to the
   rounded value. *)
From Coq Require Import List ZArith QArith Qabs Qround Bool Lia Lqa Field.
From PV Require Import lib.Sx lib.Str lib.Result model.Geometry spec.SpecGeom.
From PV Require Import proofs.GeomStr proofs.GeomEq proofs.GeomParse.
Import ListNotations.
Open Scope Z_scope.

(* ---- rounding ----------------------------------------------------------------------------------- *)
Lemma round_half_even_close : forall q, (Qabs (inject_Z (round_half_even q) - q) <= 1 # 2)%Q.
Proof.
  intros q. unfold round_half_even.
  pose proof (Qfloor_le q) as H1. pose proof (Qlt_floor q) as H2.
  set (f := Qfloor q) in *. rewrite inject_Z_plus in H2. change (inject_Z 1) with 1%Q in H2.
  apply Qabs_Qle_condition.
  destruct (Qcompare (q - inject_Z f) (1 # 2)) eqn:E.
  - rewrite <- Qeq_alt in E. destruct (Z.even f); [|rewrite inject_Z_plus; change (inject_Z 1) with 1%Q]; split; lra.
  - rewrite <- Qlt_alt in E. split; lra.
  - rewrite <- Qgt_alt in E. rewrite inject_Z_plus. change (inject_Z 1) with 1%Q. split; lra.
Qed.

Lemma round_half_even_compat : forall p q, (p == q)%Q -> round_half_even p = round_half_even q.
Proof.
  intros p q H. unfold round_half_even. rewrite (Qfloor_comp _ _ H).
  assert (E : ((p - inject_Z (Qfloor q)) ?= (1 # 2))%Q = ((q - inject_Z (Qfloor q)) ?= (1 # 2))%Q).
  { apply Qcompare_comp; [rewrite H; reflexivity|reflexivity]. }
  rewrite E. reflexivity.
Qed.

Lemma round_half_even_Z : forall n, round_half_even (inject_Z n) = n.
Proof.
  intros n. unfold round_half_even. rewrite Qfloor_Z.
  assert (E : ((inject_Z n - inject_Z n) ?= (1 # 2))%Q = Lt).
  { rewrite <- Qlt_alt. lra. }
  rewrite E. reflexivity.
Qed.

Lemma round_half_even_nonneg : forall q, (0 <= q)%Q -> 0 <= round_half_even q.
Proof.
  intros q H. unfold round_half_even.
  assert (Hf : 0 <= Qfloor q). { change 0 with (Qfloor 0). apply Qfloor_resp_le. exact H. }
  destruct (Qcompare (q - inject_Z (Qfloor q)) (1 # 2)); [destruct (Z.even (Qfloor q))|..]; lia.
Qed.

Lemma hundredths_close : forall v, (Qabs (inject_Z (hundredths v) / 100 - v) <= 1 # 200)%Q.
Proof.
  intros v. unfold hundredths. pose proof (round_half_even_close (v * 100)) as H.
  apply Qabs_Qle_condition in H. apply Qabs_Qle_condition.
  assert (E : (inject_Z (round_half_even (v * 100)) / 100 == inject_Z (round_half_even (v * 100)) * (1 # 100))%Q) by field.
  rewrite E. split; lra.
Qed.

Lemma hundredths_compat : forall p q, (p == q)%Q -> hundredths p = hundredths q.
Proof. intros p q H. unfold hundredths. apply round_half_even_compat. rewrite H. reflexivity. Qed.

Lemma hundredths_exact : forall n, hundredths (inject_Z n / 100) = n.
Proof.
  intros n. unfold hundredths. rewrite <- (round_half_even_Z n) at 2. apply round_half_even_compat. field.
Qed.

Lemma hundredths_nonneg : forall v, (0 <= v)%Q -> 0 <= hundredths v.
Proof. intros v H. unfold hundredths. apply round_half_even_nonneg. lra. Qed.

(* ---- shape of the printed number ----------------------------------------------------------------- *)
Definition dotted (ip fp : str) : str := ip ++ match fp with [] => [] | _ => 46 :: fp end.

Definition no_leading_zero (ip : str) : Prop := match ip with c :: _ :: _ => c <> 48 | _ => True end.
Definition no_trailing_zero (fp : str) : Prop := match rev fp with c :: _ => c <> 48 | [] => True end.

Lemma is48 : forall (c : Z) {A} (x y : A), c <> 48 -> match c with 48 => x | _ => y end = y.
Proof.
  intros c A x y H. destruct c; try reflexivity. repeat (destruct p; try reflexivity). contradiction.
Qed.

Lemma dec_no_leading_zero : forall z, 0 <= z -> no_leading_zero (dec_nonneg z).
Proof.
  intros z Hz. destruct (dec_nonneg_spec z Hz) as (_ & _ & _ & H4 & H5).
  destruct (Z_lt_le_dec z 10) as [Hs|Hs].
  - rewrite (H5 Hs). exact I.
  - specialize (H4 Hs). unfold no_leading_zero. destruct (dec_nonneg z) as [|c [|c2 t]]; [exact I|exact I|exact H4].
Qed.

Lemma str_of_hundredths_shape : forall n, 0 <= n ->
  exists ip fp, str_of_hundredths n = dotted ip fp
    /\ all_digits ip = true /\ (fp = [] \/ all_digits fp = true)
    /\ (denoted ip fp == inject_Z n / 100)%Q
    /\ no_leading_zero ip /\ (length fp <= 2)%nat /\ no_trailing_zero fp.
Proof.
  intros n Hn. unfold str_of_hundredths.
  assert (Hq : 0 <= n / 100) by (apply Z.div_pos; lia).
  destruct (dec_nonneg_spec (n / 100) Hq) as (D1 & D2 & D3 & _ & _).
  assert (Hip : all_digits (dec_nonneg (n / 100)) = true) by (apply all_digits_iff; split; assumption).
  pose proof (digits_q_val _ _ _ D3) as Hv. change (inject_Z 0) with 0%Q in Hv.
  pose proof (dec_no_leading_zero _ Hq) as Hlz.
  assert (Hn100 : (inject_Z n == 100 * inject_Z (n / 100) + inject_Z (n mod 100))%Q).
  { rewrite (Z.div_mod n 100) at 1 by lia. rewrite inject_Z_plus, inject_Z_mult. reflexivity. }
  assert (Hm : 0 <= n mod 100 < 100) by (apply Z.mod_pos_bound; lia).
  destruct (n mod 100 =? 0) eqn:E0.
  - exists (dec_nonneg (n / 100)), []. unfold dotted. rewrite app_nil_r.
    repeat split; auto.
    unfold denoted. rewrite Hv. cbn [frac_q]. assert (n mod 100 = 0) by lia.
    rewrite Hn100, H. change (inject_Z 0) with 0%Q. field.
  - destruct (n mod 100 mod 10 =? 0) eqn:E1.
    + set (d := n mod 100 / 10). assert (Hd : 1 <= d <= 9) by (subst d; lia).
      destruct (dec_nonneg_spec d ltac:(lia)) as (_ & _ & _ & _ & Hsm). rewrite (Hsm ltac:(lia)).
      exists (dec_nonneg (n / 100)), [48 + d]. unfold dotted.
      repeat split; auto.
      * right. cbn [all_digits forallb]. unfold is_digit. lia.
      * unfold denoted. rewrite Hv. cbn [frac_q]. replace (48 + d - 48) with d by lia.
        assert (Hfp : n mod 100 = 10 * d) by (subst d; lia).
        rewrite Hn100, Hfp, inject_Z_mult. field.
      * unfold no_trailing_zero. cbn [rev app]. clearbody d. lia.
    + set (fp := n mod 100) in *. assert (Hfp10 : fp mod 10 <> 0) by lia.
      assert (Hz : zpad 2 (dec_nonneg fp) = [48 + fp / 10; 48 + fp mod 10]).
      { destruct (Z_lt_le_dec fp 10) as [Hs|Hs].
        - destruct (dec_nonneg_spec fp ltac:(lia)) as (_ & _ & _ & _ & Hsm). rewrite (Hsm Hs).
          unfold zpad. cbn [length Nat.sub repeat app]. f_equal; [|f_equal]; lia.
        - rewrite dec_nonneg_two by lia. reflexivity. }
      rewrite Hz. exists (dec_nonneg (n / 100)), [48 + fp / 10; 48 + fp mod 10]. unfold dotted.
      repeat split; auto.
      * right. cbn [all_digits forallb]. unfold is_digit. lia.
      * unfold denoted. rewrite Hv. cbn [frac_q].
        replace (48 + fp / 10 - 48) with (fp / 10) by lia. replace (48 + fp mod 10 - 48) with (fp mod 10) by lia.
        assert (Hfp : (inject_Z fp == 10 * inject_Z (fp / 10) + inject_Z (fp mod 10))%Q).
        { rewrite (Z.div_mod fp 10) at 1 by lia. rewrite inject_Z_plus, inject_Z_mult. reflexivity. }
        rewrite Hn100. fold fp. rewrite Hfp. field.
      * unfold no_trailing_zero. cbn [rev app]. lia.
Qed.

(* ---- printing then parsing ----------------------------------------------------------------------- *)
Lemma size_str_shape : forall a, (0 <= s_val a)%Q ->
  exists ip fp, size_str a = dotted ip fp ++ unit_str (s_unit a)
    /\ all_digits ip = true /\ (fp = [] \/ all_digits fp = true)
    /\ (denoted ip fp == inject_Z (hundredths (s_val a)) / 100)%Q
    /\ no_leading_zero ip /\ (length fp <= 2)%nat /\ no_trailing_zero fp.
Proof.
  intros a Ha. destruct (str_of_hundredths_shape _ (hundredths_nonneg _ Ha)) as (ip & fp & H1 & H).
  exists ip, fp. split; [|exact H]. unfold size_str. rewrite H1. reflexivity.
Qed.

Theorem print_parse : forall a, (0 <= s_val a)%Q ->
  exists z, size_from_string (size_str a) = Ok z
            /\ (s_val z == inject_Z (hundredths (s_val a)) / 100)%Q /\ s_unit z = s_unit a.
Proof.
  intros a Ha. destruct (size_str_shape a Ha) as (ip & fp & H1 & H2 & H3 & H4 & _).
  destruct (from_string_value ip fp (s_unit a) H2 H3) as (v & Hv & Hvq & _).
  exists (mkSize v (s_unit a)). rewrite H1. unfold dotted. rewrite <- app_assoc.
  split; [exact Hv|]. split; [cbn [s_val]; rewrite Hvq; exact H4|reflexivity].
Qed.

(* printing is a function of the value (not of its representation) and of the unit *)
Lemma size_str_compat : forall a b, size_equiv a b -> size_str a = size_str b.
Proof. intros a b [H1 H2]. unfold size_str. rewrite (hundredths_compat _ _ H1), H2. reflexivity. Qed.

(* print o parse o print = print; and the re-parsed value is within 1/200 of the original *)
Theorem print_parse_print : forall a, (0 <= s_val a)%Q ->
  exists z, size_from_string (size_str a) = Ok z /\ size_str z = size_str a
            /\ (Qabs (s_val z - s_val a) <= 1 # 200)%Q.
Proof.
  intros a Ha. destruct (print_parse a Ha) as (z & Hz & Hv & Hu). exists z. split; [exact Hz|]. split.
  - unfold size_str. rewrite Hu. rewrite (hundredths_compat _ _ Hv), hundredths_exact. reflexivity.
  - rewrite Hv. apply hundredths_close.
Qed.

(* ---- the spec's oracle accepts the model's printer (refinement shape) ---------------------------- *)
Lemma ends_with_app : forall pre suf, ends_with suf (pre ++ suf) = Some pre.
Proof.
  intros pre suf. unfold ends_with. rewrite app_length.
  replace (length pre + length suf - length suf)%nat with (length pre) by lia.
  rewrite skipn_app_exact, firstn_app_exact, str_eqb_refl.
  assert (E : (length suf <=? length pre + length suf)%nat = true) by (apply Nat.leb_le; lia).
  rewrite E. reflexivity.
Qed.

Lemma ends_with_some : forall suf s pre, ends_with suf s = Some pre -> s = pre ++ suf.
Proof.
  intros suf s pre H. unfold ends_with in H. remember (length s - length suf)%nat as n.
  destruct ((length suf <=? length s)%nat && str_eqb (skipn n s) suf) eqn:E; [|discriminate].
  apply andb_true_iff in E. destruct E as [_ E]. apply str_eqb_eq in E. inversion H; subst pre.
  rewrite <- (firstn_skipn n s) at 1. f_equal. exact E.
Qed.

Lemma is_number_dotted : forall ip fp, all_digits ip = true -> (fp = [] \/ all_digits fp = true) ->
  is_number (dotted ip fp) = true /\ (number_q (dotted ip fp) == denoted ip fp)%Q.
Proof.
  intros ip fp Hip Hfp. pose proof Hip as Hip'. apply all_digits_iff in Hip'. destruct Hip' as [_ Hd].
  pose proof (digits_free_of_dot _ Hd) as Hf. unfold is_number, number_q, dotted, denoted.
  destruct Hfp as [->|Hfp].
  - rewrite app_nil_r, (split_ch_free _ _ Hf). split; [exact Hip|]. cbn [frac_q]. ring.
  - destruct fp as [|c fp]; [discriminate|]. pose proof Hfp as Hfp'. apply all_digits_iff in Hfp'. destruct Hfp' as [_ Hd2].
    rewrite (split_ch_app _ _ _ Hf), (split_ch_free _ _ (digits_free_of_dot _ Hd2)).
    split; [rewrite Hip, Hfp; reflexivity|reflexivity].
Qed.

(* a decomposition number ++ unit is found by spec_split, and it is the only one *)
Lemma spec_split_unique : forall num u, is_number num = true -> spec_split (num ++ unit_str u) = Some (num, u).
Proof.
  intros num u Hnum.
  assert (Hother : forall u' pre, ends_with (unit_str u') (num ++ unit_str u) = Some pre -> pre = num /\ u' = u).
  { intros u' pre H. apply ends_with_some in H. symmetry in H. apply unit_str_last_inj in H. exact H. }
  unfold spec_split, spec_units. cbn [fold_right].
  assert (Hu : ends_with (unit_str u) (num ++ unit_str u) = Some num) by apply ends_with_app.
  destruct u;
    repeat match goal with
           | |- context [ends_with (unit_str ?w) ?s] =>
               lazymatch goal with
               | H : ends_with (unit_str w) s = _ |- _ => rewrite H
               | _ => let E := fresh "E" in
                      destruct (ends_with (unit_str w) s) as [pre|] eqn:E;
                      [destruct (Hother _ _ E) as [_ Hbad]; discriminate Hbad|]
               end
           end; rewrite ?Hnum; reflexivity.
Qed.

Lemma canonical_dotted : forall ip fp, all_digits ip = true -> (fp = [] \/ all_digits fp = true) ->
  no_leading_zero ip -> (length fp <= 2)%nat -> no_trailing_zero fp -> canonical_number (dotted ip fp) = true.
Proof.
  intros ip fp Hip Hfp Hlz Hlen Htz. pose proof Hip as Hip'. apply all_digits_iff in Hip'. destruct Hip' as [_ Hd].
  pose proof (digits_free_of_dot _ Hd) as Hf. unfold canonical_number, dotted.
  assert (Hl : match ip with 48 :: _ :: _ => false | _ => true end = true).
  { unfold no_leading_zero in Hlz. destruct ip as [|c [|c2 t]].
    - reflexivity.
    - destruct c; try reflexivity. repeat (destruct p; try reflexivity).
    - destruct c; try reflexivity. repeat (destruct p; try reflexivity). contradiction. }
  destruct Hfp as [->|Hfp].
  - rewrite app_nil_r, (split_ch_free _ _ Hf), Hip, Hl. reflexivity.
  - destruct fp as [|c fp]; [discriminate|]. pose proof Hfp as Hfp'. apply all_digits_iff in Hfp'. destruct Hfp' as [_ Hd2].
    rewrite (split_ch_app _ _ _ Hf), (split_ch_free _ _ (digits_free_of_dot _ Hd2)), Hip, Hl, Hfp.
    assert (E : (length (c :: fp) <=? 2)%nat = true) by (apply Nat.leb_le; exact Hlen). rewrite E.
    unfold no_trailing_zero in Htz. destruct (rev (c :: fp)) as [|x r]; [reflexivity|].
    destruct x; try reflexivity. repeat (destruct p; try reflexivity). contradiction.
Qed.

Theorem ok_print_model : forall v u, (0 <= v)%Q -> ok_print v u (size_str (mkSize v u)) = true.
Proof.
  intros v u Hv. destruct (size_str_shape (mkSize v u) Hv) as (ip & fp & H1 & H2 & H3 & H4 & H5 & H6 & H7).
  cbn [s_val s_unit] in *. unfold ok_print. rewrite H1.
  destruct (is_number_dotted ip fp H2 H3) as [Hn Hq].
  rewrite (spec_split_unique _ _ Hn).
  assert (E : unit_eqb u u = true) by (apply unit_eqb_eq; reflexivity). rewrite E.
  rewrite (canonical_dotted ip fp H2 H3 H5 H6 H7). cbn [andb].
  apply Qle_bool_iff. rewrite Hq, H4. apply hundredths_close.
Qed.

(* the statement-level print oracle (two decimals, unit, within 1/200) is implied by the canonical one, so the model's
   printer meets it as well *)
Lemma canonical_two_decimals : forall num, canonical_number num = true -> two_decimals num = true.
Proof.
  intros num H. unfold canonical_number in H. unfold two_decimals.
  destruct (split_ch 46 num) as [|a [|b [|c r]]]; try discriminate.
  - apply andb_true_iff in H. destruct H as [H _]. exact H.
  - repeat (apply andb_true_iff in H; destruct H as [H ?]). rewrite H. cbn [andb].
    match goal with K : all_digits b = true |- _ => rewrite K end. cbn [andb]. assumption.
Qed.

Lemma ok_print_implies_stmt : forall v u p, ok_print v u p = true -> ok_print_stmt v u p = true.
Proof.
  intros v u p H. unfold ok_print in H. unfold ok_print_stmt. destruct (spec_split p) as [[num u']|]; [|discriminate].
  apply andb_true_iff in H. destruct H as [H H3]. apply andb_true_iff in H. destruct H as [H1 H2].
  rewrite H1, (canonical_two_decimals _ H2), H3. reflexivity.
Qed.

Theorem ok_print_stmt_model : forall v u, (0 <= v)%Q -> ok_print_stmt v u (size_str (mkSize v u)) = true.
Proof. intros v u H. apply ok_print_implies_stmt, ok_print_model. exact H. Qed.
