(* C08, wave 7: the DFXP hop at DOCUMENT level (string level): DFXPWriter's document for captions given as clean text
   lines, read back by the string-level reader model, returns the captions with times floored to the millisecond AND
   the text lines unchanged; chains over SRT, MicroDVD, WebVTT and DFXP document hops. *)
From Coq Require Import List ZArith QArith Lia Bool ZifyBool Arith.
From PV Require Import lib.Sx lib.Str lib.Result lib.Dec.
From PV Require Import model.TimeRead model.TimeTree model.XmlRead model.Chain model.DfxpWriteDoc model.DfxpReadLines.
From PV Require Import spec.SpecTime spec.SpecTimeTree spec.SpecXmlDocT spec.SpecChain.
From PV Require Import proofs.TimeStrFacts proofs.XmlReadFacts proofs.DfxpWriteDocFacts.
From PV Require Import proofs.ChainFacts proofs.ChainDocFacts proofs.ChainSrtDocFacts proofs.ChainVttDocFacts.
Import ListNotations.
Open Scope Z_scope.

(* ---- a NavigableString of the written document reads as its line -------------------------------------------------- *)
Lemma string_text_line : forall l tail, clean_line l = true -> (tail = [] \/ tail = DfxpWriteDoc.nl 3%nat) ->
  dfxp_string_text (DfxpWriteDoc.nl 4%nat ++ l ++ tail) = Some l.
Proof.
  intros l tail Hl Ht. destruct (clean_line_parts l Hl) as (Hnb & _ & (c & t & El & Hc) & _).
  assert (Hnl : forallb not_nl l = true).
  { revert Hnb. unfold no_lb. apply forallb_imp. intros x Hx. unfold not_nl. destruct (x =? 10); [discriminate|reflexivity]. }
  assert (Hst : stops not_nl tail) by (destruct Ht; subst tail; reflexivity).
  unfold dfxp_string_text. cbn [DfxpWriteDoc.nl repeat app take_while drop_while].
  change (is_nlcr 10) with true. change (is_nlcr 32) with false. change (is_space 32) with true. cbv iota.
  rewrite El in *. cbn [app drop_while]. change (is_space 32) with true. cbv iota. rewrite Hc.
  assert (E10 : (c =? 10) = false) by (unfold is_space in Hc; lia). rewrite E10.
  change (c :: t ++ tail) with ((c :: t) ++ tail).
  rewrite (take_while_stops not_nl (c :: t) tail Hnl Hst), (drop_while_stops not_nl (c :: t) tail Hnl Hst).
  destruct Ht; subst tail; cbn; rewrite app_nil_r; reflexivity.
Qed.

Lemma text_nodes_nl : forall k s, text_nodes (DfxpWriteDoc.nl k ++ s) = [HText (DfxpWriteDoc.nl k ++ s)].
Proof. reflexivity. Qed.

Lemma content_tree_last : forall l,
  tree_of_content (wcontent [l]) = [HText (DfxpWriteDoc.nl 4%nat ++ l ++ DfxpWriteDoc.nl 3%nat)].
Proof. intros l. unfold tree_of_content. cbn [wcontent fst snd tree_of_items flat_map app]. rewrite tstr_val_lits. reflexivity. Qed.

Lemma content_tree_cons : forall l l2 t,
  tree_of_content (wcontent (l :: l2 :: t))
  = HText (DfxpWriteDoc.nl 4%nat ++ l) :: HElem (lit "br") [] [] :: tree_of_content (wcontent (l2 :: t)).
Proof.
  intros l l2 t. rewrite wcontent_cons2. unfold tree_of_content, tree_of_items. cbn [fst snd flat_map tree_of_pel].
  rewrite tstr_val_lits, text_nodes_nl. rewrite <- !app_assoc. reflexivity.
Qed.

Lemma p_lines_content : forall lines, lines <> [] -> forallb clean_line lines = true ->
  p_lines (tree_of_content (wcontent lines)) = Some lines.
Proof.
  induction lines as [|l t IH]; intros Hne H; [congruence|]. cbn [forallb] in H. apply andb_true_iff in H. destruct H as [Hl Ht].
  destruct t as [|l2 t].
  - rewrite content_tree_last. cbn [p_lines]. rewrite (string_text_line l _ Hl (or_intror eq_refl)). reflexivity.
  - rewrite content_tree_cons. cbn [p_lines]. change (str_eqb (lit "br") (lit "br")) with true. cbv iota.
    pose proof (string_text_line l [] Hl (or_introl eq_refl)) as E. rewrite app_nil_r in E. rewrite E.
    rewrite (IH ltac:(discriminate) Ht). reflexivity.
Qed.

(* ---- the paragraphs of the written document ------------------------------------------------------------------- *)
Lemma ps_kids_content : forall b lines, flat_map (ps_kids b) (tree_of_content (wcontent lines)) = [].
Proof.
  intros b. induction lines as [|l t IH]; [reflexivity|]. destruct t as [|l2 t].
  - rewrite content_tree_last. reflexivity.
  - rewrite content_tree_cons. cbn [flat_map ps_kids app]. change (str_eqb (lit "br") (lit "p")) with false.
    cbn [andb app flat_map]. exact IH.
Qed.

Lemma ps_kids_wps : forall cs, forallb wcap_ok cs = true ->
  flat_map (ps_kids true) (tree_of (wps cs)) = map (fun c : wcap => tree_of_content (wcontent (snd c))) cs.
Proof.
  induction cs as [|c cs IH]; intros H; [reflexivity|].
  cbn [forallb] in H. apply andb_true_iff in H. destruct H as [Hc Hcs].
  unfold wcap_ok in Hc. repeat (apply andb_true_iff in Hc; destruct Hc as [Hc ?]).
  cbn [wps tree_of map]. rewrite text_nodes_nl with (s := []) || idtac.
  change (text_nodes (DfxpWriteDoc.nl 3%nat)) with [HText (DfxpWriteDoc.nl 3%nat)].
  cbn [app flat_map ps_kids]. change (str_eqb (lit "p") (lit "p")) with true. change (str_eqb (lit "p") (lit "div")) with false.
  rewrite h_text_content, visible_has, (wcontent_visible _ H). cbn [andb orb app].
  rewrite ps_kids_content. cbn [app]. rewrite (IH Hcs). reflexivity.
Qed.

Lemma ps_kids_text_then : forall b w l, flat_map (ps_kids b) (text_nodes w ++ l) = flat_map (ps_kids b) l.
Proof. intros b [|c w] l; reflexivity. Qed.

Lemma ps_kids_doc : forall lang cs,
  flat_map (ps_kids false) (tree_doc (wdoc lang cs)) = flat_map (ps_kids true) (tree_of (wps cs)).
Proof.
  intros lang cs. unfold tree_doc, wdoc, whead.
  cbn [xd_pre xd_l1 xd_lang xd_l2 xd_body xd_post tree_of].
  set (X := tree_of (wps cs)).
  rewrite !ps_kids_text_then. cbn [flat_map ps_kids].
  repeat (rewrite ?ps_kids_text_then; cbn [flat_map ps_kids app]).
  change (str_eqb (lit "tt") (lit "p")) with false. change (str_eqb (lit "tt") (lit "div")) with false.
  change (str_eqb (lit "head") (lit "p")) with false. change (str_eqb (lit "head") (lit "div")) with false.
  change (str_eqb (lit "styling") (lit "p")) with false. change (str_eqb (lit "styling") (lit "div")) with false.
  change (str_eqb (lit "style") (lit "p")) with false. change (str_eqb (lit "style") (lit "div")) with false.
  change (str_eqb (lit "layout") (lit "p")) with false. change (str_eqb (lit "layout") (lit "div")) with false.
  change (str_eqb (lit "region") (lit "p")) with false. change (str_eqb (lit "region") (lit "div")) with false.
  change (str_eqb (lit "body") (lit "p")) with false. change (str_eqb (lit "body") (lit "div")) with false.
  change (str_eqb (lit "div") (lit "p")) with false. change (str_eqb (lit "div") (lit "div")) with true.
  cbn [andb orb app]. repeat (rewrite ?ps_kids_text_then; cbn [flat_map ps_kids app andb orb]).
  rewrite ?app_nil_r. reflexivity.
Qed.

(* ---- one DFXP hop at document level ---------------------------------------------------------------------------- *)
Definition in_day (cs : list wcap) : Prop :=
  Forall (fun c : wcap => 0 <= fst (fst c) < day /\ 0 <= snd (fst c) < day) cs.

Lemma clean_line_visible : forall l, clean_line l = true -> has_visible_char l = true.
Proof.
  intros l H. destruct (clean_line_parts l H) as (_ & _ & (c & t & El & Hc) & _). subst l.
  unfold has_visible_char. cbn [existsb]. rewrite Hc. reflexivity.
Qed.

Lemma caps_wcap_ok : forall cs, in_day cs -> text_dom cs = true -> forallb wcap_ok cs = true.
Proof.
  induction cs as [|c cs IH]; intros D T; [reflexivity|]. inversion D as [|? ? Dc Dcs]; subst.
  unfold text_dom in T. cbn [forallb] in T. apply andb_true_iff in T. destruct T as [Tc Tcs].
  cbn [forallb]. rewrite (IH Dcs Tcs), andb_true_r. unfold wcap_ok.
  assert (V : existsb has_visible_char (snd c) = true).
  { unfold clean_lines in Tc. destruct (snd c) as [|l ls]; [discriminate|]. cbn [forallb] in Tc.
    apply andb_true_iff in Tc. destruct Tc as [Hl _]. cbn [existsb]. rewrite (clean_line_visible l Hl). reflexivity. }
  rewrite V. unfold day in *. lia.
Qed.

Lemma opt_all_lines : forall cs, text_dom cs = true ->
  opt_all (map p_lines (map (fun c : wcap => tree_of_content (wcontent (snd c))) cs)) = Some (map snd cs).
Proof.
  induction cs as [|c cs IH]; intros T; [reflexivity|].
  unfold text_dom in T. cbn [forallb] in T. apply andb_true_iff in T. destruct T as [Tc Tcs].
  cbn [map opt_all]. unfold clean_lines in Tc.
  rewrite p_lines_content; [|destruct (snd c); [discriminate|discriminate]|destruct (snd c); [discriminate|exact Tc]].
  rewrite (IH Tcs). reflexivity.
Qed.

Lemma combine_floor : forall cs : list wcap,
  map (fun tl : (Z * Z) * list str => (fst (fst tl), snd (fst tl), snd tl)) (combine (map floor_cue cs) (map snd cs))
  = floor_caps 1000 cs.
Proof. induction cs as [|c cs IH]; [reflexivity|]. cbn [map combine]. rewrite IH. reflexivity. Qed.

Theorem dfxp_roundtrip_string : forall cs, cs <> [] -> in_day cs -> text_dom cs = true ->
  hop_doc FDfxp cs = Ok (floor_caps 1000 cs).
Proof.
  intros cs Hne D T. pose proof (caps_wcap_ok cs D T) as W.
  cbn [hop_doc]. unfold dfxp_read_lines.
  rewrite (dfxp_document_string [] (lit "en-US") cs Hne W).
  unfold dfxp_write_doc. rewrite (parse_doc_render _ (wdoc_ok (lit "en-US") cs W)).
  rewrite ps_kids_doc, (ps_kids_wps cs W), (opt_all_lines cs T).
  rewrite !map_length, Nat.eqb_refl. rewrite combine_floor. reflexivity.
Qed.

Lemma dom_u_in_day : forall u lo cs, 0 <= lo -> 0 <= u -> dom_u u lo (times_of_caps cs) -> in_day cs.
Proof.
  intros u lo cs. revert lo. induction cs as [|[[s e] ls] cs IH]; intros lo Hlo Hu D; [constructor|].
  unfold times_of_caps in D. cbn [map fst snd dom_u] in D. destruct D as (D1 & D2 & D3 & D4 & D5).
  constructor.
  - cbn [fst snd]. unfold day. lia.
  - apply (IH e); [lia|exact Hu|exact D5].
Qed.

(* ---- chains over SRT, MicroDVD, WebVTT and DFXP at document level: times AND text ---------------------------------- *)
Definition line_fmt4 (f : fmt) : bool := match f with FSrt | FMdvd | FVtt | FDfxp => true | _ => false end.

Theorem run_doc_text4 : forall chain cs lo, forallb line_fmt4 chain = true -> cs <> [] -> 0 <= lo ->
  dom_u 40000 lo (times_of_caps cs) -> text_dom cs = true -> srt_text_dom cs = true -> vtt_text_dom cs = true ->
  exists out, run_doc chain cs = Ok out /\ times_of_caps out = run chain (times_of_caps cs) /\ map snd out = map snd cs.
Proof.
  induction chain as [|f t IH]; intros cs lo Hc Hne Hlo D T1 T2 T3.
  - exists cs. repeat split.
  - cbn [forallb] in Hc. apply andb_true_iff in Hc. destruct Hc as [Hf Ht].
    assert (HOP : hop_doc f cs = Ok (floor_caps (unit_of f) cs)).
    { destruct f; try discriminate Hf; cbn [unit_of].
      - cbn [hop_doc]. rewrite (srt_roundtrip_string cs (dom_u_1000 _ lo Hlo D) T2). fold (floor_caps 1000 cs).
        unfold read_result, floor_caps. destruct cs; [congruence|reflexivity].
      - cbn [hop_doc]. rewrite (vtt_roundtrip_string cs (dom_u_1000 _ lo Hlo D) T3).
        unfold read_result, floor_caps. destruct cs; [congruence|reflexivity].
      - apply dfxp_roundtrip_string; [exact Hne|exact (dom_u_in_day 40000 lo cs Hlo ltac:(lia) D)|exact T1].
      - cbn [hop_doc]. rewrite (mdvd_roundtrip_string cs (dom_u_weaken 40000 lo 0 _ Hlo D) T1). fold (floor_caps 40000 cs).
        unfold read_result, floor_caps. destruct cs; [congruence|reflexivity]. }
    assert (PI : pi f (times_of_caps cs) = map (pi_pt (unit_of f)) (times_of_caps cs)) by (destruct f; try discriminate Hf; reflexivity).
    assert (Uf : unit_of f <= 40000) by (destruct f; cbn; lia).
    destruct (hop_exact f 40000 lo (times_of_caps cs) (or_intror eq_refl) Uf Hlo D) as [_ D'].
    rewrite PI, <- floor_caps_times in D'.
    assert (Hne' : floor_caps (unit_of f) cs <> []) by (unfold floor_caps; destruct cs; [congruence|discriminate]).
    assert (Hlo' : 0 <= fl (unit_of f) lo) by (unfold fl; destruct f; cbn [unit_of]; lia).
    destruct (IH (floor_caps (unit_of f) cs) (fl (unit_of f) lo) Ht Hne' Hlo' D') as [out [R1 [R2 R3]]].
    + unfold text_dom. rewrite (forallb_snd clean_lines _ cs (floor_caps_texts _ cs)). exact T1.
    + unfold srt_text_dom. rewrite (forallb_snd srt_lines_ok _ cs (floor_caps_texts _ cs)). exact T2.
    + unfold vtt_text_dom.
      rewrite (forallb_snd (fun ls => clean_lines ls && vtt_lines_ok ls) _ cs (floor_caps_texts _ cs)). exact T3.
    + exists out. cbn [run_doc]. rewrite HOP. split; [exact R1|]. split.
      * rewrite R2, floor_caps_times, <- PI. reflexivity.
      * rewrite R3. apply floor_caps_texts.
Qed.
