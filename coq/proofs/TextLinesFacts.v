(* Lemmas about lines: split_ch, join, words / norm_line / norm_lines, and their invariance under removal of
   outer white space (Python strip) - used by the SRT, MicroDVD and payload theorems. *)
From Coq Require Import List ZArith Bool Lia ZifyBool.
From PV Require Import lib.Sx lib.Str spec.SpecTextLines proofs.TextStrFacts.
Import ListNotations.
Open Scope Z_scope.

(* ---- split_ch ------------------------------------------------------------------ *)
Lemma split_ch_aux_cur : forall sep s cur,
  split_ch_aux sep s cur =
  match split_ch_aux sep s [] with
  | l0 :: rest => (rev cur ++ l0) :: rest
  | [] => []
  end.
Proof.
  induction s as [|c t IH]; intros cur.
  - cbn [split_ch_aux rev app]. rewrite app_nil_r. reflexivity.
  - cbn [split_ch_aux]. destruct (c =? sep).
    + cbn [rev app]. rewrite app_nil_r. reflexivity.
    + rewrite (IH (c :: cur)), (IH [c]). destruct (split_ch_aux sep t []); [reflexivity|].
      cbn [rev app]. rewrite <- app_assoc. reflexivity.
Qed.

Lemma split_ch_nonnil : forall sep s, split_ch sep s <> [].
Proof.
  intros sep s. unfold split_ch. generalize (@nil Z). induction s as [|c t IH]; intros cur; cbn [split_ch_aux].
  - discriminate.
  - destruct (c =? sep); [discriminate|apply IH].
Qed.

Lemma split_ch_cons_sep : forall sep t, split_ch sep (sep :: t) = [] :: split_ch sep t.
Proof. intros sep t. unfold split_ch. cbn [split_ch_aux]. rewrite Z.eqb_refl. reflexivity. Qed.

Lemma split_ch_cons_other : forall sep c t, c <> sep ->
  split_ch sep (c :: t) = match split_ch sep t with l0 :: rest => (c :: l0) :: rest | [] => [] end.
Proof.
  intros sep c t H. unfold split_ch. cbn [split_ch_aux]. destruct (Z.eqb_spec c sep); [congruence|].
  rewrite split_ch_aux_cur. destruct (split_ch_aux sep t []); reflexivity.
Qed.

(* appending a non-separator character extends the last line *)
Fixpoint map_last (f : str -> str) (l : list str) : list str :=
  match l with
  | [] => []
  | [x] => [f x]
  | x :: t => x :: map_last f t
  end.

Lemma split_ch_snoc_other : forall sep w s, w <> sep ->
  split_ch sep (s ++ [w]) = map_last (fun l => l ++ [w]) (split_ch sep s).
Proof.
  intros sep w s Hw. induction s as [|c t IH].
  - cbn [app]. rewrite split_ch_cons_other by exact Hw. reflexivity.
  - cbn [app]. destruct (Z.eqb_spec c sep) as [->|Hc].
    + rewrite !split_ch_cons_sep, IH. pose proof (split_ch_nonnil sep t).
      destruct (split_ch sep t); [congruence|]. reflexivity.
    + rewrite !split_ch_cons_other by exact Hc. rewrite IH.
      pose proof (split_ch_nonnil sep t). destruct (split_ch sep t) as [|l0 rest]; [congruence|].
      destruct rest; reflexivity.
Qed.

Lemma split_ch_snoc_sep : forall sep s, split_ch sep (s ++ [sep]) = split_ch sep s ++ [[]].
Proof.
  intros sep s. induction s as [|c t IH].
  - cbn [app]. rewrite split_ch_cons_sep. reflexivity.
  - cbn [app]. destruct (Z.eqb_spec c sep) as [->|Hc].
    + rewrite !split_ch_cons_sep, IH. reflexivity.
    + rewrite !split_ch_cons_other by exact Hc. rewrite IH.
      pose proof (split_ch_nonnil sep t). destruct (split_ch sep t); [congruence|]. reflexivity.
Qed.

(* the lines of a split never contain the separator *)
Lemma split_ch_no_sep : forall sep s l, In l (split_ch sep s) -> forallb (fun c => negb (c =? sep)) l = true.
Proof.
  intros sep s. induction s as [|c t IH]; intros l Hl.
  - cbn in Hl. destruct Hl as [<-|[]]. reflexivity.
  - destruct (Z.eqb_spec c sep) as [->|Hc].
    + rewrite split_ch_cons_sep in Hl. destruct Hl as [<-|Hl]; [reflexivity|apply IH; exact Hl].
    + rewrite split_ch_cons_other in Hl by exact Hc.
      destruct (split_ch sep t) as [|l0 rest] eqn:E; [destruct Hl|].
      destruct Hl as [<-|Hl].
      * cbn [forallb]. destruct (Z.eqb_spec c sep); [congruence|]. cbn [negb andb]. apply IH. left. reflexivity.
      * apply IH. right. exact Hl.
Qed.

(* join then split *)
Lemma split_ch_app_nosep : forall sep a t, forallb (fun c => negb (c =? sep)) a = true ->
  split_ch sep (a ++ t) = match split_ch sep t with l0 :: rest => (a ++ l0) :: rest | [] => [] end.
Proof.
  intros sep a t. induction a as [|c a IH]; intros Ha.
  - cbn [app]. destruct (split_ch sep t); reflexivity.
  - cbn [forallb] in Ha. apply andb_true_iff in Ha. destruct Ha as [Hc Ha].
    cbn [app]. rewrite split_ch_cons_other by (intros ->; rewrite Z.eqb_refl in Hc; discriminate).
    rewrite (IH Ha). destruct (split_ch sep t); reflexivity.
Qed.

Lemma split_ch_join : forall sep ls, ls <> [] ->
  (forall l, In l ls -> forallb (fun c => negb (c =? sep)) l = true) ->
  split_ch sep (join [sep] ls) = ls.
Proof.
  intros sep ls. induction ls as [|a ls IH]; intros Hne Hall; [congruence|].
  destruct ls as [|b ls'].
  - cbn [join]. rewrite <- (app_nil_r a) at 1. rewrite split_ch_app_nosep by (apply Hall; left; reflexivity).
    cbn. rewrite app_nil_r. reflexivity.
  - change (join [sep] (a :: b :: ls')) with (a ++ [sep] ++ join [sep] (b :: ls')).
    rewrite split_ch_app_nosep by (apply Hall; left; reflexivity).
    cbn [app]. rewrite split_ch_cons_sep. rewrite app_nil_r.
    rewrite IH; [reflexivity|discriminate|]. intros l Hl. apply Hall. right. exact Hl.
Qed.

(* ---- words / norm_line ----------------------------------------------------------- *)
Lemma words_cons_space : forall w s, is_space w = true -> words (w :: s) = words s.
Proof. intros w s H. unfold words. cbn [words_aux]. rewrite H. reflexivity. Qed.

Lemma words_aux_snoc_space : forall w s cur, is_space w = true -> words_aux (s ++ [w]) cur = words_aux s cur.
Proof.
  intros w s. induction s as [|c t IH]; intros cur H.
  - cbn [app words_aux]. rewrite H. destruct cur; reflexivity.
  - cbn [app words_aux]. destruct (is_space c).
    + destruct cur; rewrite IH by exact H; reflexivity.
    + apply IH. exact H.
Qed.

Lemma norm_line_cons_space : forall w s, is_space w = true -> norm_line (w :: s) = norm_line s.
Proof. intros. unfold norm_line. rewrite words_cons_space by assumption. reflexivity. Qed.
Lemma norm_line_snoc_space : forall w s, is_space w = true -> norm_line (s ++ [w]) = norm_line s.
Proof. intros. unfold norm_line, words. rewrite words_aux_snoc_space by assumption. reflexivity. Qed.

Lemma norm_line_nil : norm_line [] = [].
Proof. reflexivity. Qed.

Lemma norm_lines_cons : forall l ls,
  norm_lines (l :: ls) = (if nonempty (norm_line l) then [norm_line l] else []) ++ norm_lines ls.
Proof. intros. unfold norm_lines. cbn [map filter]. destruct (nonempty (norm_line l)); reflexivity. Qed.

Lemma norm_lines_app : forall a b, norm_lines (a ++ b) = norm_lines a ++ norm_lines b.
Proof. intros. unfold norm_lines. rewrite map_app, filter_app. reflexivity. Qed.

Lemma norm_lines_map_last : forall w ls, is_space w = true ->
  norm_lines (map_last (fun l => l ++ [w]) ls) = norm_lines ls.
Proof.
  intros w ls H. induction ls as [|a ls IH]; [reflexivity|].
  destruct ls as [|b ls'].
  - cbn [map_last]. rewrite !norm_lines_cons, norm_line_snoc_space by exact H. reflexivity.
  - change (map_last (fun l => l ++ [w]) (a :: b :: ls')) with (a :: map_last (fun l => l ++ [w]) (b :: ls')).
    rewrite (norm_lines_cons a (map_last (fun l => l ++ [w]) (b :: ls'))), (norm_lines_cons a (b :: ls')), IH. reflexivity.
Qed.

(* removing one outer white-space character does not change the normalised lines.
   sep_ws: the separator is itself white space (LF) or not ('|') *)
Lemma norm_lines_split_cons_space : forall sep w s, is_space w = true ->
  norm_lines (split_ch sep (w :: s)) = norm_lines (split_ch sep s).
Proof.
  intros sep w s H. destruct (Z.eqb_spec w sep) as [->|Hw].
  - rewrite split_ch_cons_sep, norm_lines_cons. reflexivity.
  - rewrite split_ch_cons_other by exact Hw. pose proof (split_ch_nonnil sep s).
    destruct (split_ch sep s) as [|l0 rest]; [congruence|].
    rewrite !norm_lines_cons, norm_line_cons_space by exact H. reflexivity.
Qed.

Lemma norm_lines_split_snoc_space : forall sep w s, is_space w = true ->
  norm_lines (split_ch sep (s ++ [w])) = norm_lines (split_ch sep s).
Proof.
  intros sep w s H. destruct (Z.eqb_spec w sep) as [->|Hw].
  - rewrite split_ch_snoc_sep, norm_lines_app. cbn. rewrite app_nil_r. reflexivity.
  - rewrite split_ch_snoc_other by exact Hw. apply norm_lines_map_last. exact H.
Qed.

Lemma norm_lines_split_lstrip : forall sep s,
  norm_lines (split_ch sep (lstrip s)) = norm_lines (split_ch sep s).
Proof.
  intros sep s. unfold lstrip. induction s as [|c t IH]; [reflexivity|].
  cbn [lstrip_by]. destruct (is_space c) eqn:E; [|reflexivity].
  rewrite IH. symmetry. apply norm_lines_split_cons_space. exact E.
Qed.

Lemma rstrip_by_snoc : forall f s w,
  rstrip_by f (s ++ [w]) = if f w then rstrip_by f s else s ++ [w].
Proof.
  intros f s w. unfold rstrip_by. rewrite rev_unit. cbn [lstrip_by]. destruct (f w); [reflexivity|].
  cbn [rev]. rewrite rev_involutive. reflexivity.
Qed.

Lemma norm_lines_split_rstrip : forall sep s,
  norm_lines (split_ch sep (rstrip s)) = norm_lines (split_ch sep s).
Proof.
  intros sep s. unfold rstrip. induction s as [|w s IH] using rev_ind; [reflexivity|].
  rewrite rstrip_by_snoc. destruct (is_space w) eqn:E; [|reflexivity].
  rewrite IH. symmetry. apply norm_lines_split_snoc_space. exact E.
Qed.

Lemma norm_lines_split_strip : forall sep s,
  norm_lines (split_ch sep (strip s)) = norm_lines (split_ch sep s).
Proof.
  intros sep s. unfold strip, strip_by. fold (lstrip s). fold (rstrip (lstrip s)).
  rewrite norm_lines_split_rstrip, norm_lines_split_lstrip. reflexivity.
Qed.

(* single lines *)
Lemma norm_line_lstrip : forall s, norm_line (lstrip s) = norm_line s.
Proof.
  intros s. unfold lstrip. induction s as [|c t IH]; [reflexivity|].
  cbn [lstrip_by]. destruct (is_space c) eqn:E; [|reflexivity]. rewrite IH, norm_line_cons_space by exact E. reflexivity.
Qed.
Lemma norm_line_rstrip : forall s, norm_line (rstrip s) = norm_line s.
Proof.
  intros s. unfold rstrip. induction s as [|w s IH] using rev_ind; [reflexivity|].
  rewrite rstrip_by_snoc. destruct (is_space w) eqn:E; [|reflexivity]. rewrite IH, norm_line_snoc_space by exact E. reflexivity.
Qed.
Lemma norm_line_strip : forall s, norm_line (strip s) = norm_line s.
Proof. intros s. unfold strip, strip_by. fold (lstrip s). fold (rstrip (lstrip s)). rewrite norm_line_rstrip, norm_line_lstrip. reflexivity. Qed.

(* a line is blank (strip gives "") iff it normalises to nothing *)
Lemma words_nil_iff_all_space : forall s, words s = [] <-> forallb is_space s = true.
Proof.
  intros s. unfold words. split.
  - assert (G : forall s cur, words_aux s cur = [] -> cur = [] /\ forallb is_space s = true).
    { clear. induction s as [|c t IH]; intros cur H.
      - cbn in H. destruct cur; [split; reflexivity|discriminate].
      - cbn [words_aux] in H. destruct (is_space c) eqn:E.
        + destruct cur; [|discriminate]. destruct (IH [] H) as [_ Ht]. split; [reflexivity|]. cbn [forallb]. rewrite E, Ht. reflexivity.
        + destruct (IH (c :: cur) H) as [Hc _]. discriminate. }
    intros H. apply (G s [] H).
  - induction s as [|c t IH]; intros H; [reflexivity|].
    cbn [forallb] in H. apply andb_true_iff in H. destruct H as [Hc Ht]. cbn [words_aux]. rewrite Hc. apply IH. exact Ht.
Qed.

(* ---- the same invariance for any per-line normaliser that ignores outer white space (norm_line, strip) ------- *)
Section line_normaliser.
  Variable N : str -> str.
  Hypothesis N_cons : forall w s, is_space w = true -> N (w :: s) = N s.
  Hypothesis N_snoc : forall w s, is_space w = true -> N (s ++ [w]) = N s.
  Hypothesis N_nil : N [] = [].

  Definition nlines (ls : list str) : list str := filter nonempty (map N ls).

  Lemma nlines_cons : forall l ls, nlines (l :: ls) = (if nonempty (N l) then [N l] else []) ++ nlines ls.
  Proof. intros. unfold nlines. cbn [map filter]. destruct (nonempty (N l)); reflexivity. Qed.
  Lemma nlines_app : forall a b, nlines (a ++ b) = nlines a ++ nlines b.
  Proof. intros. unfold nlines. rewrite map_app, filter_app. reflexivity. Qed.

  Lemma nlines_map_last : forall w ls, is_space w = true -> nlines (map_last (fun l => l ++ [w]) ls) = nlines ls.
  Proof.
    intros w ls H. induction ls as [|a ls IH]; [reflexivity|]. destruct ls as [|b ls'].
    - cbn [map_last]. rewrite !nlines_cons, N_snoc by exact H. reflexivity.
    - change (map_last (fun l => l ++ [w]) (a :: b :: ls')) with (a :: map_last (fun l => l ++ [w]) (b :: ls')).
      rewrite (nlines_cons a (map_last (fun l => l ++ [w]) (b :: ls'))), (nlines_cons a (b :: ls')), IH. reflexivity.
  Qed.

  Lemma nlines_split_cons_space : forall sep w s, is_space w = true -> nlines (split_ch sep (w :: s)) = nlines (split_ch sep s).
  Proof.
    intros sep w s H. destruct (Z.eqb_spec w sep) as [->|Hw].
    - rewrite split_ch_cons_sep, nlines_cons, N_nil. reflexivity.
    - rewrite split_ch_cons_other by exact Hw. pose proof (split_ch_nonnil sep s).
      destruct (split_ch sep s) as [|l0 rest]; [congruence|]. rewrite !nlines_cons, N_cons by exact H. reflexivity.
  Qed.
  Lemma nlines_split_snoc_space : forall sep w s, is_space w = true -> nlines (split_ch sep (s ++ [w])) = nlines (split_ch sep s).
  Proof.
    intros sep w s H. destruct (Z.eqb_spec w sep) as [->|Hw].
    - rewrite split_ch_snoc_sep, nlines_app. unfold nlines at 2. cbn [map filter]. rewrite N_nil. cbn. rewrite app_nil_r. reflexivity.
    - rewrite split_ch_snoc_other by exact Hw. apply nlines_map_last. exact H.
  Qed.
  Lemma nlines_split_strip : forall sep s, nlines (split_ch sep (strip s)) = nlines (split_ch sep s).
  Proof.
    intros sep s. unfold strip, strip_by. fold (lstrip s). fold (rstrip (lstrip s)).
    assert (L : forall x, nlines (split_ch sep (lstrip x)) = nlines (split_ch sep x)).
    { unfold lstrip. induction x as [|c t IH]; [reflexivity|]. cbn [lstrip_by]. destruct (is_space c) eqn:E; [|reflexivity].
      rewrite IH. symmetry. apply nlines_split_cons_space. exact E. }
    assert (R : forall x, nlines (split_ch sep (rstrip x)) = nlines (split_ch sep x)).
    { unfold rstrip. induction x as [|w x IH] using rev_ind; [reflexivity|]. rewrite rstrip_by_snoc.
      destruct (is_space w) eqn:E; [|reflexivity]. rewrite IH. symmetry. apply nlines_split_snoc_space. exact E. }
    rewrite R, L. reflexivity.
  Qed.
End line_normaliser.

(* strip is such a normaliser *)
Lemma strip_cons_space : forall w s, is_space w = true -> strip (w :: s) = strip s.
Proof. intros w s H. unfold strip, strip_by. cbn [lstrip_by]. rewrite H. reflexivity. Qed.

Lemma lstrip_by_snoc_space : forall f s w, f w = true ->
  lstrip_by f (s ++ [w]) = match lstrip_by f s with [] => [] | l => l ++ [w] end.
Proof.
  intros f s w H. induction s as [|c s IH].
  - cbn [app lstrip_by]. rewrite H. reflexivity.
  - cbn [app lstrip_by]. destruct (f c); [exact IH|reflexivity].
Qed.

Lemma strip_snoc_space : forall w s, is_space w = true -> strip (s ++ [w]) = strip s.
Proof.
  intros w s H. unfold strip, strip_by. rewrite lstrip_by_snoc_space by exact H.
  destruct (lstrip_by is_space s) as [|c l] eqn:E; [reflexivity|].
  change (rstrip_by is_space ((c :: l) ++ [w])) with (rstrip_by is_space ((c :: l) ++ [w])). rewrite rstrip_by_snoc, H. reflexivity.
Qed.

Lemma trim_lines_nlines : forall ls, trim_lines ls = nlines strip ls.
Proof. reflexivity. Qed.

Lemma trim_lines_split_strip : forall sep s, trim_lines (split_ch sep (strip s)) = trim_lines (split_ch sep s).
Proof. intros. rewrite !trim_lines_nlines. apply (nlines_split_strip strip strip_cons_space strip_snoc_space eq_refl). Qed.
