(* Proofs for C01 at abstract-tree level: DFXP documents (several <div>, language resolution, paragraphs
   with and without text, attribute dictionaries) and SAMI documents (several languages over one list of
   <sync>) are read to exactly the captions they denote. *)
From Coq Require Import List ZArith QArith Lia Bool ZifyBool.
From PV Require Import lib.Sx lib.Str lib.Result lib.Dec.
From PV Require Import model.Langs model.TimeRead model.TimeTree spec.SpecTime spec.SpecTimeTree.
From PV Require Import proofs.TimeStrFacts proofs.TimeReadFacts.
Import ListNotations.
Open Scope Z_scope.

(* ---- attribute dictionaries ---------------------------------------------------------------------- *)
Definition aget_step (name : str) (acc : option str) (nv : str * str) : option str :=
  if str_eqb (fst nv) name then Some (snd nv) else acc.

Lemma attr_get_fold : forall name l acc,
  fold_left (aget_step name) l acc = match fold_left (aget_step name) l None with Some v => Some v | None => acc end.
Proof.
  intros name. induction l as [|nv l IH]; intros acc; [reflexivity|].
  cbn [fold_left]. rewrite IH. rewrite (IH (aget_step name None nv)).
  destruct (fold_left (aget_step name) l None); [reflexivity|].
  unfold aget_step. destruct (str_eqb (fst nv) name); reflexivity.
Qed.

Lemma attr_get_app : forall name a b,
  attr_get name (a ++ b) = match attr_get name b with Some v => Some v | None => attr_get name a end.
Proof.
  intros name a b. unfold attr_get. change (fun acc nv => if str_eqb (fst nv) name then Some (snd nv) else acc) with (aget_step name).
  rewrite fold_left_app. apply attr_get_fold.
Qed.

Lemma attr_get_free : forall name a, is_time_name name = true -> time_free a = true -> attr_get name a = None.
Proof.
  intros name a Hn. unfold attr_get. change (fun acc nv => if str_eqb (fst nv) name then Some (snd nv) else acc) with (aget_step name).
  induction a as [|nv a IH]; intros H; [reflexivity|].
  cbn [time_free forallb] in H. apply andb_true_iff in H. destruct H as [H1 H2].
  cbn [fold_left]. rewrite attr_get_fold. rewrite (IH H2).
  unfold aget_step. destruct (str_eqb (fst nv) name) eqn:E; [|reflexivity].
  apply str_eqb_eq in E. rewrite E in H1. rewrite Hn in H1. discriminate.
Qed.

Lemma xp_times_render : forall ex t, time_free ex = true ->
  xp_times (ap_render (APText ex t)) = dfxp_p_attrs t.
Proof.
  intros ex t H. unfold xp_times, ap_render, dfxp_p_attrs, time_attrs. cbn [xp_attrs].
  rewrite !attr_get_app.
  rewrite !(attr_get_free _ ex) by (first [reflexivity|exact H]).
  destruct (p_is_dur t); reflexivity.
Qed.

(* one <div>: the paragraphs with text, in order; the others are not even looked at *)
Lemma dfxp_div_caps_exact : forall ps, forallb ap_dom ps = true ->
  dfxp_div_caps (map ap_render ps) = Ok (ap_expected ps).
Proof.
  intros ps H. unfold dfxp_div_caps.
  assert (E : map xp_times (filter xp_text (map ap_render ps))
              = map dfxp_p_attrs (flat_map (fun p => match p with APText _ t => [t] | APBlank _ => [] end) ps)).
  { induction ps as [|p ps IH]; [reflexivity|].
    cbn [forallb] in H. apply andb_true_iff in H. destruct H as [Hp Hps].
    destruct p as [ex t|a]; cbn [map ap_render filter xp_text flat_map app].
    - cbn [ap_dom] in Hp. apply andb_true_iff in Hp. destruct Hp as [Hf _].
      change (mkXp (ex ++ time_attrs t) true) with (ap_render (APText ex t)).
      rewrite (xp_times_render ex t Hf). rewrite (IH Hps). reflexivity.
    - apply IH. exact Hps. }
  rewrite E. rewrite dfxp_div_exact.
  - f_equal. unfold ap_expected. clear. induction ps as [|p ps IH]; [reflexivity|].
    destruct p; cbn [flat_map map app]; rewrite IH; reflexivity.
  - apply forallb_forall. intros t Ht. apply in_flat_map in Ht. destruct Ht as [p [Hp Hin]].
    rewrite forallb_forall in H. specialize (H p Hp). destruct p as [ex t'|a]; [|destruct Hin].
    destruct Hin as [<-|[]]. cbn [ap_dom] in H. apply andb_true_iff in H. tauto.
Qed.

(* a paragraph without text never matters, whatever its attributes *)
Lemma dfxp_blank_ignored : forall a ps, dfxp_div_caps (mkXp a false :: ps) = dfxp_div_caps ps.
Proof. reflexivity. Qed.

(* ---- dictionaries with distinct keys -------------------------------------------------------------- *)
Lemma dict_set_fresh : forall (V : Type) k (v : V) d,
  forallb (fun kv => negb (str_eqb (fst kv) k)) d = true -> dict_set k v d = d ++ [(k, v)].
Proof.
  intros V k v. induction d as [|[k' v'] d IH]; intros H; [reflexivity|].
  cbn [forallb fst] in H. apply andb_true_iff in H. destruct H as [H1 H2].
  cbn [dict_set]. destruct (str_eqb k' k); [discriminate|]. rewrite (IH H2). reflexivity.
Qed.

Lemma distinct_app_fresh : forall a k b, distinct (a ++ k :: b) = true ->
  forallb (fun x => negb (str_eqb x k)) a = true /\ distinct ((a ++ [k]) ++ b) = true.
Proof.
  intros a k b H. split.
  - induction a as [|x a IH]; [reflexivity|].
    cbn [app distinct] in H. apply andb_true_iff in H. destruct H as [H1 H2].
    cbn [forallb]. rewrite (IH H2). rewrite andb_true_r.
    rewrite existsb_app in H1. cbn [existsb] in H1.
    destruct (str_eqb x k); [|reflexivity]. rewrite orb_true_r in H1. discriminate.
  - rewrite <- app_assoc. exact H.
Qed.

Lemma as_dict_distinct_gen : forall (V : Type) (l acc : list (str * V)),
  distinct (map fst acc ++ map fst l) = true ->
  fold_left (fun d kv => dict_set (fst kv) (snd kv) d) l acc = acc ++ l.
Proof.
  intros V. induction l as [|[k v] l IH]; intros acc H; [rewrite app_nil_r; reflexivity|].
  cbn [map fst] in H. destruct (distinct_app_fresh _ _ _ H) as [F D].
  cbn [fold_left fst snd]. rewrite dict_set_fresh.
  - rewrite IH; [rewrite <- app_assoc; reflexivity|]. rewrite map_app. exact D.
  - rewrite forallb_forall in *. intros kv Hin. apply F. apply in_map. exact Hin.
Qed.

Lemma as_dict_distinct : forall (V : Type) (l : list (str * V)), distinct (map fst l) = true -> as_dict l = l.
Proof. intros V l H. unfold as_dict. rewrite as_dict_distinct_gen; [reflexivity|exact H]. Qed.

(* ---- whole DFXP documents: several divisions of one language, nested divisions ------------------------ *)
Lemma chain_lang_nearest : forall default tt ch, chain_lang default tt ch = nearest_lang default tt ch.
Proof. induction ch as [|[l|] t IH]; cbn [chain_lang nearest_lang]; [reflexivity|reflexivity|exact IH]. Qed.

Lemma first_seen_gen : forall ls acc,
  fold_left (fun acc l => if existsb (str_eqb l) acc then acc else acc ++ [l]) ls acc
  = acc ++ languages_in_order acc ls.
Proof.
  induction ls as [|l t IH]; intros acc; cbn [fold_left languages_in_order]; [rewrite app_nil_r; reflexivity|].
  destruct (existsb (str_eqb l) acc); rewrite IH; [reflexivity|]. rewrite <- app_assoc. reflexivity.
Qed.

Lemma first_seen_spec : forall ls, first_seen ls = languages_in_order [] ls.
Proof. intros. unfold first_seen. rewrite first_seen_gen. reflexivity. Qed.

Lemma str_eqb_sym : forall a b, str_eqb a b = str_eqb b a.
Proof.
  induction a as [|x a IH]; intros [|y b]; cbn [str_eqb]; try reflexivity.
  rewrite IH, Z.eqb_sym. reflexivity.
Qed.

Definition select_lang {A} (k : str) (caps : list (option (str * A))) : list A :=
  flat_map (fun o => match o with Some (l, c) => if str_eqb k l then [c] else [] | None => [] end) caps.

Lemma dict_push_fold : forall (A : Type) (caps : list (option (str * A))) (d : list (str * list A)),
  fold_left (fun d o => match o with Some (l, c) => dict_push l c d | None => d end) caps d
  = map (fun kv => (fst kv, snd kv ++ select_lang (fst kv) caps)) d.
Proof.
  intros A. induction caps as [|o caps IH]; intros d.
  - cbn [fold_left]. rewrite <- (map_id d) at 1. apply map_ext. intros [k v]. cbn [fst snd select_lang flat_map].
    rewrite app_nil_r. reflexivity.
  - cbn [fold_left]. rewrite IH. destruct o as [[l c]|].
    + unfold dict_push. rewrite map_map. apply map_ext. intros [k v]. cbn [fst snd].
      cbn [select_lang flat_map]. destruct (str_eqb k l); cbn [fst snd app].
      * rewrite <- app_assoc. reflexivity.
      * reflexivity.
    + apply map_ext. intros [k v]. reflexivity.
Qed.

Theorem dfxp_doc_exact : forall default tt divs ps, doc_dom divs ps = true ->
  dfxp_read_doc default tt divs (map (fun cp => (fst cp, ap_render (snd cp))) ps)
  = set_result (doc_expected default tt divs ps).
Proof.
  intros default tt divs ps H. unfold dfxp_read_doc.
  set (g := fun cp : option (list (option str)) * ap =>
              match fst cp, snd cp with
              | Some ch, APText _ t => Some (chain_lang default tt ch, dfxp_p_expected t)
              | _, _ => None
              end).
  assert (R : res_map (fun cp : option lang_chain * xp =>
                         match fst cp with
                         | Some ch =>
                             if xp_text (snd cp)
                             then do c <- (let '(b, e, d) := xp_times (snd cp) in dfxp_p_times b e d);
                                  Ok (Some (chain_lang default tt ch, c))
                             else Ok None
                         | None => Ok None
                         end) (map (fun cp => (fst cp, ap_render (snd cp))) ps)
              = Ok (map g ps)).
  { unfold doc_dom in H. clear -H. induction ps as [|[och p] ps IH]; [reflexivity|].
    cbn [forallb] in H. apply andb_true_iff in H. destruct H as [Hp Hps].
    apply andb_true_iff in Hp. destruct Hp as [Hd _]. cbn [snd] in Hd.
    cbn [map res_map fst snd]. unfold g at 1. cbn [fst snd].
    destruct och as [ch|]; [|cbn [bind]; rewrite (IH Hps); reflexivity].
    destruct p as [ex t|a]; cbn [ap_render xp_text].
    - cbn [ap_dom] in Hd. apply andb_true_iff in Hd. destruct Hd as [Hf Ht].
      change (mkXp (ex ++ time_attrs t) true) with (ap_render (APText ex t)).
      rewrite (xp_times_render ex t Hf). rewrite (dfxp_p_exact t Ht). cbn [bind]. rewrite (IH Hps). reflexivity.
    - cbn [bind]. rewrite (IH Hps). reflexivity. }
  rewrite R. cbn [bind]. rewrite dict_push_fold. rewrite map_map. cbn [fst snd app].
  rewrite first_seen_spec.
  assert (E : map (fun x : str => (x, select_lang x (map g ps)))
                  (languages_in_order [] (map (chain_lang default tt) divs))
              = doc_expected default tt divs ps).
  { unfold doc_expected, doc_expected_with.
    assert (M : map (chain_lang default tt) divs = map (nearest_lang default tt) divs)
      by (apply map_ext; intros; apply chain_lang_nearest).
    rewrite M. apply map_ext. intros l. f_equal.
    unfold select_lang. clear. induction ps as [|[och p] ps IH]; [reflexivity|].
    cbn [map flat_map fst snd]. rewrite IH. f_equal. unfold g. cbn [fst snd].
    destruct och as [ch|]; [|reflexivity]. destruct p as [ex t|a]; [|reflexivity].
    rewrite chain_lang_nearest. rewrite (str_eqb_sym l). reflexivity. }
  rewrite E. reflexivity.
Qed.

(* the reader refuses a paragraph with text that lacks a begin, or lacks both end and dur *)
Lemma dfxp_missing_times_refused : forall b e d,
  dfxp_p_times None e d = Err ETiming /\ dfxp_p_times (Some []) e d = Err ETiming /\
  dfxp_p_times (Some b) None None = Err ETiming.
Proof.
  intros b e d. repeat split; try reflexivity. unfold dfxp_p_times. destruct (truthy (Some b)); reflexivity.
Qed.

(* ---- whole SAMI trees ---------------------------------------------------------------------------------- *)
Lemma sami_select_render : forall lg body,
  sami_select lg (map async_render body)
  = map (fun p => (Some (sami_render_start p), sp_text p)) (sami_proj lg body).
Proof.
  intros lg body. unfold sami_select, sami_proj. induction body as [|[[k ms] ps] body IH]; [reflexivity|].
  cbn [map flat_map]. rewrite map_app, IH. f_equal.
  unfold async_render. cbn [fst snd]. rewrite map_map.
  apply map_ext. intros p. reflexivity.
Qed.

Theorem sami_tree_exact : forall langs body, sami_tree_dom langs body = true ->
  sami_read_tree langs (map async_render body) = set_result (sami_tree_expected langs body).
Proof.
  intros langs body H. unfold sami_tree_dom in H. apply andb_true_iff in H. destruct H as [Hd Hl].
  unfold sami_read_tree.
  assert (R : res_map (fun lg => do caps <- sami_translate_str (sami_select lg (map async_render body)); Ok (lg, caps)) langs
              = Ok (sami_tree_expected langs body)).
  { unfold sami_tree_expected. clear Hd. induction langs as [|lg langs IH]; [reflexivity|].
    cbn [forallb] in Hl. apply andb_true_iff in Hl. destruct Hl as [H1 H2].
    cbn [map res_map]. rewrite sami_select_render.
    unfold sami_abs_of in H1. rewrite (sami_translate_str_exact (sami_proj lg body) H1). cbn [bind].
    rewrite (IH H2). reflexivity. }
  rewrite R. cbn [bind]. rewrite as_dict_distinct.
  - reflexivity.
  - unfold sami_tree_expected. rewrite map_map. cbn [fst]. rewrite map_id. exact Hd.
Qed.
