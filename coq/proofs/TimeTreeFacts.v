(* Proofs for C01 at abstract-tree level: DFXP documents (several <div>, language resolution, paragraphs
   with and without text, attribute dictionaries) and SAMI documents (several languages over one list of
   <sync>) are read to exactly the captions they denote. *)
From Coq Require Import List ZArith QArith Lia Bool ZifyBool.
From PV Require Import lib.Sx lib.Str lib.Result lib.Dec.
From PV Require Import model.Langs model.TimeRead model.TimeTree spec.SpecTime spec.SpecTimeTree.
From PV Require Import proofs.TimeStrFacts proofs.TimeReadFacts.
Import ListNotations.
Open Scope Z_scope.

(* ---- attribute dictionaries ---------------------------------------------------------------------- *)
Definition aget_step (name : str) (acc : option str) (nv : str * str) : option str :=
  if str_eqb (fst nv) name then Some (snd nv) else acc.

Lemma attr_get_fold : forall name l acc,
  fold_left (aget_step name) l acc = match fold_left (aget_step name) l None with Some v => Some v | None => acc end.
Proof.
  intros name. induction l as [|nv l IH]; intros acc; [reflexivity|].
  cbn [fold_left]. rewrite IH. rewrite (IH (aget_step name None nv)).
  destruct (fold_left (aget_step name) l None); [reflexivity|].
  unfold aget_step. destruct (str_eqb (fst nv) name); reflexivity.
Qed.

Lemma attr_get_app : forall name a b,
  attr_get name (a ++ b) = match attr_get name b with Some v => Some v | None => attr_get name a end.
Proof.
  intros name a b. unfold attr_get. change (fun acc nv => if str_eqb (fst nv) name then Some (snd nv) else acc) with (aget_step name).
  rewrite fold_left_app. apply attr_get_fold.
Qed.

Lemma attr_get_free : forall name a, is_time_name name = true -> time_free a = true -> attr_get name a = None.
Proof.
  intros name a Hn. unfold attr_get. change (fun acc nv => if str_eqb (fst nv) name then Some (snd nv) else acc) with (aget_step name).
  induction a as [|nv a IH]; intros H; [reflexivity|].
  cbn [time_free forallb] in H. apply andb_true_iff in H. destruct H as [H1 H2].
  cbn [fold_left]. rewrite attr_get_fold. rewrite (IH H2).
  unfold aget_step. destruct (str_eqb (fst nv) name) eqn:E; [|reflexivity].
  apply str_eqb_eq in E. rewrite E in H1. rewrite Hn in H1. discriminate.
Qed.

Lemma xp_times_render : forall ex t, time_free ex = true ->
  xp_times (ap_render (APText ex t)) = dfxp_p_attrs t.
Proof.
  intros ex t H. unfold xp_times, ap_render, dfxp_p_attrs, time_attrs. cbn [xp_attrs].
  rewrite !attr_get_app.
  rewrite !(attr_get_free _ ex) by (first [reflexivity|exact H]).
  destruct (p_is_dur t); reflexivity.
Qed.

(* one <div>: the paragraphs with text, in order; the others are not even looked at *)
Lemma dfxp_div_caps_exact : forall ps, forallb ap_dom ps = true ->
  dfxp_div_caps (map ap_render ps) = Ok (ap_expected ps).
Proof.
  intros ps H. unfold dfxp_div_caps.
  assert (E : map xp_times (filter xp_text (map ap_render ps))
              = map dfxp_p_attrs (flat_map (fun p => match p with APText _ t => [t] | APBlank _ => [] end) ps)).
  { induction ps as [|p ps IH]; [reflexivity|].
    cbn [forallb] in H. apply andb_true_iff in H. destruct H as [Hp Hps].
    destruct p as [ex t|a]; cbn [map ap_render filter xp_text flat_map app].
    - cbn [ap_dom] in Hp. apply andb_true_iff in Hp. destruct Hp as [Hf _].
      change (mkXp (ex ++ time_attrs t) true) with (ap_render (APText ex t)).
      rewrite (xp_times_render ex t Hf). rewrite (IH Hps). reflexivity.
    - apply IH. exact Hps. }
  rewrite E. rewrite dfxp_div_exact.
  - f_equal. unfold ap_expected. clear. induction ps as [|p ps IH]; [reflexivity|].
    destruct p; cbn [flat_map map app]; rewrite IH; reflexivity.
  - apply forallb_forall. intros t Ht. apply in_flat_map in Ht. destruct Ht as [p [Hp Hin]].
    rewrite forallb_forall in H. specialize (H p Hp). destruct p as [ex t'|a]; [|destruct Hin].
    destruct Hin as [<-|[]]. cbn [ap_dom] in H. apply andb_true_iff in H. tauto.
Qed.

(* a paragraph without text never matters, whatever its attributes *)
Lemma dfxp_blank_ignored : forall a ps, dfxp_div_caps (mkXp a false :: ps) = dfxp_div_caps ps.
Proof. reflexivity. Qed.

(* ---- dictionaries with distinct keys -------------------------------------------------------------- *)
Lemma dict_set_fresh : forall (V : Type) k (v : V) d,
  forallb (fun kv => negb (str_eqb (fst kv) k)) d = true -> dict_set k v d = d ++ [(k, v)].
Proof.
  intros V k v. induction d as [|[k' v'] d IH]; intros H; [reflexivity|].
  cbn [forallb fst] in H. apply andb_true_iff in H. destruct H as [H1 H2].
  cbn [dict_set]. destruct (str_eqb k' k); [discriminate|]. rewrite (IH H2). reflexivity.
Qed.

Lemma distinct_app_fresh : forall a k b, distinct (a ++ k :: b) = true ->
  forallb (fun x => negb (str_eqb x k)) a = true /\ distinct ((a ++ [k]) ++ b) = true.
Proof.
  intros a k b H. split.
  - induction a as [|x a IH]; [reflexivity|].
    cbn [app distinct] in H. apply andb_true_iff in H. destruct H as [H1 H2].
    cbn [forallb]. rewrite (IH H2). rewrite andb_true_r.
    rewrite existsb_app in H1. cbn [existsb] in H1.
    destruct (str_eqb x k); [|reflexivity]. rewrite orb_true_r in H1. discriminate.
  - rewrite <- app_assoc. exact H.
Qed.

Lemma as_dict_distinct_gen : forall (V : Type) (l acc : list (str * V)),
  distinct (map fst acc ++ map fst l) = true ->
  fold_left (fun d kv => dict_set (fst kv) (snd kv) d) l acc = acc ++ l.
Proof.
  intros V. induction l as [|[k v] l IH]; intros acc H; [rewrite app_nil_r; reflexivity|].
  cbn [map fst] in H. destruct (distinct_app_fresh _ _ _ H) as [F D].
  cbn [fold_left fst snd]. rewrite dict_set_fresh.
  - rewrite IH; [rewrite <- app_assoc; reflexivity|]. rewrite map_app. exact D.
  - rewrite forallb_forall in *. intros kv Hin. apply F. apply in_map. exact Hin.
Qed.

Lemma as_dict_distinct : forall (V : Type) (l : list (str * V)), distinct (map fst l) = true -> as_dict l = l.
Proof. intros V l H. unfold as_dict. rewrite as_dict_distinct_gen; [reflexivity|exact H]. Qed.

(* ---- whole DFXP trees -------------------------------------------------------------------------------- *)
Lemma lang_of_div_lang : forall default tt own, div_lang own tt default = lang_of default tt own.
Proof. reflexivity. Qed.

Theorem dfxp_tree_exact : forall default tt divs, tree_dom default tt divs = true ->
  dfxp_read_tree default tt (map (fun dv => (fst dv, map ap_render (snd dv))) divs)
  = set_result (tree_expected default tt divs).
Proof.
  intros default tt divs H. unfold tree_dom in H. apply andb_true_iff in H. destruct H as [Hd Hp].
  unfold dfxp_read_tree.
  assert (R : res_map (fun dv : option str * list xp =>
                         do caps <- dfxp_div_caps (snd dv); Ok (div_lang (fst dv) tt default, caps))
                      (map (fun dv => (fst dv, map ap_render (snd dv))) divs)
              = Ok (tree_expected default tt divs)).
  { unfold tree_expected. clear Hd. induction divs as [|dv divs IH]; [reflexivity|].
    cbn [forallb] in Hp. apply andb_true_iff in Hp. destruct Hp as [H1 H2].
    cbn [map res_map fst snd]. rewrite dfxp_div_caps_exact by exact H1. cbn [bind].
    rewrite (IH H2). reflexivity. }
  rewrite R. cbn [bind]. rewrite as_dict_distinct.
  - reflexivity.
  - unfold tree_expected. rewrite map_map. cbn [fst]. exact Hd.
Qed.

(* the reader refuses a paragraph with text that lacks a begin, or lacks both end and dur *)
Lemma dfxp_missing_times_refused : forall b e d,
  dfxp_p_times None e d = Err ETiming /\ dfxp_p_times (Some []) e d = Err ETiming /\
  dfxp_p_times (Some b) None None = Err ETiming.
Proof.
  intros b e d. repeat split; try reflexivity. unfold dfxp_p_times. destruct (truthy (Some b)); reflexivity.
Qed.

(* ---- whole SAMI trees ---------------------------------------------------------------------------------- *)
Lemma sami_select_render : forall lg body,
  sami_select lg (map async_render body)
  = map (fun p => (Some (sami_render_start p), sp_text p)) (sami_proj lg body).
Proof.
  intros lg body. unfold sami_select, sami_proj. induction body as [|[[k ms] ps] body IH]; [reflexivity|].
  cbn [map flat_map]. rewrite map_app, IH. f_equal.
  unfold async_render. cbn [fst snd]. rewrite map_map.
  apply map_ext. intros p. reflexivity.
Qed.

Theorem sami_tree_exact : forall langs body, sami_tree_dom langs body = true ->
  sami_read_tree langs (map async_render body) = set_result (sami_tree_expected langs body).
Proof.
  intros langs body H. unfold sami_tree_dom in H. apply andb_true_iff in H. destruct H as [Hd Hl].
  unfold sami_read_tree.
  assert (R : res_map (fun lg => do caps <- sami_translate_str (sami_select lg (map async_render body)); Ok (lg, caps)) langs
              = Ok (sami_tree_expected langs body)).
  { unfold sami_tree_expected. clear Hd. induction langs as [|lg langs IH]; [reflexivity|].
    cbn [forallb] in Hl. apply andb_true_iff in Hl. destruct Hl as [H1 H2].
    cbn [map res_map]. rewrite sami_select_render.
    unfold sami_abs_of in H1. rewrite (sami_translate_str_exact (sami_proj lg body) H1). cbn [bind].
    rewrite (IH H2). reflexivity. }
  rewrite R. cbn [bind]. rewrite as_dict_distinct.
  - reflexivity.
  - unfold sami_tree_expected. rewrite map_map. cbn [fst]. rewrite map_id. exact Hd.
Qed.
