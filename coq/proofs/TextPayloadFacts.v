(* C03 / C11, payload level: the <p> payload assembled by DFXPWriter / SinglePositioningDFXPWriter /
   LegacyDFXPWriter (_recreate_text, _recreate_span, _encode, with their rstrip's and literal white space) is read by
   the strict XML content parser as exactly the token list of an abstract, string-free writer.
   Method: a simulation.  Rel L a relates the line string L built so far to an abstract state a (pending text and
   tokens) through the tokenizer: running the tokenizer over L ends in character-data mode with exactly a's
   pending text and tokens.  Every writer action (escaped text, literal white space, rstrip, markup) preserves it. *)
From Coq Require Import List ZArith Bool Lia ZifyBool.
From PV Require Import lib.Sx lib.Str model.TextNodes model.TextWrite spec.SpecTextXml.
From PV Require Import proofs.TextStrFacts proofs.TextLinesFacts proofs.TextXmlFacts proofs.TextBlocksFacts.
Import ListNotations.
Open Scope Z_scope.

Definition no13 (s : str) : bool := forallb (fun c => negb (c =? 13)) s.

(* ---- the tokenizer never sets its CR flag on CR-free input ---------------------------------------------- *)
Definition cr_clear (st : tstate) : Prop :=
  match ts_mode st with MText _ cr => cr = false | _ => True end.

Lemma tstep_cr_clear : forall st c st', tstep st c = Some st' -> c <> 13 -> cr_clear st'.
Proof.
  intros [m cur out] c st' H Hc. unfold tstep, tstep_gen in H. cbn [ts_mode ts_cur ts_out] in H.
  destruct m as [nbr cr|acc|acc q].
  - destruct (c =? 60); [injection H as <-; exact I|]. destruct (c =? 38); [injection H as <-; exact I|].
    destruct (negb (xml_char c)); [discriminate|]. destruct ((c =? 62) && (2 <=? nbr)%nat && negb false); [discriminate|].
    destruct (Z.eqb_spec c 13); [congruence|]. destruct ((c =? 10) && cr); injection H as <-; reflexivity.
  - destruct (c =? 59).
    + destruct (ref_value (rev acc)); [injection H as <-; reflexivity|discriminate].
    + destruct (name_char c || (c =? 35)); [injection H as <-; exact I|discriminate].
  - destruct (q =? 0).
    + destruct (c =? 62); [destruct (parse_tag (rev acc)); [injection H as <-; reflexivity|discriminate]|].
      destruct (c =? 60); [discriminate|]. destruct ((c =? 34) || (c =? 39)); injection H as <-; exact I.
    + destruct (c =? q); [injection H as <-; exact I|]. destruct (c =? 60); [discriminate|]. injection H as <-; exact I.
Qed.

Lemma trun_cr_clear : forall s st st', trun st s = Some st' -> no13 s = true -> cr_clear st -> cr_clear st'.
Proof.
  induction s as [|c s IH]; intros st st' H Hn Hc.
  - injection H as <-. exact Hc.
  - cbn [no13 forallb] in Hn. apply andb_true_iff in Hn. destruct Hn as [Hc13 Hs].
    cbn [trun] in H. destruct (tstep st c) as [st1|] eqn:E; [|discriminate].
    apply (IH st1 st' H Hs). apply (tstep_cr_clear st c st1 E). intros ->. discriminate.
Qed.

(* ---- white space cannot leave tag or reference mode, and is plain character data otherwise ------------------- *)
Lemma space_facts : forall w, is_space w = true ->
  (w =? 60) = false /\ (w =? 38) = false /\ (w =? 62) = false /\ (w =? 59) = false /\ (w =? 35) = false /\
  name_char w = false /\ (w =? 34) = false /\ (w =? 39) = false.
Proof.
  intros w H. unfold is_space in H. unfold name_char, name_start, SpecTextXml.ascii_letter, is_digit.
  repeat split; lia.
Qed.

Lemma tstep_back : forall st1 w n cur out,
  tstep st1 w = Some (mkT (MText n false) cur out) -> is_space w = true -> w <> 13 -> cr_clear st1 ->
  exists n1 cur1, st1 = mkT (MText n1 false) cur1 out /\ cur = w :: cur1.
Proof.
  intros [m c1 o1] w n cur out H Hw H13 Hcr.
  destruct (space_facts w Hw) as (H60 & H38 & H62 & H59 & H35 & Hnc & H34 & H39).
  unfold tstep, tstep_gen in H. cbn [ts_mode ts_cur ts_out] in H. destruct m as [nbr cr|acc|acc q].
  - unfold cr_clear in Hcr. cbn [ts_mode] in Hcr. subst cr.
    rewrite H60, H38 in H. destruct (negb (xml_char w)); [discriminate|].
    rewrite H62 in H. cbn [andb] in H. destruct (Z.eqb_spec w 13); [congruence|]. rewrite andb_false_r in H.
    injection H as _ <- <-. exists nbr, c1. split; reflexivity.
  - rewrite H59, Hnc, H35 in H. discriminate.
  - destruct (q =? 0).
    + rewrite H62, H60, H34, H39 in H. discriminate.
    + destruct (w =? q); [discriminate|]. rewrite H60 in H. discriminate.
Qed.

Lemma trun_snoc : forall st a c, trun st (a ++ [c]) = match trun st a with Some st' => tstep st' c | None => None end.
Proof.
  intros st a c. rewrite trun_app. destruct (trun st a) as [st'|]; [|reflexivity]. cbn [trun]. destruct (tstep st' c); reflexivity.
Qed.

(* trailing white space of the input is exactly the head of the pending text *)
Lemma trun_back : forall ws A st0 n cur out, forallb is_space ws = true -> no13 (A ++ ws) = true -> cr_clear st0 ->
  trun st0 (A ++ ws) = Some (mkT (MText n false) cur out) ->
  exists n1 cur1, trun st0 A = Some (mkT (MText n1 false) cur1 out) /\ cur = rev ws ++ cur1.
Proof.
  induction ws as [|w ws IH] using rev_ind; intros A st0 n cur out Hs Hn Hc H.
  - rewrite app_nil_r in H. exists n, cur. split; [exact H|reflexivity].
  - rewrite forallb_app in Hs. apply andb_true_iff in Hs. destruct Hs as [Hws Hw]. cbn [forallb] in Hw. rewrite andb_true_r in Hw.
    rewrite app_assoc in H, Hn. rewrite trun_snoc in H.
    unfold no13 in Hn. rewrite forallb_app in Hn. apply andb_true_iff in Hn. destruct Hn as [Hn1 Hn2].
    cbn [forallb] in Hn2. rewrite andb_true_r in Hn2.
    destruct (trun st0 (A ++ ws)) as [st1|] eqn:E; [|discriminate].
    assert (Hc1 : cr_clear st1) by (apply (trun_cr_clear _ _ _ E Hn1 Hc)).
    destruct (tstep_back st1 w n cur out H Hw) as (n1 & cur1 & -> & ->); [intros ->; discriminate|exact Hc1|].
    destruct (IH A st0 n1 cur1 out Hws Hn1 Hc E) as (n2 & cur2 & HA & ->).
    exists n2, cur2. split; [exact HA|]. rewrite rev_unit. reflexivity.
Qed.

(* ---- the simulation relation ---------------------------------------------------------------------------------- *)
Record ast := mkA { a_cur : str; a_out : list xtok }.      (* pending text and tokens, both reversed *)

Definition Rel (L : str) (a : ast) : Prop :=
  (exists nbr, trun t_init L = Some (mkT (MText nbr false) (a_cur a) (a_out a))) /\ no13 L = true /\
  take_while is_space (a_cur a) = take_while is_space (rev L).

Lemma Rel_init : Rel [] (mkA [] []).
Proof. split; [exists 0%nat; reflexivity|split; reflexivity]. Qed.

Lemma take_while_app_all : forall f (a b : str), forallb f a = true -> take_while f (a ++ b) = a ++ take_while f b.
Proof.
  intros f a b. induction a as [|c a IH]; intros H; [reflexivity|]. cbn [forallb] in H. apply andb_true_iff in H.
  destruct H as [Hc Ha]. cbn [app take_while]. rewrite Hc, (IH Ha). reflexivity.
Qed.

(* escaped text *)
Lemma xesc1_last_nonspace : forall c, is_space c = false -> exists p x, rev (xesc1 c) = x :: p /\ is_space x = false.
Proof.
  intros c H. unfold xesc1. destruct (c =? 38); [eexists; eexists; split; reflexivity|].
  destruct (c =? 62); [eexists; eexists; split; reflexivity|]. destruct (c =? 60); [eexists; eexists; split; reflexivity|].
  exists [], c. split; [reflexivity|exact H].
Qed.

Lemma tw_rev_xesc : forall s X Y, take_while is_space X = take_while is_space Y ->
  take_while is_space (rev s ++ X) = take_while is_space (rev (xesc s) ++ Y).
Proof.
  induction s as [|c s IH] using rev_ind; intros X Y H; [exact H|].
  unfold xesc. rewrite flat_map_app. cbn [flat_map]. rewrite app_nil_r. fold (xesc s).
  rewrite !rev_app_distr. cbn [rev app]. destruct (is_space c) eqn:E.
  - assert (Hx : xesc1 c = [c]).
    { destruct (space_facts c E) as (H60 & H38 & H62 & _). unfold xesc1. rewrite H38, H62, H60. reflexivity. }
    rewrite Hx. cbn [rev app take_while]. rewrite E. f_equal. apply IH. exact H.
  - cbn [take_while]. rewrite E. destruct (xesc1_last_nonspace c E) as (p & x & -> & Hx).
    cbn [app take_while]. rewrite Hx. reflexivity.
Qed.

Lemma no13_xesc : forall s, forallb xml_text_char s = true -> no13 (xesc s) = true.
Proof.
  induction s as [|c s IH]; intros H; [reflexivity|]. cbn [forallb] in H. apply andb_true_iff in H. destruct H as [Hc Hs].
  pose proof (IH Hs) as Q. unfold no13 in Q |- *. unfold xesc in Q |- *. cbn [flat_map]. rewrite forallb_app, Q, andb_true_r.
  unfold xesc1. destruct (c =? 38); [reflexivity|]. destruct (c =? 62); [reflexivity|]. destruct (c =? 60); [reflexivity|].
  unfold xml_text_char in Hc. apply andb_true_iff in Hc. destruct Hc as [_ Hc]. cbn [forallb]. rewrite Hc. reflexivity.
Qed.

Lemma Rel_text : forall L a s, Rel L a -> forallb xml_text_char s = true ->
  Rel (L ++ xml_escape s) (mkA (rev s ++ a_cur a) (a_out a)).
Proof.
  intros L [cur out] s ([nbr Ht] & Hn & Hi) Hs. cbn [a_cur a_out] in *. rewrite xml_escape_flat. split; [|split].
  - rewrite trun_app, Ht. destruct (trun_xesc s nbr cur out Hs) as [n' ->]. exists n'. reflexivity.
  - unfold no13 in *. rewrite forallb_app, Hn. apply no13_xesc. exact Hs.
  - cbn [a_cur]. rewrite rev_app_distr. apply tw_rev_xesc. exact Hi.
Qed.

(* literal white space written by the writer (spaces and line feeds) *)
Definition lit_space (c : Z) : bool := (c =? 32) || (c =? 10).

Lemma Rel_lit_gen : forall ws L cur out, Rel L (mkA cur out) -> forallb lit_space ws = true ->
  Rel (L ++ ws) (mkA (rev ws ++ cur) out).
Proof.
  induction ws as [|w ws IH]; intros L cur out HR Hw.
  - rewrite app_nil_r. exact HR.
  - cbn [forallb] in Hw. apply andb_true_iff in Hw. destruct Hw as [Hw Hws].
    replace (L ++ w :: ws) with ((L ++ [w]) ++ ws) by (rewrite <- app_assoc; reflexivity).
    replace (rev (w :: ws) ++ cur) with (rev ws ++ w :: cur) by (cbn [rev]; rewrite <- app_assoc; reflexivity).
    apply IH; [|exact Hws].
    destruct HR as ([nbr Ht] & Hn & Hi). cbn [a_cur a_out] in *.
    assert (Hsp : is_space w = true) by (unfold lit_space in Hw; unfold is_space; lia).
    assert (Hx : xml_text_char w = true) by (unfold lit_space in Hw; unfold xml_text_char, xml_char; lia).
    split; [|split]; cbn [a_cur a_out].
    + rewrite trun_snoc, Ht. rewrite tstep_text_char; [eexists; reflexivity|exact Hx| | |]; unfold lit_space in Hw; lia.
    + unfold no13 in *. rewrite forallb_app, Hn. cbn [forallb]. unfold lit_space in Hw.
      destruct (Z.eqb_spec w 13); [lia|reflexivity].
    + rewrite rev_unit. cbn [take_while]. rewrite Hsp, Hi. reflexivity.
Qed.

Lemma Rel_lit : forall L a ws, Rel L a -> forallb lit_space ws = true ->
  Rel (L ++ ws) (mkA (rev ws ++ a_cur a) (a_out a)).
Proof. intros L [cur out] ws. apply Rel_lit_gen. Qed.

(* rstrip *)
Lemma take_drop_while' : forall f (s : str), take_while f s ++ drop_while f s = s.
Proof.
  intros f s. induction s as [|c s IH]; [reflexivity|]. cbn [take_while drop_while].
  destruct (f c); [|reflexivity]. cbn [app]. rewrite IH. reflexivity.
Qed.

Lemma rstrip_split : forall L, L = rstrip L ++ rev (take_while is_space (rev L)).
Proof.
  intros L. unfold rstrip, rstrip_by. rewrite lstrip_by_drop_while, <- rev_app_distr.
  rewrite take_drop_while'. rewrite rev_involutive. reflexivity.
Qed.

Lemma take_while_drop_while_nil : forall f (s : str), take_while f (drop_while f s) = [].
Proof.
  intros f s. induction s as [|c s IH]; [reflexivity|]. cbn [drop_while]. destruct (f c) eqn:E; [exact IH|].
  cbn [take_while]. rewrite E. reflexivity.
Qed.

Lemma Rel_rstrip : forall L a, Rel L a -> Rel (rstrip L) (mkA (drop_while is_space (a_cur a)) (a_out a)).
Proof.
  intros L [cur out] ([nbr Ht] & Hn & Hi). cbn [a_cur a_out] in *.
  pose proof (rstrip_split L) as HL. set (ws := rev (take_while is_space (rev L))) in *.
  assert (Hws : forallb is_space ws = true).
  { unfold ws. rewrite forallb_rev. clear. generalize (rev L). intros x. induction x as [|c x IHx]; [reflexivity|]. cbn [take_while]. destruct (is_space c) eqn:E; [cbn [forallb]; rewrite E, IHx; reflexivity|reflexivity]. }
  rewrite HL in Ht, Hn.
  destruct (trun_back ws (rstrip L) t_init nbr cur out Hws Hn eq_refl Ht) as (n1 & cur1 & HA & Hc).
  assert (Hcur1 : cur1 = drop_while is_space cur).
  { unfold ws in Hc. rewrite rev_involutive, <- Hi in Hc.
    rewrite <- (take_drop_while' is_space cur) in Hc at 1. apply app_inv_head in Hc. symmetry. exact Hc. }
  subst cur1. split; [|split]; cbn [a_cur a_out].
  - exists n1. exact HA.
  - unfold no13 in *. rewrite forallb_app in Hn. apply andb_true_iff in Hn. apply Hn.
  - rewrite take_while_drop_while_nil. unfold rstrip, rstrip_by. rewrite rev_involutive, lstrip_by_drop_while.
    rewrite take_while_drop_while_nil. reflexivity.
Qed.

(* markup: from character-data mode, the string m is one tag and leaves the tokenizer in character-data mode *)
Definition markup (m : str) (tk : xtok) : Prop :=
  (forall nbr cur out, exists nbr',
      trun (mkT (MText nbr false) cur out) m = Some (mkT (MText nbr' false) [] (tk :: flush cur out))) /\
  no13 m = true /\ exists m', m = m' ++ [62].

Lemma Rel_mark : forall L a m tk, Rel L a -> markup m tk ->
  Rel (L ++ m) (mkA [] (tk :: flush (a_cur a) (a_out a))).
Proof.
  intros L [cur out] m tk ([nbr Ht] & Hn & Hi) (Hm & Hm13 & [m' Hm']). cbn [a_cur a_out] in *. split; [|split]; cbn [a_cur a_out].
  - rewrite trun_app, Ht. destruct (Hm nbr cur out) as [n' ->]. exists n'. reflexivity.
  - unfold no13 in *. rewrite forallb_app, Hn, Hm13. reflexivity.
  - rewrite Hm', app_assoc, rev_unit. reflexivity.
Qed.

Lemma markup_br : markup (lit "<br/>") (TkEmpty (lit "br") []).
Proof. split; [intros; exists 0%nat; vm_compute; reflexivity|split; [reflexivity|exists (lit "<br/"); reflexivity]]. Qed.
Lemma markup_close : markup (lit "</span>") (TkClose (lit "span")).
Proof. split; [intros; exists 0%nat; vm_compute; reflexivity|split; [reflexivity|exists (lit "</span"); reflexivity]]. Qed.

(* ---- the abstract (string-free) writer ---------------------------------------------------------------------------- *)
Definition a_text (s : str) (a : ast) : ast := mkA (rev s ++ a_cur a) (a_out a).
Definition a_lit (ws : str) (a : ast) : ast := mkA (rev ws ++ a_cur a) (a_out a).
Definition a_rstrip (a : ast) : ast := mkA (drop_while is_space (a_cur a)) (a_out a).
Definition a_mark (tk : xtok) (a : ast) : ast := mkA [] (tk :: flush (a_cur a) (a_out a)).
Definition a_close (a : ast) : ast := a_mark (TkClose (lit "span")) a.
Definition a_close_sp (a : ast) : ast := a_lit (lit " ") (a_mark (TkClose (lit "span")) (a_rstrip a)).
Definition a_br (a : ast) : ast := a_lit ([10] ++ lit "    ") (a_mark (TkEmpty (lit "br") []) (a_rstrip a)).

(* sfx = what follows every text node ("" for DFXP, " " for legacy DFXP); atok st = the attributes of the span a
   start node opens, None when it opens none *)
Definition abs_step (sfx : str) (acl : ast -> ast) (atok : style -> option (list (str * str))) (acc : ast * bool) (n : node) : ast * bool :=
  let (a, open) := acc in
  match n with
  | NText s => (a_lit sfx (a_text s a), open)
  | NBreak => (a_br a, open)
  | NStyle true st =>
      match atok st with
      | None => (a, open)
      | Some attrs => (a_mark (TkOpen (lit "span") attrs) (if open then acl a else a), true)
      end
  | NStyle false _ => if open then (acl a, false) else (a, open)
  end.
Definition abs_run (sfx : str) acl atok (ns : list node) : ast * bool := fold_left (abs_step sfx acl atok) ns (mkA [] [], false).
Definition abs_tokens (sfx : str) acl atok (ns : list node) : list xtok :=
  let a := a_rstrip (fst (abs_run sfx acl atok ns)) in rev (flush (a_cur a) (a_out a)).

(* the string writers, generically: DFXPWriter (sfx = "", extra), LegacyDFXPWriter (sfx = " ") *)
Definition gstep (sfx : str) (astr : style -> str) (acc : str * bool) (n : node) : str * bool :=
  let (line, open) := acc in
  match n with
  | NText s => (line ++ xml_escape s ++ sfx, open)
  | NBreak => (rstrip line ++ br_markup, open)
  | NStyle start st => span_step astr line open start st
  end.

Lemma dfxp_step_gstep : forall extra acc n, dfxp_step extra acc n = gstep [] (fun st => dfxp_style_attrs st ++ extra) acc n.
Proof. intros extra [line open] [s| |start st]; cbn [dfxp_step gstep]; try reflexivity. rewrite app_nil_r. reflexivity. Qed.
Lemma legacy_step_gstep : forall acc n, legacy_step acc n = gstep [] dfxp_style_attrs acc n.
Proof. intros [line open] [s| |start st]; cbn [legacy_step gstep]; try reflexivity. rewrite app_nil_r. reflexivity. Qed.

(* agreement of the attribute text with the attribute list, for the styles of the domain *)
Definition attrs_agree (dom : style -> bool) (astr : style -> str) (atok : style -> option (list (str * str))) : Prop :=
  forall st, dom st = true ->
    match atok st with
    | None => astr st = []
    | Some attrs => astr st <> [] /\ markup (lit "<span" ++ astr st ++ lit ">") (TkOpen (lit "span") attrs)
    end.

Fixpoint nodes_ok (dom : style -> bool) (ns : list node) : bool :=
  match ns with
  | [] => true
  | NText s :: t => forallb xml_text_char s && nodes_ok dom t
  | NBreak :: t => nodes_ok dom t
  | NStyle _ st :: t => dom st && nodes_ok dom t
  end.

Lemma Rel_close : forall L a, Rel L a -> Rel (close_span L) (a_close a).
Proof. intros L a H. unfold close_span, a_close. apply (Rel_mark _ a); [exact H|exact markup_close]. Qed.

Lemma Rel_close_sp : forall L a, Rel L a -> Rel (close_span_sp L) (a_close_sp a).
Proof.
  intros L a H. unfold close_span_sp, a_close_sp. change (lit "</span> ") with (lit "</span>" ++ lit " ").
  rewrite app_assoc. apply (Rel_lit _ (a_mark (TkClose (lit "span")) (a_rstrip a))); [|reflexivity].
  apply (Rel_mark _ (a_rstrip a)); [|exact markup_close]. apply Rel_rstrip. exact H.
Qed.

Lemma sim_step : forall sfx dom astr atok, forallb lit_space sfx = true -> attrs_agree dom astr atok ->
  forall n L a open, Rel L a -> nodes_ok dom [n] = true ->
  Rel (fst (gstep sfx astr (L, open) n)) (fst (abs_step sfx a_close atok (a, open) n)) /\
  snd (gstep sfx astr (L, open) n) = snd (abs_step sfx a_close atok (a, open) n).
Proof.
  intros sfx dom astr atok Hsfx Hag n L a open HR Hn.
  destruct n as [s| |start st]; cbn [nodes_ok] in Hn; try rewrite andb_true_r in Hn; cbn [gstep abs_step fst snd].
  - split; [|reflexivity]. rewrite app_assoc. apply (Rel_lit _ (a_text s a)); [|exact Hsfx]. apply Rel_text; assumption.
  - split; [|reflexivity]. unfold br_markup, a_br. rewrite app_assoc.
    apply (Rel_lit _ (a_mark (TkEmpty (lit "br") []) (a_rstrip a))); [|reflexivity].
    apply (Rel_mark _ (a_rstrip a)); [|exact markup_br]. apply Rel_rstrip. exact HR.
  - unfold span_step. destruct start.
    + specialize (Hag st Hn). destruct (atok st) as [attrs|].
      * destruct Hag as [Hne Hm]. destruct (astr st) as [|z l] eqn:E; [congruence|]. cbn [fst snd]. split; [|reflexivity].
        rewrite <- E in Hm |- *. destruct open.
        -- apply (Rel_mark _ (a_close a)); [apply Rel_close; exact HR|exact Hm].
        -- apply (Rel_mark _ a); [exact HR|exact Hm].
      * rewrite Hag. cbn [fst snd]. split; [exact HR|reflexivity].
    + destruct open; cbn [fst snd]; (split; [|reflexivity]); [apply Rel_close; exact HR|exact HR].
Qed.

Lemma sim_run : forall sfx dom astr atok, forallb lit_space sfx = true -> attrs_agree dom astr atok ->
  forall ns L a open, Rel L a -> nodes_ok dom ns = true ->
  Rel (fst (fold_left (gstep sfx astr) ns (L, open))) (fst (fold_left (abs_step sfx a_close atok) ns (a, open))) /\
  snd (fold_left (gstep sfx astr) ns (L, open)) = snd (fold_left (abs_step sfx a_close atok) ns (a, open)).
Proof.
  intros sfx dom astr atok Hsfx Hag. induction ns as [|n ns IH]; intros L a open HR Hn; [split; [exact HR|reflexivity]|].
  cbn [fold_left].
  assert (Hn1 : nodes_ok dom [n] = true /\ nodes_ok dom ns = true).
  { destruct n as [s| |st0 st]; cbn [nodes_ok] in *.
    - apply andb_true_iff in Hn. destruct Hn as [H1 H2]. rewrite H1. split; [reflexivity|exact H2].
    - split; [reflexivity|exact Hn].
    - apply andb_true_iff in Hn. destruct Hn as [H1 H2]. rewrite H1. split; [reflexivity|exact H2]. }
  destruct Hn1 as [Hn1 Hns].
  destruct (sim_step sfx dom astr atok Hsfx Hag n L a open HR Hn1) as [HR1 Ho].
  destruct (gstep sfx astr (L, open) n) as [L1 o1]. destruct (abs_step sfx a_close atok (a, open) n) as [a1 o2].
  cbn [fst snd] in *. subst o2. apply IH; assumption.
Qed.

(* the payload, read by the strict tokenizer, is the abstract token list *)
Theorem payload_tokens : forall sfx dom astr atok ns, forallb lit_space sfx = true -> attrs_agree dom astr atok ->
  nodes_ok dom ns = true ->
  xtokens (rstrip (fst (fold_left (gstep sfx astr) ns ([], false)))) = Some (abs_tokens sfx a_close atok ns).
Proof.
  intros sfx dom astr atok ns Hsfx Hag Hn.
  destruct (sim_run sfx dom astr atok Hsfx Hag ns [] (mkA [] []) false Rel_init Hn) as [HR _].
  apply Rel_rstrip in HR. destruct HR as ([nbr Ht] & _ & _).
  unfold xtokens. unfold str in *. cbn [a_cur a_out] in Ht. rewrite Ht. unfold t_finish. cbn [ts_mode ts_cur ts_out]. reflexivity.
Qed.

(* ---- instances: the three DFXP writers ---------------------------------------------------------------------------- *)
Definition plain_style (st : style) : bool := match st_color st with None => true | Some _ => false end.
Definition region_attr : str := lit " region=""bottom""".
Definition extra_of (region : bool) : str := if region then region_attr else [].

Definition dfxp_atok (region : bool) (st : style) : option (list (str * str)) :=
  match (if st_i st then [(lit "tts:fontStyle", lit "italic")] else []) ++
        (if region then [(lit "region", lit "bottom")] else []) with
  | [] => None
  | a => Some a
  end.

Lemma dfxp_attrs_agree : forall region,
  attrs_agree plain_style (fun st => dfxp_style_attrs st ++ extra_of region) (dfxp_atok region).
Proof.
  intros region [i b u c] H. unfold plain_style in H. cbn [st_color] in H. destruct c; [discriminate|].
  destruct i, region; cbn; try reflexivity;
    (split; [discriminate|split; [intros; exists 0%nat; vm_compute; reflexivity|split; [reflexivity|]]]).
  - exists (lit "<span tts:fontStyle=""italic"" region=""bottom"""). reflexivity.
  - exists (lit "<span tts:fontStyle=""italic"""). reflexivity.
  - exists (lit "<span region=""bottom"""). reflexivity.
Qed.

Lemma fold_left_ext2 : forall {A B} (f g : A -> B -> A) l a, (forall x y, f x y = g x y) -> fold_left f l a = fold_left g l a.
Proof. intros A B f g l. induction l as [|y l IH]; intros a H; [reflexivity|]. cbn [fold_left]. rewrite H. apply IH. exact H. Qed.

(* DFXPWriter (region = false) and SinglePositioningDFXPWriter (region = true) *)
Theorem dfxp_payload_tokens : forall region ns, nodes_ok plain_style ns = true ->
  xtokens (dfxp_payload (extra_of region) ns) = Some (abs_tokens [] a_close (dfxp_atok region) ns).
Proof.
  intros region ns H. unfold dfxp_payload, dfxp_run.
  rewrite (fold_left_ext2 _ _ ns _ (dfxp_step_gstep (extra_of region))).
  apply (payload_tokens [] plain_style _ _ ns eq_refl (dfxp_attrs_agree region) H).
Qed.

Theorem legacy_payload_tokens : forall ns, nodes_ok plain_style ns = true ->
  xtokens (legacy_payload ns) = Some (abs_tokens [] a_close (dfxp_atok false) ns).
Proof.
  intros ns H. unfold legacy_payload, legacy_run. rewrite (fold_left_ext2 _ _ ns _ legacy_step_gstep).
  apply (payload_tokens [] plain_style dfxp_style_attrs _ ns eq_refl); [|exact H].
  intros st Hst. pose proof (dfxp_attrs_agree false st Hst) as Q. cbn [extra_of] in Q. rewrite app_nil_r in Q. exact Q.
Qed.

Corollary dfxp_payload_parse : forall region ns, nodes_ok plain_style ns = true ->
  content_parse (dfxp_payload (extra_of region) ns) = xbuild (abs_tokens [] a_close (dfxp_atok region) ns) [] [].
Proof. intros. unfold content_parse. rewrite dfxp_payload_tokens by assumption. reflexivity. Qed.

Corollary legacy_payload_parse : forall ns, nodes_ok plain_style ns = true ->
  content_parse (legacy_payload ns) = xbuild (abs_tokens [] a_close (dfxp_atok false) ns) [] [].
Proof. intros. unfold content_parse. rewrite legacy_payload_tokens by assumption. reflexivity. Qed.

(* ---- SAMIWriter ------------------------------------------------------------------------------------------------ *)
Definition sami_atok (st : style) : option (list (str * str)) :=
  match sami_css st with [] => None | css => Some [(lit "style", css)] end.

Definition sami_abs_step (acc : ast * bool) (n : node) : ast * bool :=
  let (a, open) := acc in
  match n with
  | NText s => (a_lit (lit " ") (a_text s a), open)
  | NBreak => (a_br a, open)
  | NStyle true st =>
      let a1 := if open then a_close_sp a else a in
      match sami_atok st with
      | None => (a1, open)
      | Some attrs => (a_mark (TkOpen (lit "span") attrs) a1, true)
      end
  | NStyle false _ => if open then (a_close_sp a, false) else (a, open)
  end.
Definition sami_abs_tokens (ns : list node) : list xtok :=
  let a := a_rstrip (fst (fold_left sami_abs_step ns (mkA [] [], false))) in rev (flush (a_cur a) (a_out a)).

Lemma sami_markup : forall st, plain_style st = true ->
  match sami_css st with
  | [] => True
  | css => markup (lit "<span style=""" ++ css ++ lit """>") (TkOpen (lit "span") [(lit "style", css)])
  end.
Proof.
  intros [i b u c] H. unfold plain_style in H. cbn [st_color] in H. destruct c; [discriminate|].
  destruct i, b, u; cbn; try exact I;
    (split; [intros; exists 0%nat; vm_compute; reflexivity|split; [reflexivity|]]).
  - exists (lit "<span style=""font-style:italic;font-weight:bold;text-decoration:underline;"""). reflexivity.
  - exists (lit "<span style=""font-style:italic;font-weight:bold;"""). reflexivity.
  - exists (lit "<span style=""font-style:italic;text-decoration:underline;"""). reflexivity.
  - exists (lit "<span style=""font-style:italic;"""). reflexivity.
  - exists (lit "<span style=""font-weight:bold;text-decoration:underline;"""). reflexivity.
  - exists (lit "<span style=""font-weight:bold;"""). reflexivity.
  - exists (lit "<span style=""text-decoration:underline;"""). reflexivity.
Qed.

Lemma sami_sim_run : forall ns L a open, Rel L a -> nodes_ok plain_style ns = true ->
  Rel (fst (fold_left sami_step ns (L, open))) (fst (fold_left sami_abs_step ns (a, open))) /\
  snd (fold_left sami_step ns (L, open)) = snd (fold_left sami_abs_step ns (a, open)).
Proof.
  induction ns as [|n ns IH]; intros L a open HR Hn; [split; [exact HR|reflexivity]|].
  cbn [fold_left]. destruct n as [s| |[] st]; cbn [nodes_ok sami_step sami_abs_step] in *.
  - apply andb_true_iff in Hn. destruct Hn as [Hs Hns]. apply IH; [|exact Hns].
    rewrite app_assoc. apply (Rel_lit _ (a_text s a)); [|reflexivity]. apply Rel_text; assumption.
  - apply IH; [|exact Hn]. unfold br_markup, a_br. rewrite app_assoc.
    apply (Rel_lit _ (a_mark (TkEmpty (lit "br") []) (a_rstrip a))); [|reflexivity].
    apply (Rel_mark _ (a_rstrip a)); [|exact markup_br]. apply Rel_rstrip. exact HR.
  - apply andb_true_iff in Hn. destruct Hn as [Hst Hns].
    assert (HR1 : Rel (if open then close_span_sp L else L) (if open then a_close_sp a else a)).
    { destruct open; [apply Rel_close_sp; exact HR|exact HR]. }
    pose proof (sami_markup st Hst) as Hm. unfold sami_atok. destruct (sami_css st) as [|z l] eqn:E.
    + apply IH; [exact HR1|exact Hns].
    + apply IH; [|exact Hns]. apply (Rel_mark _ (if open then a_close_sp a else a)); [exact HR1|exact Hm].
  - apply andb_true_iff in Hn. destruct Hn as [_ Hns]. destruct open.
    + apply IH; [apply Rel_close_sp; exact HR|exact Hns].
    + apply IH; [exact HR|exact Hns].
Qed.

Theorem sami_payload_tokens : forall ns, nodes_ok plain_style ns = true ->
  xtokens (sami_payload ns) = Some (sami_abs_tokens ns).
Proof.
  intros ns Hn. unfold sami_payload, sami_run.
  destruct (sami_sim_run ns [] (mkA [] []) false Rel_init Hn) as [HR _].
  apply Rel_rstrip in HR. destruct HR as ([nbr Ht] & _ & _).
  unfold xtokens. unfold str in *. cbn [a_cur a_out] in Ht. rewrite Ht. unfold t_finish. cbn [ts_mode ts_cur ts_out]. reflexivity.
Qed.
