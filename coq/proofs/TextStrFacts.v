(* String lemmas used by the text properties: Str.replace (fuel independence, unfolding, single-character
   patterns), flat_map, is_prefix / is_infix. *)
From Coq Require Import List ZArith Bool Lia ZifyBool.
From PV Require Import lib.Sx lib.Str.
Import ListNotations.
Open Scope Z_scope.

Lemma is_prefix_app : forall p s, is_prefix p (p ++ s) = true.
Proof. induction p as [|x p IH]; intros s; [reflexivity|]. cbn [is_prefix app]. rewrite Z.eqb_refl, IH. reflexivity. Qed.

Lemma is_prefix_inv : forall p s, is_prefix p s = true -> exists t, s = p ++ t.
Proof.
  induction p as [|x p IH]; intros s H.
  - exists s. reflexivity.
  - destruct s as [|y s]; cbn [is_prefix] in H; [discriminate|].
    apply andb_true_iff in H. destruct H as [H1 H2]. apply Z.eqb_eq in H1. subst y.
    destruct (IH s H2) as [t ->]. exists t. reflexivity.
Qed.

Lemma skipn_length_lt : forall (n : nat) (s : str), (0 < n)%nat -> s <> [] -> (length (skipn n s) < length s)%nat.
Proof.
  intros n s Hn Hs. destruct s as [|c t]; [congruence|]. destruct n as [|n]; [lia|].
  cbn [skipn length]. pose proof (skipn_length n t). lia.
Qed.

(* ---- replace: fuel independence and the unfolding equation ------------------ *)
Lemma replace_aux_fuel : forall p r f1 f2 s, p <> [] ->
  (length s < f1)%nat -> (length s < f2)%nat -> replace_aux f1 p r s = replace_aux f2 p r s.
Proof.
  intros p r f1. induction f1 as [|f1 IH]; intros f2 s Hp H1 H2; [lia|].
  destruct f2 as [|f2]; [lia|]. cbn [replace_aux].
  destruct s as [|c t]; [reflexivity|].
  destruct (is_prefix p (c :: t)).
  - f_equal. apply IH; [exact Hp| |].
    + assert (length (skipn (length p) (c :: t)) < length (c :: t))%nat.
      { apply skipn_length_lt; [destruct p; [congruence|simpl; lia]|discriminate]. } lia.
    + assert (length (skipn (length p) (c :: t)) < length (c :: t))%nat.
      { apply skipn_length_lt; [destruct p; [congruence|simpl; lia]|discriminate]. } lia.
  - f_equal. apply IH; [exact Hp| |]; cbn [length] in *; lia.
Qed.

Lemma replace_nil : forall p r, replace p r [] = [].
Proof. intros [|x p] r; reflexivity. Qed.

Lemma replace_eq : forall p r s, p <> [] -> replace p r s = replace_aux (S (length s)) p r s.
Proof. intros [|x p] r s H; [congruence|reflexivity]. Qed.

Lemma replace_aux_S : forall f p r c t,
  replace_aux (S f) p r (c :: t) =
  if is_prefix p (c :: t) then r ++ replace_aux f p r (skipn (length p) (c :: t)) else c :: replace_aux f p r t.
Proof. reflexivity. Qed.

Lemma replace_cons : forall p r c t, p <> [] ->
  replace p r (c :: t) =
  if is_prefix p (c :: t) then r ++ replace p r (skipn (length p) (c :: t)) else c :: replace p r t.
Proof.
  intros p r c t Hp. rewrite !replace_eq by exact Hp. rewrite replace_aux_S.
  destruct (is_prefix p (c :: t)).
  - f_equal. apply replace_aux_fuel; [exact Hp| |lia].
    assert (length (skipn (length p) (c :: t)) < length (c :: t))%nat.
    { apply skipn_length_lt; [destruct p; [congruence|simpl; lia]|discriminate]. } lia.
  - reflexivity.
Qed.

(* single-character pattern = per-character substitution *)
Definition subst1 (c0 : Z) (r : str) (x : Z) : str := if x =? c0 then r else [x].

Lemma replace_single : forall c0 r s, replace [c0] r s = flat_map (subst1 c0 r) s.
Proof.
  intros c0 r s. induction s as [|c t IH]; [reflexivity|].
  rewrite replace_cons by discriminate. cbn [is_prefix length skipn flat_map]. unfold subst1 at 1.
  rewrite andb_true_r. rewrite Z.eqb_sym. destruct (c =? c0); rewrite IH; reflexivity.
Qed.

Lemma flat_map_flat_map : forall (f g : Z -> str) s,
  flat_map g (flat_map f s) = flat_map (fun x => flat_map g (f x)) s.
Proof.
  intros f g s. induction s as [|c t IH]; [reflexivity|].
  cbn [flat_map]. rewrite flat_map_app, IH. reflexivity.
Qed.

Lemma flat_map_ext_str : forall (f g : Z -> str) s, (forall x, f x = g x) -> flat_map f s = flat_map g s.
Proof. intros f g s H. induction s as [|c t IH]; [reflexivity|]. cbn [flat_map]. rewrite H, IH. reflexivity. Qed.

(* ---- strip ------------------------------------------------------------------- *)
Lemma lstrip_by_app_nonspace : forall f a c b, f c = false ->
  forallb f a = true -> lstrip_by f (a ++ c :: b) = c :: b.
Proof.
  intros f a c b Hc. induction a as [|x a IH]; intros Ha.
  - cbn [app lstrip_by]. rewrite Hc. reflexivity.
  - cbn [forallb] in Ha. apply andb_true_iff in Ha. destruct Ha as [Hx Ha].
    cbn [app lstrip_by]. rewrite Hx. apply IH. exact Ha.
Qed.

Lemma lstrip_by_all : forall f a, forallb f a = true -> lstrip_by f a = [].
Proof.
  intros f a. induction a as [|x a IH]; intros Ha; [reflexivity|].
  cbn [forallb] in Ha. apply andb_true_iff in Ha. destruct Ha as [Hx Ha].
  cbn [lstrip_by]. rewrite Hx. apply IH. exact Ha.
Qed.

Lemma lstrip_by_idem : forall f s, lstrip_by f (lstrip_by f s) = lstrip_by f s.
Proof.
  intros f s. induction s as [|c t IH]; [reflexivity|].
  cbn [lstrip_by]. destruct (f c) eqn:E; [exact IH|]. cbn [lstrip_by]. rewrite E. reflexivity.
Qed.

Lemma lstrip_by_drop_while : forall f s, lstrip_by f s = drop_while f s.
Proof. intros f s. induction s as [|c t IH]; [reflexivity|]. cbn [lstrip_by drop_while]. rewrite IH. reflexivity. Qed.

Lemma forallb_rev : forall (P : Z -> bool) s, forallb P (rev s) = forallb P s.
Proof.
  intros P s. induction s as [|c t IH]; [reflexivity|].
  cbn [rev forallb]. rewrite forallb_app, IH. cbn [forallb]. rewrite andb_true_r. apply andb_comm.
Qed.
