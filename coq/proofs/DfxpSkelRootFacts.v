(* C07, wave 7, part 2: the first event of the rendered document - the root is tt, its attributes (sorted) are read back
   with their values: the TTML namespace on xmlns, the language code on xml:lang. *)
From Coq Require Import List ZArith Lia Bool ZifyBool Arith.
From PV Require Import lib.Sx lib.Str model.DfxpXml model.DfxpRegion model.DfxpDoc model.DfxpSkel spec.SpecXmlAttr spec.SpecXmlDoc.
From PV Require Import proofs.XmlAttrFacts proofs.DfxpPayloadFacts proofs.DfxpDocFacts proofs.DfxpSkelFacts.
Import ListNotations.
Open Scope Z_scope.

(* events are only added *)
Lemma xstep_ev : forall s c t, xstep s c = Some t -> exists l, p_ev t = l ++ p_ev s.
Proof.
  intros [stack ev tag attrs aname m] c t H. cbn [p_ev].
  destruct m; cbn [xstep] in H;
    repeat match type of H with
           | context [if ?b then _ else _] => destruct b
           | context [match ?x with _ => _ end] => destruct x eqn:?
           end; try discriminate; inversion H; subst; cbn [p_ev];
    try (exists []; reflexivity); try (eexists [_]; reflexivity); try (eexists [_; _]; reflexivity).
  all: try (eexists; reflexivity).
Qed.
Lemma dstep_ev : forall ph s c ph' t, dstep (ph, s) c = Some (ph', t) -> exists l, p_ev t = l ++ p_ev s.
Proof.
  intros ph s c ph' t H. unfold dstep in H. cbn [fst snd] in H. destruct ph.
  - destruct (is_xml_space c); [inversion H; subst; exists []; reflexivity|]. destruct (c =? 60); [|discriminate].
    destruct (xstep s c) eqn:X; [|discriminate]. inversion H; subst. apply (xstep_ev s c t X).
  - destruct (xstep s c) eqn:X; [|discriminate]. inversion H; subst. apply (xstep_ev s c t X).
  - destruct (is_xml_space c); [inversion H; subst; exists []; reflexivity|discriminate].
Qed.
Lemma drun_ev : forall f ph s ph' t, drun (ph, s) f = Some (ph', t) -> exists l, p_ev t = l ++ p_ev s.
Proof.
  induction f as [|c f IH]; intros ph s ph' t H; cbn [drun] in H; [inversion H; subst; exists []; reflexivity|].
  destruct (dstep (ph, s) c) as [[ph1 s1]|] eqn:D; [|discriminate]. destruct (dstep_ev ph s c ph1 s1 D) as [l1 E1].
  destruct (IH ph1 s1 ph' t H) as [l2 E2]. exists (l2 ++ l1). rewrite E2, E1, app_assoc. reflexivity.
Qed.

(* the start tag with its event *)
Lemma open_tag_run : forall name attrs a ev acc, valid_name name = true -> attrs_ok attrs [] ->
  xrun (cst a ev acc) ([60] ++ name ++ flat_map doc_attr attrs ++ [62])
  = Some (cst (name :: a) (EOpen name attrs :: map EText acc ++ ev) []).
Proof.
  intros name attrs a ev acc Hn Ha. destruct (open_run name attrs a ev acc Hn Ha) as [ws [E|[-> E]]].
  all: match goal with |- context [?x ++ ?n ++ ?f ++ ?e] =>
         assert (SPLIT : x ++ n ++ f ++ e = (x ++ n ++ f) ++ e) by (rewrite <- !app_assoc; reflexivity) end.
  - rewrite SPLIT, xrun_app, E. cbn [xrun xstep tst]. change (is_xml_space 62) with false. cbv iota. cbn [Z.eqb Pos.eqb].
    rewrite rev_involutive. reflexivity.
  - rewrite SPLIT, xrun_app, E. cbn [xrun xstep].
    destruct name as [|c t]; [discriminate|].
    assert (L : is_name_char 62 = false) by reflexivity. rewrite L. change (is_xml_space 62) with false. cbv iota.
    cbn [Z.eqb Pos.eqb]. rewrite rev_involutive. reflexivity.
Qed.

Lemma root_document_events : forall attrs inner, attrs_ok attrs [] -> inner <> [] -> accepts [] [] inner ->
  exists rest, doc_parse (prolog ++ elem 0 tt_name attrs inner) = Some (EOpen tt_name (sort_attrs attrs) :: rest).
Proof.
  intros attrs inner Ha Hne Hi. destruct (root_document_accepted attrs inner Ha Hne Hi) as [evs P].
  unfold doc_parse in *.
  assert (D : forall rest, xml_decl (prolog ++ rest) = Some ([10] ++ rest)) by (intros rest; reflexivity).
  unfold elem in *. destruct inner as [|i0 inner']; [contradiction|]. set (inner := i0 :: inner') in *.
  set (F := flat_map doc_attr (sort_attrs attrs)) in *. unfold doc_attrs in *. fold F in P. fold F. cbn [ind repeat app] in *.
  set (B := ([10] ++ inner) ++ (lit "</tt>" ++ [10])).
  change (60 :: tt_name ++ F ++ 62 :: 10 :: inner ++ 60 :: 47 :: tt_name ++ [62; 10])
    with ([60] ++ (tt_name ++ F) ++ [62] ++ B) in *.
  rewrite D in *.
  apply attrs_ok_sorted in Ha.
  pose proof (open_tag_run tt_name (sort_attrs attrs) [] [] [] eq_refl Ha) as T. fold F in T. change (map EText [] ++ []) with (@nil xev) in T.
  assert (G : has 62 (tt_name ++ F) = false).
  { rewrite has_app. unfold F. rewrite doc_attrs_no_gt; [reflexivity|]. apply attrs_ok_char in Ha. apply Ha. }
  replace ([60] ++ tt_name ++ F ++ [62]) with ([60] ++ (tt_name ++ F) ++ [62]) in T by (rewrite <- !app_assoc; reflexivity).
  cbn [app xrun] in T. unfold cst in T at 1. cbn [xstep flush_text] in T. cbn [Z.eqb Pos.eqb map app] in T.
  rewrite xrun_app in T. destruct (xrun (mkPst [] [] [] [] [] MLt) (tt_name ++ F)) as [s1|] eqn:X1; [|discriminate].
  destruct (drun_no_gt (tt_name ++ F) (mkPst [] [] [] [] [] MLt) s1 G eq_refl X1) as [Dr C1].
  cbn [xrun] in T. destruct (xstep s1 62) as [s2|] eqn:X2; [|discriminate]. inversion T; subst s2.
  assert (A : drun (DPre, pst0) ([10] ++ [60] ++ (tt_name ++ F) ++ [62])
              = Some (DRoot, cst [tt_name] [EOpen tt_name (sort_attrs attrs)] [])).
  { cbn [app drun]. unfold dstep at 1. cbn [fst snd]. change (is_xml_space 10) with true. cbv iota.
    unfold dstep at 1. cbn [fst snd]. change (is_xml_space 60) with false. cbv iota. cbn [Z.eqb Pos.eqb]. cbn [xstep pst0 flush_text map app].
    cbn [Z.eqb Pos.eqb]. rewrite drun_app, Dr. cbn [drun]. unfold dstep. cbn [fst snd]. rewrite X2. reflexivity. }
  assert (SP : 10 :: [60] ++ (tt_name ++ F) ++ [62] ++ B = ([10] ++ [60] ++ (tt_name ++ F) ++ [62]) ++ B)
    by (rewrite <- !app_assoc; reflexivity).
  rewrite SP in P. rewrite SP.
 rewrite drun_app, A in P. rewrite drun_app, A.
  destruct (drun (DRoot, cst [tt_name] [EOpen tt_name (sort_attrs attrs)] []) B) as [[ph st]|] eqn:R; [|discriminate].
  destruct (drun_ev B _ _ _ _ R) as [l E]. destruct ph; try discriminate. inversion P; subst evs.
  exists (rev l). rewrite E. cbn [cst p_ev]. rewrite rev_app_distr. reflexivity.
Qed.

(* the root of every rendered document: tt, in the TTML namespace, carrying the language code it was given *)
Theorem skeleton_root : forall d, skdoc_ok d ->
  exists rest, doc_parse (dfxp_document d) = Some (EOpen tt_name (sort_attrs (k_tt d)) :: rest).
Proof.
  intros d H. unfold dfxp_document. apply root_document_events.
  - apply H.
  - destruct (head_elem d) eqn:E; [exfalso; apply (elem_nonempty _ _ _ _ E)|discriminate].
  - apply (accepts_app [] [] []); [apply head_accepts; exact H|apply body_accepts; exact H].
Qed.
Lemma sort_tt_attrs : forall lang,
  sort_attrs (tt_attrs lang) = [(lit "xml:lang", lang); (lit "xmlns", ttml_ns); (lit "xmlns:tts", tts_ns)].
Proof. intros lang. reflexivity. Qed.
(* the writer model's namespace constants are the specification's literals *)
Lemma model_ns_are_spec_ns : ttml_ns = spec_ttml_ns /\ tts_ns = spec_tts_ns.
Proof. split; reflexivity. Qed.
Theorem document_of_captions_root : forall legacy ids lang styles regions divs,
  forallb is_xml_char lang = true ->
  Forall (fun a => attrs_ok a []) styles -> Forall (fun a => attrs_ok a []) regions ->
  Forall (fun dv => attrs_ok (fst dv) [] /\ Forall (caption_ok ids) (snd dv)) divs ->
  exists rest, doc_parse (dfxp_document (doc_of_captions legacy ids lang styles regions divs))
               = Some (EOpen (lit "tt") [(lit "xml:lang", lang); (lit "xmlns", spec_ttml_ns); (lit "xmlns:tts", spec_tts_ns)] :: rest).
Proof.
  intros legacy ids lang styles regions divs Hl Hs Hr Hd.
  assert (K : skdoc_ok (doc_of_captions legacy ids lang styles regions divs)).
  { unfold doc_of_captions, skdoc_ok.
    cbn [k_tt k_styles k_regions k_divs]. split; [apply tt_attrs_ok; exact Hl|]. split; [exact Hs|]. split; [exact Hr|].
    rewrite Forall_forall in *. intros dv Hdv. apply in_map_iff in Hdv. destruct Hdv as (x & <- & Hx).
    destruct (Hd x Hx) as [Ha Hp]. split; [exact Ha|]. cbn [kd_ps]. rewrite Forall_forall in *. intros p Hp'.
    apply in_map_iff in Hp'. destruct Hp' as (y & <- & Hy). destruct (Hp y Hy) as (A1 & A2 & A3).
    split; [exact A1|]. cbn [kp_text p_of_caption]. apply caption_payload_wellformed; assumption. }
  destruct (skeleton_root _ K) as [rest E]. exists rest. exact E.
Qed.
