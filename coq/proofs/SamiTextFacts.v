(* C01, round 4: the string-level SAMI reader model (model/SamiText.v) on every rendering of every abstract document
   (spec/SpecSamiText.v): tokens, then the sync / paragraph machine, give the <sync> list and the languages of the
   abstract document, hence (TimeTreeFacts.sami_tree_exact) the captions it denotes. *)
From Coq Require Import List ZArith Lia Bool ZifyBool Arith.
From PV Require Import lib.Sx lib.Str lib.Result lib.Dec.
From PV Require Import model.Langs model.TimeRead model.TimeTree model.XmlRead model.SamiText.
From PV Require Import spec.SpecTime spec.SpecTimeTree spec.SpecXmlDocT spec.SpecSamiText.
From PV Require Import proofs.TimeStrFacts proofs.TimeTreeFacts proofs.XmlReadFacts.
Import ListNotations.
Open Scope Z_scope.

(* ---- references ------------------------------------------------------------------------------------------------ *)
Lemma sunescape_esc_ch : forall q c rest, quote_or_text q ->
  sunescape (esc_ch q c ++ rest) None = c :: sunescape rest None.
Proof.
  intros q c rest Hq. unfold esc_ch.
  destruct (c =? 38) eqn:E38; [assert (c = 38) by lia; subst; reflexivity|].
  destruct (c =? 60) eqn:E60; [assert (c = 60) by lia; subst; reflexivity|].
  destruct (c =? 62) eqn:E62; [assert (c = 62) by lia; subst; reflexivity|].
  destruct (c =? q) eqn:Eq.
  - assert (c = q) by lia. subst c. destruct Hq as [Hq|[Hq|Hq]]; subst q; reflexivity.
  - cbn [app sunescape]. rewrite E38. reflexivity.
Qed.

Lemma sunescape_esc_val : forall q v rest, quote_or_text q ->
  sunescape (esc_val q v ++ rest) None = v ++ sunescape rest None.
Proof.
  intros q v rest Hq. unfold esc_val. induction v as [|c v IH]; [reflexivity|].
  cbn [flat_map]. rewrite <- app_assoc, (sunescape_esc_ch q c _ Hq), IH. reflexivity.
Qed.

Lemma sunescape_plain : forall w rest, forallb (fun c => negb (c =? 38)) w = true ->
  sunescape (w ++ rest) None = w ++ sunescape rest None.
Proof.
  induction w as [|c w IH]; intros rest H; [reflexivity|]. cbn [forallb] in H. apply andb_true_iff in H.
  destruct H as [Hc Hw]. cbn [app sunescape]. destruct (c =? 38); [discriminate|]. rewrite (IH rest Hw). reflexivity.
Qed.

Lemma sunescape_ref_acc : forall ds r rest, forallb is_digit ds = true ->
  sunescape (ds ++ 59 :: rest) (Some r)
  = match sref_char (rev r ++ ds) with
    | Some v => v :: sunescape rest None
    | None => 38 :: (rev r ++ ds) ++ 59 :: sunescape rest None
    end.
Proof.
  induction ds as [|d ds IH]; intros r rest H.
  - cbn [app sunescape]. rewrite app_nil_r. reflexivity.
  - cbn [forallb] in H. apply andb_true_iff in H. destruct H as [Hd Hds].
    cbn [app sunescape]. assert (E : (d =? 59) = false) by (unfold is_digit in Hd; lia). rewrite E.
    etransitivity; [apply (IH (d :: r) rest Hds)|]. cbn [rev]. rewrite <- app_assoc. reflexivity.
Qed.

Lemma sunescape_schar : forall x rest, schar_ok x = true ->
  sunescape (render_schar x ++ rest) None = schar_val x :: sunescape rest None.
Proof.
  intros [c|c|] rest H; cbn [render_schar schar_val schar_ok] in *.
  - apply sunescape_esc_ch. right. right. reflexivity.
  - apply andb_true_iff in H. destruct H as [H0 Hr].
    change (lit "&#") with [38; 35]. rewrite <- !app_assoc. cbn [app sunescape].
    change (38 =? 38) with true. cbv iota. change (35 =? 59) with false. cbv iota.
    rewrite sunescape_ref_acc by (apply dec_nonneg_digits; lia). cbn [rev app].
    unfold sref_char. change (str_eqb (35 :: dec_nonneg c) (lit "nbsp")) with false. cbv iota.
    rewrite ref_char_dec; [reflexivity|lia|]. destruct ((128 <=? c) && (c <? 160)); [discriminate|reflexivity].
  - reflexivity.
Qed.

Lemma sunescape_srun : forall r rest, forallb schar_ok r = true ->
  sunescape (render_srun r ++ rest) None = srun_val r ++ sunescape rest None.
Proof.
  unfold render_srun, srun_val. induction r as [|x r IH]; intros rest H; [reflexivity|].
  cbn [forallb] in H. apply andb_true_iff in H. destruct H as [Hx Hr].
  cbn [flat_map map]. rewrite <- app_assoc, (sunescape_schar x _ Hx), (IH rest Hr). reflexivity.
Qed.

Lemma render_schar_not_lt : forall x, schar_ok x = true -> forallb not_lt (render_schar x) = true.
Proof.
  intros [c|c|] H; cbn [render_schar schar_ok] in *; [apply esc_ch_not_lt| |reflexivity].
  apply andb_true_iff in H. destruct H as [H0 _].
  assert (Hc : 0 <= c) by lia. exact (render_tchar_not_lt (c, true) (or_introl Hc)).
Qed.

Lemma render_srun_not_lt : forall r, forallb schar_ok r = true -> forallb not_lt (render_srun r) = true.
Proof.
  intros r H. unfold render_srun. apply forallb_flat_map. intros x Hx. apply render_schar_not_lt.
  rewrite forallb_forall in H. exact (H x Hx).
Qed.

Lemma render_schar_nonempty : forall x, render_schar x <> [].
Proof.
  intros [c|c|]; cbn [render_schar]; [exact (render_tchar_nonempty (c, false))|discriminate|discriminate].
Qed.

(* ---- attributes ------------------------------------------------------------------------------------------------- *)
Lemma unq_plain_facts : forall c, unq_plain c = true ->
  h_ws c = false /\ unq_c c = true /\ (c =? 38) = false /\ (c =? 34) = false /\ (c =? 39) = false.
Proof.
  intros c H. unfold unq_plain, name_c, lc_letter, is_digit, uc_letter in H. unfold unq_c, h_ws. lia.
Qed.

Lemma sparse_attr_render : forall a T, sattr_ok a = true -> (sa_q a = 0 -> stops unq_c T) ->
  sparse_attr (sa_name a ++ sa_e1 a ++ [61] ++ sa_e2 a
               ++ (if sa_q a =? 0 then sa_val a else [sa_q a] ++ esc_val (sa_q a) (sa_val a) ++ [sa_q a]) ++ T)
  = Some (lower (sa_name a), sa_val a, T).
Proof.
  intros [pre name e1 e2 q v] T H HT. unfold sattr_ok in H. cbn [sa_pre sa_name sa_e1 sa_e2 sa_q sa_val] in *.
  repeat (apply andb_true_iff in H; destruct H as [H ?]).
  destruct (aname_ok_inv name H1) as (c & t & En & Hc & Hnc).
  assert (Hna : forallb attr_name_c name = true) by (rewrite En; apply anames_attr; exact Hnc).
  set (V := (if q =? 0 then v else [q] ++ esc_val q v ++ [q]) ++ T).
  assert (S1 : stops attr_name_c (e1 ++ [61] ++ e2 ++ V)).
  { apply stops_ws_then; [exact H3| |reflexivity]. intros x Hx. apply xws_facts in Hx. tauto. }
  unfold sparse_attr. rewrite (take_while_stops attr_name_c name _ Hna S1), (drop_while_stops attr_name_c name _ Hna S1).
  rewrite En. cbv iota. rewrite <- En.
  rewrite (drop_while_stops h_ws e1 _ (is_ws_h_ws _ H3)) by reflexivity.
  cbn [app]. change (61 =? 61) with true. cbv iota. unfold V.
  destruct (q =? 0) eqn:Eq0.
  - assert (q = 0) by lia. subst q. cbn [orb] in H0. rewrite !orb_false_l in H0.
    apply andb_true_iff in H0. destruct H0 as [H0 Hne]. cbn [andb] in H0.
    destruct v as [|x v]; [discriminate|]. pose proof H0 as Hall. cbn [forallb] in H0. apply andb_true_iff in H0. destruct H0 as [Hx Hv].
    destruct (unq_plain_facts x Hx) as (W & U & A & Q1 & Q2).
    rewrite (drop_while_stops h_ws e2 _ (is_ws_h_ws _ H2)) by exact W.
    cbn [app]. rewrite Q1, Q2, U. cbn [orb].
    assert (Hu : forallb unq_c (x :: v) = true).
    { revert Hall. apply forallb_imp. intros y Hy. apply unq_plain_facts in Hy. tauto. }
    change (x :: v ++ T) with ((x :: v) ++ T).
    rewrite (take_while_stops unq_c (x :: v) T Hu (HT eq_refl)), (drop_while_stops unq_c (x :: v) T Hu (HT eq_refl)).
    rewrite <- (app_nil_r (x :: v)) at 1. rewrite sunescape_plain.
    + cbn [sunescape]. rewrite app_nil_r. reflexivity.
    + revert Hall. apply forallb_imp. intros y Hy. apply unq_plain_facts in Hy. destruct Hy as (_ & _ & E & _). rewrite E. reflexivity.
  - assert (Hq : q = 34 \/ q = 39) by lia.
    assert (Hqw : h_ws q = false) by (destruct Hq; subst q; reflexivity).
    rewrite <- !app_assoc. cbn [app].
    rewrite (drop_while_stops h_ws e2 _ (is_ws_h_ws _ H2)) by exact Hqw.
    assert (Hqq : (q =? 34) || (q =? 39) = true) by lia. rewrite Hqq.
    rewrite (drop_to_app q _ T (esc_val_lacksq q v Hq)), (take_to_app q _ T (esc_val_lacksq q v Hq)).
    rewrite <- (app_nil_r (esc_val q v)), sunescape_esc_val by (destruct Hq; [left|right; left]; assumption).
    cbn [sunescape]. rewrite app_nil_r. reflexivity.
Qed.

Lemma render_sattr_shape : forall a T,
  render_sattr a ++ T
  = sa_pre a ++ sa_name a ++ sa_e1 a ++ [61] ++ sa_e2 a
    ++ (if sa_q a =? 0 then sa_val a else [sa_q a] ++ esc_val (sa_q a) (sa_val a) ++ [sa_q a]) ++ T.
Proof. intros a T. unfold render_sattr. rewrite <- !app_assoc. reflexivity. Qed.

Lemma sattr_pre : forall a, sattr_ok a = true -> exists x p, sa_pre a = x :: p /\ xws x = true /\ is_ws (sa_pre a) = true.
Proof.
  intros a H. unfold sattr_ok in H. repeat (apply andb_true_iff in H; destruct H as [H ?]).
  destruct (sa_pre a) as [|x p] eqn:E; [discriminate|]. exists x, p. repeat split; [|exact H].
  cbn [is_ws forallb] in H. apply andb_true_iff in H. tauto.
Qed.

(* what follows the attributes of a tag: white space, then '>' or "/>" *)
Definition tag_end (e : str) (slash : bool) : str := e ++ (if slash then [47; 62] else [62]).

Lemma attrs_tail_stops : forall (f : Z -> bool) l e slash rest,
  (forall x, xws x = true -> f x = false) -> f 62 = false -> (slash = true -> f 47 = false) ->
  forallb sattr_ok l = true -> is_ws e = true -> stops f (flat_map render_sattr l ++ tag_end e slash ++ rest).
Proof.
  intros f l e slash rest Hw H62 H47 Hl He. destruct l as [|a l].
  - cbn [flat_map app]. unfold tag_end. destruct e as [|x e].
    + destruct slash; [apply H47; reflexivity|assumption].
    + cbn [app stops]. cbn [is_ws forallb] in He. apply andb_true_iff in He. apply Hw. tauto.
  - cbn [forallb] in Hl. apply andb_true_iff in Hl. destruct Hl as [Ha _].
    destruct (sattr_pre a Ha) as (x & p & E & Hx & _).
    cbn [flat_map]. rewrite <- app_assoc, render_sattr_shape, E. cbn [app stops]. apply Hw. exact Hx.
Qed.

Lemma sparse_attrs_render : forall l fuel acc e slash rest,
  forallb sattr_ok l = true -> is_ws e = true -> (length l < fuel)%nat -> (slash = true -> l = []) ->
  sparse_attrs fuel (flat_map render_sattr l ++ tag_end e slash ++ rest) acc = Some (rev acc ++ splain l, rest).
Proof.
  induction l as [|a l IH]; intros fuel acc e slash rest Hl He Hf Hs; (destruct fuel as [|f]; [cbn [length] in Hf; lia|]).
  - cbn [flat_map app sparse_attrs splain map]. rewrite app_nil_r. unfold tag_end. rewrite <- app_assoc.
    rewrite (drop_while_stops h_ws e _ (is_ws_h_ws _ He)) by (destruct slash; reflexivity).
    destruct slash; reflexivity.
  - pose proof Hl as Hl0. cbn [forallb] in Hl. apply andb_true_iff in Hl. destruct Hl as [Ha Hl].
    destruct (sattr_pre a Ha) as (x & p & E & Hx & Hpre).
    assert (Hname : aname_ok (sa_name a) = true).
    { pose proof Ha as Ha'. unfold sattr_ok in Ha'. apply andb_true_iff in Ha'. destruct Ha' as [Ha' _].
      apply andb_true_iff in Ha'. tauto. }
    destruct (aname_ok_inv _ Hname) as (c & t & En & Hc & Hnc).
    cbn [flat_map]. rewrite <- app_assoc, render_sattr_shape. cbn [sparse_attrs].
    assert (Hcw : h_ws c = false) by (apply lc_letter_name_c, name_c_facts in Hc; tauto).
    rewrite (drop_while_stops h_ws (sa_pre a) _ (is_ws_h_ws _ Hpre)) by (rewrite En; exact Hcw).
    assert (ST : sa_q a = 0 -> stops unq_c (flat_map render_sattr l ++ tag_end e slash ++ rest)).
    { intros _. assert (Hsl : slash = false) by (destruct slash; [discriminate (Hs eq_refl)|reflexivity]).
      apply attrs_tail_stops; [|reflexivity|rewrite Hsl; discriminate|exact Hl|exact He].
      intros y Hy. apply xws_facts in Hy. destruct Hy as (W & _). unfold unq_c. rewrite W. reflexivity. }
    pose proof (sparse_attr_render a _ Ha ST) as P.
    rewrite En in P |- *. cbn [app] in P |- *.
    destruct (name_c_facts c (lc_letter_name_c c Hc)) as (_ & _ & _ & _ & E62 & E47 & _).
    rewrite E62, E47. rewrite P.
    rewrite IH; [|exact Hl|exact He|cbn [length] in Hf; lia|intros Hs'; discriminate (Hs Hs')].
    cbn [rev splain map]. rewrite <- app_assoc, En. reflexivity.
Qed.

Lemma render_sattrs_length : forall l T, (length l <= length (flat_map render_sattr l ++ T))%nat.
Proof.
  induction l as [|a l IH]; intros T; [cbn; lia|]. cbn [flat_map length]. rewrite <- app_assoc, app_length.
  specialize (IH T).
  assert (1 <= length (render_sattr a))%nat by (unfold render_sattr; rewrite !app_length; cbn [length]; lia). lia.
Qed.

(* ---- tokens: one step -------------------------------------------------------------------------------------------- *)
Lemma tagname_inv : forall n, tagname_ok n = true ->
  exists c t, n = c :: t /\ is_letter c = true /\ forallb tag_name_c n = true /\ (c =? 47) = false /\ (c =? 60) = false.
Proof.
  intros n H. unfold tagname_ok in H. apply andb_true_iff in H. destruct H as [Hl Hne].
  destruct n as [|c t]; [discriminate|]. exists c, t. pose proof Hl as Hl'. cbn [forallb] in Hl'. apply andb_true_iff in Hl'.
  destruct Hl' as [Hc _]. repeat split; try exact Hc.
  - revert Hl. apply forallb_imp. intros x Hx. unfold is_letter in Hx. unfold tag_name_c, h_ws. lia.
  - unfold is_letter in Hc. lia.
  - unfold is_letter in Hc. lia.
Qed.

Lemma stoks_open : forall f name l e slash X, tagname_ok name = true -> forallb sattr_ok l = true -> is_ws e = true ->
  (slash = true -> l = []) ->
  stoks (S f) ([60] ++ name ++ flat_map render_sattr l ++ tag_end e slash ++ X)
  = match stoks f X with Some r => Some (SOpen (lower name) (splain l) :: r) | None => None end.
Proof.
  intros f name l e slash X Hn Hl He Hs. destruct (tagname_inv name Hn) as (c & t & En & Hc & Htn & E47 & _).
  assert (ST : stops tag_name_c (flat_map render_sattr l ++ tag_end e slash ++ X)).
  { apply attrs_tail_stops; [|reflexivity|reflexivity|exact Hl|exact He]. intros y Hy. apply xws_facts in Hy. tauto. }
  cbn [app]. rewrite En. cbn [app stoks]. change (60 =? 60) with true. cbv iota. rewrite E47, Hc.
  change (c :: t ++ flat_map render_sattr l ++ tag_end e slash ++ X) with ((c :: t) ++ flat_map render_sattr l ++ tag_end e slash ++ X).
  rewrite <- En.
  rewrite (drop_while_stops tag_name_c name _ Htn ST), (take_while_stops tag_name_c name _ Htn ST).
  rewrite sparse_attrs_render; [reflexivity|exact Hl|exact He| |exact Hs].
  rewrite app_length. pose proof (render_sattrs_length l (tag_end e slash ++ X)). lia.
Qed.

Lemma stoks_close : forall f name w X, tagname_ok name = true -> is_ws w = true ->
  stoks (S f) (render_sclose (name, w) ++ X)
  = match stoks f X with Some r => Some (SClose (lower name) :: r) | None => None end.
Proof.
  intros f name w X Hn Hw. destruct (tagname_inv name Hn) as (c & t & En & Hc & Htn & _).
  unfold render_sclose. cbn [fst snd]. rewrite <- !app_assoc. cbn [app stoks].
  change (60 =? 60) with true. cbv iota. change (47 =? 47) with true. cbv iota.
  assert (ST : stops tag_name_c (w ++ 62 :: X)).
  { apply stops_ws_then; [exact Hw| |reflexivity]. intros y Hy. apply xws_facts in Hy. tauto. }
  rewrite (drop_while_stops tag_name_c name _ Htn ST), (take_while_stops tag_name_c name _ Htn ST).
  rewrite (drop_while_stops h_ws w _ (is_ws_h_ws _ Hw)) by reflexivity. cbn [app]. change (62 =? 62) with true. reflexivity.
Qed.

Definition text_tok (txt : str) : list stok := match txt with [] => [] | _ => [SText (sunescape txt None)] end.

Lemma stoks_text_then : forall txt X lX, forallb not_lt txt = true -> stops not_lt X ->
  (forall f, (length X < f)%nat -> stoks f X = Some lX) ->
  forall fuel, (length (txt ++ X) < fuel)%nat -> stoks fuel (txt ++ X) = Some (text_tok txt ++ lX).
Proof.
  intros txt X lX Ht HX HR fuel Hf. destruct txt as [|c t].
  - cbn [app text_tok]. exact (HR fuel Hf).
  - destruct fuel as [|f]; [lia|]. cbn [app length] in Hf.
    pose proof Ht as Ht'. cbn [forallb] in Ht'. apply andb_true_iff in Ht'. destruct Ht' as [Hc _].
    assert (E : (c =? 60) = false) by (unfold not_lt in Hc; lia).
    cbn [app stoks]. rewrite E. change (c :: t ++ X) with ((c :: t) ++ X).
    rewrite (drop_while_stops not_lt (c :: t) X Ht HX), (take_while_stops not_lt (c :: t) X Ht HX).
    rewrite (HR f) by (rewrite app_length in Hf; lia). reflexivity.
Qed.

(* ---- tokens of the structures ----------------------------------------------------------------------------------- *)
Definition tk (r : str) (l : list stok) : Prop :=
  forall X lX, stops not_lt X -> (forall f, (length X < f)%nat -> stoks f X = Some lX) ->
  forall f, (length (r ++ X) < f)%nat -> stoks f (r ++ X) = Some (l ++ lX).
(* pieces that end in '>' need nothing of what follows *)
Definition tk0 (r : str) (l : list stok) : Prop :=
  forall X lX, (forall f, (length X < f)%nat -> stoks f X = Some lX) ->
  forall f, (length (r ++ X) < f)%nat -> stoks f (r ++ X) = Some (l ++ lX).
Definition lt_start (r : str) : Prop := match r with [] => True | c :: _ => c = 60 end.

Lemma tk0_tk : forall r l, tk0 r l -> tk r l.
Proof. intros r l H X lX _. apply H. Qed.

Lemma tk_nil : tk [] [].
Proof. intros X lX _ H f Hf. exact (H f Hf). Qed.

Lemma tk0_app_tk : forall r1 l1 r2 l2, tk0 r1 l1 -> tk r2 l2 -> tk (r1 ++ r2) (l1 ++ l2).
Proof.
  intros r1 l1 r2 l2 H1 H2 X lX SX HX f Hf. rewrite <- !app_assoc in *.
  apply (H1 (r2 ++ X) (l2 ++ lX)); [|exact Hf]. intros f' Hf'. apply H2; assumption.
Qed.

Lemma tk0_app_tk0 : forall r1 l1 r2 l2, tk0 r1 l1 -> tk0 r2 l2 -> tk0 (r1 ++ r2) (l1 ++ l2).
Proof.
  intros r1 l1 r2 l2 H1 H2 X lX HX f Hf. rewrite <- !app_assoc in *.
  apply (H1 (r2 ++ X) (l2 ++ lX)); [|exact Hf]. intros f' Hf'. apply H2; assumption.
Qed.

Lemma stops_lt_app : forall r X, lt_start r -> stops not_lt X -> stops not_lt (r ++ X).
Proof. intros [|c r] X H SX; [exact SX|]. cbn in H |- *. subst c. reflexivity. Qed.

Lemma tk_app_lt : forall r1 l1 r2 l2, tk r1 l1 -> tk r2 l2 -> lt_start r2 -> tk (r1 ++ r2) (l1 ++ l2).
Proof.
  intros r1 l1 r2 l2 H1 H2 L X lX SX HX f Hf. rewrite <- !app_assoc in *.
  apply (H1 (r2 ++ X) (l2 ++ lX)); [apply stops_lt_app; assumption| |exact Hf]. intros f' Hf'. apply H2; assumption.
Qed.

Lemma tk_text : forall t, forallb not_lt t = true -> tk t (text_tok t).
Proof. intros t Ht X lX SX HX f Hf. apply stoks_text_then; assumption. Qed.

Lemma tk0_stag : forall t, tagname_ok (st_name t) = true -> forallb sattr_ok (st_attrs t) = true -> is_ws (st_end t) = true ->
  tk0 (render_stag t) [SOpen (lower (st_name t)) (splain (st_attrs t))].
Proof.
  intros t Hn Hl He X lX HX f Hf. destruct f as [|f]; [lia|]. unfold render_stag in *. rewrite <- !app_assoc in *.
  pose proof (stoks_open f (st_name t) (st_attrs t) (st_end t) false X Hn Hl He ltac:(discriminate)) as P.
  unfold tag_end in P. rewrite <- !app_assoc in P. rewrite P.
  rewrite (HX f); [reflexivity|]. cbn [app length] in Hf. rewrite !app_length in Hf. cbn [length] in Hf. lia.
Qed.

Lemma tk0_sclose : forall c, tagname_ok (fst c) = true -> is_ws (snd c) = true ->
  tk0 (render_sclose c) [SClose (lower (fst c))].
Proof.
  intros [n w] Hn Hw X lX HX f Hf. destruct f as [|f]; [lia|]. cbn [fst snd] in *.
  rewrite (stoks_close f n w X Hn Hw). rewrite (HX f); [reflexivity|].
  unfold render_sclose in Hf. cbn [fst snd app length] in Hf. rewrite !app_length in Hf. cbn [length] in Hf. lia.
Qed.

Lemma tk0_sbr : forall b, sbr_ok b = true -> tk0 (render_sbr b) [SOpen (lit "br") []].
Proof.
  intros b H X lX HX f Hf. unfold sbr_ok in H. apply andb_true_iff in H. destruct H as [H H0].
  apply andb_true_iff in H. destruct H as [H H1].
  destruct f as [|f]; [lia|]. unfold render_sbr in *. rewrite <- !app_assoc in *.
  pose proof (stoks_open f (br_name b) [] (br_ws b) (br_slash b) X H eq_refl H0 (fun _ => eq_refl)) as P.
  unfold tag_end in P. cbn [flat_map app] in P. rewrite <- !app_assoc in P. cbn [app] in P |- *. rewrite P.
  rewrite (str_eqb_eq _ _ H1).
  rewrite (HX f); [reflexivity|]. cbn [app length] in Hf. rewrite !app_length in Hf. cbn [length] in Hf. lia.
Qed.

Lemma is_ws_not_amp : forall w, is_ws w = true -> forallb (fun c => negb (c =? 38)) w = true.
Proof. intros w. apply forallb_imp. intros c H. apply xws_facts in H. destruct H as (_ & _ & _ & _ & E & _). rewrite E. reflexivity. Qed.

Lemma text_tok_ws : forall w, is_ws w = true -> text_tok w = match w with [] => [] | _ => [SText w] end.
Proof.
  intros [|c w] H; [reflexivity|]. unfold text_tok. rewrite <- (app_nil_r (c :: w)) at 1.
  rewrite (sunescape_plain _ _ (is_ws_not_amp _ H)). cbn [sunescape]. rewrite app_nil_r. reflexivity.
Qed.

Lemma tk_ws : forall w, is_ws w = true -> tk w (text_tok w).
Proof. intros w H. apply tk_text. apply is_ws_not_lt. exact H. Qed.

Lemma text_tok_srun : forall r, forallb schar_ok r = true ->
  text_tok (render_srun r) = match r with [] => [] | _ => [SText (srun_val r)] end.
Proof.
  intros [|x r] H; [reflexivity|]. unfold text_tok.
  pose proof (sunescape_srun (x :: r) [] H) as U. rewrite app_nil_r in U. cbn [sunescape] in U. rewrite app_nil_r in U. rewrite U.
  destruct (render_srun (x :: r)) eqn:E; [|reflexivity].
  unfold render_srun in E. cbn [flat_map] in E. apply app_eq_nil in E. destruct E as [E _]. exfalso. exact (render_schar_nonempty x E).
Qed.

Definition toks_content (c : scontent) : list stok :=
  flat_map (fun it : srun * sbr => text_tok (render_srun (fst it)) ++ [SOpen (lit "br") []]) (fst c)
  ++ text_tok (render_srun (snd c)).

Lemma lt_start_sbr : forall b X, lt_start (render_sbr b ++ X).
Proof. intros. reflexivity. Qed.
Lemma lt_start_stag : forall t X, lt_start (render_stag t ++ X).
Proof. intros. reflexivity. Qed.
Lemma lt_start_sclose : forall c X, lt_start (render_sclose c ++ X).
Proof. intros. reflexivity. Qed.

Lemma tk_content : forall c, scontent_ok c = true -> tk (render_scontent c) (toks_content c).
Proof.
  intros [items last] H. unfold scontent_ok, render_scontent, toks_content in *. cbn [fst snd] in *.
  apply andb_true_iff in H. destruct H as [Hi Hl].
  induction items as [|[r b] items IH].
  - cbn [flat_map app]. apply tk_text. apply render_srun_not_lt. exact Hl.
  - cbn [forallb fst snd] in Hi. apply andb_true_iff in Hi. destruct Hi as [Hrb Hi]. apply andb_true_iff in Hrb. destruct Hrb as [Hr Hb].
    cbn [flat_map fst snd]. rewrite <- !app_assoc.
    apply tk_app_lt; [apply tk_text; apply render_srun_not_lt; exact Hr| |apply lt_start_sbr].
    apply tk0_app_tk; [apply tk0_sbr; exact Hb|]. exact (IH Hi).
Qed.

Definition toks_par (p : spar) : list stok :=
  SOpen (lit "p") (splain (st_attrs (sp_tag p))) :: toks_content (sp_content p) ++ SClose (lit "p") :: text_tok (sp_after p).

Lemma stag_parts : forall ln t, stag_ok ln t = true ->
  tagname_ok (st_name t) = true /\ lower (st_name t) = ln /\ forallb sattr_ok (st_attrs t) = true /\ is_ws (st_end t) = true.
Proof.
  intros ln t H. unfold stag_ok in H. apply andb_true_iff in H. destruct H as [H H4].
  apply andb_true_iff in H. destruct H as [H H3]. apply andb_true_iff in H. destruct H as [H1 H2].
  repeat split; try assumption. apply str_eqb_eq. assumption.
Qed.
Lemma sclose_parts : forall ln c, sclose_ok ln c = true ->
  tagname_ok (fst c) = true /\ lower (fst c) = ln /\ is_ws (snd c) = true.
Proof.
  intros ln c H. unfold sclose_ok in H. apply andb_true_iff in H. destruct H as [H H3].
  apply andb_true_iff in H. destruct H as [H1 H2].
  repeat split; try assumption. apply str_eqb_eq. assumption.
Qed.

Lemma tk_par : forall default styles p, spar_ok default styles p = true -> tk (render_spar p) (toks_par p).
Proof.
  intros default styles p H. unfold spar_ok in H. apply andb_true_iff in H. destruct H as [H _].
  apply andb_true_iff in H. destruct H as [H H0]. apply andb_true_iff in H. destruct H as [H H1].
  apply andb_true_iff in H. destruct H as [H H2].
  destruct (stag_parts _ _ H) as (T1 & T2 & T3 & T4). destruct (sclose_parts _ _ H1) as (C1 & C2 & C3).
  unfold render_spar, toks_par.
  change (SOpen (lit "p") (splain (st_attrs (sp_tag p))) :: toks_content (sp_content p) ++ SClose (lit "p") :: text_tok (sp_after p))
    with ([SOpen (lit "p") (splain (st_attrs (sp_tag p)))] ++ toks_content (sp_content p) ++ [SClose (lit "p")] ++ text_tok (sp_after p)).
  apply tk0_app_tk; [rewrite <- T2; apply tk0_stag; assumption|].
  apply tk_app_lt; [apply tk_content; exact H2| |apply lt_start_sclose].
  apply tk0_app_tk; [rewrite <- C2; apply tk0_sclose; assumption|apply tk_ws; exact H0].
Qed.

Lemma tk_flat_map : forall (A : Type) (r : A -> str) (t : A -> list stok) (l : list A),
  (forall x, In x l -> tk (r x) (t x) /\ lt_start (r x)) -> tk (flat_map r l) (flat_map t l).
Proof.
  intros A r t l H. induction l as [|x l IH]; [exact tk_nil|]. cbn [flat_map].
  destruct (H x (or_introl eq_refl)) as [Hx _].
  apply tk_app_lt; [exact Hx|apply IH; intros y Hy; apply H; right; exact Hy|].
  destruct l as [|y l]; [exact I|]. cbn [flat_map]. destruct (H y (or_intror (or_introl eq_refl))) as [_ Ly].
  destruct (r y); [|exact Ly]. cbn [app]. clear - H. 
  (* the next piece is empty: look further *)
  induction l as [|z l IHl]; [exact I|]. cbn [flat_map].
  destruct (H z (or_intror (or_intror (or_introl eq_refl)))) as [_ Lz]. destruct (r z); [|exact Lz]. cbn [app].
  apply IHl. intros w [Hw|[Hw|Hw]]; apply H; [left; exact Hw|right; left; exact Hw|right; right; right; exact Hw].
Qed.

Definition toks_sync (s : ssync) : list stok :=
  SOpen (lit "sync") (splain (st_attrs (ss_tag s))) :: text_tok (ss_ws s) ++ flat_map toks_par (ss_ps s)
  ++ SClose (lit "sync") :: text_tok (ss_after s).

Lemma lt_start_spar : forall p, lt_start (render_spar p).
Proof. intros. reflexivity. Qed.
Lemma lt_start_ssync : forall s, lt_start (render_ssync s).
Proof. intros. reflexivity. Qed.

Lemma ssync_parts : forall default styles s, ssync_ok default styles s = true ->
  stag_ok (lit "sync") (ss_tag s) = true /\ is_ws (ss_ws s) = true /\ forallb (spar_ok default styles) (ss_ps s) = true
  /\ sclose_ok (lit "sync") (ss_close s) = true /\ is_ws (ss_after s) = true
  /\ attr_get (lit "start") (splain (st_attrs (ss_tag s))) = Some (padded (ss_pad s) (ss_ms s)).
Proof.
  intros default styles s H. unfold ssync_ok in H.
  apply andb_true_iff in H. destruct H as [H H6]. apply andb_true_iff in H. destruct H as [H H5].
  apply andb_true_iff in H. destruct H as [H H4]. apply andb_true_iff in H. destruct H as [H H3].
  apply andb_true_iff in H. destruct H as [H1 H2]. repeat split; try assumption.
  unfold opt_str_eqb in H6. destruct (attr_get (lit "start") (splain (st_attrs (ss_tag s)))) as [x|]; [|discriminate].
  rewrite (str_eqb_eq _ _ H6). reflexivity.
Qed.

Lemma tk_sync : forall default styles s, ssync_ok default styles s = true -> tk (render_ssync s) (toks_sync s).
Proof.
  intros default styles s H. destruct (ssync_parts _ _ _ H) as (H1 & H2 & H3 & H4 & H5 & _).
  destruct (stag_parts _ _ H1) as (T1 & T2 & T3 & T4). destruct (sclose_parts _ _ H4) as (C1 & C2 & C3).
  unfold render_ssync, toks_sync.
  change (SOpen (lit "sync") (splain (st_attrs (ss_tag s))) :: text_tok (ss_ws s) ++ flat_map toks_par (ss_ps s)
          ++ SClose (lit "sync") :: text_tok (ss_after s))
    with ([SOpen (lit "sync") (splain (st_attrs (ss_tag s)))] ++ text_tok (ss_ws s) ++ flat_map toks_par (ss_ps s)
          ++ [SClose (lit "sync")] ++ text_tok (ss_after s)).
  apply tk0_app_tk; [rewrite <- T2; apply tk0_stag; assumption|].
  assert (L : lt_start (flat_map render_spar (ss_ps s) ++ render_sclose (ss_close s) ++ ss_after s)).
  { destruct (ss_ps s); reflexivity. }
  apply tk_app_lt; [apply tk_ws; exact H2| |exact L].
  apply tk_app_lt; [| |apply lt_start_sclose].
  - apply tk_flat_map. intros p Hp. split; [|apply lt_start_spar].
    rewrite forallb_forall in H3. exact (tk_par default styles p (H3 p Hp)).
  - apply tk0_app_tk; [rewrite <- C2; apply tk0_sclose; assumption|apply tk_ws; exact H5].
Qed.

Definition toks_doc (d : sdoc) : list stok :=
  SOpen (lower (st_name (sd_open d))) (splain (st_attrs (sd_open d))) :: text_tok (sd_ws d)
  ++ flat_map toks_sync (sd_syncs d)
  ++ flat_map (fun c : (str * str) * str => SClose (lower (fst (fst c))) :: text_tok (snd c)) (sd_tail d).

Lemma other_name_ok : forall n, other_name n = true -> tagname_ok n = true.
Proof. intros n H. unfold other_name in H. apply andb_true_iff in H. destruct H as [H _]. apply andb_true_iff in H. tauto. Qed.

Lemma sdoc_parts : forall default styles d, sdoc_ok default styles d = true ->
  other_name (st_name (sd_open d)) = true /\ forallb sattr_ok (st_attrs (sd_open d)) = true /\ is_ws (st_end (sd_open d)) = true
  /\ is_ws (sd_ws d) = true /\ forallb (ssync_ok default styles) (sd_syncs d) = true
  /\ forallb (fun c : (str * str) * str => other_name (fst (fst c)) && is_ws (snd (fst c)) && is_ws (snd c)) (sd_tail d) = true.
Proof.
  intros default styles d H. unfold sdoc_ok in H.
  apply andb_true_iff in H. destruct H as [H H6]. apply andb_true_iff in H. destruct H as [H H5].
  apply andb_true_iff in H. destruct H as [H H4]. apply andb_true_iff in H. destruct H as [H H3].
  apply andb_true_iff in H. destruct H as [H1 H2]. repeat split; assumption.
Qed.

Theorem stoks_doc : forall default styles d, sdoc_ok default styles d = true ->
  stoks (S (length (render_sdoc d))) (render_sdoc d) = Some (toks_doc d).
Proof.
  intros default styles d H. destruct (sdoc_parts _ _ _ H) as (H1 & H2 & H3 & H4 & H5 & H6).
  assert (T : tk (render_sdoc d) (toks_doc d)).
  { unfold render_sdoc, toks_doc.
    change (SOpen (lower (st_name (sd_open d))) (splain (st_attrs (sd_open d))) :: text_tok (sd_ws d)
            ++ flat_map toks_sync (sd_syncs d)
            ++ flat_map (fun c : (str * str) * str => SClose (lower (fst (fst c))) :: text_tok (snd c)) (sd_tail d))
      with ([SOpen (lower (st_name (sd_open d))) (splain (st_attrs (sd_open d)))] ++ text_tok (sd_ws d)
            ++ flat_map toks_sync (sd_syncs d)
            ++ flat_map (fun c : (str * str) * str => SClose (lower (fst (fst c))) :: text_tok (snd c)) (sd_tail d)).
    apply tk0_app_tk; [apply tk0_stag; [apply other_name_ok; exact H1|exact H2|exact H3]|].
    assert (L2 : lt_start (flat_map (fun c : (str * str) * str => render_sclose (fst c) ++ snd c) (sd_tail d))).
    { destruct (sd_tail d); reflexivity. }
    assert (L : lt_start (flat_map render_ssync (sd_syncs d)
                          ++ flat_map (fun c : (str * str) * str => render_sclose (fst c) ++ snd c) (sd_tail d))).
    { destruct (sd_syncs d); [exact L2|reflexivity]. }
    apply tk_app_lt; [apply tk_ws; exact H4| |exact L].
    apply tk_app_lt; [| |exact L2].
    - apply tk_flat_map. intros s Hs. split; [|apply lt_start_ssync].
      rewrite forallb_forall in H5. exact (tk_sync default styles s (H5 s Hs)).
    - apply tk_flat_map. intros c Hc. split; [|reflexivity].
      rewrite forallb_forall in H6. specialize (H6 c Hc). apply andb_true_iff in H6. destruct H6 as [H6 W2].
      apply andb_true_iff in H6. destruct H6 as [N W1].
      change (SClose (lower (fst (fst c))) :: text_tok (snd c)) with ([SClose (lower (fst (fst c)))] ++ text_tok (snd c)).
      apply tk0_app_tk; [apply tk0_sclose; [apply other_name_ok; exact N|exact W1]|apply tk_ws; exact W2]. }
  pose proof (T [] [] I (fun f Hf => ltac:(destruct f; [cbn in Hf; lia|reflexivity])) (S (length (render_sdoc d)))) as P.
  rewrite !app_nil_r in P. apply P. lia.
Qed.

(* ---- the machine on the tokens of a document ---------------------------------------------------------------------- *)
Section Machine.
Context (default : str) (styles : list (str * str)).
Let step := sstep default styles.
Definition add_lang (lg : list str) (l : str) : list str := if existsb (str_eqb l) lg then lg else lg ++ [l].

Lemma fold_text_closed : forall w sy cur lg rest,
  fold_left step (text_tok w ++ rest) (mkSst sy cur None lg) = fold_left step rest (mkSst sy cur None lg).
Proof. intros [|c w] sy cur lg rest; reflexivity. Qed.

Lemma fold_run : forall r sy cur l txt lg rest, forallb schar_ok r = true ->
  fold_left step (text_tok (render_srun r) ++ rest) (mkSst sy cur (Some (l, txt)) lg)
  = fold_left step rest (mkSst sy cur (Some (l, txt ++ srun_val r)) lg).
Proof.
  intros r sy cur l txt lg rest H. rewrite (text_tok_srun r H). destruct r as [|x r].
  - cbn [app srun_val map]. rewrite app_nil_r. reflexivity.
  - reflexivity.
Qed.

Lemma fold_content : forall c sy cur l txt lg rest, scontent_ok c = true ->
  fold_left step (toks_content c ++ rest) (mkSst sy cur (Some (l, txt)) lg)
  = fold_left step rest (mkSst sy cur (Some (l, txt ++ scontent_text c)) lg).
Proof.
  intros [items last] sy cur l txt lg rest H. unfold scontent_ok, toks_content, scontent_text in *. cbn [fst snd] in *.
  apply andb_true_iff in H. destruct H as [Hi Hl]. revert txt.
  induction items as [|[r b] items IH]; intros txt.
  - cbn [flat_map app]. apply fold_run. exact Hl.
  - cbn [forallb fst snd] in Hi. apply andb_true_iff in Hi. destruct Hi as [Hrb Hi]. apply andb_true_iff in Hrb. destruct Hrb as [Hr _].
    cbn [flat_map fst snd]. rewrite <- !app_assoc. rewrite (fold_run r _ _ _ _ _ _ Hr). cbn [app fold_left].
    change (step (mkSst sy cur (Some (l, txt ++ srun_val r)) lg) (SOpen (lit "br") [])) with (mkSst sy cur (Some (l, txt ++ srun_val r)) lg).
    rewrite app_assoc. rewrite (IH Hi). rewrite <- app_assoc. reflexivity.
Qed.

Definition par_obs (p : spar) : str * bool := (sp_lang p, has_visible_char (scontent_text (sp_content p))).

Lemma fold_par : forall p sy start ps lg rest, spar_ok default styles p = true ->
  fold_left step (toks_par p ++ rest) (mkSst sy (Some (start, ps)) None lg)
  = fold_left step rest (mkSst sy (Some (start, ps ++ [par_obs p])) None (add_lang lg (sp_lang p))).
Proof.
  intros p sy start ps lg rest H. unfold spar_ok in H. apply andb_true_iff in H. destruct H as [H HL].
  apply andb_true_iff in H. destruct H as [H _]. apply andb_true_iff in H. destruct H as [H _].
  apply andb_true_iff in H. destruct H as [_ Hc]. apply str_eqb_eq in HL.
  unfold toks_par. cbn [app fold_left]. unfold step at 2. cbn [sstep].
  change (str_eqb (lit "p") (lit "sync")) with false. change (str_eqb (lit "p") (lit "p")) with true. cbv iota.
  cbn [close_p st_p st_syncs st_cur st_langs]. rewrite HL.
  fold (add_lang lg (sp_lang p)). rewrite <- app_assoc. fold step.
  rewrite (fold_content (sp_content p) _ _ _ _ _ _ Hc). cbn [app fold_left]. unfold step at 2. cbn [sstep].
  change (str_eqb (lit "p") (lit "sync")) with false. change (str_eqb (lit "p") (lit "p")) with true. cbv iota.
  cbn [close_p st_p st_syncs st_cur st_langs]. fold step. rewrite fold_text_closed. rewrite visible_has. reflexivity.
Qed.

Lemma fold_pars : forall l sy start ps lg rest, forallb (spar_ok default styles) l = true ->
  fold_left step (flat_map toks_par l ++ rest) (mkSst sy (Some (start, ps)) None lg)
  = fold_left step rest (mkSst sy (Some (start, ps ++ map par_obs l)) None (fold_left add_lang (map sp_lang l) lg)).
Proof.
  induction l as [|p l IH]; intros sy start ps lg rest H.
  - cbn [flat_map app map fold_left]. rewrite app_nil_r. reflexivity.
  - cbn [forallb] in H. apply andb_true_iff in H. destruct H as [Hp Hl].
    cbn [flat_map]. rewrite <- app_assoc, (fold_par p _ _ _ _ _ Hp), (IH _ _ _ _ _ Hl).
    cbn [map fold_left]. rewrite <- app_assoc. reflexivity.
Qed.

Definition sync_obs (s : ssync) : xsync := (Some (padded (ss_pad s) (ss_ms s)), map par_obs (ss_ps s)).

Lemma fold_sync : forall s sy lg rest, ssync_ok default styles s = true ->
  fold_left step (toks_sync s ++ rest) (mkSst sy None None lg)
  = fold_left step rest (mkSst (sy ++ [sync_obs s]) None None (fold_left add_lang (map sp_lang (ss_ps s)) lg)).
Proof.
  intros s sy lg rest H. destruct (ssync_parts _ _ _ H) as (_ & _ & H3 & _ & _ & H6).
  unfold toks_sync. cbn [app fold_left]. unfold step at 2. cbn [sstep].
  change (str_eqb (lit "sync") (lit "sync")) with true. cbv iota.
  cbn [close_sync close_p st_p st_syncs st_cur st_langs]. rewrite H6. fold step.
  rewrite <- !app_assoc. rewrite fold_text_closed. rewrite (fold_pars _ _ _ _ _ _ H3).
  cbn [app fold_left]. unfold step at 2. cbn [sstep]. change (str_eqb (lit "sync") (lit "sync")) with true. cbv iota.
  cbn [close_sync close_p st_p st_syncs st_cur st_langs app]. fold step. rewrite fold_text_closed. reflexivity.
Qed.

Lemma fold_syncs : forall l sy lg rest, forallb (ssync_ok default styles) l = true ->
  fold_left step (flat_map toks_sync l ++ rest) (mkSst sy None None lg)
  = fold_left step rest (mkSst (sy ++ map sync_obs l) None None
                               (fold_left add_lang (flat_map (fun s => map sp_lang (ss_ps s)) l) lg)).
Proof.
  induction l as [|s l IH]; intros sy lg rest H.
  - cbn [flat_map app map fold_left]. rewrite app_nil_r. reflexivity.
  - cbn [forallb] in H. apply andb_true_iff in H. destruct H as [Hs Hl].
    cbn [flat_map]. rewrite <- app_assoc, (fold_sync s _ _ _ Hs), (IH _ _ _ Hl).
    cbn [map]. rewrite <- app_assoc, fold_left_app. reflexivity.
Qed.

Lemma other_not : forall n, other_name n = true -> str_eqb (lower n) (lit "sync") = false /\ str_eqb (lower n) (lit "p") = false.
Proof.
  intros n H. unfold other_name in H. apply andb_true_iff in H. destruct H as [H S]. apply andb_true_iff in H. destruct H as [_ P].
  apply negb_true_iff in S. apply negb_true_iff in P. tauto.
Qed.

Lemma fold_tail : forall tl sy lg, forallb (fun c : (str * str) * str => other_name (fst (fst c)) && is_ws (snd (fst c)) && is_ws (snd c)) tl = true ->
  fold_left step (flat_map (fun c : (str * str) * str => SClose (lower (fst (fst c))) :: text_tok (snd c)) tl) (mkSst sy None None lg)
  = mkSst sy None None lg.
Proof.
  induction tl as [|c tl IH]; intros sy lg H; [reflexivity|].
  cbn [forallb] in H. apply andb_true_iff in H. destruct H as [Hc Ht]. apply andb_true_iff in Hc. destruct Hc as [Hc _].
  apply andb_true_iff in Hc. destruct Hc as [N _]. destruct (other_not _ N) as [E1 E2].
  cbn [flat_map app fold_left]. unfold step at 2. cbn [sstep]. rewrite E1, E2. fold step.
  rewrite fold_text_closed. exact (IH sy lg Ht).
Qed.

Theorem machine_doc : forall d, sdoc_ok default styles d = true ->
  sami_machine default styles (toks_doc d)
  = (first_seen (flat_map (fun s => map sp_lang (ss_ps s)) (sd_syncs d)), map sync_obs (sd_syncs d)).
Proof.
  intros d H. destruct (sdoc_parts _ _ _ H) as (H1 & _ & _ & _ & H5 & H6). destruct (other_not _ H1) as [E1 E2].
  assert (E : fold_left step (toks_doc d) (mkSst [] None None [])
              = mkSst (map sync_obs (sd_syncs d)) None None
                      (fold_left add_lang (flat_map (fun s => map sp_lang (ss_ps s)) (sd_syncs d)) [])).
  { unfold toks_doc. cbn [fold_left]. unfold step at 2. cbn [sstep]. rewrite E1, E2. fold step.
    rewrite fold_text_closed, (fold_syncs _ _ _ _ H5), (fold_tail _ _ _ H6). reflexivity. }
  unfold sami_machine. fold step. rewrite E. reflexivity.
Qed.
End Machine.

(* ---- the string-level theorem ------------------------------------------------------------------------------------ *)
Lemma sync_obs_render : forall d, map sync_obs (sd_syncs d) = map async_render (sdoc_body d).
Proof. intros d. unfold sdoc_body. rewrite map_map. reflexivity. Qed.

Theorem sami_string_exact : forall default styles d,
  sdoc_ok default styles d = true -> sami_tree_dom (sdoc_langs d) (sdoc_body d) = true ->
  sami_read_string default styles (render_sdoc d) = sdoc_expected d.
Proof.
  intros default styles d H D. unfold sami_read_string.
  rewrite (stoks_doc default styles d H), (machine_doc default styles d H). cbn [fst snd].
  rewrite sync_obs_render. unfold sdoc_expected. exact (sami_tree_exact (sdoc_langs d) (sdoc_body d) D).
Qed.
