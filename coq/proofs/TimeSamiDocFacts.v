(* C02 (wave 5): the SAMI DOCUMENT with several languages.  model/Langs.v (sccw) models where SAMIWriter puts every
   paragraph (_recreate_sync / _find_closest_sync: the first language appends its syncs, a further language adds its
   paragraph to the first sync of that start or inserts a new sync after the last earlier / before the first later one);
   proofs/SamiSyncFacts.v proves that for sorted languages the paragraphs of a class stand in the writer's order.
   Here: what a reader of the document sees per language - (start ms of the enclosing sync, is it the blank paragraph) in
   DOCUMENT ORDER - is the statement's sync rule (spec/SpecTimeW.v sami_rule) and satisfies the extracted oracle
   ok_sami_ms, (a) for the FIRST language whatever its shape and whatever follows, (b) for EVERY language of a set whose
   languages are all timelines, for any number of languages; (c) refuted for a further language that is no timeline. *)
From Coq Require Import List ZArith QArith Qround Lia Bool ZifyBool.
From PV Require Import lib.Sx lib.Str lib.Result model.Langs spec.SpecTimeW spec.SpecTimeSamiDoc proofs.SamiSyncFacts proofs.TimeWriteFacts.
Import ListNotations.
Open Scope Z_scope.

Lemma doc_obs_cpars : forall cls b, doc_obs cls b = map (fun q => (fst q, is_blank_par (snd q))) (cpars cls b).
Proof.
  intros cls b. unfold doc_obs, cpars. induction b as [|s r IH]; [reflexivity|].
  cbn [flat_map]. rewrite map_app, IH, map_map. reflexivity.
Qed.

Lemma floor_ms_inj : forall z, floor_ms (inject_Z z) = z / 1000.
Proof. intros z. rewrite floor_ms_div. rewrite Qfloor_Z. reflexivity. Qed.

Lemma timeline_caps_sorted : forall caps lo, timeline_us lo caps -> caps_sorted (lo / 1000) caps.
Proof.
  induction caps as [|c t IH]; intros lo H; cbn [timeline_us caps_sorted] in *; [exact I|].
  destruct H as (H1 & H2 & H3). repeat split.
  - apply Z.div_le_mono; lia.
  - apply Z.div_le_mono; lia.
  - apply IH. exact H3.
Qed.

(* the writer's paragraph sequence of one language, observed, IS the rule: the blank that the writer emits before
   cue i+1 is the blank the rule puts after cue i *)
Lemma lang_pars_rule : forall caps last, texts_ok caps ->
  map (fun q => (fst q, is_blank_par (snd q))) (lang_pars caps last)
  = (match caps with
     | c :: _ => if blank_due last (wc_start c / 1000) then [(last_or0 last, true)] else []
     | [] => []
     end) ++ sami_rule (wspans caps).
Proof.
  induction caps as [|c t IH]; intros last T; [reflexivity|].
  cbn [lang_pars wspans map sami_rule]. fold (wspans t).
  rewrite map_app. cbn [map fst snd].
  assert (Tc : is_blank_par (wc_text c) = false) by (apply T; left; reflexivity).
  assert (Tt : texts_ok t) by (intros x Hx; apply T; right; exact Hx).
  rewrite Tc, (IH (Some (wc_end c / 1000)) Tt). rewrite floor_ms_inj.
  assert (B : map (fun q : Z * str => (fst q, is_blank_par (snd q)))
                (if blank_due last (wc_start c / 1000) then [(last_or0 last, nbsp_text)] else [])
              = if blank_due last (wc_start c / 1000) then [(last_or0 last, true)] else []).
  { destruct (blank_due last (wc_start c / 1000)); [|reflexivity]. cbn [map fst snd]. unfold is_blank_par.
    rewrite str_eqb_same. reflexivity. }
  rewrite B. f_equal. f_equal.
  destruct t as [|c' t']; [reflexivity|].
  cbn [wspans map]. rewrite !floor_ms_inj. cbn [blank_due last_or0].
  destruct (wc_start c' / 1000 =? wc_end c / 1000) eqn:E; cbn [negb]; reflexivity.
Qed.

Lemma lang_pars_rule_none : forall caps, texts_ok caps ->
  map (fun q => (fst q, is_blank_par (snd q))) (lang_pars caps None) = sami_rule (wspans caps).
Proof. intros caps T. rewrite (lang_pars_rule caps None T). destruct caps; reflexivity. Qed.

(* ---- no paragraph of another class ever changes what is observed for a class ----------------------------------- *)
Lemma write_lang_other : forall pr cls cls' caps last b, str_eqb cls cls' = false ->
  cpars cls' (write_lang pr cls caps last b) = cpars cls' b.
Proof.
  induction caps as [|c t IH]; intros last b N; cbn [write_lang]; [reflexivity|].
  rewrite IH by exact N.
  destruct (placed_other_class cls' cls _ (wc_text c) _ _ (place_placed pr (wc_start c / 1000) (cls, wc_text c)
             (if blank_due last (wc_start c / 1000) then place pr (last_or0 last) (cls, nbsp_text) b else b)) N) as [Q _].
  rewrite Q. destruct (blank_due last (wc_start c / 1000)); [|reflexivity].
  destruct (placed_other_class cls' cls _ nbsp_text _ _ (place_placed pr (last_or0 last) (cls, nbsp_text) b) N) as [Q2 _].
  exact Q2.
Qed.

Lemma str_eqb_false_neq : forall a b, a <> b -> str_eqb a b = false.
Proof. intros a b N. destruct (str_eqb a b) eqn:Q; [|reflexivity]. apply str_eqb_true_eq in Q. contradiction. Qed.

Lemma write_langs_other : forall cs first cls' b, ~ In cls' (map fst cs) ->
  cpars cls' (write_langs first cs b) = cpars cls' b.
Proof.
  induction cs as [|[l caps] t IH]; intros first cls' b N; cbn [write_langs]; [reflexivity|].
  rewrite IH by (intros C; apply N; right; exact C).
  apply write_lang_other. apply str_eqb_false_neq. intros E. apply N. left. exact E.
Qed.

(* (a) the FIRST language: any cues at all (overlapping, nested, unsorted, repeated), any further languages *)
Theorem sami_first_language_rule : forall l0 caps0 rest, ~ In l0 (map fst rest) -> texts_ok caps0 ->
  doc_obs l0 (sami_write ((l0, caps0) :: rest)) = sami_rule (wspans caps0).
Proof.
  intros l0 caps0 rest N T. rewrite doc_obs_cpars. unfold sami_write. cbn [write_langs].
  rewrite (write_langs_other rest false l0 _ N).
  destruct (write_lang_primary_general l0 caps0 None [] (fun y (H : In y []) => match H with end)) as (P0 & _).
  rewrite P0. cbn [cpars flat_map app]. apply lang_pars_rule_none. exact T.
Qed.

(* (b) every language of a set of timelines, for any number of languages *)
Theorem sami_every_language_rule : forall cs, NoDup (map fst cs) ->
  (forall l caps, In (l, caps) cs -> timeline_us 0 caps /\ texts_ok caps) ->
  forall l caps, In (l, caps) cs -> doc_obs l (sami_write cs) = sami_rule (wspans caps).
Proof.
  intros cs N H l caps Hin. rewrite doc_obs_cpars.
  rewrite (sami_language_order cs N) with (caps := caps); [|intros l' caps' H'|exact Hin].
  - apply lang_pars_rule_none. apply (H l caps Hin).
  - change 0 with (0 / 1000). apply timeline_caps_sorted. apply (H l' caps' H').
Qed.

(* ... hence the document satisfies the extracted oracle in every language *)
Theorem sami_document_meets_oracle : forall cs, NoDup (map fst cs) ->
  (forall l caps, In (l, caps) cs -> timeline_us 0 caps /\ texts_ok caps) ->
  forall l caps, In (l, caps) cs -> ok_sami_ms (wspans caps) (doc_obs l (sami_write cs)) = true.
Proof. intros cs N H l caps Hin. rewrite (sami_every_language_rule cs N H l caps Hin). apply sami_rule_ok. Qed.

Theorem sami_first_language_meets_oracle : forall l0 caps0 rest, ~ In l0 (map fst rest) -> texts_ok caps0 ->
  ok_sami_ms (wspans caps0) (doc_obs l0 (sami_write ((l0, caps0) :: rest))) = true.
Proof. intros. rewrite sami_first_language_rule by assumption. apply sami_rule_ok. Qed.

(* (c) a FURTHER language that is no timeline: exactly the rule's syncs, in another order; the oracle refuses *)
Definition ex_en : list wcue := [mkWcue 0 1000000 (lit "a")].
Definition ex_fr : list wcue := [mkWcue 0 1000000 (lit "b"); mkWcue 0 1000000 (lit "c"); mkWcue 3000000 4000000 (lit "d")].
Lemma sami_later_language_order_refuted :
  let cs := [(lit "en", ex_en); (lit "fr", ex_fr)] in
  sami_rule (wspans ex_fr) = [(0, false); (1000, true); (0, false); (1000, true); (3000, false)]
  /\ doc_obs (lit "fr") (sami_write cs) = [(0, false); (0, false); (1000, true); (1000, true); (3000, false)]
  /\ ok_sami_ms (wspans ex_fr) (doc_obs (lit "fr") (sami_write cs)) = false
  /\ doc_obs (lit "fr") (sami_write [(lit "fr", ex_fr); (lit "en", ex_en)]) = sami_rule (wspans ex_fr).
Proof. vm_compute. repeat split; reflexivity. Qed.
