(* C18, heap level: the VALUE computed by the heap operations is the one of the value-level model (Geometry.v):
   decoding the result of Point / Stretch / Padding / Layout.as_percentage_of on a well-formed store gives
   point_as_pct / ... / layout_as_pct of the decoded receiver; the same exception otherwise. *)
From Coq Require Import List ZArith QArith Bool Lia.
From PV Require Import lib.Sx lib.Str lib.Result.
From PV Require Import model.Geometry model.Store model.GeomStore proofs.StoreFacts proofs.GeomEq proofs.GeomStoreFacts.
Import ListNotations.
Open Scope Z_scope.

Lemma field_nonloc : forall st v k, (forall l, v <> VLoc l) -> field st v k = VNone.
Proof. intros st v k H. destruct v; try reflexivity. exfalso. eapply H. reflexivity. Qed.

Lemma field_ext : forall st ext l k, (l < length st)%nat -> field (st ++ ext) (VLoc l) k = field st (VLoc l) k.
Proof. intros st ext l k H. unfold field, items_of. rewrite get_app_l by exact H. reflexivity. Qed.

Lemma field_ext_below : forall st ext v k, below (length st) v -> field (st ++ ext) v k = field st v k.
Proof. intros st ext v k H. destruct v; try reflexivity. apply field_ext. exact H. Qed.

Lemma field_dangling : forall st l k, get st l = None -> field st (VLoc l) k = VNone.
Proof. intros st l k H. unfold field, items_of. rewrite H. reflexivity. Qed.

Lemma dec_size_below : forall st v a, dec_size st v = Some a -> exists l, v = VLoc l /\ (l < length st)%nat.
Proof.
  intros st v a H. destruct v as [z|s| |l]; try (cbn in H; discriminate H).
  exists l. split; [reflexivity|]. destruct (get st l) as [o|] eqn:G; [eapply get_some_lt; exact G|].
  unfold dec_size in H. rewrite !(field_dangling _ _ _ G) in H. discriminate H.
Qed.

Lemma dec_size_ext : forall st ext v a, dec_size st v = Some a -> dec_size (st ++ ext) v = Some a.
Proof.
  intros st ext v a H. destruct (dec_size_below _ _ _ H) as (l & -> & Hl). unfold dec_size in *.
  rewrite !field_ext by exact Hl. exact H.
Qed.

Lemma field_new : forall st k its key,
  field (st ++ [mkObj k its]) (VLoc (length st)) key = match assoc key its with Some x => x | None => VNone end.
Proof. intros. unfold field, items_of. rewrite get_app_new. reflexivity. Qed.

(* a value that has a non-None field is an object of the store *)
Lemma field_loc : forall st v k, field st v k <> VNone -> exists l, v = VLoc l /\ (l < length st)%nat.
Proof.
  intros st v k H. destruct v as [z|s| |l]; try (exfalso; apply H; reflexivity).
  exists l. split; [reflexivity|]. destruct (get st l) as [o|] eqn:G; [eapply get_some_lt; exact G|].
  exfalso. apply H. apply field_dangling. exact G.
Qed.

Lemma wf_field_below : forall st l k, wf st -> below (length st) (field st (VLoc l) k).
Proof.
  intros st l k W. unfold field, items_of. destruct (get st l) as [o|] eqn:G; [|exact I].
  specialize (W l o G). induction (o_items o) as [|[k' x] t IH]; cbn [assoc]; [exact I|].
  inversion W as [|? ? [_ Hx] Wt]; subst. destruct (val_eqb k k'); [exact Hx|apply IH; exact Wt].
Qed.

(* one Size field converted: value, store growth *)
Lemma size_step : forall x w h st a, dec_size st x = Some a ->
  match size_pct_s x w h st, size_as_pct a w h with
  | Ok (st', r), Ok a' => dec_size st' r = Some a' /\ (exists ext, st' = st ++ ext)
  | Err e, Err e' => e = e'
  | _, _ => False
  end.
Proof.
  intros x w h st a D. pose proof (size_pct_value x w h st a D) as V.
  destruct (size_pct_s x w h st) as [[st' r]|e] eqn:E; destruct (size_as_pct a w h) as [a'|e']; try exact V.
  split; [exact V|]. exact (ext_size_pct x w h _ _ _ E).
Qed.

(* Point and Stretch: two Size fields, one new object of kind k *)
Definition two_s (k : Z) (v : val) (w h : option Q) : SM val :=
  run x <~ rd v 1; run x' <~ size_pct_s x w None; run y <~ rd v 2; run y' <~ size_pct_s y None h;
  new k [(VInt 1, x'); (VInt 2, y')].

Lemma two_value : forall {A} (mk : size -> size -> A) k v w h st a b,
  dec_size st (field st v (VInt 1)) = Some a -> dec_size st (field st v (VInt 2)) = Some b ->
  match two_s k v w h st, (do x <- size_as_pct a w None; do y <- size_as_pct b None h; Ok (mk x y)) with
  | Ok (st', r), Ok p' => dec2 mk st' r = Some p' /\ (exists ext, st' = st ++ ext) /\ below (length st') r
  | Err e, Err e' => e = e'
  | _, _ => False
  end.
Proof.
  intros A mk k v w h st a b Da Db.
  assert (Hv : exists l, v = VLoc l /\ (l < length st)%nat).
  { apply (field_loc st v (VInt 1)). intros N. rewrite N in Da. discriminate Da. }
  destruct Hv as (lv & -> & Hlv).
  unfold two_s. unfold bnd at 1. cbn [rd]. unfold bnd at 1.
  pose proof (size_step (field st (VLoc lv) (VInt 1)) w None st a Da) as S1.
  destruct (size_pct_s (field st (VLoc lv) (VInt 1)) w None st) as [[st1 x']|e1]; destruct (size_as_pct a w None) as [a'|e1']; try contradiction.
  2: { cbn [bind]. exact S1. }
  destruct S1 as (Dx & ext1 & ->). cbn [bind]. unfold bnd at 1. cbn [rd]. rewrite field_ext by exact Hlv. unfold bnd at 1.
  pose proof (size_step (field st (VLoc lv) (VInt 2)) None h (st ++ ext1) b (dec_size_ext _ _ _ _ Db)) as S2.
  destruct (size_pct_s (field st (VLoc lv) (VInt 2)) None h (st ++ ext1)) as [[st2 y']|e2]; destruct (size_as_pct b None h) as [b'|e2']; try contradiction.
  2: { cbn [bind]. exact S2. }
  destruct S2 as (Dy & ext2 & ->). cbn [bind]. unfold new, new_obj, alloc.
  split; [|split].
  - unfold dec2. rewrite !field_new. cbn [assoc val_eqb Z.eqb Pos.eqb].
    rewrite (dec_size_ext _ [mkObj k [(VInt 1, x'); (VInt 2, y')]] _ _ Dy).
    rewrite <- app_assoc. rewrite (dec_size_ext _ (ext2 ++ [mkObj k [(VInt 1, x'); (VInt 2, y')]]) _ _ Dx). reflexivity.
  - exists (ext1 ++ ext2 ++ [mkObj k [(VInt 1, x'); (VInt 2, y')]]). rewrite <- !app_assoc. reflexivity.
  - unfold below. rewrite !app_length. cbn [length]. lia.
Qed.

Theorem point_pct_value : forall v w h st p, dec2 mkPoint st v = Some p ->
  match point_pct_s v w h st, point_as_pct p w h with
  | Ok (st', r), Ok p' => dec2 mkPoint st' r = Some p' /\ (exists ext, st' = st ++ ext) /\ below (length st') r
  | Err e, Err e' => e = e'
  | _, _ => False
  end.
Proof.
  intros v w h st p D. unfold dec2 in D.
  destruct (dec_size st (field st v (VInt 1))) as [a|] eqn:Da; [|discriminate D].
  destruct (dec_size st (field st v (VInt 2))) as [b|] eqn:Db; [|discriminate D]. inversion D; subst p.
  exact (two_value mkPoint KPoint v w h st a b Da Db).
Qed.

Theorem stretch_pct_value : forall v w h st p, dec2 mkStretch st v = Some p ->
  match stretch_pct_s v w h st, stretch_as_pct p w h with
  | Ok (st', r), Ok p' => dec2 mkStretch st' r = Some p' /\ (exists ext, st' = st ++ ext) /\ below (length st') r
  | Err e, Err e' => e = e'
  | _, _ => False
  end.
Proof.
  intros v w h st p D. unfold dec2 in D.
  destruct (dec_size st (field st v (VInt 1))) as [a|] eqn:Da; [|discriminate D].
  destruct (dec_size st (field st v (VInt 2))) as [b|] eqn:Db; [|discriminate D]. inversion D; subst p.
  exact (two_value mkStretch KStretch v w h st a b Da Db).
Qed.

(* ---- Padding: four Size fields ------------------------------------------------------------------------------------ *)
Theorem padding_pct_value : forall v w h st p, dec_padding st v = Some p ->
  match padding_pct_s v w h st, padding_as_pct p w h with
  | Ok (st', r), Ok p' => dec_padding st' r = Some p' /\ (exists ext, st' = st ++ ext) /\ below (length st') r
  | Err e, Err e' => e = e'
  | _, _ => False
  end.
Proof.
  intros v w h st p D. unfold dec_padding in D.
  destruct (dec_size st (field st v (VInt 1))) as [a1|] eqn:D1; [|discriminate D].
  destruct (dec_size st (field st v (VInt 2))) as [a2|] eqn:D2; [|discriminate D].
  destruct (dec_size st (field st v (VInt 3))) as [a3|] eqn:D3; [|discriminate D].
  destruct (dec_size st (field st v (VInt 4))) as [a4|] eqn:D4; [|discriminate D]. inversion D; subst p. clear D.
  assert (Hv : exists l, v = VLoc l /\ (l < length st)%nat).
  { apply (field_loc st v (VInt 1)). intros N. rewrite N in D1. discriminate D1. }
  destruct Hv as (lv & -> & Hlv).
  unfold padding_pct_s, padding_as_pct. cbn [pd_before pd_after pd_start pd_end].
  unfold bnd at 1. cbn [rd]. unfold bnd at 1.
  pose proof (size_step _ None h st a1 D1) as S1.
  destruct (size_pct_s (field st (VLoc lv) (VInt 1)) None h st) as [[st1 x1]|e1]; destruct (size_as_pct a1 None h) as [b1|e1']; try contradiction.
  2: { cbn [bind]. exact S1. }
  destruct S1 as (E1 & ext1 & ->). cbn [bind]. unfold bnd at 1. cbn [rd]. rewrite field_ext by exact Hlv. unfold bnd at 1.
  pose proof (size_step _ None h (st ++ ext1) a2 (dec_size_ext _ _ _ _ D2)) as S2.
  destruct (size_pct_s (field st (VLoc lv) (VInt 2)) None h (st ++ ext1)) as [[st2 x2]|e2]; destruct (size_as_pct a2 None h) as [b2|e2']; try contradiction.
  2: { cbn [bind]. exact S2. }
  destruct S2 as (E2 & ext2 & ->). cbn [bind]. unfold bnd at 1. cbn [rd].
  rewrite <- app_assoc. rewrite field_ext by exact Hlv. unfold bnd at 1.
  pose proof (size_step _ w None (st ++ ext1 ++ ext2) a3 (dec_size_ext _ _ _ _ D3)) as S3.
  destruct (size_pct_s (field st (VLoc lv) (VInt 3)) w None (st ++ ext1 ++ ext2)) as [[st3 x3]|e3]; destruct (size_as_pct a3 w None) as [b3|e3']; try contradiction.
  2: { cbn [bind]. exact S3. }
  destruct S3 as (E3 & ext3 & ->). cbn [bind]. unfold bnd at 1. cbn [rd].
  rewrite <- app_assoc. rewrite field_ext by exact Hlv. unfold bnd at 1.
  pose proof (size_step _ w None (st ++ (ext1 ++ ext2) ++ ext3) a4 (dec_size_ext _ _ _ _ D4)) as S4.
  destruct (size_pct_s (field st (VLoc lv) (VInt 4)) w None (st ++ (ext1 ++ ext2) ++ ext3)) as [[st4 x4]|e4]; destruct (size_as_pct a4 w None) as [b4|e4']; try contradiction.
  2: { cbn [bind]. exact S4. }
  destruct S4 as (E4 & ext4 & ->). cbn [bind]. unfold new, new_obj, alloc.
  set (o := mkObj KPadding [(VInt 1, x1); (VInt 2, x2); (VInt 3, x3); (VInt 4, x4)]).
  split; [|split].
  - unfold dec_padding. subst o. rewrite !field_new. cbn [assoc val_eqb Z.eqb Pos.eqb].
    set (o := mkObj KPadding [(VInt 1, x1); (VInt 2, x2); (VInt 3, x3); (VInt 4, x4)]).
    rewrite (dec_size_ext _ [o] _ _ E4).
    assert (X3 : dec_size (((st ++ (ext1 ++ ext2) ++ ext3) ++ ext4) ++ [o]) x3 = Some b3).
    { replace (((st ++ (ext1 ++ ext2) ++ ext3) ++ ext4) ++ [o]) with (((st ++ ext1 ++ ext2) ++ ext3) ++ (ext4 ++ [o]))
        by (rewrite <- ?app_assoc; reflexivity). apply dec_size_ext. exact E3. }
    assert (X2 : dec_size (((st ++ (ext1 ++ ext2) ++ ext3) ++ ext4) ++ [o]) x2 = Some b2).
    { replace (((st ++ (ext1 ++ ext2) ++ ext3) ++ ext4) ++ [o]) with (((st ++ ext1) ++ ext2) ++ (ext3 ++ ext4 ++ [o]))
        by (rewrite <- ?app_assoc; reflexivity). apply dec_size_ext. exact E2. }
    assert (X1 : dec_size (((st ++ (ext1 ++ ext2) ++ ext3) ++ ext4) ++ [o]) x1 = Some b1).
    { replace (((st ++ (ext1 ++ ext2) ++ ext3) ++ ext4) ++ [o]) with ((st ++ ext1) ++ (ext2 ++ ext3 ++ ext4 ++ [o]))
        by (rewrite <- ?app_assoc; reflexivity). apply dec_size_ext. exact E1. }
    rewrite X1, X2, X3. reflexivity.
  - eexists. rewrite <- !app_assoc. reflexivity.
  - unfold below. rewrite !app_length. cbn [length]. lia.
Qed.

(* ---- Layout.as_percentage_of --------------------------------------------------------------------------------------- *)
Definition stage_ok {A} (dec : store -> val -> option A) (fs : val -> SM val) (f : A -> result A) : Prop :=
  forall st x a, dec st x = Some a ->
  match fs x st, f a with
  | Ok (st', r), Ok a' => dec st' r = Some a' /\ (exists ext, st' = st ++ ext) /\ below (length st') r
  | Err e, Err e' => e = e'
  | _, _ => False
  end.
Definition stable {A} (dec : store -> val -> option A) : Prop :=
  forall st ext v a, dec st v = Some a -> dec (st ++ ext) v = Some a.
Definition not_none {A} (dec : store -> val -> option A) : Prop := forall st, dec st VNone = None.

Lemma dec_opt_ext : forall {A} (dec : store -> val -> option A) st ext v o,
  stable dec -> dec_opt dec st v = Some o -> dec_opt dec (st ++ ext) v = Some o.
Proof.
  intros A dec st ext v o S H. unfold dec_opt in *. destruct (is_none v); [exact H|].
  destruct (dec st v) as [a|] eqn:D; [|discriminate H]. rewrite (S _ ext _ _ D). exact H.
Qed.

Lemma opt_stage : forall {A} (dec : store -> val -> option A) fs f st x lo,
  stage_ok dec fs f -> not_none dec -> dec_opt dec st x = Some lo ->
  match opt_s fs x st, opt_res f lo with
  | Ok (st', r), Ok lo' => dec_opt dec st' r = Some lo' /\ (exists ext, st' = st ++ ext) /\ below (length st') r
  | Err e, Err e' => e = e'
  | _, _ => False
  end.
Proof.
  intros A dec fs f st x lo S N H. unfold opt_s, dec_opt in *. destruct (is_none x) eqn:I.
  - inversion H; subst lo. cbn [opt_res ret is_none]. split; [reflexivity|]. split; [exists []; symmetry; apply app_nil_r|exact Logic.I].
  - destruct (dec st x) as [a|] eqn:D; [|discriminate H]. inversion H; subst lo. cbn [opt_res].
    pose proof (S st x a D) as K. destruct (fs x st) as [[st' r]|e]; destruct (f a) as [a'|e']; cbn [bind]; try exact K.
    destruct K as (K1 & K2 & K3). split; [|split; assumption].
    destruct r; try (rewrite K1; reflexivity). rewrite N in K1. discriminate K1.
Qed.

Lemma dec2_stable : forall {A} (mk : size -> size -> A), stable (dec2 mk).
Proof.
  intros A mk st ext v a H. unfold dec2 in *.
  destruct (dec_size st (field st v (VInt 1))) as [x|] eqn:D1; [|discriminate H].
  destruct (dec_size st (field st v (VInt 2))) as [y|] eqn:D2; [|discriminate H].
  assert (Hv : exists l, v = VLoc l /\ (l < length st)%nat).
  { apply (field_loc st v (VInt 1)). intros N. rewrite N in D1. discriminate D1. }
  destruct Hv as (l & -> & Hl). rewrite !field_ext by exact Hl.
  rewrite (dec_size_ext _ ext _ _ D1), (dec_size_ext _ ext _ _ D2). exact H.
Qed.
Lemma dec_padding_stable : stable dec_padding.
Proof.
  intros st ext v a H. unfold dec_padding in *.
  destruct (dec_size st (field st v (VInt 1))) as [x1|] eqn:D1; [|discriminate H].
  destruct (dec_size st (field st v (VInt 2))) as [x2|] eqn:D2; [|discriminate H].
  destruct (dec_size st (field st v (VInt 3))) as [x3|] eqn:D3; [|discriminate H].
  destruct (dec_size st (field st v (VInt 4))) as [x4|] eqn:D4; [|discriminate H].
  assert (Hv : exists l, v = VLoc l /\ (l < length st)%nat).
  { apply (field_loc st v (VInt 1)). intros N. rewrite N in D1. discriminate D1. }
  destruct Hv as (l & -> & Hl). rewrite !field_ext by exact Hl.
  rewrite (dec_size_ext _ ext _ _ D1), (dec_size_ext _ ext _ _ D2), (dec_size_ext _ ext _ _ D3), (dec_size_ext _ ext _ _ D4). exact H.
Qed.
Lemma dec2_not_none : forall {A} (mk : size -> size -> A), not_none (dec2 mk).
Proof. intros A mk st. reflexivity. Qed.
Lemma dec_padding_not_none : not_none dec_padding.
Proof. intros st. reflexivity. Qed.

Lemma dec_align_ext : forall st ext v o, below (length st) v ->
  dec_opt dec_align st v = Some o -> dec_opt dec_align (st ++ ext) v = Some o.
Proof.
  intros st ext v o B H. unfold dec_opt, dec_align in *. destruct (is_none v); [exact H|].
  rewrite !(field_ext_below _ _ _ _ B). exact H.
Qed.

Theorem layout_pct_value : forall lv w h st l, wf st -> dec_layout st (VLoc lv) = Some l ->
  match layout_pct_s (VLoc lv) w h st, layout_as_pct l w h with
  | Ok (st', r), Ok l' => dec_layout st' r = Some l'
  | Err e, Err e' => e = e'
  | _, _ => False
  end.
Proof.
  intros lv w h st l W D. unfold dec_layout in D.
  destruct (dec_opt (dec2 mkPoint) st (field st (VLoc lv) (VInt 1))) as [lo|] eqn:Do; [|discriminate D].
  destruct (dec_opt (dec2 mkStretch) st (field st (VLoc lv) (VInt 2))) as [le|] eqn:De; [|discriminate D].
  destruct (dec_opt dec_padding st (field st (VLoc lv) (VInt 3))) as [lp|] eqn:Dp; [|discriminate D].
  destruct (dec_opt dec_align st (field st (VLoc lv) (VInt 4))) as [la|] eqn:Da; [|discriminate D].
  inversion D; subst l. clear D.
  assert (Hlv : (lv < length st)%nat \/ (length st <= lv)%nat) by lia.
  destruct Hlv as [Hlv|Hlv].
  2: { (* a dangling receiver has no fields: everything reads None *)
       assert (G : get st lv = None) by (apply get_none_ge; exact Hlv). rewrite !(field_dangling _ _ _ G) in *.
       cbn in Do, De, Dp, Da. inversion Do; inversion De; inversion Dp; inversion Da; subst.
       unfold layout_pct_s, layout_as_pct. cbn [l_origin l_extent l_padding l_alignment opt_res bind].
       unfold bnd, rd. rewrite !(field_dangling _ _ _ G). cbn [opt_s is_none ret]. rewrite !(field_dangling _ _ _ G).
       cbn [opt_s is_none ret]. rewrite !(field_dangling _ _ _ G). cbn [opt_s is_none ret new new_obj alloc].
       unfold dec_layout. rewrite !field_new. reflexivity. }
  pose proof (wf_field_below st lv (VInt 4) W) as Bal.
  unfold layout_pct_s, layout_as_pct. cbn [l_origin l_extent l_padding l_alignment].
  unfold bnd at 1. cbn [rd]. unfold bnd at 1. cbn [rd]. unfold bnd at 1.
  pose proof (opt_stage (dec2 mkPoint) (fun x => point_pct_s x w h) (fun p => point_as_pct p w h) st _ lo
                (fun st x a Dx => point_pct_value x w h st a Dx) (dec2_not_none mkPoint) Do) as S1.
  destruct (opt_s (fun x => point_pct_s x w h) (field st (VLoc lv) (VInt 1)) st) as [[st1 o']|e1];
    destruct (opt_res (fun p => point_as_pct p w h) lo) as [lo'|e1']; try contradiction.
  2: { cbn [bind]. exact S1. }
  destruct S1 as (E1 & (ext1 & ->) & B1). cbn [bind]. unfold bnd at 1. cbn [rd]. rewrite field_ext by exact Hlv. unfold bnd at 1.
  pose proof (opt_stage (dec2 mkStretch) (fun x => stretch_pct_s x w h) (fun p => stretch_as_pct p w h) (st ++ ext1) _ le
                (fun st x a Dx => stretch_pct_value x w h st a Dx) (dec2_not_none mkStretch)
                (dec_opt_ext _ _ ext1 _ _ (dec2_stable mkStretch) De)) as S2.
  destruct (opt_s (fun x => stretch_pct_s x w h) (field st (VLoc lv) (VInt 2)) (st ++ ext1)) as [[st2 e']|e2];
    destruct (opt_res (fun p => stretch_as_pct p w h) le) as [le'|e2']; try contradiction.
  2: { cbn [bind]. exact S2. }
  destruct S2 as (E2 & (ext2 & ->) & B2). cbn [bind]. unfold bnd at 1. cbn [rd].
  rewrite <- app_assoc. rewrite field_ext by exact Hlv. unfold bnd at 1.
  pose proof (opt_stage dec_padding (fun x => padding_pct_s x w h) (fun p => padding_as_pct p w h) (st ++ ext1 ++ ext2) _ lp
                (fun st x a Dx => padding_pct_value x w h st a Dx) dec_padding_not_none
                (dec_opt_ext _ _ (ext1 ++ ext2) _ _ dec_padding_stable Dp)) as S3.
  destruct (opt_s (fun x => padding_pct_s x w h) (field st (VLoc lv) (VInt 3)) (st ++ ext1 ++ ext2)) as [[st3 p']|e3];
    destruct (opt_res (fun p => padding_as_pct p w h) lp) as [lp'|e3']; try contradiction.
  2: { cbn [bind]. exact S3. }
  destruct S3 as (E3 & (ext3 & ->) & B3). cbn [bind]. unfold new, new_obj, alloc.
  set (al := field st (VLoc lv) (VInt 4)) in *.
  unfold dec_layout. rewrite !field_new. cbn [assoc val_eqb Z.eqb Pos.eqb].
  set (o := mkObj KGLayout [(VInt 1, o'); (VInt 2, e'); (VInt 3, p'); (VInt 4, al); (VInt 5, VNone)]).
  rewrite (dec_opt_ext _ _ [o] _ _ dec_padding_stable E3).
  assert (X2 : dec_opt (dec2 mkStretch) (((st ++ ext1 ++ ext2) ++ ext3) ++ [o]) e' = Some le').
  { replace (((st ++ ext1 ++ ext2) ++ ext3) ++ [o]) with (((st ++ ext1) ++ ext2) ++ (ext3 ++ [o])) by (rewrite <- ?app_assoc; reflexivity).
    apply dec_opt_ext; [apply dec2_stable|exact E2]. }
  assert (X1 : dec_opt (dec2 mkPoint) (((st ++ ext1 ++ ext2) ++ ext3) ++ [o]) o' = Some lo').
  { replace (((st ++ ext1 ++ ext2) ++ ext3) ++ [o]) with ((st ++ ext1) ++ (ext2 ++ ext3 ++ [o])) by (rewrite <- ?app_assoc; reflexivity).
    apply dec_opt_ext; [apply dec2_stable|exact E1]. }
  assert (X4 : dec_opt dec_align (((st ++ ext1 ++ ext2) ++ ext3) ++ [o]) al = Some la).
  { replace (((st ++ ext1 ++ ext2) ++ ext3) ++ [o]) with (st ++ (ext1 ++ ext2 ++ ext3 ++ [o])) by (rewrite <- ?app_assoc; reflexivity).
    apply dec_align_ext; [exact Bal|exact Da]. }
  rewrite X1, X2, X4. reflexivity.
Qed.

(* ---- Layout.fit_to_screen ------------------------------------------------------------------------------------------ *)
Lemma dec_alloc_size : forall st pre a post,
  dec_size (st ++ pre ++ mkObj KSize (size_cells a) :: post) (VLoc (length (st ++ pre))) = Some a.
Proof.
  intros st pre a post. replace (st ++ pre ++ mkObj KSize (size_cells a) :: post)
    with (((st ++ pre) ++ [mkObj KSize (size_cells a)]) ++ post) by (rewrite <- ?app_assoc; reflexivity).
  apply dec_size_ext. apply dec_new_size.
Qed.

Lemma dec2_fields : forall {A} (mk : size -> size -> A) st v p, dec2 mk st v = Some p ->
  exists a b, dec_size st (field st v (VInt 1)) = Some a /\ dec_size st (field st v (VInt 2)) = Some b /\ p = mk a b
              /\ exists l, v = VLoc l /\ (l < length st)%nat.
Proof.
  intros A mk st v p H. unfold dec2 in H.
  destruct (dec_size st (field st v (VInt 1))) as [a|] eqn:D1; [|discriminate H].
  destruct (dec_size st (field st v (VInt 2))) as [b|] eqn:D2; [|discriminate H].
  exists a, b. repeat split; try reflexivity; [inversion H; reflexivity|].
  apply (field_loc st v (VInt 1)). intros N. rewrite N in D1. discriminate D1.
Qed.

Lemma dec_alloc_size0 : forall st a post,
  dec_size (st ++ mkObj KSize (size_cells a) :: post) (VLoc (length st)) = Some a.
Proof.
  intros st a post. replace (st ++ mkObj KSize (size_cells a) :: post)
    with ((st ++ [mkObj KSize (size_cells a)]) ++ post) by (rewrite <- ?app_assoc; reflexivity).
  apply dec_size_ext. apply dec_new_size.
Qed.

Lemma field_mid : forall st k its post key,
  field (st ++ mkObj k its :: post) (VLoc (length st)) key = match assoc key its with Some x => x | None => VNone end.
Proof.
  intros. replace (st ++ mkObj k its :: post) with ((st ++ [mkObj k its]) ++ post) by (rewrite <- app_assoc; reflexivity).
  rewrite field_ext by (rewrite app_length; cbn [length]; lia). apply field_new.
Qed.

Ltac rdstep := unfold bnd at 1; cbn [rd]; cbv beta iota.
Ltac szstep H := unfold bnd at 1; unfold rd_size at 1; rewrite H; cbv beta iota.
Ltac newstep := unfold bnd at 1; unfold new_size at 1; unfold new at 1; unfold new_obj, alloc; cbv beta iota.

Theorem layout_fit_value : forall lv st l, wf st -> dec_layout st (VLoc lv) = Some l ->
  match layout_fit_s (VLoc lv) st, layout_fit l with
  | Ok (st', r), Ok l' => dec_layout st' r = Some l'
  | Err e, Err e' => e = e'
  | _, _ => False
  end.
Proof.
  intros lv st l W D. pose proof D as D0. unfold dec_layout in D.
  destruct (dec_opt (dec2 mkPoint) st (field st (VLoc lv) (VInt 1))) as [lo|] eqn:Do; [|discriminate D].
  destruct (dec_opt (dec2 mkStretch) st (field st (VLoc lv) (VInt 2))) as [le|] eqn:De; [|discriminate D].
  destruct (dec_opt dec_padding st (field st (VLoc lv) (VInt 3))) as [lp|] eqn:Dp; [|discriminate D].
  destruct (dec_opt dec_align st (field st (VLoc lv) (VInt 4))) as [la|] eqn:Da; [|discriminate D].
  inversion D; subst l. clear D.
  unfold layout_fit_s, layout_fit. cbn [l_origin l_extent l_padding l_alignment].
  rdstep. pose proof Do as Do'. unfold dec_opt in Do.
  destruct (is_none (field st (VLoc lv) (VInt 1))) eqn:IO.
  { inversion Do; subst lo. cbn [ret]. exact D0. }
  destruct (dec2 mkPoint st (field st (VLoc lv) (VInt 1))) as [p|] eqn:DP; [|discriminate Do]. inversion Do; subst lo. clear Do.
  destruct (dec2_fields _ _ _ _ DP) as (sx & sy & Dx & Dy & -> & (lo_ & EO & Hlo)).
  assert (Hlv : (lv < length st)%nat).
  { destruct (field_loc st (VLoc lv) (VInt 1)) as (l' & E' & Hl'); [rewrite EO; discriminate|]. inversion E'; subst. exact Hl'. }
  pose proof (wf_field_below st lv (VInt 4) W) as Bal.
  pose proof (wf_field_below st lv (VInt 3) W) as Bp.
  set (O := field st (VLoc lv) (VInt 1)) in *.
  rdstep. szstep Dx. rdstep. szstep Dy. cbn [p_x p_y s_val].
  newstep. newstep. rdstep. rewrite <- app_assoc. cbn [app]. rewrite field_ext by exact Hlv.
  set (DH := mkSize (Qred (clamp0 (90 - s_val sx))%Q) PCT) in *.
  set (DV := mkSize (Qred (clamp0 (95 - s_val sy))%Q) PCT) in *.
  set (E := field st (VLoc lv) (VInt 2)) in *.
  pose proof De as De'. unfold dec_opt in De. destruct (is_none E) eqn:IE.
  - inversion De; subst le. clear De. cbv beta iota.
    unfold bnd at 1; unfold new at 1; unfold new_obj, alloc; cbv beta iota.
    rdstep. rewrite <- app_assoc. cbn [app]. rewrite field_ext by exact Hlv.
    rdstep. rewrite field_ext by exact Hlv.
    unfold new, new_obj, alloc.
    unfold dec_layout. rewrite !field_new. cbn [assoc val_eqb Z.eqb Pos.eqb].
    rewrite <- app_assoc. cbn [app].
    rewrite (dec_opt_ext _ _ _ _ _ (dec2_stable mkPoint) Do').
    rewrite (dec_opt_ext _ _ _ _ _ dec_padding_stable Dp).
    rewrite (dec_align_ext _ _ _ _ Bal Da).
    lazymatch goal with |- context [dec_opt (dec2 mkStretch) (st ++ [?o1; ?o2; ?o3; ?o4]) ?v] =>
      assert (X2 : dec_opt (dec2 mkStretch) (st ++ [o1; o2; o3; o4]) v = Some (Some (mkStretch DH DV)))
    end.
    { unfold dec_opt. cbn [is_none]. unfold dec2.
      lazymatch goal with |- context [st ++ [?o1; ?o2; ?o3; ?o4]] =>
        replace (st ++ [o1; o2; o3; o4]) with ((st ++ [o1; o2]) ++ o3 :: [o4]) by (rewrite <- app_assoc; reflexivity);
        rewrite !field_mid; cbn [assoc val_eqb Z.eqb Pos.eqb];
        replace ((st ++ [o1; o2]) ++ o3 :: [o4]) with (st ++ o1 :: [o2; o3; o4]) by (rewrite <- app_assoc; reflexivity);
        rewrite dec_alloc_size0;
        replace (st ++ o1 :: [o2; o3; o4]) with (st ++ [o1] ++ o2 :: [o3; o4]) by reflexivity;
        rewrite dec_alloc_size
      end. reflexivity. }
    rewrite X2. reflexivity.
  - destruct (dec2 mkStretch st E) as [e|] eqn:DE; [|discriminate De]. inversion De; subst le. clear De.
    destruct (dec2_fields _ _ _ _ DE) as (seh & sev & Dh & Dv & -> & (le_ & EE & Hle)).
    assert (BE : below (length st) E) by (rewrite EE; exact Hle).
    cbn [st_h st_v].
    unfold bnd at 1. unfold bnd at 1. cbn [rd]. cbv beta iota. rewrite (field_ext_below _ _ _ _ BE).
    unfold bnd at 1; unfold rd_size at 1; rewrite (dec_size_ext _ _ _ _ Dh); cbv beta iota.
    unfold bnd at 1. cbn [rd]. cbv beta iota. rewrite (field_ext_below _ _ _ _ BE).
    unfold bnd at 1; unfold rd_size at 1; rewrite (dec_size_ext _ _ _ _ Dv); cbv beta iota.
    unfold bnd at 1; unfold lift at 1. destruct (size_add sx seh) as [brx|e1]; cbv beta iota; cbn [bind]; [|reflexivity].
    newstep.
    unfold bnd at 1; unfold lift at 1. destruct (size_add sy sev) as [bry|e2]; cbv beta iota; cbn [bind]; [|reflexivity].
    newstep.
    unfold bnd at 1; unfold new at 1; cbv beta iota.
    destruct (negb (unit_eqb (s_unit brx) PCT)); [unfold fail; cbv beta iota; reflexivity|].
    unfold new at 1; cbv beta iota. unfold new_obj, alloc; cbv beta iota.
    rewrite <- ?app_assoc. cbn [app].
    rdstep. rewrite field_ext by exact Hlv.
    rdstep. rewrite field_ext by exact Hlv.
    unfold new, new_obj, alloc.
    unfold dec_layout. rewrite !field_new. cbn [assoc val_eqb Z.eqb Pos.eqb].
    rewrite <- app_assoc. cbn [app].
    rewrite (dec_opt_ext _ _ _ _ _ (dec2_stable mkPoint) Do').
    rewrite (dec_opt_ext _ _ _ _ _ dec_padding_stable Dp).
    rewrite (dec_align_ext _ _ _ _ Bal Da).
    lazymatch goal with |- context [dec_opt (dec2 mkStretch) (st ++ [?o1; ?o2; ?o3; ?o4; ?o5; ?o6; ?o7]) ?v] =>
      assert (X2 : dec_opt (dec2 mkStretch) (st ++ [o1; o2; o3; o4; o5; o6; o7]) v
                   = Some (Some (mkStretch (if Qle_bool (s_val brx) 90 then seh else DH) (if Qle_bool (s_val bry) 95 then sev else DV))))
    end.
    { unfold dec_opt. cbn [is_none]. unfold dec2.
      lazymatch goal with |- context [st ++ [?o1; ?o2; ?o3; ?o4; ?o5; ?o6; ?o7]] =>
        replace (st ++ [o1; o2; o3; o4; o5; o6; o7]) with ((st ++ [o1; o2; o3; o4; o5]) ++ o6 :: [o7]) by (rewrite <- app_assoc; reflexivity);
        rewrite !field_mid; cbn [assoc val_eqb Z.eqb Pos.eqb];
        replace ((st ++ [o1; o2; o3; o4; o5]) ++ o6 :: [o7]) with (st ++ [o1; o2; o3; o4; o5; o6; o7]) by (rewrite <- app_assoc; reflexivity);
        assert (H1 : dec_size (st ++ [o1; o2; o3; o4; o5; o6; o7])
                       (if Qle_bool (s_val brx) 90 then field st E (VInt 1) else VLoc (length st))
                     = Some (if Qle_bool (s_val brx) 90 then seh else DH))
          by (destruct (Qle_bool (s_val brx) 90); [apply dec_size_ext; exact Dh|apply dec_alloc_size0]);
        assert (H2 : dec_size (st ++ [o1; o2; o3; o4; o5; o6; o7])
                       (if Qle_bool (s_val bry) 95 then field st E (VInt 2) else VLoc (length (st ++ [o1])))
                     = Some (if Qle_bool (s_val bry) 95 then sev else DV))
          by (destruct (Qle_bool (s_val bry) 95); [apply dec_size_ext; exact Dv|
              exact (dec_alloc_size st [o1] DV _)])
      end.
      rewrite H1, H2. reflexivity. }
    rewrite X2. reflexivity.
Qed.
