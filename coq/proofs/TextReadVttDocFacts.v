(* C04, WebVTT documents: the line loop of WebVTTReader._parse returns exactly the cues of a document that also
   contains cue identifiers and NOTE / STYLE / REGION blocks, before and after cues, with any number of blank lines. *)
From Coq Require Import List ZArith Bool Lia ZifyBool.
From PV Require Import lib.Sx lib.Str model.TextNodes model.TextRead spec.SpecTextRead.
Import ListNotations.
Open Scope Z_scope.

Definition line_plain (l : str) : bool := negb (has_arrow_b l) && (match l with [] => false | _ => true end).

Definition wf_block (b : vblock) : bool :=
  match b with
  | BCue ident timing items =>
      (match ident with Some i => line_plain i | None => true end) && has_arrow_b timing &&
      forallb line_plain (payload_lines items)
  | BOther ls => forallb line_plain ls
  end.

Fixpoint wf_blocks (bs : list (vblock * nat)) : bool :=
  match bs with
  | [] => true
  | [(b, _)] => wf_block b
  | (b, g) :: t => wf_block b && (1 <=? g)%nat && wf_blocks t
  end.

Definition lstate := (list node * bool * list (list node))%type.
Definition run (fixed : bool) (ls : list str) (st : lstate) : lstate := fold_left (vtt_line_step fixed) ls st.
Definition finish (st : lstate) : list (list node) :=
  let '(nodes, _, caps) := st in rev (match nodes with [] => caps | _ => rev nodes :: caps end).

Lemma run_app : forall fixed a b st, run fixed (a ++ b) st = run fixed b (run fixed a st).
Proof. intros. unfold run. apply fold_left_app. Qed.

(* lines without an arrow are ignored outside a cue *)
Lemma run_plain_ignored : forall fixed ls nodes caps, forallb line_plain ls = true ->
  run fixed ls (nodes, false, caps) = (nodes, false, caps).
Proof.
  intros fixed. induction ls as [|l ls IH]; intros nodes caps H; [reflexivity|].
  cbn [forallb] in H. apply andb_true_iff in H. destruct H as [Hl Hls].
  unfold line_plain in Hl. apply andb_true_iff in Hl. destruct Hl as [Ha Hn]. apply negb_true_iff in Ha.
  unfold run. cbn [fold_left vtt_line_step]. rewrite Ha. destruct l as [|c l']; [discriminate|].
  apply IH. exact Hls.
Qed.

Lemma run_blank_idle : forall fixed g caps, run fixed (repeat [] g) ([], false, caps) = ([], false, caps).
Proof. intros fixed. induction g as [|g IH]; intros caps; [reflexivity|]. unfold run in *. cbn [repeat fold_left vtt_line_step]. apply IH. Qed.

(* payload lines inside a cue *)
Lemma run_payload : forall fixed ls acc caps, forallb line_plain ls = true -> acc <> [] ->
  run fixed ls (acc, true, caps) =
  (rev (flat_map (fun l => [NBreak; NText (vtt_decode fixed l)]) ls) ++ acc, true, caps).
Proof.
  intros fixed. induction ls as [|l ls IH]; intros acc caps H Hacc; [reflexivity|].
  cbn [forallb] in H. apply andb_true_iff in H. destruct H as [Hl Hls].
  unfold line_plain in Hl. apply andb_true_iff in Hl. destruct Hl as [Ha Hn]. apply negb_true_iff in Ha.
  unfold run. cbn [fold_left vtt_line_step]. rewrite Ha. destruct l as [|c l']; [discriminate|].
  destruct acc as [|a acc']; [congruence|].
  fold (run fixed ls (NText (vtt_decode fixed (c :: l')) :: NBreak :: a :: acc', true, caps)).
  rewrite IH by (try exact Hls; discriminate).
  change (flat_map (fun l => [NBreak; NText (vtt_decode fixed l)]) ((c :: l') :: ls))
    with ([NBreak; NText (vtt_decode fixed (c :: l'))] ++ flat_map (fun l => [NBreak; NText (vtt_decode fixed l)]) ls).
  rewrite rev_app_distr. cbn [rev app]. rewrite <- !app_assoc. reflexivity.
Qed.

Lemma intersperse_cons : forall x l, intersperse_break (x :: l) = x :: flat_map (fun y => [NBreak; y]) l.
Proof.
  intros x l. revert x. induction l as [|y l IH]; intros x; [reflexivity|].
  change (intersperse_break (x :: y :: l)) with (x :: NBreak :: intersperse_break (y :: l)). rewrite IH. reflexivity.
Qed.

Lemma run_cue_lines : forall fixed ls caps, forallb line_plain ls = true -> ls <> [] ->
  run fixed ls ([], true, caps) = (rev (vtt_cue_nodes fixed ls), true, caps).
Proof.
  intros fixed [|l ls] caps H Hne; [congruence|].
  cbn [forallb] in H. apply andb_true_iff in H. destruct H as [Hl Hls].
  unfold line_plain in Hl. apply andb_true_iff in Hl. destruct Hl as [Ha Hn]. apply negb_true_iff in Ha.
  unfold run. cbn [fold_left vtt_line_step]. rewrite Ha. destruct l as [|c l']; [discriminate|].
  fold (run fixed ls ([NText (vtt_decode fixed (c :: l'))], true, caps)).
  rewrite run_payload by (try exact Hls; discriminate).
  unfold vtt_cue_nodes. cbn [map]. rewrite intersperse_cons. cbn [rev].
  assert (E : forall l0 : list str, flat_map (fun y => [NBreak; y]) (map (fun l => NText (vtt_decode fixed l)) l0)
              = flat_map (fun l => [NBreak; NText (vtt_decode fixed l)]) l0).
  { induction l0 as [|x l0 IH0]; [reflexivity|]. cbn [map flat_map app]. rewrite IH0. reflexivity. }
  rewrite E. reflexivity.
Qed.

Lemma split_ch_nonnil' : forall sep s, split_ch sep s <> [].
Proof.
  intros sep s. unfold split_ch. generalize (@nil Z). induction s as [|c t IH]; intros cur; cbn [split_ch_aux].
  - discriminate.
  - destruct (c =? sep); [discriminate|apply IH].
Qed.

Lemma cue_nodes_nonnil : forall fixed ls, ls <> [] -> vtt_cue_nodes fixed ls <> [].
Proof. intros fixed [|l ls] H; [congruence|]. unfold vtt_cue_nodes. cbn [map]. rewrite intersperse_cons. discriminate. Qed.

(* blank lines after a cue: the first one closes it, the others are idle *)
Lemma run_gap_after_cue : forall fixed g nodes caps, nodes <> [] -> (1 <= g)%nat ->
  run fixed (repeat [] g) (nodes, true, caps) = ([], false, rev nodes :: caps).
Proof.
  intros fixed g nodes caps Hn Hg. destruct g as [|g]; [lia|]. unfold run. cbn [repeat fold_left vtt_line_step].
  change (has_arrow_b []) with false. cbv iota. destruct nodes as [|n ns]; [congruence|]. cbn [andb].
  apply (run_blank_idle fixed g).
Qed.

Definition cue_of (fixed : bool) (b : vblock) : list (list node) :=
  match b with BCue _ _ items => [vtt_cue_nodes fixed (payload_lines items)] | BOther _ => [] end.

(* one block outside a cue: state after its lines *)
Lemma run_block_lines : forall fixed b caps, wf_block b = true ->
  run fixed (block_lines b) ([], false, caps) =
  match b with
  | BCue _ _ items => (rev (vtt_cue_nodes fixed (payload_lines items)), true, caps)
  | BOther _ => ([], false, caps)
  end.
Proof.
  intros fixed [ident timing items|ls] caps H; cbn [wf_block block_lines] in *.
  - apply andb_true_iff in H. destruct H as [H Hp]. apply andb_true_iff in H. destruct H as [Hi Ht].
    rewrite run_app.
    assert (Hid : run fixed (match ident with Some i => [i] | None => [] end) ([], false, caps) = ([], false, caps)).
    { destruct ident as [i|]; [|reflexivity]. apply run_plain_ignored. cbn [forallb]. rewrite Hi. reflexivity. }
    rewrite Hid. unfold run at 1. cbn [fold_left vtt_line_step]. rewrite Ht.
    fold (run fixed (payload_lines items) ([], true, caps)).
    apply run_cue_lines; [exact Hp|]. unfold payload_lines. apply split_ch_nonnil'.
  - apply run_plain_ignored. exact H.
Qed.

Lemma run_blocks : forall fixed bs caps, wf_blocks bs = true ->
  finish (run fixed (blocks_lines bs) ([], false, caps)) = rev caps ++ flat_map (fun bg => cue_of fixed (fst bg)) bs.
Proof.
  intros fixed. induction bs as [|[b g] bs IH]; intros caps H.
  - cbn. rewrite app_nil_r. reflexivity.
  - cbn [blocks_lines]. rewrite !run_app.
    destruct bs as [|bg2 bs'].
    + (* last block: any gap *)
      cbn [wf_blocks] in H. rewrite (run_block_lines fixed b caps H).
      cbn [blocks_lines]. unfold run at 1. cbn [fold_left]. cbn [flat_map fst]. rewrite app_nil_r.
      destruct b as [ident timing items|ls]; cbn [cue_of].
      * pose proof (cue_nodes_nonnil fixed (payload_lines items) (split_ch_nonnil' 10 _)) as Hne.
        destruct g as [|g'].
        -- cbn [repeat]. unfold run. cbn [fold_left finish].
           destruct (rev (vtt_cue_nodes fixed (payload_lines items))) eqn:E.
           { apply (f_equal (@length node)) in E. rewrite rev_length in E. destruct (vtt_cue_nodes fixed (payload_lines items)); [congruence|discriminate]. }
           rewrite <- E, rev_involutive. cbn [rev]. reflexivity.
        -- rewrite run_gap_after_cue; [|intros E; apply Hne; apply (f_equal (@rev node)) in E; rewrite rev_involutive in E; exact E|lia].
           rewrite rev_involutive. cbn [finish rev]. reflexivity.
      * rewrite run_blank_idle. cbn [finish]. rewrite app_nil_r. reflexivity.
    + remember (bg2 :: bs') as rest. cbn [wf_blocks] in H. rewrite Heqrest in H. rewrite <- Heqrest in H.
      apply andb_true_iff in H. destruct H as [H Hrest]. apply andb_true_iff in H. destruct H as [Hb Hg].
      rewrite (run_block_lines fixed b caps Hb). cbn [flat_map fst].
      destruct b as [ident timing items|ls]; cbn [cue_of].
      * pose proof (cue_nodes_nonnil fixed (payload_lines items) (split_ch_nonnil' 10 _)) as Hne.
        rewrite run_gap_after_cue; [|intros E; apply Hne; apply (f_equal (@rev node)) in E; rewrite rev_involutive in E; exact E|lia].
        rewrite rev_involutive. rewrite (IH _ Hrest). cbn [rev app]. rewrite <- app_assoc. reflexivity.
      * rewrite run_blank_idle. rewrite (IH _ Hrest). reflexivity.
Qed.

(* the reader returns one caption per cue, in order, with the decoded payload lines: identifiers, NOTE / STYLE /
   REGION blocks and header lines never reach a caption, wherever they stand *)
Theorem vtt_document_cues : forall fixed header bs,
  forallb line_plain header = true -> wf_blocks bs = true ->
  vtt_parse fixed (vtt_document_lines header bs) =
  map (fun items => vtt_cue_nodes fixed (payload_lines items)) (cues_of bs).
Proof.
  intros fixed header bs Hh Hb. unfold vtt_parse, vtt_document_lines.
  change (fold_left (vtt_line_step fixed) (header ++ [[]] ++ blocks_lines bs) ([], false, []))
    with (run fixed (header ++ [[]] ++ blocks_lines bs) ([], false, [])).
  rewrite !run_app, (run_plain_ignored fixed header [] [] Hh).
  change (run fixed [[]] ([], false, [])) with (([], false, []) : lstate).
  pose proof (run_blocks fixed bs [] Hb) as R. unfold finish in R. cbn [rev app] in R.
  destruct (run fixed (blocks_lines bs) ([], false, [])) as [[nodes found] caps]. rewrite R.
  unfold cues_of. rewrite !flat_map_concat_map, concat_map, !map_map. f_equal. apply map_ext.
  intros [[ident timing items|ls] g]; reflexivity.
Qed.
