(* C17, wave 5: what CAN be said about the writer model's word stream in the terms of builder sccr's pop-on programs
   (spec/SpecScc05.v `emit_row` / `pack`, proofs/SccPoponStage9.v `popon_refines_608`), and why the stream is NOT an
   instance of that program shape:
     (+) closed form of the stream: for a text over the basic set on <= 15 rows, `text_to_words text` is the concatenation
         over the laid-out rows of  PAC PAC . pair_up (bytes of the row)  (`text_words_explicit`);
     (+) the character words of a row are exactly sccr's `pack true` of the row's characters, i.e. the independent
         CEA-608 encoding (`row_chars_emit`); the writer's basic table agrees with spec/Spec608.v and all its characters
         are `SpecScc05.is_basic` (`tbl_basic_608`);
     (-) the preamble address codes differ: SCCWriter addresses column 0 with the INDENT form of the PAC (second byte
         0x50 / 0x70, attribute 16 "white, indent 0": PAC_LOW_BYTE_BY_ROW_RESTRICTED), sccr's `row` record emits at
         indent 0 the STYLE form (attribute 0..15) and at an indent >= 4 the attributes >= 18 - attribute 16 is not
         expressible, so no `row` has `emit_row true r` = the writer's words (`tbl_pac_is_indent_form`);
     (-) the writer puts EDM EDM in front of EOC EOC inside the load line; sccr's streams have Erase-Displayed-Memory on
         lines of their own (`PClear`).
   Composing with `popon_refines_608` therefore needs an extension of sccr's program type (an attribute-16 PAC and an
   in-line EDM), not a lemma on this side; the re-read clause for arbitrary texts stays evaluated (request 1705). *)
From Coq Require Import List ZArith QArith Bool Lia ZifyBool Arith.
From PV Require Import lib.Sx lib.Str lib.Result model.GenSccw model.SccWrap model.SccWrite spec.SpecSccw.
From PV Require Import proofs.SccwStr proofs.SccWriteFacts proofs.SccDecodeFacts proofs.SccLayoutFacts proofs.SccDocFacts
     proofs.SccComposeFacts.
From PV Require model.SccRoundTrip model.SccDecoder model.SccStash spec.Spec608 spec.SpecScc05 spec.SpecSccTime
     proofs.SccPoponFacts proofs.SccPoponStage3 proofs.SccPoponStage6 proofs.SccPoponStage9.
Import ListNotations.
Open Scope Z_scope.

Definition word_z := SccRoundTrip.word_z.

(* ---- tables: the writer's tables against the independent CEA-608 tables of spec/Spec608.v ---------------------- *)
Lemma tbl_basic_608 :
  forallb (fun kv => (snd kv =? Spec608.odd_parity (SpecScc05.basic_code (fst kv))) && SpecScc05.is_basic (fst kv))
          sccw_character_to_code = true.
Proof. vm_compute. reflexivity. Qed.
Lemma basic_facts : forall c, is_basic c = true ->
  byte_of c = Spec608.odd_parity (SpecScc05.basic_code c) /\ SpecScc05.is_basic c = true.
Proof.
  intros c H. unfold is_basic in H. unfold byte_of. destruct (assoc c sccw_character_to_code) as [b|] eqn:E; [|discriminate].
  apply assoc_in in E. pose proof tbl_basic_608 as T. rewrite forallb_forall in T. specialize (T _ E). cbn [fst snd] in T.
  apply andb_prop in T. destruct T as [T1 T2]. split; [lia|exact T2].
Qed.

(* ---- the words of one row ------------------------------------------------------------------------------------- *)
Definition pacw (row : Z) : Z * Z :=
  (match py_index sccw_pac_high_byte_by_row row with Ok h => h | Err _ => 0 end,
   match py_index sccw_pac_low_byte_by_row_restricted row with Ok l => l | Err _ => 0 end).
Definition roww (r : Z * str) : list (Z * Z) := pacw (fst r) :: pacw (fst r) :: pair_up (map byte_of (snd r)).

Lemma words_rows_explicit : forall rows ws0 s', rows_valid rows -> rows_basic rows ->
  words_rows (ws0, None) rows = Ok s' -> s' = (rev (flat_map roww rows) ++ ws0, None).
Proof.
  induction rows as [|[row line] t IH]; intros ws0 s' V B H; cbn [words_rows] in H.
  - inversion H; subst. reflexivity.
  - unfold roww at 1. unfold pacw. cbn [fst snd flat_map].
    destruct (py_index sccw_pac_high_byte_by_row row) as [h|] eqn:Hh; [|discriminate].
    destruct (py_index sccw_pac_low_byte_by_row_restricted row) as [l|] eqn:Hl; [|discriminate].
    cbn [bind] in H.
    assert (Bl : forallb is_basic line = true) by (apply (B (row, line)); left; reflexivity).
    rewrite ws_line_basic in H by exact Bl. cbn [opt_list app] in H.
    rewrite (IH _ _ (fun r Hr => V r (or_intror Hr)) (fun r Hr => B r (or_intror Hr)) H).
    f_equal. cbn [app rev]. rewrite !rev_app_distr. cbn [rev app]. rewrite <- !app_assoc. reflexivity.
Qed.

Theorem text_words_explicit : forall text ws, (length (layout_rows text) <= 15)%nat -> basic_text text = true ->
  text_to_words text = Ok ws -> ws = flat_map roww (layout_rows text).
Proof.
  intros text ws L B E. unfold text_to_words in E.
  destruct (words_rows ([], None) (layout_rows text)) as [s'|] eqn:W; [|discriminate]. cbn [bind] in E. inversion E; subst ws.
  rewrite (words_rows_explicit _ _ _ (layout_rows_valid text L) (layout_rows_basic text B) W). cbn [fst].
  rewrite app_nil_r, rev_involutive. reflexivity.
Qed.

(* sccr's packing of basic characters = the writer's pairing with the filler *)
Lemma pack_basic : forall line pend, forallb is_basic line = true ->
  SpecScc05.pack true (map SpecScc05.TCh line) pend = map word_z (pair_up (opt_list pend ++ map byte_of line)).
Proof.
  induction line as [|c t IH]; intros pend H.
  - destruct pend; reflexivity.
  - cbn [forallb] in H. apply andb_prop in H. destruct H as [H1 H2]. destruct (basic_facts c H1) as [Eb _].
    cbn [map SpecScc05.pack]. rewrite <- Eb. generalize (byte_of c). intros y. destruct pend as [b|].
    + rewrite (IH None H2). reflexivity.
    + rewrite (IH (Some y) H2). reflexivity.
Qed.
Lemma toks_ch : forall line, flat_map SpecScc05.toks_of_item (map SpecScc05.Ch line) = map SpecScc05.TCh line.
Proof. induction line as [|c t IH]; [reflexivity|]. cbn [map flat_map SpecScc05.toks_of_item app]. rewrite IH. reflexivity. Qed.

(* the writer's PACs are the indent form with indent 0 (attribute 16), not the style form sccr's rows emit at indent 0 *)
Lemma tbl_pac_is_indent_form :
  forallb (fun row => match py_index sccw_pac_high_byte_by_row row, py_index sccw_pac_low_byte_by_row_restricted row with
                      | Ok h, Ok l => (h * 256 + l =? Spec608.pac_word row 16) && negb (h * 256 + l =? Spec608.pac_word row 0)
                      | _, _ => false end) (map Z.of_nat (seq 1 15)) = true.
Proof. vm_compute. reflexivity. Qed.

Theorem row_chars_emit : forall line, forallb is_basic line = true ->
  map word_z (pair_up (map byte_of line))
  = SpecScc05.pack true (flat_map SpecScc05.toks_of_item (map SpecScc05.Ch line)) None.
Proof. intros line B. rewrite toks_ch, (pack_basic line None B). reflexivity. Qed.
