(* Proofs for C02: the timestamp formatters print fields that an independent parser reads back
   as floor(rhe t / 1000) ms; rhe is the identity on integers and stays within the values the
   statement accepts; MicroDVD frames / SAMI milliseconds are floors printed as integer
   literals; SAMI sync rule; SRT / merged writers emit one cue per maximal run. *)
From Coq Require Import List ZArith QArith Qround Lia Bool ZifyBool.
From PV Require Import lib.Sx lib.Str lib.Result lib.Dec.
From PV Require Import model.Base spec.SpecBase proofs.BaseFacts proofs.TimeStrFacts.
From PV Require Import model.TimeWrite spec.SpecTimeW.
Import ListNotations.
Open Scope Z_scope.
#[local] Ltac Zify.zify_post_hook ::= Z.to_euclidean_division_equations.

(* ---- rounding to a whole microsecond ---------------------------------------------- *)
Lemma Qfloor_nd : forall n d, Qfloor (n # d) = n / Zpos d.
Proof. reflexivity. Qed.

Lemma rhe_cases : forall q, rhe q = Qfloor q \/ (rhe q = Qfloor q + 1 /\ up_ok q = true).
Proof.
  intros [n d]. unfold rhe, up_ok.
  assert (T : Qfloor ((n # d) * 2) = (n * 2) / Zpos d).
  { unfold Qmult. cbn [Qnum Qden]. rewrite Qfloor_nd, Pos.mul_1_r. reflexivity. }
  rewrite T. rewrite Qfloor_nd.
  assert (U : Qle_bool (1 # 2) ((n # d) - inject_Z (n / Zpos d)) = (Zpos d <=? (n - (n / Zpos d) * Zpos d) * 2)).
  { unfold Qle_bool, Qminus, Qplus, Qopp, inject_Z. cbn [Qnum Qden].
    rewrite Pos.mul_1_r. f_equal; lia. }
  rewrite U.
  destruct (n * 2 / Zpos d =? 2 * (n / Zpos d)) eqn:E1; [left; reflexivity|].
  assert (Hup : (Zpos d <=? (n - n / Zpos d * Zpos d) * 2) = true).
  { pose proof (Pos2Z.is_pos d). nia. }
  destruct (Qeq_bool _ _); [destruct (Z.even _)|]; (left; reflexivity) || (right; split; [reflexivity|exact Hup]).
Qed.

Lemma rhe_int : forall z, rhe (inject_Z z) = z.
Proof.
  intros z. unfold rhe, inject_Z. unfold Qmult. cbn [Qnum Qden]. rewrite !Qfloor_nd.
  change (Zpos (1 * 1)) with 1. change (Zpos 1) with 1. rewrite !Z.div_1_r.
  assert (E : (z * 2 =? 2 * z) = true) by lia. rewrite E. reflexivity.
Qed.

Lemma floor_ms_div : forall q, floor_ms q = Qfloor q / 1000.
Proof.
  intros [n d]. unfold floor_ms, Qdiv, Qmult, Qinv. cbn [Qnum Qden]. rewrite !Qfloor_nd.
  rewrite Z.mul_1_r, Pos2Z.inj_mul. rewrite Z.div_div by lia. reflexivity.
Qed.

Lemma floor_frames_div : forall q, floor_frames q = Qfloor q * 25 / 1000000.
Proof.
  intros [n d]. unfold floor_frames, Qdiv, Qmult, Qinv. cbn [Qnum Qden]. rewrite !Qfloor_nd.
  rewrite Z.mul_1_r, Pos.mul_1_r, Pos2Z.inj_mul. rewrite <- Z.div_div by lia.
  pose proof (Pos2Z.is_pos d) as Hd.
  assert (E : n * 25 / Zpos d = n / Zpos d * 25 + (n mod Zpos d * 25) / Zpos d).
  { rewrite (Z.div_mod n (Zpos d)) at 1 by lia.
    replace ((Zpos d * (n / Zpos d) + n mod Zpos d) * 25)
      with (n mod Zpos d * 25 + (n / Zpos d * 25) * Zpos d) by ring.
    rewrite Z.div_add by lia. ring. }
  rewrite E.
  assert (B : 0 <= n mod Zpos d * 25 / Zpos d < 25).
  { pose proof (Z.mod_pos_bound n (Zpos d) Hd). split; [apply Z.div_pos; lia|].
    apply Z.div_lt_upper_bound; lia. }
  generalize dependent (n mod Zpos d * 25 / Zpos d). intros e _ B.
  generalize (n / Zpos d). intros f. lia.
Qed.

(* the value the timedelta-based formatters denote is one the statement accepts *)
Lemma acc_ms_rhe : forall t, acc_ms t (rhe t / 1000) = true.
Proof.
  intros t. unfold acc_ms. rewrite floor_ms_div.
  destruct (rhe_cases t) as [->|[-> Hup]].
  - rewrite Z.eqb_refl. reflexivity.
  - rewrite Hup, Z.eqb_refl. cbn [andb]. apply orb_true_r.
Qed.

Lemma acc_ms_floor : forall t, acc_ms t (floor_ms t) = true.
Proof. intros. unfold acc_ms. rewrite Z.eqb_refl. reflexivity. Qed.

Lemma acc_frames_floor : forall t, acc_frames t (floor_frames t) = true.
Proof. intros. unfold acc_frames. rewrite Z.eqb_refl. reflexivity. Qed.

(* on an integer time the accepted value is unique: exactly floor(t/1000) ms, floor(t*25/10^6) frames *)
Lemma acc_ms_int : forall z v, acc_ms (inject_Z z) v = true <-> v = z / 1000.
Proof.
  intros z v. unfold acc_ms. rewrite floor_ms_div.
  assert (F : Qfloor (inject_Z z) = z) by (unfold inject_Z; rewrite Qfloor_nd; apply Z.div_1_r).
  rewrite F.
  assert (U : up_ok (inject_Z z) = false).
  { unfold up_ok. rewrite F. unfold Qle_bool, Qminus, Qplus, Qopp, inject_Z. cbn [Qnum Qden]. lia. }
  rewrite U. cbn [andb]. rewrite orb_false_r. split; intros H; lia.
Qed.

Lemma acc_frames_int : forall z v, acc_frames (inject_Z z) v = true <-> v = z * 25 / 1000000.
Proof.
  intros z v. unfold acc_frames. rewrite floor_frames_div.
  assert (F : Qfloor (inject_Z z) = z) by (unfold inject_Z; rewrite Qfloor_nd; apply Z.div_1_r).
  rewrite F.
  assert (U : up_ok (inject_Z z) = false).
  { unfold up_ok. rewrite F. unfold Qle_bool, Qminus, Qplus, Qopp, inject_Z. cbn [Qnum Qden]. lia. }
  rewrite U. cbn [andb]. rewrite orb_false_r. split; intros H; lia.
Qed.

(* ---- the shared hh:mm:ss.mmm formatter ------------------------------------------------ *)
Lemma d2_two : forall n, 0 <= n < 100 -> d2 (48 + n / 10) (48 + n mod 10) = Some n.
Proof.
  intros n Hn. unfold d2, is_digit.
  assert (H : ((48 <=? 48 + n / 10) && (48 + n / 10 <=? 57) && ((48 <=? 48 + n mod 10) && (48 + n mod 10 <=? 57))) = true) by lia.
  rewrite H. f_equal. lia.
Qed.

Lemma d3_three : forall n, 0 <= n < 1000 ->
  d3 (48 + n / 100) (48 + n / 10 mod 10) (48 + n mod 10) = Some n.
Proof.
  intros n Hn. unfold d3, is_digit.
  assert (H : ((48 <=? 48 + n / 100) && (48 + n / 100 <=? 57) && ((48 <=? 48 + n / 10 mod 10) && (48 + n / 10 mod 10 <=? 57))
               && ((48 <=? 48 + n mod 10) && (48 + n mod 10 <=? 57))) = true) by lia.
  rewrite H. f_equal. lia.
Qed.

Lemma fmt2_two : forall n, 0 <= n < 100 -> fmt2 n = two n.
Proof. intros. unfold fmt2. apply zpad2_two. assumption. Qed.
Lemma fmt3_three : forall n, 0 <= n < 1000 -> fmt3 n = three n.
Proof. intros. unfold fmt3. apply zpad3_three. assumption. Qed.

(* the explicit shape of the printed stamp *)
Lemma format_ts_shape : forall sep t, 0 <= rhe t < 86400000000 ->
  let u := rhe t in
  format_ts sep t =
  two (u / 1000000 / 3600) ++ 58 :: two (u / 1000000 mod 3600 / 60) ++ 58 :: two (u / 1000000 mod 3600 mod 60)
  ++ sep :: three (u mod 1000000 / 1000).
Proof.
  intros sep t Hu u. unfold format_ts. fold u. unfold td_seconds, td_micro.
  assert (S : (u / 1000000) mod 86400 = u / 1000000) by (apply Z.mod_small; lia).
  rewrite S.
  rewrite !fmt2_two by lia. rewrite fmt3_three by lia. reflexivity.
Qed.

Lemma parse_hms_fields : forall sep h m s f,
  0 <= h < 100 -> 0 <= m < 60 -> 0 <= s < 60 -> 0 <= f < 1000 ->
  parse_hms sep (two h ++ 58 :: two m ++ 58 :: two s ++ sep :: three f)
  = Some (((h * 60 + m) * 60 + s) * 1000 + f).
Proof.
  intros sep h m s f Hh Hm Hs Hf. unfold two, three. cbn [app]. unfold parse_hms.
  change (58 =? 58) with true. rewrite Z.eqb_refl. cbn [andb].
  rewrite !d2_two by lia. rewrite d3_three by lia.
  assert (C : ((m <? 60) && (s <? 60)) = true) by lia. rewrite C. reflexivity.
Qed.

(* format, then parse with the independent clock parser: floor(rhe t / 1000) ms; the parser
   succeeding means 2/2/2/3 digit fields, MM < 60, SS < 60 *)
Lemma fmt_hms_denotes : forall sep t, 0 <= rhe t < 86400000000 ->
  parse_hms sep (format_ts sep t) = Some (rhe t / 1000).
Proof.
  intros sep t Hu. rewrite format_ts_shape by exact Hu. cbv zeta.
  rewrite parse_hms_fields by lia. f_equal. lia.
Qed.

Lemma fmt_hms_length : forall sep t, 0 <= rhe t < 86400000000 -> length (format_ts sep t) = 12%nat.
Proof. intros sep t Hu. rewrite format_ts_shape by exact Hu. reflexivity. Qed.

Lemma srt_ts_full : forall t, 0 <= rhe t < 86400000000 -> srt_ts t = format_ts 44 t.
Proof.
  intros t Hu. unfold srt_ts. rewrite <- (fmt_hms_length 44 t Hu). apply firstn_all.
Qed.

Lemma fmt_hms_ok : forall sep t, 0 <= rhe t < 86400000000 -> ok_hms sep t (format_ts sep t) = true.
Proof. intros sep t Hu. unfold ok_hms. rewrite fmt_hms_denotes by exact Hu. apply acc_ms_rhe. Qed.

(* integer microseconds: exactly floor(t/1000) ms *)
Lemma fmt_hms_int : forall sep z, 0 <= z < 86400000000 ->
  parse_hms sep (format_ts sep (inject_Z z)) = Some (z / 1000).
Proof. intros sep z Hz. rewrite fmt_hms_denotes by (rewrite rhe_int; exact Hz). rewrite rhe_int. reflexivity. Qed.

(* ---- WebVTT ------------------------------------------------------------------------------- *)
Lemma is_digit_d : forall d, 0 <= d <= 9 -> is_digit (48 + d) = true.
Proof. intros. unfold is_digit. lia. Qed.

Lemma parse_mmss_fields : forall m s f, 0 <= m < 60 -> 0 <= s < 60 -> 0 <= f < 1000 ->
  parse_mmss (two m ++ 58 :: two s ++ 46 :: three f) = Some ((m * 60 + s) * 1000 + f).
Proof.
  intros m s f Hm Hs Hf. unfold two, three. cbn [app]. unfold parse_mmss.
  change (58 =? 58) with true. change (46 =? 46) with true. cbn [andb].
  rewrite !d2_two by lia. rewrite d3_three by lia.
  assert (C : ((m <? 60) && (s <? 60)) = true) by lia. rewrite C. reflexivity.
Qed.

Lemma vtt_ts_shape : forall t, 0 <= rhe t < 86400000000 ->
  let u := rhe t in
  let body := two (u / 1000000 / 60 mod 60) ++ 58 :: two (u / 1000000 mod 60) ++ 46 :: three (u mod 1000000 / 1000) in
  vtt_ts t = if u / 1000000 / 60 / 60 =? 0 then body else two (u / 1000000 / 60 / 60) ++ 58 :: body.
Proof.
  intros t Hu u body. unfold vtt_ts. fold u. unfold td_seconds, td_micro.
  assert (S : (u / 1000000) mod 86400 = u / 1000000) by (apply Z.mod_small; lia).
  rewrite S. rewrite !fmt2_two by lia. rewrite fmt3_three by lia. reflexivity.
Qed.

Lemma vtt_ts_denotes : forall t, 0 <= rhe t < 86400000000 ->
  parse_vtt (vtt_ts t) = Some (rhe t / 1000).
Proof.
  intros t Hu. rewrite vtt_ts_shape by exact Hu. cbv zeta.
  set (u := rhe t) in *.
  destruct (u / 1000000 / 60 / 60 =? 0) eqn:E.
  - unfold parse_vtt. rewrite parse_mmss_fields by lia. f_equal. lia.
  - unfold parse_vtt.
    assert (N : parse_mmss (two (u / 1000000 / 60 / 60) ++ 58 :: two (u / 1000000 / 60 mod 60) ++ 58 ::
                            two (u / 1000000 mod 60) ++ 46 :: three (u mod 1000000 / 1000)) = None) by reflexivity.
    rewrite N.
    assert (Hh : 0 <= u / 1000000 / 60 / 60 < 100) by lia.
    rewrite TimeStrFacts.take_while_app_stop, TimeStrFacts.drop_while_app_stop
      by (first [apply two_digits; lia | reflexivity]).
    change (length (two (u / 1000000 / 60 / 60))) with 2%nat. change (2 <=? 2)%nat with true. cbv iota.
    pose proof (int_of_two (u / 1000000 / 60 / 60) Hh) as I. unfold int_of_digits, two in I.
    fold (two (u / 1000000 / 60 / 60)) in I. rewrite I.
    rewrite parse_mmss_fields by lia. f_equal. lia.
Qed.

Lemma vtt_ts_ok : forall t, 0 <= rhe t < 86400000000 -> ok_vtt t (vtt_ts t) = true.
Proof. intros t Hu. unfold ok_vtt. rewrite vtt_ts_denotes by exact Hu. apply acc_ms_rhe. Qed.

Lemma vtt_ts_int : forall z, 0 <= z < 86400000000 -> parse_vtt (vtt_ts (inject_Z z)) = Some (z / 1000).
Proof. intros z Hz. rewrite vtt_ts_denotes by (rewrite rhe_int; exact Hz). rewrite rhe_int. reflexivity. Qed.

(* the hour field is written exactly when it is non-zero *)
Lemma vtt_ts_hours_iff : forall t, 0 <= rhe t < 86400000000 ->
  length (vtt_ts t) = if rhe t <? 3600000000 then 9%nat else 12%nat.
Proof.
  intros t Hu. rewrite vtt_ts_shape by exact Hu. cbv zeta.
  destruct (rhe t / 1000000 / 60 / 60 =? 0) eqn:E.
  - assert (C : (rhe t <? 3600000000) = true) by lia. rewrite C. reflexivity.
  - assert (C : (rhe t <? 3600000000) = false) by lia. rewrite C. reflexivity.
Qed.

(* ---- MicroDVD frames, SAMI milliseconds: floors, printed as integer literals --------------- *)
Lemma qtrunc_nonneg : forall q, (0 <= q)%Q -> qtrunc q = Qfloor q.
Proof. intros q H. unfold qtrunc. apply Qle_bool_iff in H. rewrite H. reflexivity. Qed.

Lemma mdvd_frames_floor : forall t, (0 <= t)%Q -> mdvd_frames t = floor_frames t.
Proof.
  intros t Ht. unfold mdvd_frames, floor_frames. apply qtrunc_nonneg.
  unfold Qdiv. apply Qmult_le_0_compat; [apply Qmult_le_0_compat; [exact Ht|discriminate]|discriminate].
Qed.

Lemma floor_nonneg : forall q, (0 <= q)%Q -> 0 <= Qfloor q.
Proof. intros q H. change 0 with (Qfloor 0). apply Qfloor_resp_le. exact H. Qed.

Lemma dec_z_nonneg : forall z, 0 <= z -> dec_z z = dec_nonneg z.
Proof. intros z Hz. unfold dec_z. assert (E : (z <? 0) = false) by lia. rewrite E. reflexivity. Qed.

(* the frame token is a decimal integer literal denoting floor(t*25/10^6); frame n covers
   [n*40000, (n+1)*40000) microseconds *)
Lemma mdvd_token_ok : forall t, (0 <= t)%Q -> ok_frames t (mdvd_token t) = true.
Proof.
  intros t Ht. unfold ok_frames, mdvd_token, parse_int.
  rewrite mdvd_frames_floor by exact Ht.
  assert (H0 : 0 <= floor_frames t).
  { unfold floor_frames. apply floor_nonneg. unfold Qdiv.
    apply Qmult_le_0_compat; [apply Qmult_le_0_compat; [exact Ht|discriminate]|discriminate]. }
  rewrite dec_z_nonneg by exact H0. rewrite int_of_dec by exact H0. apply acc_frames_floor.
Qed.

Lemma mdvd_frame_int : forall z, 0 <= z ->
  parse_int (mdvd_token (inject_Z z)) = Some (z * 25 / 1000000) /\
  (z * 25 / 1000000) * 40000 <= z < (z * 25 / 1000000 + 1) * 40000.
Proof.
  intros z Hz. split.
  - unfold mdvd_token, parse_int.
    assert (Hq : (0 <= inject_Z z)%Q) by (unfold Qle, inject_Z; cbn [Qnum Qden]; lia).
    rewrite mdvd_frames_floor by exact Hq. rewrite floor_frames_div.
    assert (F : Qfloor (inject_Z z) = z) by (unfold inject_Z; rewrite Qfloor_nd; apply Z.div_1_r).
    rewrite F. rewrite dec_z_nonneg by lia. apply int_of_dec. lia.
  - lia.
Qed.

Lemma sami_token_ok : forall t, (0 <= t)%Q ->
  match parse_int (sami_token (sami_ms t)) with Some v => v = floor_ms t | None => False end.
Proof.
  intros t Ht. unfold sami_token, sami_ms, parse_int. fold (floor_ms t).
  assert (H0 : 0 <= floor_ms t).
  { unfold floor_ms. apply floor_nonneg. unfold Qdiv. apply Qmult_le_0_compat; [exact Ht|discriminate]. }
  rewrite dec_z_nonneg by exact H0. rewrite int_of_dec by exact H0. reflexivity.
Qed.

(* ---- SAMI sync rule ------------------------------------------------------------------------ *)
Definition sev_obs (e : sev) : Z * bool :=
  match e with SCue ms _ => (ms, false) | SBlank ms => (ms, true) end.

Lemma sami_events_lead : forall caps l i,
  map sev_obs (sami_events caps (Some l) i) =
  (match caps with
   | (s, _) :: _ => if floor_ms s =? l then [] else [(l, true)]
   | [] => []
   end) ++ map sev_obs (sami_events caps None i).
Proof.
  intros [|[s e] t] l i; [reflexivity|].
  cbn [sami_events]. unfold sami_ms. fold (floor_ms s).
  destruct (floor_ms s =? l); reflexivity.
Qed.

(* the writer model's syncs of a language ARE the rule of the statement, for every caption list *)
Lemma sami_sync_rule : forall caps, map sev_obs (sami_write caps) = sami_rule caps.
Proof.
  intros caps. unfold sami_write. generalize 0%nat.
  induction caps as [|[s e] t IH]; intros i; [reflexivity|].
  cbn [sami_events sami_rule app map sev_obs]. unfold sami_ms at 1. fold (floor_ms s). f_equal.
  rewrite sami_events_lead. unfold sami_ms. fold (floor_ms e). rewrite IH.
  destruct t as [|[s' e'] t']; reflexivity.
Qed.

(* what the model writes satisfies the oracle, for every caption list *)
Lemma sami_rule_ok : forall caps, ok_sami_ms caps (sami_rule caps) = true.
Proof.
  induction caps as [|[s e] t IH]; [reflexivity|].
  cbn [sami_rule ok_sami_ms]. rewrite acc_ms_floor. cbn [andb].
  destruct t as [|[s' e'] t']; [reflexivity|].
  cbn [sami_rule] in IH.
  destruct (floor_ms s' =? floor_ms e) eqn:E.
  - cbn [app sami_rule].
    assert (A : acc_ms e (floor_ms s') = true).
    { apply Z.eqb_eq in E. rewrite E. apply acc_ms_floor. }
    rewrite A. cbn [andb]. exact IH.
  - cbn [app sami_rule]. rewrite acc_ms_floor, E. cbn [andb negb]. exact IH.
Qed.

Lemma sami_write_ok : forall caps, ok_sami_ms caps (map sev_obs (sami_write caps)) = true.
Proof. intros. rewrite sami_sync_rule. apply sami_rule_ok. Qed.

(* ---- SRT: one cue per maximal run of equal (start, end) ------------------------------------- *)
Lemma srt_fold_tail : forall t a b, a <> [] ->
  fold_left srt_step t (a ++ b) = fold_left srt_step t a ++ b.
Proof.
  induction t as [|c t IH]; intros a b Ha; [reflexivity|].
  cbn [fold_left]. destruct a as [|m ms]; [congruence|].
  cbn [app srt_step]. destruct (same_span c m).
  - rewrite app_comm_cons. apply IH. discriminate.
  - rewrite !app_comm_cons. apply IH. discriminate.
Qed.

(* spans of the cues: the last member of every run *)
Definition run_last (r : caption * list caption) : caption := last (snd r) (fst r).

Lemma srt_merge_cons : forall c c1 t,
  map span (srt_merge (c :: c1 :: t)) =
  if span_eqb c1 c then map span (srt_merge (c1 :: t)) else span c :: map span (srt_merge (c1 :: t)).
Proof.
  intros c c1 t. unfold srt_merge. cbn [fold_left srt_step]. rewrite same_span_eq.
  destruct (span_eqb c1 c) eqn:E.
  - (* the merged head carries c1's times: same spans downstream *)
    assert (G : forall t m m', span m = span m' ->
              map span (rev (fold_left srt_step t [m])) = map span (rev (fold_left srt_step t [m']))).
    { clear. induction t as [|x t IH]; intros m m' H; [cbn; rewrite H; reflexivity|].
      cbn [fold_left].
      assert (S1 : forall y, srt_step [y] x =
                  if span_eqb x y then [mkCap (c_start x) (c_end x) (c_nodes y ++ brk :: c_nodes x)] else [x; y])
        by reflexivity.
      rewrite !S1.
      assert (S : span_eqb x m = span_eqb x m').
      { unfold span_eqb. unfold span in H. inversion H as [[H1 H2]]. rewrite H1, H2. reflexivity. }
      rewrite S. destruct (span_eqb x m').
      - apply IH. reflexivity.
      - change [x; m] with ([x] ++ [m]). change [x; m'] with ([x] ++ [m']).
        rewrite !srt_fold_tail by discriminate. rewrite !rev_app_distr, !map_app. cbn [rev map app].
        rewrite H. reflexivity. }
    apply G. reflexivity.
  - change [c1; c] with ([c1] ++ [c]). rewrite srt_fold_tail by discriminate.
    rewrite rev_app_distr. cbn [rev app map]. reflexivity.
Qed.

Lemma span_eqb_span : forall a b, span_eqb a b = true -> span_eqb b a = true.
Proof. intros a b H. rewrite span_sym. exact H. Qed.

Lemma last_default : forall (A : Type) (l : list A) (x d d' : A), last (x :: l) d = last (x :: l) d'.
Proof.
  induction l as [|y l IH]; intros x d d'; [reflexivity|].
  change (last (x :: y :: l) d) with (last (y :: l) d).
  change (last (x :: y :: l) d') with (last (y :: l) d'). apply IH.
Qed.

Lemma run_last_cons : forall c d ds, run_last (c, d :: ds) = run_last (d, ds).
Proof.
  intros. unfold run_last. cbn [fst snd]. destruct ds as [|x ds]; [reflexivity|].
  change (last (d :: x :: ds) c) with (last (x :: ds) c). apply last_default.
Qed.

Lemma srt_cues_are_runs : forall caps, map span (srt_merge caps) = map (fun r => span (run_last r)) (runs caps).
Proof.
  induction caps as [|c t IH]; [reflexivity|].
  destruct t as [|c1 t'].
  - reflexivity.
  - rewrite srt_merge_cons. rewrite IH.
    destruct (runs_head c1 t') as [ds [rest Hr]].
    change (runs (c :: c1 :: t')) with
      (match runs (c1 :: t') with
       | (d, ds) :: rest => if span_eqb c d then (c, d :: ds) :: rest else (c, []) :: (d, ds) :: rest
       | [] => [(c, [])]
       end).
    rewrite Hr. rewrite (span_sym c1 c).
    destruct (span_eqb c c1); cbn [map]; [rewrite run_last_cons; reflexivity|reflexivity].
Qed.

(* the last member of a run has the run's span *)
Lemma run_last_span : forall caps r, In r (runs caps) -> span_eqb (run_last r) (fst r) = true.
Proof.
  intros caps [c cs] Hr. unfold run_last. cbn [fst snd].
  destruct cs as [|x xs]; [apply span_refl|].
  apply (runs_members_same caps (c, x :: xs) _ Hr). cbn [snd].
  apply (@exists_last _ (x :: xs)) in Hr as _ || idtac.
  destruct (@exists_last _ (x :: xs) ltac:(discriminate)) as [l' [a E]].
  rewrite E. rewrite last_last. apply in_or_app. right. left. reflexivity.
Qed.

(* legacy / single-position DFXP: merge_concurrent_captions, then one <p> per caption *)
Lemma merged_cues_are_runs : forall caps, nodes_nonempty caps = true ->
  exists l, merge_lang caps = Ok l /\ map span l = map (fun r => span (fst r)) (runs caps).
Proof.
  intros caps H. exists (spec_merge_lang caps). split; [apply merge_lang_spec; exact H|].
  unfold spec_merge_lang. rewrite map_map. apply map_ext. intros [c cs]. reflexivity.
Qed.

(* ---- SCC time lattice: frames of 1/30 s, optionally stretched by 1001/1000, are thirds of a
   microsecond: k * 100000 / 3 or k * 100100 / 3.  On such points rounding to a whole
   microsecond never crosses a millisecond boundary, so both admissible readings coincide. *)
Lemma lattice_no_ms_crossing : forall k c, c = 100100 \/ c = 100000 ->
  rhe ((k * c) # 3) / 1000 = floor_ms ((k * c) # 3).
Proof.
  intros k c Hc. rewrite floor_ms_div.
  destruct (rhe_cases ((k * c) # 3)) as [->|[-> Hup]]; [reflexivity|].
  unfold up_ok in Hup. rewrite Qfloor_nd in *.
  unfold Qle_bool, Qminus, Qplus, Qopp, inject_Z in Hup. cbn [Qnum Qden] in Hup.
  change (Zpos (3 * 1)) with 3 in Hup.
  destruct Hc as [-> | ->]; lia.
Qed.

(* ---- the repaired defects, on record ------------------------------------------------------- *)
Lemma sami_float_start_refuted : exists t, (0 <= t)%Q /\ parse_int (sami_token_unfixed t) = None.
Proof. exists (2000001 # 2). split; [discriminate|]. vm_compute. reflexivity. Qed.

Lemma sami_blank_after_ms0_refuted :
  exists caps, ok_sami_ms caps (map sev_obs (sami_events_unfixed caps None 0)) = false.
Proof. exists [(inject_Z 0, inject_Z 900); (inject_Z 5000000, inject_Z 6000000)]. vm_compute. reflexivity. Qed.

(* ---- cue structure: the writer models satisfy the document oracle ok_cues ------------------------------ *)
Lemma time_ok_parts : forall t, time_ok t = true -> (0 <= t)%Q /\ 0 <= rhe t < 86400000000.
Proof.
  intros t H. unfold time_ok in H. apply andb_true_iff in H. destruct H as [H1 H2].
  apply Qle_bool_iff in H1.
  assert (H3 : (t < 172799999999 # 2)%Q).
  { destruct (Qle_bool (172799999999 # 2) t) eqn:E; [discriminate H2|].
    apply Qnot_le_lt. intros C. apply Qle_bool_iff in C. congruence. }
  split; [exact H1|].
  pose proof (floor_nonneg t H1) as F0.
  assert (FL : Qfloor t <= 86399999999).
  { destruct (Z_le_gt_dec (Qfloor t) 86399999999) as [L|G]; [exact L|exfalso].
    assert (C : (inject_Z 86400000000 <= t)%Q).
    { apply Qle_trans with (inject_Z (Qfloor t)); [rewrite <- Zle_Qle; lia|apply Qfloor_le]. }
    apply (Qlt_irrefl t). apply Qlt_le_trans with (172799999999 # 2); [exact H3|].
    apply Qle_trans with (inject_Z 86400000000); [|exact C]. unfold Qle, inject_Z. cbn. lia. }
  destruct (rhe_cases t) as [E|[E U]]; [lia|].
  split; [lia|].
  destruct (Z.eq_dec (Qfloor t) 86399999999) as [Eq|Ne]; [|lia]. exfalso.
  (* the fraction is >= 1/2, so t >= 86399999999.5 *)
  unfold up_ok in U. apply Qle_bool_iff in U. rewrite Eq in U.
  apply (Qlt_irrefl t). apply Qlt_le_trans with (172799999999 # 2); [exact H3|].
  clear -U. destruct t as [n d]. unfold Qle, Qminus, Qplus, Qopp, inject_Z in U |- *. cbn [Qnum Qden] in U |- *.
  rewrite ?Pos2Z.inj_mul in U. lia.
Qed.

(* the accepted values of a time do not depend on how the rational is written *)
Lemma Qle_bool_comp_r : forall a b b', (b == b')%Q -> Qle_bool a b = Qle_bool a b'.
Proof.
  intros a b b' H. destruct (Qle_bool a b) eqn:E1, (Qle_bool a b') eqn:E2; try reflexivity.
  - apply Qle_bool_iff in E1. rewrite H in E1. apply Qle_bool_iff in E1. congruence.
  - apply Qle_bool_iff in E2. rewrite <- H in E2. apply Qle_bool_iff in E2. congruence.
Qed.

Lemma acc_ms_comp : forall t t' v, (t == t')%Q -> acc_ms t v = acc_ms t' v.
Proof.
  intros t t' v H. unfold acc_ms, floor_ms, up_ok.
  assert (F : Qfloor t = Qfloor t') by (apply Qfloor_comp; exact H).
  assert (G : Qfloor (t / 1000) = Qfloor (t' / 1000)) by (apply Qfloor_comp; rewrite H; reflexivity).
  rewrite F, G. f_equal. f_equal. apply Qle_bool_comp_r. rewrite H. reflexivity.
Qed.

Lemma ok_hms_comp : forall sep t t' tok, (t == t')%Q -> ok_hms sep t tok = ok_hms sep t' tok.
Proof. intros. unfold ok_hms. destruct (parse_hms sep tok); [apply acc_ms_comp; assumption|reflexivity]. Qed.

Lemma span_eqb_Qeq : forall a b, span_eqb a b = true -> (c_start a == c_start b)%Q /\ (c_end a == c_end b)%Q.
Proof.
  intros a b H. unfold span_eqb in H. apply andb_true_iff in H. destruct H as [H1 H2].
  split; apply Qeq_bool_iff; assumption.
Qed.

(* a cue printed from caption c' conveys every caption c with the same span *)
Lemma hms_cue_conveys : forall k sep (c c' : caption),
  (k = WSrt /\ sep = 44 \/ k = WMerged /\ sep = 46) ->
  span_eqb c' c = true -> time_ok (c_start c') = true -> time_ok (c_end c') = true ->
  tok_ok k c (format_ts sep (c_start c'), format_ts sep (c_end c')) = true.
Proof.
  intros k sep c c' Hk Hs T1 T2. destruct (span_eqb_Qeq _ _ Hs) as [Q1 Q2].
  destruct (time_ok_parts _ T1) as [_ B1]. destruct (time_ok_parts _ T2) as [_ B2].
  unfold tok_ok. cbn [fst snd].
  destruct Hk as [[-> ->]|[-> ->]]; cbn [ok_token];
    rewrite <- (ok_hms_comp _ _ _ _ Q1), <- (ok_hms_comp _ _ _ _ Q2), !fmt_hms_ok by assumption; reflexivity.
Qed.

(* cues that stand for the runs of a caption list, each conveying the first caption of its run, are accepted
   by the "may merge" oracle whatever cue came before *)
Lemma may_merge_runs : forall k (g : caption * list caption -> str * str) rs pending,
  (forall r, In r rs -> tok_ok k (fst r) (g r) = true /\ forall x, In x (snd r) -> span_eqb (fst r) x = true) ->
  ok_may_merge k pending (concat (map (fun r => fst r :: snd r) rs)) (map g rs) = true.
Proof.
  intros k g. induction rs as [|[c cs] rs IH]; intros pending H; [reflexivity|].
  destruct (H (c, cs) (or_introl eq_refl)) as [Hc Hcs]. cbn [fst snd] in Hc, Hcs.
  cbn [map concat fst snd app ok_may_merge]. rewrite Hc. cbn [andb].
  assert (A : ok_may_merge k (Some c) (cs ++ concat (map (fun r => fst r :: snd r) rs)) (map g rs) = true).
  { assert (Hrs : forall r, In r rs -> tok_ok k (fst r) (g r) = true /\ forall x, In x (snd r) -> span_eqb (fst r) x = true)
      by (intros r Hr; apply H; right; exact Hr).
    clear Hc H. induction cs as [|x cs IHc].
    - cbn [app]. apply IH. exact Hrs.
    - cbn [app ok_may_merge]. rewrite (Hcs x (or_introl eq_refl)). cbn [andb].
      rewrite IHc by (intros y Hy; apply Hcs; right; exact Hy). reflexivity. }
  rewrite A. apply orb_true_r.
Qed.

Definition hms_tok (sep : Z) (c : caption) : str * str := (format_ts sep (c_start c), format_ts sep (c_end c)).

Lemma caps_time_ok_in : forall caps c, caps_time_ok caps = true -> In c caps ->
  time_ok (c_start c) = true /\ time_ok (c_end c) = true.
Proof.
  intros caps c H Hin. unfold caps_time_ok in H. rewrite forallb_forall in H. specialize (H c Hin).
  apply andb_true_iff in H. exact H.
Qed.

Lemma run_last_in : forall caps r, In r (runs caps) -> In (run_last r) caps.
Proof.
  intros caps [c cs] Hr. rewrite <- (runs_partition caps). apply in_concat.
  exists (c :: cs). split; [apply in_map_iff; exists (c, cs); split; [reflexivity|exact Hr]|].
  unfold run_last. cbn [fst snd]. destruct cs as [|x xs]; [left; reflexivity|].
  destruct (@exists_last _ (x :: xs) ltac:(discriminate)) as [l' [a E]]. rewrite E, last_last.
  right. apply in_or_app. right. left. reflexivity.
Qed.

(* SRT: the cues of the writer model (merge loop, then the [:12] stamps) satisfy the oracle *)
Lemma srt_model_meets_oracle : forall caps, caps_time_ok caps = true ->
  ok_cues WSrt caps (map (fun c => (srt_ts (c_start c), srt_ts (c_end c))) (srt_merge caps)) = true.
Proof.
  intros caps H. unfold ok_cues.
  (* the tokens depend on the spans only, and the spans are those of the last member of every run *)
  assert (E : map (fun c => (srt_ts (c_start c), srt_ts (c_end c))) (srt_merge caps)
              = map (fun r => hms_tok 44 (run_last r)) (runs caps)).
  { transitivity (map (fun sp : Q * Q => (srt_ts (fst sp), srt_ts (snd sp))) (map span (srt_merge caps))).
    - rewrite map_map. reflexivity.
    - rewrite srt_cues_are_runs. rewrite map_map. apply map_ext_in. intros r Hr. unfold hms_tok, span. cbn [fst snd].
      destruct (caps_time_ok_in caps _ H (run_last_in caps r Hr)) as [T1 T2].
      destruct (time_ok_parts _ T1) as [_ B1]. destruct (time_ok_parts _ T2) as [_ B2].
      rewrite !srt_ts_full by assumption. reflexivity. }
  rewrite E. rewrite <- (runs_partition caps) at 1.
  apply may_merge_runs. intros r Hr. split.
  - destruct (caps_time_ok_in caps _ H (run_last_in caps r Hr)) as [T1 T2].
    apply (hms_cue_conveys WSrt 44 (fst r) (run_last r)); [left; split; reflexivity|apply (run_last_span caps); exact Hr|exact T1|exact T2].
  - intros x Hx. rewrite span_sym. apply (runs_members_same caps r x Hr Hx).
Qed.

(* legacy / single-position DFXP: merge_concurrent_captions, then one <p> per merged caption *)
Lemma merged_model_meets_oracle : forall caps, caps_time_ok caps = true -> nodes_nonempty caps = true ->
  exists l, merge_lang caps = Ok l /\ ok_cues WMerged caps (map (hms_tok 46) l) = true.
Proof.
  intros caps H Hn. exists (spec_merge_lang caps). split; [apply merge_lang_spec; exact Hn|].
  unfold ok_cues, spec_merge_lang. rewrite map_map. rewrite <- (runs_partition caps) at 1.
  apply (may_merge_runs WMerged (fun r => hms_tok 46 (join_run r))). intros [c cs] Hr. cbn [fst snd]. split.
  - assert (Hin : In c caps) by (apply (runs_heads_in caps (c, cs)); exact Hr).
    destruct (caps_time_ok_in caps c H Hin) as [T1 T2].
    unfold hms_tok. cbn [join_run c_start c_end].
    apply (hms_cue_conveys WMerged 46 c c); [right; split; reflexivity|apply span_refl|exact T1|exact T2].
  - intros x Hx. rewrite span_sym. apply (runs_members_same caps (c, cs) x Hr Hx).
Qed.

(* DFXP one <p> per caption, MicroDVD one line per caption *)
Lemma dfxp_model_meets_oracle : forall caps, caps_time_ok caps = true -> ok_cues WDfxp caps (dfxp_tokens caps) = true.
Proof.
  intros caps H. unfold ok_cues, dfxp_tokens. induction caps as [|c t IH]; [reflexivity|].
  cbn [caps_time_ok forallb] in H. apply andb_true_iff in H. destruct H as [Hc Ht].
  apply andb_true_iff in Hc. destruct Hc as [Hs He].
  destruct (time_ok_parts _ Hs) as [_ Bs]. destruct (time_ok_parts _ He) as [_ Be].
  cbn [map ok_each]. unfold tok_ok. cbn [fst snd ok_token]. unfold dfxp_ts.
  rewrite !fmt_hms_ok by assumption. cbn [andb]. apply IH. exact Ht.
Qed.

Lemma mdvd_model_meets_oracle : forall caps, caps_time_ok caps = true -> ok_cues WMdvd caps (mdvd_tokens caps) = true.
Proof.
  intros caps H. unfold ok_cues, mdvd_tokens. induction caps as [|c t IH]; [reflexivity|].
  cbn [caps_time_ok forallb] in H. apply andb_true_iff in H. destruct H as [Hc Ht].
  apply andb_true_iff in Hc. destruct Hc as [Hs He].
  destruct (time_ok_parts _ Hs) as [Ps _]. destruct (time_ok_parts _ He) as [Pe _].
  cbn [map ok_each]. unfold tok_ok. cbn [fst snd ok_token].
  rewrite !mdvd_token_ok by assumption. cbn [andb]. apply IH. exact Ht.
Qed.

(* ---- WebVTT: the grouping loop, characterised (a description of the MODEL, not a demand of the statement) ---- *)
Definition text_layouts (nodes : list vnode) : list (option Z) :=
  flat_map (fun n => match n with VText l => [l] | _ => [] end) nodes.

Fixpoint layout_changes (prev : option Z) (ls : list (option Z)) : nat :=
  match ls with
  | [] => O
  | l :: t => (match prev with
               | Some c => if opt_z_eqb l (Some c) then O else 1%nat
               | None => O
               end + layout_changes l t)%nat
  end.

Definition shows_something (nodes : list vnode) : bool :=
  existsb (fun n => match n with VText _ => true | VStyle e => e | VBreak => true end) nodes.

Definition spec_groups (nodes : list vnode) : nat :=
  if shows_something nodes then S (layout_changes None (text_layouts nodes)) else O.

Lemma vtt_group_fold : forall nodes g ne cur, (cur <> None -> ne = true) ->
  exists cur',
    fold_left vtt_group_step nodes (g, ne, cur)
    = ((g + layout_changes cur (text_layouts nodes))%nat, ne || shows_something nodes, cur')
    /\ (cur' <> None -> ne || shows_something nodes = true).
Proof.
  induction nodes as [|n nodes IH]; intros g ne cur Hinv.
  - exists cur. cbn [fold_left text_layouts flat_map layout_changes shows_something existsb].
    rewrite Nat.add_0_r, orb_false_r. split; [reflexivity|exact Hinv].
  - cbn [fold_left]. destruct n as [l|e|]; cbn [vtt_group_step].
    + destruct (IH (if ne && match cur with Some c => negb (opt_z_eqb l (Some c)) | None => false end then S g else g)
                   true l ltac:(intros; reflexivity)) as [cur' [E I]].
      exists cur'. rewrite E. cbn [text_layouts flat_map app layout_changes shows_something existsb orb].
      rewrite orb_true_r. split; [|intros; reflexivity]. f_equal. f_equal.
      destruct cur as [c|].
      * rewrite (Hinv ltac:(discriminate)). cbn [andb]. destruct (opt_z_eqb l (Some c)); cbn [negb]; unfold text_layouts; lia.
      * rewrite andb_false_r. unfold text_layouts. lia.
    + destruct (IH g (ne || e) cur ltac:(intros Hc; rewrite (Hinv Hc); reflexivity)) as [cur' [E I]].
      exists cur'. rewrite E. cbn [text_layouts flat_map app shows_something existsb].
      split; [rewrite orb_assoc; reflexivity|intros Hc; rewrite orb_assoc; exact (I Hc)].
    + destruct (IH g true cur ltac:(intros; reflexivity)) as [cur' [E I]].
      exists cur'. rewrite E. cbn [text_layouts flat_map app shows_something existsb orb].
      rewrite orb_true_r. split; [reflexivity|intros; reflexivity].
Qed.

Lemma nothing_shown_no_text : forall nodes, shows_something nodes = false -> text_layouts nodes = [].
Proof.
  induction nodes as [|n t IH]; intros H; [reflexivity|].
  cbn [shows_something existsb] in H. apply orb_false_iff in H. destruct H as [H1 H2].
  destruct n as [l|e|]; try discriminate H1. cbn [text_layouts flat_map app]. apply IH. exact H2.
Qed.

Lemma vtt_group_count_spec : forall nodes, vtt_group_count nodes = spec_groups nodes.
Proof.
  intros nodes. unfold vtt_group_count, spec_groups. destruct nodes as [|n t]; [reflexivity|].
  destruct (vtt_group_fold (n :: t) O false None ltac:(congruence)) as [cur' [E _]].
  rewrite E. cbn [orb Nat.add].
  destruct (shows_something (n :: t)) eqn:S; [reflexivity|].
  rewrite (nothing_shown_no_text _ S). reflexivity.
Qed.

(* WebVTT: a caption that shows something gets one or more cues, all with its times: accepted by "may split" *)
Lemma may_split_repeat : forall k c (o : str * str) n rest_o rest_c, tok_ok k c o = true ->
  ok_may_split k rest_o rest_c = true ->
  ok_may_split k (repeat o (S n) ++ rest_o) (c :: rest_c) = true.
Proof.
  intros k c o n rest_o rest_c Ho Hr. induction n as [|n IH].
  - cbn [repeat app ok_may_split]. rewrite Ho, Hr. reflexivity.
  - change (repeat o (S (S n))) with (o :: repeat o (S n)). cbn [app ok_may_split]. rewrite Ho. cbn [andb].
    rewrite IH. apply orb_true_r.
Qed.

Lemma vtt_model_meets_oracle : forall caps : list (caption * list vnode), caps_time_ok (map fst caps) = true ->
  forallb (fun cn => shows_something (snd cn)) caps = true ->
  ok_cues WVtt (map fst caps) (vtt_tokens caps) = true.
Proof.
  intros caps H S. unfold ok_cues, vtt_tokens. induction caps as [|[c nodes] t IH]; [reflexivity|].
  cbn [map fst caps_time_ok forallb] in H. apply andb_true_iff in H. destruct H as [Hc Ht].
  apply andb_true_iff in Hc. destruct Hc as [Hs He].
  cbn [forallb snd] in S. apply andb_true_iff in S. destruct S as [S1 S2].
  destruct (time_ok_parts _ Hs) as [_ Bs]. destruct (time_ok_parts _ He) as [_ Be].
  cbn [map fst snd concat]. unfold vtt_cap_tokens. rewrite vtt_group_count_spec. unfold spec_groups. rewrite S1.
  apply may_split_repeat; [|apply IH; assumption].
  unfold tok_ok. cbn [fst snd ok_token]. rewrite !vtt_ts_ok by assumption. reflexivity.
Qed.
