(* C03, SRT and MicroDVD: the cue content written for any node list has no blank line inside, carries the
   authored lines, and the documents are read back block by block by the reference grammars. *)
From Coq Require Import List ZArith Bool Lia ZifyBool.
From PV Require Import lib.Sx lib.Str model.TextNodes model.TextWrite.
From PV Require Import spec.SpecTextLines spec.SpecTextVtt spec.SpecTextBlocks.
From PV Require Import proofs.TextStrFacts proofs.TextLinesFacts.
Import ListNotations.
Open Scope Z_scope.

Definition no_ch (x : Z) (s : str) : bool := forallb (fun c => negb (c =? x)) s.

Fixpoint texts_no (x : Z) (ns : list node) : bool :=
  match ns with
  | [] => true
  | NText s :: t => no_ch x s && texts_no x t
  | _ :: t => texts_no x t
  end.

Lemma no_ch_app : forall x a b, no_ch x (a ++ b) = no_ch x a && no_ch x b.
Proof. intros. unfold no_ch. apply forallb_app. Qed.

(* ---- blank lines --------------------------------------------------------------------- *)
Lemma lstrip_by_snoc_keep : forall f a c, f c = false -> lstrip_by f (a ++ [c]) <> [].
Proof.
  intros f a c H. induction a as [|x a IH]; cbn [app lstrip_by].
  - rewrite H. discriminate.
  - destruct (f x); [exact IH|discriminate].
Qed.

Lemma strip_nil_iff : forall s, strip s = [] <-> forallb is_space s = true.
Proof.
  intros s. unfold strip, strip_by, rstrip_by. split.
  - intros H. apply (f_equal (@rev Z)) in H. rewrite rev_involutive in H. cbn [rev] in H.
    induction s as [|c t IH]; [reflexivity|].
    cbn [lstrip_by] in H. cbn [forallb]. destruct (is_space c) eqn:E; [apply IH; exact H|].
    exfalso. cbn [rev] in H. revert H. apply lstrip_by_snoc_keep. exact E.
  - intros H. rewrite (lstrip_by_all is_space s H). reflexivity.
Qed.

Lemma ascii_space_is_space : forall c, ascii_space c = true -> is_space c = true.
Proof. intros c H. unfold ascii_space in H. unfold is_space. lia. Qed.

Lemma nonblank_not_blank : forall l, nonblank l = true -> is_blank l = false.
Proof.
  intros l H. unfold is_blank. destruct (forallb ascii_space l) eqn:F; [|reflexivity].
  assert (G : forallb is_space l = true).
  { apply forallb_forall. intros c Hc. apply ascii_space_is_space. rewrite forallb_forall in F. apply F. exact Hc. }
  apply strip_nil_iff in G. unfold nonblank in H. rewrite G in H. discriminate.
Qed.

Lemma norm_line_blank : forall l, nonblank l = false -> norm_line l = [].
Proof.
  intros l H. unfold nonblank in H. destruct (strip l) eqn:E; [|discriminate].
  rewrite <- norm_line_strip, E. reflexivity.
Qed.

Lemma norm_lines_filter_nonblank : forall ls, norm_lines (filter nonblank ls) = norm_lines ls.
Proof.
  induction ls as [|l ls IH]; [reflexivity|].
  cbn [filter]. destruct (nonblank l) eqn:E.
  - rewrite !norm_lines_cons, IH. reflexivity.
  - rewrite norm_lines_cons, norm_line_blank by exact E. exact IH.
Qed.

(* ---- SRT: content of one cue -------------------------------------------------------------- *)
Lemma split_srt_pieces : forall ns cur, texts_no 10 ns = true -> no_ch 10 cur = true ->
  split_ch 10 (cur ++ concat (map srt_piece ns)) = node_lines_aux ns cur.
Proof.
  induction ns as [|n ns IH]; intros cur Ht Hc.
  - cbn [map concat node_lines_aux]. rewrite split_ch_app_nosep by exact Hc. cbn. rewrite app_nil_r. reflexivity.
  - destruct n as [s| |st sty]; cbn [map concat srt_piece node_lines_aux texts_no] in *.
    + apply andb_true_iff in Ht. destruct Ht as [Hs Ht]. rewrite app_assoc.
      apply IH; [exact Ht|]. rewrite no_ch_app, Hc, Hs. reflexivity.
    + rewrite split_ch_app_nosep by exact Hc. cbn [app]. rewrite split_ch_cons_sep, app_nil_r.
      rewrite <- (IH [] Ht eq_refl). reflexivity.
    + cbn [app]. apply IH; assumption.
Qed.

Theorem srt_raw_lines : forall ns, texts_no 10 ns = true ->
  norm_lines (split_ch 10 (srt_raw ns)) = norm_lines (node_lines ns).
Proof.
  intros ns H. unfold srt_raw, node_lines. rewrite norm_lines_split_strip.
  rewrite <- (split_srt_pieces ns [] H eq_refl). reflexivity.
Qed.

Definition srt_content_lines (ns : list node) : list str := filter nonblank (split_ch 10 (srt_raw ns)).

Lemma filter_split_no_sep : forall sep (P : str -> bool) s l, In l (filter P (split_ch sep s)) -> no_ch sep l = true.
Proof. intros sep P s l H. apply filter_In in H. destruct H as [H _]. apply (split_ch_no_sep sep s l H). Qed.

(* the content, split at line feeds, is exactly the non-blank lines: no blank line inside, nothing lost *)
Theorem srt_content_split : forall ns, srt_content_lines ns <> [] ->
  split_ch 10 (srt_content ns) = srt_content_lines ns.
Proof.
  intros ns H. unfold srt_content. apply split_ch_join; [exact H|].
  intros l Hl. apply (filter_split_no_sep 10 nonblank (srt_raw ns) l Hl).
Qed.

Theorem srt_content_no_blank_line : forall ns, srt_content_lines ns <> [] ->
  forallb nonblank (split_ch 10 (srt_content ns)) = true.
Proof.
  intros ns H. rewrite srt_content_split by exact H. unfold srt_content_lines.
  apply forallb_forall. intros l Hl. apply filter_In in Hl. apply Hl.
Qed.

Theorem srt_content_authored_lines : forall ns, texts_no 10 ns = true ->
  norm_lines (srt_content_lines ns) = norm_lines (node_lines ns).
Proof. intros ns H. unfold srt_content_lines. rewrite norm_lines_filter_nonblank. apply srt_raw_lines. exact H. Qed.

(* the pinned writer (no filtering) did leave a blank line inside the cue *)
Theorem srt_double_break_refuted : exists ns,
  texts_no 10 ns = true /\ forallb nonblank (split_ch 10 (srt_content_prefix ns)) = false.
Proof. exists [NText (lit "a"); NBreak; NBreak; NText (lit "b")]. split; vm_compute; reflexivity. Qed.

(* ---- documents as lists of lines --------------------------------------------------------- *)
Definition no_eol (l : str) : bool := forallb (fun c => negb (c =? 10) && negb (c =? 13)) l.

Lemma lf_lines_aux_line : forall l rest cur, no_eol l = true ->
  lf_lines_aux (l ++ 10 :: rest) cur = (rev cur ++ l) :: lf_lines_aux rest [].
Proof.
  induction l as [|c l IH]; intros rest cur H.
  - cbn [app lf_lines_aux]. rewrite app_nil_r. reflexivity.
  - cbn [no_eol forallb] in H. apply andb_true_iff in H. destruct H as [Hc Hl]. apply andb_true_iff in Hc.
    destruct Hc as [H10 H13]. cbn [app lf_lines_aux].
    destruct (c =? 10); [discriminate|]. destruct (c =? 13); [discriminate|].
    rewrite (IH rest (c :: cur) Hl). cbn [rev]. rewrite <- app_assoc. reflexivity.
Qed.

Definition nl_terminated (ls : list str) : str := concat (map (fun l => l ++ [10]) ls).

Lemma lf_lines_terminated : forall ls, forallb no_eol ls = true -> lf_lines (nl_terminated ls) = ls ++ [[]].
Proof.
  induction ls as [|l ls IH]; intros H; [reflexivity|].
  cbn [forallb] in H. apply andb_true_iff in H. destruct H as [Hl Hls].
  unfold nl_terminated, lf_lines. cbn [map concat]. rewrite <- app_assoc. cbn [app].
  rewrite lf_lines_aux_line by exact Hl. cbn [rev app]. f_equal. apply IH. exact Hls.
Qed.

Lemma join_terminated : forall ls, ls <> [] -> join [10] ls ++ [10] = nl_terminated ls.
Proof.
  induction ls as [|a ls IH]; intros H; [congruence|].
  destruct ls as [|b ls'].
  - cbn. rewrite app_nil_r. reflexivity.
  - change (join [10] (a :: b :: ls')) with (a ++ [10] ++ join [10] (b :: ls')).
    change (nl_terminated (a :: b :: ls')) with ((a ++ [10]) ++ nl_terminated (b :: ls')).
    rewrite <- IH by discriminate. rewrite <- !app_assoc. reflexivity.
Qed.

Lemma nl_terminated_app : forall a b, nl_terminated (a ++ b) = nl_terminated a ++ nl_terminated b.
Proof. intros. unfold nl_terminated. rewrite map_app, concat_app. reflexivity. Qed.

Lemma drop_last_snoc : forall (s : str) c, drop_last (s ++ [c]) = s.
Proof.
  intros s c. unfold drop_last. rewrite app_length. cbn [length].
  replace (length s + 1 - 1)%nat with (length s) by lia. apply firstn_app_exact.
Qed.

(* runs of non-blank lines *)
Lemma runs_by_nonblank_app : forall blank b rest cur, forallb (fun l => negb (blank l)) b = true ->
  runs_by blank (b ++ rest) cur = runs_by blank rest (rev b ++ cur).
Proof.
  intros blank b. induction b as [|l b IH]; intros rest cur H; [reflexivity|].
  cbn [forallb] in H. apply andb_true_iff in H. destruct H as [Hl Hb].
  cbn [app runs_by]. destruct (blank l); [discriminate|].
  rewrite IH by exact Hb. cbn [rev]. rewrite <- app_assoc. reflexivity.
Qed.

(* ---- decimal numerals ---------------------------------------------------------------------- *)
Lemma dec_aux_digits : forall fuel z acc, 0 <= z -> forallb is_digit acc = true ->
  forallb is_digit (dec_aux fuel z acc) = true.
Proof.
  induction fuel as [|f IH]; intros z acc Hz Hacc; [exact Hacc|].
  cbn [dec_aux].
  assert (Hd : is_digit (48 + z mod 10) = true).
  { unfold is_digit. pose proof (Z.mod_pos_bound z 10 ltac:(lia)). lia. }
  destruct (z <? 10).
  - cbn [forallb]. rewrite Hd, Hacc. reflexivity.
  - apply IH; [apply Z.div_pos; lia|]. cbn [forallb]. rewrite Hd, Hacc. reflexivity.
Qed.

Lemma dec_aux_keep : forall fuel z acc, acc <> [] -> dec_aux fuel z acc <> [].
Proof.
  induction fuel as [|f IH]; intros z acc H; [exact H|].
  change (dec_aux (S f) z acc) with
    (let acc' := (48 + z mod 10) :: acc in if z <? 10 then acc' else dec_aux f (z / 10) acc').
  cbv zeta. destruct (z <? 10); [discriminate|]. apply IH. discriminate.
Qed.

Lemma dec_aux_nonnil : forall fuel z acc, dec_aux (S fuel) z acc <> [].
Proof.
  intros fuel z acc.
  change (dec_aux (S fuel) z acc) with
    (let acc' := (48 + z mod 10) :: acc in if z <? 10 then acc' else dec_aux fuel (z / 10) acc').
  cbv zeta. destruct (z <? 10); [discriminate|]. apply dec_aux_keep. discriminate.
Qed.

Lemma dec_z_digits : forall k, 0 <= k -> forallb is_digit (dec_z k) = true /\ dec_z k <> [].
Proof.
  intros k Hk. unfold dec_z. destruct (Z.ltb_spec k 0); [lia|]. unfold dec_nonneg. split.
  - apply dec_aux_digits; [exact Hk|reflexivity].
  - apply dec_aux_nonnil.
Qed.

Lemma digit_not_space : forall c, is_digit c = true -> is_space c = false.
Proof. intros c H. unfold is_digit in H. unfold is_space. lia. Qed.

Lemma strip_no_outer_space : forall s, forallb (fun c => negb (is_space c)) s = true -> strip s = s.
Proof.
  intros s H. unfold strip, strip_by, rstrip_by.
  assert (L : forall x, forallb (fun c => negb (is_space c)) x = true -> lstrip_by is_space x = x).
  { intros [|c x] Hx; [reflexivity|]. cbn [forallb] in Hx. apply andb_true_iff in Hx. destruct Hx as [Hc _].
    cbn [lstrip_by]. destruct (is_space c); [discriminate|reflexivity]. }
  rewrite (L s H). rewrite L; [apply rev_involutive|]. rewrite forallb_rev. exact H.
Qed.

Lemma digits_facts : forall d, forallb is_digit d = true -> d <> [] ->
  strip d = d /\ isdigit d = true /\ nonblank d = true /\ no_eol d = true.
Proof.
  intros d Hd Hne.
  assert (Hs : strip d = d).
  { apply strip_no_outer_space. apply forallb_forall. intros c Hc.
    rewrite forallb_forall in Hd. rewrite (digit_not_space c (Hd c Hc)). reflexivity. }
  split; [exact Hs|]. split; [|split].
  - unfold isdigit. destruct d; [congruence|exact Hd].
  - unfold nonblank. rewrite Hs. destruct d; [congruence|reflexivity].
  - unfold no_eol. apply forallb_forall. intros c Hc. rewrite forallb_forall in Hd. specialize (Hd c Hc).
    unfold is_digit in Hd. lia.
Qed.

(* ---- SRT: the document ------------------------------------------------------------------------ *)
(* hypotheses on one caption: its timing line (C02's business) is a line with an arrow; its texts contain no
   line ends; it shows something *)
Definition srt_cap_ok (c : str * list node) : Prop :=
  no_eol (fst c) = true /\ has_arrow (fst c) = true /\ nonblank (fst c) = true /\
  texts_no 10 (snd c) = true /\ texts_no 13 (snd c) = true /\ srt_content_lines (snd c) <> [].

Fixpoint srt_all_lines (k : Z) (caps : list (str * list node)) : list str :=
  match caps with
  | [] => []
  | (tl, ns) :: t => [dec_z k; tl] ++ srt_content_lines ns ++ [[]] ++ srt_all_lines (k + 1) t
  end.

Lemma srt_blocks_lines : forall caps k, Forall srt_cap_ok caps ->
  srt_blocks_from srt_content k caps = nl_terminated (srt_all_lines k caps).
Proof.
  induction caps as [|[tl ns] caps IH]; intros k H; [reflexivity|].
  inversion H as [|x l Hc Hrest]; subst. destruct Hc as (_ & _ & _ & _ & _ & Hne). cbn [snd] in Hne.
  cbn [srt_blocks_from srt_all_lines]. rewrite (IH (k + 1) Hrest).
  rewrite !nl_terminated_app.
  change (nl_terminated [dec_z k; tl]) with ((dec_z k ++ [10]) ++ (tl ++ [10]) ++ []).
  change (nl_terminated [[]]) with [10].
  rewrite <- (join_terminated (srt_content_lines ns) Hne). unfold srt_content, srt_content_lines.
  rewrite <- !app_assoc. reflexivity.
Qed.

Lemma split_ch_forallb : forall (P : Z -> bool) sep s l, forallb P s = true -> In l (split_ch sep s) -> forallb P l = true.
Proof.
  intros P sep s. induction s as [|c t IH]; intros l Hs Hl.
  - destruct Hl as [<-|[]]. reflexivity.
  - cbn [forallb] in Hs. apply andb_true_iff in Hs. destruct Hs as [Hc Ht].
    destruct (Z.eqb_spec c sep) as [->|Hne].
    + rewrite split_ch_cons_sep in Hl. destruct Hl as [<-|Hl]; [reflexivity|apply IH; assumption].
    + rewrite split_ch_cons_other in Hl by exact Hne. destruct (split_ch sep t) as [|l0 rest] eqn:E; [destruct Hl|].
      destruct Hl as [<-|Hl].
      * cbn [forallb]. rewrite Hc. apply IH; [exact Ht|left; reflexivity].
      * apply IH; [exact Ht|right; exact Hl].
Qed.

Lemma forallb_lstrip : forall (P f : Z -> bool) s, forallb P s = true -> forallb P (lstrip_by f s) = true.
Proof.
  intros P f s. induction s as [|c t IH]; intros H; [reflexivity|].
  cbn [lstrip_by]. destruct (f c); [|exact H]. cbn [forallb] in H. apply andb_true_iff in H. apply IH. apply H.
Qed.

Lemma forallb_strip : forall (P : Z -> bool) s, forallb P s = true -> forallb P (strip s) = true.
Proof.
  intros P s H. unfold strip, strip_by, rstrip_by. rewrite forallb_rev. apply forallb_lstrip.
  rewrite forallb_rev. apply forallb_lstrip. exact H.
Qed.

Lemma srt_pieces_no : forall x ns, x <> 10 -> texts_no x ns = true -> no_ch x (concat (map srt_piece ns)) = true.
Proof.
  intros x ns H10. induction ns as [|n ns IH]; intros H; [reflexivity|].
  destruct n as [s| |a b]; cbn [map concat srt_piece texts_no] in *.
  - apply andb_true_iff in H. destruct H as [Hs Ht]. rewrite no_ch_app, Hs, (IH Ht). reflexivity.
  - rewrite no_ch_app, (IH H). change (no_ch x [10]) with (negb (10 =? x) && true).
    destruct (Z.eqb_spec 10 x); [congruence|]. reflexivity.
  - exact (IH H).
Qed.

Lemma srt_content_lines_no_eol : forall ns l, texts_no 13 ns = true -> In l (srt_content_lines ns) -> no_eol l = true.
Proof.
  intros ns l H13 Hl. unfold srt_content_lines in Hl. apply filter_In in Hl. destruct Hl as [Hl _].
  pose proof (split_ch_no_sep 10 _ l Hl) as H10.
  assert (Hc : no_ch 13 l = true).
  { apply (split_ch_forallb _ 10 (srt_raw ns) l); [|exact Hl]. unfold srt_raw. apply forallb_strip.
    apply srt_pieces_no; [discriminate|exact H13]. }
  unfold no_eol. apply forallb_forall. intros c Hin.
  unfold no_ch in Hc. rewrite forallb_forall in H10, Hc. rewrite (H10 c Hin), (Hc c Hin). reflexivity.
Qed.

Lemma srt_all_lines_no_eol : forall caps k, 0 <= k -> Forall srt_cap_ok caps ->
  forallb no_eol (srt_all_lines k caps) = true.
Proof.
  induction caps as [|[tl ns] caps IH]; intros k Hk H; [reflexivity|].
  inversion H as [|x l Hc Hrest]; subst. destruct Hc as (Htl & _ & _ & _ & H13 & _). cbn [fst snd] in *.
  cbn [srt_all_lines]. rewrite !forallb_app. cbn [forallb].
  destruct (dec_z_digits k Hk) as [Hd Hn]. destruct (digits_facts _ Hd Hn) as (_ & _ & _ & He).
  assert (Hk1 : 0 <= k + 1) by lia. pose proof (IH (k + 1) Hk1 Hrest) as Q. unfold str in *. rewrite He, Htl, Q.
  change (no_eol []) with true. cbn [andb]. rewrite andb_true_r.
  apply forallb_forall. intros l0 Hl0. apply (srt_content_lines_no_eol ns l0 H13 Hl0).
Qed.

Lemma srt_runs : forall caps k, 0 <= k -> Forall srt_cap_ok caps ->
  runs_by is_blank (srt_all_lines k caps) [] =
  map (fun p => [dec_z (fst p); fst (snd p)] ++ srt_content_lines (snd (snd p)))
      (combine (map (fun i => k + Z.of_nat i) (seq 0 (length caps))) caps).
Proof.
  induction caps as [|[tl ns] caps IH]; intros k Hk H; [reflexivity|].
  inversion H as [|x l Hc Hrest]; subst. destruct Hc as (_ & _ & Hnb & _ & _ & _). cbn [fst snd] in *.
  cbn [srt_all_lines].
  destruct (dec_z_digits k Hk) as [Hd Hn]. destruct (digits_facts _ Hd Hn) as (_ & _ & Hdn & _).
  rewrite app_assoc. rewrite runs_by_nonblank_app.
  2:{ rewrite forallb_app. cbn [forallb]. rewrite (nonblank_not_blank _ Hdn), (nonblank_not_blank _ Hnb). cbn [negb andb].
      apply forallb_forall. intros l0 Hl0. unfold srt_content_lines in Hl0. apply filter_In in Hl0.
      destruct Hl0 as [_ Hl0]. rewrite (nonblank_not_blank _ Hl0). reflexivity. }
  cbn [app runs_by]. change (is_blank []) with true. cbv iota.
  rewrite app_nil_r. destruct (rev (dec_z k :: tl :: srt_content_lines ns)) eqn:E.
  { apply (f_equal (@length str)) in E. rewrite rev_length in E. cbn in E. lia. }
  rewrite <- E, rev_involutive. cbn [length seq map combine fst snd].
  rewrite Z.add_0_r. f_equal. rewrite (IH (k + 1) ltac:(lia) Hrest).
  rewrite <- seq_shift, map_map. f_equal. f_equal. apply map_ext. intros i. lia.
Qed.

Lemma srt_blocks_text : forall caps n0 k, 0 <= k -> Forall srt_cap_ok caps ->
  opt_map srt_block_text
    (map (fun p => dec_z (fst p) :: fst (snd p) :: srt_content_lines (snd (snd p)))
         (combine (map (fun i => k + Z.of_nat i) (seq n0 (length caps))) caps))
  = Some (map (fun c => srt_content_lines (snd c)) caps).
Proof.
  induction caps as [|[tl ns] caps IH]; intros n0 k Hk H; [reflexivity|].
  inversion H as [|x l Hc Hrest]; subst. destruct Hc as (_ & Har & _ & _ & _ & _). cbn [fst snd] in *.
  cbn [length seq map combine opt_map fst snd].
  unfold srt_block_text at 1.
  destruct (dec_z_digits (k + Z.of_nat n0) ltac:(lia)) as [Hd Hn].
  destruct (digits_facts _ Hd Hn) as (Hs & Hi & _ & _).
  rewrite Hs, Hi, Har. cbn [andb]. rewrite (IH (S n0) k Hk Hrest). reflexivity.
Qed.

(* the reference SRT block grammar reads the written document back: one block per caption, in order, whose
   text lines are the caption's non-blank lines *)
Theorem srt_blocks_roundtrip : forall caps, caps <> [] -> Forall srt_cap_ok caps ->
  srt_cues (srt_doc_merged caps) = Some (map (fun c => srt_content_lines (snd c)) caps).
Proof.
  intros caps Hne H. unfold srt_cues, srt_doc_merged.
  rewrite srt_blocks_lines by exact H.
  assert (Hlast : exists L, srt_all_lines 1 caps = L ++ [[]]).
  { clear H. generalize 1. induction caps as [|[tl ns] caps IH]; intros k; [congruence|].
    cbn [srt_all_lines]. destruct caps as [|c caps'].
    - exists ([dec_z k; tl] ++ srt_content_lines ns). cbn [srt_all_lines]. rewrite app_nil_r, app_assoc. reflexivity.
    - destruct (IH ltac:(discriminate) (k + 1)) as [L HL]. rewrite HL.
      exists ([dec_z k; tl] ++ srt_content_lines ns ++ [[]] ++ L). rewrite <- !app_assoc. reflexivity. }
  destruct Hlast as [L HL].
  pose proof (srt_all_lines_no_eol caps 1 ltac:(lia) H) as Hno.
  assert (Hlines : lf_lines (drop_last (nl_terminated (srt_all_lines 1 caps))) = srt_all_lines 1 caps).
  { rewrite HL in Hno |- *. rewrite nl_terminated_app. change (nl_terminated [[]]) with [10].
    rewrite drop_last_snoc. rewrite forallb_app in Hno. apply andb_true_iff in Hno. destruct Hno as [HnoL _].
    apply lf_lines_terminated. exact HnoL. }
  rewrite Hlines.
  rewrite srt_runs by (try lia; exact H).
  apply srt_blocks_text; [lia|exact H].
Qed.

(* ---- SRT: the model meets the oracle -------------------------------------------------------------------------- *)
Lemma trim_lines_filter_nonblank : forall ls, trim_lines (filter nonblank ls) = trim_lines ls.
Proof.
  induction ls as [|l ls IH]; [reflexivity|]. cbn [filter]. unfold trim_lines in *. destruct (nonblank l) eqn:E.
  - cbn [map filter]. rewrite IH. reflexivity.
  - cbn [map filter]. unfold nonblank in E. destruct (strip l); [cbn [SpecTextLines.nonempty]; exact IH|discriminate].
Qed.

Lemma srt_content_trim : forall ns, texts_no 10 ns = true ->
  trim_lines (srt_content_lines ns) = trim_lines (node_lines ns).
Proof.
  intros ns H. unfold srt_content_lines, srt_raw, node_lines. rewrite trim_lines_filter_nonblank, trim_lines_split_strip.
  rewrite <- (split_srt_pieces ns [] H eq_refl). reflexivity.
Qed.

Lemma strs_eqb_refl : forall l, strs_eqb l l = true.
Proof.
  induction l as [|x l IH]; [reflexivity|]. cbn [strs_eqb]. rewrite IH, andb_true_r.
  induction x as [|c x IHx]; [reflexivity|]. cbn [str_eqb]. rewrite Z.eqb_refl, IHx. reflexivity.
Qed.

Lemma ok_cues_strict_map : forall (A : Type) (f g : A -> list str) l,
  (forall x, In x l -> trim_lines (f x) = trim_lines (g x)) -> ok_cues_strict (map f l) (map g l) = true.
Proof.
  intros A f g l. induction l as [|x l IH]; intros H; [reflexivity|].
  cbn [map ok_cues_strict]. unfold ok_lines_strict. rewrite (H x (or_introl eq_refl)), strs_eqb_refl. cbn [andb].
  apply IH. intros y Hy. apply H. right. exact Hy.
Qed.

(* the document the SRT writer model produces is read by the reference block grammar as one cue per (merged)
   caption whose lines are the authored lines up to leading / trailing white space: the property oracle is true *)
Theorem srt_doc_meets_oracle : forall caps, srt_merge caps <> [] -> Forall srt_cap_ok (srt_merge caps) ->
  exists cues, srt_cues (srt_doc caps) = Some cues /\
               ok_cues_strict (map (fun c => node_lines (snd c)) (srt_merge caps)) cues = true.
Proof.
  intros caps Hne H. unfold srt_doc. rewrite (srt_blocks_roundtrip _ Hne H). eexists. split; [reflexivity|].
  apply ok_cues_strict_map. intros c Hc. symmetry. apply srt_content_trim.
  rewrite Forall_forall in H. destruct (H c Hc) as (_ & _ & _ & H10 & _). exact H10.
Qed.

(* what the merge does: consecutive captions with the same timing line become one, joined by a break *)
Example srt_merge_example :
  srt_merge [(lit "t1", [NText (lit "a")]); (lit "t1", [NText (lit "b")]); (lit "t2", [NText (lit "c")])]
  = [(lit "t1", [NText (lit "a"); NBreak; NText (lit "b")]); (lit "t2", [NText (lit "c")])].
Proof. reflexivity. Qed.

(* ---- MicroDVD ---------------------------------------------------------------------------------- *)
Definition mdvd_raw (ns : list node) : str := concat (map mdvd_piece ns).
Definition is_pipe (c : Z) : bool := c =? 124.

(* texts without CR / LF (what every reader produces) are written as they are *)
Lemma mdvd_nl_id : forall s, no_ch 10 s = true -> no_ch 13 s = true -> mdvd_nl s = s.
Proof.
  induction s as [|c t IH]; intros H10 H13; [reflexivity|].
  cbn [no_ch forallb] in H10, H13. apply andb_true_iff in H10. apply andb_true_iff in H13.
  destruct H10 as [A10 B10]. destruct H13 as [A13 B13].
  cbn [mdvd_nl]. destruct (Z.eqb_spec c 13) as [->|_]; [discriminate|].
  destruct (Z.eqb_spec c 10) as [->|_]; [discriminate|]. f_equal. apply IH; assumption.
Qed.
Definition mdvd_piece0 (n : node) : str :=
  match n with NText s => s | NBreak => lit "|" | NStyle _ _ => [] end.
Definition mdvd_raw0 (ns : list node) : str := concat (map mdvd_piece0 ns).
Lemma mdvd_raw_plain : forall ns, texts_no 10 ns = true -> texts_no 13 ns = true -> mdvd_raw ns = mdvd_raw0 ns.
Proof.
  unfold mdvd_raw, mdvd_raw0. induction ns as [|n ns IH]; intros H10 H13; [reflexivity|].
  destruct n as [s| |a b]; cbn [map concat mdvd_piece mdvd_piece0 texts_no] in *.
  - apply andb_true_iff in H10. apply andb_true_iff in H13. destruct H10 as [A B]. destruct H13 as [C D].
    rewrite (mdvd_nl_id s A C), (IH B D). reflexivity.
  - rewrite (IH H10 H13). reflexivity.
  - rewrite (IH H10 H13). reflexivity.
Qed.
(* a line end inside a text node becomes a line break, also at the edges of the node *)
Example mdvd_nl_example : mdvd_nl (lit "a" ++ [13; 10] ++ lit "b" ++ [13] ++ lit "c" ++ [10]) = lit "a|b|c|".
Proof. vm_compute. reflexivity. Qed.

Lemma split_mdvd_pieces : forall ns cur, texts_no 124 ns = true -> no_ch 124 cur = true ->
  split_ch 124 (cur ++ mdvd_raw0 ns) = node_lines_aux ns cur.
Proof.
  unfold mdvd_raw0. induction ns as [|n ns IH]; intros cur Ht Hc.
  - cbn [map concat node_lines_aux]. rewrite split_ch_app_nosep by exact Hc. cbn. rewrite app_nil_r. reflexivity.
  - destruct n as [s| |st sty]; cbn [map concat mdvd_piece0 node_lines_aux texts_no] in *.
    + apply andb_true_iff in Ht. destruct Ht as [Hs Ht]. rewrite app_assoc.
      apply IH; [exact Ht|]. rewrite no_ch_app, Hc, Hs. reflexivity.
    + rewrite split_ch_app_nosep by exact Hc. change (lit "|") with [124]. cbn [app].
      rewrite split_ch_cons_sep, app_nil_r. rewrite <- (IH [] Ht eq_refl). reflexivity.
    + cbn [app]. apply IH; assumption.
Qed.

Lemma mdvd_pieces_no : forall x ns, x <> 124 -> texts_no x ns = true -> no_ch x (mdvd_raw0 ns) = true.
Proof.
  intros x ns H. unfold mdvd_raw0. induction ns as [|n ns IH]; intros Ht; [reflexivity|].
  destruct n as [s| |a b]; cbn [map concat mdvd_piece0 texts_no] in *.
  - apply andb_true_iff in Ht. destruct Ht as [Hs Ht]. rewrite no_ch_app, Hs, (IH Ht). reflexivity.
  - rewrite no_ch_app, (IH Ht). change (no_ch x (lit "|")) with (negb (124 =? x) && true).
    destruct (Z.eqb_spec 124 x); [congruence|]. reflexivity.
  - exact (IH Ht).
Qed.

(* the two while loops *)
Lemma no_double_nl : forall y, no_ch 10 y = true -> is_infix [10; 10] (y ++ [10]) = false.
Proof.
  induction y as [|c y IH]; intros H; [reflexivity|].
  cbn [no_ch forallb] in H. apply andb_true_iff in H. destruct H as [Hc Hy].
  cbn [app is_infix is_prefix]. destruct (Z.eqb_spec 10 c) as [<-|_]; [discriminate|]. cbn [andb orb]. apply IH. exact Hy.
Qed.

Lemma while_replace_noop : forall f p r s, is_infix p s = false -> while_replace f p r s = s.
Proof. intros [|f] p r s H; [reflexivity|]. cbn [while_replace]. rewrite H. reflexivity. Qed.

Definition pipe_nl : str := [124; 10].

Lemma pipe_nl_infix : forall y w, no_ch 10 (y ++ [w]) = true ->
  is_infix pipe_nl (y ++ [w; 10]) = (w =? 124).
Proof.
  induction y as [|c y IH]; intros w H.
  - cbn [app] in *. cbn [no_ch forallb] in H. rewrite andb_true_r in H.
    unfold pipe_nl. cbn [is_infix is_prefix]. rewrite Z.eqb_refl. rewrite (Z.eqb_sym 124 w).
    destruct (w =? 124); cbn [andb orb]; [reflexivity|]. destruct (124 =? 10) eqn:E; [discriminate|reflexivity].
  - cbn [app no_ch forallb] in H. apply andb_true_iff in H. destruct H as [Hc Hy].
    cbn [app is_infix]. rewrite (IH w Hy). unfold pipe_nl. cbn [is_prefix].
    destruct (y ++ [w; 10]) as [|d rest] eqn:E.
    { destruct y; discriminate. }
    assert (Hd : (10 =? d) = false).
    { destruct y as [|y0 y']; cbn [app] in E; injection E as <- _.
      - cbn [app no_ch forallb] in Hy. rewrite andb_true_r in Hy. rewrite Z.eqb_sym. destruct (w =? 10); [discriminate|reflexivity].
      - cbn [app no_ch forallb] in Hy. apply andb_true_iff in Hy. destruct Hy as [Hy0 _].
        rewrite Z.eqb_sym. destruct (y0 =? 10); [discriminate|reflexivity]. }
    rewrite Hd. rewrite andb_false_r. reflexivity.
Qed.

Lemma replace_pipe_nl : forall y, no_ch 10 y = true ->
  replace pipe_nl [10] (y ++ pipe_nl) = y ++ [10].
Proof.
  induction y as [|c y IH]; intros H; [reflexivity|].
  cbn [no_ch forallb] in H. apply andb_true_iff in H. destruct H as [Hc Hy].
  cbn [app]. rewrite replace_cons by discriminate.
  assert (Hp : is_prefix pipe_nl (c :: y ++ pipe_nl) = false).
  { unfold pipe_nl. cbn [is_prefix]. destruct y as [|d y']; cbn [app].
    - destruct (124 =? c); reflexivity.
    - cbn [no_ch forallb] in Hy. apply andb_true_iff in Hy. destruct Hy as [Hd _].
      rewrite (Z.eqb_sym 10 d). destruct (d =? 10); [discriminate|]. rewrite andb_false_r. reflexivity. }
  rewrite Hp. rewrite (IH Hy). reflexivity.
Qed.

Lemma while_pipe_nl : forall f y, (length y < f)%nat -> no_ch 10 y = true ->
  while_replace f pipe_nl [10] (y ++ [10]) = rstrip_by is_pipe y ++ [10].
Proof.
  induction f as [|f IH]; intros y Hl Hy; [lia|].
  cbn [while_replace]. destruct y as [|w y] using rev_ind.
  - reflexivity.
  - clear IHy. rewrite <- app_assoc. cbn [app]. rewrite pipe_nl_infix by exact Hy.
    rewrite rstrip_by_snoc. unfold is_pipe at 1. destruct (Z.eqb_spec w 124) as [->|Hw].
    + change [124; 10] with pipe_nl. rewrite no_ch_app in Hy. apply andb_true_iff in Hy. destruct Hy as [Hy _].
      rewrite replace_pipe_nl by exact Hy. apply IH; [|exact Hy]. rewrite app_length in Hl. cbn in Hl. lia.
    + rewrite <- app_assoc. reflexivity.
Qed.

Theorem mdvd_content_shape : forall ns, texts_no 10 ns = true -> texts_no 13 ns = true ->
  mdvd_content ns = rstrip_by is_pipe (strip (mdvd_raw ns)) ++ [10].
Proof.
  intros ns H H13. unfold mdvd_content. fold (mdvd_raw ns).
  assert (Hy : no_ch 10 (strip (mdvd_raw ns)) = true).
  { rewrite (mdvd_raw_plain ns H H13). apply forallb_strip. apply mdvd_pieces_no; [discriminate|exact H]. }
  rewrite (while_replace_noop _ [10; 10] [10]) by (apply no_double_nl; exact Hy).
  change (lit "|" ++ [10]) with pipe_nl. apply while_pipe_nl; [|exact Hy].
  rewrite app_length. cbn. lia.
Qed.

Lemma norm_lines_split_rstrip_pipes : forall s,
  norm_lines (split_ch 124 (rstrip_by is_pipe s)) = norm_lines (split_ch 124 s).
Proof.
  induction s as [|w s IH] using rev_ind; [reflexivity|].
  rewrite rstrip_by_snoc. unfold is_pipe at 1. destruct (Z.eqb_spec w 124) as [->|Hw]; [|reflexivity].
  rewrite IH, split_ch_snoc_sep, norm_lines_app. cbn. rewrite app_nil_r. reflexivity.
Qed.

Definition mdvd_text (ns : list node) : str := rstrip_by is_pipe (strip (mdvd_raw ns)).

(* the text written for a caption, split at '|', carries the authored lines *)
Theorem mdvd_text_lines : forall ns, texts_no 124 ns = true -> texts_no 10 ns = true -> texts_no 13 ns = true ->
  norm_lines (split_ch 124 (mdvd_text ns)) = norm_lines (node_lines ns).
Proof.
  intros ns H H10 H13. unfold mdvd_text. rewrite (mdvd_raw_plain ns H10 H13). rewrite norm_lines_split_rstrip_pipes, norm_lines_split_strip.
  unfold node_lines. rewrite <- (split_mdvd_pieces ns [] H eq_refl). reflexivity.
Qed.

(* line grammar *)
Lemma take_drop_digits : forall d rest, forallb is_digit d = true ->
  (match rest with c :: _ => is_digit c = false | [] => True end) ->
  take_while is_digit (d ++ rest) = d /\ drop_while is_digit (d ++ rest) = rest.
Proof.
  induction d as [|c d IH]; intros rest Hd Hr.
  - cbn [app]. destruct rest as [|c r]; [split; reflexivity|]. cbn [take_while drop_while]. rewrite Hr. split; reflexivity.
  - cbn [forallb] in Hd. apply andb_true_iff in Hd. destruct Hd as [Hc Hd].
    cbn [app take_while drop_while]. rewrite Hc. destruct (IH rest Hd Hr) as [-> ->]. split; reflexivity.
Qed.

Lemma brace_num_ok : forall d rest, forallb is_digit d = true -> d <> [] ->
  brace_num ([123] ++ d ++ [125] ++ rest) = Some (d, rest).
Proof.
  intros d rest Hd Hn. cbn [app brace_num].
  destruct (take_drop_digits d (125 :: rest) Hd eq_refl) as [-> ->].
  destruct d; [congruence|reflexivity].
Qed.

Definition mdvd_prefix_of (a b : str) : str := [123] ++ a ++ [125] ++ [123] ++ b ++ [125].

Theorem mdvd_line_roundtrip : forall a b ns,
  forallb is_digit a = true -> a <> [] -> forallb is_digit b = true -> b <> [] ->
  mdvd_line (mdvd_prefix_of a b ++ mdvd_text ns) = Some (a, b, split_ch 124 (mdvd_text ns)).
Proof.
  intros a b ns Ha Hna Hb Hnb. unfold mdvd_line, mdvd_prefix_of.
  rewrite <- !app_assoc. rewrite (brace_num_ok a _ Ha Hna). rewrite (brace_num_ok b _ Hb Hnb). reflexivity.
Qed.

(* the document *)
Definition mdvd_cap_ok (c : str * list node) : Prop :=
  (exists a b, fst c = mdvd_prefix_of a b /\ forallb is_digit a = true /\ a <> [] /\
               forallb is_digit b = true /\ b <> []) /\
  texts_no 10 (snd c) = true /\ texts_no 13 (snd c) = true.

Lemma mdvd_doc_lines : forall caps, Forall mdvd_cap_ok caps ->
  mdvd_doc caps = nl_terminated (map (fun c => fst c ++ mdvd_text (snd c)) caps).
Proof.
  induction caps as [|c caps IH]; intros H; [reflexivity|].
  inversion H as [|x l Hc Hrest]; subst. destruct Hc as (_ & H10 & H13).
  unfold mdvd_doc in *. cbn [map concat]. rewrite (IH Hrest).
  change (nl_terminated (?x :: ?l)) with ((x ++ [10]) ++ nl_terminated l).
  unfold nl_terminated. cbn [map concat]. rewrite mdvd_content_shape by assumption.
  unfold mdvd_text. rewrite <- !app_assoc. reflexivity.
Qed.

Lemma no_eol_app : forall a b, no_eol (a ++ b) = no_eol a && no_eol b.
Proof. intros. unfold no_eol. apply forallb_app. Qed.

Lemma forallb_rstrip : forall (P f : Z -> bool) s, forallb P s = true -> forallb P (rstrip_by f s) = true.
Proof. intros P f s H. unfold rstrip_by. rewrite forallb_rev. apply forallb_lstrip. rewrite forallb_rev. exact H. Qed.

Lemma digits_no_eol : forall d, forallb is_digit d = true -> no_eol d = true.
Proof.
  intros d H. unfold no_eol. apply forallb_forall. intros c Hc. rewrite forallb_forall in H.
  specialize (H c Hc). unfold is_digit in H. lia.
Qed.

Lemma mdvd_line_no_eol : forall c, mdvd_cap_ok c -> no_eol (fst c ++ mdvd_text (snd c)) = true.
Proof.
  intros [p ns] ((a & b & Hp & Ha & _ & Hb & _) & H10 & H13). cbn [fst snd] in *. subst p.
  unfold mdvd_prefix_of. rewrite !no_eol_app, (digits_no_eol a Ha), (digits_no_eol b Hb).
  change (no_eol [123]) with true. change (no_eol [125]) with true. cbn [andb].
  assert (G : forall x, x <> 124 -> texts_no x ns = true -> no_ch x (mdvd_text ns) = true).
  { intros x Hx Ht. unfold mdvd_text. rewrite (mdvd_raw_plain ns H10 H13). unfold no_ch. apply forallb_rstrip. apply forallb_strip. apply mdvd_pieces_no; assumption. }
  pose proof (G 10 ltac:(discriminate) H10) as G10. pose proof (G 13 ltac:(discriminate) H13) as G13.
  unfold no_eol. apply forallb_forall. intros c Hc. unfold no_ch in G10, G13. rewrite forallb_forall in G10, G13.
  rewrite (G10 c Hc), (G13 c Hc). reflexivity.
Qed.

Theorem mdvd_doc_roundtrip : forall caps, Forall mdvd_cap_ok caps ->
  mdvd_cues (mdvd_doc caps) = Some (map (fun c => split_ch 124 (mdvd_text (snd c))) caps).
Proof.
  intros caps H. unfold mdvd_cues. rewrite mdvd_doc_lines by exact H.
  rewrite lf_lines_terminated.
  2:{ apply forallb_forall. intros l Hl. apply in_map_iff in Hl. destruct Hl as [c [<- Hc]].
      rewrite Forall_forall in H. apply mdvd_line_no_eol. apply H. exact Hc. }
  rewrite filter_app. cbn [filter is_empty negb]. rewrite app_nil_r.
  induction caps as [|c caps IH]; [reflexivity|].
  inversion H as [|x l Hc Hrest]; subst.
  destruct Hc as ((a & b & Hp & Ha & Hna & Hb & Hnb) & H10 & H13).
  cbn [map filter].
  assert (Hne : is_empty (fst c ++ mdvd_text (snd c)) = false).
  { rewrite Hp. reflexivity. }
  unfold str in *. rewrite Hne. cbn [negb opt_map]. rewrite Hp at 1. rewrite mdvd_line_roundtrip by assumption.
  rewrite (IH Hrest). reflexivity.
Qed.

(* a document used by the non-vacuity examples of props/C03.v *)
Definition ex_caps : list (str * list node) :=
  [(lit "00:00:01,000 --> 00:00:02,000", [NText (lit "1"); NBreak; NBreak; NText (lit "00:00:05,000 --> x")]);
   (lit "00:00:03,000 --> 00:00:04,000", [NBreak; NText (lit "b"); NBreak; NText []; NBreak])].


(* ---- MicroDVD: the model meets the oracle ------------------------------------------------------------------------ *)
Lemma trim_lines_split_rstrip_pipes : forall s,
  trim_lines (split_ch 124 (rstrip_by is_pipe s)) = trim_lines (split_ch 124 s).
Proof.
  induction s as [|w s IH] using rev_ind; [reflexivity|].
  rewrite rstrip_by_snoc. unfold is_pipe at 1. destruct (Z.eqb_spec w 124) as [->|Hw]; [|reflexivity].
  rewrite IH, split_ch_snoc_sep. unfold trim_lines. rewrite map_app, filter_app. cbn. rewrite app_nil_r. reflexivity.
Qed.

Theorem mdvd_text_trim : forall ns, texts_no 124 ns = true -> texts_no 10 ns = true -> texts_no 13 ns = true ->
  trim_lines (split_ch 124 (mdvd_text ns)) = trim_lines (node_lines ns).
Proof.
  intros ns H H10 H13. unfold mdvd_text. rewrite (mdvd_raw_plain ns H10 H13). rewrite trim_lines_split_rstrip_pipes, trim_lines_split_strip.
  unfold node_lines. rewrite <- (split_mdvd_pieces ns [] H eq_refl). reflexivity.
Qed.

Theorem mdvd_doc_meets_oracle : forall caps, Forall mdvd_cap_ok caps ->
  (forall c, In c caps -> texts_no 124 (snd c) = true) ->
  exists cues, mdvd_cues (mdvd_doc caps) = Some cues /\
               ok_cues_strict (map (fun c => node_lines (snd c)) caps) cues = true.
Proof.
  intros caps H Hp. rewrite (mdvd_doc_roundtrip caps H). eexists. split; [reflexivity|].
  apply ok_cues_strict_map. intros c Hc. symmetry. rewrite Forall_forall in H. destruct (H c Hc) as (_ & H10 & H13).
  apply mdvd_text_trim; [apply Hp; exact Hc|exact H10|exact H13].
Qed.

Example mdvd_cap_ok_example : Forall mdvd_cap_ok [(lit "{25}{50}", [NBreak; NText (lit " a{1}{2}"); NBreak; NText (lit "b ")])].
Proof.
  repeat constructor. exists (lit "25"), (lit "50"). repeat split; try reflexivity; discriminate.
Qed.
