(* Proofs for C01: every stamp parser of the model returns floor(instant * 10^6) on every
   rendering of every abstract stamp; DFXP begin+dur; WebVTT timing line with shift;
   MicroDVD frames under any declared rate; SAMI back-filling. *)
From Coq Require Import List ZArith QArith Qround Lia Bool ZifyBool.
From PV Require Import lib.Sx lib.Str lib.Result lib.Dec.
From PV Require Import model.TimeRead spec.SpecTime proofs.TimeStrFacts.
Import ListNotations.
Open Scope Z_scope.
#[local] Ltac Zify.zify_post_hook ::= Z.to_euclidean_division_equations.

(* ---- Q helpers ----------------------------------------------------------------- *)
Lemma pos10_pow : forall n, Zpos (pos10 n) = 10 ^ Z.of_nat n.
Proof.
  induction n as [|n IH]; [reflexivity|].
  cbn [pos10]. rewrite Pos2Z.inj_mul, IH, Nat2Z.inj_succ, Z.pow_succ_r by lia. reflexivity.
Qed.

Lemma pos10_pow10 : forall n, Zpos (pos10 n) = pow10 n.
Proof. intros. unfold pow10. apply pos10_pow. Qed.

Lemma us_of_eq : forall q n d, (q * 1000000 == n # d)%Q -> us q = n / Zpos d.
Proof. intros q n d H. unfold us. rewrite (Qfloor_comp _ _ H). reflexivity. Qed.

(* whole seconds plus a fraction a/d of a second *)
Lemma us_split : forall n a d, us (inject_Z n + (a # d)) = n * 1000000 + a * 1000000 / Zpos d.
Proof.
  intros n a d.
  rewrite (us_of_eq _ ((n * Zpos d + a) * 1000000) d).
  - replace ((n * Zpos d + a) * 1000000) with (a * 1000000 + n * 1000000 * Zpos d) by ring.
    rewrite Z.div_add by lia. ring.
  - unfold Qeq, Qmult, Qplus, inject_Z. cbn [Qnum Qden].
    rewrite !Pos2Z.inj_mul. ring.
Qed.

Lemma secs_us : forall h m s, secs h m s * 1000000 = h * 3600000000 + m * 60000000 + s * 1000000.
Proof. intros. unfold secs. ring. Qed.

(* ---- small character facts ---------------------------------------------------- *)
Lemma is_digit_58 : is_digit 58 = false. Proof. reflexivity. Qed.
Lemma is_digit_44 : is_digit 44 = false. Proof. reflexivity. Qed.
Lemma is_digit_46 : is_digit 46 = false. Proof. reflexivity. Qed.

Lemma py_int_padded : forall k n, 0 <= n -> py_int (padded k n) = Ok n.
Proof. intros. unfold py_int. rewrite int_of_padded by assumption. reflexivity. Qed.
Lemma py_int_two : forall n, 0 <= n < 100 -> py_int (two n) = Ok n.
Proof. intros. unfold py_int. rewrite int_of_two by assumption. reflexivity. Qed.
Lemma py_int_three : forall n, 0 <= n < 1000 -> py_int (three n) = Ok n.
Proof. intros. unfold py_int. rewrite int_of_three by assumption. reflexivity. Qed.

(* ============================== SRT ========================================== *)
Lemma srt_stamp_exact : forall t, srt_stamp_dom t = true ->
  srt_to_micro (srt_render_stamp t) = Ok (us (srt_instant t)).
Proof.
  intros [k h m s f] Hd. unfold srt_stamp_dom in Hd. cbn [sr_h sr_m sr_s sr_ms] in Hd.
  unfold srt_render_stamp, srt_instant. cbn [sr_pad sr_h sr_m sr_s sr_ms].
  assert (Hh : 0 <= h) by lia. assert (Hm : 0 <= m < 100) by lia. assert (Hs : 0 <= s < 100) by lia.
  pose proof (padded_digits k h Hh) as Dh.
  pose proof (two_digits m Hm) as Dm. pose proof (two_digits s Hs) as Ds.
  rewrite us_split, secs_us.
  unfold srt_to_micro.
  rewrite split_ch_cons by (apply digits_lack; [reflexivity|exact Dh]).
  destruct f as [f|].
  - assert (Hf : 0 <= f < 1000) by lia.
    pose proof (three_digits f Hf) as Df.
    rewrite split_ch_cons by (apply digits_lack; [reflexivity|exact Dm]).
    rewrite split_ch_last
      by (rewrite lacks_app; rewrite (digits_lack 58 _ is_digit_58 Ds);
          change (lacks 58 (44 :: three f)) with (lacks 58 (three f));
          apply (digits_lack 58 _ is_digit_58 Df)).
    cbn [nth_str nth_error bind].
    unfold has_ch. rewrite has_ch_app_hit.
    rewrite split_ch_cons by (apply digits_lack; [reflexivity|exact Ds]).
    rewrite split_ch_last by (apply digits_lack; [reflexivity|exact Df]).
    cbn [nth_str nth_error bind].
    rewrite py_int_padded, py_int_two, py_int_two, py_int_three by assumption.
    cbn [bind]. f_equal. lia.
  - rewrite app_nil_r.
    rewrite split_ch_cons by (apply digits_lack; [reflexivity|exact Dm]).
    rewrite split_ch_last by (apply digits_lack; [reflexivity|exact Ds]).
    cbn [nth_str nth_error bind].
    unfold has_ch. rewrite has_ch_lacks by (apply digits_lack; [reflexivity|exact Ds]).
    change (lit ",000") with (44 :: three 0).
    rewrite split_ch_cons by (apply digits_lack; [reflexivity|exact Ds]).
    rewrite split_ch_last by reflexivity.
    cbn [nth_str nth_error bind].
    rewrite py_int_padded, py_int_two, py_int_two by assumption.
    rewrite py_int_three by lia. cbn [bind]. f_equal.
Qed.

(* ============================== WebVTT ======================================= *)
Lemma is_digit_d : forall d, 0 <= d <= 9 -> is_digit (48 + d) = true.
Proof. intros. unfold is_digit. lia. Qed.

(* the timestamp regex is a prefix match: anything may follow the stamp *)
Lemma vtt_stamp_exact : forall t r, vtt_stamp_dom t = true ->
  vtt_timestamp (vtt_render_stamp t ++ r) = Ok (us (vtt_instant t)).
Proof.
  intros [oh m s ms] r Hd. unfold vtt_stamp_dom in Hd. cbn [vt_h vt_m vt_s vt_ms] in Hd.
  unfold vtt_render_stamp, vtt_instant. cbn [vt_h vt_m vt_s vt_ms].
  rewrite us_split, secs_us.
  assert (Hm : 0 <= m < 60) by (destruct oh as [[? ?]|]; lia).
  assert (Hs : 0 <= s < 60) by (destruct oh as [[? ?]|]; lia).
  assert (Hms : 0 <= ms < 1000) by (destruct oh as [[? ?]|]; lia).
  unfold vtt_timestamp.
  destruct oh as [[k h]|].
  - assert (Hh : 0 <= h) by lia.
    rewrite <- !app_assoc. cbn [app].
    rewrite take_while_app_stop, drop_while_app_stop
      by (first [apply padded_digits; lia | reflexivity]).
    destruct (padded k h) as [|p0 pr] eqn:E; [exfalso; exact (padded_nonempty k h E)|]. rewrite <- E.
    unfold two, three. cbn [app].
    rewrite !is_digit_d by lia. cbn [andb].
    change [48 + m / 10; 48 + m mod 10] with (two m).
    change [48 + s / 10; 48 + s mod 10] with (two s).
    change [48 + ms / 100; 48 + ms / 10 mod 10; 48 + ms mod 10] with (three ms).
    rewrite py_int_padded, py_int_two, py_int_two, py_int_three by lia.
    cbn [bind]. f_equal. unfold vtt_micro. lia.
  - cbn [app].
    change (two m ++ 58 :: two s ++ 46 :: three ms) with (two m ++ 58 :: (two s ++ 46 :: three ms)).
    rewrite <- app_assoc. cbn [app].
    rewrite take_while_app_stop, drop_while_app_stop
      by (first [apply two_digits; lia | reflexivity]).
    unfold two at 1. unfold two at 1. unfold two at 1. unfold three. cbn [app].
    rewrite !is_digit_d by lia. cbn [andb].
    change [48 + s / 10; 48 + s mod 10] with (two s).
    change [48 + ms / 100; 48 + ms / 10 mod 10; 48 + ms mod 10] with (three ms).
    change [48 + m / 10; 48 + m mod 10] with (two m). rewrite py_int_two, py_int_two, py_int_three by lia.
    cbn [bind]. f_equal. unfold vtt_micro. lia.
Qed.

Lemma us_shift : forall q sh, us (q + (sh # 1000)) = us q + sh * 1000.
Proof.
  intros [n d] sh.
  rewrite (us_of_eq (n # d) (n * 1000000) d) by (unfold Qeq, Qmult; cbn [Qnum Qden]; rewrite !Pos2Z.inj_mul; ring).
  rewrite (us_of_eq _ (n * 1000000 + sh * 1000 * Zpos d) d).
  - rewrite Z.div_add by lia. reflexivity.
  - unfold Qeq, Qmult, Qplus. cbn [Qnum Qden]. rewrite !Pos2Z.inj_mul. ring.
Qed.

Definition stamp_char (c : Z) : bool := (46 <=? c) && (c <=? 58).

Lemma stamp_char_not_space : forall c, stamp_char c = true -> not_space c = true.
Proof. intros c H. unfold stamp_char in H. unfold not_space, is_space. lia. Qed.

Lemma digit_stamp_char : forall c, is_digit c = true -> stamp_char c = true.
Proof. intros c H. unfold is_digit in H. unfold stamp_char. lia. Qed.

Lemma vtt_render_chars : forall t, vtt_stamp_dom t = true ->
  forallb stamp_char (vtt_render_stamp t) = true.
Proof.
  intros [oh m s ms] Hd. unfold vtt_stamp_dom in Hd. cbn [vt_h vt_m vt_s vt_ms] in Hd.
  unfold vtt_render_stamp. cbn [vt_h vt_m vt_s vt_ms].
  assert (Hm : 0 <= m < 60) by (destruct oh as [[? ?]|]; lia).
  assert (Hs : 0 <= s < 60) by (destruct oh as [[? ?]|]; lia).
  assert (Hms : 0 <= ms < 1000) by (destruct oh as [[? ?]|]; lia).
  repeat first [rewrite forallb_app | progress cbn [forallb]].
  rewrite (forallb_impl _ _ _ digit_stamp_char (two_digits m ltac:(lia))).
  rewrite (forallb_impl _ _ _ digit_stamp_char (two_digits s ltac:(lia))).
  rewrite (forallb_impl _ _ _ digit_stamp_char (three_digits ms ltac:(lia))).
  destruct oh as [[k h]|]; [|reflexivity].
  repeat first [rewrite forallb_app | progress cbn [forallb]].
  rewrite (forallb_impl _ _ _ digit_stamp_char (padded_digits k h ltac:(lia))). reflexivity.
Qed.

Lemma vtt_render_nonempty : forall t, vtt_render_stamp t <> [].
Proof.
  intros [oh m s ms]. unfold vtt_render_stamp. cbn [vt_h vt_m vt_s vt_ms].
  intros H. apply app_eq_nil in H. destruct H as [_ H]. unfold two in H. discriminate.
Qed.

Lemma blank_run_parts : forall w, blank_run w = true ->
  forallb is_space w = true /\ exists c r, w = c :: r /\ is_space c = true.
Proof.
  intros w H. unfold blank_run in H. destruct w as [|c r]; [discriminate|].
  assert (A : forallb is_space (c :: r) = true).
  { apply (forallb_impl (fun x => (x =? 32) || (x =? 9))); [|exact H].
    intros x Hx. unfold is_space. lia. }
  split; [exact A|]. exists c, r. split; [reflexivity|].
  cbn [forallb] in A. apply andb_true_iff in A. tauto.
Qed.

(* the timing line: two stamps around the arrow with any blanks / tabs, optionally followed by cue settings *)
Lemma vtt_timing_exact : forall strict shift t0 t1 ws1 ws2 tail last,
  vtt_stamp_dom t0 = true -> vtt_stamp_dom t1 = true ->
  blank_run ws1 = true -> blank_run ws2 = true ->
  (tail = [] \/ exists s, tail = 32 :: s) ->
  (strict = true ->
   us (vtt_instant t0) + shift <= us (vtt_instant t1) + shift /\ last <= us (vtt_instant t0) + shift) ->
  vtt_parse_timing strict shift (vtt_render_stamp t0 ++ ws1 ++ lit "-->" ++ ws2 ++ vtt_render_stamp t1 ++ tail) last
  = Ok (us (vtt_instant t0) + shift, us (vtt_instant t1) + shift).
Proof.
  intros strict shift t0 t1 ws1 ws2 tail last H0 H1 W1 W2 Htail Hord.
  pose proof (forallb_impl _ _ _ stamp_char_not_space (vtt_render_chars t0 H0)) as N0.
  pose proof (forallb_impl _ _ _ stamp_char_not_space (vtt_render_chars t1 H1)) as N1.
  destruct (blank_run_parts ws1 W1) as [S1 [c1 [r1 [E1 C1]]]].
  destruct (blank_run_parts ws2 W2) as [S2 [c2 [r2 [E2 C2]]]].
  assert (G2 : take_while not_space (vtt_render_stamp t1 ++ tail) = vtt_render_stamp t1).
  { destruct Htail as [->|[s ->]].
    - rewrite app_nil_r. apply take_while_all. exact N1.
    - apply take_while_app_stop; [exact N1|reflexivity]. }
  pose proof (vtt_render_nonempty t0) as Hne0. pose proof (vtt_render_nonempty t1) as Hne1.
  unfold vtt_parse_timing, vtt_timing_line.
  (* group 1 *)
  assert (T1 : take_while not_space (vtt_render_stamp t0 ++ ws1 ++ lit "-->" ++ ws2 ++ vtt_render_stamp t1 ++ tail)
               = vtt_render_stamp t0).
  { rewrite E1. cbn [app]. apply take_while_app_stop; [exact N0|]. unfold not_space. rewrite C1. reflexivity. }
  assert (D1 : drop_while not_space (vtt_render_stamp t0 ++ ws1 ++ lit "-->" ++ ws2 ++ vtt_render_stamp t1 ++ tail)
               = ws1 ++ lit "-->" ++ ws2 ++ vtt_render_stamp t1 ++ tail).
  { rewrite E1. cbn [app]. apply drop_while_app_stop; [exact N0|]. unfold not_space. rewrite C1. reflexivity. }
  rewrite T1, D1.
  assert (D2 : drop_while is_space (ws1 ++ lit "-->" ++ ws2 ++ vtt_render_stamp t1 ++ tail)
               = lit "-->" ++ ws2 ++ vtt_render_stamp t1 ++ tail).
  { change (lit "-->" ++ ws2 ++ vtt_render_stamp t1 ++ tail) with (45 :: 45 :: 62 :: ws2 ++ vtt_render_stamp t1 ++ tail).
    apply drop_while_app_stop; [exact S1|reflexivity]. }
  rewrite D2.
  change (skipn 3 (lit "-->" ++ ws2 ++ vtt_render_stamp t1 ++ tail)) with (ws2 ++ vtt_render_stamp t1 ++ tail).
  assert (D3 : drop_while is_space (ws2 ++ vtt_render_stamp t1 ++ tail) = vtt_render_stamp t1 ++ tail).
  { destruct (vtt_render_stamp t1) as [|x xs] eqn:EX; [congruence|]. cbn [app].
    apply drop_while_app_stop; [exact S2|]. cbn [forallb] in N1. apply andb_true_iff in N1. destruct N1 as [Nx _].
    unfold not_space in Nx. destruct (is_space x); [discriminate|reflexivity]. }
  rewrite D3, G2.
  destruct (vtt_render_stamp t0) as [|a0 rest0] eqn:E0; [congruence|]. rewrite <- E0.
  destruct (vtt_render_stamp t1) as [|a1 rest1] eqn:E1'; [congruence|]. rewrite <- E1'.
  assert (SS1 : starts_space (ws1 ++ lit "-->" ++ ws2 ++ vtt_render_stamp t1 ++ tail) = true)
    by (rewrite E1; cbn [app starts_space]; exact C1).
  assert (SS2 : starts_space (ws2 ++ vtt_render_stamp t1 ++ tail) = true)
    by (rewrite E2; cbn [app starts_space]; exact C2).
  rewrite SS1, SS2.
  change (is_prefix (lit "-->") (lit "-->" ++ ws2 ++ vtt_render_stamp t1 ++ tail)) with true.
  cbn [andb].
  rewrite <- (app_nil_r (vtt_render_stamp t0)), vtt_stamp_exact by exact H0.
  rewrite <- (app_nil_r (vtt_render_stamp t1)), vtt_stamp_exact by exact H1.
  cbn [bind].
  destruct strict; cbn [andb]; [|reflexivity].
  destruct (Hord eq_refl) as [Ha Hb].
  assert (C : ((us (vtt_instant t1) + shift <? us (vtt_instant t0) + shift)
               || (us (vtt_instant t0) + shift <? last)) = false) by lia.
  rewrite C. reflexivity.
Qed.

(* ============================== DFXP ========================================= *)
Definition metric_unit (mt : metric) : Z :=
  match mt with Mh => 3600000000 | Mm => 60000000 | Ms => 1000000 | Mms => 1000 | Mf => 1000000 end.
Definition metric_div (mt : metric) : positive := match mt with Mf => 30%positive | _ => 1%positive end.

Lemma us_offset : forall ip F D mt,
  us ((inject_Z ip + (F # D)) * metric_q mt)
  = (ip * Zpos D + F) * metric_unit mt / (Zpos D * Zpos (metric_div mt)).
Proof.
  intros ip F D mt.
  rewrite (us_of_eq _ ((ip * Zpos D + F) * metric_unit mt) (D * metric_div mt)).
  - rewrite Pos2Z.inj_mul. reflexivity.
  - destruct mt; unfold Qeq, Qmult, Qplus, inject_Z, metric_q; cbn [Qnum Qden metric_unit metric_div];
      rewrite !Pos2Z.inj_mul; ring.
Qed.

Lemma metric_conv_str : forall mt,
  metric_conv (metric_str mt) = Some (Some (metric_unit mt, Zpos (metric_div mt))).
Proof. destruct mt; reflexivity. Qed.

Lemma metric_str_head : forall mt, exists c r,
  metric_str mt = c :: r /\ is_digit c = false /\ In c [104; 109; 115; 102].
Proof.
  destruct mt; eexists; eexists; (split; [reflexivity|split; [reflexivity|cbn [In]; tauto]]).
Qed.

Lemma dfxp_clock_none : forall a c r, forallb is_digit a = true ->
  In c [46; 104; 109; 115; 102] -> dfxp_clock (a ++ c :: r) = None.
Proof.
  intros a c r Ha Hc. unfold dfxp_clock. cbn [In] in Hc.
  destruct Hc as [<-|[<-|[<-|[<-|[<-|[]]]]]];
    rewrite take_while_app_stop, drop_while_app_stop by (first [exact Ha|reflexivity]);
    destruct a; reflexivity.
Qed.

Lemma digits_str_nonempty : forall d ds, digits_str (d :: ds) = (48 + d) :: digits_str ds.
Proof. reflexivity. Qed.

Lemma py_int_digits_str : forall ds, ds <> [] -> digits_ok ds = true ->
  py_int (digits_str ds) = Ok (digits_num ds).
Proof. intros. unfold py_int. rewrite int_of_digits_str by assumption. reflexivity. Qed.

Lemma dfxp_time_strict_exact : forall e, texpr_dom e = true ->
  dfxp_time_strict (texpr_render e) = Ok (us (texpr_instant e)).
Proof.
  intros [k h m s t | k ip fr mt] Hd; unfold texpr_dom in Hd; unfold dfxp_time_strict, texpr_render, texpr_instant.
  - (* clock *)
    assert (Hh : 0 <= h) by lia. assert (Hm : 0 <= m < 60) by lia. assert (Hs : 0 <= s < 60) by lia.
    assert (CL : forall tl, dfxp_clock (padded k h ++ 58 :: two m ++ 58 :: two s ++ tl) =
                 match (padded k h), (58 :: two m ++ 58 :: two s ++ tl) with
                 | _ :: _, 58 :: a :: b :: 58 :: c :: d :: tail =>
                     if is_digit a && is_digit b && is_digit c && is_digit d then
                       let base := do h <- py_int (padded k h); do m <- py_int [a; b]; do sec <- py_int [c; d];
                                   Ok (h * 3600000000 + m * 60000000 + sec * 1000000) in
                       match tail with
                       | [] => Some base
                       | 58 :: e :: f :: [] =>
                           if is_digit e && is_digit f
                           then Some (do t <- base; do ff <- py_int [e; f]; Ok (t + ff * 1000000 / 30))
                           else None
                       | 46 :: fr =>
                           match fr with
                           | [] => None
                           | _ => if all_digits fr
                                  then Some (do t <- base; do n <- py_int fr; Ok (t + n * 1000000 / pow10 (length fr)))
                                  else None
                           end
                       | _ => None
                       end
                     else None
                 | _, _ => None
                 end).
    { intros tl. unfold dfxp_clock.
      rewrite take_while_app_stop, drop_while_app_stop by (first [apply padded_digits; lia|reflexivity]).
      reflexivity. }
    rewrite CL. clear CL.
    destruct (padded k h) as [|p0 pr] eqn:E; [exfalso; exact (padded_nonempty k h E)|]. rewrite <- E.
    unfold two at 1 2. cbn [app].
    rewrite !is_digit_d by lia. cbn [andb].
    change [48 + m / 10; 48 + m mod 10] with (two m).
    change [48 + s / 10; 48 + s mod 10] with (two s).
    rewrite py_int_padded, py_int_two, py_int_two by lia. cbn [bind].
    destruct t as [|ds|ff]; cbn [tail_q]; unfold frac_q; rewrite us_split, secs_us.
    + cbn [bind]. f_equal. lia.
    + assert (Hds : digits_ok ds = true /\ ds <> []).
      { destruct ds; [cbn in Hd; rewrite andb_false_r in Hd; discriminate|]. split; [|discriminate]. apply andb_true_iff in Hd. destruct Hd as [_ Hd]. apply andb_true_iff in Hd. destruct Hd as [Hd _]. exact Hd. }
      destruct Hds as [Hok Hne].
      destruct ds as [|d0 ds']; [congruence|].
      unfold all_digits. rewrite digits_str_digits by exact Hok.
      rewrite py_int_digits_str by assumption. rewrite digits_str_length.
      cbn [bind]. rewrite pos10_pow10. reflexivity.
    + assert (Hff : 0 <= ff < 30) by lia.
      unfold two. rewrite !is_digit_d by lia. cbn [andb].
      change [48 + ff / 10; 48 + ff mod 10] with (two ff).
      rewrite py_int_two by lia. cbn [bind]. reflexivity.
  - (* offset *)
    apply andb_true_iff in Hd. destruct Hd as [Hip Hfr]. assert (Hip' : 0 <= ip) by lia.
    clear Hip. rename Hip' into Hip.
    destruct (metric_str_head mt) as [c [r [Hms [Hc Hin]]]].
    unfold frac_q. rewrite us_offset.
    destruct fr as [|d0 ds'].
    + cbn [app]. rewrite Hms.
      rewrite dfxp_clock_none by (first [apply padded_digits; exact Hip | cbn [In] in *; tauto]).
      unfold dfxp_offset.
      rewrite take_while_app_stop, drop_while_app_stop by (first [apply padded_digits; exact Hip|exact Hc]).
      assert (SF : split_frac (c :: r) = (None, c :: r)).
      { cbn [In] in Hin. destruct Hin as [<-|[<-|[<-|[<-|[]]]]]; reflexivity. }
      rewrite SF. rewrite <- Hms, metric_conv_str.
      destruct (padded k ip) as [|p0 pr] eqn:E; [exfalso; exact (padded_nonempty k ip E)|]. rewrite <- E.
      rewrite py_int_padded by exact Hip. cbn [bind fst snd].
      f_equal. cbn [length pos10 digits_num fold_left]. f_equal; lia.
    + cbn [app].
      rewrite dfxp_clock_none by (first [apply padded_digits; exact Hip | cbn [In]; tauto]).
      unfold dfxp_offset.
      rewrite take_while_app_stop, drop_while_app_stop by (first [apply padded_digits; exact Hip|reflexivity]).
      assert (SF : split_frac (46 :: digits_str (d0 :: ds') ++ metric_str mt)
                   = (Some (digits_str (d0 :: ds')), metric_str mt)).
      { unfold split_frac. rewrite Hms.
        rewrite take_while_app_stop, drop_while_app_stop by (first [apply digits_str_digits; exact Hfr|exact Hc]).
        rewrite digits_str_nonempty. reflexivity. }
      rewrite SF. rewrite metric_conv_str.
      destruct (padded k ip) as [|p0 pr] eqn:E; [exfalso; exact (padded_nonempty k ip E)|]. rewrite <- E.
      rewrite py_int_padded by exact Hip. cbn [bind].
      rewrite py_int_digits_str by (first [discriminate|exact Hfr]). cbn [bind fst snd].
      rewrite digits_str_length, pos10_pow10. reflexivity.
Qed.

Lemma dfxp_time_exact : forall e, texpr_dom e = true ->
  dfxp_time (texpr_render e) = Ok (us (texpr_instant e)).
Proof. intros e H. unfold dfxp_time. rewrite dfxp_time_strict_exact by exact H. reflexivity. Qed.

Lemma texpr_render_nonempty : forall e, texpr_render e <> [].
Proof.
  intros [k h m s t|k ip fr mt]; unfold texpr_render; intros H; apply app_eq_nil in H; destruct H as [H _];
    exact (padded_nonempty _ _ H).
Qed.

Lemma truthy_render : forall e, truthy (Some (texpr_render e)) = Some (texpr_render e).
Proof.
  intros e. pose proof (texpr_render_nonempty e) as H. unfold truthy.
  destruct (texpr_render e); [congruence|reflexivity].
Qed.

(* begin + end, begin + dur *)
Lemma dfxp_p_exact : forall p, dfxp_p_dom p = true ->
  (let '(b, e, d) := dfxp_p_attrs p in dfxp_p_times b e d) = Ok (dfxp_p_expected p).
Proof.
  intros [b isdur c] Hd. unfold dfxp_p_dom in Hd. cbn [p_begin p_close] in Hd.
  apply andb_true_iff in Hd. destruct Hd as [Hb Hc].
  unfold dfxp_p_attrs, dfxp_p_expected, dfxp_p_times. cbn [p_begin p_close p_is_dur].
  destruct isdur.
  - rewrite !truthy_render. cbn [truthy].
    rewrite (dfxp_time_exact b Hb), (dfxp_time_exact c Hc). reflexivity.
  - rewrite !truthy_render.
    rewrite (dfxp_time_exact b Hb), (dfxp_time_exact c Hc). reflexivity.
Qed.

Lemma dfxp_div_exact : forall ps, forallb dfxp_p_dom ps = true ->
  dfxp_div_times (map dfxp_p_attrs ps) = Ok (map dfxp_p_expected ps).
Proof.
  induction ps as [|p ps IH]; intros Hd; [reflexivity|].
  cbn [forallb] in Hd. apply andb_true_iff in Hd. destruct Hd as [Hp Hps].
  unfold dfxp_div_times in *. cbn [map res_map].
  pose proof (dfxp_p_exact p Hp) as E. destruct (dfxp_p_attrs p) as [[b e] d].
  rewrite E. cbn [bind]. rewrite (IH Hps). reflexivity.
Qed.

(* ============================== MicroDVD ===================================== *)
Lemma fps_parse_plain_exact : forall f, fps_dom (Some f) = true ->
  mdvd_fps_plain (fps_render f) =
  Ok (fp_ip f * Zpos (pos10 (length (fp_fr f))) + digits_num (fp_fr f), Zpos (pos10 (length (fp_fr f)))).
Proof.
  intros [k ip fr] Hd. unfold fps_dom in Hd. cbn [fp_ip fp_fr] in Hd.
  apply andb_true_iff in Hd. destruct Hd as [Hd Hpos].
  apply andb_true_iff in Hd. destruct Hd as [Hip Hfr].
  assert (Hip' : 0 <= ip) by lia.
  unfold fps_render, mdvd_fps_plain. cbn [fp_pad fp_ip fp_fr].
  assert (ST : forall s, forallb stamp_char s = true -> strip s = s).
  { intros s Hs. unfold strip, strip_by, rstrip_by.
    assert (L : forall x, forallb stamp_char x = true -> lstrip_by is_space x = x).
    { intros x Hx. destruct x as [|c x]; [reflexivity|]. cbn [lstrip_by].
      cbn [forallb] in Hx. apply andb_true_iff in Hx. destruct Hx as [Hc _].
      apply stamp_char_not_space in Hc. unfold not_space in Hc.
      destruct (is_space c); [discriminate|reflexivity]. }
    rewrite (L s Hs). rewrite L; [apply rev_involutive|].
    rewrite forallb_forall in *. intros x Hx. apply Hs. apply in_rev. exact Hx. }
  pose proof (padded_digits k ip Hip') as Dp.
  destruct fr as [|d0 ds'].
  - rewrite app_nil_r.
    rewrite ST by (apply (forallb_impl is_digit); [exact digit_stamp_char|exact Dp]).
    rewrite take_while_all, drop_while_all by exact Dp.
    destruct (padded k ip) as [|p0 pr] eqn:E; [exfalso; exact (padded_nonempty k ip E)|]. rewrite <- E.
    rewrite py_int_padded by exact Hip'. cbn [bind length pos10 digits_num fold_left].
    f_equal. f_equal. lia.
  - rewrite ST.
    2:{ rewrite forallb_app. rewrite (forallb_impl is_digit _ _ digit_stamp_char Dp).
        cbn [forallb andb]. change (stamp_char 46) with true. cbn [andb].
        apply (forallb_impl is_digit); [exact digit_stamp_char|]. apply digits_str_digits. exact Hfr. }
    rewrite take_while_app_stop, drop_while_app_stop by (first [exact Dp|reflexivity]).
    destruct (padded k ip) as [|p0 pr] eqn:E; [exfalso; exact (padded_nonempty k ip E)|]. rewrite <- E.
    rewrite digits_str_nonempty. rewrite <- digits_str_nonempty.
    unfold all_digits. rewrite digits_str_digits by exact Hfr.
    rewrite py_int_padded by exact Hip'. cbn [bind].
    rewrite py_int_digits_str by (first [discriminate|exact Hfr]). cbn [bind].
    rewrite digits_str_length, pos10_pow10. reflexivity.
Qed.

Lemma fps_parse_exact : forall f, fps_dom (Some f) = true ->
  mdvd_fps (fps_render f) =
  Ok (fp_ip f * Zpos (pos10 (length (fp_fr f))) + digits_num (fp_fr f), Zpos (pos10 (length (fp_fr f)))).
Proof. intros f H. unfold mdvd_fps. rewrite fps_parse_plain_exact by exact H. reflexivity. Qed.

(* n frames at rate num/den frames per second *)
Lemma us_frames : forall n num den, 0 < num ->
  us (inject_Z n / (num # den)) = n * 1000000 * Zpos den / num.
Proof.
  intros n num den Hnum. destruct num as [|p|p]; try lia.
  rewrite (us_of_eq _ (n * 1000000 * Zpos den) p); [reflexivity|].
  unfold Qeq, Qdiv, Qmult, Qinv, inject_Z. cbn [Qnum Qden]. rewrite !Pos2Z.inj_mul. ring.
Qed.

Lemma fps_q_frac : forall f,
  (fps_q (Some f) == (fp_ip f * Zpos (pos10 (length (fp_fr f))) + digits_num (fp_fr f)) # pos10 (length (fp_fr f)))%Q.
Proof.
  intros [k ip fr]. unfold fps_q, frac_q. cbn [fp_ip fp_fr].
  unfold Qeq, Qplus, inject_Z. cbn [Qnum Qden]. rewrite !Pos2Z.inj_mul. ring.
Qed.

Lemma mdvd_frames_exact : forall f n, fps_dom f = true ->
  exists fps, (match f with Some l => mdvd_fps (fps_render l) | None => Ok (25, 1) end) = Ok fps /\
              frames_to_micro n fps = Ok (us (frame_instant f n)).
Proof.
  intros [f|] n Hd.
  - eexists. split; [apply fps_parse_exact; exact Hd|].
    unfold fps_dom in Hd. apply andb_true_iff in Hd. destruct Hd as [_ Hpos].
    unfold frames_to_micro. cbn [fst snd].
    assert (Hnz : (fp_ip f * Zpos (pos10 (length (fp_fr f))) + digits_num (fp_fr f) =? 0) = false) by lia.
    rewrite Hnz. f_equal. unfold frame_instant, us.
    assert (E : (inject_Z n / fps_q (Some f) * 1000000 ==
                 inject_Z n / ((fp_ip f * Zpos (pos10 (length (fp_fr f))) + digits_num (fp_fr f)) # pos10 (length (fp_fr f))) * 1000000)%Q).
    { rewrite fps_q_frac. reflexivity. }
    rewrite (Qfloor_comp _ _ E). fold (us (inject_Z n / ((fp_ip f * Zpos (pos10 (length (fp_fr f))) + digits_num (fp_fr f)) # pos10 (length (fp_fr f))))).
    rewrite us_frames by lia. reflexivity.
  - eexists. split; [reflexivity|].
    unfold frames_to_micro, frame_instant, fps_q. cbn [fst snd]. change (25 =? 0) with false. cbv iota.
    rewrite us_frames by lia. f_equal.
Qed.

(* ============================== SAMI ========================================= *)
Definition sami_final (st : list (Z * Z) * Z) : list (Z * Z) :=
  let '(rc, ms) := st in
  rev (match rc with
       | (s, e) :: t => if e =? 0 then (s, (ms + 4000) * 1000) :: t else rc
       | [] => []
       end).

Definition nz_end (c : Z * Z) : Prop := snd c <> 0.

Lemma backfill_filled : forall start filled, Forall nz_end filled -> backfill start filled = filled.
Proof.
  intros start [|[s e] t] H; [reflexivity|].
  inversion H as [|x l Hx Hl]; subst. unfold nz_end in Hx. cbn [snd] in Hx.
  cbn [backfill]. assert (E : (e =? 0) = false) by lia. rewrite E. reflexivity.
Qed.

Lemma sami_final_filled : forall filled ms, Forall nz_end filled -> sami_final (filled, ms) = rev filled.
Proof.
  intros [|[s e] t] ms H; [reflexivity|].
  inversion H as [|x l Hx Hl]; subst. unfold nz_end in Hx. cbn [snd] in Hx.
  unfold sami_final. assert (E : (e =? 0) = false) by lia. rewrite E. reflexivity.
Qed.

Lemma sami_loop_spec : forall ps filled (pend : bool) ms0 lo,
  Forall nz_end filled ->
  sami_incr_from lo ps = true -> -1 <= lo ->
  (pend = true -> lo = ms0 /\ 0 <= ms0) ->
  sami_final (sami_loop ps (if pend then (ms0 * 1000, 0) :: filled else filled) ms0)
  = rev filled
    ++ (if pend then [(ms0 * 1000,
                       match ps with (ms', _) :: _ => ms' * 1000 | [] => (ms0 + 4000) * 1000 end)]
        else [])
    ++ sami_expected ps.
Proof.
  induction ps as [|[ms txt] rest IH]; intros filled pend ms0 lo Hf Hinc Hlo Hp.
  - cbn [sami_loop sami_expected]. rewrite app_nil_r. destruct pend.
    + unfold sami_final. change (0 =? 0) with true. cbv iota. reflexivity.
    + rewrite app_nil_r. apply sami_final_filled. exact Hf.
  - cbn [sami_incr_from] in Hinc. apply andb_true_iff in Hinc. destruct Hinc as [Hlt Hinc].
    assert (Hms : lo < ms) by lia.
    cbn [sami_loop sami_expected].
    destruct pend.
    + destruct (Hp eq_refl) as [-> Hms0].
      cbn [backfill]. change (negb (0 =? 0)) with false. cbv iota.
      assert (E : (ms0 * 1000 =? ms * 1000) = false) by lia. rewrite E. cbn [negb].
      rewrite backfill_filled by exact Hf.
      assert (Hf' : Forall nz_end ((ms0 * 1000, ms * 1000) :: filled)).
      { constructor; [unfold nz_end; cbn [snd]; lia|exact Hf]. }
      destruct txt.
      * rewrite (IH ((ms0 * 1000, ms * 1000) :: filled) true ms ms Hf' Hinc ltac:(lia) ltac:(intros; lia)).
        cbn [rev]. rewrite <- !app_assoc. reflexivity.
      * rewrite (IH ((ms0 * 1000, ms * 1000) :: filled) false ms ms Hf' Hinc ltac:(lia) ltac:(intros; discriminate)).
        cbn [rev]. rewrite <- !app_assoc. reflexivity.
    + rewrite backfill_filled by exact Hf.
      destruct txt.
      * rewrite (IH filled true ms ms Hf Hinc ltac:(lia) ltac:(intros; lia)). reflexivity.
      * rewrite (IH filled false ms ms Hf Hinc ltac:(lia) ltac:(intros; discriminate)). reflexivity.
Qed.

(* every cue ends at the next sync of its language; the last one lasts four seconds *)
Lemma sami_backfill : forall ps, sami_dom ps = true -> sami_translate ps = sami_expected ps.
Proof.
  intros ps Hd.
  change (sami_translate ps) with (sami_final (sami_loop ps [] 0)).
  exact (sami_loop_spec ps [] false 0 (-1) (Forall_nil _) Hd ltac:(lia) ltac:(intros; discriminate)).
Qed.

Lemma sami_start_exact : forall k n, 0 <= n -> sami_start (Some (padded k n)) = Ok n.
Proof.
  intros k n Hn. unfold sami_start, truthy.
  destruct (padded k n) as [|p0 pr] eqn:E; [exfalso; exact (padded_nonempty k n E)|]. rewrite <- E.
  rewrite py_int_padded by exact Hn. reflexivity.
Qed.

Lemma res_map_ok : forall A B (f : A -> result B) (g : A -> B) l,
  (forall x, In x l -> f x = Ok (g x)) -> res_map f l = Ok (map g l).
Proof.
  induction l as [|a l IH]; intros H; [reflexivity|].
  cbn [res_map map]. rewrite (H a (or_introl eq_refl)). cbn [bind].
  rewrite IH by (intros x Hx; apply H; right; exact Hx). reflexivity.
Qed.

Lemma sami_incr_nonneg : forall l lo, -1 <= lo -> sami_incr_from lo l = true ->
  forall p, In p l -> 0 <= fst p.
Proof.
  induction l as [|[ms t] l IH]; intros lo Hlo Hi p Hp; [destruct Hp|].
  cbn [sami_incr_from] in Hi. apply andb_true_iff in Hi. destruct Hi as [Hlt Hi].
  destruct Hp as [<-|Hp]; [cbn [fst]; lia|]. apply (IH ms); [lia|exact Hi|exact Hp].
Qed.

Lemma sami_translate_str_exact : forall ps : list sami_p,
  sami_dom (map (fun p => (sp_ms p, sp_text p)) ps) = true ->
  sami_translate_str (map (fun p => (Some (sami_render_start p), sp_text p)) ps)
  = Ok (sami_expected (map (fun p => (sp_ms p, sp_text p)) ps)).
Proof.
  intros ps Hd. unfold sami_translate_str.
  rewrite (res_map_ok _ _ _ (fun q : option str * bool =>
             (match int_of_digits (match fst q with Some s => s | None => [] end) with Some z => z | None => 0 end, snd q))).
  - cbn [bind]. f_equal. rewrite map_map. cbn [fst snd].
    assert (M : map (fun x : sami_p =>
                       (match int_of_digits (sami_render_start x) with Some z => z | None => 0 end, sp_text x)) ps
                = map (fun p => (sp_ms p, sp_text p)) ps).
    { apply map_ext_in. intros p Hp. unfold sami_render_start.
      rewrite int_of_padded; [reflexivity|].
      apply (sami_incr_nonneg _ (-1) ltac:(lia) Hd (sp_ms p, sp_text p)).
      apply in_map_iff. exists p. split; [reflexivity|exact Hp]. }
    rewrite M. apply sami_backfill. exact Hd.
  - intros q Hq. apply in_map_iff in Hq. destruct Hq as [p [<- Hp]]. cbn [fst snd].
    unfold sami_render_start.
    assert (Hn : 0 <= sp_ms p).
    { apply (sami_incr_nonneg _ (-1) ltac:(lia) Hd (sp_ms p, sp_text p)).
      apply in_map_iff. exists p. split; [reflexivity|exact Hp]. }
    rewrite sami_start_exact by exact Hn. cbn [bind]. rewrite int_of_padded by exact Hn. reflexivity.
Qed.

Lemma vtt_shift_exact : forall sh t, us (vtt_shifted sh t) = us (vtt_instant t) + sh * 1000.
Proof. intros. unfold vtt_shifted. apply us_shift. Qed.

Lemma us_is_floor : forall q : Q,
  (inject_Z (us q) <= q * 1000000)%Q /\ (q * 1000000 < inject_Z (us q + 1))%Q.
Proof. intros q. unfold us. split; [apply Qfloor_le|apply Qlt_floor]. Qed.

(* ---- the repaired defect #7, on record: a fraction of more than three digits --------------- *)
Lemma dfxp_long_fraction_refuted :
  exists ds, digits_ok ds = true /\
             dfxp_fraction_unfixed (digits_str ds) <> Ok (us (frac_q ds)).
Proof. exists [1; 2; 3; 4]. split; [reflexivity|]. vm_compute. discriminate. Qed.

(* the model's reading of begin+dur (each expression floored on its own) is one of the two the oracle admits *)
Lemma pairs_alt_refl : forall a b, length a = length b -> (forall i x y, nth_error a i = Some x -> nth_error b i = Some y -> fst x = fst y) ->
  pairs_alt_eqb a b a = true.
Proof.
  induction a as [|x a IH]; intros [|y b] Hl Hs; try discriminate Hl; [reflexivity|].
  cbn [pairs_alt_eqb]. rewrite !Z.eqb_refl. cbn [andb orb]. apply IH; [cbn [length] in Hl; lia|].
  intros i u v Hu Hv. apply (Hs (S i)); assumption.
Qed.

Lemma dfxp_div_meets_oracle : forall ps, forallb dfxp_p_dom ps = true ->
  ok_times_alt (map dfxp_p_expected ps) (map dfxp_p_expected_alt ps) (dfxp_div_times (map dfxp_p_attrs ps)) = true.
Proof.
  intros ps H. rewrite dfxp_div_exact by exact H. unfold ok_times_alt.
  apply pairs_alt_refl; [rewrite !map_length; reflexivity|].
  intros i x y Hx Hy. rewrite nth_error_map in Hx, Hy.
  destruct (nth_error ps i) as [p|]; [|discriminate]. cbn [option_map] in Hx, Hy.
  inversion Hx; inversion Hy. reflexivity.
Qed.
