(* C06: the queue + stash logic of the pop-on reader (model/SccPopon.v), run on any sequence of display events with
   positive instants, yields exactly the spans of the statement (spec/SpecSccTime.v, expected_with). *)
From Coq Require Import List ZArith QArith Lia Bool ZifyBool Lqa.
From PV Require Import lib.Sx lib.Str lib.Result model.SccLen model.SccStash model.SccPopon
  spec.SpecSccLen spec.SpecSccTime proofs.SccLenFacts proofs.SccStashFacts.
Import ListNotations.
Local Open Scope Q_scope.
Local Arguments stash_extend : simpl never.

Definition to_pev (e : ev) : pev := match e with Show t => PShow t | Clear t => PHide t end.
Definition ev_time (e : ev) : Q := match e with Show t => t | Clear t => t end.
Definition positive (evs : list ev) : Prop := forall e, In e evs -> (0 < ev_time e)%Q.

(* ---- (A) the sequence of captions stored ------------------------------------------------------ *)
Definition deflt (p : Q * option Q) : Q * Q := (fst p, match snd p with Some e => e | None => 0 end).
Definition stores (q : option Q) (evs : list ev) : list (Q * Q) := map deflt (raw_spans evs q).
Definition cue' (p : Q * Q) : precap := cue (fst p) (snd p).
Definition ext1 (st : stash) (p : Q * Q) : stash := stash_extend st [cue' p].

Definition pfinish (st : stash * option Q) : stash :=
  let '(s, q) := st in match q with Some s0 => stash_extend s [cue s0 0] | None => s end.

Lemma prun_gen : forall evs st q,
  pfinish (fold_left pstep (map to_pev evs) (st, q)) = fold_left ext1 (stores q evs) st.
Proof.
  induction evs as [|e evs IH]; intros st q.
  - destruct q; reflexivity.
  - unfold stores in *. destruct e as [t|t]; destruct q as [s0|]; cbn [map fold_left to_pev pstep raw_spans app];
      rewrite IH; reflexivity.
Qed.

Lemma prun_stores : forall evs, prun (map to_pev evs) = fold_left ext1 (stores None evs) stash0.
Proof. intros evs. rewrite <- prun_gen. reflexivity. Qed.

(* ---- (B) a fold of single-caption extends only ever modifies the last element ------------------- *)
(* the lookahead form of what the stash does: the end of an element is decided when the next one is stored *)
Fixpoint closeM (l : list (Q * Q)) : list (Q * Q) :=
  match l with
  | [] => []
  | (s, e) :: r =>
      (s, match r with
          | (s', _) :: _ => if Qeq_bool e 0 || negb (Qle_bool join_threshold (s' - e)) then s' else e
          | [] => e
          end) :: closeM r
  end.

Lemma ext1_first : forall p, ext1 stash0 p = mkStash ([] ++ [cue' p]) 1.
Proof. intros p. reflexivity. Qed.

Lemma ext1_snoc : forall acc p p',
  ext1 (mkStash (acc ++ [cue' p]) 1) p' =
  mkStash ((acc ++ [cue' (fst p, if Qeq_bool (snd p) 0 || negb (Qle_bool join_threshold (fst p' - snd p))
                                  then fst p' else snd p)]) ++ [cue' p']) 1.
Proof.
  intros acc p p'. unfold ext1, stash_extend. change (filter has_nodes [cue' p']) with [cue' p'].
  cbn [length]. f_equal. f_equal.
  unfold update_last_batch. cbn [st_caps st_batch]. rewrite skipn_snoc. cbn [map last].
  change (pc_end (cue' p)) with (snd p). change (pc_start (cue' p')) with (fst p').
  destruct (_ || _).
  - rewrite map_tail_1_snoc. reflexivity.
  - destruct p; reflexivity.
Qed.

Lemma fold_ext1 : forall r acc p,
  fold_left ext1 r (mkStash (acc ++ [cue' p]) 1) = mkStash (acc ++ map cue' (closeM (p :: r))) 1.
Proof.
  induction r as [|p' r IH]; intros acc p.
  - destruct p. reflexivity.
  - cbn [fold_left]. rewrite ext1_snoc, IH. rewrite <- app_assoc. destruct p as [s e], p' as [s' e']. reflexivity.
Qed.

Lemma fold_ext1_stash0 : forall l,
  fold_left ext1 l stash0 = match l with [] => stash0 | _ => mkStash (map cue' (closeM l)) 1 end.
Proof.
  intros [|p r]; [reflexivity|]. cbn [fold_left]. rewrite ext1_first, fold_ext1. reflexivity.
Qed.

(* ---- raw spans of positive events -------------------------------------------------------------- *)
(* every start is positive; every explicit end is positive; only the last span may lack an end *)
Fixpoint good (r : list (Q * option Q)) : Prop :=
  match r with
  | [] => True
  | (s, oe) :: t => 0 < s /\ match oe with Some e => 0 < e | None => t = [] end /\ good t
  end.

Lemma raw_spans_good : forall evs q, positive evs -> (forall s, q = Some s -> 0 < s) -> good (raw_spans evs q).
Proof.
  induction evs as [|e evs IH]; intros q Hp Hq.
  - destruct q as [s|]; cbn; [|exact I]. repeat split. apply Hq. reflexivity.
  - assert (Hp' : positive evs) by (intros x Hx; apply Hp; right; exact Hx).
    assert (Ht : 0 < ev_time e) by (apply Hp; left; reflexivity).
    destruct e as [t|t]; cbn [ev_time] in Ht; cbn [raw_spans].
    + assert (G : good (raw_spans evs (Some t))) by (apply IH; [exact Hp'|intros s Hs; inversion Hs; subst; exact Ht]).
      destruct q as [s|]; [|exact G]. cbn [app good]. repeat split; [apply Hq; reflexivity|exact Ht|exact G].
    + assert (G : good (raw_spans evs None)) by (apply IH; [exact Hp'|intros s Hs; discriminate]).
      destruct q as [s|]; [|exact G]. cbn [app good]. repeat split; [apply Hq; reflexivity|exact Ht|exact G].
Qed.

Lemma Qeq_bool_pos_false : forall e : Q, 0 < e -> Qeq_bool e 0 = false.
Proof.
  intros e H. destruct (Qeq_bool e 0) eqn:E; [|reflexivity].
  apply Qeq_bool_iff in E. rewrite E in H. exfalso. exact (Qlt_irrefl _ H).
Qed.

Definition pos_end (p : Q * Q) : Prop := 0 < snd p.

(* what the stash holds before fix_last, against the spans of the statement: equal, except that a last span without
   an explicit end is held with the sentinel end 0 *)
Lemma close_shape : forall r, good r ->
  (Forall pos_end (close_gaps join_threshold r) /\ closeM (map deflt r) = close_gaps join_threshold r) \/
  (exists l s, Forall pos_end l /\ 0 < s /\ closeM (map deflt r) = l ++ [(s, 0)] /\
               close_gaps join_threshold r = l ++ [(s, s + four_s)]).
Proof.
  induction r as [|[s oe] t IH]; intros G.
  - left. split; [constructor|reflexivity].
  - cbn [good] in G. destruct G as [Hs [He Gt]]. destruct t as [|[s' oe'] t'].
    + destruct oe as [e|].
      * left. split; [|reflexivity]. constructor; [exact He|constructor].
      * right. exists [], s. repeat split; [constructor|exact Hs].
    + destruct oe as [e|]; [|discriminate].
      assert (Hs' : 0 < s') by (cbn [good] in Gt; apply Gt).
      set (h := (s, if Qle_bool join_threshold (s' - e) then e else s')).
      assert (Hh : pos_end h).
      { unfold pos_end, h. cbn [snd]. destruct (Qle_bool _ _); assumption. }
      assert (EM : closeM (map deflt ((s, Some e) :: (s', oe') :: t')) = h :: closeM (map deflt ((s', oe') :: t'))).
      { cbn [map deflt closeM fst snd]. rewrite (Qeq_bool_pos_false e He). cbn [orb]. unfold h.
        destruct (Qle_bool _ _); reflexivity. }
      assert (ES : close_gaps join_threshold ((s, Some e) :: (s', oe') :: t') =
                   h :: close_gaps join_threshold ((s', oe') :: t')) by reflexivity.
      rewrite EM, ES. destruct (IH Gt) as [[HF HE]|[l [s0 [HF [H0 [HE HG]]]]]].
      * left. split; [constructor; assumption|]. rewrite HE. reflexivity.
      * right. exists (h :: l), s0. repeat split; [constructor; assumption|exact H0| |].
        -- rewrite HE. reflexivity.
        -- rewrite HG. reflexivity.
Qed.

(* ---- (C) the tail of read() -------------------------------------------------------------------- *)
Lemma offending_cues : forall l, offending (map to_lcap (map cue' l)) = [].
Proof. induction l as [|p l IH]; [reflexivity|]. unfold offending in *. cbn [map concat]. rewrite IH. reflexivity. Qed.

Lemma length_check_cues : forall l, length_check (map to_lcap (map cue' l)) = None.
Proof. intros l. apply length_check_none_iff. apply offending_cues. Qed.

Lemma existsb_flash_cues : forall l, existsb is_flash (map cue' l) = existsb flash l.
Proof. induction l as [|p l IH]; [reflexivity|]. cbn [map existsb]. rewrite IH. reflexivity. Qed.

Lemma spans_cues : forall l, map (fun c => (pc_start c, pc_end c)) (map cue' l) = l.
Proof. induction l as [|[s e] l IH]; [reflexivity|]. cbn [map]. rewrite IH. reflexivity. Qed.

Lemma cues_ended : forall l, Forall pos_end l -> forall c, In c (map cue' l) -> Qeq_bool (pc_end c) 0 = false.
Proof.
  intros l H c Hc. apply in_map_iff in Hc. destruct Hc as [p [<- Hp]].
  rewrite Forall_forall in H. apply Qeq_bool_pos_false. apply (H p Hp).
Qed.

Lemma pending_not_flash : forall s : Q, 0 < s -> is_flash (cue s 0) = false.
Proof.
  intros s H. unfold is_flash. cbn [cue pc_start pc_end].
  assert (E : Qle_bool (0 - s) 0 = true) by (apply Qle_bool_iff; lra).
  rewrite E. reflexivity.
Qed.

Lemma four_s_not_flash : forall s : Q, flash (s, s + four_s) = false.
Proof.
  intros s. unfold flash, four_s. cbn [fst snd]. rewrite four_s_not_short. apply andb_false_r.
Qed.

(* Leibniz equality: both sides only copy the given instants; the 4 s end is `s + inject_Z 4000000` on the model side
   and `s + four_s` on the statement side, and four_s unfolds to inject_Z 4000000. *)
Theorem popon_read_expected : forall evs, positive evs ->
  popon_read (map to_pev evs) = expected_with join_threshold evs.
Proof.
  intros evs Hp. unfold popon_read, expected_with. rewrite prun_stores, fold_ext1_stash0. unfold stores.
  assert (G : good (raw_spans evs None)) by (apply raw_spans_good; [exact Hp|intros s Hs; discriminate]).
  destruct (raw_spans evs None) as [|p0 r0] eqn:Er; [reflexivity|].
  rewrite <- Er in *.
  assert (Hne : map deflt (raw_spans evs None) <> []) by (rewrite Er; discriminate).
  destruct (map deflt (raw_spans evs None)) as [|d0 dl] eqn:Ed; [congruence|]. rewrite <- Ed. clear Hne.
  assert (Hgne : close_gaps join_threshold (raw_spans evs None) <> []) by (rewrite Er; destruct p0; discriminate).
  unfold finish_read. cbn [st_caps]. rewrite length_check_cues.
  destruct (close_shape _ G) as [[HF HE]|[l [s [HF [Hs [HE HG]]]]]].
  - rewrite HE. rewrite existsb_flash_cues.
    destruct (close_gaps join_threshold (raw_spans evs None)) as [|g0 gl]; [congruence|].
    destruct (existsb flash _); [reflexivity|].
    cbn [map]. change (cue' g0 :: map cue' gl) with (map cue' (g0 :: gl)). cbn [spans_of].
    rewrite fix_last_ended by (apply cues_ended; exact HF). rewrite spans_cues. reflexivity.
  - rewrite HE, HG. rewrite map_app, !existsb_app, existsb_flash_cues. cbn [map existsb].
    change (cue' (s, 0)) with (cue s 0). rewrite pending_not_flash by exact Hs. rewrite four_s_not_flash.
    destruct (existsb flash l); [reflexivity|]. cbn [orb].
    assert (E1 : forall (A : Type) (x : A) (k : list A) (R : Type) (a b : R),
                   match k ++ [x] with [] => a | _ :: _ => b end = b) by (intros A x [|y k] R a b; reflexivity).
    rewrite !E1. cbn [spans_of].
    rewrite fix_last_spec_all.
    + rewrite map_app, spans_cues. reflexivity.
    + intros c [<-|[]]. reflexivity.
    + apply cues_ended. exact HF.
Qed.

(* the known defect: an offset larger than the timecodes floors instants to 0, and 0 is the code's "not ended yet"
   sentinel: a caption shown at 0 and cleared at 0 comes out lasting 4 s *)
Theorem end_zero_sentinel_refuted :
  popon_read (map to_pev [Show 0; Clear 0]) = Ok [(0, 0 + inject_Z 4000000)]%Q /\
  expected_with join_threshold [Show 0; Clear 0] = Ok [(0%Q, 0%Q)].
Proof. split; vm_compute; reflexivity. Qed.
