(* C02, round 4: the document the string-level SAMI writer model prints (model/SamiWriteDoc.v) is a well-formed rendering
   whose syncs are the sync rule's; read by the string-level reader model (C01_sami_string_exact) it yields the captions
   with starts and non-final ends floored to the millisecond, the last cue four seconds (C02 o C01 on whole documents). *)
From Coq Require Import List ZArith QArith Lia Bool ZifyBool Arith.
From PV Require Import lib.Sx lib.Str lib.Result lib.Dec.
From PV Require Import model.Base model.TimeRead model.TimeWrite model.TimeTree model.XmlRead model.SamiText model.Chain model.SamiWriteDoc.
From PV Require Import spec.SpecTime spec.SpecTimeTree spec.SpecXmlDocT spec.SpecSamiText spec.SpecChain.
From PV Require Import proofs.TimeReadFacts proofs.TimeWriteFacts proofs.TimeTreeFacts proofs.ChainFacts proofs.ChainDocFacts.
From PV Require Import proofs.XmlReadFacts proofs.SamiTextFacts.
Import ListNotations.
Open Scope Z_scope.

Definition sstyles (lang : str) : list (str * str) := [(lower lang, lang)].

Lemma schar_ok_slits : forall s, forallb schar_ok (slits s) = true.
Proof. intros s. unfold slits. induction s as [|c s IH]; [reflexivity|]. cbn [map forallb schar_ok]. exact IH. Qed.

Lemma srun_val_slits : forall s, srun_val (slits s) = s.
Proof. intros s. unfold srun_val, slits. rewrite map_map. cbn [schar_val]. apply map_id. Qed.

Lemma swcontent_cons2 : forall l l2 t,
  swcontent (l :: l2 :: t) = ((slits (snl 4%nat ++ l), mkBr (lit "br") [] true) :: fst (swcontent (l2 :: t)), snd (swcontent (l2 :: t))).
Proof. reflexivity. Qed.

Lemma swcontent_ok : forall lines, scontent_ok (swcontent lines) = true.
Proof.
  induction lines as [|l t IH]; [reflexivity|]. destruct t as [|l2 t].
  - cbn [swcontent]. unfold scontent_ok. cbn [fst snd forallb]. apply schar_ok_slits.
  - rewrite swcontent_cons2. unfold scontent_ok in *. cbn [fst snd forallb]. rewrite schar_ok_slits. cbn [andb sbr_ok br_name br_ws].
    exact IH.
Qed.

Lemma ev_content_ok : forall texts e, scontent_ok (ev_content texts e) = true.
Proof. intros texts [ms i|ms]; cbn [ev_content]; [apply swcontent_ok|reflexivity]. Qed.

Lemma swcontent_visible : forall lines, existsb has_visible_char lines = true ->
  has_visible_char (scontent_text (swcontent lines)) = true.
Proof.
  induction lines as [|l t IH]; intros H; [discriminate|]. destruct t as [|l2 t].
  - cbn [existsb] in H. rewrite orb_false_r in H. cbn [swcontent]. unfold scontent_text. cbn [fst snd flat_map app].
    rewrite srun_val_slits. unfold has_visible_char in *. rewrite !existsb_app, H, orb_true_r. reflexivity.
  - rewrite swcontent_cons2. unfold scontent_text in *. cbn [fst snd flat_map]. rewrite srun_val_slits.
    unfold has_visible_char in *. rewrite <- !app_assoc, !existsb_app.
    cbn [existsb] in H. apply orb_true_iff in H. destruct H as [H|H].
    + rewrite H, !orb_true_r. reflexivity.
    + rewrite existsb_app in IH. rewrite (IH H), !orb_true_r. reflexivity.
Qed.

(* ---- the syncs of the written document -------------------------------------------------------------------------------- *)
Definition ev_vis (texts : list (list str)) (e : sev) : bool := has_visible_char (scontent_text (ev_content texts e)).

Lemma wsyncs_cons2 : forall lang texts e e2 t,
  wsyncs lang texts (e :: e2 :: t) = wsync lang texts e (snl 2%nat) :: wsyncs lang texts (e2 :: t).
Proof. reflexivity. Qed.

Lemma find_lang_class : forall lang, find_lang (sstyles lang) (splain [sa1 (lit "class") lang]) = Some lang.
Proof.
  intros lang. cbn [splain map sa_name sa_val sa1 find_lang sstyles].
  change (str_eqb (lower (lit "class")) (lit "lang")) with false. change (str_eqb (lower (lit "class")) (lit "class")) with true.
  cbv iota. unfold sstyles. cbn [assoc_str]. rewrite str_eqb_refl. reflexivity.
Qed.

Lemma wsync_ok : forall default lang texts e after, 0 <= ev_ms e -> is_ws after = true ->
  ssync_ok default (sstyles lang) (wsync lang texts e after) = true.
Proof.
  intros default lang texts e after Hms Ha. unfold ssync_ok, wsync.
  cbn [ss_tag ss_ws ss_ps ss_close ss_after ss_pad ss_ms st_attrs forallb].
  unfold spar_ok. cbn [sp_tag sp_content sp_close sp_after sp_lang st_attrs]. rewrite find_lang_class, str_eqb_refl, ev_content_ok, Ha.
  cbn [splain map sa_name sa_val sa1]. unfold attr_get. cbn [fold_left fst snd].
  change (str_eqb (lower (lit "start")) (lit "start")) with true. cbv iota.
  unfold opt_str_eqb, sami_token, padded. rewrite (dec_z_nonneg _ Hms). cbn [repeat app]. rewrite str_eqb_refl. reflexivity.
Qed.

Lemma wsyncs_ok : forall default lang texts evs, (forall e, In e evs -> 0 <= ev_ms e) ->
  forallb (ssync_ok default (sstyles lang)) (wsyncs lang texts evs) = true.
Proof.
  intros default lang texts. induction evs as [|e t IH]; intros H; [reflexivity|]. destruct t as [|e2 t].
  - cbn [wsyncs forallb]. rewrite wsync_ok; [reflexivity|apply H; left; reflexivity|reflexivity].
  - rewrite wsyncs_cons2. cbn [forallb]. rewrite wsync_ok; [|apply H; left; reflexivity|reflexivity].
    apply IH. intros x Hx. apply H. right. exact Hx.
Qed.

Lemma wsyncs_langs : forall lang texts evs,
  flat_map (fun s => map sp_lang (ss_ps s)) (wsyncs lang texts evs) = map (fun _ => lang) evs.
Proof.
  intros lang texts. induction evs as [|e t IH]; [reflexivity|]. destruct t as [|e2 t]; [reflexivity|].
  rewrite wsyncs_cons2. cbn [flat_map map]. rewrite IH. reflexivity.
Qed.

Lemma wsyncs_body : forall lang texts evs,
  map (fun s => (ss_pad s, ss_ms s, map (fun p => (sp_lang p, has_visible_char (scontent_text (sp_content p)))) (ss_ps s)))
      (wsyncs lang texts evs)
  = map (fun e => (0%nat, ev_ms e, [(lang, ev_vis texts e)])) evs.
Proof.
  intros lang texts. induction evs as [|e t IH]; [reflexivity|]. destruct t as [|e2 t]; [reflexivity|].
  rewrite wsyncs_cons2. cbn [map]. rewrite IH. reflexivity.
Qed.

Lemma first_seen_const : forall (A : Type) lang (l : list A), l <> [] -> first_seen (map (fun _ => lang) l) = [lang].
Proof.
  intros A lang l H. destruct l as [|x l]; [contradiction|]. clear H. unfold first_seen. cbn [map fold_left existsb app].
  induction l as [|y l IH]; [reflexivity|]. cbn [map fold_left]. 
  replace (existsb (str_eqb lang) [lang]) with true by (cbn [existsb]; rewrite str_eqb_refl; reflexivity). exact IH.
Qed.

(* indices of the cue events stay inside the caption list *)
Lemma sami_events_idx : forall caps last k ms i, In (SCue ms i) (sami_events caps last k) -> (k <= i < k + length caps)%nat.
Proof.
  induction caps as [|[s e] t IH]; intros last k ms i H; [destruct H|].
  cbn [sami_events] in H. apply in_app_or in H. destruct H as [H|H].
  - destruct last as [l|]; [|destruct H]. destruct (negb (sami_ms s =? l)); [|destruct H]. destruct H as [H|[]]. discriminate.
  - destruct H as [H|H]; [inversion H; subst; cbn [length]; lia|]. apply IH in H. cbn [length]. lia.
Qed.

Definition lines_visible (cs : list scap) : bool := forallb (fun c : scap => existsb has_visible_char (snd c)) cs.

Lemma ev_vis_abs : forall cs e, lines_visible cs = true -> In e (sami_write (times_q cs)) ->
  (ev_ms e, ev_vis (map snd cs) e) = ev_abs e.
Proof.
  intros cs e V H. destruct e as [ms i|ms]; cbn [ev_ms ev_abs]; [|reflexivity].
  unfold sami_write in H. apply sami_events_idx in H. unfold times_q in H. rewrite map_length in H.
  unfold ev_vis. cbn [ev_content]. rewrite swcontent_visible; [reflexivity|].
  unfold lines_visible in V. rewrite forallb_forall in V.
  assert (Hi : (i < length cs)%nat) by lia.
  rewrite (nth_indep _ [] (snd (nth i cs (0, 0, []))) ) by (rewrite map_length; exact Hi).
  rewrite map_nth. apply V. apply nth_In. exact Hi.
Qed.

(* ---- C02 o C01 at string level, whole documents --------------------------------------------------------------------- *)
Lemma times_q_cue : forall cs, times_q cs = map cue_q (times_of_caps cs).
Proof. intros cs. unfold times_q, times_of_caps. rewrite map_map. reflexivity. Qed.

Theorem sami_document_string : forall default lang cs lo, cs <> [] -> 0 <= lo ->
  dom_u 1000 lo (times_of_caps cs) -> lines_visible cs = true ->
  sami_read_string default (sstyles lang) (sami_body_text lang cs)
  = Ok [(lang, set_last_end (map (pi_pt 1000) (times_of_caps cs)))].
Proof.
  intros default lang cs lo Hne Hlo D V. unfold sami_body_text.
  set (evs := sami_write (times_q cs)).
  assert (A : map ev_abs evs = sami_abs (times_of_caps cs)) by (unfold evs; rewrite times_q_cue; apply sami_spec_abs).
  assert (Hms : forall e, In e evs -> 0 <= ev_ms e).
  { intros e He. assert (N : 0 <= fst (ev_abs e)).
    { apply (dom_u_nonneg_ms (times_of_caps cs) lo Hlo D). rewrite <- A. apply in_map. exact He. }
    destruct e; exact N. }
  assert (Hevs : evs <> []).
  { intros E. rewrite E in A. destruct cs as [|[[s e] ls] cs]; [contradiction|]. discriminate A. }
  assert (OK : sdoc_ok default (sstyles lang) (wsdoc lang cs) = true).
  { unfold sdoc_ok, wsdoc. cbn [sd_open sd_ws sd_syncs sd_tail st_name st_attrs st_end]. fold evs.
    rewrite (wsyncs_ok default lang (map snd cs) evs Hms). reflexivity. }
  assert (OBS : map (fun e => (ev_ms e, ev_vis (map snd cs) e)) evs = sami_abs (times_of_caps cs)).
  { rewrite <- A. apply map_ext_in. intros e He. apply ev_vis_abs; assumption. }
  assert (LG : sdoc_langs (wsdoc lang cs) = [lang]).
  { unfold sdoc_langs, wsdoc. cbn [sd_syncs]. fold evs. rewrite wsyncs_langs. apply first_seen_const. exact Hevs. }
  assert (PR : sami_abs_of (sami_proj lang (sdoc_body (wsdoc lang cs))) = sami_abs (times_of_caps cs)).
  { unfold sdoc_body, wsdoc. cbn [sd_syncs]. fold evs. rewrite wsyncs_body. rewrite <- OBS.
    unfold sami_proj, sami_abs_of. clear. induction evs as [|e t IH]; [reflexivity|].
    cbn [map flat_map filter fst snd]. rewrite str_eqb_refl. cbn [map app sp_ms sp_text fst snd]. rewrite <- IH. reflexivity. }
  assert (DOM : sami_tree_dom (sdoc_langs (wsdoc lang cs)) (sdoc_body (wsdoc lang cs)) = true).
  { rewrite LG. unfold sami_tree_dom. cbn [distinct existsb negb andb forallb]. rewrite PR, andb_true_r.
    unfold sami_dom. apply (sami_abs_incr (times_of_caps cs) lo (-1) D).
    intros s e t H. rewrite H in D. cbn [dom_u] in D. lia. }
  rewrite (sami_string_exact default (sstyles lang) (wsdoc lang cs) OK DOM).
  unfold sdoc_expected. rewrite LG. unfold sami_tree_expected. cbn [map]. rewrite PR.
  rewrite (sami_abs_expected (times_of_caps cs) lo D). unfold set_result. cbn [forallb snd].
  destruct (times_of_caps cs) as [|c t] eqn:E; [destruct cs; [contradiction|discriminate E]|].
  cbn [map]. destruct (set_last_end (pi_pt 1000 c :: map (pi_pt 1000) t)) eqn:E2; [exfalso; exact (set_last_end_nonempty _ _ E2)|reflexivity].
Qed.
