(* C17, wave 7: the decidable domain predicate of model/SccRereadDom.v implies the hypothesis of the re-read theorems. *)
From Coq Require Import List ZArith QArith Lia Bool ZifyBool Arith.
From PV Require Import lib.Sx lib.Str lib.Result model.GenSccw model.SccWrap model.SccWrite spec.SpecSccw model.SccRoundTrip
     model.SccStash model.SccRereadDom.
From PV Require Import proofs.SccDecodeFacts proofs.SccLayoutFacts proofs.SccComposeFacts proofs.SccRereadDoc.
Import ListNotations.
Open Scope Z_scope.

Lemma spaced_b_sound : forall caps p, spaced_b p caps = true -> spaced_w p caps.
Proof.
  induction caps as [|c t IH]; intros p H; [exact I|]. cbn [spaced_b] in H.
  apply andb_prop in H. destruct H as [H H4]. apply andb_prop in H. destruct H as [H1 H2].
  cbn [spaced_w]. split; [apply Qle_bool_iff; exact H1|]. split; [apply Qle_bool_iff; exact H2|apply IH; exact H4].
Qed.

Theorem caps_ok_b_sound : forall caps, caps_ok_b caps = true -> caps_ok caps.
Proof.
  intros caps H. unfold caps_ok_b in H.
  apply andb_prop in H. destruct H as [H H4]. apply andb_prop in H. destruct H as [H H3]. apply andb_prop in H. destruct H as [H1 H2].
  rewrite forallb_forall in H1, H3, H4. split; [|split; [|split]].
  - apply Forall_forall. intros c Hc. specialize (H1 c Hc). unfold cap_dom_b in H1. apply andb_prop in H1. destruct H1 as [A B].
    split; [exact A|]. apply Nat.leb_le. exact B.
  - apply spaced_b_sound. exact H2.
  - apply Forall_forall. intros c Hc. specialize (H3 c Hc). unfold has_word_b in H3. unfold has_word. destruct (words (w_text c)); [discriminate|discriminate].
  - apply Forall_forall. intros c Hc. specialize (H4 c Hc). unfold below_100h_b in H4. unfold below_100h.
    apply negb_true_iff in H4. apply Qnot_le_lt. intros X. apply Qle_bool_iff in X. congruence.
Qed.

(* on the decidable domain the reader model returns captions for the writer model's document *)
Theorem reread_class_on_domain : forall caps, caps_ok_b caps = true -> caps <> [] -> reread_class caps = 0.
Proof.
  intros caps H Ne. unfold reread_class.
  destruct (reread_store caps (caps_ok_b_sound caps H) Ne) as (pcs & -> & _). reflexivity.
Qed.
