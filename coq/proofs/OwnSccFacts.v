(* C20 own output from the text nodes, SCC (wave 7, round 3): every character the SCC writer model (model/SccWrite.v)
   puts behind the header is a hex digit, ':', ';', TAB, blank, newline, 'x' (the placeholder of a table entry that is not
   a byte: row 0) or '-' (a negative timecode field); such a document is detected as SCC.  No hypothesis on the text, the
   times, or the number of lines - only that the writer returns a document (it raises IndexError beyond 32 rows). *)
From Coq Require Import List ZArith QArith Bool Lia ZifyBool.
From PV Require Import lib.Sx lib.Str lib.Result lib.Dec model.Generated model.Detect spec.SpecDetect spec.SpecOwn
  proofs.DetectFacts proofs.DetectOwnFacts model.GenSccw model.SccWrite model.OwnWrite model.OwnWriteScc.
Import ListNotations.
Open Scope Z_scope.
#[local] Ltac Zify.zify_post_hook ::= Z.to_euclidean_division_equations.

Definition sccp (c : Z) : bool := scc_body_char c || (c =? 120) || (c =? 45).

Lemma sccp_class_plain : class_plain sccp = true.
Proof. vm_compute. reflexivity. Qed.

(* ---------------- detection of header + body over the class ---------------- *)
Lemma scc_document_free_p : forall body, forallb sccp body = true -> free before_scc (scc_document body) = true.
Proof.
  intros body Hb. apply free_spec. intros m lw Hin.
  destruct (markers_ok_spec before_srt m lw markers_ok_srt Hin) as [Hm Hn].
  destruct (has m lw (scc_document body)) eqn:E; [|reflexivity]. exfalso.
  unfold scc_document in E. cbn [app] in E.
  destruct (has_sep_nl m lw _ _ Hm Hn E) as [H1|H1].
  - cbn in Hin. destruct Hin as [X|[X|[X|[]]]]; injection X as <- <-; vm_compute in H1; discriminate.
  - change (10 :: body) with ([] ++ 10 :: body) in H1.
    destruct (has_sep_nl m lw _ _ Hm Hn H1) as [H2|H2]; [rewrite has_nil in H2 by exact Hm; discriminate|].
    pose proof (class_free_srt sccp body sccp_class_plain Hb eq_refl eq_refl) as F.
    rewrite (proj1 (free_spec _ _) F m lw Hin) in H2. discriminate.
Qed.

Theorem own_scc_p : forall body, forallb sccp body = true ->
  detect_format (scc_document body) = Ok (Some R_SCC).
Proof.
  intros body Hb.
  destruct (free_srt_parts _ (scc_document_free_p body Hb)) as [F1 [F2 F3]].
  rewrite detect_format_cascade by (unfold scc_document, scc_header; discriminate).
  cbn [first_match detect_of].
  rewrite detect_dfxp_has, F1. cbn [bind].
  assert (Hm : detect_mdvd (scc_document body) = Ok false) by reflexivity.
  rewrite Hm. cbn [bind].
  rewrite detect_vtt_has, F2. cbn [bind].
  rewrite detect_sami_has, F3. cbn [bind].
  assert (Hl : splitlines (scc_document body) = scc_header :: splitlines (10 :: body)).
  { unfold scc_document. cbn [app]. apply splitlines_line. vm_compute. reflexivity. }
  unfold detect_srt, detect_scc. rewrite Hl.
  assert (Hd : u_isdigit scc_header = false) by (vm_compute; reflexivity).
  rewrite Hd. cbn [bind]. rewrite str_eqb_refl. reflexivity.
Qed.

(* ---------------- table facts (complete regenerated tables) ---------------- *)
Lemma tbl_basic_bytes : forallb (fun kv => snd kv <? 256) sccw_character_to_code = true.
Proof. vm_compute. reflexivity. Qed.
Lemma tbl_special_words : forallb (fun kv => snd kv <? 65536) sccw_special_or_extended_to_code = true.
Proof. vm_compute. reflexivity. Qed.
Lemma tbl_pac_high_bytes : forallb (fun b => b <? 256) sccw_pac_high_byte_by_row = true.
Proof. vm_compute. reflexivity. Qed.
Lemma tbl_pac_low_bytes : forallb (fun b => b <? 256) sccw_pac_low_byte_by_row_restricted = true.
Proof. vm_compute. reflexivity. Qed.

Lemma sccw_assoc_in : forall k l v, SccWrite.assoc k l = Some v -> In (k, v) l.
Proof.
  induction l as [|[a b] t IH]; intros v H; cbn [SccWrite.assoc] in H; [discriminate|].
  destruct (a =? k) eqn:E.
  - injection H as <-. left. f_equal. lia.
  - right. apply IH. exact H.
Qed.

Definition ccode_small (cc : ccode) : bool :=
  match cc with CByte b => b <? 256 | CWord hi lo => (hi <? 256) && (lo <? 256) end.

Lemma char_code_small : forall c, ccode_small (char_code c) = true.
Proof.
  intros c. unfold char_code.
  destruct (SccWrite.assoc c sccw_character_to_code) as [b|] eqn:E1.
  - apply sccw_assoc_in in E1. pose proof tbl_basic_bytes as T. rewrite forallb_forall in T. exact (T _ E1).
  - destruct (SccWrite.assoc c sccw_special_or_extended_to_code) as [w|] eqn:E2; [|reflexivity].
    apply sccw_assoc_in in E2. pose proof tbl_special_words as T. rewrite forallb_forall in T.
    specialize (T _ E2). cbn [snd ccode_small] in *. lia.
Qed.

Lemma py_index_in : forall l i b, forallb (fun b => b <? 256) l = true -> py_index l i = Ok b -> b <? 256 = true.
Proof.
  intros l i b Hl H. unfold py_index in H.
  destruct ((if i <? 0 then i + Z.of_nat (length l) else i) <? 0) eqn:E1; [discriminate|].
  destruct (Z.of_nat (length l) <=? (if i <? 0 then i + Z.of_nat (length l) else i)) eqn:E2; [discriminate|].
  cbn [orb] in H. injection H as <-. rewrite forallb_forall in Hl. apply Hl. apply nth_In. lia.
Qed.

(* ---------------- hex bytes ---------------- *)
Lemma hex_digit_class : forall d, 0 <= d < 16 -> sccp (hex_digit d) = true.
Proof. intros d H. unfold hex_digit, sccp, scc_body_char, is_digit. destruct (d <? 10) eqn:E; lia. Qed.

Lemma hex2_class : forall b, b <? 256 = true -> forallb sccp (hex2 b) = true.
Proof.
  intros b H. unfold hex2. destruct (b <? 0) eqn:E; [reflexivity|].
  cbn [forallb]. rewrite (hex_digit_class (b / 16)) by lia. rewrite (hex_digit_class (b mod 16)) by lia. reflexivity.
Qed.

(* ---------------- the code string ---------------- *)
Lemma maybe_align_class : forall code, forallb sccp code = true -> forallb sccp (maybe_align code) = true.
Proof. intros code H. unfold maybe_align. destruct (len5 code =? 2); [rewrite forallb_app, H; reflexivity|exact H]. Qed.

Lemma maybe_space_class : forall code, forallb sccp code = true -> forallb sccp (maybe_space code) = true.
Proof. intros code H. unfold maybe_space. destruct (len5 code =? 4); [rewrite forallb_app, H; reflexivity|exact H]. Qed.

Lemma print_character_class : forall code c, forallb sccp code = true -> forallb sccp (print_character code c) = true.
Proof.
  intros code c H. unfold print_character. pose proof (char_code_small c) as S.
  destruct (char_code c) as [b|hi lo]; cbn [ccode_small] in S.
  - rewrite forallb_app, H, (hex2_class b S). reflexivity.
  - apply andb_true_iff in S. destruct S as [S1 S2].
    rewrite !forallb_app, (maybe_align_class code H), (hex2_class hi S1), (hex2_class lo S2). reflexivity.
Qed.

Lemma print_line_class : forall line code, forallb sccp code = true -> forallb sccp (print_line code line) = true.
Proof.
  unfold print_line. induction line as [|c t IH]; intros code H; [exact H|].
  cbn [fold_left]. apply IH. apply maybe_space_class. apply print_character_class. exact H.
Qed.

Lemma pac_str_class : forall hi lo, hi <? 256 = true -> lo <? 256 = true -> forallb sccp (pac_str hi lo) = true.
Proof. intros hi lo H1 H2. unfold pac_str. rewrite !forallb_app, (hex2_class hi H1), (hex2_class lo H2). reflexivity. Qed.

Lemma code_rows_class : forall rows code out, forallb sccp code = true -> code_rows code rows = Ok out ->
  forallb sccp out = true.
Proof.
  induction rows as [|[row line] t IH]; intros code out H E; cbn [code_rows] in E.
  - injection E as <-. exact H.
  - destruct (py_index sccw_pac_high_byte_by_row row) as [hi|] eqn:Eh; cbn [bind] in E; [|discriminate].
    destruct (py_index sccw_pac_low_byte_by_row_restricted row) as [lo|] eqn:El; cbn [bind] in E; [|discriminate].
    pose proof (py_index_in _ _ _ tbl_pac_high_bytes Eh) as Hh. pose proof (py_index_in _ _ _ tbl_pac_low_bytes El) as Hl.
    apply (IH _ out) in E; [exact E|]. apply maybe_align_class. apply print_line_class.
    rewrite !forallb_app, H, (pac_str_class hi lo Hh Hl). reflexivity.
Qed.

Lemma text_to_code_class : forall text code, text_to_code text = Ok code -> forallb sccp code = true.
Proof. intros text code H. apply (code_rows_class _ [] code eq_refl H). Qed.

(* ---------------- timecodes ---------------- *)
Lemma digits_sccp : forall s, forallb is_digit s = true -> forallb sccp s = true.
Proof.
  intros s H. rewrite forallb_forall in *. intros c Hc. specialize (H c Hc).
  unfold sccp, scc_body_char. rewrite H. reflexivity.
Qed.

Lemma two_class : forall z, forallb sccp (SccWrite.two z) = true.
Proof.
  intros z. unfold SccWrite.two. destruct (z <? 0) eqn:E.
  - unfold dec_z. rewrite E. cbn [forallb]. rewrite (digits_sccp _ (dec_nonneg_digits (- z) ltac:(lia))). reflexivity.
  - unfold zpad. rewrite forallb_app, (digits_sccp _ (dec_nonneg_digits z ltac:(lia))), andb_true_r.
    apply forallb_forall. intros c Hc. apply repeat_spec in Hc. subst c. reflexivity.
Qed.

Lemma format_timestamp_class : forall t, forallb sccp (format_timestamp t) = true.
Proof. intros t. unfold format_timestamp, format_frames. rewrite !forallb_app, !two_class. reflexivity. Qed.

(* ---------------- the document ---------------- *)
Definition code_ok (c : str * Q * option Q) : bool := forallb sccp (fst (fst c)).
Definition code_ok3 (c : str * Q * Q) : bool := forallb sccp (fst (fst c)).

Lemma write_caption_class : forall c, code_ok c = true -> forallb sccp (write_caption c) = true.
Proof.
  intros [[code start] e] H. unfold code_ok in H. cbn [fst] in H. unfold write_caption.
  rewrite !forallb_app, !format_timestamp_class, H.
  destruct e as [e|]; [rewrite !forallb_app, format_timestamp_class|]; reflexivity.
Qed.

Lemma pass2_class : forall todo done_, forallb code_ok done_ = true -> forallb code_ok3 todo = true ->
  forallb code_ok (pass2 done_ todo) = true.
Proof.
  induction todo as [|[[code start] e] t IH]; intros done_ Hd Ht; cbn [pass2].
  - apply forallb_forall. intros x Hx. apply in_rev in Hx. rewrite forallb_forall in Hd. apply Hd. exact Hx.
  - cbn [forallb] in Ht. apply andb_true_iff in Ht. destruct Ht as [Hc Ht]. apply IH; [|exact Ht].
    cbn [forallb]. unfold code_ok at 1. cbn [fst]. unfold code_ok3 in Hc. cbn [fst] in Hc. rewrite Hc. cbn [andb].
    destruct done_ as [|[[pc ps] [pe|]] d]; try exact Hd.
    destruct (Qle_bool (pre_roll code start) (pe + 3 * mpc)); [|exact Hd].
    cbn [forallb] in Hd |- *. exact Hd.
Qed.

Lemma codes_class : forall caps codes,
  res_map (fun c => do code <- text_to_code (w_text c); Ok (code, w_start c, w_end c)) caps = Ok codes ->
  forallb code_ok3 codes = true.
Proof.
  induction caps as [|c t IH]; intros codes H; cbn [res_map] in H.
  - injection H as <-. reflexivity.
  - destruct (text_to_code (w_text c)) as [code|] eqn:E; cbn [bind] in H; [|discriminate].
    destruct (res_map _ t) as [cs|] eqn:Er; cbn [bind] in H; [|discriminate].
    injection H as <-. cbn [forallb]. rewrite (IH cs eq_refl), andb_true_r.
    unfold code_ok3. cbn [fst]. apply (text_to_code_class _ _ E).
Qed.

Lemma flat_map_class : forall (A : Type) (f : A -> str) l, (forall x, In x l -> forallb sccp (f x) = true) ->
  forallb sccp (flat_map f l) = true.
Proof.
  intros A f. induction l as [|x t IH]; intros H; [reflexivity|]. cbn [flat_map].
  rewrite forallb_app, (H x (or_introl eq_refl)), IH; [reflexivity|]. intros y Hy. apply H. right. exact Hy.
Qed.

Theorem write_shape : forall caps doc, write caps = Ok doc ->
  exists body, doc = scc_document body /\ forallb sccp body = true.
Proof.
  intros caps doc H. unfold write in H.
  destruct (res_map _ caps) as [codes|] eqn:E; cbn [bind] in H; [|discriminate].
  injection H as <-. exists (flat_map write_caption (pass2 [] codes)). split; [reflexivity|].
  apply flat_map_class. intros x Hx. apply write_caption_class.
  pose proof (pass2_class codes [] eq_refl (codes_class caps codes E)) as P. rewrite forallb_forall in P. apply P. exact Hx.
Qed.

Theorem own_nodes_scc : forall langs doc, scc_write langs = Ok doc -> detect_format doc = Ok (Some R_SCC).
Proof.
  intros langs doc H. destruct (write_shape _ doc H) as [body [-> Hb]]. apply own_scc_p. exact Hb.
Qed.
