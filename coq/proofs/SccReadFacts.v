(* SccReadFacts.v - C10: the SCC reader model (result assembled from the PreCaption stash by folds) also returns a
   snapshot that is a function of the document; with RegionFacts.snap_build this covers all six reader models. *)
From Coq Require Import List ZArith Bool Arith Lia.
From PV Require Import lib.Sx lib.Str lib.Result model.Store model.Iso proofs.StoreFacts proofs.IsoFacts proofs.RegionFacts.
Import ListNotations.

(* ---- the SCC reader model: its result, too, is a function of the document ------------------------------------------- *)
Definition sc_tree (t : tree) : tree := match t with TInt z => TInt z | TStr s => TStr s | _ => TNone end.

Lemma snap_vkey : forall n st t, snap n st (vkey_of_tree t) = sc_tree t.
Proof. intros n st []; destruct n; reflexivity. Qed.

Definition scc_cap_expected (n : nat) (cap : tree) : tree :=
  TNode KCaption [(TInt 1, sc_tree (tfield cap 1)); (TInt 2, sc_tree (tfield cap 2));
                  (TInt 3, clean_trunc n (tfield cap 3)); (TInt 4, clean_trunc n (tfield cap 4));
                  (TInt 5, clean_trunc n (tfield cap 5))].

Definition scc_expected (n : nat) (t : tree) : tree :=
  let kv := match set_langs_t t with x :: _ => x | [] => (TNone, TNone) end in
  TNode KSet [(TInt 1, TNode KDict [(sc_tree (fst kv),
                                     TNode KCapList ((TInt 1, TNone) ::
                                                     map (fun cap => (TNone, scc_cap_expected n cap)) (telems (snd kv))))]);
              (TInt 2, TNode KDict []); (TInt 3, TNone)].

Definition stable (s0 : store) (v : val) (t : tree) : Prop :=
  forall sc n, ext s0 sc -> snap n sc v = clean_trunc n t.

Lemma stable_ext : forall s0 s1 v t, stable s0 v t -> ext s0 s1 -> stable s1 v t.
Proof. intros s0 s1 v t H X sc n Xc. apply H. eapply ext_trans; eauto. Qed.

Lemma build_stable : forall c t st st' v, fix2 c = true -> build (dflt c) t st = (st', v) -> stable st' v t.
Proof.
  intros c t st st' v Hc H sc n X.
  destruct (build_inv c t st st st' v Hc (inv_refl _) H) as (I1 & L1 & V1).
  rewrite (snap_built_stable st st' sc v n I1 X V1). eapply snap_build; eauto.
Qed.

Definition pre_obj (cap : tree) (vn vs vl : val) : obj :=
  mkObj KPre [(VInt 1, vkey_of_tree (tfield cap 1)); (VInt 2, vkey_of_tree (tfield cap 2));
              (VInt 3, vn); (VInt 4, vs); (VInt 5, vl)].

Definition pre_ok (s0 : store) (p : val) (cap : tree) : Prop :=
  exists ln vn vs vl, p = VLoc ln /\ get s0 ln = Some (pre_obj cap vn vs vl) /\
    stable s0 vn (tfield cap 3) /\ stable s0 vs (tfield cap 4) /\ stable s0 vl (tfield cap 5).

Lemma pre_ok_ext : forall s0 s1 p cap, pre_ok s0 p cap -> ext s0 s1 -> pre_ok s1 p cap.
Proof.
  intros s0 s1 p cap (ln & vn & vs & vl & E & G & A & B & C) X.
  exists ln, vn, vs, vl. split; [exact E|]. split.
  - destruct X as [Xa _]. rewrite Xa; [exact G|]. eapply get_some_lt; eauto.
  - split; [|split]; eapply stable_ext; eauto.
Qed.

Lemma scc_pre_ok : forall c st cap st' p,
  fix2 c = true -> scc_pre c st cap = (st', p) -> ext st st' /\ pre_ok st' p cap.
Proof.
  intros c st cap st' p Hc H. unfold scc_pre in H.
  destruct (build (dflt c) (tfield cap 3) st) as [st1 nodes] eqn:E1.
  destruct (build (dflt c) (tfield cap 4) st1) as [st2 style] eqn:E2.
  destruct (build (dflt c) (tfield cap 5) st2) as [st3 lay] eqn:E3.
  pose proof (build_ext c _ _ _ _ Hc E1) as X1. pose proof (build_ext c _ _ _ _ Hc E2) as X2.
  pose proof (build_ext c _ _ _ _ Hc E3) as X3.
  unfold new_obj, alloc in H. inversion H; subst. clear H.
  pose proof (ext_alloc st3 (pre_obj cap nodes style lay)) as X4. unfold pre_obj in X4.
  split; [eapply ext_trans; [exact X1|eapply ext_trans; [exact X2|eapply ext_trans; eauto]]|].
  exists (length st3), nodes, style, lay. split; [reflexivity|]. split; [apply get_app_new|].
  split; [|split].
  - eapply stable_ext; [eapply build_stable; eauto|]. eapply ext_trans; [exact X2|eapply ext_trans; eauto].
  - eapply stable_ext; [eapply build_stable; eauto|]. eapply ext_trans; eauto.
  - eapply stable_ext; [eapply build_stable; eauto|]. exact X4.
Qed.

Lemma Forall2_imp : forall (A B : Type) (P Q : A -> B -> Prop) la lb,
  (forall a b, P a b -> Q a b) -> Forall2 P la lb -> Forall2 Q la lb.
Proof. intros A B P Q la lb H F. induction F; constructor; auto. Qed.

Lemma pres_fold_ok : forall c, fix2 c = true ->
  forall caps s0 l done s1 pres,
    Forall2 (pre_ok s0) l done ->
    fold_left (fun (acc : store * list val) cap =>
                 let (s0, l) := acc in let (s1, p) := scc_pre c s0 cap in (s1, l ++ [p])) caps (s0, l) = (s1, pres) ->
    ext s0 s1 /\ Forall2 (pre_ok s1) pres (done ++ caps).
Proof.
  intros c Hc. induction caps as [|cap t IH]; intros s0 l done s1 pres Hl H; simpl in H.
  - inversion H; subst. rewrite app_nil_r. split; [apply ext_refl|exact Hl].
  - destruct (scc_pre c s0 cap) as [sa p] eqn:Ep.
    destruct (scc_pre_ok c s0 cap sa p Hc Ep) as (Xa & Pa).
    assert (Hl' : Forall2 (pre_ok sa) (l ++ [p]) (done ++ [cap])).
    { apply Forall2_app; [|constructor; [exact Pa|constructor]].
      eapply Forall2_imp; [|exact Hl]. intros x y Hxy. eapply pre_ok_ext; eauto. }
    destruct (IH sa (l ++ [p]) (done ++ [cap]) s1 pres Hl' H) as (Xb & Hb).
    split; [eapply ext_trans; eauto|]. rewrite <- app_assoc in Hb. exact Hb.
Qed.

Lemma snap_S_loc : forall n st l o, get st l = Some o ->
  snap (S n) st (VLoc l) = TNode (o_kind o) (map (fun kv => (snap n st (fst kv), snap n st (snd kv))) (o_items o)).
Proof. intros n st l o H. cbn [snap]. rewrite H. reflexivity. Qed.
Lemma snap_int : forall n st z, snap n st (VInt z) = TInt z.
Proof. intros [] st z; reflexivity. Qed.
Lemma snap_none : forall n st, snap n st VNone = TNone.
Proof. intros [] st; reflexivity. Qed.

Definition cap_ok (s0 : store) (cp : val) (cap : tree) : Prop :=
  exists lc, cp = VLoc lc /\ forall sc n, ext s0 sc -> snap (S n) sc cp = scc_cap_expected n cap.

Lemma cap_ok_ext : forall s0 s1 cp cap, cap_ok s0 cp cap -> ext s0 s1 -> cap_ok s1 cp cap.
Proof.
  intros s0 s1 cp cap (lc & E & H) X. exists lc. split; [exact E|]. intros sc n Xc. apply H. eapply ext_trans; eauto.
Qed.

Lemma get_ext_new : forall s0 o sc, ext (s0 ++ [o]) sc -> get sc (length s0) = Some o.
Proof.
  intros s0 o sc [A L]. rewrite A; [apply get_app_new|]. rewrite app_length. simpl. lia.
Qed.

Lemma cap_of_pre_ok : forall s0 p cap s1 cp,
  pre_ok s0 p cap -> cap_of_pre s0 p = (s1, cp) -> ext s0 s1 /\ cap_ok s1 cp cap.
Proof.
  intros s0 p cap s1 cp (ln & vn & vs & vl & E & G & A & B & C) H. subst p.
  unfold cap_of_pre, new_obj, alloc in H. unfold field, items_of in H. rewrite G in H. unfold pre_obj in H.
  cbn [o_items assoc val_eqb Z.eqb Pos.eqb] in H. inversion H; subst. clear H.
  split; [apply ext_alloc|].
  exists (length s0). split; [reflexivity|]. intros sc n X.
  rewrite (snap_S_loc _ _ _ _ (get_ext_new _ _ _ X)). cbn [o_kind o_items map fst snd].
  assert (X0 : ext s0 sc) by (eapply ext_trans; [apply ext_alloc|exact X]).
  unfold scc_cap_expected. repeat rewrite snap_vkey. repeat rewrite snap_int.
  rewrite (A sc n X0), (B sc n X0), (C sc n X0). reflexivity.
Qed.

Definition cell_ok (s0 : store) (kv : val * val) (cap : tree) : Prop := fst kv = VNone /\ cap_ok s0 (snd kv) cap.

Lemma caps_fold_ok : forall pres s0 l done caps s1 out,
  Forall2 (cell_ok s0) l done -> Forall2 (pre_ok s0) pres caps ->
  fold_left (fun (acc : store * list (val * val)) p =>
               let (s0, l) := acc in let (s1, cp) := cap_of_pre s0 p in (s1, l ++ [(VNone, cp)])) pres (s0, l) = (s1, out) ->
  ext s0 s1 /\ Forall2 (cell_ok s1) out (done ++ caps).
Proof.
  induction pres as [|p t IH]; intros s0 l done caps s1 out Hl Hp H; cbn [fold_left] in H.
  - inversion Hp; subst. inversion H; subst. rewrite app_nil_r. split; [apply ext_refl|exact Hl].
  - inversion Hp as [|? cap ? caps' Hpc Hpt]; subst.
    destruct (cap_of_pre s0 p) as [sa cp] eqn:Ec.
    destruct (cap_of_pre_ok s0 p cap sa cp Hpc Ec) as (Xa & Ca).
    assert (Hl' : Forall2 (cell_ok sa) (l ++ [(VNone, cp)]) (done ++ [cap])).
    { apply Forall2_app; [|constructor; [split; [reflexivity|exact Ca]|constructor]].
      eapply Forall2_imp; [|exact Hl]. intros x y [Hx Hy]. split; [exact Hx|eapply cap_ok_ext; eauto]. }
    assert (Hp' : Forall2 (pre_ok sa) t caps').
    { eapply Forall2_imp; [|exact Hpt]. intros x y Hxy. eapply pre_ok_ext; eauto. }
    destruct (IH sa _ (done ++ [cap]) caps' s1 out Hl' Hp' H) as (Xb & Hb).
    split; [eapply ext_trans; eauto|]. rewrite <- app_assoc in Hb. exact Hb.
Qed.

Lemma cells_snap : forall s0 sc n out caps,
  Forall2 (cell_ok s0) out caps -> ext s0 sc ->
  map (fun kv => (snap (S n) sc (fst kv), snap (S n) sc (snd kv))) out
  = map (fun cap => (TNone, scc_cap_expected n cap)) caps.
Proof.
  intros s0 sc n out caps H X. induction H as [|[k v] cap t tc [Hk (lc & E & Hc)] Ht IH]; [reflexivity|].
  cbn [map fst snd] in *. subst k. rewrite IH. f_equal. rewrite (Hc sc n X). reflexivity.
Qed.

Theorem scc_read_result_function_of_document : forall c ri t st st' ri' s n,
  fix2 c = true -> fix3 c = true -> read c R_SCC ri t st = (st', ri', s) ->
  snap (S (S (S (S n)))) st' s = scc_expected n t.
Proof.
  intros c ri t st st' ri' s n Hc2 Hc3 H. unfold read in H. rewrite Z.eqb_refl in H. rewrite Hc3 in H. cbn [app] in H.
  set (kv := match set_langs_t t with x :: _ => x | [] => (TNone, TNone) end) in *.
  match type of H with (let '(_, _) := ?X in _) = _ => destruct X as [st1 pres] eqn:E1 end.
  destruct (pres_fold_ok c Hc2 _ _ _ [] _ _ (Forall2_nil _) E1) as (X1 & P1). cbn [app] in P1.
  match type of H with (let '(_, _) := ?X in _) = _ => destruct X as [st2 caps] eqn:E2 end.
  destruct (caps_fold_ok _ _ _ [] _ _ _ (Forall2_nil _) P1 E2) as (X2 & C2). cbn [app] in C2.
  unfold new_obj, alloc in H. unfold dflt in H. rewrite Hc2 in H. unfold new_obj, alloc in H.
  inversion H; subst. clear H.
  remember (mkObj KCapList ((VInt 1, VNone) :: caps)) as ocl eqn:Eocl.
  remember (st2 ++ [ocl]) as st3 eqn:E3.
  remember (mkObj KDict [(vkey_of_tree (fst kv), VLoc (length st2))]) as od eqn:Eod.
  remember (st3 ++ [od]) as st4 eqn:E4.
  remember (mkObj KDict []) as osty eqn:Eosty.
  remember (st4 ++ [osty]) as st5 eqn:E5.
  remember (mkObj KSet [(VInt 1, VLoc (length st3)); (VInt 2, VLoc (length st4)); (VInt 3, VNone)]) as os eqn:Eos.
  remember (st5 ++ [os]) as st6 eqn:E6.
  assert (X56 : ext st5 st6) by (rewrite E6; apply ext_alloc).
  assert (X45 : ext st4 st5) by (rewrite E5; apply ext_alloc).
  assert (X34 : ext st3 st4) by (rewrite E4; apply ext_alloc).
  assert (X23 : ext st2 st3) by (rewrite E3; apply ext_alloc).
  assert (X46 : ext st4 st6) by (eapply ext_trans; eauto).
  assert (X36 : ext st3 st6) by (eapply ext_trans; eauto).
  assert (X26 : ext st2 st6) by (eapply ext_trans; eauto).
  assert (Gs : get st6 (length st5) = Some os) by (rewrite E6; apply get_app_new).
  assert (Gsty : get st6 (length st4) = Some osty) by (apply (get_ext_new st4 osty st6); rewrite <- E5; exact X56).
  assert (Gd : get st6 (length st3) = Some od) by (apply (get_ext_new st3 od st6); rewrite <- E4; exact X46).
  assert (Gcl : get st6 (length st2) = Some ocl) by (apply (get_ext_new st2 ocl st6); rewrite <- E3; exact X36).
  rewrite (snap_S_loc _ _ _ _ Gs). rewrite Eos. cbn [o_kind o_items map fst snd].
  rewrite (snap_S_loc _ _ _ _ Gd), (snap_S_loc _ _ _ _ Gsty). rewrite Eod, Eosty. cbn [o_kind o_items map fst snd].
  rewrite (snap_S_loc _ _ _ _ Gcl). rewrite Eocl. cbn [o_kind o_items map fst snd].
  repeat rewrite snap_int. repeat rewrite snap_none. rewrite snap_vkey. unfold scc_expected. fold kv.
  rewrite (cells_snap st2 st6 n caps (telems (snd kv)) C2 X26). reflexivity.
Qed.

(* ---- all six reader models ------------------------------------------------------------------------------------------- *)
Definition expected (n : nat) (rk : Z) (t : tree) : tree :=
  if (rk =? R_SCC)%Z then scc_expected n t else clean_trunc (S (S (S (S n)))) (unshare (mark_defaults rk t)).

Theorem read_result_function_of_document : forall c rk ri t st st' ri' s n,
  repaired c -> (n <= 60)%nat -> read c rk ri t st = (st', ri', s) ->
  snap (S (S (S (S n)))) st' s = expected n rk t.
Proof.
  intros c rk ri t st st' ri' s n [Hc2 Hc3] Hn H. unfold expected.
  destruct (rk =? R_SCC)%Z eqn:K.
  - apply Z.eqb_eq in K. subst rk. eapply scc_read_result_function_of_document; eauto.
  - eapply read_result_function_of_document_partial; eauto. unfold FUEL. lia.
Qed.

(* two reads of the same result tree by the same kind of reader model - whatever the stores, whatever the reader
   objects' past - return equal snapshots (depths 4 .. 64; the snapshots the model itself takes have depth FUEL = 64) *)
Corollary read_same_document_same_result : forall c rk ri1 ri2 t st1 st2 st1' st2' r1 r2 s1 s2 n,
  repaired c -> (n <= 60)%nat -> read c rk ri1 t st1 = (st1', r1, s1) -> read c rk ri2 t st2 = (st2', r2, s2) ->
  snap (S (S (S (S n)))) st1' s1 = snap (S (S (S (S n)))) st2' s2.
Proof.
  intros. erewrite read_result_function_of_document; eauto. erewrite read_result_function_of_document; eauto.
Qed.
