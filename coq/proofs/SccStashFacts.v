(* C06 / C16: invariants of the timing-correcting caption list (model/SccStash.v), by induction over the
   operations extend / correct_last_timing, and the facts about fix_last / the flash scan / five-frame joining. *)
From Coq Require Import List ZArith QArith Lia Bool ZifyBool Lqa.
From PV Require Import lib.Sx lib.Str lib.Result model.SccLen model.SccStash.
Import ListNotations.
Local Open Scope Q_scope.

(* ---- map_tail ---------------------------------------------------------------------------- *)
Lemma map_tail_length : forall A n (f : A -> A) l, length (map_tail n f l) = length l.
Proof.
  intros A n f l. unfold map_tail. rewrite app_length, map_length, firstn_length, skipn_length. lia.
Qed.

Lemma map_map_tail : forall A B (f : A -> B) (g : A -> A) n l,
  (forall x, f (g x) = f x) -> map f (map_tail n g l) = map f l.
Proof.
  intros A B f g n l H. unfold map_tail. rewrite map_app, map_map.
  rewrite (map_ext (fun x => f (g x)) f H). rewrite <- map_app, firstn_skipn. reflexivity.
Qed.

Lemma Forall_map_tail : forall A (P : A -> Prop) (f : A -> A) n l,
  (forall x, P x -> P (f x)) -> Forall P l -> Forall P (map_tail n f l).
Proof.
  intros A P f n l Hf H. unfold map_tail.
  rewrite <- (firstn_skipn (length l - n) l) in H at 1. apply Forall_app in H. destruct H as [H1 H2].
  apply Forall_app. split; [exact H1|].
  rewrite Forall_forall in *. intros x Hx. apply in_map_iff in Hx. destruct Hx as [y [<- Hy]].
  apply Hf. apply H2. exact Hy.
Qed.

Lemma skipn_snoc : forall A (l : list A) x, skipn (length (l ++ [x]) - 1) (l ++ [x]) = [x].
Proof.
  intros A l x. replace (length (l ++ [x]) - 1)%nat with (length l) by (rewrite app_length; simpl; lia).
  rewrite skipn_app, skipn_all, Nat.sub_diag. reflexivity.
Qed.

Lemma map_tail_1_snoc : forall A (f : A -> A) l x, map_tail 1 f (l ++ [x]) = l ++ [f x].
Proof.
  intros A f l x. unfold map_tail. rewrite skipn_snoc.
  replace (length (l ++ [x]) - 1)%nat with (length l) by (rewrite app_length; simpl; lia).
  rewrite firstn_app, firstn_all, Nat.sub_diag. simpl. rewrite app_nil_r. reflexivity.
Qed.

(* ---- extend / correct_last_timing never drop, reorder or retime the start or the nodes ----- *)
Lemma update_last_batch_map : forall B (f : precap -> B) s new,
  (forall e c, f (set_end e c) = f c) -> map f (update_last_batch s new) = map f (st_caps s).
Proof.
  intros B f s new H. unfold update_last_batch. destruct new as [|n0 new']; [reflexivity|].
  destruct (last _ _) as [b|]; [|reflexivity].
  destruct (_ || _); [|reflexivity].
  apply map_map_tail. intros x. apply H.
Qed.

Lemma stash_extend_map : forall B (f : precap -> B) s items,
  (forall e c, f (set_end e c) = f c) ->
  map f (st_caps (stash_extend s items)) = map f (st_caps s) ++ map f (filter has_nodes items).
Proof.
  intros B f s items H. unfold stash_extend. cbn [st_caps]. rewrite map_app, update_last_batch_map by exact H.
  reflexivity.
Qed.

Lemma correct_last_timing_map : forall B (f : precap -> B) s t,
  (forall e c, f (set_end e c) = f c) -> map f (st_caps (correct_last_timing s t)) = map f (st_caps s).
Proof.
  intros B f s t H. unfold correct_last_timing. cbn [st_caps]. apply map_map_tail. intros x. apply H.
Qed.

Lemma stash_extend_starts : forall s items,
  map pc_start (st_caps (stash_extend s items)) = map pc_start (st_caps s) ++ map pc_start (filter has_nodes items).
Proof. intros s items. apply stash_extend_map. reflexivity. Qed.

Lemma stash_extend_nodes : forall s items,
  map pc_nodes (st_caps (stash_extend s items)) = map pc_nodes (st_caps s) ++ map pc_nodes (filter has_nodes items).
Proof. intros s items. apply stash_extend_map. reflexivity. Qed.

Lemma correct_last_timing_starts : forall s t,
  map pc_start (st_caps (correct_last_timing s t)) = map pc_start (st_caps s).
Proof. intros s t. apply correct_last_timing_map. reflexivity. Qed.

Lemma correct_last_timing_nodes : forall s t,
  map pc_nodes (st_caps (correct_last_timing s t)) = map pc_nodes (st_caps s).
Proof. intros s t. apply correct_last_timing_map. reflexivity. Qed.

(* ---- the batch is always a tail of the list ----------------------------------------------- *)
Definition batch_ok (s : stash) : Prop := (st_batch s <= length (st_caps s))%nat.

Lemma stash_extend_batch_ok : forall s items, batch_ok (stash_extend s items).
Proof. intros s items. unfold batch_ok, stash_extend. cbn [st_caps st_batch]. rewrite app_length. lia. Qed.

Lemma correct_last_timing_batch_ok : forall s t, batch_ok s -> batch_ok (correct_last_timing s t).
Proof.
  intros s t H. unfold batch_ok, correct_last_timing in *. cbn [st_caps st_batch]. rewrite map_tail_length. exact H.
Qed.

(* ---- operation histories ------------------------------------------------------------------- *)
Inductive sop : Type := OExtend (items : list precap) | OCorrect (t : Q).
Definition sapply (s : stash) (o : sop) : stash :=
  match o with OExtend i => stash_extend s i | OCorrect t => correct_last_timing s t end.
Definition srun (ops : list sop) : stash := fold_left sapply ops stash0.

(* captions come out in the order in which they were stored, with the starts they were stored with *)
Fixpoint stored (ops : list sop) : list precap :=
  match ops with
  | [] => []
  | OExtend i :: r => filter has_nodes i ++ stored r
  | OCorrect _ :: r => stored r
  end.

Lemma sfold_map : forall B (f : precap -> B), (forall e c, f (set_end e c) = f c) ->
  forall ops s, map f (st_caps (fold_left sapply ops s)) = map f (st_caps s) ++ map f (stored ops).
Proof.
  intros B f H. induction ops as [|o ops IH]; intros s.
  - simpl. rewrite app_nil_r. reflexivity.
  - cbn [fold_left]. rewrite IH. destruct o as [items|t]; cbn [sapply stored].
    + rewrite stash_extend_map by exact H. rewrite map_app, app_assoc. reflexivity.
    + rewrite correct_last_timing_map by exact H. reflexivity.
Qed.

Theorem srun_order : forall ops,
  map pc_start (st_caps (srun ops)) = map pc_start (stored ops) /\
  map pc_nodes (st_caps (srun ops)) = map pc_nodes (stored ops).
Proof.
  intros ops. unfold srun. split.
  - rewrite (sfold_map Q pc_start) by reflexivity. reflexivity.
  - rewrite (sfold_map _ pc_nodes) by reflexivity. reflexivity.
Qed.

Lemma sfold_batch_ok : forall ops s, batch_ok s -> batch_ok (fold_left sapply ops s).
Proof.
  induction ops as [|o ops IH]; intros s H; [exact H|].
  cbn [fold_left]. apply IH. destruct o as [items|t]; cbn [sapply].
  - apply stash_extend_batch_ok.
  - apply correct_last_timing_batch_ok. exact H.
Qed.

Theorem srun_batch_ok : forall ops, batch_ok (srun ops).
Proof. intros ops. apply sfold_batch_ok. unfold batch_ok. simpl. lia. Qed.

(* ---- start <= end -------------------------------------------------------------------------- *)
Definition end_ok (c : precap) : Prop := (pc_end c == 0 \/ pc_start c <= pc_end c)%Q.

(* An operation history is "timed" relative to a running upper bound `hi` of all starts stored so far:
   - OExtend items: every stored caption c (the members of items that have nodes) has hi <= pc_start c and end_ok c on
     entry, all of them share one start (create_and_store gives every caption of one screen the same times), and the
     bound becomes that start (it stays hi when nothing is stored);
   - OCorrect t: hi <= t (the correction instant is not before any start stored so far).
   `timed ops` asks for this from some initial bound (the list is empty at the beginning, so any bound that is below
   the first stored start and the first correction instants will do).  It is a predicate on the operation list only. *)
Fixpoint timed_from (hi : Q) (ops : list sop) : Prop :=
  match ops with
  | [] => True
  | OExtend items :: r =>
      let new := filter has_nodes items in
      Forall (fun c => hi <= pc_start c /\ end_ok c) new /\
      (forall c d, In c new -> In d new -> pc_start c == pc_start d) /\
      timed_from (match new with [] => hi | c :: _ => pc_start c end) r
  | OCorrect t :: r => hi <= t /\ timed_from hi r
  end.
Definition timed (ops : list sop) : Prop := exists hi, timed_from hi ops.

(* the invariant carried along the history *)
Definition cap_inv (hi : Q) (c : precap) : Prop := end_ok c /\ pc_start c <= hi.

Lemma cap_inv_set_end : forall hi e c, hi <= e -> cap_inv hi c -> cap_inv hi (set_end e c).
Proof.
  intros hi e c He [_ Hs]. split; [|exact Hs]. right. cbn [set_end pc_start pc_end].
  eapply Qle_trans; eassumption.
Qed.

Lemma cap_inv_mono : forall hi hi' c, hi <= hi' -> cap_inv hi c -> cap_inv hi' c.
Proof. intros hi hi' c H [He Hs]. split; [exact He|]. eapply Qle_trans; eassumption. Qed.

Lemma update_last_batch_inv : forall hi s n0 new,
  hi <= pc_start n0 -> Forall (cap_inv hi) (st_caps s) -> Forall (cap_inv hi) (update_last_batch s (n0 :: new)).
Proof.
  intros hi s n0 new Hn H. unfold update_last_batch.
  destruct (last _ _) as [b|]; [|exact H].
  destruct (_ || _); [|exact H].
  apply Forall_map_tail; [|exact H]. intros x Hx. apply cap_inv_set_end; assumption.
Qed.

Lemma sfold_start_le_end : forall ops hi s,
  timed_from hi ops -> Forall (cap_inv hi) (st_caps s) ->
  exists hi', Forall (cap_inv hi') (st_caps (fold_left sapply ops s)).
Proof.
  induction ops as [|o ops IH]; intros hi s Ht Hs.
  - exists hi. exact Hs.
  - cbn [fold_left]. destruct o as [items|t]; cbn [timed_from sapply] in *.
    + destruct Ht as [Hnew [Hsame Hrest]]. unfold stash_extend.
      destruct (filter has_nodes items) as [|n0 new] eqn:E.
      * apply (IH hi); [exact Hrest|]. cbn [st_caps update_last_batch]. rewrite app_nil_r. exact Hs.
      * apply (IH (pc_start n0)); [exact Hrest|]. cbn [st_caps].
        assert (Hn0 : hi <= pc_start n0).
        { rewrite Forall_forall in Hnew. apply (Hnew n0). left. reflexivity. }
        apply Forall_app. split.
        -- eapply Forall_impl; [|apply update_last_batch_inv; eassumption].
           intros c Hc. eapply cap_inv_mono; eassumption.
        -- rewrite Forall_forall in *. intros c Hc. split; [apply (Hnew c Hc)|].
           assert (Heq : pc_start c == pc_start n0) by (apply Hsame; [exact Hc|left; reflexivity]).
           rewrite Heq. apply Qle_refl.
    + destruct Ht as [Hle Hrest]. apply (IH hi); [exact Hrest|].
      unfold correct_last_timing. cbn [st_caps]. apply Forall_map_tail; [|exact Hs].
      intros x Hx. apply cap_inv_set_end; assumption.
Qed.

Theorem srun_start_le_end : forall ops, timed ops -> Forall end_ok (st_caps (srun ops)).
Proof.
  intros ops [hi Ht]. unfold srun.
  destruct (sfold_start_le_end ops hi stash0 Ht) as [hi' H]; [constructor|].
  eapply Forall_impl; [|exact H]. intros c [Hc _]. exact Hc.
Qed.

(* ---- fix_last / flash ---------------------------------------------------------------------- *)
Definition four (c : precap) : precap := set_end (pc_start c + inject_Z 4000000) c.

Lemma fix_last_rev_map : forall B (f : precap -> B), (forall e c, f (set_end e c) = f c) ->
  forall l, map f (fix_last_rev l) = map f l.
Proof.
  intros B f H. induction l as [|c t IH]; [reflexivity|].
  cbn [fix_last_rev]. destruct (Qeq_bool (pc_end c) 0); [|reflexivity].
  cbn [map]. rewrite H, IH. reflexivity.
Qed.

Lemma fix_last_map : forall B (f : precap -> B), (forall e c, f (set_end e c) = f c) ->
  forall l, map f (fix_last l) = map f l.
Proof.
  intros B f H l. unfold fix_last. rewrite map_rev, fix_last_rev_map by exact H.
  rewrite <- map_rev, rev_involutive. reflexivity.
Qed.

Lemma fix_last_length : forall l, length (fix_last l) = length l.
Proof.
  intros l. rewrite <- (map_length pc_start (fix_last l)), (fix_last_map _ pc_start) by reflexivity.
  apply map_length.
Qed.

Lemma fix_last_starts : forall l, map pc_start (fix_last l) = map pc_start l.
Proof. apply fix_last_map. reflexivity. Qed.

Lemma fix_last_nodes : forall l, map pc_nodes (fix_last l) = map pc_nodes l.
Proof. apply fix_last_map. reflexivity. Qed.

Lemma last_some_snoc : forall A (l : list A) c, last (map Some l) None = Some c -> exists l', l = l' ++ [c].
Proof.
  intros A. induction l as [|a t IH]; intros c H; [discriminate|].
  destruct t as [|b t'].
  - simpl in H. inversion H. exists []. reflexivity.
  - change (last (map Some (b :: t')) None = Some c) in H. destruct (IH c H) as [l' E].
    exists (a :: l'). rewrite E. reflexivity.
Qed.

Lemma fix_last_rev_app : forall a b,
  (forall c, In c a -> Qeq_bool (pc_end c) 0 = true) ->
  (b = [] \/ exists c t, b = c :: t /\ Qeq_bool (pc_end c) 0 = false) ->
  fix_last_rev (a ++ b) = map four a ++ b.
Proof.
  induction a as [|x a IH]; intros b Ha Hb.
  - cbn [app map]. destruct Hb as [->|[c [t [-> Hc]]]]; [reflexivity|].
    cbn [fix_last_rev]. rewrite Hc. reflexivity.
  - cbn [app map fix_last_rev]. rewrite (Ha x) by (left; reflexivity).
    rewrite IH; [reflexivity| |exact Hb]. intros c Hc. apply Ha. right. exact Hc.
Qed.

Lemma fix_last_spec : forall l1 l2, (forall c, In c l2 -> Qeq_bool (pc_end c) 0 = true) ->
   (l1 = [] \/ exists c, last (map Some l1) None = Some c /\ Qeq_bool (pc_end c) 0 = false) ->
   fix_last (l1 ++ l2) = l1 ++ map (fun c => set_end (pc_start c + inject_Z 4000000) c) l2.
Proof.
  intros l1 l2 H2 H1. unfold fix_last. rewrite rev_app_distr. rewrite fix_last_rev_app.
  - rewrite rev_app_distr, rev_involutive, <- map_rev, rev_involutive. reflexivity.
  - intros c Hc. apply H2. apply in_rev. exact Hc.
  - destruct H1 as [->|[c [Hl Hc]]]; [left; reflexivity|right].
    apply last_some_snoc in Hl. destruct Hl as [l' ->]. exists c, (rev l'). split; [|exact Hc].
    rewrite rev_app_distr. reflexivity.
Qed.

Lemma last_some_in : forall A (l : list A) c, last (map Some l) None = Some c -> In c l.
Proof. intros A l c H. apply last_some_snoc in H. destruct H as [l' ->]. apply in_or_app. right. left. reflexivity. Qed.

(* convenient variant: every caption of l1 has ended *)
Lemma fix_last_spec_all : forall l1 l2, (forall c, In c l2 -> Qeq_bool (pc_end c) 0 = true) ->
   (forall c, In c l1 -> Qeq_bool (pc_end c) 0 = false) ->
   fix_last (l1 ++ l2) = l1 ++ map (fun c => set_end (pc_start c + inject_Z 4000000) c) l2.
Proof.
  intros l1 l2 H2 H1. apply fix_last_spec; [exact H2|].
  destruct l1 as [|a t]; [left; reflexivity|right].
  destruct (last (map Some (a :: t)) None) as [c|] eqn:E.
  - exists c. split; [reflexivity|]. apply H1. apply last_some_in. exact E.
  - exfalso. clear H1. revert a E. induction t as [|b t IH]; intros a E; [discriminate|].
    apply (IH b). exact E.
Qed.

Lemma fix_last_ended : forall l, (forall c, In c l -> Qeq_bool (pc_end c) 0 = false) -> fix_last l = l.
Proof.
  intros l H. rewrite <- (app_nil_r l) at 1. rewrite fix_last_spec_all; [apply app_nil_r| |exact H].
  intros c [].
Qed.

Theorem last_four_seconds : forall l c, Qeq_bool (pc_end c) 0 = true ->
   exists l', fix_last (l ++ [c]) = l' ++ [set_end (pc_start c + inject_Z 4000000) c] /\ length l' = length l.
Proof.
  intros l c H. exists (fix_last l). split; [|apply fix_last_length].
  unfold fix_last. rewrite rev_app_distr. cbn [rev app fix_last_rev]. rewrite H. reflexivity.
Qed.

Lemma four_s_not_short : forall s : Q, Qle_bool (inject_Z 50000) (s + inject_Z 4000000 - s) = true.
Proof.
  intros s. apply Qle_bool_iff. change (inject_Z 50000) with (50000 # 1). change (inject_Z 4000000) with (4000000 # 1). lra.
Qed.

Lemma four_not_flash : forall c, is_flash (four c) = false.
Proof.
  intros c. unfold is_flash, four. cbn [set_end pc_start pc_end]. rewrite four_s_not_short. apply andb_false_r.
Qed.

Lemma fix_last_rev_no_flash : forall l, (forall c, In c l -> is_flash c = false) ->
  forall c, In c (fix_last_rev l) -> is_flash c = false.
Proof.
  induction l as [|x t IH]; intros H c Hc; [destruct Hc|].
  cbn [fix_last_rev] in Hc. destruct (Qeq_bool (pc_end x) 0).
  - destruct Hc as [<-|Hc]; [apply four_not_flash|].
    apply IH; [|exact Hc]. intros d Hd. apply H. right. exact Hd.
  - apply H. exact Hc.
Qed.

Lemma fix_last_no_flash : forall l, existsb is_flash l = false -> forall c, In c (fix_last l) -> is_flash c = false.
Proof.
  intros l H c Hc. unfold fix_last in Hc. apply in_rev in Hc.
  apply (fix_last_rev_no_flash (rev l)); [|exact Hc].
  intros d Hd. apply in_rev in Hd.
  destruct (is_flash d) eqn:E; [|reflexivity].
  assert (existsb is_flash l = true) by (apply existsb_exists; exists d; split; assumption). congruence.
Qed.

Theorem flash_rejected : forall s caps, finish_read s = ROk caps ->
   caps = fix_last (st_caps s) /\ forall c, In c caps -> is_flash c = false.
Proof.
  intros s caps H. unfold finish_read in H.
  destruct (length_check _); [discriminate|].
  destruct (existsb is_flash (st_caps s)) eqn:E; [discriminate|].
  destruct (st_caps s) as [|c0 t] eqn:Ec; [discriminate|].
  inversion H. subst caps. split; [reflexivity|]. apply fix_last_no_flash. exact E.
Qed.

(* ---- five-frame joining, single new caption ------------------------------------------------- *)
Theorem five_frame_join : forall s c b, has_nodes c = true -> batch_ok s ->
  last (map Some (skipn (length (st_caps s) - st_batch s) (st_caps s))) None = Some b ->
  st_caps (stash_extend s [c]) =
    (if Qeq_bool (pc_end b) 0 || negb (Qle_bool join_threshold (pc_start c - pc_end b))
     then map_tail (st_batch s) (set_end (pc_start c)) (st_caps s) else st_caps s) ++ [c]
  /\ st_batch (stash_extend s [c]) = 1%nat.
Proof.
  intros s c b Hc _ Hb. unfold stash_extend. cbn [filter]. rewrite Hc. cbn [st_caps st_batch length].
  split; [|reflexivity]. unfold update_last_batch. rewrite Hb. reflexivity.
Qed.
