From Coq Require Import List ZArith Bool Lia ZifyBool.
From PV Require Import lib.Sx lib.Str lib.Result model.Generated model.Detect spec.SpecDetect.
Import ListNotations.
Open Scope Z_scope.

Lemma splitlines_aux_nonempty : forall s cur started,
  (s <> [] \/ started = true) -> splitlines_aux s cur started <> [].
Proof.
  induction s as [|c t IH]; intros cur started H.
  - destruct H as [H|H]; [congruence|]. subst. simpl. discriminate.
  - cbn [splitlines_aux]. destruct (is_linebreak c).
    + discriminate.
    + apply IH. right. reflexivity.
Qed.

Lemma splitlines_nonempty : forall s, s <> [] -> splitlines s <> [].
Proof. intros s H. apply splitlines_aux_nonempty. left. exact H. Qed.

Lemma detect_of_no_crash : forall s r, s <> [] -> In r documented_order -> is_crash (detect_of r s) = false.
Proof.
  intros s r Hs Hr.
  pose proof (splitlines_nonempty s Hs) as Hl.
  simpl in Hr.
  destruct Hr as [<-|[<-|[<-|[<-|[<-|[<-|[]]]]]]]; cbn [detect_of]; try reflexivity.
  - unfold detect_srt. destruct (splitlines s) as [|l0 rest]; [congruence|].
    destruct (u_isdigit l0); [|reflexivity]. destruct rest; reflexivity.
  - unfold detect_scc. destruct (splitlines s) as [|l0 rest]; [congruence|]. reflexivity.
Qed.

Lemma detect_of_ok : forall s r, s <> [] -> In r documented_order -> exists b, detect_of r s = Ok b.
Proof.
  intros s r Hs Hr.
  pose proof (splitlines_nonempty s Hs) as Hl.
  simpl in Hr.
  destruct Hr as [<-|[<-|[<-|[<-|[<-|[<-|[]]]]]]]; cbn [detect_of]; try (eexists; reflexivity).
  - unfold detect_srt. destruct (splitlines s) as [|l0 rest]; [congruence|].
    destruct (u_isdigit l0); [|eexists; reflexivity]. destruct rest; eexists; reflexivity.
  - unfold detect_scc. destruct (splitlines s) as [|l0 rest]; [congruence|]. eexists; reflexivity.
Qed.

(* the generated SUPPORTED_READERS tuple is the documented order *)
Lemma generated_order_documented : supported_readers = documented_order.
Proof. reflexivity. Qed.

Lemma first_match_spec : forall ids s,
  (forall r, In r ids -> exists b, detect_of r s = Ok b) ->
  first_match ids s = Ok (first_accepting ids (map (fun r => detect_of r s) ids)).
Proof.
  induction ids as [|r t IH]; intros s H; [reflexivity|].
  cbn [first_match map first_accepting].
  destruct (H r (or_introl eq_refl)) as [b Hb]. rewrite Hb. cbn [bind].
  destruct b; [reflexivity|]. apply IH. intros r' Hr'. apply H. right. exact Hr'.
Qed.

Lemma detect_format_first_match : forall s, s <> [] ->
  detect_format s = Ok (first_accepting documented_order (map (fun r => detect_of r s) documented_order)).
Proof.
  intros s Hs. unfold detect_format. destruct s as [|c t]; [congruence|].
  rewrite generated_order_documented. apply first_match_spec.
  intros r Hr. apply detect_of_ok; assumption.
Qed.

Lemma opt_z_eqb_refl : forall o, opt_z_eqb o o = true.
Proof. destruct o; simpl; [apply Z.eqb_refl|reflexivity]. Qed.

(* the model satisfies the specification oracle on every string *)
Lemma model_ok_detect : forall s,
  ok_detect (match s with [] => false | _ => true end)
            (map (fun r => detect_of r s) documented_order) (detect_format s) = true.
Proof.
  intros s. destruct s as [|c t] eqn:E; [reflexivity|].
  assert (Hs : s <> []) by (subst; discriminate). rewrite <- E.
  unfold ok_detect. rewrite detect_format_first_match by exact Hs.
  rewrite opt_z_eqb_refl. reflexivity.
Qed.

(* every sniffer of the model is total on non-empty strings (the stronger reading) *)
Lemma model_sniffers_total : forall s, s <> [] ->
  all_sniffers_total (map (fun r => detect_of r s) documented_order) = true.
Proof.
  intros s Hs. unfold all_sniffers_total.
  apply forallb_forall. intros x Hx. apply in_map_iff in Hx. destruct Hx as [r [<- Hr]].
  destruct (detect_of_ok s r Hs Hr) as [b ->]. reflexivity.
Qed.

Lemma empty_raises_no_captions : detect_format [] = Err ENoCaptions.
Proof. reflexivity. Qed.

(* the pinned sniffer did crash: detect("1") *)
Lemma srt_detect_index_refuted : exists s, s <> [] /\ is_crash (detect_srt_prefix s) = true.
Proof. exists [49]. split; [discriminate|reflexivity]. Qed.

(* the sniffing constants read from the working tree are the documented ones *)
Lemma generated_constants_documented :
  dfxp_marker = lit "</tt>" /\ vtt_marker = lit "WEBVTT" /\ sami_marker = lit "<sami" /\ srt_arrow = lit "-->" /\
  mdvd_pattern = lit "{\d+}{\d+}" /\ scc_header = lit "Scenarist_SCC V1.0".
Proof. repeat split; reflexivity. Qed.
