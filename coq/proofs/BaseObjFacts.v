(* C19, object level: the repaired adjust_caption_timing loop on a heap of Caption objects equals the value model
   for EVERY alias structure (an object listed under several languages, or several times in one list). *)
From Coq Require Import List ZArith QArith Bool Arith Lia.
From PV Require Import lib.Sx lib.Result model.Base model.BaseObj spec.SpecBase proofs.BaseFacts.
Import ListNotations.

Lemma upd_length : forall h k c, length (upd h k c) = length h.
Proof. induction h as [|x t IH]; intros k c; [reflexivity|]. destruct k; cbn; [reflexivity|]. rewrite IH. reflexivity. Qed.

Lemma deref_upd_same : forall h k c, (k < length h)%nat -> deref (upd h k c) k = c.
Proof.
  unfold deref. induction h as [|x t IH]; intros k c H; [cbn in H; lia|].
  destruct k; cbn; [reflexivity|]. apply IH. cbn in H. lia.
Qed.

Lemma deref_upd_other : forall h k j c, j <> k -> deref (upd h k c) j = deref h j.
Proof.
  unfold deref. induction h as [|x t IH]; intros k j c H; [reflexivity|].
  destruct k, j; cbn; try reflexivity; try congruence. apply IH. congruence.
Qed.

Lemma mem_nat_cons : forall j k l, mem_nat j (k :: l) = Nat.eqb j k || mem_nat j l.
Proof. reflexivity. Qed.

Section Adjust.
Variables (skew off : Q) (h0 : heap).

Definition inv (h : heap) (adj : list nat) : Prop :=
  length h = length h0 /\
  forall j, deref h j = if mem_nat j adj then retime skew off (deref h0 j) else deref h0 j.

Definition keep (k : nat) : bool := Qle_bool 0 (c_start (retime skew off (deref h0 k))).

Lemma step_spec : forall h adj out k, inv h adj -> (k < length h0)%nat ->
  exists h' adj',
    adjust_obj_step true skew off (h, adj, out) k = (h', adj', out ++ (if keep k then [k] else [])) /\
    inv h' adj' /\ mem_nat k adj' = true /\ (forall j, mem_nat j adj = true -> mem_nat j adj' = true).
Proof.
  intros h adj out k [Hlen Hd] Hk. unfold adjust_obj_step. cbn [andb].
  destruct (mem_nat k adj) eqn:Em.
  - exists h, adj. pose proof (Hd k) as Hk'. rewrite Em in Hk'. rewrite Hk'. fold (keep k).
    split; [destruct (keep k); [reflexivity|rewrite app_nil_r; reflexivity]|].
    split; [split; assumption|]. split; [exact Em|auto].
  - exists (upd h k (retime skew off (deref h k))), (k :: adj).
    rewrite deref_upd_same by lia.
    pose proof (Hd k) as Hk'. rewrite Em in Hk'. rewrite Hk'. fold (keep k).
    split; [destruct (keep k); [reflexivity|rewrite app_nil_r; reflexivity]|].
    split.
    + split; [rewrite upd_length; exact Hlen|].
      intros j. rewrite mem_nat_cons. destruct (Nat.eqb j k) eqn:Ej.
      * apply Nat.eqb_eq in Ej. subst j. cbn [orb]. apply deref_upd_same. lia.
      * cbn [orb]. apply Nat.eqb_neq in Ej. rewrite deref_upd_other by exact Ej. apply Hd.
    + split; [rewrite mem_nat_cons, Nat.eqb_refl; reflexivity|].
      intros j Hj. rewrite mem_nat_cons, Hj. apply orb_true_r.
Qed.

Lemma fold_spec : forall ids h adj out, inv h adj -> (forall k, In k ids -> (k < length h0)%nat) ->
  exists h' adj',
    fold_left (adjust_obj_step true skew off) ids (h, adj, out) = (h', adj', out ++ filter keep ids) /\
    inv h' adj' /\ (forall k, In k ids -> mem_nat k adj' = true) /\
    (forall j, mem_nat j adj = true -> mem_nat j adj' = true).
Proof.
  induction ids as [|k t IH]; intros h adj out Hinv Hids.
  - exists h, adj. cbn. rewrite app_nil_r. split; [reflexivity|]. split; [exact Hinv|].
    split; [intros k []|auto].
  - destruct (step_spec h adj out k Hinv (Hids k (or_introl eq_refl))) as [h1 [adj1 [E1 [I1 [M1 S1]]]]].
    destruct (IH h1 adj1 (out ++ (if keep k then [k] else [])) I1 (fun j Hj => Hids j (or_intror Hj)))
      as [h2 [adj2 [E2 [I2 [M2 S2]]]]].
    exists h2, adj2. cbn [fold_left filter]. rewrite E1, E2.
    split; [destruct (keep k); rewrite <- app_assoc; reflexivity|].
    split; [exact I2|]. split.
    + intros j [<-|Hj]; [apply S2; exact M1|apply M2; exact Hj].
    + intros j Hj. apply S2, S1, Hj.
Qed.

Lemma langs_spec : forall langs h adj, inv h adj ->
  (forall ids k, In ids langs -> In k ids -> (k < length h0)%nat) ->
  exists h' adj',
    adjust_obj_langs true skew off (h, adj) langs = ((h', adj'), map (filter keep) langs) /\
    inv h' adj' /\ (forall ids k, In ids langs -> In k ids -> mem_nat k adj' = true) /\
    (forall j, mem_nat j adj = true -> mem_nat j adj' = true).
Proof.
  induction langs as [|ids t IH]; intros h adj Hinv Hr.
  - exists h, adj. cbn. split; [reflexivity|]. split; [exact Hinv|]. split; [intros ids k []|auto].
  - destruct (fold_spec ids h adj [] Hinv (fun k Hk => Hr ids k (or_introl eq_refl) Hk))
      as [h1 [adj1 [E1 [I1 [M1 S1]]]]].
    destruct (IH h1 adj1 I1 (fun i k Hi Hk => Hr i k (or_intror Hi) Hk)) as [h2 [adj2 [E2 [I2 [M2 S2]]]]].
    exists h2, adj2. cbn [adjust_obj_langs map]. unfold adjust_obj_lang. cbn [fst snd].
    rewrite E1. cbn [app]. rewrite E2.
    split; [reflexivity|]. split; [exact I2|]. split.
    + intros i k [<-|Hi] Hk; [apply S2, M1, Hk|apply (M2 i k Hi Hk)].
    + intros j Hj. apply S2, S1, Hj.
Qed.

Lemma filter_map_comm : forall A B (f : A -> B) (P : B -> bool) l,
  filter P (map f l) = map f (filter (fun x => P (f x)) l).
Proof.
  intros A B f P. induction l as [|x t IH]; [reflexivity|]. cbn. destruct (P (f x)); cbn; rewrite IH; reflexivity.
Qed.

Theorem adjust_objs_value : forall langs,
  (forall ids k, In ids langs -> In k ids -> (k < length h0)%nat) ->
  adjust_objs skew off h0 langs = adjust skew off (map (map (deref h0)) langs).
Proof.
  intros langs Hr. unfold adjust_objs, adjust_objs_gen.
  assert (Hinv0 : inv h0 []) by (split; [reflexivity|intros j; reflexivity]).
  destruct (langs_spec langs h0 [] Hinv0 Hr) as [h' [adj' [E [[_ Hd] [M _]]]]].
  rewrite E. unfold adjust. rewrite !map_map.
  apply map_ext_in. intros ids Hids.
  rewrite adjust_lang_filter_map, map_map.
  rewrite (filter_map_comm _ _ (fun k => retime skew off (deref h0 k)) (fun c => Qle_bool 0 (c_start c)) ids).
  apply map_ext_in. intros k Hk. apply filter_In in Hk. destruct Hk as [Hk _].
  rewrite Hd, (M ids k Hids Hk). reflexivity.
Qed.
End Adjust.

Lemma refs_ok_spec : forall h langs, refs_ok h langs = true ->
  forall ids k, In ids langs -> In k ids -> (k < length h)%nat.
Proof.
  intros h langs H ids k Hi Hk. unfold refs_ok in H. rewrite forallb_forall in H.
  specialize (H ids Hi). rewrite forallb_forall in H. specialize (H k Hk). apply Nat.ltb_lt. exact H.
Qed.

(* the object-level loop meets the property oracle on the values an observer sees, for every alias structure *)
Theorem adjust_objs_ok : forall skew off h langs, refs_ok h langs = true ->
  ok_adjust skew off (map (map (deref h)) langs) (adjust_objs skew off h langs) = true.
Proof.
  intros skew off h langs H. rewrite (adjust_objs_value skew off h langs (refs_ok_spec h langs H)).
  apply adjust_ok.
Qed.

(* wave 7: the heap after adjust_caption_timing.  Whatever the alias structure (one Caption object listed under several
   languages, or several times in one list), every listed OBJECT holds its initial times retimed exactly once, and
   every language's new list (set_captions) holds, in order, the references whose retimed start is not negative. *)
Theorem adjust_objs_heap : forall skew off h0 langs,
  (forall ids k, In ids langs -> In k ids -> (k < length h0)%nat) ->
  exists h' adj',
    adjust_obj_langs true skew off (h0, []) langs = ((h', adj'), map (filter (keep skew off h0)) langs) /\
    length h' = length h0 /\
    forall ids k, In ids langs -> In k ids -> deref h' k = retime skew off (deref h0 k).
Proof.
  intros skew off h0 langs Hr.
  assert (Hinv0 : inv skew off h0 h0 []) by (split; [reflexivity|intros j; reflexivity]).
  destruct (langs_spec skew off h0 langs h0 [] Hinv0 Hr) as [h' [adj' [E [[Hl Hd] [M _]]]]].
  exists h', adj'. split; [exact E|]. split; [exact Hl|].
  intros ids k Hi Hk. rewrite Hd, (M ids k Hi Hk). reflexivity.
Qed.
