(* C06, audit responses: the oracle on the floored witness, the 1001/1000 relation for every offset (before flooring),
   output-level order and start <= end for what `read` returns, and the composition of the pop-on refinement
   (popon_times) with get_time_exact and the threshold lemmas: on rendered well-formed timecodes of one rate the spans
   read are the statement's own spans (threshold "five frames + 1 us") of the statement's own instants. *)
From Coq Require Import List ZArith QArith Qabs Lia Bool ZifyBool Lqa.
From PV Require Import lib.Sx lib.Str lib.Result model.GenScc model.SccLen model.SccTime model.SccStash model.SccDecoder
                       model.SccPopon spec.Spec608 spec.SpecScc05 spec.SpecSccTime spec.SpecSccTime2
                       proofs.SccTimeFacts proofs.SccPoponFacts proofs.SccPoponStage6 proofs.SccPoponStage8
                       proofs.SccPoponStage9.
Import ListNotations.
Local Open Scope Q_scope.

(* ================================================================================================== *)
(* 1. the oracle on the fully floored witness of the known defect (end 0 = "not ended" sentinel)      *)

Example ok_on_floored_witness :
  ok_c06_gap [Show 0; Clear 0; Show 0; Clear 0] (Ok [(0, 0); (0, 0)]) = true /\
  ok_c06_gap [Show 0; Clear 0; Show 0; Clear 0] (Ok [(0, 0)]) = true /\
  ok_c06_gap [Show 0; Clear 0; Show 0; Clear 0] (Ok [(0, inject_Z 4000000); (0, inject_Z 4000000)]) = false.
Proof. repeat split; vm_compute; reflexivity. Qed.

(* ================================================================================================== *)
(* 2. non-drop = 1001/1000 x drop for every offset, before flooring                                   *)

Lemma floor0_compat : forall a b, a == b -> floor0 a == floor0 b.
Proof.
  intros a b H. unfold floor0.
  destruct (Qle_bool 0 a) eqn:Ea; destruct (Qle_bool 0 b) eqn:Eb; try assumption; try reflexivity.
  - apply Qle_bool_iff in Ea. rewrite H in Ea. apply Qle_bool_iff in Ea. congruence.
  - apply Qle_bool_iff in Eb. rewrite <- H in Eb. apply Qle_bool_iff in Eb. congruence.
Qed.

Definition raw_us (h m s ff : Z) (drop : bool) : Q :=
  (inject_Z (h * 3600 + m * 60 + s) + inject_Z ff / inject_Z 30) * rate drop * us_per_s.

Theorem time_formula_raw : forall h m s ff drop off,
  (time_formula h m s ff drop off == floor0 (raw_us h m s ff drop - off))%Q.
Proof. intros. unfold time_formula, raw_us. apply floor0_compat. apply Qred_correct. Qed.

Theorem ndf_raw_is_1001_1000_of_df : forall h m s ff,
  (raw_us h m s ff false == raw_us h m s ff true * (1001 # 1000))%Q.
Proof. intros. unfold raw_us, rate. ring. Qed.

(* ================================================================================================== *)
(* 3. order and start <= end, at the level of the statement's spans and of what `read` returns       *)

Fixpoint nondecreasing (t : Q) (evs : list ev) : Prop :=
  match evs with [] => True | e :: r => (t <= ev_time e)%Q /\ nondecreasing (ev_time e) r end.

(* raw spans: starts >= lo; an explicit end is >= its start and <= every later start *)
Fixpoint le_raw (lo : Q) (l : list (Q * option Q)) : Prop :=
  match l with
  | [] => True
  | (s, oe) :: t => lo <= s /\ match oe with Some e => s <= e /\ le_raw e t | None => le_raw s t end
  end.

(* closed spans: start <= end, starts never decrease *)
Fixpoint le_spans (lo : Q) (l : list (Q * Q)) : Prop :=
  match l with
  | [] => True
  | (s, e) :: t => lo <= s /\ s <= e /\ le_spans s t
  end.

Lemma le_raw_weaken : forall l lo lo', lo' <= lo -> le_raw lo l -> le_raw lo' l.
Proof.
  intros [|[s oe] t] lo lo' H G; [exact I|]. cbn [le_raw] in *. destruct G as [G1 G2]. split; [lra|exact G2].
Qed.

Lemma le_spans_weaken : forall l lo lo', lo' <= lo -> le_spans lo l -> le_spans lo' l.
Proof.
  intros [|[s e] t] lo lo' H G; [exact I|]. cbn [le_spans] in *. destruct G as (G1 & G2 & G3). repeat split; [lra|lra|exact G3].
Qed.

Lemma raw_le : forall evs shown t lo, nondecreasing t evs ->
  match shown with Some s => lo <= s /\ s <= t | None => lo <= t end ->
  le_raw lo (raw_spans evs shown).
Proof.
  induction evs as [|e evs IH]; intros shown t lo Hn Hs.
  - destruct shown as [s|]; cbn [raw_spans le_raw]; [|exact I]. destruct Hs. split; [assumption|exact I].
  - cbn [nondecreasing] in Hn. destruct Hn as [Ht Hn]. destruct e as [u|u]; cbn [ev_time raw_spans] in *.
    + destruct shown as [s|].
      * destruct Hs as [H1 H2]. cbn [app le_raw]. split; [exact H1|]. split; [lra|].
        apply (IH (Some u) u u Hn). split; lra.
      * cbn [app]. apply (IH (Some u) u lo Hn). split; lra.
    + destruct shown as [s|].
      * destruct Hs as [H1 H2]. cbn [app le_raw]. split; [exact H1|]. split; [lra|].
        apply (IH None u u Hn). lra.
      * cbn [app]. apply (IH None u lo Hn). lra.
Qed.

Lemma four_s_nonneg : forall s : Q, s <= s + four_s.
Proof. intros s. unfold four_s. change (inject_Z 4000000) with (4000000 # 1)%Q. lra. Qed.

(* whatever the threshold: the end is the explicit end e or the next start s', and s <= e <= s' *)
Lemma close_le : forall thr r lo, le_raw lo r -> le_spans lo (close_gaps thr r).
Proof.
  intros thr. induction r as [|[s oe] r IH]; intros lo H; [exact I|].
  cbn [le_raw] in H. destruct H as [Hlo H]. cbn [close_gaps le_spans]. split; [exact Hlo|].
  destruct oe as [e|].
  - destruct H as [He Hr]. split.
    + destruct r as [|[s' oe'] r']; [exact He|]. destruct (Qle_bool thr (s' - e)); [exact He|].
      cbn [le_raw] in Hr. destruct Hr as [Hr _]. lra.
    + apply IH. apply (le_raw_weaken r e s He Hr).
  - split; [apply four_s_nonneg|]. apply IH. exact H.
Qed.

Lemma le_spans_facts : forall l lo, le_spans lo l ->
  Forall (fun p => fst p <= snd p) l /\
  (forall i a b, nth_error l i = Some a -> nth_error l (S i) = Some b -> fst a <= fst b).
Proof.
  induction l as [|[s e] t IH]; intros lo H.
  - split; [constructor|]. intros [|i] a b Ha; discriminate.
  - cbn [le_spans] in H. destruct H as (H1 & H2 & H3). destruct (IH s H3) as [F N]. split.
    + constructor; [exact H2|exact F].
    + intros [|i] a b Ha Hb.
      * cbn in Ha. inversion Ha; subst a. destruct t as [|[s' e'] t']; [discriminate|]. cbn in Hb. inversion Hb; subst b.
        cbn [le_spans] in H3. cbn [fst]. apply H3.
      * cbn in Ha, Hb. exact (N i a b Ha Hb).
Qed.

Lemma expected_le_spans : forall thr evs l, nondecreasing 0 evs -> expected_with thr evs = Ok l -> le_spans 0 l.
Proof.
  intros thr evs l Hn H. unfold expected_with in H. cbv zeta in H.
  destruct (existsb flash _); [discriminate|].
  assert (W : le_spans 0 (close_gaps thr (raw_spans evs None))).
  { apply close_le. apply (raw_le evs None 0 0 Hn). lra. }
  destruct (close_gaps thr (raw_spans evs None)); [discriminate|]. inversion H. subst l. exact W.
Qed.

(* the hypothesis 0 <= thr is not used: start <= end and the order of starts hold for every threshold *)
Theorem expected_start_le_end : forall thr evs l, (0 <= thr)%Q -> nondecreasing 0 evs -> expected_with thr evs = Ok l ->
  Forall (fun p => (fst p <= snd p)%Q) l /\
  (forall i a b, nth_error l i = Some a -> nth_error l (S i) = Some b -> (fst a <= fst b)%Q).
Proof. intros thr evs l _ Hn H. exact (le_spans_facts l 0 (expected_le_spans thr evs l Hn H)). Qed.

Lemma join_threshold_pos : 0 < join_threshold.
Proof. rewrite join_threshold_value. unfold jt_value, Qlt. simpl. lia. Qed.

(* each span repeated once per caption of its load *)
Lemma le_spans_repeat : forall n p rest lo, lo <= fst p -> fst p <= snd p -> le_spans (fst p) rest ->
  le_spans lo (repeat p n ++ rest).
Proof.
  induction n as [|n IH]; intros [s e] rest lo H1 H2 H3; cbn [fst snd] in *.
  - cbn [repeat app]. apply (le_spans_weaken rest s lo H1 H3).
  - cbn [repeat app le_spans]. repeat split; [exact H1|exact H2|]. apply IH; cbn [fst snd]; [lra|exact H2|exact H3].
Qed.

Lemma le_spans_batches : forall l lds lo, le_spans lo l -> le_spans lo (flat_map bspans (combine lds l)).
Proof.
  induction l as [|[s e] l IH]; intros lds lo H.
  - destruct lds; exact I.
  - destruct lds as [|ld lds]; [exact I|]. cbn [combine flat_map]. unfold bspans at 1. cbn [fst snd].
    cbn [le_spans] in H. destruct H as (H1 & H2 & H3).
    apply le_spans_repeat; cbn [fst snd]; [exact H1|exact H2|]. apply IH. exact H3.
Qed.

Theorem read_start_le_end : forall d off segs evs caps,
  forallb pseg_ok8 segs = true -> res_map (pseg_event d off) segs = Ok evs -> positive evs -> nondecreasing 0 evs ->
  read off (map (pseg_line d) segs) = ROk caps ->
  Forall (fun c => (pc_start c <= pc_end c)%Q) caps /\
  (forall i a b, nth_error caps i = Some a -> nth_error caps (S i) = Some b -> (pc_start a <= pc_start b)%Q).
Proof.
  intros d off segs evs caps Hok He Hp Hn Hr.
  pose proof (popon_times d off segs evs Hok He Hp) as T. rewrite Hr in T. cbn [spans_of] in T.
  destruct (expected_with join_threshold evs) as [l|e] eqn:E; [|discriminate]. cbn [rmap] in T. inversion T as [T'].
  pose proof (expected_le_spans _ _ _ Hn E) as L.
  pose proof (le_spans_batches l (ploads_of segs) 0 L) as L'. rewrite <- T' in L'.
  destruct (le_spans_facts _ _ L') as [F N]. split.
  - rewrite Forall_map in F. exact F.
  - intros i a b Ha Hb.
    apply (N i (pc_start a, pc_end a) (pc_start b, pc_end b)); rewrite nth_error_map; [rewrite Ha|rewrite Hb]; reflexivity.
Qed.

(* ================================================================================================== *)
(* 4. composition with get_time_exact and the threshold lemmas                                        *)

(* ---- 4a. on rendered well-formed timecodes the events are the statement's instants ---------------- *)
Inductive tseg : Type := TLoad (tc : timecode) (l : load) | TClear (tc : timecode).
Definition tseg_pseg (s : tseg) : pseg :=
  match s with TLoad tc l => PLoad (render_tc tc) l | TClear tc => PClear (render_tc tc) end.
Definition tseg_spec_event (d : bool) (off : Q) (s : tseg) : ev :=
  match s with
  | TLoad tc l => Show (spec_instant tc (Z.of_nat (length (emit_load d l)) - (if d then 2 else 1)) off)
  | TClear tc => Clear (spec_instant tc 0 off)
  end.
Definition tseg_wf (s : tseg) : bool :=
  match s with TLoad tc l => tc_wf tc && load_wf l | TClear tc => tc_wf tc end.
Definition ev_eq (a b : ev) : Prop :=
  match a, b with Show x, Show y => (x == y)%Q | Clear x, Clear y => (x == y)%Q | _, _ => False end.

Lemma emit_load_words : forall d l, (0 <= Z.of_nat (length (emit_load d l)) - (if d then 2 else 1))%Z.
Proof. intros d l. unfold emit_load. rewrite !app_length. destruct d; cbn [ctl length]; lia. Qed.

Theorem events_are_spec_instants : forall d off segs, forallb tseg_wf segs = true ->
  exists evs, res_map (pseg_event d off) (map tseg_pseg segs) = Ok evs /\
              Forall2 ev_eq evs (map (tseg_spec_event d off) segs).
Proof.
  intros d off. induction segs as [|s segs IH]; intro H.
  - exists []. split; [reflexivity|constructor].
  - cbn [forallb] in H. apply andb_prop in H. destruct H as [Hs H]. destruct (IH H) as (evs & E & F).
    destruct s as [tc l|tc]; cbn [tseg_wf] in Hs.
    + apply andb_prop in Hs. destruct Hs as [Htc _].
      destruct (get_time_exact tc _ off Htc (emit_load_words d l)) as (t & Et & Ht).
      exists (Show t :: evs). split.
      * cbn [map res_map tseg_pseg pseg_event]. rewrite Et. cbn [bind]. rewrite E. reflexivity.
      * cbn [map tseg_spec_event]. constructor; [exact Ht|exact F].
    + destruct (get_time_exact tc 0 off Hs (Z.le_refl 0)) as (t & Et & Ht).
      exists (Clear t :: evs). split.
      * cbn [map res_map tseg_pseg pseg_event]. rewrite Et. cbn [bind]. rewrite E. reflexivity.
      * cbn [map tseg_spec_event]. constructor; [exact Ht|exact F].
Qed.

(* ---- 4b. on whole-frame gaps the code's threshold decides like the statement's "five frames + 1 us" ---- *)
Definition frame_gap (drop : bool) (a b : Q) : Prop :=
  exists n : Z, (b - a == inject_Z n * ((inject_Z 1000000 / inject_Z 30) * rate drop))%Q.

Lemma thr_hi_slack : forall (n : Z) (drop : bool),
  let gap := (inject_Z n * ((inject_Z 1000000 / inject_Z 30) * rate drop))%Q in
  (n <= 5 -> (gap < thr_hi)%Q)%Z /\ (6 <= n -> (thr_hi < gap)%Q)%Z.
Proof.
  intros n drop gap. destruct (join_threshold_slack n drop) as [A B]. fold gap in A, B.
  destruct join_threshold_close as [C D]. split; intro H.
  - specialize (A H). lra.
  - specialize (B H). lra.
Qed.

Lemma Qle_bool_false : forall a b, b < a -> Qle_bool a b = false.
Proof.
  intros a b H. destruct (Qle_bool a b) eqn:E; [|reflexivity]. apply Qle_bool_iff in E. lra.
Qed.

Lemma Qle_bool_true : forall a b, a <= b -> Qle_bool a b = true.
Proof. intros a b H. apply Qle_bool_iff. exact H. Qed.

Lemma frame_gap_same_test : forall drop e s', frame_gap drop e s' ->
  Qle_bool join_threshold (s' - e) = Qle_bool thr_hi (s' - e).
Proof.
  intros drop e s' [n Hn].
  destruct (join_threshold_slack n drop) as [A B]. destruct (thr_hi_slack n drop) as [C D]. cbv zeta in A, B, C, D.
  destruct (Z_le_gt_dec n 5) as [L|G].
  - specialize (A L). specialize (C L). rewrite <- Hn in A, C.
    rewrite !Qle_bool_false; [reflexivity|exact C|lra].
  - assert (G' : (6 <= n)%Z) by lia. specialize (B G'). specialize (D G'). rewrite <- Hn in B, D.
    rewrite !Qle_bool_true; [reflexivity|lra|lra].
Qed.

Theorem close_gaps_threshold_irrelevant : forall drop l,
  (forall i s e s' oe', nth_error l i = Some (s, Some e) -> nth_error l (S i) = Some (s', oe') -> frame_gap drop e s') ->
  close_gaps join_threshold l = close_gaps thr_hi l.
Proof.
  intros drop. induction l as [|[s oe] r IH]; intro H; [reflexivity|].
  cbn [close_gaps]. f_equal.
  - destruct oe as [e|]; [|reflexivity]. destruct r as [|[s' oe'] r']; [reflexivity|].
    rewrite (frame_gap_same_test drop e s'); [reflexivity|]. apply (H 0%nat s e s' oe'); reflexivity.
  - apply IH. intros i a e a' oe' H1 H2. apply (H (S i) a e a' oe'); assumption.
Qed.

(* ---- 4c. expected_with respects pointwise == of the event instants ------------------------------- *)
Definition oq_eq (a b : option Q) : Prop :=
  match a, b with Some x, Some y => x == y | None, None => True | _, _ => False end.
Definition rspan_eq (a b : Q * option Q) : Prop := fst a == fst b /\ oq_eq (snd a) (snd b).
Definition span_eq (a b : Q * Q) : Prop := fst a == fst b /\ snd a == snd b.
Definition res_span_eq (a b : result (list (Q * Q))) : Prop :=
  match a, b with Ok x, Ok y => Forall2 span_eq x y | Err e, Err e' => e = e' | _, _ => False end.

Lemma Qle_bool_compat : forall a a' b b', a == a' -> b == b' -> Qle_bool a b = Qle_bool a' b'.
Proof. intros a a' b b' H1 H2. apply Qleb_comp; assumption. Qed.

Lemma raw_spans_compat : forall evs evs', Forall2 ev_eq evs evs' -> forall sh sh', oq_eq sh sh' ->
  Forall2 rspan_eq (raw_spans evs sh) (raw_spans evs' sh').
Proof.
  induction 1 as [|a b evs evs' Hab Hr IH]; intros sh sh' Hs.
  - destruct sh as [s|], sh' as [s'|]; cbn [oq_eq] in Hs; try contradiction; cbn [raw_spans]; constructor.
    + split; [exact Hs|exact I].
    + constructor.
  - assert (Hd : Forall2 rspan_eq
                   (match sh with Some s => [(s, Some (ev_time a))] | None => [] end)
                   (match sh' with Some s => [(s, Some (ev_time b))] | None => [] end)).
    { destruct sh as [s|], sh' as [s'|]; cbn [oq_eq] in Hs; try contradiction; constructor; [|constructor].
      split; cbn [fst snd oq_eq]; [exact Hs|]. destruct a, b; cbn [ev_eq ev_time] in *; try contradiction; exact Hab. }
    destruct a as [t|t], b as [u|u]; cbn [ev_eq] in Hab; try contradiction; cbn [raw_spans ev_time] in *;
      (apply Forall2_app; [exact Hd|]); apply IH; cbn [oq_eq]; [exact Hab|exact I].
Qed.

Lemma close_gaps_compat : forall thr l l', Forall2 rspan_eq l l' ->
  Forall2 span_eq (close_gaps thr l) (close_gaps thr l').
Proof.
  intros thr. induction 1 as [|[s oe] [s' oe'] r r' [Hs Ho] Hr IH]; [constructor|].
  cbn [fst snd] in Hs, Ho. cbn [close_gaps]. constructor; [|exact IH].
  split; cbn [fst snd]; [exact Hs|].
  destruct oe as [e|], oe' as [e'|]; cbn [oq_eq] in Ho; try contradiction.
  - destruct Hr as [|[n on] [n' on'] t t' [Hn _] _]; [exact Ho|]. cbn [fst] in Hn.
    rewrite (Qle_bool_compat thr thr (n - e) (n' - e')); [|reflexivity|rewrite Hn, Ho; reflexivity].
    destruct (Qle_bool thr (n' - e')); assumption.
  - rewrite Hs. reflexivity.
Qed.

Lemma flash_compat : forall p q, span_eq p q -> flash p = flash q.
Proof.
  intros p q [H1 H2]. unfold flash. cbv zeta.
  rewrite (Qle_bool_compat (snd p - fst p) (snd q - fst q) 0 0); [|rewrite H1, H2; reflexivity|reflexivity].
  rewrite (Qle_bool_compat (inject_Z 50000) (inject_Z 50000) (snd p - fst p) (snd q - fst q));
    [reflexivity|reflexivity|rewrite H1, H2; reflexivity].
Qed.

Lemma existsb_flash_compat : forall l l', Forall2 span_eq l l' -> existsb flash l = existsb flash l'.
Proof.
  induction 1 as [|p q l l' Hpq _ IH]; [reflexivity|]. cbn [existsb]. rewrite (flash_compat p q Hpq), IH. reflexivity.
Qed.

Theorem expected_with_compat : forall thr evs evs', Forall2 ev_eq evs evs' ->
  res_span_eq (expected_with thr evs) (expected_with thr evs').
Proof.
  intros thr evs evs' H. unfold expected_with. cbv zeta.
  assert (C : Forall2 span_eq (close_gaps thr (raw_spans evs None)) (close_gaps thr (raw_spans evs' None))).
  { apply close_gaps_compat. apply raw_spans_compat; [exact H|exact I]. }
  rewrite (existsb_flash_compat _ _ C). destruct (existsb flash _); [reflexivity|].
  destruct C as [|p q l l' Hpq Hl]; [reflexivity|]. cbn [res_span_eq]. constructor; assumption.
Qed.

(* ---- 4d. instants that are not floored lie on the frame lattice of their rate, shifted by the offset ---- *)
Definition on_lattice (drop : bool) (off t : Q) : Prop :=
  exists n : Z, t == inject_Z n * ((inject_Z 1000000 / inject_Z 30) * rate drop) - off.

Lemma spec_instant_lattice : forall tc k off, 0 < spec_instant tc k off ->
  on_lattice (tc_drop tc) off (spec_instant tc k off).
Proof.
  intros tc k off. unfold spec_instant, qmax0. cbv zeta.
  match goal with |- context [Qle_bool 0 ?x] => destruct (Qle_bool 0 x) end.
  2:{ intro H. exfalso. exact (Qlt_irrefl _ H). }
  intros _. exists ((3600 * tc_h tc + 60 * tc_m tc + tc_s tc) * 30 + (tc_f tc + k))%Z.
  generalize (3600 * tc_h tc + 60 * tc_m tc + tc_s tc)%Z (tc_f tc + k)%Z. intros S F.
  rewrite inject_Z_plus, inject_Z_mult. unfold million, rate.
  destruct (tc_drop tc); field; discriminate.
Qed.

Lemma lattice_frame_gap : forall drop off a b, on_lattice drop off a -> on_lattice drop off b -> frame_gap drop a b.
Proof.
  intros drop off a b [na Ha] [nb Hb]. exists (nb + - na)%Z. rewrite inject_Z_plus, inject_Z_opp, Ha, Hb. ring.
Qed.

(* every start and every explicit end of the raw spans is the instant of an event (or the pending start) *)
Lemma raw_spans_times : forall (P : Q -> Prop) evs shown,
  (forall e, In e evs -> P (ev_time e)) -> (forall s, shown = Some s -> P s) ->
  Forall (fun p => P (fst p) /\ forall e, snd p = Some e -> P e) (raw_spans evs shown).
Proof.
  intros P. induction evs as [|e evs IH]; intros shown He Hs.
  - destruct shown as [s|]; cbn [raw_spans]; constructor; [|constructor].
    split; cbn [fst snd]; [apply Hs; reflexivity|discriminate].
  - assert (Pe : P (ev_time e)) by (apply He; left; reflexivity).
    assert (He' : forall x, In x evs -> P (ev_time x)) by (intros x Hx; apply He; right; exact Hx).
    assert (Hd : Forall (fun p => P (fst p) /\ forall x, snd p = Some x -> P x)
                   (match shown with Some s => [(s, Some (ev_time e))] | None => [] end)).
    { destruct shown as [s|]; constructor; [|constructor]. split; cbn [fst snd]; [apply Hs; reflexivity|].
      intros x Hx. inversion Hx. subst x. exact Pe. }
    destruct e as [t|t]; cbn [raw_spans ev_time] in *; apply Forall_app; (split; [exact Hd|]); apply IH;
      try exact He'; intros s Hx; inversion Hx; subst; exact Pe.
Qed.

Lemma raw_spans_frame_gaps : forall drop off evs,
  (forall e, In e evs -> on_lattice drop off (ev_time e)) ->
  forall i s e s' oe', nth_error (raw_spans evs None) i = Some (s, Some e) ->
                       nth_error (raw_spans evs None) (S i) = Some (s', oe') -> frame_gap drop e s'.
Proof.
  intros drop off evs H i s e s' oe' H1 H2.
  pose proof (raw_spans_times (on_lattice drop off) evs None H) as F.
  assert (F' : Forall (fun p => on_lattice drop off (fst p) /\ forall x, snd p = Some x -> on_lattice drop off x)
                 (raw_spans evs None)) by (apply F; intros x Hx; discriminate).
  rewrite Forall_forall in F'. apply nth_error_In in H1. apply nth_error_In in H2.
  destruct (F' _ H1) as [_ A]. destruct (F' _ H2) as [B _]. cbn [fst snd] in A, B.
  apply (lattice_frame_gap drop off); [apply A; reflexivity|exact B].
Qed.

Theorem expected_threshold_irrelevant : forall drop off evs,
  (forall e, In e evs -> on_lattice drop off (ev_time e)) ->
  expected_with join_threshold evs = expected_with thr_hi evs.
Proof.
  intros drop off evs H. unfold expected_with.
  rewrite (close_gaps_threshold_irrelevant drop _ (raw_spans_frame_gaps drop off evs H)). reflexivity.
Qed.

(* ---- 4e. the composition ------------------------------------------------------------------------- *)
Definition tseg_tc (s : tseg) : timecode := match s with TLoad tc _ => tc | TClear tc => tc end.

Lemma tseg_ok8 : forall segs, forallb tseg_wf segs = true -> forallb pseg_ok8 (map tseg_pseg segs) = true.
Proof.
  induction segs as [|s segs IH]; intro H; [reflexivity|].
  cbn [forallb] in H. apply andb_prop in H. destruct H as [Hs H]. cbn [map forallb]. rewrite (IH H), andb_true_r.
  destruct s as [tc l|tc]; [|reflexivity]. cbn [tseg_wf] in Hs. apply andb_prop in Hs. destruct Hs as [_ Hl]. exact Hl.
Qed.

Lemma ev_eq_time : forall a b, ev_eq a b -> ev_time a == ev_time b.
Proof. intros [x|x] [y|y] H; cbn [ev_eq ev_time] in *; try contradiction; exact H. Qed.

Lemma positive_compat : forall evs evs', Forall2 ev_eq evs evs' -> positive evs' -> positive evs.
Proof.
  induction 1 as [|a b evs evs' Hab _ IH]; intros Hp e He; [destruct He|].
  destruct He as [<-|He].
  - rewrite (ev_eq_time _ _ Hab). apply Hp. left. reflexivity.
  - apply IH; [|exact He]. intros x Hx. apply Hp. right. exact Hx.
Qed.

Lemma spec_events_lattice : forall d off drop segs,
  (forall s, In s segs -> tc_drop (tseg_tc s) = drop) -> positive (map (tseg_spec_event d off) segs) ->
  forall e, In e (map (tseg_spec_event d off) segs) -> on_lattice drop off (ev_time e).
Proof.
  intros d off drop segs Hd Hp e He. pose proof (Hp e He) as Pe.
  apply in_map_iff in He. destruct He as (s & <- & Hs). rewrite <- (Hd s Hs).
  destruct s as [tc l|tc]; cbn [tseg_spec_event ev_time tseg_tc] in *; apply spec_instant_lattice; exact Pe.
Qed.

(* For a stream of loads and clear lines stamped with rendered well-formed timecodes of one rate, any offset that
   leaves every instant of the statement positive (so nothing is floored): what `read` returns carries - each span
   repeated once per caption of its load - spans pointwise == to the statement's own spans (threshold
   "five frames + 1 microsecond") of the statement's own instants; errors coincide. *)
Theorem read_is_statement_spans : forall d off drop segs,
  forallb tseg_wf segs = true ->
  (forall s, In s segs -> tc_drop (tseg_tc s) = drop) ->
  positive (map (tseg_spec_event d off) segs) ->
  exists r, spans_of (read off (map (pseg_line d) (map tseg_pseg segs)))
            = rmap (fun spans => flat_map bspans (combine (ploads_of (map tseg_pseg segs)) spans)) r /\
            res_span_eq r (expected_with thr_hi (map (tseg_spec_event d off) segs)).
Proof.
  intros d off drop segs Hwf Hd Hp.
  destruct (events_are_spec_instants d off segs Hwf) as (evs & E & F).
  pose proof (positive_compat _ _ F Hp) as Hp'.
  exists (expected_with join_threshold evs). split.
  - apply popon_times; [apply tseg_ok8; exact Hwf|exact E|exact Hp'].
  - rewrite <- (expected_threshold_irrelevant drop off _ (spec_events_lattice d off drop segs Hd Hp)).
    apply expected_with_compat. exact F.
Qed.

(* ================================================================================================== *)
(* 5. non-vacuity: a concrete two-load program with rendered non-drop timecodes                      *)

Definition ex_tsegs : list tseg :=
  [TLoad (mkTc 0 0 1 false 0) [mkRow 15 0 0 0 [Ch 97]]; TClear (mkTc 0 0 3 false 0);
   TLoad (mkTc 0 0 5 false 0) [mkRow 14 4 0 0 [Ch 98; Mid 14; Ch 99]]].
Definition ex_evs : list ev := [Show (3403400 # 3); Clear 3003000; Show 5205200].

(* every hypothesis of read_start_le_end and of read_is_statement_spans holds for it (single control codes, offset 0) *)
Example ex_hyps :
  forallb tseg_wf ex_tsegs = true /\
  (forall s, In s ex_tsegs -> tc_drop (tseg_tc s) = false) /\
  positive (map (tseg_spec_event false 0) ex_tsegs) /\
  forallb pseg_ok8 (map tseg_pseg ex_tsegs) = true /\
  res_map (pseg_event false 0) (map tseg_pseg ex_tsegs) = Ok ex_evs /\
  positive ex_evs /\ nondecreasing 0 ex_evs.
Proof.
  split; [vm_compute; reflexivity|]. split; [intros s [<-|[<-|[<-|[]]]]; reflexivity|].
  split; [intros e [<-|[<-|[<-|[]]]]; vm_compute; reflexivity|].
  split; [vm_compute; reflexivity|]. split; [vm_compute; reflexivity|].
  split; [intros e [<-|[<-|[<-|[]]]]; reflexivity|].
  cbn [nondecreasing ex_evs ev_time]. repeat split; apply Qle_bool_iff; vm_compute; reflexivity.
Qed.

Example ex_read_start_le_end :
  exists caps, read 0 (map (pseg_line false) (map tseg_pseg ex_tsegs)) = ROk caps /\ length caps = 2%nat /\
    Forall (fun c => (pc_start c <= pc_end c)%Q) caps /\
    (forall i a b, nth_error caps i = Some a -> nth_error caps (S i) = Some b -> (pc_start a <= pc_start b)%Q).
Proof.
  assert (R : exists caps, read 0 (map (pseg_line false) (map tseg_pseg ex_tsegs)) = ROk caps /\ length caps = 2%nat)
    by (vm_compute; eexists; split; reflexivity).
  destruct R as (caps & R & L). exists caps. split; [exact R|]. split; [exact L|].
  destruct ex_hyps as (_ & _ & _ & H1 & H2 & H3 & H4).
  exact (read_start_le_end false 0 (map tseg_pseg ex_tsegs) ex_evs caps H1 H2 H3 H4 R).
Qed.

(* the spans read and the statement's spans of the statement's instants: == pointwise, not syntactically equal *)
Example ex_statement_spans :
  spans_of (read 0 (map (pseg_line false) (map tseg_pseg ex_tsegs)))
  = Ok [(3403400 # 3, 3003000%Q); (5205200%Q, 9205200%Q)] /\
  expected_with thr_hi (map (tseg_spec_event false 0) ex_tsegs)
  = Ok [(34034000000 # 30000, 90090000000 # 30000); (156156000000 # 30000, 276156000000 # 30000)] /\
  exists r, spans_of (read 0 (map (pseg_line false) (map tseg_pseg ex_tsegs)))
            = rmap (fun spans => flat_map bspans (combine (ploads_of (map tseg_pseg ex_tsegs)) spans)) r /\
            res_span_eq r (expected_with thr_hi (map (tseg_spec_event false 0) ex_tsegs)).
Proof.
  split; [vm_compute; reflexivity|]. split; [vm_compute; reflexivity|].
  destruct ex_hyps as (H1 & H2 & H3 & _). exact (read_is_statement_spans false 0 false ex_tsegs H1 H2 H3).
Qed.

(* Open: nothing of the audit's list. Remarks:
   - expected_start_le_end keeps the requested hypothesis 0 <= thr but does not use it (expected_le_spans has none).
   - read_is_statement_spans assumes every instant of the statement positive (no flooring). With flooring the event
     gaps are no longer whole frames, and an instant floored to 0 meets the known end-0 sentinel defect
     (SccPoponFacts.end_zero_sentinel_refuted, at the level of events); `positive` is also a hypothesis of popon_times.
   - the result is stated for spans up to == (res_span_eq): get_time reduces its fraction (Qred), the statement's
     spec_instant does not, so the two sides are equal as rationals and not as pairs of integers (ex_statement_spans). *)
