(* C05 - SCC pop-on decoding reproduces the CEA-608 screen: text, rows, italics, position.
   Models: model/SccDecoder.v (whole decoder), model/SccLayout.v; tables: model/GenScc.v (regenerated from the source);
   specs: spec/Spec608.v (independent transcription of CEA-608), spec/SpecScc05.v. Only statements closed by `exact`. *)
From Coq Require Import List ZArith QArith Bool.
From PV Require Import lib.Sx lib.Str lib.Result model.GenScc model.SccTime model.SccStash model.SccDecoder model.SccLayout.
From PV Require Import spec.Spec608 spec.SpecScc05.
From PV Require Import proofs.SccTableFacts proofs.SccTableFixFacts proofs.SccDoubleFacts proofs.SccItalicsFacts proofs.SccPoponStage1 proofs.SccPoponStage2 proofs.SccPoponStage3 proofs.SccPoponStage4 proofs.SccPoponStage6 proofs.SccPoponStage5 proofs.SccPoponStage2c proofs.SccPoponStage7 proofs.SccPoponStage8 proofs.SccPoponStage9.
From PV Require Import spec.SpecSccTime proofs.SccPoponFacts.
From PV Require Import model.SccTokenise proofs.SccTokeniseFacts proofs.SccLineLayoutFacts proofs.SccTextFacts.
Import ListNotations.
Open Scope Z_scope.

(* ---- the generated tables against CEA-608 (complete tables, re-proved on every run) ------------------------- *)
Theorem C05_chars_match_608 : forall c, 32 <= c <= 126 -> char_of (odd_parity c) = Some [basic_608 c].
Proof. exact chars_match_608. Qed.
Print Assumptions C05_chars_match_608.
Theorem C05_chars_table_domain : forall b s, In (b, s) scc_characters ->
  (b = 128 /\ s = []) \/ (b = odd_parity 127 /\ s = []) \/ (exists c, 32 <= c <= 127 /\ b = odd_parity c /\ s = [basic_608 c]).
Proof. exact chars_table_domain. Qed.
Print Assumptions C05_chars_table_domain.
Theorem C05_special_match_608 : forall i, 0 <= i < 16 -> special_of (special_word i) = Some [nth (Z.to_nat i) special_608 0].
Proof. exact special_match_608. Qed.
Print Assumptions C05_special_match_608.
Theorem C05_extended_match_608 : forall i, 0 <= i < 32 ->
  extended_of (extended1_word i) = Some [nth (Z.to_nat i) extended1_608 0] /\
  extended_of (extended2_word i) = Some [nth (Z.to_nat i) extended2_608 0].
Proof. exact extended_match_608. Qed.
Print Assumptions C05_extended_match_608.
Theorem C05_char_tables_sizes :
  (length scc_special_chars = 16%nat /\ NoDup (map fst scc_special_chars)) /\
  (length scc_extended_chars = 64%nat /\ NoDup (map fst scc_extended_chars)) /\ NoDup (map fst scc_characters).
Proof. exact (conj special_table_size (conj extended_table_size chars_table_functional)). Qed.
Print Assumptions C05_char_tables_sizes.

(* all 15 x 32 preamble address codes decode to their CEA-608 cursor address; every parity-correct table entry is a
   608 address; the grid 15 rows x 8 indents is total and the table functional; tab offsets are 1, 2, 3 *)
Theorem C05_pac_grid : forall row attr, 1 <= row <= 15 -> 0 <= attr < 32 -> pac_pos (pac_word row attr) = Some (row, pac_col attr).
Proof. exact pac_grid. Qed.
Print Assumptions C05_pac_grid.
Theorem C05_pac_table_sound : forall w p, In (w, p) scc_pac ->
  (has_odd_parity (w / 256) && has_odd_parity (w mod 256)) = true -> pac_608 w = Some p.
Proof. exact pac_table_sound. Qed.
Print Assumptions C05_pac_table_sound.
Theorem C05_pac_grid_total_functional :
  (forall row indent, In row rows_608 -> In indent indents_608 -> exists w, pac_pos w = Some (row, indent)) /\
  (forall w p, pac_pos w = Some p -> In (fst p) rows_608 /\ In (snd p) indents_608) /\
  NoDup (map fst scc_pac).
Proof. exact pac_grid_total_functional. Qed.
Print Assumptions C05_pac_grid_total_functional.
Theorem C05_tab_offsets_1_2_3 : (forall n, 1 <= n <= 3 -> tab_of (tab_word n) = Some n) /\ length scc_tab_offsets = 3%nat.
Proof. exact tab_offsets_1_2_3. Qed.
Print Assumptions C05_tab_offsets_1_2_3.

(* control codes, dispatch classes, style classes *)
Theorem C05_control_codes : w_rcl = ctrl_word 32 /\ w_bs = ctrl_word 33 /\ w_ru2 = ctrl_word 37 /\ w_ru3 = ctrl_word 38 /\
  w_ru4 = ctrl_word 39 /\ w_rdc = ctrl_word 41 /\ w_edm = ctrl_word 44 /\ w_cr = ctrl_word 45 /\ w_enm = ctrl_word 46 /\ w_eoc = ctrl_word 47
  /\ Forall (fun w => is_command w = true) [w_rcl; w_bs; w_ru2; w_ru3; w_ru4; w_rdc; w_edm; w_cr; w_enm; w_eoc]
  /\ (forall w, In w scc_cue_starting_commands <-> In w [w_ru2; w_ru3; w_ru4; w_rdc; w_rcl]).
Proof. exact control_codes. Qed.
Print Assumptions C05_control_codes.
Theorem C05_midrow_classes : forall a, 0 <= a < 16 ->
  memz (midrow_word a) scc_mid_row_codes = true /\ is_command (midrow_word a) = true /\
  memz (midrow_word a) scc_italics_commands = ((a =? 14) || (a =? 15)) /\
  memz (midrow_word a) scc_style_setting_commands = true.
Proof. exact midrow_classes. Qed.
Print Assumptions C05_midrow_classes.
(* after the table repair: every preamble address code sets the style (plain ends italics, italic starts them) *)
Theorem C05_every_pac_sets_style : forall row attr, 1 <= row <= 15 -> 0 <= attr < 32 ->
  memz (pac_word row attr) scc_style_setting_commands = true /\
  memz (pac_word row attr) scc_italics_commands = pac_italics attr.
Proof. exact every_pac_sets_style. Qed.
Print Assumptions C05_every_pac_sets_style.
(* a word is at most one of command-or-PAC / special / extended, and no pair of characters is one of them *)
Theorem C05_classes_disjoint :
  (forall w, special_of w <> None -> is_command w = false /\ is_pac w = false /\ extended_of w = None /\ tab_of w = None) /\
  (forall w, extended_of w <> None -> is_command w = false /\ is_pac w = false /\ tab_of w = None) /\
  (forall w, is_pac w = true -> tab_of w = None /\ memz w scc_mid_row_codes = false /\ memz w scc_background_color_codes = false
                               /\ ~ In w [w_rcl; w_bs; w_ru2; w_ru3; w_ru4; w_rdc; w_edm; w_cr; w_enm; w_eoc]) /\
  (forall w, tab_of w <> None -> is_command w = true /\ memz w scc_mid_row_codes = false /\ memz w scc_background_color_codes = false
                               /\ memz w scc_style_setting_commands = false /\ w <> w_bs
                               /\ ~ In w [w_rcl; w_ru2; w_ru3; w_ru4; w_rdc; w_edm; w_cr; w_enm; w_eoc]) /\
  (forall w, (is_command w || is_pac w) = true \/ special_of w <> None \/ extended_of w <> None ->
             char_of (hi w) = None \/ char_of (lo w) = None).
Proof. exact classes_disjoint. Qed.
Print Assumptions C05_classes_disjoint.

(* ---- layout: linear into the safe area on all 15 x 32 cursor addresses, injective ------------------------------ *)
Theorem C05_layout_linear_exhaustive : forall p, In p grid_positions ->
  (fst (layout_of_pos p) == fst (layout_608 (fst p) (snd p)))%Q /\ (snd (layout_of_pos p) == snd (layout_608 (fst p) (snd p)))%Q /\
  (10 <= fst (layout_of_pos p))%Q /\ (fst (layout_of_pos p) < 90)%Q /\ (5 <= snd (layout_of_pos p))%Q /\ (snd (layout_of_pos p) < 95)%Q.
Proof. exact layout_linear_exhaustive. Qed.
Print Assumptions C05_layout_linear_exhaustive.
Theorem C05_layout_injective : forall p q, In p grid_positions -> In q grid_positions ->
  (fst (layout_of_pos p) == fst (layout_of_pos q))%Q -> (snd (layout_of_pos p) == snd (layout_of_pos q))%Q -> p = q.
Proof. exact layout_injective. Qed.
Print Assumptions C05_layout_injective.

(* ---- a doubled control / special / extended code counts once (all states, all words) --------------------------- *)
Theorem C05_doubling_once : forall s w n1 n2,
  r_err s = None -> fst (handle_double s w) = false -> tab_of w = None ->
  let s1 := translate_word s w n1 in
  r_err s1 = None -> doubled_type s1 w = true ->
  translate_word s1 w n2 = bump (set_dbl s1 LNone (if is_cue_start w then true else r_dstart s1)).
Proof. exact doubling_once. Qed.
Print Assumptions C05_doubling_once.
(* ... and "doubled type" is every command, preamble address code, special and extended character, whatever the state
   (after the repair: backspace and extended characters no longer need a doubled mode command before them) *)
Theorem C05_doubling_unconditional_unfold : forall s w,
  doubled_type s w = (is_command w || is_pac w
                      || (match special_of w with Some _ => true | None => false end)
                      || (match extended_of w with Some _ => true | None => false end)).
Proof. exact doubling_unconditional. Qed.
Print Assumptions C05_doubling_unconditional_unfold.
(* PAC TO PAC TO: the second pair is skipped as a unit; PAC PAC TO TO: the offset is dropped (outside the domain) *)
Theorem C05_pac_tab_unit_once : forall s p t n1 n2 n3 n4,
  r_err s = None -> is_pac p = true -> tab_of t <> None -> fst (handle_double s p) = false ->
  let s1 := translate_word s p n1 in r_err s1 = None ->
  let s2 := translate_word s1 t n2 in r_err s2 = None ->
  r_last s2 = LPacTo p t /\
  translate_word (translate_word s2 p n3) t n4 = bump (bump (set_dbl s2 LNone (r_dstart s2))).
Proof. exact pac_tab_unit_once. Qed.
Print Assumptions C05_pac_tab_unit_once.
Theorem C05_pac_pac_tab_tab_drops_offset : forall s p t n1 n2 n3 n4,
  r_err s = None -> is_pac p = true -> tab_of t <> None -> fst (handle_double s p) = false ->
  let s1 := translate_word s p n1 in r_err s1 = None ->
  translate_word (translate_word (translate_word s1 p n2) t n3) t n4 = bump (bump (bump (set_dbl s1 LNone (r_dstart s1)))).
Proof. exact pac_pac_tab_tab_drops_offset. Qed.
Print Assumptions C05_pac_pac_tab_tab_drops_offset.

(* ---- an extended character replaces exactly its stand-in; backspace deletes exactly one character -------------- *)
Theorem C05_extended_replaces_standin : forall w txt c t, SccDoubleFacts.wf_nodes (cr_nodes c) ->
  extended_of w = Some txt -> content c <> [] -> is_extended_value (last (content c) 0) = false ->
  content (snd (add_chars t (handle_backspace w c) txt)) = removelast (content c) ++ txt.
Proof. exact extended_replaces_standin. Qed.
Print Assumptions C05_extended_replaces_standin.
Theorem C05_backspace_deletes_one : forall c, SccDoubleFacts.wf_nodes (cr_nodes c) ->
  content (handle_backspace w_bs c) = removelast (content c).
Proof. exact backspace_deletes_one. Qed.
Print Assumptions C05_backspace_deletes_one.

(* ---- italics: balanced for ALL instruction lists, per caption; the passes keep every text/break/reposition ------ *)
Theorem C05_italics_balanced : forall l, chk false (format_italics l) = true.
Proof. exact italics_balanced. Qed.
Print Assumptions C05_italics_balanced.
Theorem C05_captions_balanced : forall l start e,
  Forall (fun c => cchk false (pc_nodes c) = true) (build_captions (format_italics l) start e [] (mkPre start e [] None)).
Proof. exact captions_balanced. Qed.
Print Assumptions C05_captions_balanced.
Theorem C05_passes_keep_plain_nodes : forall l, filter plain (passes16 l) = filter keep l.
Proof. exact passes16_keep_plain. Qed.
Print Assumptions C05_passes_keep_plain_nodes.

(* ---- popon_refines_608, STAGE 1 (the full statement, kept here as the goal of the staged proof:
        forall p, dom_c05 p = true -> ok_c05 p (observe (read (lines_of (emit p)))) = true ).
   Closed for: one load, one row of basic characters, ANY row / indent / tab offset, control codes single or doubled
   (PAC+TO doubled as a unit), any timecodes whose instants exist. The decoder queues exactly one text node carrying
   the row's characters at the row's cursor address at the End-Of-Caption instant ... --------------------------------- *)
Theorem C05_popon_stage1_partial : forall d r off tc, basic_row r = true ->
  (forall k, exists t, get_time tc k off = Ok t) ->
  let ws := emit_load d [r] in
  let s := translate_words (start_state off tc) ws in
  r_err s = None /\ r_stash s = stash0 /\ buf s = creator0 /\ r_active s = MPop /\
  exists t, get_time tc (Z.of_nat (length ws) - (if d then 2 else 1)) off = Ok t /\
            r_queue s = Some (mkCr [mkI IText (row_text r) (row_pos r)] SNone, t).
Proof. exact popon_stage1. Qed.
Print Assumptions C05_popon_stage1_partial.
(* ... read returns exactly one caption with these characters, this address, from the EOC instant to the EDM instant,
   and that caption, observed as the harness observes it, satisfies the property oracle ok_c05 *)
Theorem C05_popon_stage1_refines_partial : forall d r off tc tc2 t1 t2, basic_row r = true ->
  (forall k, exists t, get_time tc k off = Ok t) ->
  get_time tc (Z.of_nat (length (emit_load d [r])) - (if d then 2 else 1)) off = Ok t1 ->
  get_time tc2 0 off = Ok t2 -> Qeq_bool t2 0 = false -> is_flash (mkPre t1 t2 [] None) = false ->
  (t1 < t2)%Q ->
  read off [(tc, emit_load d [r]); (tc2, emit_clear d)] =
    ROk [mkPre t1 t2 [CText (row_text r) (row_pos r)] (Some (row_pos r))] /\
  ok_c05 (mkProg d [[r]]) (Ok [mkO t1 t2 [OText (row_text r)] (Some (layout_of_pos (row_pos r)))]) = true.
Proof. exact popon_stage1_ok. Qed.
Print Assumptions C05_popon_stage1_refines_partial.
Example C05_stage1_nonvacuous :
  basic_row (mkRow 15 4 2 0 [Ch 72; Ch 105; Ch 33]) = true /\
  emit_load true [mkRow 15 4 2 0 [Ch 72; Ch 105; Ch 33]] =
    [38062; 38062; 37920; 37920; 38130; 38818; 38130; 38818; 51433; 41344; 37935; 37935].
Proof. vm_compute. split; reflexivity. Qed.

(* ---- STAGE 2: one row with basic / special / extended characters and explicit backspaces (no mid-row code), any
        non-italic preamble (7 colours x underline, indent + underline bit), codes single or doubled: the row is read
        as the characters of its 608 screen row (extended replaces its stand-in, backspace erases one cell) ... ---------- *)
Theorem C05_popon_stage2_read_partial : forall d r off tc tc2 t1 t2, rich_row r = true ->
  get_time tc (Z.of_nat (length (emit_load d [r])) - (if d then 2 else 1)) off = Ok t1 ->
  get_time tc2 0 off = Ok t2 -> Qeq_bool t2 0 = false -> is_flash (mkPre t1 t2 [] None) = false ->
  read off [(tc, emit_load d [r]); (tc2, emit_clear d)] =
  ROk [mkPre t1 t2 [CText (rich_text r) (row_pos r)] (Some (row_pos r))].
Proof. exact popon_stage2_read. Qed.
Print Assumptions C05_popon_stage2_read_partial.
Theorem C05_popon_stage2_ok_partial : forall d r t1 t2, rich_row r = true -> (t1 < t2)%Q ->
  ok_c05 (mkProg d [[r]]) (Ok [mkO t1 t2 [OText (rich_text r)] (Some (layout_of_pos (row_pos r)))]) = true.
Proof. exact popon_stage2_ok. Qed.
Print Assumptions C05_popon_stage2_ok_partial.
(* ... STAGE 2b: the same with an italic preamble (italics / italics underline): one balanced italic span covering
   exactly the row's characters *)
Theorem C05_popon_stage2_ital_read_partial : forall d r off tc tc2 t1 t2, rich_row_ital r = true ->
  get_time tc (Z.of_nat (length (emit_load d [r])) - (if d then 2 else 1)) off = Ok t1 ->
  get_time tc2 0 off = Ok t2 -> Qeq_bool t2 0 = false -> is_flash (mkPre t1 t2 [] None) = false ->
  read off [(tc, emit_load d [r]); (tc2, emit_clear d)] =
  ROk [mkPre t1 t2 [CStyle true (rw_row r, rw_indent r); CText (rich_text r) (row_pos r); CStyle false (rw_row r, rw_indent r)]
             (Some (row_pos r))].
Proof. exact popon_stage2_ital_read. Qed.
Print Assumptions C05_popon_stage2_ital_read_partial.
Theorem C05_popon_stage2_ital_ok_partial : forall d r t1 t2, rich_row_ital r = true -> (t1 < t2)%Q ->
  cells_of r = map (fun c => Cell c true) (rich_text r) /\
  ok_c05 (mkProg d [[r]])
         (Ok [mkO t1 t2 [OStyle true; OText (rich_text r); OStyle false] (Some (layout_of_pos (row_pos r)))]) = true.
Proof. exact popon_stage2_ital_ok. Qed.
Print Assumptions C05_popon_stage2_ital_ok_partial.

(* ---- STAGE 3: one load of SEVERAL rows of basic characters (distinct rows, any transmission order, any addresses):
        rows on consecutive screen rows become the lines of one caption (break nodes), any other row starts a new
        caption with the same times, each caption positioned at its first row; the result satisfies the oracle ---------- *)
Theorem C05_popon_stage3_read_partial : forall d l off tc tc2 t1 t2, basic_load l = true ->
  get_time tc (Z.of_nat (length (emit_load d l)) - (if d then 2 else 1)) off = Ok t1 ->
  get_time tc2 0 off = Ok t2 -> Qeq_bool t2 0 = false -> is_flash (mkPre t1 t2 [] None) = false ->
  read off [(tc, emit_load d l); (tc2, emit_clear d)] = ROk (map (cap_of t1 t2) (expected_load l)).
Proof. exact popon_stage3_read. Qed.
Print Assumptions C05_popon_stage3_read_partial.
Theorem C05_popon_stage3_ok_partial : forall d l t1 t2, basic_load l = true -> (t1 < t2)%Q ->
  ok_c05 (mkProg d [l]) (Ok (map (ocap_of t1 t2) (expected_load l))) = true.
Proof. exact popon_stage3_ok. Qed.
Print Assumptions C05_popon_stage3_ok_partial.

(* ---- STAGE 4: SEVERAL loads (one basic row each) on separate lines with Erase-Displayed-Memory lines anywhere in
        between: every load is read as exactly one caption, in order, each addressed on its own (ENM resets the
        position tracker) ------------------------------------------------------------------------------------------------- *)
Theorem C05_popon_stage4_captions_partial : forall d off segs evs caps,
  forallb seg_ok segs = true -> res_map (seg_event d off) segs = Ok evs -> positive evs ->
  read off (map (seg_line d) segs) = ROk caps ->
  map pc_nodes caps = map (fun r => [CText (row_text r) (row_pos r)]) (loads_of segs) /\
  map pc_layout caps = map (fun r => Some (row_pos r)) (loads_of segs).
Proof. exact popon_stage4_captions. Qed.
Print Assumptions C05_popon_stage4_captions_partial.

(* ---- STAGE 2c = popon_refines_608 for EVERY in-domain ONE-ROW program: all five item kinds incl. the 16 mid-row codes
        (italics on / off, blank cell rendered as zero or one space), every preamble style, single or doubled codes:
        read returns exactly one caption, timed by the EOC / EDM instants, positioned at the row's address, and it
        satisfies the property oracle -------------------------------------------------------------------------------------- *)
Theorem C05_popon_one_row_refines_partial : forall d r off tc tc2 t1 t2, row_ok r = true ->
  get_time tc (Z.of_nat (length (emit_load d [r])) - (if d then 2 else 1)) off = Ok t1 ->
  get_time tc2 0 off = Ok t2 -> (0 < t1)%Q -> (t1 < t2)%Q -> is_flash (mkPre t1 t2 [] None) = false ->
  exists c, read off [(tc, emit_load d [r]); (tc2, emit_clear d)] = ROk [c] /\
            pc_start c = t1 /\ pc_end c = t2 /\ pc_layout c = Some (row_pos r) /\
            ok_c05 (mkProg d [[r]]) (Ok [observe c]) = true.
Proof. exact popon_stage2c. Qed.
Print Assumptions C05_popon_one_row_refines_partial.

(* ---- STAGE 5 = one load of SEVERAL rows with basic / special / extended characters, backspaces and ANY preamble style
        incl. italics (no mid-row code): italics open after the break on an italic row, close before the break on a plain
        row, are closed and reopened around a reposition; the captions satisfy the oracle --------------------------------- *)
Theorem C05_popon_stage5_read_partial : forall d l off tc tc2 t1 t2, rich_load l = true ->
  get_time tc (Z.of_nat (length (emit_load d l)) - (if d then 2 else 1)) off = Ok t1 ->
  get_time tc2 0 off = Ok t2 -> Qeq_bool t2 0 = false -> is_flash (mkPre t1 t2 [] None) = false ->
  read off [(tc, emit_load d l); (tc2, emit_clear d)] = ROk (map (cap_of t1 t2) (expected_load l)).
Proof. exact popon_stage5_read. Qed.
Print Assumptions C05_popon_stage5_read_partial.
Theorem C05_popon_stage5b_refines_partial : forall d l off tc tc2 t1 t2, rich_load_any l = true ->
  get_time tc (Z.of_nat (length (emit_load d l)) - (if d then 2 else 1)) off = Ok t1 ->
  get_time tc2 0 off = Ok t2 -> Qeq_bool t2 0 = false -> is_flash (mkPre t1 t2 [] None) = false -> (t1 < t2)%Q ->
  exists caps, read off [(tc, emit_load d l); (tc2, emit_clear d)] = ROk caps /\
               ok_c05 (mkProg d [l]) (Ok (map observe caps)) = true.
Proof. exact popon_stage5b. Qed.
Print Assumptions C05_popon_stage5b_refines_partial.

(* ---- STAGE 6 = popon_refines_608 for WHOLE PROGRAMS of basic characters: any number of loads, each with any number
        of rows (distinct rows, any order and addresses), each load on its own line, Erase-Displayed-Memory lines
        anywhere in between, codes single or doubled, any timecodes whose instants are positive and such that every
        event comes after the latest End-Of-Caption: read returns captions that satisfy the property oracle ok_c05 for the
        whole program (characters, lines, grouping by consecutive rows, position of each caption, equal times inside a
        load, order of loads), and the program is inside dom_c05. (Subsumed by stage 9.) *)
Theorem C05_popon_stage6_refines_partial : forall d off segs evs spans,
  forallb pseg_ok segs = true -> res_map (pseg_event d off) segs = Ok evs -> positive evs -> after_show None evs ->
  expected_with join_threshold evs = Ok spans ->
  exists caps, read off (map (pseg_line d) segs) = ROk caps /\
               ok_c05 (mkProg d (ploads_of segs)) (Ok (map observe caps)) = true /\
               dom_c05 (mkProg d (ploads_of segs)) = true.
Proof. exact popon_stage6. Qed.
Print Assumptions C05_popon_stage6_refines_partial.

(* ---- STAGE 7 = popon_refines_608 for WHOLE PROGRAMS whose rows carry basic / special / extended characters, backspaces
        and ANY preamble style incl. italics (every item kind except mid-row codes): any number of loads of any number of
        rows, one load per line, Erase-Displayed-Memory lines anywhere; obtained from stage 5b by a lifting theorem that is
        generic in the class of loads (proofs/SccPoponStage7.v, Section Lift) ----------------------------------------------- *)
Theorem C05_popon_stage7_refines_partial : forall d off segs evs spans,
  forallb (fun s => match s with PLoad _ l => rich_load_any l | PClear _ => true end) segs = true ->
  res_map (pseg_event d off) segs = Ok evs -> positive evs -> after_show None evs ->
  expected_with join_threshold evs = Ok spans ->
  exists caps, read off (map (pseg_line d) segs) = ROk caps /\
               ok_c05 (mkProg d (ploads_of segs)) (Ok (map observe caps)) = true /\
               dom_c05 (mkProg d (ploads_of segs)) = true.
Proof. exact popon_stage7. Qed.
Print Assumptions C05_popon_stage7_refines_partial.

(* ---- STAGE 8 / 9 = popon_refines_608, THE FULL ITEM DOMAIN. Stage 8: one load of any number of rows with all five
        item kinds (basic, special, extended-with-stand-in, the 16 mid-row codes, backspace) and every preamble style;
        stage 9: whole programs of such loads by the generic lifting. Domain: lc_ok8 = load_wf (rows in row_ok, distinct row
        numbers), i.e. exactly dom_c05 per load. (Until the reader stripped trailing blanks in front of a repositioning
        and through italics nodes, a row filling its 32 cells followed by a row in which a mid-row code arrives on the
        still empty row tripped the length check: C05_former_counterexamples_now_read.) Layout of the stream: one load
        per line starting ENM RCL, Erase-Displayed-Memory lines anywhere; instants positive, every event after the latest
        End-Of-Caption. Other layouts: correspondence + oracle on the implementation. ------------------------------------ *)
Theorem C05_popon_one_load_refines : forall d l off tc tc2 t1 t2, load_wf l = true ->
  get_time tc (Z.of_nat (length (emit_load d l)) - (if d then 2 else 1)) off = Ok t1 ->
  get_time tc2 0 off = Ok t2 -> (0 < t1)%Q -> (t1 < t2)%Q -> is_flash (mkPre t1 t2 [] None) = false ->
  exists caps, read off [(tc, emit_load d l); (tc2, emit_clear d)] = ROk caps /\
               ok_c05 (mkProg d [l]) (Ok (map observe caps)) = true.
Proof. exact popon_stage8. Qed.
Print Assumptions C05_popon_one_load_refines.
Theorem C05_popon_refines_608 : forall d off segs evs spans,
  forallb (fun s => match s with PLoad _ l => load_wf l | PClear _ => true end) segs = true ->
  res_map (pseg_event d off) segs = Ok evs -> positive evs -> after_show None evs ->
  expected_with join_threshold evs = Ok spans ->
  exists caps, read off (map (pseg_line d) segs) = ROk caps /\
               ok_c05 (mkProg d (ploads_of segs)) (Ok (map observe caps)) = true /\
               dom_c05 (mkProg d (ploads_of segs)) = true.
Proof. exact popon_refines_608. Qed.
Print Assumptions C05_popon_refines_608.
Theorem C05_former_counterexamples_now_read :
  forallb (fun ld => load_wf ld &&
     forallb (fun d => match read 0 [(lit "00:00:01;00", emit_load d ld); (lit "00:00:05;00", emit_clear d)] with
                       | ROk (c :: _) => Nat.eqb (length (cap_text c)) 32 | _ => false end) [false; true]) [cex_load_ital; cex_load_ital2] = true.
Proof. exact cex_loads_now_read. Qed.
Print Assumptions C05_former_counterexamples_now_read.

(* ---- wave 5: OTHER STREAM LAYOUTS and the TEXT front end.
   (1) line-layout invariance of the reader model: cutting a timecode line (tc, a ++ b) into (tc, a); (tc', b) - or joining
   two lines - does not change what `read` returns, provided tc' denotes the instant length a frames after tc (same_clock:
   get_time agrees at every later word) and the cut is not between a mid-row code and a word starting with . ! ? ,
   (split_ok: the only lookahead the reader has; Example C05_cut_side_condition_needed shows it matters). `relayout` is the
   closure of such cuts / joins (and of dropping an empty line in front of a line) under context, symmetry, transitivity. *)
Theorem C05_read_layout_invariant : forall off ls ls', relayout off ls ls' -> read off ls = read off ls'.
Proof. exact read_layout_invariant. Qed.
Print Assumptions C05_read_layout_invariant.
(* same_clock for rendered well-formed timecodes: any two timecodes of the same kind that are n frames apart (seconds /
   minutes / hours may roll over) *)
Theorem C05_same_clock_wf : forall off t t' n, tc_wf t = true -> tc_wf t' = true -> tc_drop t = tc_drop t' -> 0 <= n ->
  (tc_h t * 3600 + tc_m t * 60 + tc_s t) * 30 + tc_f t + n = (tc_h t' * 3600 + tc_m t' * 60 + tc_s t') * 30 + tc_f t' ->
  same_clock off (render_tc t) n (render_tc t').
Proof. exact same_clock_wf. Qed.
Print Assumptions C05_same_clock_wf.
(* hence popon_refines_608 for EVERY layout of the same word sequence with the same instant per word (pseg_ok8 = load_wf per
   load): loads split over several lines, several loads / the Erase-Displayed-Memory code on one line, ... *)
Theorem C05_popon_refines_608_layout : forall d off segs evs spans ls',
  forallb pseg_ok8 segs = true -> res_map (pseg_event d off) segs = Ok evs -> positive evs -> after_show None evs ->
  expected_with join_threshold evs = Ok spans ->
  relayout off (map (pseg_line d) segs) ls' ->
  exists caps, read off ls' = ROk caps /\
               ok_c05 (mkProg d (ploads_of segs)) (Ok (map observe caps)) = true /\
               dom_c05 (mkProg d (ploads_of segs)) = true.
Proof. exact popon_refines_608_layout. Qed.
Print Assumptions C05_popon_refines_608_layout.
(* every segment cut over any number of lines at admissible word boundaries *)
Theorem C05_popon_refines_608_cuts : forall d off segs evs spans lss,
  forallb pseg_ok8 segs = true -> res_map (pseg_event d off) segs = Ok evs -> positive evs -> after_show None evs ->
  expected_with join_threshold evs = Ok spans ->
  Forall2 (fun s pieces => cuts off (fst (pseg_line d s)) (snd (pseg_line d s)) pieces) segs lss ->
  exists caps, read off (concat lss) = ROk caps /\
               ok_c05 (mkProg d (ploads_of segs)) (Ok (map observe caps)) = true /\
               dom_c05 (mkProg d (ploads_of segs)) = true.
Proof. exact popon_refines_608_cuts. Qed.
Print Assumptions C05_popon_refines_608_cuts.
(* two consecutive segments on ONE line (two loads, or a load followed by its Erase-Displayed-Memory code) *)
Theorem C05_popon_refines_608_merged : forall d off segs1 s1 s2 segs2 evs spans,
  let segs := segs1 ++ s1 :: s2 :: segs2 in
  forallb pseg_ok8 segs = true -> res_map (pseg_event d off) segs = Ok evs -> positive evs -> after_show None evs ->
  expected_with join_threshold evs = Ok spans ->
  same_clock off (fst (pseg_line d s1)) (Z.of_nat (length (snd (pseg_line d s1)))) (fst (pseg_line d s2)) ->
  exists caps, read off (map (pseg_line d) segs1 ++ [(fst (pseg_line d s1), snd (pseg_line d s1) ++ snd (pseg_line d s2))]
                         ++ map (pseg_line d) segs2) = ROk caps /\
               ok_c05 (mkProg d (ploads_of segs)) (Ok (map observe caps)) = true /\
               dom_c05 (mkProg d (ploads_of segs)) = true.
Proof. exact popon_refines_608_merged. Qed.
Print Assumptions C05_popon_refines_608_merged.
(* non-vacuity: ENM RCL PAC "ab" PAC "cd" EOC at 00:00:01:00 cut after its fourth word (second line 00:00:01:04) *)
Example C05_layout_instance : exists caps, read 0 ex_split = ROk caps /\
  ok_c05 (mkProg false [ex_load]) (Ok (map observe caps)) = true /\ dom_c05 (mkProg false [ex_load]) = true.
Proof. exact ex_refines. Qed.
Example C05_cut_side_condition_needed :
  split_ok [38062; 37920; 37952; 24930; 37152] [44792; 37935] = false /\
  read 0 [(lit "00:00:01:00", [38062; 37920; 37952; 24930; 37152] ++ [44792; 37935]); (lit "00:00:03:00", [37932])]
    = ROk [mkPre 1201200 3003000 [CText [97; 98; 46; 120] (14, 0)] (Some (14, 0))] /\
  read 0 [(lit "00:00:01:00", [38062; 37920; 37952; 24930; 37152]); (lit "00:00:01:05", [44792; 37935]); (lit "00:00:03:00", [37932])]
    = ROk [mkPre 1201200 3003000 [CText [97; 98; 32; 46; 120] (14, 0)] (Some (14, 0))].
Proof. exact ex_side_condition_needed. Qed.

(* (2) the text front end (model/SccTokenise.v: splitlines, header line skipped, blank lines ignored, lower-casing, timecode
   field = longest prefix of [0-9:;], split at single blanks, strip, 4-character tokens, hex): tokenising the canonical SCC
   text of a line list (lower- or upper-case hex digits; LF, CRLF or CR line ends) gives the line list back, so every
   theorem about `read off ls` is a theorem about the SCC TEXT `render_gen up eol ls` *)
Theorem C05_tokenise_render : forall up eol ls,
  good_eol eol -> Forall wf_sline ls -> tokenise (render_gen up eol ls) = ls.
Proof. exact tokenise_render_gen. Qed.
Print Assumptions C05_tokenise_render.
Theorem C05_read_text : forall off up eol ls,
  good_eol eol -> Forall wf_sline ls -> read off (tokenise (render_gen up eol ls)) = read off ls.
Proof. exact read_tokenise_render_gen. Qed.
Print Assumptions C05_read_text.
(* rendered text has no dropped tokens: the reader's raw-token lookahead and the model's next-word lookahead coincide *)
Theorem C05_rendered_tokens_regular : forall up l, wf_sline l -> tokens_regular (render_line up l) = true.
Proof. exact tokens_regular_render_line. Qed.
Print Assumptions C05_rendered_tokens_regular.
(* (1) + (2) + popon_refines_608: the canonical SCC TEXT of any admissible line layout of a well-formed pop-on program is
   read - tokeniser included - into captions that satisfy the CEA-608 screen oracle *)
Theorem C05_popon_refines_608_text : forall d off segs evs spans ls' up eol,
  forallb pseg_ok8 segs = true -> res_map (pseg_event d off) segs = Ok evs -> positive evs -> after_show None evs ->
  expected_with join_threshold evs = Ok spans ->
  relayout off (map (pseg_line d) segs) ls' -> Forall wf_sline ls' -> good_eol eol ->
  exists caps, read off (tokenise (render_gen up eol ls')) = ROk caps /\
               ok_c05 (mkProg d (ploads_of segs)) (Ok (map observe caps)) = true /\
               dom_c05 (mkProg d (ploads_of segs)) = true.
Proof. exact popon_refines_608_text. Qed.
Print Assumptions C05_popon_refines_608_text.
Example C05_text_instance :
  exists caps, read 0 (tokenise (render_gen true eol_crlf ex_split)) = ROk caps /\
               ok_c05 (mkProg false [ex_load]) (Ok (map observe caps)) = true.
Proof. exact popon_refines_608_text_instance. Qed.
Example C05_tokenise_instance :
  tokenise (lit "anything" ++ [10] ++ lit "00:00:01:00  9420  9470 zz61 942 94200 " ++ [9] ++ lit "942f")
  = [ (lit "00:00:01:00", [37920; 38000; 0; 37935]) ].
Proof. vm_compute. reflexivity. Qed.

(* non-vacuity of C05_popon_refines_608: a whole program with mid-row codes, extended characters, a backspace, an italic
   preamble, adjacent and scattered rows, two loads and a clear line, doubled codes: the hypotheses hold and the conclusion
   is checked by running the model *)
Example C05_refines_608_instance :
  let l1 := [mkRow 3 0 0 14 [Ch 72; Mid 0; Ch 105; Ext 101 0 1]; mkRow 4 4 1 0 [Ch 97; Ch 98; Bs; Sp 3]] in
  let l2 := [mkRow 15 0 0 0 [Ch 120; Mid 14; Ch 121]; mkRow 9 8 0 1 [Ch 122]] in
  let segs := [PLoad (lit "00:00:01:00") l1; PClear (lit "00:00:03:00"); PLoad (lit "00:00:05:00") l2] in
  forallb (fun s => match s with PLoad _ l => load_wf l | PClear _ => true end) segs = true /\
  match res_map (pseg_event true 0) segs with
  | Ok evs => match read 0 (map (pseg_line true) segs) with
              | ROk caps => ok_c05 (mkProg true (ploads_of segs)) (Ok (map observe caps)) && Nat.eqb (length caps) 3
              | _ => false
              end
  | Err _ => false
  end = true.
Proof. vm_compute. split; reflexivity. Qed.

(* ---- non-vacuity / behaviour after fix #22: the second caption is addressed on its own ---------------------------- *)
Example C05_example_two_loads :
  let p := mkProg false [[mkRow 14 0 0 0 [Ch 97]]; [mkRow 15 4 0 0 [Ch 98]]] in
  let ls := [(lit "00:00:01:00", emit_load false (nth 0 (pg_loads p) [])); (lit "00:00:03:00", emit_load false (nth 1 (pg_loads p) []));
             (lit "00:00:05:00", emit_clear false)] in
  match read 0 ls with
  | ROk [c1; c2] => pc_nodes c1 = [CText [97] (14, 0)] /\ pc_nodes c2 = [CText [98] (15, 4)]
  | _ => False
  end.
Proof. vm_compute. split; reflexivity. Qed.

(* ---- wave 7: the load line pycaption's own SCCWriter produces ------------------------------------------------------
   (a) the INDENT form of the preamble address code with indent 0 (attributes 16 / 17, second byte 0x50 / 0x70) is a row
       of the program type (rw_style 16 / 17 at indent 0; row_ok admits it, so every theorem above covers it);
   (b) Erase-Displayed-Memory INSIDE the load line, before its End-Of-Caption:  ENM RCL rows EDM EOC. ------------------ *)
From PV Require Import spec.SpecScc05Inline proofs.SccInlineEdmFacts.

(* the display side of the reader state (stash, pop-on queue, self.time, timecode string) is neither read nor written by
   a word other than RDC / RU2 / RU3 / RU4 / EOC / CR / EDM while pop-on is the active mode: for ALL states and words *)
Theorem C05_quiet_word_frame : forall x st q tm tc w n, r_active x = MPop -> quiet w = true ->
  translate_word (fr_set x st q tm tc) w n = fr_set (translate_word x w n) st q tm tc.
Proof. exact frame_tw. Qed.
Print Assumptions C05_quiet_word_frame.
(* every word of a well-formed load (rows of load_wf: preamble codes incl. the indent-0 form, tab offsets, characters,
   special / extended characters, mid-row codes, backspace; single or doubled) is such a word *)
Theorem C05_load_words_quiet : forall d l, load_wf l = true -> forallb quiet (flat_map (emit_row d) l) = true.
Proof. exact load_quiet. Qed.
Print Assumptions C05_load_words_quiet.
(* from ANY pop-on state: the one line  tc: ENM RCL body EDM EOC  leaves the reader where the two lines
   tcE: EDM | tcL: ENM RCL body EOC  leave it (up to the representation of the clock), for every quiet body, when tcE / tcL
   denote the instants the EDM / EOC words have on the one line *)
Theorem C05_inline_edm : forall d s tc tcE tcL body',
  r_err s = None -> r_active s = MPop -> last_is (r_last s) w_enm = false ->
  (last_is (r_last s) w_edm = false \/ r_queue s = None) ->
  forallb quiet body' = true ->
  same_clock (r_offset s) tc (Z.of_nat (length (ctl d w_enm ++ ctl d w_rcl ++ body'))) tcE ->
  same_clock (r_offset s) tc (if d then 2 else 1) tcL ->
  r_err (translate_line (translate_line s (tcE, ctl d w_edm)) (tcL, (ctl d w_enm ++ ctl d w_rcl ++ body') ++ ctl d w_eoc)) = None ->
  state_eq (translate_line s (tc, (ctl d w_enm ++ ctl d w_rcl ++ body') ++ ctl d w_edm ++ ctl d w_eoc))
           (translate_line (translate_line s (tcE, ctl d w_edm)) (tcL, (ctl d w_enm ++ ctl d w_rcl ++ body') ++ ctl d w_eoc)).
Proof. exact inline_edm. Qed.
Print Assumptions C05_inline_edm.
(* whole streams mixing lines of the old layout and writer-style load lines read like the expanded stream *)
Theorem C05_read_inline : forall d off ws evs, Forall (wseg_clock d off) ws -> forallb pseg_ok8 (wexpand ws) = true ->
  res_map (pseg_event d off) (wexpand ws) = Ok evs ->
  read off (map (wseg_line d) ws) = read off (map (pseg_line d) (wexpand ws)).
Proof. exact read_wsegs. Qed.
Print Assumptions C05_read_inline.
(* THE REFINEMENT THEOREM FOR THE WRITER'S LAYOUT (the lemma builder sccw composes with): every load satisfies load_wf
   (pseg_ok8), the display events - for a writer-style line: Clear at the instant of its EDM, Show at the instant of its
   EOC - are positive and ordered as in popon_refines_608 *)
Theorem C05_popon_refines_608_inline : forall d off ws evs spans,
  Forall (wseg_clock d off) ws -> forallb pseg_ok8 (wexpand ws) = true ->
  res_map (pseg_event d off) (wexpand ws) = Ok evs -> positive evs -> after_show None evs ->
  expected_with join_threshold evs = Ok spans ->
  exists caps, read off (map (wseg_line d) ws) = ROk caps /\
               ok_c05 (mkProg d (ploads_of (wexpand ws))) (Ok (map observe caps)) = true /\
               dom_c05 (mkProg d (ploads_of (wexpand ws))) = true.
Proof. exact popon_refines_608_inline. Qed.
Print Assumptions C05_popon_refines_608_inline.
(* for a rendered timecode the two side timecodes exist: winline d t l = WInline (render_tc t) ... *)
Theorem C05_same_clock_shift : forall off t n, tc_wf t = true -> 0 <= n -> tc_total t + n < 10800000 ->
  same_clock off (render_tc t) n (render_tc (tc_shift t n)).
Proof. exact same_clock_shift. Qed.
Print Assumptions C05_same_clock_shift.
Theorem C05_winline_clock : forall d off t l, tc_wf t = true ->
  tc_total t + Z.of_nat (length (load_body d l)) + 2 < 10800000 -> wseg_clock d off (winline d t l).
Proof. exact winline_clock. Qed.
Print Assumptions C05_winline_clock.
(* non-vacuity: the words SCCWriter writes for "Hi\nthere" and "bye" (attribute-16 preamble codes, EDM EDM EOC EOC inside
   the line, the second load directly after the first), hypotheses hold, the model's read satisfies ok_c05 *)
Example C05_inline_instance_lines : map (wseg_line true) exw_ws =
  [ (lit "00:00:01:00", [38062; 38062; 37920; 37920; 38096; 38096; 51433; 38000; 38000; 62568; 58866; 58752; 37932; 37932; 37935; 37935]);
    (lit "00:00:02:27", [38062; 38062; 37920; 37920; 38000; 38000; 25209; 58752; 37932; 37932; 37935; 37935]);
    (lit "00:00:05:00", [37932; 37932]) ].
Proof. exact exw_lines. Qed.
Example C05_inline_instance_hyps : Forall (wseg_clock true 0) exw_ws /\ forallb pseg_ok8 (wexpand exw_ws) = true.
Proof. exact exw_hyps. Qed.
Example C05_inline_instance_runs :
  match res_map (pseg_event true 0) (wexpand exw_ws) with
  | Ok evs => match read 0 (map (wseg_line true) exw_ws) with
              | ROk caps => ok_c05 (mkProg true [exw_l1; exw_l2]) (Ok (map observe caps)) && Nat.eqb (length caps) 2
              | _ => false
              end
  | Err _ => false
  end = true.
Proof. exact exw_runs. Qed.
(* the attribute-16 / 17 rows are inside the domain of every theorem stated with load_wf / row_ok *)
Example C05_indent0_form_in_domain :
  row_ok (mkRow 15 0 0 16 [Ch 97]) = true /\ row_ok (mkRow 1 0 2 17 [Ch 97; Mid 14; Ch 98]) = true /\
  emit_row true (mkRow 15 0 0 16 [Ch 97]) = [38000; 38000; 24960].
Proof. vm_compute. repeat split; reflexivity. Qed.
(* audit (wave 7): the other hypotheses of C05_popon_refines_608_inline hold on the instance as well *)
From PV Require Import proofs.SccInlineCorFacts.
Example C05_inline_instance_event_hyps : exists evs spans,
  res_map (pseg_event true 0) (wexpand exw_ws) = Ok evs /\ positive evs /\ after_show None evs /\
  expected_with join_threshold evs = Ok spans.
Proof. exact exw_event_hyps. Qed.
(* ... and at the level of the SCC TEXT, through the Coq tokeniser (upper / lower hex, LF / CRLF / CR) *)
From PV Require Import proofs.SccInlineCorFacts.
Theorem C05_popon_refines_608_inline_text : forall d off ws evs spans up eol,
  Forall (wseg_clock d off) ws -> forallb pseg_ok8 (wexpand ws) = true ->
  res_map (pseg_event d off) (wexpand ws) = Ok evs -> positive evs -> after_show None evs ->
  expected_with join_threshold evs = Ok spans ->
  Forall wf_sline (map (wseg_line d) ws) -> good_eol eol ->
  exists caps, read off (tokenise (render_gen up eol (map (wseg_line d) ws))) = ROk caps /\
               ok_c05 (mkProg d (ploads_of (wexpand ws))) (Ok (map observe caps)) = true /\
               dom_c05 (mkProg d (ploads_of (wexpand ws))) = true.
Proof. exact popon_refines_608_inline_text. Qed.
Print Assumptions C05_popon_refines_608_inline_text.

(* for builder sccw: a non-empty row of at most 32 basic characters without a blank at either end, addressed by the writer's
   preamble code (indent-0 form, attribute 16 / 17) on rows 1-15, is a row of the domain, and its words are the preamble code
   twice followed by the characters in pairs *)
Theorem C05_writer_row_ok : forall row u line, 1 <= row <= 15 -> (u = 16 \/ u = 17) -> forallb is_basic line = true ->
  line <> [] -> hd 0 line <> 32 -> last line 0 <> 32 -> (length line <= 32)%nat ->
  row_ok (mkRow row 0 0 u (map Ch line)) = true.
Proof. exact writer_row_ok. Qed.
Print Assumptions C05_writer_row_ok.
Theorem C05_writer_row_emit_unfold : forall row u line,
  emit_row true (mkRow row 0 0 u (map Ch line)) = [pac_word row u; pac_word row u] ++ pack true (map TCh line) None.
Proof. exact writer_row_emit. Qed.
Print Assumptions C05_writer_row_emit_unfold.
Example C05_writer_row_instance : row_ok (mkRow 15 0 0 16 (map Ch [72; 105; 32; 116; 104; 101; 114; 101])) = true.
Proof. exact writer_row_instance. Qed.

(* ---- wave 8: MIXED per-code doubling - special / extended characters (mid-row codes, backspace) sent SINGLE among DOUBLED
   preamble and mode codes, what pycaption's SCCWriter emits (proofs/SccMixedDoublingFacts.v, spec/SpecSccMixed.v) ----------- *)
From PV Require Import spec.SpecSccMixed proofs.SccMixedDoublingFacts.
(* a quiet word does not read the frame counter: for ALL pop-on states, words, shifts *)
Theorem C05_quiet_word_frame_counter : forall k x w n, r_active x = MPop -> quiet w = true ->
  translate_word (sh k x) w n = sh k (translate_word x w n).
Proof. exact sh_tw. Qed.
Print Assumptions C05_quiet_word_frame_counter.
(* redundant copies: if d is m with second copies inserted after words of a doubled type (no preamble code, no cue-starting
   command, no mid-row code; neighbours different), the reader reaches from related states related states - equal up to the
   frame counter and the memory of the last command *)
Theorem C05_redundant_copies_run : forall prev m d, dd prev m d -> forall wo x y nx, r_active x = MPop -> Rel wo x y ->
  (forall u, last_is (r_last x) u = true -> prev = Some u) -> (forall w, wo = Some w -> nexto m <> Some w) ->
  exists wo', Rel wo' (tws x m nx) (tws y d nx).
Proof. exact dd_run. Qed.
Print Assumptions C05_redundant_copies_run.
Theorem C05_ddb_sound : forall m prev d, ddb prev m d = true -> dd prev m d.
Proof. exact ddb_sound. Qed.
Print Assumptions C05_ddb_sound.
(* a load line with some codes single = the all-doubled load line whose End-Of-Caption has the same instant *)
Theorem C05_load_line_mixed : forall d s tcA tcB bm bd,
  r_err s = None -> r_active s = MPop -> last_is (r_last s) w_enm = false ->
  dd (Some w_rcl) bm bd ->
  same_clock (r_offset s) tcB (Z.of_nat (length bd) - Z.of_nat (length bm)) tcA -> (length bm <= length bd)%nat ->
  r_err (translate_line s (tcB, (ctl d w_enm ++ ctl d w_rcl ++ bd) ++ ctl d w_eoc)) = None ->
  state_eq (translate_line s (tcA, (ctl d w_enm ++ ctl d w_rcl ++ bm) ++ ctl d w_eoc))
           (translate_line s (tcB, (ctl d w_enm ++ ctl d w_rcl ++ bd) ++ ctl d w_eoc)).
Proof. exact load_line_mixed. Qed.
Print Assumptions C05_load_line_mixed.
Theorem C05_read_mixed : forall d off ms evs, Forall (mseg_ok d off) ms -> forallb pseg_ok8 (mexpand ms) = true ->
  res_map (pseg_event d off) (mexpand ms) = Ok evs ->
  read off (map (mseg_line d) ms) = read off (map (pseg_line d) (mexpand ms)).
Proof. exact read_msegs. Qed.
Print Assumptions C05_read_mixed.
(* THE REFINEMENT THEOREM FOR WRITER LINES WITH MIXED DOUBLING (for builder sccw): segments MW (wave 7) or
   MMix tc tcE tcL tcD l bm = the line  tc: ENM RCL bm EDM EOC  with dd bm (rows of l doubled) *)
Theorem C05_popon_refines_608_mixed : forall d off ms evs spans,
  Forall (mseg_ok d off) ms -> forallb pseg_ok8 (mexpand ms) = true ->
  res_map (pseg_event d off) (mexpand ms) = Ok evs -> positive evs -> after_show None evs ->
  expected_with join_threshold evs = Ok spans ->
  exists caps, read off (map (mseg_line d) ms) = ROk caps /\
               ok_c05 (mkProg d (ploads_of (mexpand ms))) (Ok (map observe caps)) = true /\
               dom_c05 (mkProg d (ploads_of (mexpand ms))) = true.
Proof. exact popon_refines_608_mixed. Qed.
Print Assumptions C05_popon_refines_608_mixed.
(* non-vacuity: "Hi ♪" / "a½b" as SCCWriter sends it (preamble codes doubled, 9137 / 9132 single) *)
Example C05_mixed_instance_line : mseg_line true (mmix (mkTc 0 0 1 false 0) exm_l) =
  (lit "00:00:01:00", [38062; 38062; 37920; 37920; 38096; 38096; 51433; 8320; 37175; 38000; 38000; 24960; 37170; 25216;
                       37932; 37932; 37935; 37935]).
Proof. exact exm_line. Qed.
Example C05_mixed_instance_hyps : Forall (mseg_ok true 0) exm_ms /\ forallb pseg_ok8 (mexpand exm_ms) = true.
Proof. exact exm_hyps. Qed.
Example C05_mixed_instance_runs :
  match res_map (pseg_event true 0) (mexpand exm_ms) with
  | Ok evs => match read 0 (map (mseg_line true) exm_ms) with
              | ROk caps => ok_c05 (mkProg true [exm_l]) (Ok (map observe caps)) && Nat.eqb (length caps) 1
              | _ => false
              end
  | Err _ => false
  end = true.
Proof. exact exm_runs. Qed.
(* EVERY load of writer rows - preamble code without tab offset, basic and special characters, no special character twice in a
   row - satisfies the hypothesis dd of C05_popon_refines_608_mixed: the special characters single among doubled codes *)
From PV Require Import proofs.SccMixedRowsFacts.
Theorem C05_writer_rows_dd : forall l, Forall wrow l -> forall p, dd p (body_m l) (flat_map (emit_row true) l).
Proof. exact writer_rows_dd. Qed.
Print Assumptions C05_writer_rows_dd.
Example C05_writer_rows_instance : Forall wrow exm_l.
Proof. exact exm_wrows. Qed.
