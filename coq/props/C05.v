(* C05 (stub, replaced when the theorem files land) *)
From Coq Require Import List ZArith QArith Bool.
From PV Require Import spec.SpecScc05.
Theorem C05_stub : balanced nil false = true.
Proof. reflexivity. Qed.
Print Assumptions C05_stub.
