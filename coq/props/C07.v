(* C07 - DFXP output is well-formed XML and internally consistent. (theorems below) *)
From Coq Require Import List ZArith Bool.
From PV Require Import lib.Sx lib.Str lib.Result model.DfxpXml model.DfxpRegion spec.SpecXmlAttr.
Import ListNotations.
