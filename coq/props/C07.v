(* C07 - DFXP output is well-formed XML and internally consistent.
   Only statements closed by `exact`, with Print Assumptions, and non-vacuity examples. *)
From Coq Require Import List ZArith Bool.
From PV Require Import lib.Sx lib.Str lib.Result model.DfxpXml model.DfxpRegion model.DfxpDoc model.DfxpSkel model.DfxpSkelHead model.DfxpSkelBody spec.SpecXmlAttr spec.SpecXmlDoc.
From PV Require Import proofs.XmlAttrFacts proofs.DfxpRegionFacts proofs.DfxpPayloadFacts proofs.DfxpDocFacts proofs.DfxpSkelFacts proofs.DfxpSkelRootFacts proofs.DfxpSkelHeadFacts proofs.DfxpSkelBodyFacts.
Import ListNotations.
Open Scope Z_scope.

(* ---- attribute values: whatever XML characters occur in a style value, class name or language code, the literal
        written for it (quoting rule of bs4 / quoteattr included) is a well-formed AttValue denoting that value ---- *)
Theorem C07_attr_value_wellformed : forall v, forallb is_xml_char v = true -> attr_parse (attr_out v) = Some v.
Proof. exact attr_value_wellformed. Qed.
Print Assumptions C07_attr_value_wellformed.
Theorem C07_span_attr_value_wellformed : forall v, forallb is_xml_char v = true -> attr_parse (quoteattr v) = Some v.
Proof. exact quoteattr_wellformed. Qed.
Print Assumptions C07_span_attr_value_wellformed.

(* ---- text: the escaped text is character data (in particular without ']]>', which text_parse refuses) denoting the
        text -------------------------------------------------------------------------------------------------- *)
Theorem C07_escape_text_wellformed : forall s, forallb is_xml_char s = true -> text_parse (xml_escape s) = Some s.
Proof. exact escape_text_wellformed. Qed.
Print Assumptions C07_escape_text_wellformed.

(* ---- the <p> payload: accepted by the strict content machine whenever no span is left open, in particular for
        balanced style nodes; main and legacy writer ------------------------------------------------------------- *)
Theorem C07_payload_wellformed : forall legacy nodes, Forall node_ok nodes ->
  snd (recreate_text legacy false nodes) = false ->
  exists evs, content_parse (fst (recreate_text legacy false nodes)) = Some evs.
Proof. exact payload_wellformed. Qed.
Print Assumptions C07_payload_wellformed.
Theorem C07_payload_wellformed_balanced : forall legacy nodes, Forall node_ok nodes -> balanced nodes ->
  exists evs, content_parse (fst (recreate_text legacy false nodes)) = Some evs.
Proof. exact payload_wellformed_balanced. Qed.
Print Assumptions C07_payload_wellformed_balanced.
(* the attributes _recreate_style derives from any style dictionary have valid, pairwise distinct names *)
Theorem C07_recreate_style_attrs_ok : forall content ids,
  (forall v, In v (map snd content) -> forallb is_xml_char v = true) -> attrs_ok (recreate_style content ids) [].
Proof. exact recreate_style_attrs_ok. Qed.
Print Assumptions C07_recreate_style_attrs_ok.

(* the same for LegacyDFXPWriter._recreate_style, which may put region= in front *)
Theorem C07_legacy_style_attrs_ok : forall content ids rids,
  (forall v, In v (map snd content) -> forallb is_xml_char v = true) ->
  attrs_ok (legacy_recreate_style content ids rids) [].
Proof. exact legacy_recreate_style_attrs_ok. Qed.
Print Assumptions C07_legacy_style_attrs_ok.

(* a style= reference is only written for a style that exists in the head (this restates the guard of
   recreate_style; its content is the use made of it in C07_doc_consistent_partial) *)
Theorem C07_style_refs_resolve_unfold : forall content ids v,
  In (lit "style", v) (recreate_style content ids) -> existsb (str_eqb v) ids = true.
Proof. exact style_refs_resolve. Qed.
Print Assumptions C07_style_refs_resolve_unfold.

(* ---- regions (model of RegionCreator): ids unique, every reference resolves, no unreferenced region ------------- *)
Theorem C07_region_ids_unique : forall cs, NoDup (defined cs).
Proof. exact region_ids_unique. Qed.
Print Assumptions C07_region_ids_unique.
Theorem C07_regions_resolve : forall cs r, In r (all_refs cs) -> In r (defined cs).
Proof. exact regions_resolve. Qed.
Print Assumptions C07_regions_resolve.
(* `defined` is the filter "created and referenced" (cleanup_regions), so this one is definitional: that the real
   cleanup equals that filter is correspondence (stream R) *)
Theorem C07_no_unreferenced_region_unfold : forall cs r, In r (defined cs) -> In r (all_refs cs).
Proof. exact no_unreferenced_region. Qed.
Print Assumptions C07_no_unreferenced_region_unfold.

(* ---- wave 2: the WHOLE writer traversal (styling section, regions, languages x captions x nodes; model/DfxpDoc.v).
        For every caption set whose style ids are distinct and differ from the region ids, the ids and references of
        the document satisfy the oracle ok_refs: ids unique, every style= (head and body) and every region= resolves
        to exactly one definition, every region defined is referenced.  `_partial`: DFXPWriter (and, through the
        caption set the RegionCreator sees, SinglePositioningDFXPWriter); ids and references only - that the whole
        document is well-formed XML is judged by two strict parsers on the real output. -------------------------- *)
Theorem C07_doc_consistent_partial : forall d, dom_doc d = true ->
  let s := summarize d in
  ok_refs (s_ids s) (s_style_ids s) (s_region_ids s) (s_style_refs s) (s_region_refs s) = 0.
Proof. exact doc_consistent. Qed.
Print Assumptions C07_doc_consistent_partial.
(* the attribute dictionary of a positioned span (style attributes, region, inline positioning attributes merged in
   a dict, positioning wins) has valid, pairwise distinct names: the payload theorem covers positioned spans too *)
Theorem C07_span_attributes_ok : forall content ids region inline,
  (forall v, In v (map snd content) -> forallb is_xml_char v = true) ->
  match region with Some r => forallb is_xml_char r = true | None => True end ->
  (forall k v, In (k, v) inline -> valid_name k = true /\ forallb is_xml_char v = true) ->
  attrs_ok (span_attributes (recreate_style content ids) region inline) [].
Proof. exact span_attributes_ok. Qed.
Print Assumptions C07_span_attributes_ok.

(* the same for LegacyDFXPWriter (wave 3): fixed region "bottom", region= on every <p> and on spans that ask for it,
   for sets with distinct style ids, no written style called "bottom" and at least one caption written *)
Theorem C07_legacy_doc_consistent_partial : forall d, dom_legacy d = true ->
  let s := legacy_summarize d in
  ok_refs (s_ids s) (s_style_ids s) (s_region_ids s) (s_style_refs s) (s_region_refs s) = 0.
Proof. exact legacy_doc_consistent. Qed.
Print Assumptions C07_legacy_doc_consistent_partial.
(* composed (wave 3): from caption nodes - texts, style dictionaries, the region id and the inline positioning
   attributes of a node - to an accepted payload, for both writers *)
Theorem C07_caption_payload_wellformed : forall legacy ids nodes,
  Forall cnode_ok nodes -> balanced (map (to_pnode ids) nodes) ->
  exists evs, content_parse (fst (caption_payload legacy ids nodes)) = Some evs.
Proof. exact caption_payload_wellformed. Qed.
Print Assumptions C07_caption_payload_wellformed.

(* wave 5: SinglePositioningDFXPWriter. Its set transformation (every layout := the one positioning, text-align removed
   from the styles) is modelled by `single_positioning`; every region= of the resulting document names ONE region,
   "bottom" or - when the positioning is a layout of its own that creates a region - "r0"; and the document is
   consistent on a domain phrased on the INPUT (style ids distinct, no written style named like that region).
   `_partial`: ids / references only; merge_concurrent_captions happens before the model *)
Theorem C07_single_one_region : forall p d r, In r (all_refs (to_rset (single_positioning p d))) -> r = single_region p.
Proof. exact single_refs. Qed.
Print Assumptions C07_single_one_region.
Theorem C07_single_doc_consistent_partial : forall p d, dom_single p d = true ->
  let s := summarize (single_positioning p d) in
  ok_refs (s_ids s) (s_style_ids s) (s_region_ids s) (s_style_refs s) (s_region_refs s) = 0.
Proof. exact single_doc_consistent. Qed.
Print Assumptions C07_single_doc_consistent_partial.

(* ---- wave 7: the WHOLE document as a string (model/DfxpSkel.v: prolog, tt with its namespace declarations, head /
        styling / layout, body / div / p, prettify's indentation and empty-element tags, attributes sorted and escaped /
        quoted by the output formatter) is accepted by the specification's DOCUMENT machine (spec/SpecXmlDoc.v: XML
        declaration, exactly one root element parsed by the strict content machine, white space only around it) -
        whatever attribute dictionaries (valid distinct names, values of XML characters) and well-formed payloads
        the tree carries ------------------------------------------------------------------------------------------- *)
Theorem C07_document_wellformed : forall d, skdoc_ok d -> exists evs, doc_parse (dfxp_document d) = Some evs.
Proof. exact skeleton_wellformed. Qed.
Print Assumptions C07_document_wellformed.
(* composed with C07_caption_payload_wellformed: from caption nodes (texts, style dictionaries, region ids, inline
   attributes - balanced style nodes) and any language code made of XML characters to a well-formed document, main
   and legacy writer *)
Theorem C07_document_of_captions_wellformed_partial : forall legacy ids lang styles regions divs,
  forallb is_xml_char lang = true ->
  Forall (fun a => attrs_ok a []) styles -> Forall (fun a => attrs_ok a []) regions ->
  Forall (fun dv => attrs_ok (fst dv) [] /\ Forall (caption_ok ids) (snd dv)) divs ->
  exists evs, doc_parse (dfxp_document (doc_of_captions legacy ids lang styles regions divs)) = Some evs.
Proof. exact document_of_captions_wellformed. Qed.
Print Assumptions C07_document_of_captions_wellformed_partial.
(* the content machine is compositional: content that is well-formed on its own is accepted inside any open elements,
   after any text that does not end in ']' (so that no ']]>' can arise across the seam) *)
Theorem C07_content_in_context : forall f evs, content_parse f = Some evs ->
  forall base ev acc, hd1 acc = false -> exists ev' acc', xrun (cst base ev acc) f = Some (cst base ev' acc').
Proof. exact content_in_context. Qed.
Print Assumptions C07_content_in_context.
(* bs4 writes the attributes of a tag sorted by name: a dictionary with valid distinct names stays one *)
Theorem C07_sorted_attrs_ok : forall attrs, attrs_ok attrs [] -> attrs_ok (sort_attrs attrs) [].
Proof. exact attrs_ok_sorted. Qed.
Print Assumptions C07_sorted_attrs_ok.

(* the root of the rendered document, read back by the document machine: the first event opens `tt` with the sorted
   root dictionary - values decoded; for the writers' root dictionary: xmlns is the TTML namespace (root_in_ns) and
   xml:lang is the language code that was given, whatever XML characters it contains *)
Theorem C07_document_root : forall d, skdoc_ok d ->
  exists rest, doc_parse (dfxp_document d) = Some (EOpen tt_name (sort_attrs (k_tt d)) :: rest).
Proof. exact skeleton_root. Qed.
Print Assumptions C07_document_root.
(* audit w7: the namespace names in this statement are the SPECIFICATION's literals (spec/SpecXmlDoc.v spec_ttml_ns /
   spec_tts_ns, written from the TTML recommendation), not the model's constants; the former second conjunct
   (root_in_ns of that literal event list) was a computation independent of renderer and parser and is dropped *)
Theorem C07_document_of_captions_root_in_ttml_namespace : forall legacy ids lang styles regions divs,
  forallb is_xml_char lang = true ->
  Forall (fun a => attrs_ok a []) styles -> Forall (fun a => attrs_ok a []) regions ->
  Forall (fun dv => attrs_ok (fst dv) [] /\ Forall (caption_ok ids) (snd dv)) divs ->
  exists rest, doc_parse (dfxp_document (doc_of_captions legacy ids lang styles regions divs))
               = Some (EOpen (lit "tt") [(lit "xml:lang", lang); (lit "xmlns", spec_ttml_ns); (lit "xmlns:tts", spec_tts_ns)] :: rest).
Proof. exact document_of_captions_root. Qed.
Print Assumptions C07_document_of_captions_root_in_ttml_namespace.

(* the <styling> section of the TREE (model/DfxpSkelHead.v: the <style> dictionaries DFXPWriter.write builds from the style
   table - xml:id first, then the attributes of _recreate_style, an element only when it gets one): they are valid
   dictionaries whenever ids and values are made of XML characters, and the ids / style= references READ FROM THEM are
   exactly those of the traversal model `summarize` about which C07_doc_consistent_partial speaks (the body references
   remain those of the model) *)
Theorem C07_style_elems_ok : forall styles, (forall st, In st styles -> style_entry_ok st) ->
  Forall (fun a => attrs_ok a []) (style_elems styles).
Proof. exact style_elems_ok. Qed.
Print Assumptions C07_style_elems_ok.
Theorem C07_style_elems_are_the_summary_unfold : forall d,
  elem_ids (style_elems (ds_styles d)) = s_style_ids (summarize d) /\
  s_style_refs (summarize d) = elem_style_refs (style_elems (ds_styles d)) ++ body_style_refs (s_style_ids (summarize d)) d.
Proof. exact style_elems_vs_summarize. Qed.
Print Assumptions C07_style_elems_are_the_summary_unfold.
(* the whole document with that <styling> section: no hypothesis on the style dictionaries any more, only XML characters *)
Theorem C07_document_with_styling_wellformed_partial : forall legacy table lang regions divs,
  (forall st, In st table -> style_entry_ok st) -> forallb is_xml_char lang = true ->
  Forall (fun a => attrs_ok a []) regions ->
  Forall (fun dv => attrs_ok (fst dv) [] /\ Forall (caption_ok (fst (styling table))) (snd dv)) divs ->
  exists evs, doc_parse (dfxp_document (doc_of_captions legacy (fst (styling table)) lang (style_elems table) regions divs)) = Some evs.
Proof. exact document_with_styling. Qed.
Print Assumptions C07_document_with_styling_wellformed_partial.

(* ---- round 4: ids and references of the DOCUMENT. model/DfxpSkelBody.v builds the <region> dictionaries of <layout> and
        the <div> / <p> / <span> dictionaries of <body> from the caption set as DFXPWriter.write does (the set is the
        traversal model's, decorated with what the reference model does not look at: language codes, begin / end, the
        positioning attributes of write_inline_positioning and of the <region> elements; `erase` forgets the decoration).
        The ids (xml:id of every <style> and <region>) and the references (style= and region= of EVERY element of the
        tree: style, region, div, p, span) READ FROM THESE DICTIONARIES are exactly the summary of the traversal model,
        whenever the decoration carries no style / region / xml:id key; hence ok_refs - ids unique, every style= and
        region= in head and body resolves to exactly one definition, every region defined is referenced - holds of the
        tree, for every caption set of dom_doc (every dset is the erasure of a decorated set: the third statement).
        DFXPWriter and, through single_positioning, SinglePositioningDFXPWriter; the tree of LegacyDFXPWriter is not
        built (its statement stays C07_legacy_doc_consistent_partial). ---------------------------------------------- *)
Theorem C07_document_tree_is_the_summary_unfold : forall extra x, deco_ok extra x ->
  let t := tree_of extra x in let s := summarize (erase x) in
  tree_ids t = s_ids s /\ tree_style_ids t = s_style_ids s /\ tree_region_ids t = s_region_ids s /\
  tree_style_refs t = s_style_refs s /\ tree_region_refs t = s_region_refs s.
Proof. exact tree_is_the_summary. Qed.
Print Assumptions C07_document_tree_is_the_summary_unfold.
Theorem C07_document_references_resolved : forall extra x, deco_ok extra x -> dom_doc (erase x) = true ->
  let t := tree_of extra x in
  ok_refs (tree_ids t) (tree_style_ids t) (tree_region_ids t) (tree_style_refs t) (tree_region_refs t) = 0.
Proof. exact document_references_resolved. Qed.
Print Assumptions C07_document_references_resolved.
Theorem C07_every_set_has_a_resolved_tree : forall d, dom_doc d = true ->
  exists x, erase x = d /\ deco_ok (fun _ => []) x /\
            let t := tree_of (fun _ => []) x in
            ok_refs (tree_ids t) (tree_style_ids t) (tree_region_ids t) (tree_style_refs t) (tree_region_refs t) = 0.
Proof. exact every_set_has_a_resolved_tree. Qed.
Print Assumptions C07_every_set_has_a_resolved_tree.

(* ---- non-vacuity ------------------------------------------------------------------------------------------------ *)
Example C07_example_attr :
  attr_out (lit "a""b<c&d") = [39] ++ lit "a""b&lt;c&amp;d" ++ [39] /\
  attr_out (lit "x""y'z") = lit """x&quot;y'z""" /\ attr_parse (lit """x&quot;y'z""") = Some (lit "x""y'z").
Proof. vm_compute. repeat split. Qed.
Example C07_example_payload :
  let nodes := [PText (lit "a "); PBreak; PStyleStart [(lit "tts:color", lit "r&d")]; PStyleStart [];
                PText (lit "x<y"); PStyleEnd; PText (lit "z"); PStyleEnd] in
  recreate_text false false nodes
  = (lit "a<br/>" ++ [10; 32; 32; 32; 32] ++ lit "<span tts:color=""r&amp;d"">x&lt;y</span>z", false)
  /\ exists evs, content_parse (fst (recreate_text false false nodes)) = Some evs.
Proof. split; [vm_compute; reflexivity|eexists; vm_compute; reflexivity]. Qed.
Example C07_example_document :
  let d := mkDset None [(lit "k1", [(lit "color", lit "white")]); (lit "k2", [(lit "class", lit "k1"); (lit "italics", lit "x")]);
                        (lit "empty", [])]
             [mkDlang (Some (1, true, true))
                [mkDcap None (Some [(lit "class", lit "k2")])
                   [mkDnode (mkRnode (Some (2, true, true)) true) [(lit "class", lit "k1"); (lit "text-align", lit "left")]];
                 mkDcap None None []]] in
  dom_doc d = true /\
  s_ids (summarize d) = [lit "k1"; lit "k2"; lit "r0"; lit "r1"] /\
  s_style_refs (summarize d) = [lit "k1"; lit "k2"; lit "k1"] /\
  s_region_refs (summarize d) = [lit "r0"; lit "r0"; lit "r1"; lit "r0"] /\
  span_attributes [(lit "tts:textAlign", lit "left")] (Some (lit "r1")) [(lit "tts:origin", lit "10% 20%"); (lit "tts:textAlign", lit "start")]
  = [(lit "tts:textAlign", lit "start"); (lit "region", lit "r1"); (lit "tts:origin", lit "10% 20%")].
Proof. vm_compute. repeat split. Qed.
Example C07_example_regions :
  let cs := mkRset None [mkRlang (Some (1, true, true)) [mkRcap None [mkRnode (Some (2, true, true)) false; mkRnode (Some (3, true, true)) true];
                                                  mkRcap (Some (0, true, true)) []]] in
  created cs = [-1; 0; 1; 2] /\ defined cs = [-1; 0; 2] /\
  refs cs = [(0, [(0, [2]); (-1, [])])].
Proof. vm_compute. repeat split. Qed.
(* quoteattr with tab / line feed / carriage return: character references, and the value comes back *)
Example C07_example_quoteattr_whitespace :
  quoteattr [97; 9; 98; 10; 99; 13; 100] = lit """a&#9;b&#10;c&#13;d""" /\
  attr_parse (quoteattr [97; 9; 98; 10; 99; 13; 100]) = Some [97; 9; 98; 10; 99; 13; 100].
Proof. vm_compute. split; reflexivity. Qed.
(* ']]>' is refused in character data, accepted (escaped) from the writers *)
Example C07_example_cdata_end :
  text_parse (lit "a]]>b") = None /\ content_parse (lit "a]]>b") = None /\
  text_parse (xml_escape (lit "a]]>b")) = Some (lit "a]]>b") /\
  content_parse (lit "<span x=""]]>"">]]&gt;</span>") <> None.
Proof. vm_compute. repeat split; discriminate. Qed.
(* the hypotheses of the composed payload theorem hold for an ordinary caption: a positioned, styled span with
   inline attributes, markup characters in values and text *)
Example C07_example_caption_payload :
  let nodes := [CText (lit "a & b"); CBreak;
                CStart [(lit "color", lit "r&d"); (lit "class", lit "k1")] (Some (lit "r0")) [(lit "tts:origin", lit "10% 20%")];
                CText (lit "x<y]]>"); CEnd] in
  Forall cnode_ok nodes /\ balanced (map (to_pnode [lit "k1"]) nodes) /\
  fst (caption_payload false [lit "k1"] nodes)
  = lit "a &amp; b<br/>" ++ [10; 32; 32; 32; 32]
    ++ lit "<span style=""k1"" tts:color=""r&amp;d"" region=""r0"" tts:origin=""10% 20%"">x&lt;y]]&gt;</span>".
Proof.
  split; [|split; [|vm_compute; reflexivity]].
  - constructor; [reflexivity|]. constructor; [exact I|]. constructor; [|constructor; [reflexivity|constructor; [exact I|constructor]]].
    cbn [cnode_ok]. split; [|split; [reflexivity|]].
    + intros v [<-|[<-|[]]]; reflexivity.
    + intros k v [E|[]]. inversion E; subst. split; reflexivity.
  - cbn [map to_pnode]. apply bal_text. apply bal_break.
    apply (bal_span _ [PText (lit "x<y]]>")] []); [apply bal_text; constructor|constructor].
Qed.
(* the legacy writer at document level: style chain in the head, a span asking for the fixed region *)
Example C07_example_legacy_document :
  let d := mkDset None [(lit "k1", [(lit "color", lit "white")]); (lit "k2", [(lit "class", lit "k1"); (lit "region", lit "bottom")])]
             [mkDlang None [mkDcap None (Some [(lit "class", lit "k2")])
                              [mkDnode (mkRnode None true) [(lit "region", lit "bottom"); (lit "color", lit "red")];
                               mkDnode (mkRnode None true) [(lit "region", lit "r7")]]]] in
  dom_legacy d = true /\
  s_ids (legacy_summarize d) = [lit "k1"; lit "k2"; lit "bottom"] /\
  s_style_refs (legacy_summarize d) = [lit "k1"; lit "k2"] /\
  s_region_refs (legacy_summarize d) = [lit "bottom"; lit "bottom"].
Proof. vm_compute. repeat split. Qed.
(* hypotheses of the attribute-dictionary theorems, instantiated: a dictionary with markup characters in its values *)
Example C07_example_style_attrs :
  let content := [(lit "color", lit "r&d<"); (lit "class", lit "a&b"); (lit "region", lit "bottom"); (lit "italics", lit "")] in
  (forall v, In v (map snd content) -> forallb is_xml_char v = true) /\
  recreate_style content [lit "a&b"] = [(lit "style", lit "a&b"); (lit "tts:color", lit "r&d<")] /\
  legacy_recreate_style content [lit "a&b"] [lit "bottom"]
  = [(lit "region", lit "bottom"); (lit "style", lit "a&b"); (lit "tts:color", lit "r&d<")].
Proof. split; [intros v [<-|[<-|[<-|[<-|[]]]]]; reflexivity|split; vm_compute; reflexivity]. Qed.
(* single positioning: whatever layouts the set had, one region; a custom positioning gives "r0"; a style called r0
   is then outside the domain *)
Example C07_example_single_positioning :
  let d := mkDset (Some (3, true, true)) [(lit "k1", [(lit "text-align", lit "left"); (lit "color", lit "white")])]
             [mkDlang (Some (1, true, true))
                [mkDcap (Some (2, true, true)) (Some [(lit "class", lit "k1")])
                   [mkDnode (mkRnode (Some (4, false, true)) true) [(lit "color", lit "red")]]]] in
  dom_single (Some (0, true, true)) d = true /\
  s_ids (summarize (single_positioning (Some (0, true, true)) d)) = [lit "k1"; lit "bottom"] /\
  s_region_refs (summarize (single_positioning (Some (0, true, true)) d)) = [lit "bottom"; lit "bottom"; lit "bottom"] /\
  s_region_ids (summarize (single_positioning (Some (7, true, true)) d)) = [lit "r0"] /\
  dom_single (Some (7, true, true)) (mkDset None [(lit "r0", [(lit "color", lit "white")])] (ds_langs d)) = false.
Proof. vm_compute. repeat split. Qed.

(* wave 7: a whole document - markup characters in a style value, a language code and a text; an empty <p>; an empty
   <div> (written as an empty-element tag); the hypotheses of the document theorem hold for it; and the document
   machine refuses what XML refuses at document level *)
Definition C07_example_skdoc : skdoc :=
  mkSkdoc (tt_attrs (lit "en"))
          [[(lit "xml:id", lit "k1"); (lit "tts:color", lit "a""b'c<")]]
          [[(lit "xml:id", lit "bottom"); (lit "tts:textAlign", lit "start")]]
          [mkSkdiv [(lit "xml:lang", lit "en-US"); (lit "region", lit "bottom")]
                   [mkSkp [(lit "begin", lit "00:00:00.000"); (lit "end", lit "00:00:01.000"); (lit "style", lit "k1"); (lit "region", lit "bottom")]
                          (lit "  a &amp; b<br/>" ++ [10; 32; 32; 32; 32] ++ lit "<span tts:color='r""d'> x&lt;y </span>");
                    mkSkp [(lit "begin", lit "1"); (lit "end", lit "2")] [32; 10]];
           mkSkdiv [(lit "xml:lang", lit "f'""<")] []].
Example C07_example_whole_document :
  skdoc_ok C07_example_skdoc /\
  firstn 44 (dfxp_document C07_example_skdoc) = lit "<?xml version=""1.0"" encoding=""utf-8""?>" ++ [10] ++ lit "<tt x" /\
  is_infix (lit " <p begin=""00:00:00.000"" end=""00:00:01.000"" region=""bottom"" style=""k1"">" ++ [10] ++ lit "    a &amp; b<br/>")
           (dfxp_document C07_example_skdoc) = true /\
  is_infix (lit "<p begin=""1"" end=""2"">" ++ [10] ++ lit "   </p>") (dfxp_document C07_example_skdoc) = true /\
  is_infix (lit "<div xml:lang=""f'&quot;&lt;""/>") (dfxp_document C07_example_skdoc) = true /\
  match doc_parse (dfxp_document C07_example_skdoc) with
  | Some evs => ns_ok evs && root_in_ns (lit "tt") spec_ttml_ns evs
  | None => false end = true.
Proof.
  split; [|vm_compute; repeat split].
  unfold C07_example_skdoc, skdoc_ok. cbn [k_tt k_styles k_regions k_divs]. split; [cbn [attrs_ok tt_attrs]; repeat split; reflexivity|].
  split; [repeat constructor|]. split; [repeat constructor|].
  constructor; [|constructor; [|constructor]].
  - split; [cbn [attrs_ok tt_attrs]; repeat split; reflexivity|]. cbn [kd_ps]. constructor; [|constructor; [|constructor]].
    + split; [cbn [attrs_ok tt_attrs]; repeat split; reflexivity|]. eexists. vm_compute. reflexivity.
    + split; [cbn [attrs_ok tt_attrs]; repeat split; reflexivity|]. eexists. vm_compute. reflexivity.
  - split; [cbn [attrs_ok tt_attrs]; repeat split; reflexivity|constructor].
Qed.
Example C07_example_document_machine_refuses :
  doc_parse (lit "<a/><b/>") = None /\ doc_parse (lit "<a/>x") = None /\ doc_parse (lit "x<a/>") = None /\
  doc_parse (lit "<a>") = None /\ doc_parse (lit "<?xml encoding=""utf-8""?><a/>") = None /\
  doc_parse (lit " <?xml version=""1.0""?><a/>") = None /\ doc_parse (lit "<?xml version=""1.0""?><a/>&#32;") = None /\
  doc_parse (lit "<?xml version=""2.0""?><a/>") = None /\ doc_parse [] = None /\
  doc_parse (lit "<?xml version='1.1' standalone = ""no"" ?> <a><a/></a> ") <> None /\
  match doc_parse (lit "<a><b:c/></a>") with Some evs => ns_ok evs | None => true end = false /\
  match doc_parse (lit "<a xmlns:b=""u""><b:c b:d=""1"" xml:id=""2""/></a>") with Some evs => ns_ok evs | None => false end = true.
Proof. vm_compute. repeat split; discriminate. Qed.

(* wave 7: the <style> dictionaries of the tree for a style table with a class chain, an empty style, a style that yields
   no attribute, markup characters in an id; and for no styles at all (the default style) *)
Example C07_example_style_elems :
  let table := [(lit "a&b", [(lit "color", lit "white")]); (lit "e", []); (lit "k2", [(lit "class", lit "a&b"); (lit "italics", lit "x")]);
                (lit "n", [(lit "class", lit "zz")])] in
  (forall st, In st table -> style_entry_ok st) /\
  style_elems table = [[(lit "xml:id", lit "a&b"); (lit "tts:color", lit "white")];
                       [(lit "xml:id", lit "k2"); (lit "style", lit "a&b"); (lit "tts:fontStyle", lit "italic")]] /\
  elem_ids (style_elems table) = [lit "a&b"; lit "k2"] /\ elem_style_refs (style_elems table) = [lit "a&b"] /\
  style_elems [] = [[(lit "xml:id", lit "default"); (lit "tts:fontFamily", lit "monospace"); (lit "tts:fontSize", lit "1c");
                     (lit "tts:color", lit "white")]].
Proof.
  split; [|vm_compute; repeat split].
  intros st [<-|[<-|[<-|[<-|[]]]]]; split; try reflexivity; cbn [snd map]; intros v Hv; cbn [In] in Hv;
    repeat match goal with H : _ \/ _ |- _ => destruct H end; subst; try reflexivity; contradiction.
Qed.
(* round 4: a decorated set - two styles with a chain, a caption with a layout of its own (region r0), a positioned span
   with inline attributes that overwrite tts:textAlign, a layout nobody refers to (cleaned up) - satisfies the hypotheses;
   the dictionaries of the tree and what is read from them *)
Example C07_example_document_tree :
  let L1 : lay := Some (1, true, true) in let L2 : lay := Some (2, true, true) in
  let inl := [(lit "tts:origin", lit "10% 20%"); (lit "tts:textAlign", lit "end")] in
  let x := mkXset None [(lit "k1", [(lit "color", lit "white")]); (lit "p", [(lit "class", lit "k1"); (lit "text-align", lit "left")])]
             [mkXlang None
                [mkXcap L1 (Some [(lit "class", lit "k1"); (lit "text-align", lit "start")])
                   [mkXnode (mkDnode (mkRnode L2 false) []) [];
                    mkXnode (mkDnode (mkRnode L1 true) [(lit "class", lit "p"); (lit "italics", lit "1")]) inl]
                   (lit "00:00:01.000") (lit "00:00:02.000") inl;
                 mkXcap None None [] (lit "00:00:03.000") (lit "00:00:04.000") []]
                (lit "en") []] in
  let extra := fun id : Z => if id =? 0 then [(lit "tts:origin", lit "10% 20%")] else [] in
  let t := tree_of extra x in
  deco_ok extra x /\ dom_doc (erase x) = true /\
  t_regions t = [[(lit "xml:id", lit "bottom")]; [(lit "xml:id", lit "r0"); (lit "tts:origin", lit "10% 20%")]] /\
  map fst (t_body t) = [[(lit "xml:lang", lit "en"); (lit "region", lit "bottom")]] /\
  flat_map (fun dv => map fst (snd dv)) (t_body t)
  = [[(lit "begin", lit "00:00:01.000"); (lit "end", lit "00:00:02.000"); (lit "style", lit "k1"); (lit "tts:textAlign", lit "end");
      (lit "region", lit "r0"); (lit "tts:origin", lit "10% 20%")];
     [(lit "begin", lit "00:00:03.000"); (lit "end", lit "00:00:04.000"); (lit "style", lit "p"); (lit "region", lit "bottom")]] /\
  flat_map (fun dv => flat_map snd (snd dv)) (t_body t)
  = [[(lit "style", lit "p"); (lit "tts:fontStyle", lit "italic"); (lit "region", lit "r0"); (lit "tts:origin", lit "10% 20%");
      (lit "tts:textAlign", lit "end")]] /\
  tree_ids t = [lit "k1"; lit "p"; lit "bottom"; lit "r0"] /\
  tree_style_refs t = [lit "k1"; lit "k1"; lit "p"; lit "p"] /\
  tree_region_refs t = [lit "bottom"; lit "r0"; lit "r0"; lit "bottom"].
Proof.
  cbn zeta. split; [|vm_compute; repeat split].
  assert (N0 : noref []) by (repeat split; intros []).
  assert (N1 : noref [(lit "tts:origin", lit "10% 20%"); (lit "tts:textAlign", lit "end")])
    by (repeat split; cbn [map fst In]; intros H; repeat (destruct H as [H|H]; [discriminate|]); exact H).
  split.
  - intros id. destruct (id =? 0); [|exact N0]. repeat split; cbn [map fst In]; intros H; repeat (destruct H as [H|H]; [discriminate|]); exact H.
  - repeat constructor; cbn; try exact N0; try exact N1; try apply N0; try apply N1.
Qed.
(* audit w7: ALL hypotheses of C07_document_with_styling_wellformed_partial instantiated together - a non-empty style table,
   one region dictionary, one div with one caption (text, break, text) - and the document they give is accepted, with bound
   namespace prefixes and its root in the TTML namespace *)
Example C07_example_document_with_styling :
  let table := [(lit "k1", [(lit "color", lit "white")])] in
  let regions := [[(lit "xml:id", lit "bottom"); (lit "tts:displayAlign", lit "after")]] in
  let cap := ([(lit "begin", lit "00:00:01.000"); (lit "end", lit "00:00:02.000"); (lit "region", lit "bottom"); (lit "style", lit "k1")],
              [CText (lit "a & b"); CBreak; CText (lit "c<d")]) in
  let divs := [([(lit "xml:lang", lit "en")], [cap])] in
  (forall st, In st table -> style_entry_ok st) /\ forallb is_xml_char (lit "en") = true /\
  Forall (fun a => attrs_ok a []) regions /\
  Forall (fun dv => attrs_ok (fst dv) [] /\ Forall (caption_ok (fst (styling table))) (snd dv)) divs /\
  match doc_parse (dfxp_document (doc_of_captions false (fst (styling table)) (lit "en") (style_elems table) regions divs)) with
  | Some evs => ns_ok evs && root_in_ns (lit "tt") spec_ttml_ns evs
  | None => false end = true.
Proof.
  split; [|split; [reflexivity|split; [|split; [|vm_compute; reflexivity]]]].
  - intros st [<-|[]]; split; try reflexivity; cbn [snd map]; intros v Hv; cbn [In] in Hv;
      repeat match goal with H : _ \/ _ |- _ => destruct H end; subst; try reflexivity; contradiction.
  - constructor; [cbn [attrs_ok]; repeat split; reflexivity|constructor].
  - constructor; [|constructor]. split; [cbn [attrs_ok fst]; repeat split; reflexivity|]. cbn [snd].
    constructor; [|constructor]. unfold caption_ok. cbn [fst snd]. split; [cbn [attrs_ok]; repeat split; reflexivity|]. split.
    + constructor; [reflexivity|]. constructor; [exact I|]. constructor; [reflexivity|constructor].
    + cbn [map to_pnode]. apply bal_text. apply bal_break. apply bal_text. constructor.
Qed.
