(* C07 - DFXP output is well-formed XML and internally consistent.
   Only statements closed by `exact`, with Print Assumptions, and non-vacuity examples. *)
From Coq Require Import List ZArith Bool.
From PV Require Import lib.Sx lib.Str lib.Result model.DfxpXml model.DfxpRegion model.DfxpDoc spec.SpecXmlAttr.
From PV Require Import proofs.XmlAttrFacts proofs.DfxpRegionFacts proofs.DfxpPayloadFacts proofs.DfxpDocFacts.
Import ListNotations.
Open Scope Z_scope.

(* ---- attribute values: whatever XML characters occur in a style value, class name or language code, the literal
        written for it (quoting rule of bs4 / quoteattr included) is a well-formed AttValue denoting that value ---- *)
Theorem C07_attr_value_wellformed : forall v, forallb is_xml_char v = true -> attr_parse (attr_out v) = Some v.
Proof. exact attr_value_wellformed. Qed.
Print Assumptions C07_attr_value_wellformed.
Theorem C07_span_attr_value_wellformed : forall v, forallb is_xml_char v = true -> attr_parse (quoteattr v) = Some v.
Proof. exact quoteattr_wellformed. Qed.
Print Assumptions C07_span_attr_value_wellformed.
(* before the repair values were only quoted, not escaped: not well-formed *)
Theorem C07_attr_unescaped_refuted : exists v, forallb is_xml_char v = true /\ attr_parse (quote_value v) = None.
Proof. exact attr_unescaped_refuted. Qed.
Print Assumptions C07_attr_unescaped_refuted.

(* ---- text: the escaped text is character data denoting the text ------------------------------------------------ *)
Theorem C07_escape_text_wellformed : forall s, forallb is_xml_char s = true -> text_parse (xml_escape s) = Some s.
Proof. exact escape_text_wellformed. Qed.
Print Assumptions C07_escape_text_wellformed.

(* ---- the <p> payload: accepted by the strict content machine whenever no span is left open, in particular for
        balanced style nodes; main and legacy writer ------------------------------------------------------------- *)
Theorem C07_payload_wellformed : forall legacy nodes, Forall node_ok nodes ->
  snd (recreate_text legacy false nodes) = false ->
  exists evs, content_parse (fst (recreate_text legacy false nodes)) = Some evs.
Proof. exact payload_wellformed. Qed.
Print Assumptions C07_payload_wellformed.
Theorem C07_payload_wellformed_balanced : forall legacy nodes, Forall node_ok nodes -> balanced nodes ->
  exists evs, content_parse (fst (recreate_text legacy false nodes)) = Some evs.
Proof. exact payload_wellformed_balanced. Qed.
Print Assumptions C07_payload_wellformed_balanced.
(* the attributes _recreate_style derives from any style dictionary have valid, pairwise distinct names *)
Theorem C07_recreate_style_attrs_ok : forall content ids,
  (forall v, In v (map snd content) -> forallb is_xml_char v = true) -> attrs_ok (recreate_style content ids) [].
Proof. exact recreate_style_attrs_ok. Qed.
Print Assumptions C07_recreate_style_attrs_ok.

(* a style= reference is only written for a style that exists in the head *)
Theorem C07_style_refs_resolve : forall content ids v,
  In (lit "style", v) (recreate_style content ids) -> existsb (str_eqb v) ids = true.
Proof. exact style_refs_resolve. Qed.
Print Assumptions C07_style_refs_resolve.

(* ---- regions (model of RegionCreator): ids unique, every reference resolves, no unreferenced region ------------- *)
Theorem C07_region_ids_unique : forall cs, NoDup (defined cs).
Proof. exact region_ids_unique. Qed.
Print Assumptions C07_region_ids_unique.
Theorem C07_regions_resolve : forall cs r, In r (all_refs cs) -> In r (defined cs).
Proof. exact regions_resolve. Qed.
Print Assumptions C07_regions_resolve.
Theorem C07_no_unreferenced_region : forall cs r, In r (defined cs) -> In r (all_refs cs).
Proof. exact no_unreferenced_region. Qed.
Print Assumptions C07_no_unreferenced_region.

(* ---- wave 2: the WHOLE writer traversal (styling section, regions, languages x captions x nodes; model/DfxpDoc.v).
        For every caption set whose style ids are distinct and differ from the region ids, the ids and references of
        the document satisfy the oracle ok_refs: ids unique, every style= (head and body) and every region= resolves
        to exactly one definition, every region defined is referenced. -------------------------------------------- *)
Theorem C07_doc_consistent : forall d, dom_doc d = true ->
  let s := summarize d in
  ok_refs (s_ids s) (s_style_ids s) (s_region_ids s) (s_style_refs s) (s_region_refs s) = 0.
Proof. exact doc_consistent. Qed.
Print Assumptions C07_doc_consistent.
(* the attribute dictionary of a positioned span (style attributes, region, inline positioning attributes merged in
   a dict, positioning wins) has valid, pairwise distinct names: the payload theorem covers positioned spans too *)
Theorem C07_span_attributes_ok : forall content ids region inline,
  (forall v, In v (map snd content) -> forallb is_xml_char v = true) ->
  match region with Some r => forallb is_xml_char r = true | None => True end ->
  (forall k v, In (k, v) inline -> valid_name k = true /\ forallb is_xml_char v = true) ->
  attrs_ok (span_attributes (recreate_style content ids) region inline) [].
Proof. exact span_attributes_ok. Qed.
Print Assumptions C07_span_attributes_ok.

(* ---- non-vacuity ------------------------------------------------------------------------------------------------ *)
Example C07_example_attr :
  attr_out (lit "a""b<c&d") = [39] ++ lit "a""b&lt;c&amp;d" ++ [39] /\
  attr_out (lit "x""y'z") = lit """x&quot;y'z""" /\ attr_parse (lit """x&quot;y'z""") = Some (lit "x""y'z").
Proof. vm_compute. repeat split. Qed.
Example C07_example_payload :
  let nodes := [PText (lit "a "); PBreak; PStyleStart [(lit "tts:color", lit "r&d")]; PStyleStart [];
                PText (lit "x<y"); PStyleEnd; PText (lit "z"); PStyleEnd] in
  recreate_text false false nodes
  = (lit "a<br/>" ++ [10; 32; 32; 32; 32] ++ lit "<span tts:color=""r&amp;d"">x&lt;y</span>z", false)
  /\ exists evs, content_parse (fst (recreate_text false false nodes)) = Some evs.
Proof. split; [vm_compute; reflexivity|eexists; vm_compute; reflexivity]. Qed.
Example C07_example_document :
  let d := mkDset None [(lit "k1", [(lit "color", lit "white")]); (lit "k2", [(lit "class", lit "k1"); (lit "italics", lit "x")]);
                        (lit "empty", [])]
             [mkDlang (Some (1, true))
                [mkDcap None (Some [(lit "class", lit "k2")])
                   [mkDnode (mkRnode (Some (2, true)) true) [(lit "class", lit "k1"); (lit "text-align", lit "left")]];
                 mkDcap None None []]] in
  dom_doc d = true /\
  s_ids (summarize d) = [lit "k1"; lit "k2"; lit "r0"; lit "r1"] /\
  s_style_refs (summarize d) = [lit "k1"; lit "k2"; lit "k1"] /\
  s_region_refs (summarize d) = [lit "r0"; lit "r0"; lit "r1"; lit "r0"] /\
  span_attributes [(lit "tts:textAlign", lit "left")] (Some (lit "r1")) [(lit "tts:origin", lit "10% 20%"); (lit "tts:textAlign", lit "start")]
  = [(lit "tts:textAlign", lit "start"); (lit "region", lit "r1"); (lit "tts:origin", lit "10% 20%")].
Proof. vm_compute. repeat split. Qed.
Example C07_example_regions :
  let cs := mkRset None [mkRlang (Some (1, true)) [mkRcap None [mkRnode (Some (2, true)) false; mkRnode (Some (3, true)) true];
                                                  mkRcap (Some (0, true)) []]] in
  created cs = [-1; 0; 1; 2] /\ defined cs = [-1; 0; 2] /\
  refs cs = [(0, [(0, [2]); (-1, [])])].
Proof. vm_compute. repeat split. Qed.
