(* C09 - Writing never alters its input and is deterministic.
   Only statements closed by `exact`, with Print Assumptions.  Model: model/Store.v (heap), model/Iso.v (writers). *)
From Coq Require Import List ZArith Bool Permutation.
From PV Require Import lib.Sx lib.Str lib.Result model.Store model.Iso
     spec.SpecIso proofs.StoreFacts proofs.DeepcopyFacts proofs.IsoFacts proofs.RegionFacts proofs.OracleFacts
     proofs.IsoExamples model.HeapProg proofs.HeapProgFacts proofs.HeapProgInst proofs.HeapProgHist.
Import ListNotations.

(* deepcopy: everything that existed stays as it is, the copy lives in fresh locations and points only into itself
   (inv st0 st' = old part unchanged + closure of the new part), for every store, fuel and value *)
Theorem C09_deepcopy_fresh_closed : forall st0 st fuel v st' v',
  inv st0 st -> deepcopy fuel st v = Some (st', v') ->
  inv st0 st' /\ (length st <= length st')%nat /\
  (match v with VLoc _ => inr (length st0) (length st') v' | _ => v' = v end).
Proof. exact deepcopy_inv. Qed.
Print Assumptions C09_deepcopy_fresh_closed.

(* deepcopy is structure preserving: same snapshot, whatever the sharing / cycles in the copied graph *)
Theorem C09_deepcopy_snapshot_eq : forall st fuel v st' v',
  wf st -> below (length st) v -> deepcopy fuel st v = Some (st', v') ->
  forall n, snap n st' v' = snap n st v.
Proof. exact deepcopy_snapshot_eq. Qed.
Print Assumptions C09_deepcopy_snapshot_eq.

(* deepcopy preserves SHARING exactly: the memo is an injective function from the original locations to fresh ones and
   every copied object is its original with all pointers mapped (graph isomorphism): nothing is copied twice, no two
   objects are merged *)
Theorem C09_deepcopy_isomorphism : forall st fuel v st' v',
  wf st -> below (length st) v -> deepcopy fuel st v = Some (st', v') ->
  exists m, minj m /\ vrel m v v' /\
            forall a b, mlookup a m = Some b ->
                        (a < length st)%nat /\ (length st <= b < length st')%nat /\ copied st st' m a b.
Proof. exact deepcopy_isomorphism. Qed.
Print Assumptions C09_deepcopy_isomorphism.

(* the footprint of write(): for all 8 writer models, all options, any instance state, any store, any argument,
   before and after the repairs, on normal and on error exits, every assignment lands in what the call allocated *)
Theorem C09_write_footprint : forall c k o i st s, inv st (wr_store (write c k o i st s)).
Proof. exact write_inv. Qed.
Print Assumptions C09_write_footprint.

Theorem C09_write_preserves_store : forall c k o i st s l,
  (l < length st)%nat -> get (wr_store (write c k o i st s)) l = get st l.
Proof. exact write_preserves_store. Qed.
Print Assumptions C09_write_preserves_store.

(* hence the snapshot of the written set and of every other value of the store is unchanged, also when it raises *)
Theorem C09_write_preserves_input : forall c k o i st s fuel v,
  wf st -> below (length st) v -> snap fuel (wr_store (write c k o i st s)) v = snap fuel st v.
Proof. exact write_preserves_input. Qed.
Print Assumptions C09_write_preserves_input.

(* ... over arbitrary histories of writes on shared and fresh writer objects *)
Theorem C09_history_preserves_inputs : forall c ops w,
  wf_world w -> forallb is_write ops = true ->
  forall fuel, map (snap fuel (w_st (run_world c w ops))) (w_sets (run_world c w ops))
             = map (snap fuel (w_st w)) (w_sets w).
Proof. exact writes_preserve_snapshots. Qed.
Print Assumptions C09_history_preserves_inputs.

(* one write step from any well-formed world keeps every set's snapshot (that every world reached by ANY history is
   well formed is C09_history_wf_world below) *)
Theorem C09_step_write_preserves : forall c w wid k o si,
  wf_world w ->
  let w' := fst (step c w (OWrite wid k o si)) in
  wf_world w' /\ w_sets w' = w_sets w /\
  (forall fuel v, below (length (w_st w)) v -> snap fuel (w_st w') v = snap fuel (w_st w) v).
Proof. exact step_write_preserves. Qed.
Print Assumptions C09_step_write_preserves.

(* every operation keeps the world well formed, so the write theorems apply after ANY history of reads (fresh / reused
   readers), API builds, edits and writes *)
Theorem C09_history_wf_world : forall c ops w, repaired c -> wf_world w -> wf_world (run_world c w ops).
Proof. exact history_wf_world. Qed.
Print Assumptions C09_history_wf_world.

Theorem C09_write_after_any_history_preserves : forall c ops wid k o si,
  repaired c ->
  let w := run_world c world0 ops in
  let w' := fst (step c w (OWrite wid k o si)) in
  w_sets w' = w_sets w /\ forall fuel, map (snap fuel (w_st w')) (w_sets w) = map (snap fuel (w_st w)) (w_sets w).
Proof. exact write_after_any_history_preserves. Qed.
Print Assumptions C09_write_after_any_history_preserves.

(* with open_span reset at entry, store effect / result / footprint do not depend on the writer object's state:
   the same object again = a fresh object = an object that wrote other sets or raised *)
Theorem C09_write_instance_independent : forall c k o i1 i2 st s,
  fix15 c = true ->
  let r1 := write c k o i1 st s in
  let r2 := write c k o i2 st s in
  wr_store r1 = wr_store r2 /\ wr_result r1 = wr_result r2 /\ wr_fp r1 = wr_fp r2 /\ wr_copies r1 = wr_copies r2.
Proof. exact write_instance_independent. Qed.
Print Assumptions C09_write_instance_independent.

(* the result is output_of (kind, options, snapshot): nothing else of the store, nothing of the past *)
Theorem C09_write_result_function_of_snapshot : forall c k o i st s,
  fix15 c = true -> wf st -> below (length st) s ->
  wr_result (write c k o i st s) = Err EOutOfFuel \/
  wr_result (write c k o i st s) = output_of k o (snap FUEL st s).
Proof. exact write_result_function_of_snapshot. Qed.
Print Assumptions C09_write_result_function_of_snapshot.

Theorem C09_same_snapshot_same_result : forall c k o i1 i2 st1 st2 s1 s2,
  fix15 c = true -> wf st1 -> wf st2 -> below (length st1) s1 -> below (length st2) s2 ->
  snap FUEL st1 s1 = snap FUEL st2 s2 ->
  wr_result (write c k o i1 st1 s1) <> Err EOutOfFuel ->
  wr_result (write c k o i2 st2 s2) <> Err EOutOfFuel ->
  wr_result (write c k o i1 st1 s1) = wr_result (write c k o i2 st2 s2).
Proof. exact write_same_snapshot_same_result. Qed.
Print Assumptions C09_same_snapshot_same_result.

(* the fuel escape is dead on well-formed stores: the writers' deepcopy gets one unit of fuel more than the store has
   objects, which always suffices (measure: original objects not yet memoised) *)
Theorem C09_deepcopy_succeeds : forall st v, wf st -> below (length st) v ->
  exists st' v', deepcopy (S (length st)) st v = Some (st', v').
Proof. exact deepcopy_succeeds. Qed.
Print Assumptions C09_deepcopy_succeeds.

Theorem C09_write_never_out_of_fuel : forall c k o i st s,
  wf st -> below (length st) s -> wr_result (write c k o i st s) <> Err EOutOfFuel.
Proof. exact write_never_out_of_fuel. Qed.
Print Assumptions C09_write_never_out_of_fuel.

(* UNCONDITIONAL: on a well-formed store the result of write() IS output_of (kind, options, snapshot).  `output_of` is derived from
   the model's own make_plan (proofs/IsoFacts.v pure_result): a factorisation "the store enters only through its snapshot", not a
   comparison with an independent renderer; for SRT / MicroDVD / SCC / WebVTT it is the snapshot itself *)
Theorem C09_write_result_is_output_of : forall c k o i st s,
  fix15 c = true -> wf st -> below (length st) s ->
  wr_result (write c k o i st s) = output_of k o (snap FUEL st s).
Proof. exact write_result_is_output_of. Qed.
Print Assumptions C09_write_result_is_output_of.

Theorem C09_same_snapshot_same_result_wf : forall c k o i1 i2 st1 st2 s1 s2,
  fix15 c = true -> wf st1 -> wf st2 -> below (length st1) s1 -> below (length st2) s2 ->
  snap FUEL st1 s1 = snap FUEL st2 s2 ->
  wr_result (write c k o i1 st1 s1) = wr_result (write c k o i2 st2 s2).
Proof. exact write_same_snapshot_same_result_wf. Qed.
Print Assumptions C09_same_snapshot_same_result_wf.

Theorem C09_write_history_independent_wf : forall c ops w k o wi si s,
  fix15 c = true -> wf_world w -> forallb is_write ops = true -> nth_error (w_sets w) si = Some s ->
  wr_result (write c k o wi (w_st (run_world c w ops)) s) = output_of k o (snap FUEL (w_st w) s).
Proof. exact write_history_independent_wf. Qed.
Print Assumptions C09_write_history_independent_wf.

(* output (history ++ [write]) = output [write] *)
Theorem C09_write_history_independent : forall c ops w k o wi si s,
  fix15 c = true -> wf_world w -> forallb is_write ops = true ->
  nth_error (w_sets w) si = Some s ->
  let w' := run_world c w ops in
  wr_result (write c k o wi (w_st w') s) = Err EOutOfFuel \/
  wr_result (write c k o wi (w_st w') s) = output_of k o (snap FUEL (w_st w) s).
Proof. exact write_history_independent. Qed.
Print Assumptions C09_write_history_independent.

(* THE MODEL MEETS THE ORACLE: the extracted property oracle (spec/SpecIso.v check_hist, here with snapshots instead of
   their digests) evaluated on the model's own observations of ANY history of reads, builds, edits and writes reports
   nothing - no write changes any set (clause 1), equal (writer, options, snapshot) give equal results (clause 2).
   With the per-run correspondence (implementation observations = model observations) this composes to the property. *)
Theorem C09_model_meets_oracle : forall c ops,
  repaired c -> fix15 c = true ->
  check_hist tree tree_eqb TCut true false 0 [] [] (model_obs c world0 ops) = [].
Proof. exact model_meets_ok_c09. Qed.
Print Assumptions C09_model_meets_oracle.

(* "no set iteration", explicit: every container the DFXP region bookkeeping iterates takes its enumeration order as a
   parameter.  The one hash SET (_assigned_region_ids, membership tests only) may enumerate in ANY order: same document *)
Theorem C09_regions_independent_of_set_enumeration : forall enum o t,
  (forall l, Permutation (enum l) l) ->
  dfxp_regions (fun l => l) enum o t = dfxp_regions (fun l => l) (fun l => l) o t.
Proof. exact regions_independent_of_set_enumeration. Qed.
Print Assumptions C09_regions_independent_of_set_enumeration.

(* ... the container of unique layouts must NOT be a hash set: some enumeration order changes the region ids (the code
   uses the insertion-ordered _OrderedSet; the mutant C09_orderedset_to_set makes the check fail) *)
Theorem C09_unique_layout_order_matters_refuted :
  exists iter codes, (forall l, Permutation (iter l) l) /\
    region_ids iter codes <> region_ids (fun l => l) codes.
Proof. exact regions_depend_on_unique_layout_order_refuted. Qed.
Print Assumptions C09_unique_layout_order_matters_refuted.

(* before the open_span repair the statement is false of the faithful model: witness = the replayed history *)
Theorem C09_open_span_leak_refuted :
  let r := run (mkCfg true true false) world0 (hist15 W_DFXP) in
  tokens_of r 4 <> tokens_of r 5 /\ tokens_of r 4 <> tokens_of r 2.
Proof. exact open_span_leak_refuted. Qed.
Print Assumptions C09_open_span_leak_refuted.

Theorem C09_open_span_leak_refuted_sami :
  let r := run (mkCfg true true false) world0 (hist15 W_SAMI) in tokens_of r 4 <> tokens_of r 5.
Proof. exact open_span_leak_refuted_sami. Qed.
Print Assumptions C09_open_span_leak_refuted_sami.

(* the assignments of the DFXP writer model applied in place (no copy) change the input's snapshot: what the footprint
   theorem rules out is observable by `snap` *)
Theorem C09_write_without_copy_refuted :
  let w1 := run_world fixed world0 [OBuild positioned] in
  let s := nth 0 (w_sets w1) VNone in
  snap FUEL (dfxp_assign_in_place (w_st w1) s) s <> snap FUEL (w_st w1) s.
Proof. exact write_without_copy_refuted. Qed.
Print Assumptions C09_write_without_copy_refuted.

(* non-vacuity: a write that does assign (on its copy), an error exit, the repaired history *)
Example C09_example_assigns :
  let w1 := run_world fixed world0 [OBuild positioned] in
  let s := nth 0 (w_sets w1) VNone in
  let r := write fixed W_DFXP dflt_opts winst0 (w_st w1) s in
  wr_fp r = [(KCaption, 5%Z)] /\ wr_copies r = 1%Z /\
  (length (w_st w1) < length (wr_store r))%nat /\
  snap FUEL (wr_store r) s = snap FUEL (w_st w1) s /\
  snap FUEL (w_st w1) s = positioned.
Proof. exact dfxp_write_assigns_on_its_copy. Qed.

Example C09_example_error_exit :
  let w1 := run_world fixed world0 [OBuild absolute] in
  let s := nth 0 (w_sets w1) VNone in
  let r := write fixed W_DFXP dflt_opts winst0 (w_st w1) s in
  wr_result r = Err ERelativization /\ snap FUEL (wr_store r) s = snap FUEL (w_st w1) s.
Proof. exact dfxp_error_exit. Qed.

Example C09_example_reset :
  forall k, In k [W_DFXP; W_SAMI; W_LEGACY; W_SINGLE] ->
  let r := run fixed world0 (hist15 k) in
  tokens_of r 4 = tokens_of r 5 /\ tokens_of r 4 = tokens_of r 2.
Proof. exact open_span_reset_example. Qed.

Example C09_world0_wf : wf_world world0.
Proof. exact wf_world0. Qed.

(* non-vacuity of the history theorems: a well-formed world with three sets, two of which SHARE objects; a history of
   writes on it; the hypotheses of C09_model_meets_oracle on a history that writes; the oracle does report the leak *)
Example C09_example_shared_world : wf_world shared_world /\ length (w_sets shared_world) = 3%nat /\
  shares FUEL (w_st shared_world) (nth 0 (w_sets shared_world) VNone) (nth 1 (w_sets shared_world) VNone) = true.
Proof. exact shared_world_wf. Qed.

Example C09_example_history :
  forallb is_write some_writes = true /\
  map (snap FUEL (w_st (run_world fixed shared_world some_writes))) (w_sets (run_world fixed shared_world some_writes))
  = [doc_a; doc_b; positioned] /\
  (length (w_st shared_world) < length (w_st (run_world fixed shared_world some_writes)))%nat.
Proof. exact history_theorem_instance. Qed.

Example C09_example_oracle_reports_leak :
  check_hist tree tree_eqb TCut true false 0 [] [] (model_obs (mkCfg true true false) world0 (hist15 W_DFXP))
  = [(4, 2); (5, 2)]%Z.
Proof. exact oracle_reports_open_span_leak. Qed.

(* ==== wave 7: the writers as HEAP PROGRAMS (model/HeapProg.v) ==========================================================
   A writer is a program that may load from and store into ANY object a register points to - the argument included.
   `check` is a static ownership analysis; the theorems below hold for EVERY program, not for the eight writers only. *)

(* soundness of the analysis, one command at a time: from a state whose owned registers point into the region allocated
   since st0 (or hold scalars), an accepted program - on its normal exit and on every raising exit - has touched nothing
   that existed in st0, has only allocated, and (normal exit) the registers the analysis reports as owned are owned *)
Theorem C09_ownership_analysis_sound : forall o c a a' st0 h h' e,
  check c a = Some a' -> inv st0 (h_st h) -> senv (length st0) (length (h_st h)) a (h_env h) ->
  exec o c h = (h', e) ->
  inv st0 (h_st h') /\ (length (h_st h) <= length (h_st h'))%nat /\
  (e = None -> senv (length st0) (length (h_st h')) a' (h_env h')).
Proof. exact exec_sound. Qed.
Print Assumptions C09_ownership_analysis_sound.

(* the frame theorem: ANY accepted program, any store (even ill-formed), any argument, any options *)
Theorem C09_heap_program_frame : forall p a' o st s,
  check p [] = Some a' -> inv st (h_st (fst (run_prog p o st s))).
Proof. exact prog_footprint. Qed.
Print Assumptions C09_heap_program_frame.

Theorem C09_heap_program_preserves_snapshots : forall p a' o st s fuel v,
  check p [] = Some a' -> wf st -> below (length st) v ->
  snap fuel (h_st (fst (run_prog p o st s))) v = snap fuel st v.
Proof. exact prog_preserves_snapshots. Qed.
Print Assumptions C09_heap_program_preserves_snapshots.

(* the proof obligation of pycaption's eight writers: their heap programs are accepted *)
Theorem C09_writer_programs_owned : forall reset k, exists a', check (prog_with reset k) [] = Some a'.
Proof. exact writers_owned. Qed.
Print Assumptions C09_writer_programs_owned.

(* hence: the program-based write (what request 902 executes against the real writers) has the footprint property *)
Theorem C09_program_write_footprint : forall c k o i st s, inv st (wr_store (writeP c k o i st s)).
Proof. exact writeP_inv. Qed.
Print Assumptions C09_program_write_footprint.

Theorem C09_program_write_preserves_input : forall c k o i st s fuel v,
  wf st -> below (length st) v -> snap fuel (wr_store (writeP c k o i st s)) v = snap fuel st v.
Proof. exact writeP_preserves_input. Qed.
Print Assumptions C09_program_write_preserves_input.

Theorem C09_program_history_wf_world : forall c ops w, repaired c -> wf_world w -> wf_world (runP_world c w ops).
Proof. exact historyP_wf_world. Qed.
Print Assumptions C09_program_history_wf_world.

(* through ANY history of reads, builds, edits and program writes *)
Theorem C09_program_write_after_any_history_preserves : forall c ops wid k o si,
  repaired c ->
  let w := runP_world c world0 ops in
  let w' := fst (stepP c w (OWrite wid k o si)) in
  w_sets w' = w_sets w /\ forall fuel, map (snap fuel (w_st w')) (w_sets w) = map (snap fuel (w_st w)) (w_sets w).
Proof. exact writeP_after_any_history_preserves. Qed.
Print Assumptions C09_program_write_after_any_history_preserves.

(* the writers with the deepcopy line deleted, replaced by copy.copy, or placed after the first assignment:
   REJECTED by the analysis, and they do change the snapshot of their input on a concrete set *)
Theorem C09_copy_discipline_variants_refuted :
  forallb (fun p => match check p [] with None => true | Some _ => false end) variants = true /\
  forallb (fun p => input_changed p dflt_opts positioned) variants = true.
Proof. exact variants_rejected_and_wrong. Qed.
Print Assumptions C09_copy_discipline_variants_refuted.

Example C09_example_programs_assign_on_their_copy :
  map (fun k => input_changed (prog_of k) dflt_opts positioned) [1; 2; 3; 4; 5; 6; 7; 8]%Z
    = [false; false; false; false; false; false; false; false] /\
  (let w1 := run_world fixed world0 [OBuild positioned] in
   let s := nth 0 (w_sets w1) VNone in
   map (fun k => fp_of (wr_fp (writeP fixed k dflt_opts winst0 (w_st w1) s))) [W_DFXP; W_SAMI]
     = [[(KCaption, 5%Z)]; [(KCaption, 5%Z)]]).
Proof. exact writers_assign_on_their_copy. Qed.

(* ---- half 2 on the heap programs: the writer's INSTANCE state (open_span, last_time, global_layout = registers that
   survive a write() on the same object).  The programs contain the rendering state machines (span open / close, SAMI blank
   sync) and emit tokens; `du` is a static "assigned before it is read" analysis. ---- *)

(* soundness of the analysis for EVERY program: two runs from states that differ only in registers the analysis knows to be
   assigned before they are read exit the same way, with the same store, tokens, footprint, copy count *)
Theorem C09_assigned_before_read_sound : forall o c u u' h1 h2 h1' h2' x1 x2,
  du c u = Some u' -> same_heap h1 h2 -> agree u (h_env h1) (h_env h2) ->
  exec o c h1 = (h1', x1) -> exec o c h2 = (h2', x2) ->
  x1 = x2 /\ same_heap h1' h2' /\ (x1 = None -> agree u' (h_env h1') (h_env h2')).
Proof. exact du_sound. Qed.
Print Assumptions C09_assigned_before_read_sound.

(* the obligation of the eight writers (repaired code): every instance register is assigned before it is read *)
Theorem C09_writer_programs_reset_instance_state : forall k, exists u', du (prog_of k) inst_regs = Some u'.
Proof. exact writers_reset_instance_state. Qed.
Print Assumptions C09_writer_programs_reset_instance_state.

(* hence, for every writer kind, options, store, argument: same object again = a fresh object = an object that wrote other
   sets or raised - store effect, result (tokens or exception), footprint, copy count.  Unlike C09_write_instance_independent
   this is about programs in which open_span and last_time CAN reach the output (tokens); global_layout is read by the WebVTT
   program into a dead register only - for it the theorem is an analysis obligation without semantic content, its leak is decided
   by bytes; for SRT / MicroDVD / SCC / WebVTT the token list is always empty *)
Theorem C09_program_write_instance_independent : forall c k o i1 i2 st s,
  fix15 c = true ->
  let r1 := writeP c k o i1 st s in
  let r2 := writeP c k o i2 st s in
  wr_store r1 = wr_store r2 /\ wr_result r1 = wr_result r2 /\ wr_fp r1 = wr_fp r2 /\ wr_copies r1 = wr_copies r2.
Proof. exact writeP_instance_independent. Qed.
Print Assumptions C09_program_write_instance_independent.

(* without the reset line the span writers (and WebVTT without its global_layout assignment) are REJECTED by the analysis,
   and the history of defect 15 shows the leak on the programs; with it the reused object emits what a fresh one emits *)
Theorem C09_missing_reset_refuted :
  forallb (fun k => rejects_du (prog_with false k)) span_kinds = true /\
  rejects_du prog_vtt_no_global = true /\
  forallb (fun k => let r := runP (mkCfg true true false) world0 (hist15 k) in
                    negb (zl_eqb (tokens_of r 4) (tokens_of r 5))) span_kinds = true /\
  forallb (fun k => let r := runP fixed world0 (hist15 k) in
                    zl_eqb (tokens_of r 4) (tokens_of r 5) && zl_eqb (tokens_of r 4) (tokens_of r 2)) span_kinds = true.
Proof. exact missing_reset_rejected_and_wrong. Qed.
Print Assumptions C09_missing_reset_refuted.

Example C09_example_programs_render_like_the_store_model_on_the_defect15_history :
  forallb (fun k => forallb (fun c =>
     forallb (fun p => zl_eqb (mo_tokens (fst (fst p))) (mo_tokens (fst (snd p)))
                       && Bool.eqb (mo_open (fst (fst p))) (mo_open (fst (snd p))))
             (combine (run c world0 (hist15 k)) (runP c world0 (hist15 k))))
     [fixed; mkCfg true true false]) span_kinds = true.
Proof. exact programs_render_like_the_store_model. Qed.

(* at history level: in any world, i.e. after any history, the writer OBJECT that performs a write (used before, raised
   before, new) is irrelevant for store, exit, tokens, footprint and copy count *)
Theorem C09_program_step_writer_object_irrelevant : forall c w wid1 wid2 k o si,
  fix15 c = true ->
  let r1 := stepP c w (OWrite wid1 k o si) in
  let r2 := stepP c w (OWrite wid2 k o si) in
  w_st (fst r1) = w_st (fst r2) /\ w_sets (fst r1) = w_sets (fst r2) /\
  mo_err (snd r1) = mo_err (snd r2) /\ mo_tokens (snd r1) = mo_tokens (snd r2) /\
  mo_fp (snd r1) = mo_fp (snd r2) /\ mo_copies (snd r1) = mo_copies (snd r2) /\
  mo_changed_below (snd r1) = mo_changed_below (snd r2).
Proof. exact stepP_writer_object_irrelevant. Qed.
Print Assumptions C09_program_step_writer_object_irrelevant.

(* non-vacuity of C09_heap_program_frame: the analysis accepts a program that reads the argument freely and stores into a copy of a
   part of it, and rejects the same program storing into the part itself *)
Example C09_example_analysis_not_trivial :
  check (block [CGet 1 0 (EInt 1); CGet 2 1 (EStr (lit "s:en")); CCopy 3 2; CSet 3 (EInt 1) (EReg 3)])%nat [] <> None /\
  check (block [CGet 1 0 (EInt 1); CGet 2 1 (EStr (lit "s:en")); CCopy 3 2; CSet 2 (EInt 1) (EReg 3)])%nat [] = None.
Proof. exact analysis_accepts_reads_of_the_argument. Qed.
