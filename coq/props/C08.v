(* C08 - Any chain of conversions preserves the cue timeline (times to the coarsest resolution on
   the chain; SAMI: starts and non-final ends) and a second pass changes nothing.
   Only statements closed by `exact`, with Print Assumptions; Examples show non-vacuity.
   A hop of the model prints every timing token with the C02 writer models and parses it back
   with the C01 models of pycaption's own readers. *)
From Coq Require Import List ZArith QArith Bool.
From PV Require Import lib.Sx lib.Str lib.Result.
From PV Require Import model.TimeRead spec.SpecTime model.Chain spec.SpecChain proofs.ChainFacts proofs.ChainDocFacts proofs.ChainSrtDocFacts proofs.ChainVttDocFacts.
From PV Require model.TimeWrite model.TextWrite model.TextNodes.
From PV Require model.DfxpWriteDoc model.DfxpReadLines proofs.DfxpWriteDocFacts proofs.ChainDfxpDocFacts.
From PV Require model.SamiWriteDoc model.SamiReadLines proofs.ChainSamiDocFacts.
Import ListNotations.
Open Scope Z_scope.

(* ---- projection algebra -------------------------------------------------------------------- *)
Theorem C08_pi_idempotent : forall f cs, pi f (pi f cs) = pi f cs.
Proof. exact pi_idempotent. Qed.
Print Assumptions C08_pi_idempotent.

(* two hops: the coarser resolution; the four-second tail if either is SAMI; order irrelevant *)
Theorem C08_pi_compose : forall f g cs,
  pi g (pi f cs) = nf (Z.max (unit_of f) (unit_of g)) (is_sami f || is_sami g) cs.
Proof. exact pi_compose. Qed.
Print Assumptions C08_pi_compose.
Theorem C08_pi_commute : forall f g cs, pi g (pi f cs) = pi f (pi g cs).
Proof. exact pi_commute. Qed.
Print Assumptions C08_pi_commute.

(* any chain = every time floored to the coarsest resolution on the chain (+ SAMI tail) *)
Theorem C08_chain_closed_form : forall chain cs, run chain cs = expected chain cs.
Proof. exact run_closed_form. Qed.
Print Assumptions C08_chain_closed_form.
Theorem C08_chain_times_coarsest : forall chain cs i c,
  nth_error cs i = Some c ->
  exists c', nth_error (run chain cs) i = Some c' /\
             fst c' = fl (coarsest chain) (fst c) /\
             ((S i < length cs)%nat \/ existsb is_sami chain = false -> snd c' = fl (coarsest chain) (snd c)) /\
             (S i = length cs -> existsb is_sami chain = true -> snd c' = fl (coarsest chain) (fst c) + 4000000).
Proof. exact chain_times_coarsest. Qed.
Print Assumptions C08_chain_times_coarsest.

(* running the same chain a second time changes nothing: no drift *)
Theorem C08_chain_fixpoint : forall chain cs, run chain (run chain cs) = run chain cs.
Proof. exact chain_fixpoint. Qed.
Print Assumptions C08_chain_fixpoint.

(* ---- the hops of the model are these projections ------------------------------------------- *)
(* token level: format with the writer model, parse with pycaption's own reader model *)
Theorem C08_hop_time_srt : forall t, 0 <= t < 86400000000 -> hop_time_srt t = Ok (fl 1000 t).
Proof. exact hop_time_srt_exact. Qed.
Print Assumptions C08_hop_time_srt.
Theorem C08_hop_time_vtt : forall t, 0 <= t < 86400000000 -> hop_time_vtt t = Ok (fl 1000 t).
Proof. exact hop_time_vtt_exact. Qed.
Print Assumptions C08_hop_time_vtt.
Theorem C08_hop_time_dfxp : forall t, 0 <= t < 86400000000 -> hop_time_dfxp t = Ok (fl 1000 t).
Proof. exact hop_time_dfxp_exact. Qed.
Print Assumptions C08_hop_time_dfxp.
Theorem C08_hop_time_mdvd : forall t, 0 <= t -> hop_time_mdvd t = Ok (fl 40000 t).
Proof. exact hop_time_mdvd_exact. Qed.
Print Assumptions C08_hop_time_mdvd.

(* cue-list level, all five formats (SRT merge loop, SAMI sync rule + back-filling included):
   on sorted non-overlapping cues at least one unit long, one hop is pi_F and keeps the domain *)
Theorem C08_hop_exact : forall f u lo cs, big_unit u -> unit_of f <= u -> 0 <= lo -> dom_u u lo cs ->
  hop f cs = Ok (pi f cs) /\ dom_u u (fl (unit_of f) lo) (pi f cs).
Proof. exact hop_exact. Qed.
Print Assumptions C08_hop_exact.

(* without SAMI the cues may be shorter than the unit (down to length 0): they floor to zero-length cues
   that are kept, as long as neighbours start in different units *)
Theorem C08_hop_exact_short_cues : forall f u lo cs, big_unit u -> is_sami f = false -> unit_of f <= u -> 0 <= lo ->
  dom_s u lo cs ->
  hop f cs = Ok (pi f cs) /\ dom_s u (fl (unit_of f) lo) (pi f cs).
Proof. exact hop_exact_s. Qed.
Print Assumptions C08_hop_exact_short_cues.

(* a whole chain of model hops is the closed form, for every chain and every caption list of the domain *)
Theorem C08_chain_model_exact : forall chain cs, chain_dom chain cs = true ->
  run_model chain cs = Ok (expected chain cs).
Proof. exact run_model_exact. Qed.
Print Assumptions C08_chain_model_exact.
Theorem C08_chain_model_ok : forall chain cs, chain_dom chain cs = true ->
  exists o1, run_model chain cs = Ok o1 /\ o1 = expected chain cs /\ run chain o1 = o1.
Proof. exact run_model_ok. Qed.
Print Assumptions C08_chain_model_ok.

(* the model run twice: the second pass over its own output returns it unchanged; hence the property oracle (pass 1 within
   one unit of the original times - final end free with SAMI - and pass 2 = pass 1) holds of the model *)
Theorem C08_chain_model_second_pass : forall chain cs, chain_dom chain cs = true ->
  (do o1 <- run_model chain cs; run_model chain o1) = Ok (expected chain cs).
Proof. exact run_model_second_pass. Qed.
Print Assumptions C08_chain_model_second_pass.
Theorem C08_chain_model_meets_oracle : forall chain cs, chain_dom chain cs = true ->
  ok_chain chain cs (run_model chain cs) (do o1 <- run_model chain cs; run_model chain o1) = true.
Proof. exact run_model_meets_oracle. Qed.
Print Assumptions C08_chain_model_meets_oracle.

(* several languages through DFXP / SAMI: every language keeps its name and place and gets its own closed form *)
Theorem C08_chain_model_set_exact : forall chain cs, set_dom chain cs = true ->
  run_model_set chain cs = Ok (expected_set chain cs).
Proof. exact run_model_set_exact. Qed.
Print Assumptions C08_chain_model_set_exact.

(* string level, MicroDVD: the document printed by the writer model (frames, text lines joined by '|', the
   strip / replace clean-up loops), read back by the reader model: both frames floored, text lines unchanged *)
Theorem C08_mdvd_roundtrip_string : forall cs,
  dom_u 40000 0 (times_of_caps cs) -> text_dom cs = true ->
  mdvd_read (mdvd_write cs)
  = read_result (map (fun c => (fl 40000 (fst (fst c)), fl 40000 (snd (fst c)), snd c)) cs).
Proof. exact mdvd_roundtrip_string. Qed.
Print Assumptions C08_mdvd_roundtrip_string.

(* ---- the domain restriction is necessary: cues shorter than the resolution (known findings) ---- *)
Theorem C08_short_cues_srt_merge_refuted :
  exists chain cs, sorted_from 1 0 86396000000 cs = true /\ run_model chain cs <> Ok (expected chain cs).
Proof. exact short_cues_srt_merge_refuted. Qed.
Print Assumptions C08_short_cues_srt_merge_refuted.
Theorem C08_short_cue_sami_end_refuted :
  exists cs, sorted_from 1 0 86396000000 cs = true /\ hop FSami cs <> Ok (pi FSami cs).
Proof. exact short_cue_sami_end_refuted. Qed.
Print Assumptions C08_short_cue_sami_end_refuted.

(* ---- non-vacuity --------------------------------------------------------------------------- *)
Example C08_ex_chain :
  run_model [FDfxp; FMdvd; FSami; FSrt] [(1234567, 5004999); (8039999, 8120001)]
  = Ok [(1200000, 5000000); (8000000, 12000000)]
  /\ chain_dom [FDfxp; FMdvd; FSami; FSrt] [(1234567, 5004999); (8039999, 8120001)] = true.
Proof. vm_compute. split; reflexivity. Qed.
Example C08_ex_mdvd_no_drift :
  run_model [FMdvd; FMdvd; FMdvd] [(8040000, 8120000)] = Ok [(8040000, 8120000)].
Proof. vm_compute. reflexivity. Qed.
(* what the MicroDVD writer prints for a cue inside frame 0 is refused by the reader model *)
Example C08_ex_mdvd_frame0 :
  TimeRead.mdvd_read (Str.lit "{0}{0}first") = Err ETiming.
Proof. vm_compute. reflexivity. Qed.
Example C08_ex_mdvd_string :
  mdvd_write [(8039999, 8120001, [Str.lit "hello"; Str.lit "a b"])] = Str.lit "{200}{203}hello|a b
" /\ mdvd_read (mdvd_write [(8039999, 8120001, [Str.lit "hello"; Str.lit "a b"])])
     = Ok [(8000000, 8120000, [Str.lit "hello"; Str.lit "a b"])].
Proof. vm_compute. split; reflexivity. Qed.
(* a cue inside one MicroDVD frame (not frame 0) keeps its place: {100}{100} *)
Example C08_ex_subframe_cue :
  chain_dom [FSrt; FMdvd; FDfxp] [(4000000, 4030000); (6000000, 8000000)] = true /\
  run_model [FSrt; FMdvd; FDfxp] [(4000000, 4030000); (6000000, 8000000)] = Ok [(4000000, 4000000); (6000000, 8000000)].
Proof. vm_compute. split; reflexivity. Qed.
Example C08_ex_second_pass_late_sami :
  let cs := [(86394000000, 86395999000)] in
  chain_dom [FSami; FMdvd] cs = true /\
  run_model [FSami; FMdvd] cs = Ok [(86394000000, 86398000000)] /\
  (do o1 <- run_model [FSami; FMdvd] cs; run_model [FSami; FMdvd] o1) = Ok [(86394000000, 86398000000)].
Proof. vm_compute. repeat split; reflexivity. Qed.
Example C08_ex_set :
  let cs := [(Str.lit "en-US", [(1234567, 5004999)]); (Str.lit "fr", [(500000, 1234567); (1234567, 9000001)])] in
  set_dom [FDfxp; FSami] cs = true /\
  run_model_set [FDfxp; FSami] cs
  = Ok [(Str.lit "en-US", [(1234000, 5234000)]); (Str.lit "fr", [(500000, 1234000); (1234000, 5234000)])].
Proof. vm_compute. split; reflexivity. Qed.
Example C08_ex_oracle_resolution :
  (* floor, nearest and exact are all within resolution; one unit off is not; the SAMI final end is free *)
  ok_chain [FVtt] [(1234567, 2000999)] (Ok [(1234000, 2000000)]) (Ok [(1234000, 2000000)]) = true /\
  ok_chain [FVtt] [(1234567, 2000999)] (Ok [(1235000, 2001000)]) (Ok [(1235000, 2001000)]) = true /\
  ok_chain [FVtt] [(1234567, 2000999)] (Ok [(1236000, 2000000)]) (Ok [(1236000, 2000000)]) = false /\
  ok_chain [FVtt] [(1234567, 2000999)] (Ok [(1234000, 2000000)]) (Ok [(1234000, 2000001)]) = false /\
  ok_chain [FSami] [(1000000, 2000000)] (Ok [(1000000, 6000000)]) (Ok [(1000000, 6000000)]) = true.
Proof. vm_compute. repeat split; reflexivity. Qed.

(* ---- wave 5: TEXT along a chain, at document (string) level, for SRT and MicroDVD ---------------------------------
   srt_write_doc / mdvd_write print the whole document (counter, timing line / frames, text lines, the writers' final
   clean-up); srt_read / mdvd_read are the C01 models of pycaption's readers.  WebVTT, DFXP, SAMI: text stays
   correspondence only. *)
Theorem C08_srt_roundtrip_string : forall cs,
  dom_u 1000 0 (times_of_caps cs) -> srt_text_dom cs = true ->
  srt_read (srt_write_doc cs)
  = read_result (map (fun c => (fl 1000 (fst (fst c)), fl 1000 (snd (fst c)), snd c)) cs).
Proof. exact srt_roundtrip_string. Qed.
Print Assumptions C08_srt_roundtrip_string.

(* every chain of SRT and MicroDVD hops, each hop = print the document, read it back: the cues come back with the
   times of the spec's run (= the closed form, C08_chain_closed_form) AND with their text lines unchanged *)
Theorem C08_chain_doc_text : forall chain cs lo, forallb line_fmt chain = true -> cs <> [] -> 0 <= lo ->
  dom_u 40000 lo (times_of_caps cs) -> text_dom cs = true -> srt_text_dom cs = true ->
  exists out, run_doc chain cs = Ok out /\ times_of_caps out = run chain (times_of_caps cs) /\ map snd out = map snd cs.
Proof. exact run_doc_text. Qed.
Print Assumptions C08_chain_doc_text.

Example C08_ex_srt_string :
  srt_write_doc [(1000999, 2500000, [Str.lit "hello"; Str.lit "a b"]); (3600000000, 3600040000, [Str.lit "42"])]
  = Str.lit "1
00:00:01,000 --> 00:00:02,500
hello
a b

2
01:00:00,000 --> 01:00:00,040
42
".
Proof. vm_compute. reflexivity. Qed.
Example C08_ex_chain_doc_text :
  let cs := [(1000999, 2500000, [Str.lit "hello"; Str.lit "a b"]); (3600000000, 3600040000, [Str.lit "42"])] in
  forallb line_fmt [FSrt; FMdvd; FSrt] = true /\ text_dom cs = true /\ srt_text_dom cs = true /\
  run_doc [FSrt; FMdvd; FSrt] cs
  = Ok [(1000000, 2480000, [Str.lit "hello"; Str.lit "a b"]); (3600000000, 3600040000, [Str.lit "42"])].
Proof. vm_compute. repeat split; reflexivity. Qed.

(* ---- wave 6: WebVTT at document level, and chains over all three line formats ---------------------------------------
   vtt_write_doc prints header, timing lines and the text lines through the writer's escaping (TextWrite.vtt_encode);
   vtt_read_doc = the C01 model of WebVTTReader's line loop and, on every text line, the reader's decoding
   (TextRead.vtt_decode: strip, voice / tag substitution, entity chain).  Text domain: clean lines without & < >
   (on these the escaping and the decoding are proved to be the identity); other texts: correspondence only. *)
Theorem C08_vtt_roundtrip_string : forall cs,
  dom_u 1000 0 (times_of_caps cs) -> vtt_text_dom cs = true ->
  vtt_read_doc (vtt_write_doc cs) = read_result (floor_caps 1000 cs).
Proof. exact vtt_roundtrip_string. Qed.
Print Assumptions C08_vtt_roundtrip_string.

Theorem C08_chain_doc_text_three_formats : forall chain cs lo, forallb line_fmt3 chain = true -> cs <> [] -> 0 <= lo ->
  dom_u 40000 lo (times_of_caps cs) -> text_dom cs = true -> srt_text_dom cs = true -> vtt_text_dom cs = true ->
  exists out, run_doc chain cs = Ok out /\ times_of_caps out = run chain (times_of_caps cs) /\ map snd out = map snd cs.
Proof. exact run_doc_text3. Qed.
Print Assumptions C08_chain_doc_text_three_formats.

Example C08_ex_vtt_string :
  vtt_write_doc [(1000999, 2500000, [Str.lit "hello"; Str.lit "a b"]); (3600000000, 3600040000, [Str.lit "42"])]
  = Str.lit "WEBVTT

00:01.000 --> 00:02.500
hello
a b

01:00:00.000 --> 01:00:00.040
42
".
Proof. vm_compute. reflexivity. Qed.
Example C08_ex_chain_three_formats :
  let cs := [(1000999, 2500000, [Str.lit "hello"; Str.lit "a b"]); (3600000000, 3600040000, [Str.lit "42"])] in
  forallb line_fmt3 [FVtt; FMdvd; FSrt; FVtt] = true /\ text_dom cs = true /\ srt_text_dom cs = true /\ vtt_text_dom cs = true /\
  run_doc [FVtt; FMdvd; FSrt; FVtt] cs
  = Ok [(1000000, 2480000, [Str.lit "hello"; Str.lit "a b"]); (3600000000, 3600040000, [Str.lit "42"])].
Proof. vm_compute. repeat split; reflexivity. Qed.
(* outside the text domain the escaping is at work and still undone by the reader's decoding *)
Example C08_ex_vtt_escaping :
  vtt_read_doc (vtt_write_doc [(1000000, 2000000, [Str.lit "R&D <x> a --> b"])])
  = Ok [(1000000, 2000000, [Str.lit "R&D <x> a --> b"])].
Proof. vm_compute. reflexivity. Qed.

(* ---- machine-checked witnesses of the recorded known findings, where the models exhibit them ---------------------- *)
(* C08-multi-language-srt-text-growth: marker, counter, timing line and text of the next language become caption text *)
Example C08_multi_language_srt_text_growth_refuted :
  srt_read (srt_write_set [[(1000000, 2000000, [Str.lit "a"])]; [(1500000, 2500000, [Str.lit "b"])]])
  = Ok [(1000000, 2000000, [Str.lit "a"; Str.lit "MULTI-LANGUAGE SRT"; Str.lit "1";
                            Str.lit "00:00:01,500 --> 00:00:02,500"; Str.lit "b"])].
Proof. vm_compute. reflexivity. Qed.
(* C08-multi-language-mdvd-appended: one list with the cues of both languages *)
Example C08_multi_language_mdvd_appended_refuted :
  mdvd_read (mdvd_write_set [[(1000000, 2000000, [Str.lit "a"])]; [(1500000, 2500000, [Str.lit "b"])]])
  = Ok [(1000000, 2000000, [Str.lit "a"]); (1480000, 2480000, [Str.lit "b"])].
Proof. vm_compute. reflexivity. Qed.
(* C08-subresolution-cues-merged-by-srt: two cues inside one millisecond arrive as one after vtt -> srt *)
Example C08_subresolution_merge_refuted :
  run_model [FVtt; FSrt] [(1000100, 1000400); (1000500, 1000900); (1005000, 1009000)]
  = Ok [(1000000, 1000000); (1005000, 1009000)].
Proof. vm_compute. reflexivity. Qed.
(* C08-sami-submillisecond-cue-end: the cue ends at the next sync *)
Example C08_sami_submillisecond_end_refuted :
  run_model [FSami] [(1000, 1400); (3000, 4000)] = Ok [(1000, 3000); (3000, 4003000)].
Proof. vm_compute. reflexivity. Qed.
(* C08-sami-zero-length-cue-end: the first pass is right, the SECOND pass moves a non-final end *)
Example C08_sami_zero_length_second_pass_refuted :
  run_model [FSami; FMdvd] [(100000, 110000); (200000, 300000)] = Ok [(80000, 80000); (200000, 4200000)] /\
  run_model [FSami; FMdvd] [(80000, 80000); (200000, 4200000)] = Ok [(80000, 200000); (200000, 4200000)].
Proof. vm_compute. split; reflexivity. Qed.
(* C08-blank-line-in-text-node: the empty line ends the cue, the rest of the text is lost *)
Example C08_blank_line_in_text_node_refuted :
  vtt_read_doc (vtt_write_doc [(1000000, 2000000, [Str.lit "a" ++ [10; 10] ++ Str.lit "b"]); (3000000, 4000000, [Str.lit "w1"])])
  = Ok [(1000000, 2000000, [Str.lit "a"]); (3000000, 4000000, [Str.lit "w1"])].
Proof. vm_compute. reflexivity. Qed.
(* C08-vtt-layout-split: the WebVTT writer model (C02) prints one cue per layout group *)
Example C08_vtt_layout_split_refuted :
  let c := Base.mkCap (inject_Z 1000000) (inject_Z 2000000) [1] in
  length (TimeWrite.vtt_tokens [(c, [TimeWrite.VText (Some 1); TimeWrite.VBreak; TimeWrite.VText (Some 2)])]) = 2%nat.
Proof. vm_compute. reflexivity. Qed.
(* C08-sami-blank-at-node-boundary: the SAMI payload of 'Hel' + 'lo' (writer model of C03) *)
Example C08_sami_blank_at_node_boundary_refuted :
  TextWrite.sami_payload [TextNodes.NText (Str.lit "Hel"); TextNodes.NText (Str.lit "lo")] = Str.lit "Hel lo".
Proof. vm_compute. reflexivity. Qed.

(* ---- wave 7: DFXP hops at DOCUMENT level (string level) -----------------------------------------------------------
   hop_doc FDfxp cs = the whole DFXP document DFXPWriter prints for the captions (DfxpWriteDoc.dfxp_write_doc, language
   en-US; compared with the real writer's text on every run), read back by the string-level model of DFXPReader
   (XmlRead.dfxp_read_string for the times: text -> tree -> the reader's queries; DfxpReadLines for the text of every
   paragraph: its NavigableStrings and <br/>). *)
Module DfxpHop.
Import proofs.DfxpWriteDocFacts proofs.ChainDfxpDocFacts.

(* one DFXP hop, whole document: every caption comes back, in order, with start and end floored to the millisecond
   and with its text lines unchanged - for ANY list of captions with times below 24 h (no order or length condition)
   whose text is clean lines *)
Theorem C08_dfxp_roundtrip_string : forall cs, cs <> [] -> in_day cs -> text_dom cs = true ->
  hop_doc FDfxp cs = Ok (floor_caps 1000 cs).
Proof. exact dfxp_roundtrip_string. Qed.
Print Assumptions C08_dfxp_roundtrip_string.

(* every chain of SRT / MicroDVD / WebVTT / DFXP document hops returns the closed-form times AND the unchanged text.
   _partial: hypotheses beyond the statement's quantifier whatever the chain - cues >= 40 ms (dom_u 40000), SRT's and WebVTT's
   clean-line domains (no & < >) - and one pass only *)
Theorem C08_chain_doc_text_four_formats_partial : forall chain cs lo, forallb line_fmt4 chain = true -> cs <> [] -> 0 <= lo ->
  dom_u 40000 lo (times_of_caps cs) -> text_dom cs = true -> srt_text_dom cs = true -> vtt_text_dom cs = true ->
  exists out, run_doc chain cs = Ok out /\ times_of_caps out = run chain (times_of_caps cs) /\ map snd out = map snd cs.
Proof. exact run_doc_text4. Qed.
Print Assumptions C08_chain_doc_text_four_formats_partial.

Example C08_ex_chain_with_dfxp :
  let cs := [(1000999, 2500000, [Str.lit "hello"; Str.lit "a b"]); (3600000000, 3600079999, [Str.lit "x y"])] in
  forallb line_fmt4 [FDfxp; FSrt; FDfxp; FMdvd; FVtt; FDfxp] = true /\
  dom_u 40000 0 (times_of_caps cs) /\ text_dom cs = true /\ srt_text_dom cs = true /\ vtt_text_dom cs = true /\
  run_doc [FDfxp; FSrt; FDfxp; FMdvd; FVtt; FDfxp] cs
  = Ok [(1000000, 2480000, [Str.lit "hello"; Str.lit "a b"]); (3600000000, 3600040000, [Str.lit "x y"])].
Proof. vm_compute. repeat split; try reflexivity; try discriminate. Qed.
End DfxpHop.

(* ---- round 4: SAMI hops at DOCUMENT level (string level); chains over all five formats ---------------------------------
   hop_doc FSami cs = the body of the SAMI document SAMIWriter prints for the captions (SamiWriteDoc, language en-US; the
   whole text is compared with the real writer's in C02's run), read back by the string-level model of SAMIReader
   (SamiText.sami_read_string for the times: tokens -> sync / paragraph machine -> back-filling; SamiReadLines for the
   text lines of every paragraph with visible text). *)
Module SamiHop.
Import proofs.ChainSamiDocFacts.

(* one SAMI hop, whole document: every caption comes back, in order, with the SAMI projection of its times (starts and
   non-final ends floored to the ms, the last cue four seconds) and its text lines unchanged *)
Theorem C08_sami_roundtrip_string : forall cs lo, cs <> [] -> 0 <= lo -> dom_u 1000 lo (times_of_caps cs) -> text_dom cs = true ->
  hop_doc FSami cs = Ok (retimed (pi FSami (times_of_caps cs)) cs).
Proof. exact sami_roundtrip_string. Qed.
Print Assumptions C08_sami_roundtrip_string.

(* EVERY chain of document hops over SRT / WebVTT / DFXP / SAMI / MicroDVD returns the spec's times (closed form:
   C08_chain_closed_form) AND the unchanged text lines.  _partial: same extra hypotheses as the four-format theorem *)
Theorem C08_chain_doc_text_five_formats_partial : forall chain cs lo, cs <> [] -> 0 <= lo ->
  dom_u 40000 lo (times_of_caps cs) -> text_dom cs = true -> srt_text_dom cs = true -> vtt_text_dom cs = true ->
  exists out, run_doc chain cs = Ok out /\ times_of_caps out = run chain (times_of_caps cs) /\ map snd out = map snd cs.
Proof. exact run_doc_text5. Qed.
Print Assumptions C08_chain_doc_text_five_formats_partial.

Example C08_ex_chain_with_sami :
  let cs := [(1000999, 2500000, [Str.lit "hello"; Str.lit "a b"]); (3600000000, 3600079999, [Str.lit "x y"])] in
  dom_u 40000 0 (times_of_caps cs) /\ text_dom cs = true /\ srt_text_dom cs = true /\ vtt_text_dom cs = true /\
  run_doc [FSami; FDfxp; FSrt; FSami; FMdvd; FVtt] cs
  = Ok [(1000000, 2480000, [Str.lit "hello"; Str.lit "a b"]); (3600000000, 3604000000, [Str.lit "x y"])].
Proof. vm_compute. repeat split; try reflexivity; try discriminate. Qed.
End SamiHop.
