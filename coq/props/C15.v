(* C15 - SCC lines longer than 32 characters are never returned silently.
   Model: model/SccLen.v (the scan at the end of SCCReader.read, after fix #5); spec: spec/SpecSccLen.v. *)
From Coq Require Import List ZArith Bool Permutation.
From Coq Require Import QArith.
From PV Require Import lib.Sx lib.Str lib.Result model.SccLen model.SccStash model.SccDecoder spec.SpecSccLen proofs.SccLenFacts proofs.SccReadLenFacts proofs.SccLenLooseFacts.
From PV Require Import model.SccTime model.SccPopon spec.SpecScc05 proofs.SccPoponStage1 proofs.SccPoponStage3 proofs.SccOrderFacts proofs.SccOrderLongFacts.
Import ListNotations.
Open Scope Z_scope.

(* for EVERY caption list: either the error, whose message names every offending line (and the lines it lists
   are exactly the offending ones, as a multiset), or every line of every caption has at most 32 characters *)
Theorem C15_length_check_sound_complete : forall caps,
  match length_check caps with
  | Some msg => offending caps <> [] /\
                (forall l, In l (offending caps) -> names msg l = true) /\
                Permutation (named_lines caps) (offending caps) /\
                msg = msg_head ++ render (scan caps)
  | None => forall c l, In c caps -> In l (spec_lines (snd c)) -> (length l <= 32)%nat
  end.
Proof. exact length_check_sound_complete. Qed.
Print Assumptions C15_length_check_sound_complete.

(* the model satisfies the decidable property oracle that the harness evaluates on the implementation *)
Theorem C15_length_check_meets_oracle : forall caps, ok_c15 caps (length_check caps) = true.
Proof. exact length_check_meets_oracle. Qed.
Print Assumptions C15_length_check_meets_oracle.

(* which outcome happens is a function of the line lengths alone (not of the start-time keys) *)
Theorem C15_length_check_lengths_only : forall caps,
  is_some (length_check caps) = must_raise (line_lengths caps).
Proof. exact length_check_lengths_only. Qed.
Print Assumptions C15_length_check_lengths_only.

Theorem C15_length_check_key_free : forall caps caps',
  line_lengths caps = line_lengths caps' -> is_some (length_check caps) = is_some (length_check caps').
Proof. exact length_check_key_free. Qed.
Print Assumptions C15_length_check_key_free.

(* ... nor of the order in which the captions were stored *)
Theorem C15_length_check_order_free : forall caps caps', Permutation caps caps' ->
  is_some (length_check caps) = is_some (length_check caps') /\
  Permutation (named_lines caps) (named_lines caps').
Proof. exact length_check_order_free. Qed.
Print Assumptions C15_length_check_order_free.

(* the oracle the harness evaluates on the implementation uses the weakest reading of "naming": the message contains the
   text of every offending line; it follows from the exact message format, so the model meets it as well *)
Theorem C15_ok_implies_loose : forall caps out, ok_c15 caps out = true -> ok_c15_loose caps out = true.
Proof. exact ok_c15_implies_loose. Qed.
Print Assumptions C15_ok_implies_loose.
Theorem C15_length_check_meets_loose_oracle : forall caps, ok_c15_loose caps (length_check caps) = true.
Proof. exact length_check_meets_loose_oracle. Qed.
Print Assumptions C15_length_check_meets_loose_oracle.

(* END TO END on the whole reader model (model/SccDecoder.v: every list of parsed lines (timecode, code words), every
   offset, simulate_roll_up = False; the text-level tokenisation of a line is outside the model). NOTE: this composes the
   scan with `finish_read` only; it holds whatever the decoder stores, so it says nothing about rows being lost on the
   way - that part is the decoder correspondence and, for pop-on programs, C05_popon_refines_608.
   read never returns a caption line longer than 32 characters, and the line-length error names every over-long line
   of the captions the decoder had stored *)
Theorem C15_read_never_silent : forall off ls,
  match read off ls with
  | ROk caps => forall c l, In c caps -> In l (spec_lines (cap_text c)) -> (length l <= 32)%nat
  | RLen msg => offending (stored_caps off ls) <> [] /\
                (forall l, In l (offending (stored_caps off ls)) -> names msg l = true) /\
                Permutation (named_lines (stored_caps off ls)) (offending (stored_caps off ls))
  | RErr _ => True
  end.
Proof. exact read_never_silent. Qed.
Print Assumptions C15_read_never_silent.

(* the code before fix #5 (`lines_too_long[start] = ...` on an existing key): a 34-character line is let through,
   and the outcome depends on the order *)
Theorem C15_length_overwrite_refuted :
  length_check_prefix wit_a = None /\ offending wit_a <> [] /\
  Permutation wit_a wit_b /\ is_some (length_check_prefix wit_b) = true.
Proof. exact length_overwrite_refuted. Qed.
Print Assumptions C15_length_overwrite_refuted.

(* the order clause at the level of the STREAM, on the whole decoder model, inside the domain of the pop-on refinement
   (load_wf: every row within 32 cells): two transmissions of a load that differ only in the order of its rows - they share
   a start time - are both read without the line-length error (same End-Of-Caption instant) and each satisfies the screen
   oracle of its own row order. For a load with an over-long row the staged simulation does not apply: there the order
   clause remains a correspondence obligation (the harness executes every order). *)
Theorem C15_popon_row_order_free : forall d l l' off tc tc2 t1 t2, Permutation l l' -> load_wf l = true ->
  get_time tc (Z.of_nat (length (emit_load d l)) - (if d then 2 else 1)) off = Ok t1 ->
  get_time tc2 0 off = Ok t2 -> (0 < t1)%Q -> (t1 < t2)%Q -> is_flash (mkPre t1 t2 [] None) = false ->
  exists caps caps',
    read off [(tc, emit_load d l); (tc2, emit_clear d)] = ROk caps /\
    read off [(tc, emit_load d l'); (tc2, emit_clear d)] = ROk caps' /\
    ok_c05 (mkProg d [l]) (Ok (map observe caps)) = true /\
    ok_c05 (mkProg d [l']) (Ok (map observe caps')) = true.
Proof. exact popon_row_order_free. Qed.
Print Assumptions C15_popon_row_order_free.
Example C15_popon_row_order_free_instance :
  exists caps caps',
    read 0 [(lit "00:00:01;00", emit_load true ord_a); (lit "00:00:05;00", emit_clear true)] = ROk caps /\
    read 0 [(lit "00:00:01;00", emit_load true ord_b); (lit "00:00:05;00", emit_clear true)] = ROk caps' /\
    ok_c05 (mkProg true [ord_a]) (Ok (map observe caps)) = true /\
    ok_c05 (mkProg true [ord_b]) (Ok (map observe caps')) = true.
Proof. exact popon_row_order_free_instance. Qed.

(* ... and WITH over-long rows, for the simplest shape of "captions sharing a start time": a pop-on load of plain rows
   (plain_load: column 0, no style, non-empty runs of visible basic characters of ANY length, row numbers pairwise at least
   two apart, so every row is its own caption), codes single or doubled. The whole decoder model raises the line-length
   error iff some row has more than 32 characters, whatever the order of the rows; the message names every over-long row;
   and the outcome depends only on the multiset of row lengths (different texts, rows, orders, timecodes, offsets). *)
Theorem C15_plain_load_outcome : forall d l off tc tc2 t1 t2, plain_load l = true ->
  get_time tc (Z.of_nat (length (emit_load d l)) - (if d then 2 else 1)) off = Ok t1 ->
  get_time tc2 0 off = Ok t2 -> (0 < t1)%Q -> (t1 < t2)%Q -> is_flash (mkPre t1 t2 [] None) = false ->
  let res := read off [(tc, emit_load d l); (tc2, emit_clear d)] in
  (existsb long_row l = false -> res = ROk (map (capL t1 t2) l)) /\
  (existsb long_row l = true ->
     exists msg, res = RLen msg /\
       forall r, In r l -> long_row r = true -> names msg (row_text r) = true /\ mentions msg (row_text r) = true).
Proof. exact plain_load_outcome. Qed.
Print Assumptions C15_plain_load_outcome.
Theorem C15_plain_load_order_free : forall d l l' off tc tc2 t1 t2, Permutation l l' -> plain_load l = true ->
  get_time tc (Z.of_nat (length (emit_load d l)) - (if d then 2 else 1)) off = Ok t1 ->
  get_time tc2 0 off = Ok t2 -> (0 < t1)%Q -> (t1 < t2)%Q -> is_flash (mkPre t1 t2 [] None) = false ->
  let res := read off [(tc, emit_load d l); (tc2, emit_clear d)] in
  let res' := read off [(tc, emit_load d l'); (tc2, emit_clear d)] in
  (raises res <-> raises res') /\ (returns res <-> returns res') /\
  (raises res <-> existsb long_row l = true) /\ (returns res <-> existsb long_row l = false).
Proof. exact plain_load_order_free. Qed.
Print Assumptions C15_plain_load_order_free.
Theorem C15_plain_load_lengths_only : forall d d' l l' off off' tc tc' tc2 tc2' t1 t2 t1' t2',
  plain_load l = true -> plain_load l' = true -> Permutation (row_lengths l) (row_lengths l') ->
  get_time tc (Z.of_nat (length (emit_load d l)) - (if d then 2 else 1)) off = Ok t1 ->
  get_time tc2 0 off = Ok t2 -> (0 < t1)%Q -> (t1 < t2)%Q -> is_flash (mkPre t1 t2 [] None) = false ->
  get_time tc' (Z.of_nat (length (emit_load d' l')) - (if d' then 2 else 1)) off' = Ok t1' ->
  get_time tc2' 0 off' = Ok t2' -> (0 < t1')%Q -> (t1' < t2')%Q -> is_flash (mkPre t1' t2' [] None) = false ->
  let res := read off [(tc, emit_load d l); (tc2, emit_clear d)] in
  let res' := read off' [(tc', emit_load d' l'); (tc2', emit_clear d')] in
  (raises res <-> raises res') /\ (returns res <-> returns res').
Proof. exact plain_load_lengths_only. Qed.
Print Assumptions C15_plain_load_lengths_only.
(* non-vacuity: a 34-character row on row 15 and "bc" on row 3, in both orders: both raise and name the long row *)
Example C15_long_order_instance :
  (exists m, read 0 [(lit "00:00:01;00", emit_load true long_a); (lit "00:00:05;00", emit_clear true)] = RLen m /\
             mentions m (repeat 97 34) = true) /\
  (exists m, read 0 [(lit "00:00:01;00", emit_load true long_b); (lit "00:00:05;00", emit_clear true)] = RLen m /\
             mentions m (repeat 97 34) = true).
Proof. exact long_order_instance. Qed.

(* non-vacuity of C15_read_never_silent: read yields both outcomes on concrete streams *)
Example C15_read_raises : exists m, read 0 (row_stream 17) = RLen m.
Proof. exact read_raises_on_34. Qed.
Example C15_read_returns : exists c, read 0 (row_stream 16) = ROk [c] /\ length (cap_text c) = 32%nat.
Proof. exact read_returns_32. Qed.

(* non-vacuity: both outcomes occur; two captions share a key *)
Example C15_example_raises :
  length_check wit_a = Some (msg_head ++ lit "around 00:00:02.002 - " ++ long34 ++ lit " - Length 34" ++ [10]).
Proof. vm_compute. reflexivity. Qed.
Example C15_example_passes :
  length_check [(lit "00:00:02.002", repeat 97 32 ++ [10] ++ repeat 98 32)] = None.
Proof. vm_compute. reflexivity. Qed.

(* ---- wave 7 (renamed after the audit: this is NOT the order clause - inside load_wf no row is over-long, so the statement is
   only "no order of the rows makes the reader raise"; partial: hypotheses positive / after_show / expected_with = Ok / wseg_clock):
   the layout pycaption's own SCCWriter produces (Erase-Displayed-Memory inside the load
   line before its End-Of-Caption, rows incl. the indent-0 form of the preamble code): inside the domain of the pop-on
   refinement no order of the rows makes the reader raise; one hypothesis set serves both orders (the EDM and EOC words sit
   at the same indices). tcE / tcL: timecodes denoting the instants of the line's EDM word / of tc + (1 | 2) frames
   (they exist for rendered timecodes: C05_winline_clock) ------------------------------------------------------------- *)
From PV Require Import spec.SpecSccTime spec.SpecScc05Inline proofs.SccPoponFacts proofs.SccPoponStage6 proofs.SccPoponStage9 proofs.SccInlineEdmFacts proofs.SccInlineCorFacts.
Theorem C15_popon_no_raise_any_order_inline_partial : forall d off tc tcE tcL tc2 l l' evs spans, Permutation l l' -> load_wf l = true ->
  wseg_clock d off (WInline tc tcE tcL l) ->
  res_map (pseg_event d off) [PClear tcE; PLoad tcL l; PClear tc2] = Ok evs -> positive evs -> after_show None evs ->
  expected_with join_threshold evs = Ok spans ->
  exists caps caps',
    read off [(tc, emit_load_w d l); (tc2, emit_clear d)] = ROk caps /\
    read off [(tc, emit_load_w d l'); (tc2, emit_clear d)] = ROk caps' /\
    ok_c05 (mkProg d [l]) (Ok (map observe caps)) = true /\
    ok_c05 (mkProg d [l']) (Ok (map observe caps')) = true.
Proof. exact popon_row_order_free_inline. Qed.
Print Assumptions C15_popon_no_raise_any_order_inline_partial.
Example C15_popon_no_raise_any_order_inline_instance :
  exists caps caps',
    read 0 [(lit "00:00:01:00", emit_load_w true ordw_a); (lit "00:00:05:00", emit_clear true)] = ROk caps /\
    read 0 [(lit "00:00:01:00", emit_load_w true ordw_b); (lit "00:00:05:00", emit_clear true)] = ROk caps' /\
    ok_c05 (mkProg true [ordw_a]) (Ok (map observe caps)) = true /\
    ok_c05 (mkProg true [ordw_b]) (Ok (map observe caps')) = true.
Proof. exact popon_row_order_free_inline_instance. Qed.
