(* C11 - italic, bold and underline spans survive conversion and stay balanced.
   Only statements closed by `exact`, each followed by Print Assumptions, plus non-vacuity Examples.
   Spec: spec/SpecTextStyle.v (flags per visible character, balanced, flat_balanced, well_nested).
   Writer markup: model/TextStyle.v = the writer models of model/TextWrite.v instrumented with the markup events
   they write (erasure theorems below).  Reader models: model/TextRead.v.  Round trips on the models: the *_roundtrip_flags theorems below; wave 7: closure (*_roundtrip_closed: reader-model output on written
   payloads of the domain is flat_balanced, i.e. the end node repeats the start node) and the cross-format chains DFXP<->SAMI on the payload
   models (C11_chain_*); reader -> WebVTT, layout groups, documents and the real libraries are judged by execution (harness/props/C11.py).
   `balanced` (the *_reader_balanced theorems, all trees) counts depth only. *)
From Coq Require Import List ZArith Bool.
From PV Require Import lib.Sx lib.Str model.TextNodes model.TextWrite model.TextRead model.TextStyle.
From PV Require Import spec.SpecTextXml spec.SpecTextStyle proofs.TextStyleFacts.
From PV Require Import proofs.TextPayloadFacts proofs.TextRoundtripFacts proofs.TextAttrFacts proofs.TextAttrRoundFacts.
From PV Require Import spec.SpecTextChain proofs.TextChainFacts.
Import ListNotations.
Open Scope Z_scope.

(* ---- every caption a reader returns has balanced style nodes (all trees / all cues) ---- *)
Theorem C11_dfxp_reader_balanced : forall fixed t, balanced (flat_map (dfxp_nodes fixed) t) = true.
Proof. exact dfxp_reader_p_balanced. Qed.
Print Assumptions C11_dfxp_reader_balanced.

Theorem C11_sami_reader_balanced : forall fixed t, balanced (flat_map (sami_nodes fixed) t) = true.
Proof. exact sami_reader_p_balanced. Qed.
Print Assumptions C11_sami_reader_balanced.

(* TRIVIAL: the WebVTT reader model never produces a style node (faithful: the reader strips tags) *)
Theorem C11_vtt_reader_balanced : forall fixed lines, balanced (vtt_cue_nodes fixed lines) = true.
Proof. exact vtt_reader_nodes_balanced. Qed.
Print Assumptions C11_vtt_reader_balanced.

(* ---- the instrumented writers are the writer models ---- *)
Theorem C11_dfxp_trace_erasure : forall extra open ns, fst (dfxp_run_tr extra open ns) = dfxp_run extra open ns.
Proof. exact dfxp_run_tr_erase. Qed.
Print Assumptions C11_dfxp_trace_erasure.

Theorem C11_sami_trace_erasure : forall open ns, fst (sami_run_tr open ns) = TextWrite.sami_run open ns.
Proof. exact sami_run_tr_erase. Qed.
Print Assumptions C11_sami_trace_erasure.

(* ---- DFXP (all three writers): every </span> closes an open <span>; what stays open is the open_span flag
        (ANY node list); for spans that do not nest everything is closed ---- *)
Theorem C11_dfxp_span_markup_depth : forall extra ns,
  trace_depth (snd (dfxp_run_tr extra false ns)) 0 = Some (b2n (snd (fst (dfxp_run_tr extra false ns)))).
Proof. exact dfxp_span_markup_depth. Qed.
Print Assumptions C11_dfxp_span_markup_depth.

Theorem C11_dfxp_span_markup_balanced : forall extra ns, flat_balanced ns = true ->
  trace_depth (snd (dfxp_run_tr extra false ns)) 0 = Some 0%nat.
Proof. exact dfxp_span_markup_balanced. Qed.
Print Assumptions C11_dfxp_span_markup_balanced.

Theorem C11_sami_span_markup_balanced : forall ns, flat_balanced ns = true ->
  trace_depth (snd (sami_run_tr false ns)) 0 = Some 0%nat /\ snd (fst (sami_run_tr false ns)) = false.
Proof. exact sami_span_markup_balanced. Qed.
Print Assumptions C11_sami_span_markup_balanced.

(* ---- WebVTT: i / b / u tags, properly nested ---- *)
Theorem C11_vtt_tags_nested : forall ns, flat_balanced ns = true -> well_nested (vtt_tag_evs ns) = true.
Proof. exact vtt_tags_nested. Qed.
Print Assumptions C11_vtt_tags_nested.

Theorem C11_vtt_open_is_events : forall st, vtt_open st = concat (map render_tag (vtt_open_evs st)).
Proof. exact vtt_open_is_events. Qed.
Print Assumptions C11_vtt_open_is_events.

Theorem C11_vtt_close_is_events : forall st, vtt_close st = concat (map render_tag (vtt_close_evs st)).
Proof. exact vtt_close_is_events. Qed.
Print Assumptions C11_vtt_close_is_events.

(* ---- round trips on the models: writer model -> strict parser -> reader model ----
   For every node list with balanced flat spans (texts over XML Char, style dictionaries italics/bold/underline):
   the payload is well-formed, the reader model returns balanced nodes, and the same visible characters carry the
   same flags - italics through the three DFXP writers, italics + bold + underline through SAMI. *)
Theorem C11_dfxp_roundtrip_flags : forall region ns, nodes_ok plain_style ns = true -> flat_balanced ns = true ->
  exists t, content_parse (dfxp_payload (extra_of region) ns) = Some t /\
            ok_flags m_i ns (flat_map (dfxp_nodes true) t) = true /\
            balanced (flat_map (dfxp_nodes true) t) = true.
Proof. exact dfxp_roundtrip_flags. Qed.
Print Assumptions C11_dfxp_roundtrip_flags.

Theorem C11_legacy_roundtrip_flags : forall ns, nodes_ok plain_style ns = true -> flat_balanced ns = true ->
  exists t, content_parse (legacy_payload ns) = Some t /\
            ok_flags m_i ns (flat_map (dfxp_nodes true) t) = true /\
            balanced (flat_map (dfxp_nodes true) t) = true.
Proof. exact legacy_roundtrip_flags. Qed.
Print Assumptions C11_legacy_roundtrip_flags.

Theorem C11_sami_roundtrip_flags : forall ns, nodes_ok plain_style ns = true -> flat_balanced ns = true ->
  exists t, content_parse (sami_payload ns) = Some t /\
            TextReadFacts.vis (flat_map TextReadFacts.tree_flat t) = TextReadFacts.vis (TextReadFacts.node_flat ns) /\
            ok_flags m_ibu ns (flat_map (sami_nodes true) t) = true /\
            balanced (flat_map (sami_nodes true) t) = true.
Proof. exact sami_roundtrip_flags. Qed.
Print Assumptions C11_sami_roundtrip_flags.

(* wave 7: the same for style dictionaries WITH a colour (any colour string over XML Char, written through quoteattr) *)
Theorem C11_dfxp_roundtrip_flags_color : forall region ns, nodes_ok color_style ns = true -> flat_balanced ns = true ->
  exists t, content_parse (dfxp_payload (extra_of region) ns) = Some t /\
            ok_flags m_i ns (flat_map (dfxp_nodes true) t) = true /\
            balanced (flat_map (dfxp_nodes true) t) = true.
Proof. exact dfxp_roundtrip_flags_c. Qed.
Print Assumptions C11_dfxp_roundtrip_flags_color.

Theorem C11_legacy_roundtrip_flags_color : forall ns, nodes_ok color_style ns = true -> flat_balanced ns = true ->
  exists t, content_parse (legacy_payload ns) = Some t /\
            ok_flags m_i ns (flat_map (dfxp_nodes true) t) = true /\
            balanced (flat_map (dfxp_nodes true) t) = true.
Proof. exact legacy_roundtrip_flags_c. Qed.
Print Assumptions C11_legacy_roundtrip_flags_color.

(* ---- wave 7 (round 2): CLOSURE and CROSS-FORMAT CHAINS on the models ----
   What the reader model returns for a written payload is again in the writers' domain: texts over XML Char without CR,
   dictionaries without colour, spans flat and balanced with the END NODE REPEATING THE START NODE (flat_balanced) ... *)
Theorem C11_dfxp_roundtrip_closed : forall region ns, nodes_ok plain_style ns = true -> flat_balanced ns = true ->
  exists t, content_parse (dfxp_payload (extra_of region) ns) = Some t /\
            nodes_ok plain_style (flat_map (dfxp_nodes true) t) = true /\
            flat_balanced (flat_map (dfxp_nodes true) t) = true /\
            ok_flags m_i ns (flat_map (dfxp_nodes true) t) = true.
Proof. exact dfxp_roundtrip_closed. Qed.
Print Assumptions C11_dfxp_roundtrip_closed.

Theorem C11_sami_roundtrip_closed : forall ns, nodes_ok plain_style ns = true -> flat_balanced ns = true ->
  exists t, content_parse (sami_payload ns) = Some t /\
            nodes_ok plain_style (flat_map (sami_nodes true) t) = true /\
            flat_balanced (flat_map (sami_nodes true) t) = true /\
            ok_flags m_ibu ns (flat_map (sami_nodes true) t) = true.
Proof. exact sami_roundtrip_closed. Qed.
Print Assumptions C11_sami_roundtrip_closed.

(* ... hence the conversions compose: DFXP document -> SAMI document -> DFXP document (every step: writer model, strict
   parser, reader model): every step is well-formed, the italic characters after two and after three steps are the authored
   ones, the final nodes are flat-balanced and in the domain again (so any longer chain follows by the same argument) *)
Theorem C11_chain_dfxp_sami_dfxp : forall r1 r2 ns, nodes_ok plain_style ns = true -> flat_balanced ns = true ->
  exists n1 n2 n3,
    rd_dfxp (dfxp_payload (extra_of r1) ns) = Some n1 /\
    rd_sami (sami_payload n1) = Some n2 /\
    rd_dfxp (dfxp_payload (extra_of r2) n2) = Some n3 /\
    ok_flags m_i ns n2 = true /\ ok_flags m_i ns n3 = true /\ flat_balanced n3 = true /\ nodes_ok plain_style n3 = true.
Proof. exact chain_dfxp_sami_dfxp. Qed.
Print Assumptions C11_chain_dfxp_sami_dfxp.

Theorem C11_chain_sami_dfxp_sami : forall r ns, nodes_ok plain_style ns = true -> flat_balanced ns = true ->
  exists n1 n2 n3,
    rd_sami (sami_payload ns) = Some n1 /\
    rd_dfxp (dfxp_payload (extra_of r) n1) = Some n2 /\
    rd_sami (sami_payload n2) = Some n3 /\
    ok_flags m_ibu ns n1 = true /\ ok_flags m_i ns n2 = true /\ ok_flags m_i ns n3 = true /\
    flat_balanced n3 = true /\ nodes_ok plain_style n3 = true.
Proof. exact chain_sami_dfxp_sami. Qed.
Print Assumptions C11_chain_sami_dfxp_sami.

(* COROLLARIES of the two chain theorems (weaker restatements about the executable chain functions run by the harness, request 1110;
   not counted as property theorems) *)
Theorem C11_chain_dsd_flags_unfold : forall r1 r2 ns, nodes_ok plain_style ns = true -> flat_balanced ns = true ->
  exists n3, chain_dsd (extra_of r1) (extra_of r2) ns = Some n3 /\ ok_flags m_i ns n3 = true /\ flat_balanced n3 = true.
Proof. exact chain_dsd_flags. Qed.
Print Assumptions C11_chain_dsd_flags_unfold.

Theorem C11_chain_sds_flags_unfold : forall r ns, nodes_ok plain_style ns = true -> flat_balanced ns = true ->
  exists n3, chain_sds (extra_of r) ns = Some n3 /\ ok_flags m_i ns n3 = true /\ flat_balanced n3 = true.
Proof. exact chain_sds_flags. Qed.
Print Assumptions C11_chain_sds_flags_unfold.

Example C11_example_chain :
  option_map flags (chain_dsd [] [] ex_nodes) = Some (map (fun p => (fst p, mask3 m_i (snd p))) (flags ex_nodes)).
Proof. vm_compute. reflexivity. Qed.

Example C11_example_chain_sds :
  option_map flags (chain_sds (extra_of true) ex_nodes) = Some (map (fun p => (fst p, mask3 m_i (snd p))) (flags ex_nodes)).
Proof. vm_compute. reflexivity. Qed.

Example C11_example_roundtrip_color :
  let st := mkStyle true false false (Some (lit "a""<'&")) in
  let ns := [NText (lit "p "); NStyle true st; NText (lit "x y"); NStyle false st] in
  nodes_ok color_style ns = true /\ flat_balanced ns = true /\
  option_map (fun t => flags (flat_map (dfxp_nodes true) t)) (content_parse (dfxp_payload [] ns)) = Some (flags ns).
Proof. repeat split; vm_compute; reflexivity. Qed.

(* ---- non-vacuity ---- *)
Example C11_example_flat : flat_balanced ex_nodes = true.
Proof. vm_compute. reflexivity. Qed.

Example C11_example_flags : flags ex_nodes =
  [(97, (true, true, false)); (98, (true, true, false)); (99, (true, true, false)); (100, (false, false, false))].
Proof. vm_compute. reflexivity. Qed.

Example C11_example_vtt : ok_vtt_flags ex_nodes (vtt_cue_text ex_nodes) = true /\
  vtt_cue_text ex_nodes = lit "<i><b>a b" ++ [10] ++ lit "c</b></i> d <u></u>".
Proof. split; vm_compute; reflexivity. Qed.

Example C11_example_dfxp : snd (dfxp_run_tr [] false ex_nodes) = [true; false].
Proof. vm_compute. reflexivity. Qed.

Example C11_example_roundtrip :
  nodes_ok plain_style ex_nodes = true /\
  option_map (fun t => flags (flat_map (sami_nodes true) t)) (content_parse (sami_payload ex_nodes)) = Some (flags ex_nodes).
Proof. split; vm_compute; reflexivity. Qed.
