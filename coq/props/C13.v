(* C13 - Absolute sizes are relativized exactly or refused; fit-to-screen stays safe.
   Only statements closed by `exact`, each followed by Print Assumptions; Examples show non-vacuity. *)
From Coq Require Import List ZArith QArith Qabs Bool.
From PV Require Import proofs.Pos13VttFacts.
From PV Require Import lib.Sx lib.Str lib.Result model.Geometry model.Positioning spec.SpecGeom spec.SpecPos.
From PV Require Import proofs.GeomPrint proofs.GeomFacts proofs.PosFacts proofs.Pos12Facts.
Import ListNotations.
Open Scope Z_scope.

(* ---- one length on one axis: exact, or refused ------------------------------------------------------------ *)
(* spec_pct is the statement: px*100/dim, 1em = 16px, 1pt = 4/3 px, cells 32 columns / 15 rows, % unchanged;
   None = the needed dimension is absent (None or 0) *)
Theorem C13_as_percentage_exact : forall a hz d,
  match spec_pct a hz (given d) with
  | Some v => exists z, axis_call a hz d = Ok z /\ s_unit z = PCT /\ (s_val z == v)%Q
  | None => axis_call a hz d = Err ERelativization
  end.
Proof. exact size_as_pct_exact. Qed.
Print Assumptions C13_as_percentage_exact.

(* the five units spelled out, for both axes *)
Theorem C13_as_percentage_formulas : forall v d, ~ (d == 0)%Q ->
  let conv u hz := axis_call (mkSize v u) hz (Some d) in
  (forall hz, exists z, conv PX hz = Ok z /\ s_unit z = PCT /\ (s_val z == v * 100 / d)%Q)
  /\ (forall hz, exists z, conv EM hz = Ok z /\ s_unit z = PCT /\ (s_val z == v * 16 * 100 / d)%Q)
  /\ (forall hz, exists z, conv PT hz = Ok z /\ s_unit z = PCT /\ (s_val z == v * (4 # 3) * 100 / d)%Q)
  /\ (exists z, conv CELL true = Ok z /\ s_unit z = PCT /\ (s_val z == v * 100 / 32)%Q)
  /\ (exists z, conv CELL false = Ok z /\ s_unit z = PCT /\ (s_val z == v * 100 / 15)%Q)
  /\ (forall hz, conv PCT hz = Ok (mkSize v PCT)).
Proof. exact as_percentage_formulas. Qed.
Print Assumptions C13_as_percentage_formulas.

Theorem C13_missing_dimension_refused : forall a hz d,
  (exists e, axis_call a hz d = Err e) <-> (s_unit a <> PCT /\ given d = None).
Proof. exact size_refused_iff. Qed.
Print Assumptions C13_missing_dimension_refused.

Theorem C13_size_meets_oracle : forall a hz d, ok_size_pct a hz d (axis_call a hz d) = true.
Proof. exact ok_size_pct_model. Qed.
Print Assumptions C13_size_meets_oracle.

(* ---- a whole layout: every length on its own axis (origin x / extent width / start, end padding: width;
        origin y / extent height / before, after padding: height), shape and alignment kept - or refused ------ *)
Theorem C13_layout_relativized_exactly : forall l w h, ok_layout_pct l w h (layout_as_pct l w h) = true.
Proof. exact ok_layout_pct_model. Qed.
Print Assumptions C13_layout_relativized_exactly.

Theorem C13_layout_refused_iff_missing_dimension : forall l w h,
  ((exists e, layout_as_pct l w h = Err e) <-> needs_missing w h l = true)
  /\ (forall e, layout_as_pct l w h = Err e -> e = ERelativization).
Proof. exact layout_refused_iff. Qed.
Print Assumptions C13_layout_refused_iff_missing_dimension.

(* ---- rounded to two decimals when written (the C18 printing theorem) ------------------------------------- *)
Theorem C13_print_two_decimals : forall v u, (0 <= v)%Q -> ok_print v u (size_str (mkSize v u)) = true.
Proof. exact ok_print_model. Qed.
Print Assumptions C13_print_two_decimals.

(* ---- fit to screen: origin in the safe area, extent absent or in percent ----------------------------------- *)
Theorem C13_fit_safe : forall l o, l_origin l = Some o -> in_safe_area o = true ->
  match l_extent l with Some e => s_unit (st_h e) = PCT /\ s_unit (st_v e) = PCT | None => True end ->
  exists e', layout_fit l = Ok (mkLayout (Some o) (Some e') (l_padding l) (l_alignment l) None)
    /\ s_unit (st_h e') = PCT /\ s_unit (st_v e') = PCT
    (* right edge <= 90, bottom edge <= 95 *)
    /\ (s_val (p_x o) + s_val (st_h e') <= 90)%Q /\ (s_val (p_y o) + s_val (st_v e') <= 95)%Q
    /\ match l_extent l with
       (* a missing extent reaches exactly the edges *)
       | None => (s_val (p_x o) + s_val (st_h e') == 90)%Q /\ (s_val (p_y o) + s_val (st_v e') == 95)%Q
       (* an extent that fits is unchanged (per axis); one that does not reaches the edge *)
       | Some e =>
           ((s_val (p_x o) + s_val (st_h e) <= 90)%Q -> st_h e' = st_h e)
           /\ (~ (s_val (p_x o) + s_val (st_h e) <= 90)%Q -> (s_val (p_x o) + s_val (st_h e') == 90)%Q)
           /\ ((s_val (p_y o) + s_val (st_v e) <= 95)%Q -> st_v e' = st_v e)
           /\ (~ (s_val (p_y o) + s_val (st_v e) <= 95)%Q -> (s_val (p_y o) + s_val (st_v e') == 95)%Q)
       end.
Proof. exact fit_safe. Qed.
Print Assumptions C13_fit_safe.

Theorem C13_fit_meets_oracle : forall l, ok_fit l (layout_fit l) = true.
Proof. exact ok_fit_model. Qed.
Print Assumptions C13_fit_meets_oracle.

(* ---- BaseWriter._relativize_and_fit_to_screen with relativization on: percentages only, or RelativizationError
        exactly for a missing dimension ------------------------------------------------------------------------ *)
Theorem C13_relativize_and_fit_percent : forall fit w h l r,
  relativize_and_fit true fit w h l = Ok r -> all_pct r = true.
Proof. exact relativize_and_fit_pct. Qed.
Print Assumptions C13_relativize_and_fit_percent.

Theorem C13_relativize_and_fit_refusal : forall fit w h l e,
  relativize_and_fit true fit w h l = Err e -> e = ERelativization /\ needs_missing w h l = true.
Proof. exact relativize_and_fit_err. Qed.
Print Assumptions C13_relativize_and_fit_refusal.

(* ---- the writers ---------------------------------------------------------------------------------------------- *)
(* DFXP after `fix: DFXPWriter left a language-level layout ... unrelativized`: every level that reaches the document *)
Theorem C13_dfxp_writes_percentages : forall c s s', w_rel c = true -> dfxp_transform c s = Ok s' ->
  forallb opt_all_pct (written_layouts s') = true.
Proof. exact dfxp_writes_percentages. Qed.
Print Assumptions C13_dfxp_writes_percentages.

Theorem C13_dfxp_refuses_with_relativization_error : forall c s e,
  w_rel c = true -> dfxp_transform c s = Err e -> e = ERelativization.
Proof. exact dfxp_refuses_with_relativization_error. Qed.
Print Assumptions C13_dfxp_refuses_with_relativization_error.

(* record of the pre-fix behaviour (about dfxp_transform_prefix, a definition no run ties to any code): the statement was
   false of it (witness: language-level origin 64px 36px, video 640x360).  Not part of the claim. *)
Theorem C13_dfxp_lang_level_px_refuted : exists c s s',
  w_rel c = true /\ dfxp_transform_prefix c s = Ok s' /\ forallb opt_all_pct (written_layouts s') = false.
Proof. exact dfxp_lang_level_px_refuted. Qed.
Print Assumptions C13_dfxp_lang_level_px_refuted.

Theorem C13_sami_writes_percentages : forall c s s', w_rel c = true -> sami_transform c s = Ok s' ->
  opt_all_pct (ns_layout s') = true /\ forallb opt_all_pct (written_layouts s') = true.
Proof. exact sami_writes_percentages. Qed.
Print Assumptions C13_sami_writes_percentages.

(* WebVTT, one layout: whatever the configuration, COMPUTED cue settings carry percentages only (vtt_out_pct says nothing
   about raw settings, VRaw: see C13_vtt_writer_cues for what is true of them) *)
Theorem C13_vtt_only_percent : forall c lo out, vtt_convert_positioning c lo = Ok out -> vtt_out_pct out = true.
Proof. exact vtt_only_percent. Qed.
Print Assumptions C13_vtt_only_percent.

(* WebVTT at WRITER level (WebVTTWriter.write = vtt_language: every caption of the written language, every layout group of a
   caption, effective layout `group or caption or language`): each cue of the document either carries exactly the raw cue
   settings of its effective layout (verbatim: C12's clause; nothing is claimed about their units), or no settings, or
   computed settings whose position / line / size are all percentages.  Any configuration (relativize / fit on or off). *)
Theorem C13_vtt_writer_cues : forall c lg outs, vtt_language c lg = Ok outs ->
  Forall2 (fun cp cues => Forall2 cue_ok (vtt_cue_layouts (nl_layout lg) cp) cues) (nl_caps lg) outs.
Proof. exact vtt_language_cues. Qed.
Print Assumptions C13_vtt_writer_cues.

(* ... and with relativization on the writer refuses exactly when the effective layout of some cue (truthy, without raw
   settings) has a length that needs an absent video dimension *)
Theorem C13_vtt_writer_refused_iff : forall c lg, w_rel c = true ->
  ((exists e, vtt_language c lg = Err e)
   <-> existsb (vtt_needs c) (flat_map (vtt_cue_layouts (nl_layout lg)) (nl_caps lg)) = true).
Proof. exact vtt_language_refused_iff. Qed.
Print Assumptions C13_vtt_writer_refused_iff.

(* ---- the traversal of each writer, level by level (these two restate the model's definition as Forall2: definitional,
        used by the fit theorem below), and refusal as an equivalence ------------------------------------------------- *)
(* DFXPWriter (repaired): set level untouched; language level as_percentage_of only; caption and node level through
   _relativize_and_fit_to_screen; structure and node kinds kept *)
Theorem C13_dfxp_transform_levels : forall c s s', dfxp_transform c s = Ok s' ->
  ns_layout s' = ns_layout s
  /\ Forall2 (fun lg lg' => rel_only c (nl_layout lg) = Ok (nl_layout lg') /\ Forall2 (cap_step c) (nl_caps lg) (nl_caps lg'))
             (ns_langs s) (ns_langs s').
Proof. exact dfxp_transform_levels. Qed.
Print Assumptions C13_dfxp_transform_levels.

Theorem C13_sami_transform_levels : forall c s s', sami_transform c s = Ok s' ->
  raf c (ns_layout s) = Ok (ns_layout s')
  /\ Forall2 (fun lg lg' => raf c (nl_layout lg) = Ok (nl_layout lg') /\ Forall2 (cap_step c) (nl_caps lg) (nl_caps lg'))
             (ns_langs s) (ns_langs s').
Proof. exact sami_transform_levels. Qed.
Print Assumptions C13_sami_transform_levels.

(* with relativization on the writer refuses (RelativizationError, by C13_dfxp_refuses_with_relativization_error)
   EXACTLY when some layout it positions with - language, caption or node level (SAMI: also the set level) - has an
   absolute length on an axis whose video dimension is missing *)
Theorem C13_dfxp_refused_iff : forall c s, w_rel c = true ->
  ((exists e, dfxp_transform c s = Err e) <-> existsb (opt_needs c) (written_layouts s) = true).
Proof. exact dfxp_refused_iff. Qed.
Print Assumptions C13_dfxp_refused_iff.

Theorem C13_sami_refused_iff : forall c s, w_rel c = true ->
  ((exists e, sami_transform c s = Err e) <-> existsb (opt_needs c) (ns_layout s :: written_layouts s) = true).
Proof. exact sami_refused_iff. Qed.
Print Assumptions C13_sami_refused_iff.

(* the fit clause at WRITER level (composition of the traversal with C13_fit_safe): with relativization and fit on, every
   caption- and node-level layout of the transformed set whose origin lies in the safe area has an extent in percent,
   right edge <= 90, bottom edge <= 95 *)
Theorem C13_dfxp_fit_levels : forall c s s', w_rel c = true -> w_fit c = true -> dfxp_transform c s = Ok s' ->
  Forall opt_fitted (cap_node_layouts s').
Proof. exact dfxp_fit_levels. Qed.
Print Assumptions C13_dfxp_fit_levels.

(* WebVTT with fit on: a percentage layout with its origin in the safe area gives position + size <= 90 - right padding *)
Theorem C13_vtt_fit_right_edge : forall c l org, layout_truthy l = true -> (l_webvtt l = None \/ l_webvtt l = Some []) ->
  all_pct l = true -> w_fit c = true -> l_origin l = Some org -> in_safe_area org = true ->
  exists s ps ss, vtt_convert_positioning c (Some l) = Ok (VSet s)
    /\ vs_position s = Some ps /\ vs_size s = Some ss /\ s_unit ps = PCT /\ s_unit ss = PCT
    /\ (s_val ps + s_val ss <= 90 - pad_of pd_end l)%Q.
Proof. exact vtt_fit_right_edge. Qed.
Print Assumptions C13_vtt_fit_right_edge.

(* after `fix: fit_to_screen gave a negative extent ...`: a fitted extent is never negative, whatever the origin *)
Theorem C13_fit_extent_never_negative : forall l r e', layout_fit l = Ok r -> l_origin l <> None -> l_extent r = Some e' ->
  match l_extent l with Some e => (0 <= s_val (st_h e))%Q /\ (0 <= s_val (st_v e))%Q | None => True end ->
  (0 <= s_val (st_h e'))%Q /\ (0 <= s_val (st_v e'))%Q.
Proof. exact fit_extent_never_negative. Qed.
Print Assumptions C13_fit_extent_never_negative.

(* ---- non-vacuity ---------------------------------------------------------------------------------------------- *)
Example C13_ex_units :
  axis_call (mkSize (64 # 1) PX) true (Some (640 # 1)) = Ok (mkSize (10 # 1) PCT)
  /\ axis_call (mkSize (2 # 1) EM) false (Some (360 # 1)) = Ok (mkSize (80 # 9) PCT)
  /\ axis_call (mkSize (12 # 1) PT) true (Some (640 # 1)) = Ok (mkSize (5 # 2) PCT)
  /\ axis_call (mkSize (8 # 1) CELL) true (Some (640 # 1)) = Ok (mkSize (25 # 1) PCT)
  /\ axis_call (mkSize (3 # 1) CELL) false (Some (360 # 1)) = Ok (mkSize (20 # 1) PCT)
  /\ axis_call (mkSize (64 # 1) PX) true None = Err ERelativization
  /\ axis_call (mkSize (64 # 1) PX) true (Some 0%Q) = Err ERelativization.
Proof. vm_compute. repeat split. Qed.
Example C13_ex_fit :
  let s v := mkSize v PCT in
  layout_fit (mkLayout (Some (mkPoint (s (35 # 1)) (s (25 # 1)))) (Some (mkStretch (s (80 # 1)) (s (60 # 1)))) None None None)
  = Ok (mkLayout (Some (mkPoint (s (35 # 1)) (s (25 # 1)))) (Some (mkStretch (s (55 # 1)) (s (60 # 1)))) None None None).
Proof. vm_compute. reflexivity. Qed.
Example C13_ex_dfxp_fixed :
  dfxp_transform (mkCfg true true (Some (640 # 1)) (Some (360 # 1)))
    (mkNset None [mkNlang (Some (mkLayout (Some (mkPoint (mkSize (64 # 1) PX) (mkSize (36 # 1) PX))) None None None None))
                          [mkNcap None [mkNode 1 None]]])
  = Ok (mkNset None [mkNlang (Some (mkLayout (Some (mkPoint (mkSize (10 # 1) PCT) (mkSize (10 # 1) PCT))) None None None None))
                             [mkNcap None [mkNode 1 None]]]).
Proof. exact dfxp_lang_level_px_fixed. Qed.
Example C13_ex_fit_outside_safe_area :
  let s v := mkSize v PCT in
  layout_fit (mkLayout (Some (mkPoint (s (95 # 1)) (s (10 # 1)))) None None None None)
  = Ok (mkLayout (Some (mkPoint (s (95 # 1)) (s (10 # 1)))) (Some (mkStretch (s (0 # 1)) (s (85 # 1)))) None None None).
Proof. vm_compute. reflexivity. Qed.

(* instances of the hypotheses of the refusal / fit theorems *)
Example C13_ex_refusal :
  let l := mkLayout (Some (mkPoint (mkSize (64 # 1) PX) (mkSize (36 # 1) PX))) None None None None in
  let c := mkCfg true true None (Some (360 # 1)) in
  relativize_and_fit true true None (Some (360 # 1)) l = Err ERelativization
  /\ needs_missing None (Some (360 # 1)) l = true
  /\ dfxp_transform c (mkNset None [mkNlang None [mkNcap (Some l) [mkNode 1 None]]]) = Err ERelativization
  /\ existsb (opt_needs c) (written_layouts (mkNset None [mkNlang None [mkNcap (Some l) [mkNode 1 None]]])) = true.
Proof. vm_compute. repeat split. Qed.
Example C13_ex_fit_missing_extent :
  let s v := mkSize v PCT in
  let l := mkLayout (Some (mkPoint (s (10 # 1)) (s (20 # 1)))) None None None None in
  in_safe_area (mkPoint (s (10 # 1)) (s (20 # 1))) = true
  /\ layout_fit l = Ok (mkLayout (l_origin l) (Some (mkStretch (s (80 # 1)) (s (75 # 1)))) None None None).
Proof. vm_compute. split; reflexivity. Qed.
Example C13_ex_vtt_fit :
  let s v := mkSize v PCT in
  vtt_convert_positioning (mkCfg true true None None)
    (Some (mkLayout (Some (mkPoint (s (35 # 1)) (s (25 # 1)))) (Some (mkStretch (s (80 # 1)) (s (60 # 1)))) None None None))
  = Ok (VSet (mkVs (Some HStart) (Some (s (35 # 1))) (Some (s (25 # 1))) (Some (s (55 # 1))))).
Proof. vm_compute. reflexivity. Qed.

(* writer level: a caption with a raw-settings layout and a text node positioned in px; video 640x360 -> verbatim + percentages;
   without a video size the second cue makes the writer refuse *)
Example C13_ex_vtt_writer :
  let raw := mkLayout None None None None (Some (lit "line:10px")) in
  let px := mkLayout (Some (mkPoint (mkSize (64 # 1) PX) (mkSize (36 # 1) PX))) None None None None in
  let lg := mkNlang None [mkNcap (Some raw) [mkNode 1 None]; mkNcap None [mkNode 1 (Some px)]] in
  vtt_language (mkCfg true false (Some (640 # 1)) (Some (360 # 1))) lg
    = Ok [[VRaw (lit "line:10px")]; [VSet (mkVs (Some HStart) (Some (mkSize (10 # 1) PCT)) (Some (mkSize (10 # 1) PCT)) None)]]
  /\ vtt_language (mkCfg true false None None) lg = Err ERelativization
  /\ existsb (vtt_needs (mkCfg true false None None)) (flat_map (vtt_cue_layouts (nl_layout lg)) (nl_caps lg)) = true.
Proof. vm_compute. repeat split. Qed.

(* ==== wave 7: DFXPWriter(write_inline_positioning=True) and the region table ======================================= *)
From PV Require Import spec.SpecPos7 proofs.Pos13InlineFacts.

(* the set-level layout, too, is in percentages after the transformation (after `fix: DFXPWriter(write_inline_positioning=
   True) wrote the absolute lengths of the set-level layout inline`) *)
Theorem C13_dfxp_inline_writes_percentages : forall c s s', w_rel c = true -> dfxp_transform_inline c s = Ok s' ->
  opt_all_pct (ns_layout s') = true /\ forallb opt_all_pct (written_layouts s') = true.
Proof. exact dfxp_inline_writes_percentages. Qed.
Print Assumptions C13_dfxp_inline_writes_percentages.

(* completeness of the traversal for what is written INLINE: the attributes on every <div>, every <p> and every <span>
   with a layout are those of the layout get_positioning_info picks (node, else caption, else language, else SET level);
   whichever it picks, it went through the transformation - no element carries an absolute length *)
Theorem C13_dfxp_inline_attributes_percent : forall c s s', w_rel c = true -> dfxp_transform_inline c s = Ok s' ->
  forallb opt_all_pct (inline_layouts s') = true.
Proof. exact dfxp_inline_attributes_percent. Qed.
Print Assumptions C13_dfxp_inline_attributes_percent.

Theorem C13_dfxp_inline_refused_iff : forall c s, w_rel c = true ->
  ((exists e, dfxp_transform_inline c s = Err e) <-> existsb (opt_needs c) (ns_layout s :: written_layouts s) = true).
Proof. exact dfxp_inline_refused_iff. Qed.
Print Assumptions C13_dfxp_inline_refused_iff.

Theorem C13_dfxp_inline_refuses_with_relativization_error : forall c s e, w_rel c = true ->
  dfxp_transform_inline c s = Err e -> e = ERelativization.
Proof. exact dfxp_inline_refuses_with_relativization_error. Qed.
Print Assumptions C13_dfxp_inline_refuses_with_relativization_error.

(* what is written as REGIONS, for the region table built from the WRITTEN languages (C12's region_map over the
   transformed set): every key is a percentage layout.  This is the whole table of the real RegionCreator only when every
   language of the set is written (no force=, or a set with one language): with force=lang the real table also holds
   regions made from the UNTRANSFORMED layouts of the other languages; they are unreferenced (and removed by
   cleanup_regions) except through the set-level fallback of get_positioning_info - the real writer then prints a px region
   with relativization on: known finding C13-dfxp-set-level-fallback-region (a defect of the code, recorded failure-keyed;
   the generator produces the force= shape on every run).  Both writer modes: *)
Theorem C13_dfxp_regions_percent : forall c s s', w_rel c = true -> dfxp_transform c s = Ok s' ->
  forall k id, In (k, id) (region_map (written_layouts s')) -> all_pct k = true.
Proof. exact dfxp_regions_percent. Qed.
Print Assumptions C13_dfxp_regions_percent.

Theorem C13_dfxp_inline_regions_percent : forall c s s', w_rel c = true -> dfxp_transform_inline c s = Ok s' ->
  forall k id, In (k, id) (region_map (written_layouts s')) -> all_pct k = true.
Proof. exact dfxp_inline_regions_percent. Qed.
Print Assumptions C13_dfxp_inline_regions_percent.

(* two captions with == px layouts (64/1 and 128/2) share ONE region, made from the relativized layout *)
Example C13_ex_regions_shared :
  let l n d := mkLayout (Some (mkPoint (mkSize (n # d) PX) (mkSize (36 # 1) PX))) None None None None in
  match dfxp_transform (mkCfg true false (Some (640 # 1)) (Some (360 # 1)))
          (mkNset None [mkNlang None [mkNcap (Some (l 64 1%positive)) []; mkNcap (Some (l 128 2%positive)) []]]) with
  | Ok s' => map (fun kv => (snd kv, all_pct (fst kv))) (region_map (written_layouts s')) = [(RId 0, true); (RDefault, true)]
  | Err _ => False
  end.
Proof. vm_compute. reflexivity. Qed.

(* set-level origin 64px 36px, nothing else: with inline positioning the div and the p carry it - as 10% 10% with a
   640x360 video, and the writer refuses without a video size *)
Example C13_ex_inline :
  let g := mkLayout (Some (mkPoint (mkSize (64 # 1) PX) (mkSize (36 # 1) PX))) None None None None in
  let g' := mkLayout (Some (mkPoint (mkSize (10 # 1) PCT) (mkSize (10 # 1) PCT))) None None None None in
  let s := mkNset (Some g) [mkNlang None [mkNcap None [mkNode 1 None]]] in
  match dfxp_transform_inline (mkCfg true false (Some (640 # 1)) (Some (360 # 1))) s with
  | Ok s' => inline_layouts s' = [Some g'; Some g'] | Err _ => False end
  /\ dfxp_transform_inline (mkCfg true false None None) s = Err ERelativization
  /\ existsb (opt_needs (mkCfg true false None None)) (ns_layout s :: written_layouts s) = true.
Proof. vm_compute. repeat split. Qed.

(* PARTIAL (hypothesis on the RESULT s', not on the input: that as_percentage_of and the repaired fit_to_screen keep
   lengths non-negative is not proved here; and, as above, the table of the written languages only).  With relativization
   on, the attribute values layout_attrs prints for every region of that table (tts:origin / tts:extent / tts:padding through
   the model of Size.__str__) are read by C12's MODEL of the reader's from_xml_attribute (read_region) as a layout whose
   lengths are all percentages.  (That the strings end in "%" is C18's shape of size_str; not restated here.) *)
From PV Require Import proofs.DfxpTreeFacts proofs.Pos13DocFacts.
Theorem C13_dfxp_document_regions_percent_partial : forall c s s', w_rel c = true -> dfxp_transform c s = Ok s' ->
  Forall opt_nonneg (written_layouts s') ->
  forall id a, In (id, a) (map (fun kv => (snd kv, layout_attrs (fst kv))) (region_map (written_layouts s'))) ->
  exists r, read_region a = Ok r /\ all_pct r = true.
Proof. exact dfxp_document_regions_percent. Qed.
Print Assumptions C13_dfxp_document_regions_percent_partial.

Example C13_ex_document_region :
  let c := mkCfg true true (Some (640 # 1)) (Some (360 # 1)) in
  let s := mkNset None [mkNlang (Some (mkLayout (Some (mkPoint (mkSize (64 # 1) PX) (mkSize (36 # 1) PX))) None None None None))
                                [mkNcap None [mkNode 1 None]]] in
  match dfxp_transform c s with
  | Ok s' => Forall opt_nonneg (written_layouts s')
             /\ map (fun kv => (snd kv, ra_origin (layout_attrs (fst kv)))) (region_map (written_layouts s'))
                = [(RId 0, Some (lit "10% 10%")); (RDefault, None)]
  | Err _ => False
  end.
Proof.
  vm_compute. split; [|reflexivity].
  repeat constructor; cbn; intros H; discriminate H.
Qed.

(* "WebVTT output never contains a non-percentage length" on the printed string (model/VttText.v vtt_settings_text = the
   string _convert_positioning returns, request 1321): for computed cue settings it is [" align:<name>"] followed by, for each
   of position / line / size, nothing (absent) or the key and a number (digits, optionally a point and one or two digits)
   followed by "%".  vs_nonneg constrains the OUTPUT settings (a padding wider than the cue gives a negative size, outside
   the size language; about a fifth of the stream's cases). *)
From PV Require Import model.DfxpAlign model.VttText proofs.GeomPrint proofs.Pos13VttTextFacts.
Theorem C13_vtt_text_percent : forall c lo v, vtt_convert_positioning c lo = Ok (VSet v) -> vs_nonneg v ->
  exists t1 t2 t3,
    vtt_settings_text (VSet v)
    = (match vs_align v with Some h => lit " align:" ++ halign_name h | None => [] end) ++ t1 ++ t2 ++ t3
    /\ setting_pct (lit " position:") (vs_position v) t1 /\ setting_pct (lit " line:") (vs_line v) t2
    /\ setting_pct (lit " size:") (vs_size v) t3.
Proof. exact vtt_settings_text_percent. Qed.
Print Assumptions C13_vtt_text_percent.

Example C13_ex_vtt_text :
  let s v := mkSize v PCT in
  let px v := mkSize v PX in
  match vtt_convert_positioning (mkCfg true true (Some (640 # 1)) (Some (360 # 1)))
          (Some (mkLayout (Some (mkPoint (px (64 # 1)) (px (36 # 1)))) (Some (mkStretch (px (333 # 1)) (px (36 # 1)))) None
                          (Some (mkAlign (Some HRight) None)) None)) with
  | Ok o => vtt_settings_text o = lit " align:right position:10% line:10% size:52.03%"
  | Err _ => False
  end.
Proof. vm_compute. reflexivity. Qed.

(* ==== round 4: SAMI and WebVTT down to the printed text ============================================================ *)
From PV Require Import model.Pos13Doc proofs.Pos13TextDocFacts.

(* SAMI: with relativization on, every margin the writer prints (margin-top / -right / -bottom / -left of the set-level
   block and of every language block: model/Pos13Doc.v, request 1322) is the print of a padding component of that level of
   the transformed set, is a number followed by "%", and Size.from_string reads it back as a percentage within 1/200 of
   the exact relativized value.  Paddings non-negative (the size language). *)
Theorem C13_sami_document_percent : forall c s s', w_rel c = true -> sami_transform c s = Ok s' ->
  Forall opt_pad_nonneg (ns_layout s' :: map nl_layout (ns_langs s')) ->
  Forall2 (fun block o => forall k t, In (k, t) block -> exists z, In z (padding_sizes o) /\ printed_pct_of t z)
          (sami_doc_margins s') (ns_layout s' :: map nl_layout (ns_langs s')).
Proof. exact sami_document_percent. Qed.
Print Assumptions C13_sami_document_percent.

(* WebVTT: every computed position / line / size of every cue of every caption of the written language - in every
   configuration - is printed as a percentage that re-parses within 1/200 of the exact value (non-negative lengths);
   raw settings are C12's verbatim clause *)
Theorem C13_vtt_document_percent : forall c lg outs, vtt_language c lg = Ok outs -> Forall (Forall cue_text_pct) outs.
Proof. exact vtt_document_percent. Qed.
Print Assumptions C13_vtt_document_percent.

Example C13_ex_sami_margins :
  let px v := mkSize v PX in
  let l := mkLayout None None (Some (mkPadding (px (36 # 1)) (px (18 # 1)) (px (64 # 1)) (px (32 # 1)))) None None in
  match sami_transform (mkCfg true false (Some (640 # 1)) (Some (360 # 1))) (mkNset None [mkNlang (Some l) []]) with
  | Ok s' => sami_doc_margins s' = [[]; [(lit "margin-top", lit "10%"); (lit "margin-right", lit "5%");
                                        (lit "margin-bottom", lit "5%"); (lit "margin-left", lit "10%")]]
             /\ Forall opt_pad_nonneg (ns_layout s' :: map nl_layout (ns_langs s'))
  | Err _ => False
  end.
Proof.
  vm_compute. split; [reflexivity|].
  repeat constructor; intros z Hz; cbn in Hz; repeat (destruct Hz as [<-|Hz]; [cbn; discriminate|]); destruct Hz.
Qed.
