(* C16 - Roll-up and paint-on SCC text is conserved and ordered.
   Models: model/SccDecoder.v (whole decoder), model/SccStash.v, model/SccRollPaint.v (flush events).
   Spec: spec/SpecScc16.v (oracle used on the implementation). Only statements closed by `exact`. *)
From Coq Require Import List ZArith QArith Bool.
From PV Require Import lib.Sx lib.Str lib.Result model.GenScc model.SccTime model.SccStash model.SccDecoder model.SccPopon model.SccRollPaint.
From PV Require Import spec.SpecSccTime.
From PV Require Import proofs.SccStashFacts proofs.SccItalicsFacts proofs.SccDoubleFacts proofs.SccConserveFacts proofs.SccRollPaintFacts proofs.SccConserveExtFacts proofs.SccRollPaintLinkFacts proofs.SccRollPaintLink2Facts.
From PV Require Import spec.Spec608 spec.SpecScc16Sent proofs.SccSent608Facts.
Import ListNotations.
Open Scope Z_scope.

(* MAIN (conservation, on the whole decoder model): for EVERY stream that starts with a roll-up 2/3/4 or
   resume-direct-captioning command and uses roll-up / paint-on code words (mode commands, carriage return, preamble
   address codes, tab offsets, special characters, character pairs and fillers; any number of lines, any timecodes),
   the non-blank characters of the captions returned are exactly the non-blank characters handed to the buffer, each
   once, in transmission order - a doubled code counting once, as decided by the decoder's own doubling memory.
   (Blanks are excluded because the reader strips blanks at line ends.) *)
Theorem C16_rollup_painton_conserved : forall off tc0 w0 ws0 ls caps,
  (w0 = w_ru2 \/ w0 = w_ru3 \/ w0 = w_ru4 \/ w0 = w_rdc) ->
  forallb rp_word ws0 = true -> forallb (fun l => forallb rp_word (snd l)) ls = true ->
  read off ((tc0, w0 :: ws0) :: ls) = ROk caps ->
  nonspace (caps_text caps) = nonspace (sent_lines (rstate0 off) ((tc0, w0 :: ws0) :: ls)).
Proof. exact rollup_painton_conserved. Qed.
Print Assumptions C16_rollup_painton_conserved.

(* The same for the WIDER alphabet with extended characters, backspace and Erase-Displayed-Memory: the text of the returned
   captions is the result of the explicit edit script `sentx_text` (proofs/SccConserveExtFacts.v): a character word appends,
   an extended character erases the last character of the ACTIVE buffer unless that is itself an extended character (or the
   buffer is empty) and appends, a backspace erases one character, a flush closes the buffer; doubled codes count once *)
Theorem C16_rollup_painton_conserved_ext : forall off tc0 w0 ws0 ls caps,
  (w0 = w_ru2 \/ w0 = w_ru3 \/ w0 = w_ru4 \/ w0 = w_rdc) ->
  forallb rpb_word ws0 = true -> forallb (fun l => forallb rpb_word (snd l)) ls = true ->
  read off ((tc0, w0 :: ws0) :: ls) = ROk caps ->
  nonspace (caps_text caps) = nonspace (sentx_text (rstate0 off) ((tc0, w0 :: ws0) :: ls)).
Proof. exact rollup_painton_conserved_ext. Qed.
Print Assumptions C16_rollup_painton_conserved_ext.
(* a mid-row code changes nothing but blanks (at most one, at the end of the active buffer's text) *)
Theorem C16_rpx_step_mid : forall s w next, rp_inv s -> memz w scc_mid_row_codes = true -> r_err s = None ->
  let s' := translate_word s w next in
  stash_text (r_stash s') = stash_text (r_stash s) /\
  (content (buf s') = content (buf s) \/ content (buf s') = content (buf s) ++ [32]) /\
  nonspace (content (buf s')) = nonspace (content (buf s)) /\ rp_inv s'.
Proof. exact rpx_step_mid. Qed.
Print Assumptions C16_rpx_step_mid.

(* the step invariant behind it: one word of the alphabet adds exactly its characters to (stored captions ++ buffer) *)
Theorem C16_rp_step : forall s w next, rp_inv s -> rp_word w = true -> r_err s = None ->
  let s' := translate_word s w next in r_err s' = None ->
  total s' = total s ++ nonspace (if fst (handle_double s w) then [] else word_chars w) /\ rp_inv s'.
Proof. exact rp_step. Qed.
Print Assumptions C16_rp_step.
Theorem C16_rp_enter : forall off tc w next, (w = w_ru2 \/ w = w_ru3 \/ w = w_ru4 \/ w = w_rdc) ->
  let s := translate_word (set_clock (rstate0 off) tc 0) w next in r_err s = None -> rp_inv s /\ total s = [].
Proof. exact rp_enter. Qed.
Print Assumptions C16_rp_enter.

(* buffer -> captions: italics passes, caption building and the caption list lose no non-blank character *)
Theorem C16_create_and_store_text : forall s c start e, SccDoubleFacts.wf_nodes (cr_nodes c) ->
  nonspace (stash_text (create_and_store s c start e)) = nonspace (stash_text s) ++ nonspace (content c).
Proof. exact create_and_store_text. Qed.
Print Assumptions C16_create_and_store_text.
Theorem C16_format_italics_nonspace : forall l, SccItalicsFacts.wf_nodes l ->
  nonspace (concat (map i_text (format_italics l))) = nonspace (concat (map i_text l)).
Proof. exact format_italics_nonspace. Qed.
Print Assumptions C16_format_italics_nonspace.
(* rows kept together / order: the caption list never drops, reorders or edits the nodes of a stored caption *)
Theorem C16_order_kept : forall ops,
  map pc_start (st_caps (srun ops)) = map pc_start (stored ops) /\
  map pc_nodes (st_caps (srun ops)) = map pc_nodes (stored ops).
Proof. exact srun_order. Qed.
Print Assumptions C16_order_kept.

(* TIMING CHAIN: the reader's flush logic (roll-up: store + forced end-time correction; paint-on: store, end set by the
   next store) run on ANY sequence of flush events with positive instants yields the chain through those instants:
   each caption ends exactly when the next begins; a paint-on caption still open at the end lasts 4 s *)
Theorem C16_timing_chain_all : forall t0 evs pending, rp_positive t0 evs ->
  rp_read t0 evs pending = rp_expected_all t0 evs pending.
Proof. exact rp_chain_all. Qed.
Print Assumptions C16_timing_chain_all.
Theorem C16_timing_chain : forall t0 evs pending, rp_positive t0 evs ->
  (pending = false -> ends_in_paint evs = false) ->
  rp_read t0 evs pending = rp_expected t0 evs pending.
Proof. exact rp_chain. Qed.
Print Assumptions C16_timing_chain.
Theorem C16_ends_meet : forall t0 evs pending l, rp_positive t0 evs ->
  (pending = false -> ends_in_paint evs = false) ->
  rp_read t0 evs pending = Ok l ->
  forall i a b, nth_error l i = Some a -> nth_error l (S i) = Some b -> snd a = fst b.
Proof. exact rp_chain_ends_meet. Qed.
Print Assumptions C16_ends_meet.

(* t0 = 0 is allowed (a stream that starts at 00:00:00:00), and INCREASING instants give what the statement says about order:
   start < end for every caption, strictly increasing starts, each caption ends exactly when the next begins. (rp_read is an
   event-level model: it is tied to the reader by execution - request 1602 vs the implementation - not by a theorem.) *)
Theorem C16_timing_chain_nonneg : forall t0 evs pending, rp_nonneg t0 evs ->
  rp_read t0 evs pending = rp_expected_all t0 evs pending.
Proof. exact rp_chain_all_nonneg. Qed.
Print Assumptions C16_timing_chain_nonneg.
Theorem C16_timing_chain_ordered : forall t0 evs pending l, rp_nonneg t0 evs -> increasing t0 (map rp_time evs) ->
  rp_read t0 evs pending = Ok l ->
  Forall (fun p => (fst p < snd p)%Q) l /\
  (forall i a b, nth_error l i = Some a -> nth_error l (S i) = Some b -> (fst a < fst b)%Q /\ snd a = fst b).
Proof. exact rp_chain_ordered. Qed.
Print Assumptions C16_timing_chain_ordered.

(* ---- wave 5: conservation against an INDEPENDENT definition of "the characters transmitted". spec/SpecScc16Sent.v
   (imports Spec608 only: no decoder model, no generated table) defines sent608: the characters a CEA-608 decoder displays
   for a roll-up / paint-on word stream - glyphs from the Spec608 tables by the bytes of the word with parity stripped, the
   608 rule that a control pair immediately repeating the previous word is the redundancy copy (unless that word was itself
   a copy), an extended character replacing the stand-in before it. On the domain dom608 (also written with Spec608
   recognisers only: parity-correct mode commands, CR, EDM, preamble codes, tab offsets, special / extended characters,
   character pairs 0x20..0x7e, fillers; a tab offset only after a preamble code / tab offset / copy; an extended character
   only right after the pair or special carrying its stand-in) the decoder's own edit script equals sent608 - as strings -
   and so do the non-blank characters of the captions `read` returns. The three restrictions are necessary (Examples in
   proofs/SccSent608Facts.v: tab_after_special_diverges, ext_after_ext_diverges, no_error_hypothesis_needed). *)
Theorem C16_skip_decision_is_608 : forall s m w, alpha608 w = true -> Inv m (r_last s) ->
  (is_pac608 w || is_tab608 w) = false -> fst (handle_double s w) = copy608 m w.
Proof. exact skip_decision_608. Qed.
Print Assumptions C16_skip_decision_is_608.
Theorem C16_sentx_is_sent608 : forall off ls, dom608 ls = true ->
  r_err (fold_left translate_line ls (rstate0 off)) = None ->
  sentx_text (rstate0 off) ls = sent608 (map snd ls).
Proof. exact sentx_is_sent608. Qed.
Print Assumptions C16_sentx_is_sent608.
Theorem C16_rollup_painton_conserved_608 : forall off tc0 w0 ws0 ls caps,
  (w0 = w_ru2 \/ w0 = w_ru3 \/ w0 = w_ru4 \/ w0 = w_rdc) ->
  dom608 ((tc0, w0 :: ws0) :: ls) = true ->
  read off ((tc0, w0 :: ws0) :: ls) = ROk caps ->
  nonspace (caps_text caps) = nonspace (sent608 (map snd ((tc0, w0 :: ws0) :: ls))).
Proof. exact rollup_painton_conserved_608. Qed.
Print Assumptions C16_rollup_painton_conserved_608.

Example C16_conserved_608_instance :
  dom608 ex608 = true /\
  sent608 (map snd ex608) = [97; 98; 174; 99; 193; 99; 100] /\
  sentx_text (rstate0 0) ex608 = [97; 98; 174; 99; 193; 99; 100] /\
  exists caps, read 0 ex608 = ROk caps /\ nonspace (caps_text caps) = [97; 98; 174; 99; 193; 99; 100].
Proof. exact rollup_painton_conserved_608_example. Qed.

(* ---- wave 5: the event model is LINKED to the reader model by a theorem. A roll-up / paint-on program is a list of
   timecode lines `head PAC chars` (rseg): head = RU2/RU3/RU4 with or without a carriage return, a bare carriage return, or
   Resume-Direct-Captioning; one row of character pairs per line with at least one visible character and at most 32;
   depths and modes mixed freely; control codes all single or all doubled. The flush events of the decoder on such a
   program - their kinds, their instants (get_time of the line's timecode at word 0; the end-of-file roll-up at the word
   count of the last line) and the pending paint-on buffer - are exactly the rp events: spans_of (read ..) = rp_read ..
   Outside this class (several rows per line, tab offsets, special / extended characters, mid-row codes, backspace, a flush
   in the middle of a line, mixed per-code doubling, switches to pop-on) the link stays by execution (request 1602). *)
Theorem C16_rp_link : forall dd off g0 gs t0 evs tend,
  sg_head g0 <> HCr -> forallb seg_ok (g0 :: gs) = true ->
  get_time (sg_tc g0) 0 off = Ok t0 ->
  rp_events off (seg_paint false g0) gs = Ok evs ->
  (final_paint (seg_paint false g0) gs = false ->
   get_time (sg_tc (last gs g0)) (Z.of_nat (length (rseg_words dd (last gs g0)))) off = Ok tend) ->
  spans_of (read off (map (rseg_line dd) (g0 :: gs))) =
  rp_read t0 (evs ++ (if final_paint (seg_paint false g0) gs then [] else [RRoll tend]))
          (final_paint (seg_paint false g0) gs).
Proof. exact rp_link. Qed.
Print Assumptions C16_rp_link.
(* for rendered well-formed timecodes every instant exists *)
Theorem C16_rp_link_total : forall dd off g0 gs,
  sg_head g0 <> HCr -> forallb seg_ok (g0 :: gs) = true -> Forall wf_tc (g0 :: gs) ->
  exists t0 evs tend,
    get_time (sg_tc g0) 0 off = Ok t0 /\ rp_events off (seg_paint false g0) gs = Ok evs /\
    get_time (sg_tc (last gs g0)) (Z.of_nat (length (rseg_words dd (last gs g0)))) off = Ok tend /\
    spans_of (read off (map (rseg_line dd) (g0 :: gs))) =
    rp_read t0 (link_events g0 gs evs tend) (final_paint (seg_paint false g0) gs).
Proof. exact rp_link_total. Qed.
Print Assumptions C16_rp_link_total.
(* hence the chain-timing statements hold for what READ returns: start < end, ordered, each caption ends exactly when the
   next begins *)
Theorem C16_read_chain_ordered : forall dd off g0 gs t0 evs tend l,
  sg_head g0 <> HCr -> forallb seg_ok (g0 :: gs) = true ->
  get_time (sg_tc g0) 0 off = Ok t0 ->
  rp_events off (seg_paint false g0) gs = Ok evs ->
  (final_paint (seg_paint false g0) gs = false ->
   get_time (sg_tc (last gs g0)) (Z.of_nat (length (rseg_words dd (last gs g0)))) off = Ok tend) ->
  rp_nonneg t0 (link_events g0 gs evs tend) ->
  increasing t0 (map rp_time (link_events g0 gs evs tend)) ->
  spans_of (read off (map (rseg_line dd) (g0 :: gs))) = Ok l ->
  Forall (fun p => (fst p < snd p)%Q) l /\
  (forall i a b, nth_error l i = Some a -> nth_error l (S i) = Some b -> (fst a < fst b)%Q /\ snd a = fst b).
Proof. exact read_rp_ordered. Qed.
Print Assumptions C16_read_chain_ordered.
(* pure roll-up (every line headed by its RU command): the spans read ARE the chain through the line instants *)
Theorem C16_rollup_read_is_chain : forall dd off g0 gs t0 ts tend l,
  forallb is_ru (g0 :: gs) = true -> forallb seg_ok (g0 :: gs) = true ->
  get_time (sg_tc g0) 0 off = Ok t0 -> instants off gs = Ok ts ->
  get_time (sg_tc (last gs g0)) (Z.of_nat (length (rseg_words dd (last gs g0)))) off = Ok tend ->
  (0 <= t0)%Q -> increasing t0 (ts ++ [tend]) ->
  spans_of (read off (map (rseg_line dd) (g0 :: gs))) = Ok l ->
  l = chain t0 (ts ++ [tend]) /\ Forall (fun p => (fst p < snd p)%Q) l /\
  (forall i a b, nth_error l i = Some a -> nth_error l (S i) = Some b -> (fst a < fst b)%Q /\ snd a = fst b).
Proof. exact rollup_read_ordered. Qed.
Print Assumptions C16_rollup_read_is_chain.
(* the same link for a wider class of lines (rseg4 = flags x rseg3): the row may carry special characters and a tab offset
   (doubled as the unit PAC TO PAC TO), a second row on the NEXT screen row may follow on the line (one caption with a line
   break), and every line has its own doubling flags per class of code (mode command, carriage return, each preamble unit,
   the specials of each row). A special character sent once must not repeat the one before it (it would be taken for the
   redundancy copy: Example no_rep_needed in proofs/SccRollPaintLink2Facts.v). Rows on NON-adjacent screen rows in one buffer
   give several captions sharing a span, so there the link holds only up to `screens` (Example nonadjacent_rows_duplicate);
   extended characters, backspace, mid-row codes and a flush in the middle of a line remain execution-only. *)
Theorem C16_rp_link_wide : forall off g0 gs t0 evs tend,
  s2_head (s3_line (snd g0)) <> HCr -> forallb seg_ok4 (g0 :: gs) = true ->
  get_time (s2_tc (s3_line (snd g0))) 0 off = Ok t0 ->
  rp_events off (seg_paint false (skel4 g0)) (map skel4 gs) = Ok evs ->
  (final_paint (seg_paint false (skel4 g0)) (map skel4 gs) = false ->
   get_time (s2_tc (s3_line (snd (last gs g0)))) (Z.of_nat (length (rseg4_words (last gs g0)))) off = Ok tend) ->
  spans_of (read off (map rseg4_line (g0 :: gs))) =
  rp_read t0 (link_events (skel4 g0) (map skel4 gs) evs tend) (final_paint (seg_paint false (skel4 g0)) (map skel4 gs)).
Proof. exact rp_link4. Qed.
Print Assumptions C16_rp_link_wide.
Theorem C16_read_chain_ordered_wide : forall off g0 gs t0 evs tend l,
  s2_head (s3_line (snd g0)) <> HCr -> forallb seg_ok4 (g0 :: gs) = true ->
  get_time (s2_tc (s3_line (snd g0))) 0 off = Ok t0 ->
  rp_events off (seg_paint false (skel4 g0)) (map skel4 gs) = Ok evs ->
  (final_paint (seg_paint false (skel4 g0)) (map skel4 gs) = false ->
   get_time (s2_tc (s3_line (snd (last gs g0)))) (Z.of_nat (length (rseg4_words (last gs g0)))) off = Ok tend) ->
  rp_nonneg t0 (link_events (skel4 g0) (map skel4 gs) evs tend) ->
  increasing t0 (map rp_time (link_events (skel4 g0) (map skel4 gs) evs tend)) ->
  spans_of (read off (map rseg4_line (g0 :: gs))) = Ok l ->
  l = rp_spans t0 (link_events (skel4 g0) (map skel4 gs) evs tend) (final_paint (seg_paint false (skel4 g0)) (map skel4 gs)) /\
  Forall (fun p => (fst p < snd p)%Q) l /\
  (forall i a b, nth_error l i = Some a -> nth_error l (S i) = Some b -> (fst a < fst b)%Q /\ snd a = fst b).
Proof. exact read_rp_ordered4. Qed.
Print Assumptions C16_read_chain_ordered_wide.
Example C16_rp_link_wide_instance :
  map rseg4_line [ex4_x1; ex4_x2; ex4_x3] =
    [(lit "00:00:01:00", [37925; 37925; 38061; 37232; 24930; 37440; 38817; 37440; 38817; 37175; 58212]);
     (lit "00:00:03:00", [38061; 38000; 37175; 58854]);
     (lit "00:00:05:10", [37929; 37232; 38691; 37232; 38691; 26472; 37296])] /\
  spans_of (read 0 (map rseg4_line [ex4_x1; ex4_x2; ex4_x3])) =
    rp_read 1001000 [RRoll 3003000; RRoll (16016000 # 3)] true /\
  spans_of (read 0 (map rseg4_line [ex4_x1; ex4_x2; ex4_x3])) =
    Ok [(1001000, 3003000); (3003000, 16016000 # 3); (16016000 # 3, (16016000 # 3) + four_s)]%Q.
Proof. exact rp_link4_example. Qed.

(* non-vacuity: three doubled roll-up lines "abcd" / "ef" / "ghij" *)
Example C16_rp_link_instance :
  spans_of (read 0 (map (rseg_line true) [ex_g1; ex_g2; ex_g3])) =
    rp_read 1001000 [RPaint 3003000; RPaint (16016000 # 3); RRoll 5605600] false /\
  spans_of (read 0 (map (rseg_line true) [ex_g1; ex_g2; ex_g3])) =
    Ok [(1001000, 3003000); (3003000, 16016000 # 3); (16016000 # 3, 5605600)]%Q.
Proof. exact (proj2 (proj2 (proj2 (proj2 rollup_link_example)))). Qed.

(* non-vacuity: a roll-up stream  RU2 CR PAC "ab" / CR PAC "cd"  read by the model *)
Example C16_example :
  match read 0 [(lit "00:00:01:00", [w_ru2; w_ru2; w_cr; w_cr; 38000; 38000; 24930]);
                (lit "00:00:03:00", [w_cr; w_cr; 38000; 38000; 58212])] with
  | ROk [c1; c2] => caps_text [c1; c2] = [97; 98; 99; 100] /\ Qeq_bool (pc_end c1) (pc_start c2) = true
  | _ => False
  end.
Proof. vm_compute. split; reflexivity. Qed.

(* ---- wave 7: the two known findings about rows WITHOUT a displayable character, as Examples (single closed streams, vm_compute) about the decoder model
   (known_findings.d/C16-gap-after-empty-row.json, C16-blank-only-row.json; the harness reproduces both against the real
   reader on every run). The chain clause "each caption ends exactly when the next one begins" FAILS on these well-formed
   streams: a gap after a paint-on passage of null padding; a caption left with end 0 (start > end) before a roll-up row of
   blanks ----------------------------------------------------------------------------------------------------------- *)
From PV Require Import proofs.SccRollPaintFindingFacts.
Example C16_gap_after_empty_row_refuted : exists s1 e1 s2 e2,
  spans_of (read 0 gap_witness) = Ok [(s1, e1); (s2, e2)] /\ (s1 < e1)%Q /\ (e1 < s2)%Q.
Proof. exact gap_after_empty_row_refuted. Qed.
Example C16_blank_only_row_refuted : exists s1 e1 s2 e2,
  spans_of (read 0 blank_row_witness) = Ok [(s1, e1); (s2, e2)] /\ (0 < s1)%Q /\ (e1 == 0)%Q /\ (s1 < s2)%Q.
Proof. exact blank_only_row_refuted. Qed.
