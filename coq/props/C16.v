(* C16 - Roll-up and paint-on SCC text is conserved and ordered.
   Models: model/SccDecoder.v (whole decoder), model/SccStash.v, model/SccRollPaint.v (flush events).
   Spec: spec/SpecScc16.v (oracle used on the implementation). Only statements closed by `exact`. *)
From Coq Require Import List ZArith QArith Bool.
From PV Require Import lib.Sx lib.Str lib.Result model.GenScc model.SccTime model.SccStash model.SccDecoder model.SccPopon model.SccRollPaint.
From PV Require Import spec.SpecSccTime.
From PV Require Import proofs.SccStashFacts proofs.SccItalicsFacts proofs.SccDoubleFacts proofs.SccConserveFacts proofs.SccRollPaintFacts proofs.SccConserveExtFacts.
Import ListNotations.
Open Scope Z_scope.

(* MAIN (conservation, on the whole decoder model): for EVERY stream that starts with a roll-up 2/3/4 or
   resume-direct-captioning command and uses roll-up / paint-on code words (mode commands, carriage return, preamble
   address codes, tab offsets, special characters, character pairs and fillers; any number of lines, any timecodes),
   the non-blank characters of the captions returned are exactly the non-blank characters handed to the buffer, each
   once, in transmission order - a doubled code counting once, as decided by the decoder's own doubling memory.
   (Blanks are excluded because the reader strips blanks at line ends.) *)
Theorem C16_rollup_painton_conserved : forall off tc0 w0 ws0 ls caps,
  (w0 = w_ru2 \/ w0 = w_ru3 \/ w0 = w_ru4 \/ w0 = w_rdc) ->
  forallb rp_word ws0 = true -> forallb (fun l => forallb rp_word (snd l)) ls = true ->
  read off ((tc0, w0 :: ws0) :: ls) = ROk caps ->
  nonspace (caps_text caps) = nonspace (sent_lines (rstate0 off) ((tc0, w0 :: ws0) :: ls)).
Proof. exact rollup_painton_conserved. Qed.
Print Assumptions C16_rollup_painton_conserved.

(* The same for the WIDER alphabet with extended characters, backspace and Erase-Displayed-Memory: the text of the returned
   captions is the result of the explicit edit script `sentx_text` (proofs/SccConserveExtFacts.v): a character word appends,
   an extended character erases the last character of the ACTIVE buffer unless that is itself an extended character (or the
   buffer is empty) and appends, a backspace erases one character, a flush closes the buffer; doubled codes count once *)
Theorem C16_rollup_painton_conserved_ext : forall off tc0 w0 ws0 ls caps,
  (w0 = w_ru2 \/ w0 = w_ru3 \/ w0 = w_ru4 \/ w0 = w_rdc) ->
  forallb rpb_word ws0 = true -> forallb (fun l => forallb rpb_word (snd l)) ls = true ->
  read off ((tc0, w0 :: ws0) :: ls) = ROk caps ->
  nonspace (caps_text caps) = nonspace (sentx_text (rstate0 off) ((tc0, w0 :: ws0) :: ls)).
Proof. exact rollup_painton_conserved_ext. Qed.
Print Assumptions C16_rollup_painton_conserved_ext.
(* a mid-row code changes nothing but blanks (at most one, at the end of the active buffer's text) *)
Theorem C16_rpx_step_mid : forall s w next, rp_inv s -> memz w scc_mid_row_codes = true -> r_err s = None ->
  let s' := translate_word s w next in
  stash_text (r_stash s') = stash_text (r_stash s) /\
  (content (buf s') = content (buf s) \/ content (buf s') = content (buf s) ++ [32]) /\
  nonspace (content (buf s')) = nonspace (content (buf s)) /\ rp_inv s'.
Proof. exact rpx_step_mid. Qed.
Print Assumptions C16_rpx_step_mid.

(* the step invariant behind it: one word of the alphabet adds exactly its characters to (stored captions ++ buffer) *)
Theorem C16_rp_step : forall s w next, rp_inv s -> rp_word w = true -> r_err s = None ->
  let s' := translate_word s w next in r_err s' = None ->
  total s' = total s ++ nonspace (if fst (handle_double s w) then [] else word_chars w) /\ rp_inv s'.
Proof. exact rp_step. Qed.
Print Assumptions C16_rp_step.
Theorem C16_rp_enter : forall off tc w next, (w = w_ru2 \/ w = w_ru3 \/ w = w_ru4 \/ w = w_rdc) ->
  let s := translate_word (set_clock (rstate0 off) tc 0) w next in r_err s = None -> rp_inv s /\ total s = [].
Proof. exact rp_enter. Qed.
Print Assumptions C16_rp_enter.

(* buffer -> captions: italics passes, caption building and the caption list lose no non-blank character *)
Theorem C16_create_and_store_text : forall s c start e, SccDoubleFacts.wf_nodes (cr_nodes c) ->
  nonspace (stash_text (create_and_store s c start e)) = nonspace (stash_text s) ++ nonspace (content c).
Proof. exact create_and_store_text. Qed.
Print Assumptions C16_create_and_store_text.
Theorem C16_format_italics_nonspace : forall l, SccItalicsFacts.wf_nodes l ->
  nonspace (concat (map i_text (format_italics l))) = nonspace (concat (map i_text l)).
Proof. exact format_italics_nonspace. Qed.
Print Assumptions C16_format_italics_nonspace.
(* rows kept together / order: the caption list never drops, reorders or edits the nodes of a stored caption *)
Theorem C16_order_kept : forall ops,
  map pc_start (st_caps (srun ops)) = map pc_start (stored ops) /\
  map pc_nodes (st_caps (srun ops)) = map pc_nodes (stored ops).
Proof. exact srun_order. Qed.
Print Assumptions C16_order_kept.

(* TIMING CHAIN: the reader's flush logic (roll-up: store + forced end-time correction; paint-on: store, end set by the
   next store) run on ANY sequence of flush events with positive instants yields the chain through those instants:
   each caption ends exactly when the next begins; a paint-on caption still open at the end lasts 4 s *)
Theorem C16_timing_chain_all : forall t0 evs pending, rp_positive t0 evs ->
  rp_read t0 evs pending = rp_expected_all t0 evs pending.
Proof. exact rp_chain_all. Qed.
Print Assumptions C16_timing_chain_all.
Theorem C16_timing_chain : forall t0 evs pending, rp_positive t0 evs ->
  (pending = false -> ends_in_paint evs = false) ->
  rp_read t0 evs pending = rp_expected t0 evs pending.
Proof. exact rp_chain. Qed.
Print Assumptions C16_timing_chain.
Theorem C16_ends_meet : forall t0 evs pending l, rp_positive t0 evs ->
  (pending = false -> ends_in_paint evs = false) ->
  rp_read t0 evs pending = Ok l ->
  forall i a b, nth_error l i = Some a -> nth_error l (S i) = Some b -> snd a = fst b.
Proof. exact rp_chain_ends_meet. Qed.
Print Assumptions C16_ends_meet.

(* t0 = 0 is allowed (a stream that starts at 00:00:00:00), and INCREASING instants give what the statement says about order:
   start < end for every caption, strictly increasing starts, each caption ends exactly when the next begins. (rp_read is an
   event-level model: it is tied to the reader by execution - request 1602 vs the implementation - not by a theorem.) *)
Theorem C16_timing_chain_nonneg : forall t0 evs pending, rp_nonneg t0 evs ->
  rp_read t0 evs pending = rp_expected_all t0 evs pending.
Proof. exact rp_chain_all_nonneg. Qed.
Print Assumptions C16_timing_chain_nonneg.
Theorem C16_timing_chain_ordered : forall t0 evs pending l, rp_nonneg t0 evs -> increasing t0 (map rp_time evs) ->
  rp_read t0 evs pending = Ok l ->
  Forall (fun p => (fst p < snd p)%Q) l /\
  (forall i a b, nth_error l i = Some a -> nth_error l (S i) = Some b -> (fst a < fst b)%Q /\ snd a = fst b).
Proof. exact rp_chain_ordered. Qed.
Print Assumptions C16_timing_chain_ordered.

(* non-vacuity: a roll-up stream  RU2 CR PAC "ab" / CR PAC "cd"  read by the model *)
Example C16_example :
  match read 0 [(lit "00:00:01:00", [w_ru2; w_ru2; w_cr; w_cr; 38000; 38000; 24930]);
                (lit "00:00:03:00", [w_cr; w_cr; 38000; 38000; 58212])] with
  | ROk [c1; c2] => caps_text [c1; c2] = [97; 98; 99; 100] /\ Qeq_bool (pc_end c1) (pc_start c2) = true
  | _ => False
  end.
Proof. vm_compute. split; reflexivity. Qed.
