(* C16 (stub, replaced when the theorem files land) *)
From Coq Require Import List ZArith QArith Bool.
From PV Require Import spec.SpecScc16.
Theorem C16_stub : ok_chain nil = true.
Proof. reflexivity. Qed.
Print Assumptions C16_stub.
