(* C19 - Timing adjustment and concurrent-caption merging keep all text in order.
   Only statements closed by `exact`, with Print Assumptions; Examples show non-vacuity.
   Groups:  (1) the model MEETS THE ORACLE  (2) model = statement-level spec  (3) facts that pin the spec's
   vocabulary (runs)  (4) reading aids: unfoldings of the spec, named _unfold (definitional, no content of their own). *)
From Coq Require Import List ZArith QArith Bool.
From PV Require Import lib.Sx lib.Result model.Base model.BaseObj spec.SpecBase proofs.BaseFacts proofs.BaseObjFacts proofs.BaseComposeFacts proofs.BaseTotalFacts.
Import ListNotations.

(* ---------------- (1) the model meets the decidable property oracle, all inputs ---------------- *)

(* adjust, several languages, every rational skew/offset *)
Theorem C19_adjust_ok : forall skew off langs, ok_adjust skew off langs (adjust skew off langs) = true.
Proof. exact adjust_ok. Qed.
Print Assumptions C19_adjust_ok.

(* adjust on a heap of Caption OBJECTS (one object under several languages / several times in one list):
   the repaired loop shows an observer exactly what the value model computes, for every alias structure ... *)
Theorem C19_adjust_objects_value : forall skew off h langs,
  (forall ids k, In ids langs -> In k ids -> (k < length h)%nat) ->
  adjust_objs skew off h langs = adjust skew off (map (map (deref h)) langs).
Proof. exact adjust_objs_value. Qed.
Print Assumptions C19_adjust_objects_value.
(* ... and therefore meets the oracle on the values the languages refer to *)
Theorem C19_adjust_objects_ok : forall skew off h langs, refs_ok h langs = true ->
  ok_adjust skew off (map (map (deref h)) langs) (adjust_objs skew off h langs) = true.
Proof. exact adjust_objs_ok. Qed.
Print Assumptions C19_adjust_objects_ok.

(* merge, several languages: never raises on its domain, meets the oracle (runs joined AND merging again
   changes nothing) *)
Theorem C19_merge_ok : forall langs, forallb nodes_nonempty langs = true ->
  ok_merge langs (merge_concurrent langs) (do m <- merge_concurrent langs; merge_concurrent m) = true.
Proof. exact merge_ok. Qed.
Print Assumptions C19_merge_ok.

(* ---------------- (2) model = statement-level spec ---------------- *)

(* adjust: the loop is exactly "retime every caption, keep order, drop the negative starts" *)
(* semi-definitional (audit w7): the RHS uses the model's own `retime`; the statement-level version is
   C19_adjust_meets_spec below *)
Theorem C19_adjust_filter_map : forall skew off caps,
  adjust_lang skew off caps = filter (fun c => Qle_bool 0 (c_start c)) (map (retime skew off) caps).
Proof. exact adjust_lang_filter_map. Qed.
Print Assumptions C19_adjust_filter_map.

(* against spec_adjust_lang (written from the statement): same length, caption by caption equal as rationals *)
Theorem C19_adjust_meets_spec : forall skew off caps,
  Forall2 cap_equiv (adjust_lang skew off caps) (spec_adjust_lang skew off caps).
Proof. exact adjust_meets_spec. Qed.
Print Assumptions C19_adjust_meets_spec.
Theorem C19_adjust_langs_meet_spec : forall skew off langs,
  Forall2 (Forall2 cap_equiv) (adjust skew off langs) (map (spec_adjust_lang skew off) langs).
Proof. exact adjust_langs_meet_spec. Qed.
Print Assumptions C19_adjust_langs_meet_spec.

(* merge = "join every maximal run", per language and for the whole set *)
Theorem C19_merge_runs : forall caps, nodes_nonempty caps = true ->
  merge_lang caps = Ok (map join_run (runs caps)).
Proof. exact merge_lang_spec. Qed.
Print Assumptions C19_merge_runs.
Theorem C19_merge_concurrent_runs : forall langs, forallb nodes_nonempty langs = true ->
  merge_concurrent langs = Ok (map spec_merge_lang langs).
Proof. exact merge_concurrent_spec. Qed.
Print Assumptions C19_merge_concurrent_runs.

(* merging again changes nothing *)
Theorem C19_merge_idempotent : forall caps, nodes_nonempty caps = true ->
  (do m <- merge_lang caps; merge_lang m) = merge_lang caps.
Proof. exact merge_twice. Qed.
Print Assumptions C19_merge_idempotent.
Theorem C19_merge_concurrent_idempotent : forall langs, forallb nodes_nonempty langs = true ->
  (do m <- merge_concurrent langs; merge_concurrent m) = merge_concurrent langs.
Proof. exact merge_concurrent_twice. Qed.
Print Assumptions C19_merge_concurrent_idempotent.

(* "leaves every other caption as it was": a list without two consecutive equal spans is returned unchanged,
   and a caption alone in its run is carried over as it is *)
Theorem C19_merge_identity : forall caps, nodes_nonempty caps = true -> no_adjacent_equal caps = true ->
  merge_lang caps = Ok caps.
Proof. exact merge_lang_identity. Qed.
Print Assumptions C19_merge_identity.
Theorem C19_merge_keeps_singletons : forall caps c, nodes_nonempty caps = true -> In (c, []) (runs caps) ->
  exists out, merge_lang caps = Ok out /\ In c out.
Proof. exact merge_lang_keeps_singletons. Qed.
Print Assumptions C19_merge_keeps_singletons.

(* outside the domain (node lists emptied after construction) the only possible exception is Caption()'s
   refusal of an empty node list; captions[0] is never evaluated on an empty run *)
Theorem C19_merge_total : forall caps e, merge_lang caps = Err e -> e = ENodeListEmpty.
Proof. exact merge_lang_total. Qed.
Print Assumptions C19_merge_total.

(* ---------------- (3) what "maximal run of consecutive captions" means ---------------- *)
(* runs partition the list in order; members of a run share its span; adjacent runs differ (maximality) *)
Theorem C19_runs_partition : forall caps, concat (map (fun r => fst r :: snd r) (runs caps)) = caps.
Proof. exact runs_partition. Qed.
Print Assumptions C19_runs_partition.
Theorem C19_runs_members_same : forall caps r x, In r (runs caps) -> In x (snd r) -> span_eqb x (fst r) = true.
Proof. exact runs_members_same. Qed.
Print Assumptions C19_runs_members_same.
Theorem C19_runs_maximal : forall caps, adjacent_distinct (runs caps).
Proof. exact runs_adjacent_distinct. Qed.
Print Assumptions C19_runs_maximal.

(* ---------------- (4) reading aids (unfoldings of the spec; definitional) ---------------- *)
Theorem C19_retime_unfold : forall skew off c,
  c_start (retime skew off c) == c_start c * skew + off /\
  c_end (retime skew off c) == c_end c * skew + off /\
  c_nodes (retime skew off c) = c_nodes c.
Proof. exact retime_affine. Qed.
Print Assumptions C19_retime_unfold.
Theorem C19_join_run_unfold : forall c cs,
  c_start (join_run (c, cs)) = c_start c /\ c_end (join_run (c, cs)) = c_end c /\
  c_nodes (join_run (c, cs)) = c_nodes c ++ concat (map (fun x => brk :: c_nodes x) cs).
Proof. exact merge_run_content. Qed.
Print Assumptions C19_join_run_unfold.

(* ---------------- non-vacuity ---------------- *)
Definition cz (s e : Z) (n : list Z) : caption := mkCap (inject_Z s) (inject_Z e) n.

(* a run in the middle *)
Example C19_example :
  merge_lang [cz 0 1 [1%Z]; cz 2 3 [2%Z]; cz 2 3 [3%Z; 4%Z]; cz 5 6 [5%Z]]
  = Ok [cz 0 1 [1%Z]; cz 2 3 [2%Z; brk; 3%Z; 4%Z]; cz 5 6 [5%Z]].
Proof. vm_compute. reflexivity. Qed.

(* A B A: equal spans that are NOT consecutive stay apart; the second caption starts with a break of its own,
   the first ends with one: every input break is kept and one more is inserted *)
Example C19_example_aba :
  merge_lang [cz 0 10 [1%Z; brk]; cz 0 10 [brk; 2%Z]; cz 20 30 [3%Z]; cz 0 10 [4%Z]]
  = Ok [cz 0 10 [1%Z; brk; brk; brk; 2%Z]; cz 20 30 [3%Z]; cz 0 10 [4%Z]].
Proof. vm_compute. reflexivity. Qed.

(* int/float-equal spans (1000 and 1000.0 are the same rational, here written 2000/2) are one run *)
Example C19_example_equal_rationals :
  merge_lang [mkCap (1000 # 1) (2000 # 1) [1%Z]; mkCap (2000 # 2) (4000 # 2) [2%Z]]
  = Ok [mkCap (1000 # 1) (2000 # 1) [1%Z; brk; 2%Z]].
Proof. vm_compute. reflexivity. Qed.

(* hypotheses of C19_merge_ok / C19_merge_concurrent_idempotent are satisfiable, two languages *)
Example C19_example_merge_ok :
  let langs := [[cz 0 1 [1%Z]; cz 0 1 [2%Z]; cz 0 1 [3%Z]]; [cz 5 6 [4%Z]]] in
  forallb nodes_nonempty langs = true /\
  merge_concurrent langs = Ok [[cz 0 1 [1%Z; brk; 2%Z; brk; 3%Z]]; [cz 5 6 [4%Z]]] /\
  (do m <- merge_concurrent langs; merge_concurrent m) = merge_concurrent langs.
Proof. vm_compute. repeat split. Qed.

(* C19_runs_members_same / C19_merge_keeps_singletons instantiated *)
Example C19_example_runs :
  runs [cz 0 1 [1%Z]; cz 2 3 [2%Z]; cz 2 3 [3%Z]] = [(cz 0 1 [1%Z], []); (cz 2 3 [2%Z], [cz 2 3 [3%Z]])].
Proof. vm_compute. reflexivity. Qed.

(* C19_merge_identity: its hypotheses hold of a list with a repeated but non-adjacent span *)
Example C19_example_identity :
  let caps := [cz 0 10 [1%Z]; cz 20 30 [2%Z]; cz 0 10 [3%Z]] in
  nodes_nonempty caps = true /\ no_adjacent_equal caps = true /\ merge_lang caps = Ok caps.
Proof. vm_compute. repeat split. Qed.

(* outside the domain: an emptied node list in a singleton run raises, in a longer run it contributes nothing *)
Example C19_example_emptied :
  merge_lang [cz 0 1 []] = Err ENodeListEmpty /\
  merge_lang [cz 0 1 []; cz 0 1 [7%Z]] = Ok [cz 0 1 [7%Z]].
Proof. vm_compute. split; reflexivity. Qed.

(* adjust: skew 1/2, offset -1 s: start 1 s is dropped, start 2 s lands exactly on 0 and is kept *)
Example C19_example_adjust :
  adjust_lang (1 # 2) (inject_Z (-1000000)) [cz 1000000 3000000 [1%Z]; cz 2000000 4000000 [2%Z]; cz 5000000 6000000 [3%Z]]
  = [cz 0 1000000 [2%Z]; cz 1500000 2000000 [3%Z]].
Proof. vm_compute. reflexivity. Qed.

(* one Caption object under two languages and twice in the second: retimed once (repaired loop), twice or more
   by the pinned loop (the recorded defect C19-adjust-shared-caption-objects: 123456*2+1/2 = 493825/2) *)
Example C19_example_shared_object :
  let h := [cz 123456 2623456 [1%Z]] in
  adjust_objs (2 # 1) (1 # 2) h [[0%nat]; [0%nat; 0%nat]]
  = [[mkCap (493825 # 2) (10493825 # 2) [1%Z]]; [mkCap (493825 # 2) (10493825 # 2) [1%Z]; mkCap (493825 # 2) (10493825 # 2) [1%Z]]]
  /\ refs_ok h [[0%nat]; [0%nat; 0%nat]] = true
  /\ ok_adjust (2 # 1) (1 # 2) (map (map (deref h)) [[0%nat]; [0%nat; 0%nat]])
               (adjust_objs_prefix (2 # 1) (1 # 2) h [[0%nat]; [0%nat; 0%nat]]) = false.
Proof. vm_compute. repeat split. Qed.

(* the oracle is not trivially true: an observer who sees a wrongly kept, a wrongly dropped or a reordered caption *)
Example C19_example_oracle_rejects :
  let inp := [[cz 0 10 [1%Z]; cz 20 30 [2%Z]]] in
  ok_adjust 1 (inject_Z (-5)) inp [[cz (-5) 5 [1%Z]; cz 15 25 [2%Z]]] = false /\
  ok_adjust 1 (inject_Z (-5)) inp [[]] = false /\
  ok_adjust 1 5 inp [[cz 25 35 [2%Z]; cz 5 15 [1%Z]]] = false /\
  ok_adjust 1 (inject_Z (-5)) inp [[cz 15 25 [2%Z]]] = true.
Proof. vm_compute. repeat split. Qed.

(* ---------------- wave 7: composition laws of adjust_caption_timing ---------------- *)
(* adjust(skew1, off1) followed by adjust(skew2, off2) is ONE adjust with skew1*skew2 and off1*skew2 + off2, applied to
   the captions that survive the first step (exact arithmetic; Leibniz equality: times are kept in lowest terms) *)
Theorem C19_adjust_compose : forall sk1 off1 sk2 off2 caps,
  adjust_lang sk2 off2 (adjust_lang sk1 off1 caps)
  = adjust_lang (sk1 * sk2) (off1 * sk2 + off2) (filter (survives sk1 off1) caps).
Proof. exact adjust_compose. Qed.
Print Assumptions C19_adjust_compose.
(* where the first step drops nothing, for all languages *)
Theorem C19_adjust_langs_compose_kept : forall sk1 off1 sk2 off2 langs,
  forallb (forallb (survives sk1 off1)) langs = true ->
  adjust sk2 off2 (adjust sk1 off1 langs) = adjust (sk1 * sk2) (off1 * sk2 + off2) langs.
Proof. exact adjust_langs_compose_kept. Qed.
Print Assumptions C19_adjust_langs_compose_kept.
(* two offsets add up *)
Theorem C19_adjust_offsets_add : forall a b caps, forallb (survives 1 a) caps = true ->
  adjust_lang 1 b (adjust_lang 1 a caps) = adjust_lang 1 (a + b) caps.
Proof. exact adjust_offsets_add. Qed.
Print Assumptions C19_adjust_offsets_add.
(* an adjust that drops nothing is undone by the inverse affine map: the round trip is the identity adjust, which
   keeps exactly the captions with a non-negative start, with times, nodes and order as they were *)
Theorem C19_adjust_inverse : forall sk off caps, ~ sk == 0 -> forallb (survives sk off) caps = true ->
  adjust_lang (/ sk) (- off / sk) (adjust_lang sk off caps) = adjust_lang 1 0 caps.
Proof. exact adjust_inverse. Qed.
Print Assumptions C19_adjust_inverse.
Theorem C19_adjust_identity : forall caps,
  Forall2 cap_equiv (adjust_lang 1 0 caps) (filter (fun c => Qle_bool 0 (c_start c)) caps).
Proof. exact adjust_identity. Qed.
Print Assumptions C19_adjust_identity.

(* the hypotheses are satisfiable and needed: with a caption dropped by the first step the two sides differ *)
Example C19_example_compose :
  let caps := [cz 1000000 3000000 [1%Z]; cz 2000000 4000000 [2%Z]] in
  forallb (survives (1 # 2) (inject_Z (-500000))) caps = true /\
  adjust_lang 2 (inject_Z 1000000) (adjust_lang (1 # 2) (inject_Z (-500000)) caps) = caps /\
  forallb (survives 1 (inject_Z (-1500000))) caps = false /\
  adjust_lang 1 (inject_Z 1500000) (adjust_lang 1 (inject_Z (-1500000)) caps) = [cz 2000000 4000000 [2%Z]] /\
  adjust_lang 1 (inject_Z (-1500000) + inject_Z 1500000) caps = caps.
Proof. vm_compute. repeat split. Qed.

(* ---------------- wave 7, round 2: merge without the hypothesis nodes_nonempty ---------------- *)
(* EXACTLY which inputs merge_concurrent_captions rejects: merge() builds a Caption for every maximal run (also a run
   of one) and Caption() refuses an empty node list, so a language is rejected iff some maximal run consists only of
   captions whose node list is empty (merge_accepts, spec/SpecBase.v).  Under exactly that guard the function never
   raises and returns the joined maximal runs; on every other input it raises Caption()'s error. *)
Theorem C19_merge_never_raises_on_accepted : forall caps, merge_accepts caps = true ->
  merge_lang caps = Ok (spec_merge_gen caps).
Proof. exact merge_lang_accepted. Qed.
Print Assumptions C19_merge_never_raises_on_accepted.
Theorem C19_merge_error_branch : forall caps, merge_accepts caps = false -> merge_lang caps = Err ENodeListEmpty.
Proof. exact merge_lang_rejected. Qed.
Print Assumptions C19_merge_error_branch.
Theorem C19_merge_raises_iff : forall caps, (exists e, merge_lang caps = Err e) <-> merge_accepts caps = false.
Proof. exact merge_lang_raises_iff. Qed.
Print Assumptions C19_merge_raises_iff.
(* all languages *)
Theorem C19_merge_concurrent_accepted : forall langs, forallb merge_accepts langs = true ->
  merge_concurrent langs = Ok (map spec_merge_gen langs).
Proof. exact merge_concurrent_accepted. Qed.
Print Assumptions C19_merge_concurrent_accepted.
Theorem C19_merge_concurrent_rejected : forall langs, forallb merge_accepts langs = false ->
  merge_concurrent langs = Err ENodeListEmpty.
Proof. exact merge_concurrent_rejected. Qed.
Print Assumptions C19_merge_concurrent_rejected.
(* the statement's domain lies inside the guard, and there the general result is the statement's map join (runs) *)
Theorem C19_domain_is_accepted : forall caps, nodes_nonempty caps = true ->
  merge_accepts caps = true /\ spec_merge_gen caps = spec_merge_lang caps.
Proof. intros caps H. split; [exact (nodes_nonempty_accepted caps H)|exact (spec_merge_gen_eq caps H)]. Qed.
Print Assumptions C19_domain_is_accepted.

(* ---------------- laws of merge, for every input the function accepts ---------------- *)
(* merging again changes nothing (the result of any successful merge is accepted and returned as it is) *)
Theorem C19_merge_idempotent_every_input : forall caps m, merge_lang caps = Ok m -> merge_lang m = Ok m.
Proof. exact merge_lang_idempotent_gen. Qed.
Print Assumptions C19_merge_idempotent_every_input.
(* all text in order: the node values of a language, line breaks left out, are the same before and after *)
Theorem C19_merge_keeps_text : forall caps m, merge_lang caps = Ok m -> lang_text m = lang_text caps.
Proof. exact merge_lang_keeps_text. Qed.
Print Assumptions C19_merge_keeps_text.
(* DEFINITIONAL reading aid (spec = spec: unfolds spec_merge_gen; audit w7): one caption per maximal run, in the order of
   the runs, carrying the times of the run's first caption *)
Theorem C19_merge_heads_in_order_unfold : forall caps,
  map (fun c => (c_start c, c_end c)) (spec_merge_gen caps) = map (fun r => (c_start (fst r), c_end (fst r))) (runs caps).
Proof. exact merge_heads_in_order. Qed.
Print Assumptions C19_merge_heads_in_order_unfold.
(* merge commutes with adjust for a non-zero skew when adjust drops nothing *)
Theorem C19_merge_adjust_commute : forall sk off caps m, ~ sk == 0 -> forallb (survives sk off) caps = true ->
  merge_lang caps = Ok m -> merge_lang (adjust_lang sk off caps) = Ok (adjust_lang sk off m).
Proof. exact merge_lang_adjust_commute. Qed.
Print Assumptions C19_merge_adjust_commute.

(* a run of one emptied caption is rejected; an emptied caption at the head of a run contributes no line break;
   the hypotheses of the commutation law matter: with skew 0 all spans collapse, with a dropped run A B A becomes A A *)
Example C19_example_guard :
  merge_accepts [cz 0 1 [7%Z]; cz 2 3 []] = false /\ merge_lang [cz 0 1 [7%Z]; cz 2 3 []] = Err ENodeListEmpty /\
  merge_accepts [cz 0 1 []; cz 0 1 [7%Z]; cz 0 1 []] = true /\
  merge_lang [cz 0 1 []; cz 0 1 [7%Z]; cz 0 1 []] = Ok [cz 0 1 [7%Z; brk]] /\
  nodes_nonempty [cz 0 1 []; cz 0 1 [7%Z]] = false.
Proof. vm_compute. repeat split. Qed.
Example C19_example_commute_needs_hypotheses :
  let caps := [cz 5 6 [1%Z]; cz 0 1 [2%Z]; cz 5 6 [3%Z]] in
  merge_lang caps = Ok caps /\
  merge_lang (adjust_lang 1 (inject_Z (-2)) caps) = Ok [cz 3 4 [1%Z; brk; 3%Z]] /\
  adjust_lang 1 (inject_Z (-2)) caps = [cz 3 4 [1%Z]; cz 3 4 [3%Z]] /\
  merge_lang (adjust_lang 0 5 caps) = Ok [cz 5 5 [1%Z; brk; 2%Z; brk; 3%Z]] /\
  merge_lang (adjust_lang 2 1 caps) = Ok (adjust_lang 2 1 caps).
Proof. vm_compute. repeat split. Qed.

(* ---------------- heap level (wave 7, round 2) ---------------- *)
(* the heap after adjust_caption_timing, for EVERY alias structure (one Caption object reachable from several languages
   or listed several times in one list - the shape behind fix C19-adjust-shared-caption-objects): every listed object
   holds its initial times retimed exactly once, and set_captions gives every language, in order, the references whose
   retimed start is not negative.  (C19_adjust_objects_value above is the same fact seen through get_captions.) *)
Theorem C19_adjust_objects_heap : forall skew off h0 langs,
  (forall ids k, In ids langs -> In k ids -> (k < length h0)%nat) ->
  exists h' adj',
    adjust_obj_langs true skew off (h0, []) langs = ((h', adj'), map (filter (keep skew off h0)) langs) /\
    length h' = length h0 /\
    forall ids k, In ids langs -> In k ids -> deref h' k = retime skew off (deref h0 k).
Proof. exact adjust_objs_heap. Qed.
Print Assumptions C19_adjust_objects_heap.
