(* C19 - Timing adjustment and concurrent-caption merging keep all text in order.
   Only statements closed by `exact`, with Print Assumptions. *)
From Coq Require Import List ZArith QArith Bool.
From PV Require Import lib.Sx lib.Result model.Base spec.SpecBase proofs.BaseFacts.
Import ListNotations.

(* adjust: the loop is exactly "retime every caption, keep order, drop the negative starts" *)
Theorem C19_adjust_filter_map : forall skew off caps,
  adjust_lang skew off caps = filter (fun c => Qle_bool 0 (c_start c)) (map (retime skew off) caps).
Proof. exact adjust_lang_filter_map. Qed.
Print Assumptions C19_adjust_filter_map.

(* retime is t -> t*skew+off on start and end and leaves the nodes untouched *)
Theorem C19_retime_affine : forall skew off c,
  c_start (retime skew off c) == c_start c * skew + off /\
  c_end (retime skew off c) == c_end c * skew + off /\
  c_nodes (retime skew off c) = c_nodes c.
Proof. exact retime_affine. Qed.
Print Assumptions C19_retime_affine.

(* hence the model meets the statement-level spec, caption by caption, for every list *)
Theorem C19_adjust_meets_spec : forall skew off caps,
  Forall2 cap_equiv (adjust_lang skew off caps) (spec_adjust_lang skew off caps).
Proof. exact adjust_meets_spec. Qed.
Print Assumptions C19_adjust_meets_spec.

(* merge: never raises, and equals "join every maximal run" *)
Theorem C19_merge_runs : forall caps, nodes_nonempty caps = true ->
  merge_lang caps = Ok (map join_run (runs caps)).
Proof. exact merge_lang_spec. Qed.
Print Assumptions C19_merge_runs.

(* runs partition the list in order; members of a run share its span; adjacent runs differ (maximality) *)
Theorem C19_runs_partition : forall caps, concat (map (fun r => fst r :: snd r) (runs caps)) = caps.
Proof. exact runs_partition. Qed.
Print Assumptions C19_runs_partition.
Theorem C19_runs_members_same : forall caps r x, In r (runs caps) -> In x (snd r) -> span_eqb x (fst r) = true.
Proof. exact runs_members_same. Qed.
Print Assumptions C19_runs_members_same.
Theorem C19_runs_maximal : forall caps, adjacent_distinct (runs caps).
Proof. exact runs_adjacent_distinct. Qed.
Print Assumptions C19_runs_maximal.

(* a merged caption carries the run's times and all nodes in order separated by breaks;
   a caption alone in its run is unchanged *)
Theorem C19_merge_run_content : forall c cs,
  c_start (join_run (c, cs)) = c_start c /\ c_end (join_run (c, cs)) = c_end c /\
  c_nodes (join_run (c, cs)) = c_nodes c ++ concat (map (fun x => brk :: c_nodes x) cs).
Proof. exact merge_run_content. Qed.
Print Assumptions C19_merge_run_content.
Theorem C19_merge_keeps_singletons : forall c, join_run (c, []) = c.
Proof. exact merge_keeps_singletons. Qed.
Print Assumptions C19_merge_keeps_singletons.

(* merging again changes nothing *)
Theorem C19_merge_idempotent : forall caps, nodes_nonempty caps = true ->
  (do m <- merge_lang caps; merge_lang m) = merge_lang caps.
Proof. exact merge_twice. Qed.
Print Assumptions C19_merge_idempotent.

(* non-vacuity: a list with a run in the middle *)
Example C19_example :
  let c s e n := mkCap (inject_Z s) (inject_Z e) n in
  merge_lang [c 0 1 [1%Z]; c 2 3 [2%Z]; c 2 3 [3%Z; 4%Z]; c 5 6 [5%Z]]
  = Ok [c 0 1 [1%Z]; c 2 3 [2%Z; brk; 3%Z; 4%Z]; c 5 6 [5%Z]].
Proof. vm_compute. reflexivity. Qed.
