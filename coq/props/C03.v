(* C03 - written text survives a conformant parser. Only statements closed by `exact`. *)
From Coq Require Import List ZArith Bool.
From PV Require Import lib.Sx lib.Str model.TextNodes model.TextWrite spec.SpecTextXml.
Import ListNotations.
Open Scope Z_scope.

Example C03_example_escape : content_parse (xml_escape (lit "a<b & ]]> c")) = Some [XText (lit "a<b & ]]> c")].
Proof. vm_compute. reflexivity. Qed.
