(* C03 - written text survives a conformant parser: escaping and cue structure.
   Only statements closed by `exact`, each followed by Print Assumptions, plus non-vacuity Examples.
   Models: model/TextWrite.v.  Reference parsers: spec/SpecTextXml.v (strict XML content), spec/SpecTextVtt.v
   (WebVTT cue text and blocks), spec/SpecTextBlocks.v (SRT blocks, MicroDVD lines), spec/SpecTextLines.v
   (line comparison).  Document level for DFXP/SAMI (bs4 prettify, lxml, html.parser) is correspondence-only. *)
From Coq Require Import List ZArith Bool.
From PV Require Import lib.Sx lib.Str model.TextNodes model.TextWrite model.TextWriteVtt.
From PV Require Import spec.SpecTextXml spec.SpecTextVtt spec.SpecTextBlocks spec.SpecTextLines spec.SpecTextStyle.
From PV Require Import proofs.TextXmlFacts proofs.TextVttFacts proofs.TextBlocksFacts.
From PV Require Import proofs.TextReadFacts proofs.TextPayloadFacts proofs.TextRoundtripFacts.
From PV Require Import proofs.TextAttrFacts proofs.TextAttrRoundFacts proofs.TextVttGroupFacts proofs.TextVttDocFacts.
Import ListNotations.
Open Scope Z_scope.

(* ---- XML (DFXP, SAMI): every text over XML Char (no bare CR) is read back exactly by a strict parser ---- *)
Theorem C03_xml_escape_parses_back : forall s, forallb xml_text_char s = true ->
  content_parse (xml_escape s) = Some (text_nodes s).
Proof. exact escape_parses_back. Qed.
Print Assumptions C03_xml_escape_parses_back.

Theorem C03_xml_escape_displays : forall s, forallb xml_text_char s = true ->
  option_map xlines (content_parse (xml_escape s)) = Some [s].
Proof. exact escape_displays. Qed.
Print Assumptions C03_xml_escape_displays.

(* the replace chain of xml.sax.saxutils.escape is the per-character substitution & > < *)
Theorem C03_xml_escape_per_char : forall s, xml_escape s = flat_map xesc1 s.
Proof. exact xml_escape_flat. Qed.
Print Assumptions C03_xml_escape_per_char.

(* ---- the whole <p> payload (text, <br/>, spans, the writers' rstrip's and literal white space) ----
   nodes_ok plain_style: texts over XML Char without CR, style dictionaries without colour (italics/bold/underline).
   The strict parser reads the payload as the token list of the abstract, string-free writer (ANY such node list) ...
   (SIMULATION against a second writer model, an option equality that is None = None for unbalanced lists; the token-level
   statements with conclusion Some are C03_*_payload_tokens_color below, of which these are the colour-free tree-level form) *)
Theorem C03_dfxp_payload_parse : forall region ns, nodes_ok plain_style ns = true ->
  content_parse (dfxp_payload (extra_of region) ns) = xbuild (abs_tokens [] a_close (dfxp_atok region) ns) [] [].
Proof. exact dfxp_payload_parse. Qed.
Print Assumptions C03_dfxp_payload_parse.

Theorem C03_legacy_payload_parse : forall ns, nodes_ok plain_style ns = true ->
  content_parse (legacy_payload ns) = xbuild (abs_tokens [] a_close (dfxp_atok false) ns) [] [].
Proof. exact legacy_payload_parse. Qed.
Print Assumptions C03_legacy_payload_parse.

Theorem C03_sami_payload_tokens : forall ns, nodes_ok plain_style ns = true ->
  xtokens (sami_payload ns) = Some (sami_abs_tokens ns).
Proof. exact sami_payload_tokens. Qed.
Print Assumptions C03_sami_payload_tokens.

(* ... and for balanced flat spans it is well-formed and shows every visible character and every break, in order *)
Theorem C03_dfxp_payload_wellformed : forall region ns, nodes_ok plain_style ns = true -> flat_balanced ns = true ->
  exists t, content_parse (dfxp_payload (extra_of region) ns) = Some t /\
            vis (flat_map tree_flat t) = vis (node_flat ns).
Proof. exact dfxp_payload_wellformed. Qed.
Print Assumptions C03_dfxp_payload_wellformed.

Theorem C03_legacy_payload_wellformed : forall ns, nodes_ok plain_style ns = true -> flat_balanced ns = true ->
  exists t, content_parse (legacy_payload ns) = Some t /\ vis (flat_map tree_flat t) = vis (node_flat ns).
Proof. exact legacy_payload_wellformed. Qed.
Print Assumptions C03_legacy_payload_wellformed.

(* ---- WebVTT ---- *)
Theorem C03_vtt_encode_roundtrip : forall s, vtt_display (vtt_encode s) = s.
Proof. exact vtt_encode_roundtrip. Qed.
Print Assumptions C03_vtt_encode_roundtrip.

Theorem C03_vtt_encode_no_arrow : forall s, is_infix (lit "-->") (vtt_encode s) = false.
Proof. exact vtt_encode_no_arrow. Qed.
Print Assumptions C03_vtt_encode_no_arrow.

(* the whole cue text (all nodes, also across node boundaries) never contains the arrow ... *)
Theorem C03_vtt_cue_text_no_arrow : forall ns, is_infix (lit "-->") (vtt_cue_text ns) = false.
Proof. exact vtt_cue_text_no_arrow. Qed.
Print Assumptions C03_vtt_cue_text_no_arrow.

(* ... which the pinned writer did not guarantee (repaired: fix commit "WebVTT writer let --> form across ...").
   DEFINITIONAL model of code that no longer exists (vtt_cue_text_prefix); historical record, tied to no code *)
Theorem C03_vtt_arrow_across_nodes_refuted : exists ns, is_infix (lit "-->") (vtt_cue_text_prefix ns) = true.
Proof. exact vtt_arrow_across_nodes_refuted. Qed.
Print Assumptions C03_vtt_arrow_across_nodes_refuted.

(* no empty line inside the cue text: empty texts, leading and consecutive breaks become &nbsp; (removelast: the LAST line may
   be empty - a cue text ending in a line feed) *)
Theorem C03_vtt_cue_text_no_blank_line : forall ns, texts_no_nl ns = true ->
  forallb str_nonempty (removelast (split_ch 10 (vtt_cue_text ns))) = true.
Proof. exact vtt_cue_text_no_blank_line. Qed.
Print Assumptions C03_vtt_cue_text_no_blank_line.

(* ---- SRT (repaired writer) ---- *)
Theorem C03_srt_content_no_blank_line : forall ns, srt_content_lines ns <> [] ->
  forallb nonblank (split_ch 10 (srt_content ns)) = true.
Proof. exact srt_content_no_blank_line. Qed.
Print Assumptions C03_srt_content_no_blank_line.

Theorem C03_srt_content_authored_lines : forall ns, texts_no 10 ns = true ->
  norm_lines (srt_content_lines ns) = norm_lines (node_lines ns).
Proof. exact srt_content_authored_lines. Qed.
Print Assumptions C03_srt_content_authored_lines.

(* the reference block grammar reads the document back: one block per caption, in order, with its lines.
   srt_doc_merged = the writer after its merge of consecutive captions with equal timing (srt_merge) *)
Theorem C03_srt_blocks_roundtrip : forall caps, caps <> [] -> Forall srt_cap_ok caps ->
  srt_cues (srt_doc_merged caps) = Some (map (fun c => srt_content_lines (snd c)) caps).
Proof. exact srt_blocks_roundtrip. Qed.
Print Assumptions C03_srt_blocks_roundtrip.

(* MODEL MEETS ORACLE (SRT): the whole written document (merge included), read by the reference block grammar,
   satisfies the harness oracle ok_cues_strict against the authored lines (node_lines) of the merged captions:
   one cue per (merged) caption, in order, every line equal up to leading/trailing white space, empty lines dropped *)
Theorem C03_srt_doc_meets_oracle : forall caps, srt_merge caps <> [] -> Forall srt_cap_ok (srt_merge caps) ->
  exists cues, srt_cues (srt_doc caps) = Some cues /\
               ok_cues_strict (map (fun c => node_lines (snd c)) (srt_merge caps)) cues = true.
Proof. exact srt_doc_meets_oracle. Qed.
Print Assumptions C03_srt_doc_meets_oracle.

(* DEFINITIONAL model of code that no longer exists (the pinned writer before fix 5dc47d2): kept as the record of
   why the repair was needed, tied to no code *)
Theorem C03_srt_double_break_refuted : exists ns,
  texts_no 10 ns = true /\ forallb nonblank (split_ch 10 (srt_content_prefix ns)) = false.
Proof. exact srt_double_break_refuted. Qed.
Print Assumptions C03_srt_double_break_refuted.

(* ---- MicroDVD (texts without '|' and without CR / LF: the writer turns a line end inside a text node into '|') ---- *)
Theorem C03_mdvd_content_shape : forall ns, texts_no 10 ns = true -> texts_no 13 ns = true ->
  mdvd_content ns = mdvd_text ns ++ [10].
Proof. exact mdvd_content_shape. Qed.
Print Assumptions C03_mdvd_content_shape.

Theorem C03_mdvd_text_lines : forall ns, texts_no 124 ns = true -> texts_no 10 ns = true -> texts_no 13 ns = true ->
  norm_lines (split_ch 124 (mdvd_text ns)) = norm_lines (node_lines ns).
Proof. exact mdvd_text_lines. Qed.
Print Assumptions C03_mdvd_text_lines.

Theorem C03_mdvd_line_roundtrip : forall a b ns,
  forallb is_digit a = true -> a <> [] -> forallb is_digit b = true -> b <> [] ->
  mdvd_line (mdvd_prefix_of a b ++ mdvd_text ns) = Some (a, b, split_ch 124 (mdvd_text ns)).
Proof. exact mdvd_line_roundtrip. Qed.
Print Assumptions C03_mdvd_line_roundtrip.

Theorem C03_mdvd_doc_roundtrip : forall caps, Forall mdvd_cap_ok caps ->
  mdvd_cues (mdvd_doc caps) = Some (map (fun c => split_ch 124 (mdvd_text (snd c))) caps).
Proof. exact mdvd_doc_roundtrip. Qed.
Print Assumptions C03_mdvd_doc_roundtrip.

(* MODEL MEETS ORACLE (MicroDVD): the written document, read by the reference line grammar, satisfies the harness
   oracle against the authored lines; texts without '|' (the one character the format cannot express) *)
Theorem C03_mdvd_doc_meets_oracle : forall caps, Forall mdvd_cap_ok caps ->
  (forall c, In c caps -> texts_no 124 (snd c) = true) ->
  exists cues, mdvd_cues (mdvd_doc caps) = Some cues /\
               ok_cues_strict (map (fun c => node_lines (snd c)) caps) cues = true.
Proof. exact mdvd_doc_meets_oracle. Qed.
Print Assumptions C03_mdvd_doc_meets_oracle.

(* ---- wave 7: attribute values (xml.sax.saxutils.quoteattr) and style dictionaries with a colour ----
   For EVERY string over XML Char (tab, line feed, carriage return, quotes of both kinds, & < > included) the strict
   parser reads the attribute value written by quoteattr back as exactly that string ... *)
Theorem C03_quoteattr_roundtrip : forall s, forallb xml_char s = true ->
  parse_tag (lit "a x=" ++ quoteattr s) = Some (TkOpen (lit "a") [(lit "x", s)]).
Proof. exact quoteattr_tag_roundtrip. Qed.
Print Assumptions C03_quoteattr_roundtrip.

(* ... also through the tokenizer (the quoted value hides neither the end of the tag nor a markup character) *)
Theorem C03_quoteattr_content_roundtrip : forall s, forallb xml_char s = true ->
  content_parse (lit "<a x=" ++ quoteattr s ++ lit "/>") = Some [XElem (lit "a") [(lit "x", s)] []].
Proof. exact quoteattr_content_roundtrip. Qed.
Print Assumptions C03_quoteattr_content_roundtrip.

(* the payload theorems above for style dictionaries WITH a colour (color_style: any colour string over XML Char):
   the span start tag carries tts:color with exactly the authored value (dfxp_atok_c), the text is untouched by it *)
(* audit w7: stated on the TOKENS (conclusion Some ..., for ANY node list of the domain, balanced or not) - a SIMULATION against the
   abstract, string-free writer abs_tokens (a second hand-written writer in proofs/TextPayloadFacts.v, not a spec from the property
   text); the property-level consequences are the _wellformed_color theorems below *)
Theorem C03_dfxp_payload_tokens_color : forall region ns, nodes_ok color_style ns = true ->
  xtokens (dfxp_payload (extra_of region) ns) = Some (abs_tokens [] a_close (dfxp_atok_c region) ns).
Proof. exact dfxp_payload_tokens_c. Qed.
Print Assumptions C03_dfxp_payload_tokens_color.

Theorem C03_legacy_payload_tokens_color : forall ns, nodes_ok color_style ns = true ->
  xtokens (legacy_payload ns) = Some (abs_tokens [] a_close (dfxp_atok_c false) ns).
Proof. exact legacy_payload_tokens_c. Qed.
Print Assumptions C03_legacy_payload_tokens_color.

Theorem C03_dfxp_payload_wellformed_color : forall region ns, nodes_ok color_style ns = true -> flat_balanced ns = true ->
  exists t, content_parse (dfxp_payload (extra_of region) ns) = Some t /\
            vis (flat_map tree_flat t) = vis (node_flat ns).
Proof. exact dfxp_payload_wellformed_c. Qed.
Print Assumptions C03_dfxp_payload_wellformed_color.

Theorem C03_legacy_payload_wellformed_color : forall ns, nodes_ok color_style ns = true -> flat_balanced ns = true ->
  exists t, content_parse (legacy_payload ns) = Some t /\ vis (flat_map tree_flat t) = vis (node_flat ns).
Proof. exact legacy_payload_wellformed_c. Qed.
Print Assumptions C03_legacy_payload_wellformed_color.

(* ---- wave 7: WebVTT captions written as several cues (node-level layouts, model/TextWriteVtt.v) ----
   whatever the node list and wherever the layout changes, NO cue text of ANY layout group contains the arrow
   (the re-scan of the buffer acts in every group, not only in the last one) ... *)
Theorem C03_vtt_groups_no_arrow : forall lns, Forall (fun g => is_infix (lit "-->") (fst g) = false) (vtt_groups lns).
Proof. exact vtt_groups_no_arrow. Qed.
Print Assumptions C03_vtt_groups_no_arrow.

(* model = model consistency (not a property theorem): with one layout (or none) on all nodes the groups of the new model
   are the single cue text of the old model vtt_cue_text *)
Theorem C03_vtt_groups_one_layout_unfold : forall l lns, same_layout l lns = true ->
  map fst (vtt_groups lns) = match vtt_cue_text (map snd lns) with [] => [] | s => [s] end.
Proof. exact vtt_groups_one_layout. Qed.
Print Assumptions C03_vtt_groups_one_layout_unfold.

(* ---- round 4: the WebVTT DOCUMENT (captions with node-level layouts, model/TextWriteVtt.v vtt_doc_g) ----
   texts without LF / CR (node_ok): every group's cue text has no empty line inside (only a trailing break leaves an
   empty LAST line) ... *)
Theorem C03_vtt_groups_no_blank_line : forall lns, Forall (fun ln => node_ok (snd ln)) lns ->
  Forall (fun g => forallb str_nonempty (removelast (split_ch 10 (fst g))) = true) (vtt_groups lns).
Proof. exact vtt_groups_no_blank_line. Qed.
Print Assumptions C03_vtt_groups_no_blank_line.

(* ... and the reference block grammar (spec/SpecTextVtt.v: signature, blocks separated by empty lines, a cue starts at
   every line containing the arrow) ACCEPTS the whole document and returns EXACTLY ONE CUE PER LAYOUT GROUP, in order,
   whose payload lines are the lines of that group's cue text (cue_payload: a final empty line dropped): no cue is
   created, lost, split, merged or truncated because of its text.  cap_ok: the timing line + cue settings contain the
   arrow and no line end, text nodes contain no LF / CR.  (The per-line DISPLAY of tags and references, i.e. the step
   from these raw lines to ok_cues_strict against the authored lines, is NOT part of this theorem: judged on real
   output, stream F; C03_vtt_encode_roundtrip covers a line that is one encoded text.) *)
Theorem C03_vtt_doc_cues_partial : forall settings caps, Forall (cap_ok settings) caps ->
  vtt_cues (vtt_doc_g settings caps) =
  Some (map (fun g => cue_payload (fst g)) (flat_map (fun c => vtt_groups (snd c)) caps)).
Proof. exact vtt_doc_cues. Qed.
Print Assumptions C03_vtt_doc_cues_partial.

Definition ex_settings (l : Z) : str := if l =? 0 then [] else lit " line:10%".
Definition ex_gcaps : list (str * list lnode) :=
  [(lit "00:01.000 --> 00:02.500", [(1, NText (lit "up --")); (1, NText (lit "> down")); (1, NBreak); (2, NText (lit "x")); (2, NBreak)]);
   (lit "00:03.000 --> 00:04.500", [(0, NText (lit "a & b"))])].
Example C03_example_cap_ok : Forall (cap_ok ex_settings) ex_gcaps.
Proof.
  assert (T : forall tl, has_arrow tl = true -> lc tl = true -> has_arrow (tl ++ lit " line:10%") = true -> lc (tl ++ lit " line:10%") = true ->
              forall l, has_arrow (tl ++ ex_settings l) = true /\ lc (tl ++ ex_settings l) = true).
  { intros tl A B C D l. unfold ex_settings. destruct (l =? 0); [rewrite app_nil_r|]; split; assumption. }
  constructor; [|constructor; [|constructor]]; (split; [apply T; vm_compute; reflexivity|]);
    repeat constructor; try exact I; try (split; vm_compute; reflexivity).
Qed.
Example C03_example_doc_cues :
  vtt_cues (vtt_doc_g ex_settings ex_gcaps) = Some [[lit "up --&gt; down"]; [lit "x"]; [lit "a &amp; b"]].
Proof. vm_compute. reflexivity. Qed.

(* ---- non-vacuity ---- *)
Example C03_example_quoteattr :
  quoteattr (lit "a""b'c<&" ++ [10]) = lit """a&quot;b'c&lt;&amp;&#10;""" /\
  forallb xml_char (lit "a""b'c<&" ++ [10]) = true.
Proof. split; vm_compute; reflexivity. Qed.

Example C03_example_color :
  let ns := [NStyle true (mkStyle true false false (Some (lit "a""<'&"))); NText (lit "x"); NStyle false (mkStyle true false false (Some (lit "a""<'&")))] in
  nodes_ok color_style ns = true /\ flat_balanced ns = true /\
  content_parse (dfxp_payload [] ns) =
  Some [XElem (lit "span") [(lit "tts:fontStyle", lit "italic"); (lit "tts:color", lit "a""<'&")] [XText (lit "x")]].
Proof. repeat split; vm_compute; reflexivity. Qed.

Example C03_example_groups :
  vtt_groups [(1, NText (lit "up --")); (1, NText (lit "> down")); (2, NText (lit "x -")); (2, NStyle true sty_i); (2, NText (lit "->"))] =
  [(lit "up --&gt; down", 1); (lit "x -<i>->", 2)].
Proof. vm_compute. reflexivity. Qed.

Example C03_example_escape : content_parse (xml_escape (lit "a<b & ]]> c")) = Some [XText (lit "a<b & ]]> c")].
Proof. vm_compute. reflexivity. Qed.

Example C03_example_vtt :
  vtt_cue_text [NText (lit "a--"); NText (lit ">b & <c>"); NBreak; NBreak; NText []] =
  lit "a--&gt;b &amp; &lt;c>" ++ [10] ++ lit "&nbsp;" ++ [10] ++ lit "&nbsp;".
Proof. vm_compute. reflexivity. Qed.

Example C03_example_srt_hyp : Forall srt_cap_ok ex_caps.
Proof. repeat constructor; try (vm_compute; reflexivity); vm_compute; discriminate. Qed.

Example C03_example_srt : srt_cues (srt_doc ex_caps) = Some [[lit "1"; lit "00:00:05,000 --> x"]; [lit "b"]].
Proof. vm_compute. reflexivity. Qed.

(* the merge: two captions with the same timing line become one cue with both lines *)
Example C03_example_srt_merge :
  srt_merge [(lit "T", [NText (lit "a")]); (lit "T", [NText (lit "b")]); (lit "U", [NText (lit "c")])] =
  [(lit "T", [NText (lit "a"); NBreak; NText (lit "b")]); (lit "U", [NText (lit "c")])].
Proof. vm_compute. reflexivity. Qed.

Example C03_example_mdvd_hyp :
  Forall mdvd_cap_ok [(lit "{25}{50}", [NBreak; NText (lit " a{1}{2}"); NBreak; NText (lit "b ")])].
Proof. exact mdvd_cap_ok_example. Qed.

Example C03_example_texts_no_nl : texts_no_nl [NText (lit "a b"); NBreak; NText []] = true.
Proof. vm_compute. reflexivity. Qed.

Example C03_example_mdvd :
  mdvd_cues (mdvd_doc [(lit "{25}{50}", [NBreak; NText (lit " a{1}{2}"); NBreak; NBreak; NText (lit "b "); NBreak])])
  = Some [[[]; lit " a{1}{2}"; []; lit "b "]].
Proof. vm_compute. reflexivity. Qed.

Example C03_example_payload :
  let ns := [NText (lit "a & b "); NBreak; NStyle true sty_i; NText (lit " <c> "); NStyle false sty_i; NText (lit "d")] in
  nodes_ok plain_style ns = true /\ flat_balanced ns = true /\
  content_parse (dfxp_payload [] ns) =
  Some [XText (lit "a & b"); XElem (lit "br") [] []; XText ([10] ++ lit "    ");
        XElem (lit "span") [(lit "tts:fontStyle", lit "italic")] [XText (lit " <c> ")]; XText (lit "d")].
Proof. repeat split; vm_compute; reflexivity. Qed.
