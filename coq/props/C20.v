(* C20 - Format detection is total, consistent and recognises pycaption's own output.
   This file contains only statements closed by `exact`, with Print Assumptions; Examples show non-vacuity.
   All theorems are about model/Detect.v: the six sniffers over ALL code points, with str.isdigit, re \d and
   str.lower taken from tables generated from the running interpreter and the sniffing constants generated from the
   working tree.  What ties the model to the code is the correspondence of harness/props/C20.py. *)
From Coq Require Import List ZArith Bool.
From PV Require Import lib.Sx lib.Str lib.Result model.Generated model.Detect spec.SpecDetect spec.SpecOwn
  proofs.DetectFacts proofs.DetectOwnFacts model.OwnWrite spec.SpecOwnNodes proofs.DetectNodeFacts proofs.DetectVttFacts model.SccWrite model.OwnWriteScc proofs.OwnSccFacts model.TimeRead proofs.OwnReadFacts proofs.OwnReadSrtFacts spec.SpecXmlDocT model.DfxpWriteDoc model.OwnWriteDfxp proofs.OwnDfxpFacts.
Import ListNotations.
Open Scope Z_scope.

(* ---------------- sentence 1: total, first match in the documented order ---------------- *)

(* never raises: for every non-empty string and every reader (the stronger reading: every sniffer is total) *)
Theorem C20_detect_never_crashes : forall s r, s <> [] -> In r documented_order ->
  is_crash (detect_of r s) = false.
Proof. exact detect_of_no_crash. Qed.
Print Assumptions C20_detect_never_crashes.
Theorem C20_model_sniffers_total : forall s, s <> [] ->
  all_sniffers_total (map (fun r => detect_of r s) documented_order) = true.
Proof. exact model_sniffers_total. Qed.
Print Assumptions C20_model_sniffers_total.

(* ties to the working tree: the order the code iterates (generated from SUPPORTED_READERS) is the documented one,
   and the sniffing constants read from the sniffers' code objects are the documented ones. These re-check on every
   run against the regenerated model/Generated.v; they say nothing about HOW the code uses the constants. *)
Theorem C20_generated_order_documented : supported_readers = [0; 1; 2; 3; 4; 5].
Proof. exact generated_order_documented. Qed.
Print Assumptions C20_generated_order_documented.
Theorem C20_generated_constants_documented :
  dfxp_marker = lit "</tt>" /\ vtt_marker = lit "WEBVTT" /\ sami_marker = lit "<sami" /\ srt_arrow = lit "-->" /\
  mdvd_pattern = lit "{\d+}{\d+}" /\ scc_header = lit "Scenarist_SCC V1.0".
Proof. exact generated_constants_documented. Qed.
Print Assumptions C20_generated_constants_documented.

(* detect_format = first reader in documented order whose own detect accepts *)
Theorem C20_detect_format_first_match : forall s, s <> [] ->
  detect_format s = Ok (first_accepting documented_order (map (fun r => detect_of r s) documented_order)).
Proof. exact detect_format_first_match. Qed.
Print Assumptions C20_detect_format_first_match.

(* the model meets the property oracle on every string, empty or not *)
Theorem C20_model_ok : forall s,
  ok_detect (match s with [] => false | _ => true end)
            (map (fun r => detect_of r s) documented_order) (detect_format s) = true.
Proof. exact model_ok_detect. Qed.
Print Assumptions C20_model_ok.

(* definitional (first `match` of the model); its value is the correspondence on "" *)
Theorem C20_empty_raises_no_captions : detect_format [] = Err ENoCaptions.
Proof. exact empty_raises_no_captions. Qed.
Print Assumptions C20_empty_raises_no_captions.

(* ---------------- sentence 2: own output, for the four writers that are string builders ---------------- *)
(* A document of the format's shape (spec/SpecOwn.v) assembled from pieces - timing lines / frame prefixes / cue
   texts - none of which contains the marker of a format probed earlier is detected as its own format.  The
   hypothesis is on the PIECES; that no marker forms across piece boundaries is what is proved. *)
Theorem C20_own_output_srt : forall tl txt rest,
  srt_first_ok tl = true -> forallb srt_cue_ok ((tl, txt) :: rest) = true ->
  detect_format (srt_document ((tl, txt) :: rest)) = Ok (Some R_SRT).
Proof. exact own_srt. Qed.
Print Assumptions C20_own_output_srt.
Theorem C20_own_output_mdvd : forall d1 d2 txt rest, ascii_digits d1 = true -> ascii_digits d2 = true ->
  forallb mdvd_cue_ok ((frames_prefix d1 d2, txt) :: rest) = true ->
  detect_format (mdvd_document ((frames_prefix d1 d2, txt) :: rest)) = Ok (Some R_MDVD).
Proof. exact own_mdvd. Qed.
Print Assumptions C20_own_output_mdvd.
Theorem C20_own_output_vtt : forall pieces, forallb (free before_vtt) pieces = true ->
  detect_format (vtt_document pieces) = Ok (Some R_VTT).
Proof. exact own_vtt. Qed.
Print Assumptions C20_own_output_vtt.
Theorem C20_own_output_scc : forall body, forallb scc_body_char body = true ->
  detect_format (scc_document body) = Ok (Some R_SCC).
Proof. exact own_scc. Qed.
Print Assumptions C20_own_output_scc.

(* ---------------- sentence 2 FROM THE TEXT NODES (wave 7) ---------------- *)
(* model/OwnWrite.v writes the document from the caption set (languages -> captions -> text / break / style nodes,
   integer times): SRT with the merging of equal spans, strip / split / blank-line filter and the language separator;
   MicroDVD with line ends and breaks as '|', strip and the trailing-'|' cleanup.  For EVERY caption set whose caption
   texts carry no marker of a format probed earlier (spec/SpecOwnNodes.v) the document is detected as its own format:
   no marker forms across nodes, lines, merged captions, languages, or by the writers' clean-up of the text. *)
Theorem C20_own_nodes_srt : forall langs, srt_dom langs = true ->
  detect_format (srt_write langs) = Ok (Some R_SRT).
Proof. exact own_nodes_srt. Qed.
Print Assumptions C20_own_nodes_srt.
Theorem C20_own_nodes_mdvd : forall langs, mdvd_dom langs = true ->
  detect_format (mdvd_write langs) = Ok (Some R_MDVD).
Proof. exact own_nodes_mdvd. Qed.
Print Assumptions C20_own_nodes_mdvd.

(* WebVTT: no hypothesis on the text at all.  The writer escapes '<' and '&' in text, so every '<' of the document opens
   one of <i> <u> <b> </i> </u> </b>; "</tt>" cannot occur (also not after lower-casing, nor through the "-->"
   replacement applied to the accumulated cue text), and the document starts with the WEBVTT header. *)
Theorem C20_own_nodes_vtt : forall langs, detect_format (vtt_write langs) = Ok (Some R_VTT).
Proof. exact own_nodes_vtt. Qed.
Print Assumptions C20_own_nodes_vtt.

(* SCC from the text nodes: the caption text (OwnWrite.cap_text = "".join(get_text_nodes())) of the first language goes
   through the SCC builders' writer model model/SccWrite.v (wrapping, rows, address codes, character codes, pre-roll,
   timecodes).  Whenever that writer returns a document (it raises IndexError beyond 32 rows) the document is detected
   as SCC: every character behind the header is a hex digit, ':', ';', TAB, blank, newline, 'x' or '-' (table facts over
   the complete regenerated tables).  No hypothesis on text or times. *)
Theorem C20_own_nodes_scc : forall langs doc, scc_write langs = Ok doc -> detect_format doc = Ok (Some R_SCC).
Proof. exact own_nodes_scc. Qed.
Print Assumptions C20_own_nodes_scc.
Theorem C20_scc_writer_body_chars : forall caps doc, write caps = Ok doc ->
  exists body, doc = scc_document body /\ forallb sccp body = true.
Proof. exact write_shape. Qed.
Print Assumptions C20_scc_writer_body_chars.

(* ---------------- "and that reader reads the document" (wave 7, round 3) ---------------- *)
(* MicroDVD: on the domain that excludes exactly the two recorded findings of the format (a cue inside frame 0; a cue
   whose text has nothing besides blanks and '|') the reader model of C01 (model/TimeRead.v mdvd_read, used read-only)
   reads the writer model's document and returns ONE caption per written cue, in order, with the instants of the
   written frames at 25 fps and the cue's text pieces. *)
Theorem C20_own_read_mdvd : forall langs, mdvd_read_dom langs = true ->
  mdvd_read (mdvd_write langs) = Ok (map mdvd_expected_cap (concat langs)).
Proof. exact own_read_mdvd. Qed.
Print Assumptions C20_own_read_mdvd.
Theorem C20_own_detect_and_read_mdvd : forall langs, mdvd_dom langs = true -> mdvd_read_dom langs = true ->
  detect_format (mdvd_write langs) = Ok (Some R_MDVD) /\
  exists caps, mdvd_read (mdvd_write langs) = Ok caps /\ length caps = length (concat langs) /\
               map (fun r => (fst (fst r), snd (fst r))) caps
               = map (fun c => (mdvd_frame (oc_start c) * 40000, mdvd_frame (oc_end c) * 40000)) (concat langs).
Proof. exact own_detect_and_read_mdvd. Qed.
Print Assumptions C20_own_detect_and_read_mdvd.

(* SRT (round 4): on srt_read_dom - ONE language with a caption (excludes the recorded finding of an empty first
   language; behind the separator line the reader glues the next language to the last cue), every caption has a
   non-blank character and no CR in its text - the reader model of C01 (TimeRead.srt_read, read-only) returns ONE caption
   per written cue (= per caption after the writer's merging of equal timestamps), in order, with the written instants
   (time of day, truncated to milliseconds) and the written text lines.  The document is C01's abstract SRT document
   without the blank line behind the last cue (srt[:-1]). *)
Theorem C20_own_read_srt : forall langs, srt_read_dom langs = true ->
  srt_read (srt_write langs) = Ok (map srt_expected_cap (srt_merge (hd [] langs))).
Proof. exact own_read_srt. Qed.
Print Assumptions C20_own_read_srt.
Theorem C20_own_detect_and_read_srt : forall langs, srt_dom langs = true -> srt_read_dom langs = true ->
  detect_format (srt_write langs) = Ok (Some R_SRT) /\
  exists caps, srt_read (srt_write langs) = Ok caps /\ length caps = length (srt_merge (hd [] langs)) /\
               map (fun r => (fst (fst r), snd (fst r))) caps
               = map (fun c => ((td_seconds (oc_start c) * 1000 + td_millis (oc_start c)) * 1000,
                                (td_seconds (oc_end c) * 1000 + td_millis (oc_end c)) * 1000)) (srt_merge (hd [] langs)).
Proof. exact own_detect_and_read_srt. Qed.
Print Assumptions C20_own_detect_and_read_srt.

(* DFXP from the text nodes (round 4): the document of the string-level DFXP writer model (time builders'
   model/DfxpWriteDoc.v, read-only; one language, text lines, no style / layout) closes the root element with "</tt>": it is
   detected as DFXP for EVERY caption list and language code, whatever the text (the writer escapes it; not even needed). *)
Theorem C20_own_nodes_dfxp : forall lang caps, detect_format (dfxp_write_nodes lang caps) = Ok (Some R_DFXP).
Proof. exact own_nodes_dfxp. Qed.
Print Assumptions C20_own_nodes_dfxp.
Theorem C20_own_dfxp_doc_model : forall lang cs, detect_format (dfxp_write_doc lang cs) = Ok (Some R_DFXP).
Proof. exact own_dfxp_doc. Qed.
Print Assumptions C20_own_dfxp_doc_model.

(* DFXP / SAMI (documents produced by bs4, not modelled): what detection needs of their skeleton.  A document that
   contains the root element's closing tag is DFXP whatever else it contains; a document that opens with the <sami root
   tag and carries neither "</tt>" (any case) nor "WEBVTT" is SAMI.  Stream F checks every real DFXP / SAMI output to be
   such an instance. *)
(* DEFINITIONAL (audit w7): this is the DFXP sniffer itself (first in the order) + is_infix of an append; it says nothing
   about DFXPWriter - C20_own_nodes_dfxp does, through the string-level writer model *)
Theorem C20_own_output_dfxp_skeleton_unfold : forall pre post, detect_format (dfxp_document pre post) = Ok (Some R_DFXP).
Proof. exact own_dfxp_skeleton. Qed.
Print Assumptions C20_own_output_dfxp_skeleton_unfold.
Theorem C20_own_output_sami_skeleton : forall rest, free before_sami (sami_document rest) = true ->
  detect_format (sami_document rest) = Ok (Some R_SAMI).
Proof. exact own_sami_skeleton. Qed.
Print Assumptions C20_own_output_sami_skeleton.

(* ---------------- history ---------------- *)
(* record of the repaired defect (e1d5b58): the pinned SRT sniffer raised IndexError on "1".
   detect_srt_prefix mirrors nothing in the current tree. *)
Theorem C20_srt_detect_index_refuted : exists s, s <> [] /\ is_crash (detect_srt_prefix s) = true.
Proof. exact srt_detect_index_refuted. Qed.
Print Assumptions C20_srt_detect_index_refuted.

(* ---------------- non-vacuity ---------------- *)
Example C20_example : detect_format (lit "12
00:00:01,000 --> 00:00:02,000
hi") = Ok (Some R_SRT).
Proof. vm_compute. reflexivity. Qed.

(* the order clause: several sniffers accept, the first in the documented order wins *)
Example C20_example_order :
  detect_format (lit "{1}{2}WEBVTT</tt>") = Ok (Some R_DFXP) /\
  detect_format (lit "{1}{2}WEBVTT<sami") = Ok (Some R_MDVD) /\
  detect_format (lit "WEBVTT<sami") = Ok (Some R_VTT) /\
  map (fun r => detect_of r (lit "{1}{2}WEBVTT</tt>")) documented_order
    = [Ok true; Ok true; Ok true; Ok false; Ok false; Ok false].
Proof. vm_compute. repeat split. Qed.

(* SRT and SCC see a single empty line; the empty string; nothing accepts *)
Example C20_example_blank :
  detect_format [10] = Ok None /\ detect_format [32] = Ok None /\ detect_format [] = Err ENoCaptions /\
  detect_of R_SRT [10] = Ok false /\ detect_of R_SCC [] = Err IndexError /\ detect_format (lit "1") = Ok None.
Proof. vm_compute. repeat split. Qed.

(* outside ASCII: U+0130 lowers to "i" + U+0307, superscript two and Arabic-Indic one are str.isdigit,
   Arabic-Indic / fullwidth digits match \d, superscript two does not *)
Example C20_example_unicode :
  detect_format (lit "<sam" ++ [304]) = Ok (Some R_SAMI) /\
  detect_format ([178; 10] ++ lit "-->") = Ok (Some R_SRT) /\
  detect_format ([1633; 10] ++ lit "-->") = Ok (Some R_SRT) /\
  detect_format ([123; 1633; 125; 123; 65297; 125]) = Ok (Some R_MDVD) /\
  detect_format ([123; 178; 125; 123; 49; 125]) = Ok None /\
  detect_format (lit "</t" ++ [305] ++ lit "t>") = Ok None /\
  detect_format ([8490]) = Ok None.
Proof. vm_compute. repeat split. Qed.

(* the own-output theorems have satisfiable hypotheses; the texts carry LATER formats' markers and near misses *)
Example C20_example_own_srt :
  let cues := [(lit "00:00:01,000 --> 00:00:02,000", lit "Scenarist_SCC V1.0" ++ [10] ++ lit "{1}{2} </tt");
               (lit "00:00:03,000 --> 00:00:04,000", lit "1")] in
  srt_first_ok (fst (hd ([], []) cues)) = true /\ forallb srt_cue_ok cues = true /\
  srt_document cues = lit "1
00:00:01,000 --> 00:00:02,000
Scenarist_SCC V1.0
{1}{2} </tt

2
00:00:03,000 --> 00:00:04,000
1
" /\ detect_format (srt_document cues) = Ok (Some R_SRT).
Proof. vm_compute. repeat split. Qed.

Example C20_example_own_mdvd :
  let cues := [(frames_prefix (lit "25") (lit "50"), lit "WEBVTT|<sami>"); (lit "{75}{100}", lit "-->")] in
  forallb mdvd_cue_ok cues = true /\
  mdvd_document cues = lit "{25}{50}WEBVTT|<sami>
{75}{100}-->
" /\ detect_format (mdvd_document cues) = Ok (Some R_MDVD).
Proof. vm_compute. repeat split. Qed.

Example C20_example_own_vtt_scc :
  forallb (free before_vtt) [lit "00:01.000 --> 00:02.000"; lit "<sami> {1}{2}"; []] = true /\
  detect_format (vtt_document [lit "00:01.000 --> 00:02.000"; lit "<sami> {1}{2}"; []]) = Ok (Some R_VTT) /\
  forallb scc_body_char (lit "00:00:01:00	94ae 94ae 9420 9420 9470 9470 6162 942c 942c 942f 942f") = true /\
  detect_format (scc_document (lit "00:00:01:00	94ae 9420")) = Ok (Some R_SCC).
Proof. vm_compute. repeat split. Qed.

(* the hypotheses matter: a piece carrying an earlier format's marker is rejected by them, and rightly so *)
Example C20_example_own_needs_hypothesis :
  srt_cue_ok (lit "00:00:01,000 --> 00:00:02,000", lit "x</TT>") = false /\
  detect_format (srt_document [(lit "00:00:01,000 --> 00:00:02,000", lit "x</TT>")]) = Ok (Some R_DFXP).
Proof. vm_compute. repeat split. Qed.

(* the node-level theorems: satisfiable hypotheses, later formats' markers in the text, a merged pair of captions, two
   languages; and the hypothesis is needed - "</t" and "t>" in two adjacent text nodes form the DFXP marker *)
Example C20_example_own_nodes_srt :
  let langs := [[mk_ocap 1000000 2000000 [OText (lit "WEB"); OStyle true true false false; OText (lit " VTT {1}{2}"); OBreak;
                                          OText ([32; 10; 32; 10] ++ lit "Scenarist_SCC V1.0")];
                 mk_ocap 1000000 2000000 [OText (lit "-->")]];
                [mk_ocap (-5) 90000000000 [OText (lit "</t t>")]]] in
  srt_dom langs = true /\
  srt_write langs = lit "1
00:00:01,000 --> 00:00:02,000
WEB VTT {1}{2}
Scenarist_SCC V1.0
-->
MULTI-LANGUAGE SRT
1
23:59:59,999 --> 01:00:00,000
</t t>
" /\ detect_format (srt_write langs) = Ok (Some R_SRT).
Proof. vm_compute. repeat split. Qed.

Example C20_example_own_nodes_mdvd :
  let langs := [[]; [mk_ocap 0 39999 [OText (lit "a" ++ [13; 10] ++ lit "b" ++ [13]); OBreak; OText (lit "WEBVTT|")];
                     mk_ocap 1000000 2000000 [OText (lit "<sami> </tt "); OStyle false true false false; OText (lit ">")]]] in
  mdvd_dom langs = true /\
  mdvd_write langs = lit "{0}{0}a|b||WEBVTT
{25}{50}<sami> </tt >
" /\ detect_format (mdvd_write langs) = Ok (Some R_MDVD).
Proof. vm_compute. repeat split. Qed.

Example C20_example_own_nodes_needs_hypothesis :
  let langs := [[mk_ocap 0 1000000 [OText (lit "</t"); OText (lit "T>")]]] in
  srt_dom langs = false /\ mdvd_dom langs = false /\
  detect_format (srt_write langs) = Ok (Some R_DFXP) /\ detect_format (mdvd_write langs) = Ok (Some R_DFXP).
Proof. vm_compute. repeat split. Qed.

(* WebVTT from the nodes: the text carries every marker and the pieces the writer rewrites *)
Example C20_example_own_nodes_vtt :
  let langs := [[mk_ocap 3600000000 3601000000
                   [OBreak; OText (lit "</tt> & --"); OText (lit "> <sami"); OStyle true true false true;
                    OText []; OStyle false true false true; OBreak; OBreak]]] in
  vtt_write langs = lit "WEBVTT

01:00:00.000 --> 01:00:01.000
&nbsp;
&lt;/tt> &amp; --&gt; &lt;sami<i><b>&nbsp;</b></i>&nbsp;
&nbsp;

" /\ detect_format (vtt_write langs) = Ok (Some R_VTT) /\
  detect_format (vtt_write []) = Ok (Some R_VTT) /\ vtt_write [[]; []] = lit "WEBVTT

".
Proof. vm_compute. repeat split. Qed.

Example C20_example_skeletons :
  detect_format (dfxp_document (lit "<tt><body>WEBVTT {1}{2}</body>") [10]) = Ok (Some R_DFXP) /\
  free before_sami (sami_document (lit "><body>{1}{2} --></body></sami>")) = true /\
  detect_format (sami_document (lit "><body>{1}{2} --></body></sami>")) = Ok (Some R_SAMI).
Proof. vm_compute. repeat split. Qed.

(* SCC from the nodes: text made of the other formats' markers *)
Example C20_example_own_nodes_scc :
  let langs := [[mk_ocap 2000000 4000000 [OText (lit "</tt> WEBVTT"); OBreak; OText (lit "<sami {1}{2} -->")]]] in
  match scc_write langs with
  | Ok doc => detect_format doc = Ok (Some R_SCC) /\ is_prefix (lit "Scenarist_SCC V1.0") doc = true
  | Err _ => False
  end.
Proof. vm_compute. split; reflexivity. Qed.

(* reading back: the hypotheses are satisfiable, and each one is needed - the witnesses of the recorded findings lie
   outside the domain and violate the conclusion (frame-0 cue: the reader takes the line for the frame-rate header and
   fails on the rate; '|'-only cue: no captions; SRT with an empty first language: not even detected) *)
Example C20_example_read_mdvd :
  let ok := [[mk_ocap 1000000 2000000 [OText (lit "a|b"); OBreak; OText (lit "c")]]; [mk_ocap 0 40000 [OText (lit "x")]]] in
  mdvd_read_dom ok = true /\
  mdvd_read (mdvd_write ok) = Ok [(1000000, 2000000, [lit "a"; lit "b"; lit "c"]); (0, 40000, [lit "x"])] /\
  let f0 := [[mk_ocap 0 30000 [OText (lit "hello")]]] in
  mdvd_read_dom f0 = false /\ mdvd_dom f0 = true /\ mdvd_read (mdvd_write f0) = Err ETiming /\
  let bar := [[mk_ocap 423940689 424940688 [OText (lit "|")]]] in
  mdvd_read_dom bar = false /\ mdvd_dom bar = true /\ mdvd_read (mdvd_write bar) = Err ENoCaptions /\
  let e1 := [[]; [mk_ocap 1000000 2000000 [OText (lit "x")]]] in
  srt_read_dom e1 = false /\ srt_dom e1 = false /\ detect_format (srt_write e1) = Ok None.
Proof. vm_compute. repeat split. Qed.

(* SRT read-back: satisfiable (two captions with equal timestamps are ONE written cue), and every hypothesis is needed:
   a second language is glued to the last cue; a blank caption is written without text and read back with one empty line instead of no line; a CR inside the text
   splits a line (CR CR even ends the cue: the rest of the document is not read) *)
Example C20_example_read_srt :
  let ok := [[mk_ocap 1000000 2000500 [OText (lit "a"); OBreak; OText (lit " b ")]; mk_ocap 1000000 2000500 [OText (lit "c")];
              mk_ocap 3000000 4000000 [OText (lit "-->")]]] in
  srt_read_dom ok = true /\
  srt_read (srt_write ok) = Ok [(1000000, 2000000, [lit "a"; [32; 98; 32]; lit "c"]); (3000000, 4000000, [lit "-->"])] /\
  let two := [[mk_ocap 1000000 2000000 [OText (lit "a")]]; [mk_ocap 1000000 2000000 [OText (lit "b")]]] in
  srt_read_dom two = false /\ srt_dom two = true /\
  srt_read (srt_write two) = Ok [(1000000, 2000000, [lit "a"; lit "MULTI-LANGUAGE SRT"; lit "1"; lit "00:00:01,000 --> 00:00:02,000"; lit "b"])] /\
  let blank := [[mk_ocap 1000000 2000000 [OText (lit " ")]; mk_ocap 3000000 4000000 [OText (lit "x")]]] in
  srt_read_dom blank = false /\ srt_dom blank = true /\ srt_read (srt_write blank) = Ok [(1000000, 2000000, [[]]); (3000000, 4000000, [lit "x"])] /\
  let cr := [[mk_ocap 1000000 2000000 [OText (lit "a" ++ [13; 13] ++ lit "b")]; mk_ocap 3000000 4000000 [OText (lit "x")]]] in
  srt_read_dom cr = false /\ srt_dom cr = true /\ srt_read (srt_write cr) = Ok [(1000000, 2000000, [lit "a"])].
Proof. vm_compute. repeat split. Qed.

Example C20_example_own_nodes_dfxp :
  detect_format (dfxp_write_nodes (lit "en-US")
    [mk_ocap 1000000 2000000 [OText (lit "WEBVTT {1}{2}"); OBreak; OText (lit "<sami> Scenarist_SCC V1.0 -->")]]) = Ok (Some R_DFXP).
Proof. vm_compute. reflexivity. Qed.
