(* C20 - Format detection is total, consistent and recognises pycaption's own output.
   This file contains only statements closed by `exact`, with Print Assumptions. *)
From Coq Require Import List ZArith Bool.
From PV Require Import lib.Sx lib.Str lib.Result model.Generated model.Detect spec.SpecDetect proofs.DetectFacts.
Import ListNotations.
Open Scope Z_scope.

(* never raises: for every non-empty string and every reader *)
Theorem C20_detect_never_crashes : forall s r, s <> [] -> In r documented_order ->
  is_crash (detect_of r s) = false.
Proof. exact detect_of_no_crash. Qed.
Print Assumptions C20_detect_never_crashes.

(* the order the code iterates (generated from SUPPORTED_READERS) is the documented one *)
Theorem C20_generated_order_documented : supported_readers = [0; 1; 2; 3; 4; 5].
Proof. exact generated_order_documented. Qed.
Print Assumptions C20_generated_order_documented.

(* detect_format = first reader in documented order whose own detect accepts *)
Theorem C20_detect_format_first_match : forall s, s <> [] ->
  detect_format s = Ok (first_accepting documented_order (map (fun r => detect_of r s) documented_order)).
Proof. exact detect_format_first_match. Qed.
Print Assumptions C20_detect_format_first_match.

(* the model meets the property oracle on every string, empty or not *)
Theorem C20_model_ok : forall s,
  ok_detect (match s with [] => false | _ => true end)
            (map (fun r => detect_of r s) documented_order) (detect_format s) = true.
Proof. exact model_ok_detect. Qed.
Print Assumptions C20_model_ok.

Theorem C20_empty_raises_no_captions : detect_format [] = Err ENoCaptions.
Proof. exact empty_raises_no_captions. Qed.
Print Assumptions C20_empty_raises_no_captions.

(* record of the repaired defect: the pinned SRT sniffer raised IndexError on "1" *)
Theorem C20_srt_detect_index_refuted : exists s, s <> [] /\ is_crash (detect_srt_prefix s) = true.
Proof. exact srt_detect_index_refuted. Qed.
Print Assumptions C20_srt_detect_index_refuted.

(* non-vacuity: a non-trivial string on which several sniffers are consulted *)
Example C20_example : detect_format (lit "12
00:00:01,000 --> 00:00:02,000
hi") = Ok (Some R_SRT).
Proof. vm_compute. reflexivity. Qed.
