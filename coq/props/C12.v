(* C12 - Positioning survives DFXP round trips and maps faithfully to WebVTT settings.
   Only statements closed by `exact`, each followed by Print Assumptions; Examples show non-vacuity. *)
From Coq Require Import List ZArith QArith Qabs Bool.
From PV Require Import lib.Sx lib.Str lib.Result model.Geometry model.Positioning spec.SpecGeom spec.SpecPos.
From PV Require Import model.DfxpTree.
From PV Require Import proofs.GeomEq proofs.PosFacts proofs.Pos12Facts proofs.DfxpTreeFacts.
Import ListNotations.
Open Scope Z_scope.

(* ---- WebVTT cue settings ----------------------------------------------------------------------------------- *)
(* for every percentage layout with an origin: position = x + left padding, line = y + top padding,
   size = width - left padding - right padding (when there is an extent), all percentages *)
Theorem C12_vtt_settings_arith : forall l org, all_pct l = true -> l_origin l = Some org ->
  exists pos line wd,
    vtt_arith l = Ok (VSet (mkVs (vtt_align (l_alignment l)) pos line wd))
    /\ is_pct_val pos (s_val (p_x org) + pad_of pd_start l)
    /\ is_pct_val line (s_val (p_y org) + pad_of pd_before l)
    /\ match l_extent l with
       | Some e => is_pct_val wd (s_val (st_h e) - pad_of pd_start l - pad_of pd_end l)
       | None => wd = None
       end.
Proof. exact vtt_arith_exact. Qed.
Print Assumptions C12_vtt_settings_arith.

(* align is omitted iff the horizontal alignment is center (absent alignment: start) - and with the arithmetic above
   this is the check's oracle *)
Theorem C12_vtt_settings_meet_oracle : forall l, all_pct l = true -> l_origin l <> None ->
  exists s, vtt_arith l = Ok (VSet s) /\ ok_vtt_arith l s = true /\ vs_all_pct s = true.
Proof. exact ok_vtt_arith_model. Qed.
Print Assumptions C12_vtt_settings_meet_oracle.

(* WebVTTWriter._convert_positioning on a percentage layout IS that arithmetic (relativize on or off) ... *)
Theorem C12_vtt_writer_relative : forall c l, layout_truthy l = true -> (l_webvtt l = None \/ l_webvtt l = Some []) ->
  all_pct l = true -> w_fit c = false -> vtt_convert_positioning c (Some l) = vtt_arith l.
Proof. exact vtt_convert_relative. Qed.
Print Assumptions C12_vtt_writer_relative.

(* ... and with fit_to_screen on, the same arithmetic on the fitted layout *)
Theorem C12_vtt_writer_relative_fit : forall c l, layout_truthy l = true -> (l_webvtt l = None \/ l_webvtt l = Some []) ->
  all_pct l = true -> w_fit c = true ->
  exists l2, layout_fit (mkLayout (l_origin l) (l_extent l) (l_padding l) (l_alignment l) (if w_rel c then None else l_webvtt l)) = Ok l2
             /\ all_pct l2 = true /\ vtt_convert_positioning c (Some l) = vtt_arith l2.
Proof. exact vtt_convert_relative_fit. Qed.
Print Assumptions C12_vtt_writer_relative_fit.

(* cue settings read from a WebVTT file (Layout.webvtt_positioning) are written back verbatim, in every configuration *)
Theorem C12_vtt_settings_verbatim : forall c l ch raw, l_webvtt l = Some (ch :: raw) ->
  vtt_convert_positioning c (Some l) = Ok (VRaw (ch :: raw)).
Proof. exact vtt_settings_verbatim. Qed.
Print Assumptions C12_vtt_settings_verbatim.

(* nodes of one caption with different layouts become separate cues: one cue per maximal run of equal layouts *)
Theorem C12_vtt_split_by_layout : forall ls, forallb layout_truthy ls = true ->
  vtt_groups (map text_node ls) = map Some (runs_last ls).
Proof. exact vtt_split_by_layout. Qed.
Print Assumptions C12_vtt_split_by_layout.

(* the same on arbitrary node lists: BREAK nodes, styled and empty STYLE nodes anywhere between and around the text nodes
   (the shape of every generated multi-line caption); hypotheses: every text node carries a layout, at least one text, and
   every positioned span (STYLE START node with a layout) opens on a text node of its own layout - the writer lets such a
   span open the next cue (C12_vtt_span_opens_next_group), so with this hypothesis the cues are still the runs of text layouts *)
Theorem C12_vtt_split_by_layout_general : forall nodes, texts_have_layouts nodes -> spans_follow nodes -> text_layouts nodes <> [] ->
  vtt_groups nodes = map Some (runs_last (text_layouts nodes)).
Proof. exact vtt_split_by_layout_general. Qed.
Print Assumptions C12_vtt_split_by_layout_general.

(* a positioned span after text of another layout: the text's group is closed at the span's START node and the span
   (tag included) opens the next cue, positioned by the span's layout *)
Theorem C12_vtt_span_opens_next_group : forall k a l t, style_start k = true -> layout_truthy a = true -> layout_truthy l = true ->
  layout_eqb l a = false ->
  vtt_groups_aux (mkNode k (Some l) :: t) true (Some a) = Some a :: vtt_groups_aux t (style_tags k) (Some l).
Proof. exact vtt_span_opens_next_group. Qed.
Print Assumptions C12_vtt_span_opens_next_group.

(* facts about the spec functions runs_last / runs_members (what "one cue per maximal run" means): *)
Theorem C12_vtt_cues_adjacent_distinct : forall ls, adj_distinct (runs_last ls).
Proof. exact runs_last_adjacent_distinct. Qed.
Print Assumptions C12_vtt_cues_adjacent_distinct.

Theorem C12_vtt_cues_partition : forall ls,
  concat (runs_members ls) = ls /\ length (runs_members ls) = length (runs_last ls).
Proof. exact runs_partition. Qed.
Print Assumptions C12_vtt_cues_partition.

(* ---- DFXP ------------------------------------------------------------------------------------------------------- *)
(* effective layout: node level, else caption level, else language level (Python truthiness of Layout) *)
Theorem C12_effective_fallback : forall g l c n,
  (opt_layout_truthy n = true -> dfxp_choice g l c n = n)
  /\ (opt_layout_truthy n = false -> opt_layout_truthy c = true -> dfxp_choice g l c n = c)
  /\ (opt_layout_truthy n = false -> opt_layout_truthy c = false -> opt_layout_truthy l = true -> dfxp_choice g l c n = l).
Proof. exact dfxp_choice_priority. Qed.
Print Assumptions C12_effective_fallback.

Theorem C12_effective_is_spec : forall l c n,
  expected_effective l c n =
  match dfxp_choice None l c n with
  | Some e => if layout_truthy e && has_region e then spec_read_back e else spec_default_read
  | None => spec_default_read
  end.
Proof. exact dfxp_choice_is_spec. Qed.
Print Assumptions C12_effective_is_spec.

(* the region table (keyed on layout equality/hashing, C18): every layout that occurs finds the region created from
   an equal layout, and two layouts never share a created region unless they are equal *)
Theorem C12_region_lookup_total : forall ls l, In (Some l) ls -> has_region l = true ->
  layout_eqb l dfxp_default_region = false ->
  exists k id, In (k, RId id) (region_map ls) /\ layout_eqb k l = true /\ region_lookup (region_map ls) (Some l) = RId id.
Proof. exact region_lookup_total. Qed.
Print Assumptions C12_region_lookup_total.

Theorem C12_region_lookup_no_collision : forall ls l l' i,
  region_lookup (region_map ls) (Some l) = RId i -> region_lookup (region_map ls) (Some l') = RId i ->
  layout_eqb l l' = true.
Proof. exact region_lookup_faithful. Qed.
Print Assumptions C12_region_lookup_no_collision.

(* region attributes written from a layout and resolved by the reader: two-decimal values, defaults start / after *)
Theorem C12_dfxp_attr_roundtrip : forall l, nonneg_layout l ->
  exists r, read_region (layout_attrs l) = Ok r /\ layout_equiv r (spec_read_back l).
Proof. exact dfxp_attr_roundtrip. Qed.
Print Assumptions C12_dfxp_attr_roundtrip.

(* Per character (kept from round 1; the tree-level theorem C12_dfxp_layout_roundtrip below subsumes it, nested
   spans included where the writer's flattening is harmless).  Still decided by execution only: BeautifulSoup's parse of
   the written text, deeper or repeated nesting, and that the tree model is what the code does (request 1210, every run):
     forall cs in dom, forall visible character ch of cs,
       effective (DFXPReader.read (DFXPWriter.write cs)) ch  ==  expected_effective (lang, caption, node layout of ch in transform cs)
   Proved part: for one character, the layout the writer chooses for it (get_positioning_info), written as region
   attributes (_convert_layout_to_attributes) and resolved by the reader (scrape_positioning_info), is the expected one. *)
Theorem C12_dfxp_layout_roundtrip_partial : forall l c n e,
  dfxp_choice None l c n = Some e -> layout_truthy e = true -> has_region e = true -> nonneg_layout e ->
  exists r, read_region (layout_attrs e) = Ok r /\ layout_equiv r (expected_effective l c n).
Proof. exact dfxp_layout_roundtrip_char. Qed.
Print Assumptions C12_dfxp_layout_roundtrip_partial.

(* ---- the DFXP round trip over the document tree (model/DfxpTree.v) ------------------------------------------------- *)
(* reader: an element without a region attribute takes the region of its NEAREST ancestor that has one - ancestors
   without the attribute are skipped, ancestors further out and descendants are not consulted *)
Theorem C12_nearest_ancestor_wins : forall pre r outer ds,
  Forall (fun a => a = None) pre -> determine_region None (pre ++ Some r :: outer) ds = Some r.
Proof. exact nearest_ancestor_wins. Qed.
Print Assumptions C12_nearest_ancestor_wins.

(* a <span> without region inside <p region=rp> inside <div region=rd> resolves to the p's region, not the div's *)
Theorem C12_span_resolves_to_p : forall rp rd ds, determine_region None [Some rp; Some rd] ds = Some rp.
Proof. exact span_resolves_to_p. Qed.
Print Assumptions C12_span_resolves_to_p.

(* what the reader resolves for the region id the writer assigned to a layout of the caption set *)
Theorem C12_resolve_written_region : forall ls o, (o = None \/ In o ls) -> opt_nonneg o ->
  exists r, resolve (map (fun kv => (snd kv, layout_attrs (fst kv))) (region_map ls)) (Some (region_lookup (region_map ls) o)) = Ok r
            /\ layout_equiv r (exp_of o).
Proof. exact resolve_written_region. Qed.
Print Assumptions C12_resolve_written_region.

(* TREE LEVEL: for every caption set whose captions consist of words, breaks, style spans with or without a layout of
   their own, and NESTED style spans (GNest: a span holding words, one inner span, words) on the domain where the writer's
   flattening is harmless (lang_harmless: the outer span carries no layout, or nothing follows the inner span inside the outer
   one and the inner span has a layout of its own or is not written as a <span>), with layouts at language / caption / span
   level (non-negative lengths): the model of DFXPWriter.write (region table, region attributes on div / p / span, span
   assembly from the flat node list - an inner span start closes the outer span, a style end closes whatever is open)
   followed by the model of the reader (region resolution, tree walk) gives the language, every caption and EVERY WORD the
   statement's expected effective layout: nearest enclosing span with a layout > caption > language, two-decimal values,
   defaults start / after.  Outside that domain the statement fails: C12_ex_nested_refuted. *)
Theorem C12_dfxp_layout_roundtrip : forall langs, Forall opt_nonneg (set_layouts (map to_dlang langs)) ->
  Forall lang_harmless langs ->
  exists obs, dfxp_roundtrip None (map to_dlang langs) = Ok obs /\ Forall2 lang_rel obs langs.
Proof. exact dfxp_layout_roundtrip. Qed.
Print Assumptions C12_dfxp_layout_roundtrip.

(* ---- non-vacuity -------------------------------------------------------------------------------------------- *)
Example C12_ex_vtt :
  let s v := mkSize v PCT in
  vtt_convert_positioning (mkCfg false false None None)
    (Some (mkLayout (Some (mkPoint (s (10 # 1)) (s (20 # 1)))) (Some (mkStretch (s (50 # 1)) (s (10 # 1))))
                    (Some (mkPadding (s (1 # 1)) (s (2 # 1)) (s (3 # 1)) (s (4 # 1)))) (Some (mkAlign (Some HRight) None)) None))
  = Ok (VSet (mkVs (Some HRight) (Some (s (13 # 1))) (Some (s (21 # 1))) (Some (s (43 # 1))))).
Proof. vm_compute. reflexivity. Qed.
Example C12_ex_center_omitted :
  vtt_align (Some (mkAlign (Some HCenter) (Some VTop))) = None /\ vtt_align None = Some HStart.
Proof. split; reflexivity. Qed.
Example C12_ex_split :
  let l v := mkLayout (Some (mkPoint (mkSize v PCT) (mkSize v PCT))) None None None None in
  vtt_groups [mkNode 1 (Some (l (1 # 1))); mkNode 3 None; mkNode 1 (Some (l (2 # 2))); mkNode 1 (Some (l (5 # 1)))]
  = [Some (l (2 # 2)); Some (l (5 # 1))].
Proof. vm_compute. reflexivity. Qed.
Example C12_ex_dfxp :
  let s v := mkSize v PCT in
  let lang := mkLayout (Some (mkPoint (s (10 # 1)) (s (10 # 1)))) None None None None in
  let node := mkLayout (Some (mkPoint (s (12345 # 1000)) (s (50 # 1)))) None None (Some (mkAlign (Some HLeft) None)) None in
  expected_effective (Some lang) None None
  = mkLayout (Some (mkPoint (round2 (s (10 # 1))) (round2 (s (10 # 1))))) None None (Some (mkAlign (Some HStart) (Some VBottom))) None
  /\ read_region (layout_attrs node)
     = Ok (mkLayout (Some (mkPoint (s (617 # 50)) (s (50 # 1)))) None None (Some (mkAlign (Some HLeft) (Some VBottom))) None).
Proof. split; vm_compute; reflexivity. Qed.

(* and the check's oracle for the round trip (values within 1/200 of the exact ones, defaults filled) accepts it *)
Theorem C12_dfxp_roundtrip_meets_oracle : forall l c n e,
  dfxp_choice None l c n = Some e -> layout_truthy e = true -> has_region e = true -> nonneg_layout e ->
  exists r, read_region (layout_attrs e) = Ok r /\ ok_effective l c n (Some r) = true.
Proof. exact ok_effective_model. Qed.
Print Assumptions C12_dfxp_roundtrip_meets_oracle.
Example C12_ex_tree :
  let s v := mkSize v PCT in
  let lang := mkLayout (Some (mkPoint (s (10 # 1)) (s (10 # 1)))) None None None None in
  let cap := mkLayout (Some (mkPoint (s (20 # 1)) (s (60 # 1)))) None None None None in
  (* <div region=r0><p region=r1>1 <span italic>2</span></p></div>: word 2 (span without region) gets the caption's layout *)
  match dfxp_roundtrip None [to_dlang (mkGlang (Some lang) [mkGcap (Some cap) [GPlain (GWord 1); GSpan true None [GWord 2]]])] with
  | Ok [rl] => match rl_caps rl with
               | [rc] => map (fun wl => (fst wl, l_origin (snd wl))) (rc_words rc)
                         = [(1, Some (mkPoint (s (20 # 1)) (s (60 # 1)))); (2, Some (mkPoint (s (20 # 1)) (s (60 # 1))))]
               | _ => False end
  | _ => False
  end.
Proof. vm_compute. reflexivity. Qed.
(* a span whose own layout is exactly the DFXP default (alignment start / after only) inside a caption that has a layout:
   the span still gets region="bottom", so its word comes back with the defaults, not with the caption's origin *)
Example C12_ex_default_span :
  let s v := mkSize v PCT in
  let cap := mkLayout (Some (mkPoint (s (20 # 1)) (s (60 # 1)))) None None (Some (mkAlign (Some HCenter) (Some VTop))) None in
  match write_doc None [to_dlang (mkGlang None [mkGcap (Some cap) [GPlain (GWord 1); GSpan true (Some dfxp_default_region) [GWord 2]]])] with
  | mkXdoc _ [mkXdiv _ [mkXp (Some (RId 0)) [XText 1; XSpan (Some RDefault) [XText 2]]]] => True
  | _ => False
  end
  /\ match dfxp_roundtrip None [to_dlang (mkGlang None [mkGcap (Some cap) [GPlain (GWord 1); GSpan true (Some dfxp_default_region) [GWord 2]]])] with
     | Ok [rl] => match rl_caps rl with
                  | [rc] => map (fun wl => (fst wl, l_origin (snd wl), l_alignment (snd wl))) (rc_words rc)
                            = [(1, Some (mkPoint (s (20 # 1)) (s (60 # 1))), Some (mkAlign (Some HCenter) (Some VTop)));
                               (2, None, Some (mkAlign (Some HStart) (Some VBottom)))]
                  | _ => False end
     | _ => False
     end.
Proof. split; vm_compute; [exact I|reflexivity]. Qed.

(* an instance of C12_vtt_split_by_layout_general with BREAK and STYLE nodes between the texts *)
Example C12_ex_split_general :
  let l v := mkLayout (Some (mkPoint (mkSize v PCT) (mkSize v PCT))) None None None None in
  let nodes := [mkNode 2 None; mkNode 1 (Some (l (1 # 1))); mkNode 2 None; mkNode 3 None; mkNode 1 (Some (l (2 # 2)));
                mkNode 3 (Some (l (9 # 1))); mkNode 4 None; mkNode 1 (Some (l (5 # 1)))] in
  text_layouts nodes = [l (1 # 1); l (2 # 2); l (5 # 1)]
  /\ vtt_groups nodes = [Some (l (2 # 2)); Some (l (5 # 1))]
  /\ runs_last (text_layouts nodes) = [l (2 # 2); l (5 # 1)].
Proof. vm_compute. repeat split. Qed.
(* a caption of styled STYLE nodes only still gives one cue (the tags make the cue text non-empty) *)
Example C12_ex_style_only : vtt_groups [mkNode 2 None; mkNode 5 None] = [None] /\ vtt_groups [mkNode 4 None; mkNode 6 None] = [].
Proof. split; reflexivity. Qed.
(* positioned spans: text aa (layout 1), break, <i> span with layout 2 holding text bb.
   - bb carries the span's layout (what the readers produce): two cues, the span opens the second one;
   - bb carries no layout of its own (known finding C12-vtt-span-layout-ignored): THREE groups - aa, a cue holding only the
     opening tag (the span's layout), and bb with the closing tag positioned by the caption's / language's layout;
   - bb carries the layout of aa although its span has layout 2: three groups as well (outside spans_follow) *)
Example C12_ex_span_groups :
  let l v := mkLayout (Some (mkPoint (mkSize v PCT) (mkSize v PCT))) None None None None in
  let nodes b := [mkNode 1 (Some (l (1 # 1))); mkNode 3 None; mkNode 2 (Some (l (2 # 1))); mkNode 1 b; mkNode 5 (Some (l (2 # 1)))] in
  vtt_groups (nodes (Some (l (2 # 1)))) = [Some (l (1 # 1)); Some (l (2 # 1))]
  /\ vtt_groups (nodes None) = [Some (l (1 # 1)); Some (l (2 # 1)); None]
  /\ vtt_groups (nodes (Some (l (1 # 1)))) = [Some (l (1 # 1)); Some (l (2 # 1)); Some (l (1 # 1))]
  /\ spans_follow (nodes (Some (l (2 # 1)))).
Proof.
  vm_compute. split; [reflexivity|]. split; [reflexivity|]. split; [reflexivity|].
  repeat (split; try (intros; discriminate); try (intros N1 N3; exfalso; (apply N1 + apply N3); reflexivity)).
  intros _ _ _ l0 E _. inversion E; subst l0. eexists. split; reflexivity.
Qed.
(* set-level layout: found only when an equal layout has a region *)
Example C12_ex_set_level :
  let s v := mkSize v PCT in
  let g := mkLayout (Some (mkPoint (s (40 # 1)) (s (40 # 1)))) None None None None in
  let en := mkDlang None [mkDcap None [mkD 1 false false None 0]] in
  let fr := mkDlang None [mkDcap (Some g) [mkD 1 false false None 1]] in
  match dfxp_roundtrip (Some g) [en], dfxp_roundtrip (Some g) [en; fr] with
  | Ok [a], Ok [b; _] =>
      map (fun c => map (fun wl => l_origin (snd wl)) (rc_words c)) (rl_caps a) = [[None]]
      /\ map (fun c => map (fun wl => l_origin (snd wl)) (rc_words c)) (rl_caps b) = [[Some (mkPoint (s (40 # 1)) (s (40 # 1)))]]
  | _, _ => False
  end.
Proof. vm_compute. split; reflexivity. Qed.

(* nested spans.  Outer span with layout A holding: word 1, an inner span, word 3 (caption layout C).
   - harmless instance of the theorem's domain (inner span with its own layout B, nothing after it): words 1, 2 come back at A, B;
   - known finding C12-dfxp-nested-span-layout, REFUTED instance (inner styled span without a layout, word 3 after it): the
     inner start closes the outer span, so words 2 and 3 come back with the CAPTION's origin (20 60), not the outer span's (30 5)
     that the statement expects for them *)
Example C12_ex_nested_refuted :
  let s v := mkSize v PCT in
  let A := mkLayout (Some (mkPoint (s (30 # 1)) (s (5 # 1)))) None None None None in
  let B := mkLayout (Some (mkPoint (s (45 # 1)) (s (45 # 1)))) None None None None in
  let C := mkLayout (Some (mkPoint (s (20 # 1)) (s (60 # 1)))) None None None None in
  let origins rs := match rs with Ok [rl] => map (fun c => map (fun wl => (fst wl, l_origin (snd wl))) (rc_words c)) (rl_caps rl) | _ => [] end in
  let good := mkGlang None [mkGcap (Some C) [GNest true (Some A) [GWord 1] true (Some B) [GWord 2] []]] in
  let bad := mkGlang None [mkGcap (Some C) [GNest true (Some A) [GWord 1] true None [GWord 2] [GWord 3]]] in
  lang_harmless good
  /\ origins (dfxp_roundtrip None [to_dlang good]) = [[(1, l_origin A); (2, l_origin B)]]
  /\ ~ lang_harmless bad
  /\ origins (dfxp_roundtrip None [to_dlang bad]) = [[(1, l_origin A); (2, l_origin C); (3, l_origin C)]]
  /\ map (fun wl => (fst wl, l_origin (snd wl))) (flat_map (seg_expected None (Some C)) (gc_segs (mkGcap (Some C) [GNest true (Some A) [GWord 1] true None [GWord 2] [GWord 3]])))
     = (let oa := Some (mkPoint (s (3000 # 100)) (s (500 # 100))) in [(1, oa); (2, oa); (3, oa)]).   (* 30.00 5.00: A's origin *)
Proof.
  split; [constructor; [constructor; [right; split; [reflexivity|left; reflexivity]|constructor]|constructor]|].
  split; [vm_compute; reflexivity|].
  split.
  - intros H. inversion H as [|? ? H1 _]; subst. inversion H1 as [|? ? H2 _]; subst. cbn in H2.
    destruct H2 as [H2|[H2 _]]; discriminate H2.
  - split; vm_compute; reflexivity.
Qed.

(* ==== wave 7: RegionCreator's bookkeeping and cleanup_regions ================================================== *)
From PV Require Import model.DfxpClean proofs.Pos12RegionFacts proofs.Pos12CleanFacts.

(* congruence lemma about the model's lookup (List.find keyed on layout_eqb; there is no hash in the model of _region_map:
   that dict.get behaves like this rests on C18's eq/hash theorems and on execution): equal layouts get the same region in
   any table.  Auxiliary (_unfold), not a property theorem. *)
Theorem C12_region_lookup_respects_eq_unfold : forall m a b, layout_eqb a b = true ->
  region_lookup m (Some a) = region_lookup m (Some b).
Proof. exact region_lookup_compat. Qed.
Print Assumptions C12_region_lookup_respects_eq_unfold.

(* layouts of the caption set that need a region share one EXACTLY when they are equal: deduplication is complete
   (equal layouts never get two regions) and sound (different layouts never land in one region, the default included) *)
Theorem C12_region_shared_iff_equal : forall ls a b, In (Some a) ls -> In (Some b) ls -> has_region a = true -> has_region b = true ->
  (region_lookup (region_map ls) (Some a) = region_lookup (region_map ls) (Some b) <-> layout_eqb a b = true).
Proof. exact region_shared_iff_equal. Qed.
Print Assumptions C12_region_shared_iff_equal.

(* the table itself: no two entries are made from equal layouts (default region included) ... *)
Theorem C12_region_keys_pairwise_different : forall ls, ldistinct (map fst (region_map ls)).
Proof. exact region_map_keys_distinct. Qed.
Print Assumptions C12_region_keys_pairwise_different.

(* ... the ids are r0, r1, ..., r(n-1) in creation order without gap or repetition, then the default region (read off the
   definition of number_regions; the real ids are compared up to renaming only: auxiliary, _unfold) ... *)
Theorem C12_region_ids_sequential_unfold : forall ls,
  map snd (region_map ls) = map (fun n => RId (Z.of_nat n)) (seq 0 (length (created_keys ls))) ++ [RDefault].
Proof. exact region_map_ids. Qed.
Print Assumptions C12_region_ids_sequential_unfold.

(* ... and every created region comes from a layout that occurs in the caption set, has some positioning part and is
   not the default region *)
Theorem C12_region_created_from_occurring_layouts : forall ls k, In k (created_keys ls) ->
  In (Some k) ls /\ has_region k = true /\ layout_eqb k dfxp_default_region = false.
Proof. exact created_keys_occur. Qed.
Print Assumptions C12_region_created_from_occurring_layouts.

(* cleanup_regions (unreferenced <region>s are removed before the document is printed): for EVERY document the reader's
   result is unchanged - the reader only ever resolves ids that occur as region attributes (own / ancestor / descendant) *)
Theorem C12_cleanup_keeps_readback : forall d, read_doc (cleanup_regions d) = read_doc d.
Proof. exact cleanup_read_invariant. Qed.
Print Assumptions C12_cleanup_keeps_readback.

(* the written document: its <region> elements are exactly the regions its div / p / span elements refer to - no
   dangling reference (the failure that silently lands a caption in the default region), no orphan region *)
Theorem C12_written_regions_exact : forall g s r,
  In r (doc_refs (write_doc g s)) <-> exists a, In (r, a) (x_regions (write_doc_clean g s)).
Proof. exact written_regions_exact. Qed.
Print Assumptions C12_written_regions_exact.

Theorem C12_written_region_ids_unique : forall g s id a b,
  In (id, a) (x_regions (write_doc_clean g s)) -> In (id, b) (x_regions (write_doc_clean g s)) -> a = b.
Proof. exact clean_region_ids_unique. Qed.
Print Assumptions C12_written_region_ids_unique.

(* COROLLARY (one rewrite with C12_cleanup_keeps_readback from C12_dfxp_layout_roundtrip; not a separate result): the
   tree-level round trip on the document AS WRITTEN (region table, body, cleanup) - the document request 1211 compares with
   the real one *)
Theorem C12_dfxp_layout_roundtrip_written_corollary : forall langs, Forall opt_nonneg (set_layouts (map to_dlang langs)) ->
  Forall lang_harmless langs ->
  exists obs, dfxp_roundtrip_clean None (map to_dlang langs) = Ok obs /\ Forall2 lang_rel obs langs.
Proof. exact dfxp_layout_roundtrip_clean. Qed.
Print Assumptions C12_dfxp_layout_roundtrip_written_corollary.

(* region table of [A; A written as 2/4; B; the default region; a BREAK-node layout C]: A and its twin share r0, the
   default region gets no new region; in the document a region nobody refers to (C, carried by a break node only) is
   removed by the cleanup, r0 and r1 stay *)
Example C12_ex_region_table :
  let s v := mkSize v PCT in
  let A := mkLayout (Some (mkPoint (s (1 # 2)) (s (10 # 1)))) None None None None in
  let A' := mkLayout (Some (mkPoint (s (2 # 4)) (s (20 # 2)))) None None None (Some (lit "line:1")) in
  let B := mkLayout (Some (mkPoint (s (30 # 1)) (s (5 # 1)))) None None None None in
  let C := mkLayout (Some (mkPoint (s (70 # 1)) (s (70 # 1)))) None None None None in
  region_map [Some A; Some A'; None; Some B; Some dfxp_default_region] = [(A, RId 0); (B, RId 1); (dfxp_default_region, RDefault)]
  /\ region_lookup (region_map [Some A; Some A'; Some B]) (Some A') = RId 0
  /\ (let doc := write_doc None [mkDlang (Some A) [mkDcap (Some B) [mkD 1 false false None 1; mkD 3 false false (Some C) 0;
                                                                   mkD 2 true true (Some A') 0; mkD 1 false false (Some A') 2]]] in
      map fst (x_regions doc) = [RId 0; RId 1; RId 2; RDefault]
      /\ map fst (x_regions (cleanup_regions doc)) = [RId 0; RId 1]
      /\ doc_refs doc = [RId 0; RId 1; RId 0]).
Proof. vm_compute. repeat split. Qed.

(* ==== wave 7: "cue settings read from a WebVTT file are written back verbatim" - the READER's side =================== *)
From PV Require Import model.TimeRead model.VttSettings proofs.Pos12VttSettingsFacts.

(* a timing line  <token> <blanks> --> <blanks> <token> <blanks> <settings> <trailing blanks> : the reader keeps exactly
   <settings> (any text without white space at its two ends: inner blanks and tabs, commas, upper case, unknown keys) as
   Layout.webvtt_positioning; vtt_cue_settings is the function TIMING_LINE_PATTERN's group 3 computes (request 1213) *)
Theorem C12_vtt_reader_keeps_settings : forall t1 t2 w1 w2 w3 s w4,
  token t1 -> token t2 -> blanks w1 -> blanks w2 -> blanks w3 -> forallb is_space w4 = true -> clean_settings s ->
  vtt_cue_settings (t1 ++ w1 ++ arrow ++ w2 ++ t2 ++ w3 ++ s ++ w4) = Some (Some s).
Proof. intros t1 t2 w1 w2 w3 s w4 T1 T2 W1 W2. exact (reader_keeps_settings t1 t2 w1 w2 T1 T2 W1 W2 w3 s w4). Qed.
Print Assumptions C12_vtt_reader_keeps_settings.

(* nothing, or white space only, after the end time: no layout *)
Theorem C12_vtt_reader_no_settings : forall t1 t2 w1 w2 w4,
  token t1 -> token t2 -> blanks w1 -> blanks w2 -> forallb is_space w4 = true ->
  vtt_cue_settings (t1 ++ w1 ++ arrow ++ w2 ++ t2 ++ w4) = Some None.
Proof. intros t1 t2 w1 w2 w4 T1 T2 W1 W2. exact (reader_no_settings t1 t2 w1 w2 T1 T2 W1 W2 w4). Qed.
Print Assumptions C12_vtt_reader_no_settings.

(* whatever the reader keeps has no white space at either end ... *)
Theorem C12_vtt_reader_settings_clean : forall line s, vtt_cue_settings line = Some (Some s) -> clean_settings s.
Proof. exact reader_settings_clean. Qed.
Print Assumptions C12_vtt_reader_settings_clean.

(* ... so read -> write -> read is the identity on cue settings: the timing line the writer prints for the settings read
   from ANY line (C12_vtt_settings_verbatim: " " + the raw string after the time stamps) reads back as the same settings *)
Theorem C12_vtt_settings_read_write_read : forall line s ts1 ts2, vtt_cue_settings line = Some (Some s) -> token ts1 -> token ts2 ->
  vtt_cue_settings (vtt_timing_text ts1 ts2 (VRaw s)) = Some (Some s).
Proof. exact settings_read_write_read. Qed.
Print Assumptions C12_vtt_settings_read_write_read.

Example C12_ex_reader_settings :
  vtt_cue_settings (lit "00:01.000 --> 00:02.000  position:10%,start  Line:5%  ") = Some (Some (lit "position:10%,start  Line:5%"))
  /\ vtt_cue_settings (lit "00:01.000 --> 00:02.000   ") = Some None
  /\ vtt_cue_settings (lit "00:01.000-->00:02.000 a:b") = None
  /\ clean_settings (lit "position:10%,start  Line:5%") /\ token (lit "00:01.000") /\ blanks (lit "  ").
Proof.
  split; [vm_compute; reflexivity|]. split; [vm_compute; reflexivity|]. split; [vm_compute; reflexivity|].
  split; [|split; split; (discriminate || reflexivity)].
  exists 112, (lit "osition:10%,start  Line:5"). split; [right; exists 37; split; reflexivity|reflexivity].
Qed.

(* ==== wave 7: tts:textAlign / tts:displayAlign at STRING level (model/DfxpAlign.v) ================================= *)
From PV Require Import model.DfxpAlign proofs.Pos12AlignFacts.

(* the names the writer prints read back as the same members; any other string gives no component *)
Theorem C12_alignment_names_roundtrip :
  (forall h, halign_of_name (halign_name h) = Some h) /\ (forall v, valign_of_name (valign_name v) = Some v)
  /\ (forall s h, halign_of_name s = Some h -> s = halign_name h) /\ (forall s v, valign_of_name s = Some v -> s = valign_name v).
Proof. exact (conj halign_name_roundtrip (conj valign_name_roundtrip (conj halign_of_name_some valign_of_name_some))). Qed.
Print Assumptions C12_alignment_names_roundtrip.

(* write then read at string level: what _create_external_alignment prints for ANY alignment (each component set or not,
   or no Alignment object) is read by scrape_positioning_info / from_horizontal_and_vertical_align as the same members,
   the absent ones as start / after - the alignment the enum-level read_region (C12_dfxp_attr_roundtrip) works with *)
Theorem C12_alignment_strings_roundtrip : forall a,
  read_alignment (fst (written_alignment a)) (snd (written_alignment a))
  = Some (mkAlign (Some (match a with Some al => match al_h al with Some h => h | None => HStart end | None => HStart end))
                  (Some (match a with Some al => match al_v al with Some v => v | None => VBottom end | None => VBottom end))).
Proof. exact alignment_strings_roundtrip. Qed.
Print Assumptions C12_alignment_strings_roundtrip.

Example C12_ex_alignment_strings :
  written_alignment (Some (mkAlign (Some HEnd) None)) = (Some (lit "end"), None)
  /\ read_alignment (Some (lit "end")) None = Some (mkAlign (Some HEnd) (Some VBottom))
  /\ read_alignment (Some (lit "justify")) (Some (lit "before")) = Some (mkAlign None (Some VTop))
  /\ read_alignment (Some (lit "LEFT")) (Some (lit "top")) = None.
Proof. vm_compute. repeat split. Qed.

(* ==== round 4: tts:textAlign carried by <p> / <span> and by styles (model/DfxpStyleAlign.v) =========================== *)
From PV Require Import model.DfxpStyleAlign proofs.Pos12StyleAlignFacts.

(* LayoutInfoScraper._find_attribute for tts:textAlign: the element's own attribute, else the first of its style sources
   with a value, else the NEAREST parent with a value (own or styled), else the region *)
Theorem C12_text_align_precedence :
  (forall v st parents region, find_text_align (Some (mkSrc (Some v) st)) parents region = Some v)
  /\ (forall pre c v post parents region, Forall (fun x => x = None) pre ->
        find_text_align (Some (mkSrc None (pre ++ Some (c :: v) :: post))) parents region = Some (c :: v))
  /\ (forall e pre p c v outer region, plain e -> Forall plain pre -> on_element_or_styles p = Some (c :: v) ->
        find_text_align (Some e) (pre ++ p :: outer) region = Some (c :: v))
  /\ (forall e parents region, plain e -> Forall plain parents ->
        find_text_align (Some e) parents region = on_element_or_styles region).
Proof. exact (conj own_attribute_wins (conj first_style_wins (conj nearest_parent_wins region_is_last))). Qed.
Print Assumptions C12_text_align_precedence.

(* written elements, PARTIAL: per element, not yet composed with the tree walk of C12_dfxp_layout_roundtrip_written_corollary (the
   full statement: for every caption set with caption / node styles carrying text-align, every word of
   read (write set) has horizontal alignment = the nearest text-align of its <span> / <p>, else its layout's; vertical
   alignment and origin / extent / padding as in C12_dfxp_layout_roundtrip_written_corollary).
   Proved: (a) an element with no text-align on itself and its parents reads back the alignment of the layout its region
   was made from, absent parts start / after - the hypothesis-free case of the tree theorem; (b) an element for which the
   lookup finds the name of t - own attribute from the caption style / style node, a style class, or the nearest styled
   ancestor - reads back horizontal t WHATEVER the layout's alignment says (also when a <span> has a region of its own),
   vertical from the layout *)
Theorem C12_dfxp_style_alignment_roundtrip_partial :
  (forall e parents a, plain e -> Forall plain parents ->
     element_alignment (Some e) parents (region_ta a) (region_da a) = Some (mkAlign (Some (h_of a)) (Some (v_of a))))
  /\ (forall e parents a t, find_text_align (Some e) parents (region_ta a) = Some (halign_name t) ->
        element_alignment (Some e) parents (region_ta a) (region_da a) = Some (mkAlign (Some t) (Some (v_of a)))).
Proof. exact (conj written_plain_alignment written_styled_alignment). Qed.
Print Assumptions C12_dfxp_style_alignment_roundtrip_partial.

(* <p tts:textAlign="center" region=r0> with r0 made from alignment (left, top), holding a <span region=r1> without
   text-align whose region says right: the span's words come back CENTER (the <p>'s attribute is found before the span's
   region), vertical from the span's region *)
Example C12_ex_style_alignment :
  let p := mkSrc (Some (lit "center")) [] in
  let span := mkSrc None [] in
  let a1 := Some (mkAlign (Some HRight) (Some VCenter)) in
  element_alignment (Some span) [p; mkSrc None []] (region_ta a1) (region_da a1) = Some (mkAlign (Some HCenter) (Some VCenter))
  /\ element_alignment (Some (mkSrc None [None; Some (lit "end")])) [p] (region_ta a1) (region_da a1) = Some (mkAlign (Some HEnd) (Some VCenter))
  /\ plain span.
Proof. vm_compute. repeat split; repeat constructor. Qed.

(* the link to the tree theorem: on an element without style-carried text-align (itself and its parents) the style-aware
   scraper gives exactly the alignment of read_region of the element's region - C12_dfxp_layout_roundtrip_written_corollary is the
   style-free instance of the style-aware reader; with a style in charge the two differ in the horizontal member only *)
From PV Require Import proofs.Pos12StyleLinkFacts.
Theorem C12_plain_element_is_read_region : forall e parents l r, plain e -> Forall plain parents ->
  read_region (layout_attrs l) = Ok r ->
  element_alignment (Some e) parents (region_ta (l_alignment l)) (region_da (l_alignment l)) = l_alignment r.
Proof. exact plain_element_is_read_region. Qed.
Print Assumptions C12_plain_element_is_read_region.

Theorem C12_styled_element_overrides_horizontal : forall e parents l r t,
  find_text_align (Some e) parents (region_ta (l_alignment l)) = Some (halign_name t) ->
  read_region (layout_attrs l) = Ok r ->
  element_alignment (Some e) parents (region_ta (l_alignment l)) (region_da (l_alignment l))
  = Some (mkAlign (Some t) (match l_alignment r with Some a => al_v a | None => None end)).
Proof. exact styled_element_overrides_h. Qed.
Print Assumptions C12_styled_element_overrides_horizontal.
