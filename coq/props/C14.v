(* C14 - Each language's captions stay under their language, in document order. (theorems below) *)
From Coq Require Import List ZArith Bool.
From PV Require Import lib.Sx lib.Str lib.Result model.Langs spec.SpecLangs.
Import ListNotations.
