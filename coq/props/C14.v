(* C14 - Each language's captions stay under their language, in document order.
   Only statements closed by `exact`, with Print Assumptions, and non-vacuity examples. *)
From Coq Require Import List ZArith Bool.
From PV Require Import lib.Sx lib.Str lib.Result model.Langs spec.SpecLangs proofs.LangsFacts proofs.SamiSyncFacts.
Import ListNotations.
Open Scope Z_scope.

(* ---- DFXP read ------------------------------------------------------------------------------------------- *)
(* a div's language: its own xml:lang, else the document's, else the configured default (= the specification) *)
Theorem C14_dfxp_lang_of_div : forall own tt default,
  div_lang own tt default = match own with Some l => l | None => match tt with Some l => l | None => default end end
  /\ div_lang own tt default = effective_lang own tt default.
Proof. exact dfxp_lang_of_div. Qed.
Print Assumptions C14_dfxp_lang_of_div.
(* languages are listed in order of first appearance, for every document *)
Theorem C14_dfxp_read_order : forall default doc,
  languages (dfxp_read default doc) = first_appearance (effs default doc).
Proof. exact dfxp_read_order. Qed.
Print Assumptions C14_dfxp_read_order.
Theorem C14_first_appearance_spec : forall ls,
  NoDup (first_appearance ls) /\ (forall x, In x (first_appearance ls) <-> In x ls).
Proof. exact first_appearance_spec. Qed.
Print Assumptions C14_first_appearance_spec.
(* with distinct languages each div's cue list is returned intact under its language, in document order *)
Theorem C14_dfxp_read_distinct : forall default doc, NoDup (effs default doc) ->
  dfxp_read default doc = map (fun dv => (div_lang (fst dv) (d_tt doc) default, snd dv)) (d_divs doc).
Proof. exact dfxp_read_distinct. Qed.
Print Assumptions C14_dfxp_read_distinct.
Theorem C14_dfxp_read_meets_oracle : forall default tt divs,
  dom_dfxp_read default tt divs = true ->
  ok_dfxp_read default tt divs (dfxp_read default (mkDfxp tt divs)) = true.
Proof. exact dfxp_read_meets_oracle. Qed.
Print Assumptions C14_dfxp_read_meets_oracle.

(* ---- DFXP write: order, force=, and back again --------------------------------------------------------------- *)
Theorem C14_dfxp_write_order : forall force cs, mem force (languages cs) = false ->
  d_divs (dfxp_write force cs) = map (fun l => (Some l, get_captions cs l)) (languages cs).
Proof. exact dfxp_write_order. Qed.
Print Assumptions C14_dfxp_write_order.
Theorem C14_force_selects : forall force cs, mem force (languages cs) = true ->
  dfxp_write force cs = mkDfxp (Some force) [(Some force, get_captions cs force)]
  /\ (force <> [] ->
      legacy_write force cs = Ok (mkDfxp (Some dfxp_default_language) [(Some force, get_captions cs force)])).
Proof. exact force_selects. Qed.
Print Assumptions C14_force_selects.
Theorem C14_dfxp_roundtrip_langs : forall default cs, NoDup (languages cs) -> mem [] (languages cs) = false ->
  dfxp_read default (dfxp_write [] cs) = cs.
Proof. exact dfxp_roundtrip_langs. Qed.
Print Assumptions C14_dfxp_roundtrip_langs.
Theorem C14_dfxp_roundtrip_force : forall default force cs, mem force (languages cs) = true ->
  dfxp_read default (dfxp_write force cs) = [(force, get_captions cs force)].
Proof. exact dfxp_roundtrip_force. Qed.
Print Assumptions C14_dfxp_roundtrip_force.

(* ---- SAMI read --------------------------------------------------------------------------------------------- *)
Theorem C14_sami_read_order_first_appearance : forall default styles ps,
  languages (sami_read default styles ps) = first_appearance (map (tag_of default styles) ps)
  /\ NoDup (languages (sami_read default styles ps)).
Proof. exact sami_read_order. Qed.
Print Assumptions C14_sami_read_order_first_appearance.
(* the cue list of a language = the non-blank paragraphs resolved to exactly that language, in document order *)
Theorem C14_sami_read_lists : forall default styles ps l,
  In l (languages (sami_read default styles ps)) ->
  get_captions (sami_read default styles ps) l
  = map (fun p => (sp_start p * 1000, sp_text p))
        (filter (fun p => str_eqb (tag_of default styles p) l && negb (is_blank_text (sp_text p))) ps).
Proof. exact sami_read_lists. Qed.
Print Assumptions C14_sami_read_lists.
(* partition: over all languages listed, every non-blank paragraph is counted exactly once *)
Theorem C14_sami_read_partition : forall default styles ps,
  fold_right (fun lc n => (length (snd lc) + n)%nat) 0%nat (sami_read default styles ps)
  = length (filter (fun p => negb (is_blank_text (sp_text p))) ps).
Proof. exact sami_read_partition. Qed.
Print Assumptions C14_sami_read_partition.
(* the selection by language prefix (p[lang|=l]) of the unrepaired reader copies a cue into another language *)
Theorem C14_sami_prefix_selection_refuted :
  exists default styles ps l1 l2 c,
    l1 <> l2 /\ In c (get_captions (sami_read_prefix default styles ps) l1)
             /\ In c (get_captions (sami_read_prefix default styles ps) l2)
             /\ ~ In c (get_captions (sami_read default styles ps) l1).
Proof. exact sami_prefix_selection_refuted. Qed.
Print Assumptions C14_sami_prefix_selection_refuted.

(* how a <P> gets its language: an inline lang attribute decides (first two characters); a class decides only if
   it declares a language - a layout-only or unknown class does NOT end the lookup, later attributes are consulted *)
Theorem C14_find_lang_class_falls_through : forall name value rest styles,
  str_eqb (lower name) (lit "lang") = false -> str_eqb (lower name) (lit "class") = true ->
  (dict_get (lower value) styles = None \/ dict_get (lower value) styles = Some None) ->
  find_lang ((name, value) :: rest) styles = find_lang rest styles.
Proof. exact find_lang_class_falls_through. Qed.
Print Assumptions C14_find_lang_class_falls_through.
Theorem C14_find_lang_inline : forall name value rest styles,
  str_eqb (lower name) (lit "lang") = true -> find_lang ((name, value) :: rest) styles = Some (firstn 2 value).
Proof. exact find_lang_inline. Qed.
Print Assumptions C14_find_lang_inline.
Theorem C14_find_lang_class_with_lang : forall name value l rest styles,
  str_eqb (lower name) (lit "lang") = false -> str_eqb (lower name) (lit "class") = true ->
  dict_get (lower value) styles = Some (Some l) -> find_lang ((name, value) :: rest) styles = Some l.
Proof. exact find_lang_class_with_lang. Qed.
Print Assumptions C14_find_lang_class_with_lang.

(* ---- SAMI write ----------------------------------------------------------------------------------------------- *)
(* every paragraph goes to the end of a block with its own start or into a new block with its start;
   all other blocks and paragraphs stay where they were *)
Theorem C14_sami_p_in_own_sync : forall primary t p b, placed t p b (place primary t p b).
Proof. exact place_placed. Qed.
Print Assumptions C14_sami_p_in_own_sync.
(* a later language's paragraph never breaks the order of the body, whatever its time *)
Theorem C14_place_secondary_sorted : forall t p b, sorted b -> sorted (place false t p b).
Proof. exact place_secondary_sorted. Qed.
Print Assumptions C14_place_secondary_sorted.
(* the body is sorted by start as soon as the FIRST language's cues are sorted (ms resolution) *)
Theorem C14_sami_syncs_sorted : forall cs,
  match cs with (_, caps) :: _ => caps_sorted 0 caps | [] => True end -> sorted (sami_write cs).
Proof. exact sami_syncs_sorted. Qed.
Print Assumptions C14_sami_syncs_sorted.
Theorem C14_sorted_is_oracle_order : forall b, sorted b -> nondecr (map fst b) = true.
Proof. exact sorted_nondecr. Qed.
Print Assumptions C14_sorted_is_oracle_order.
(* each language's paragraphs in the body are exactly the writer's sequence for its cue list, in order: every
   language sorted at ms resolution (zero-duration and coinciding cues allowed), distinct language names *)
Theorem C14_sami_language_order : forall cs, NoDup (map fst cs) ->
  (forall l caps, In (l, caps) cs -> caps_sorted 0 caps) ->
  forall l caps, In (l, caps) cs -> cpars l (sami_write cs) = lang_pars caps None.
Proof. exact sami_language_order. Qed.
Print Assumptions C14_sami_language_order.
(* in the terms of the oracle ok_sami_body: the non-blank paragraphs of a language, each with the start of its
   block, are its cues at start // 1000 - no cue lost, moved to another time or language, or reordered *)
Theorem C14_sami_language_cues : forall cs, NoDup (map fst cs) ->
  (forall l caps, In (l, caps) cs -> caps_sorted 0 caps) ->
  (forall l caps c, In (l, caps) cs -> In c caps -> str_eqb (wc_text c) (lit "&nbsp;") = false) ->
  forall l caps, In (l, caps) cs ->
    pars_of l (sami_write cs) = map (fun c => (wc_start c / 1000, wc_text c)) caps.
Proof. exact sami_language_cues. Qed.
Print Assumptions C14_sami_language_cues.

(* ALL inputs, no sortedness assumed: languages never mix. As multisets, each paragraph with the start of the block
   it sits in, the paragraphs of a language in the body are exactly the writer's sequence for its cue list (blank
   syncs included); a class that is not a language of the set has no paragraph *)
Theorem C14_sami_languages_never_mix : forall cs, NoDup (map fst cs) ->
  (forall l caps, In (l, caps) cs -> Permutation.Permutation (cpars l (sami_write cs)) (lang_pars caps None))
  /\ (forall cls, ~ In cls (map fst cs) -> cpars cls (sami_write cs) = []).
Proof. exact sami_languages_never_mix. Qed.
Print Assumptions C14_sami_languages_never_mix.

(* ---- language pick ------------------------------------------------------------------------------------------- *)
Theorem C14_vtt_lang_option : forall l cs c, NoDup (languages cs) -> In (l, c) cs -> vtt_select (Some l) cs = Ok c.
Proof. exact vtt_lang_option. Qed.
Print Assumptions C14_vtt_lang_option.

(* ---- non-vacuity ------------------------------------------------------------------------------------------------ *)
Example C14_example_dfxp :
  dfxp_read (lit "und") (mkDfxp (Some (lit "es"))
     [(Some (lit "fr"), [(1000000, lit "f1")]); (None, [(1000000, lit "d1")]); (Some (lit "de"), [])])
  = [(lit "fr", [(1000000, lit "f1")]); (lit "es", [(1000000, lit "d1")]); (lit "de", [])].
Proof. vm_compute. reflexivity. Qed.
Example C14_example_class_without_lang :
  sami_read (lit "und") [(lit "narrow", None); (lit "encc", Some (lit "en"))]
    [mkP [(lit "class", lit "NARROW"); (lit "lang", lit "fr")] 1000 (lit "a");
     mkP [(lit "class", lit "ENCC"); (lit "lang", lit "fr")] 1000 (lit "b");
     mkP [(lit "class", lit "NARROW")] 2000 (lit "c")]
  = [(lit "fr", [(1000000, lit "a")]); (lit "en", [(1000000, lit "b")]); (lit "und", [(2000000, lit "c")])].
Proof. vm_compute. reflexivity. Qed.
(* a cue ending in millisecond 0 still gets its blank sync (last_time = 0 is not `None`) *)
Example C14_example_blank_at_zero :
  sami_write [(lit "en", [mkWcue 0 900 (lit "a"); mkWcue 5000000 6000000 (lit "b")])]
  = [(0, [(lit "en", lit "a")]); (0, [(lit "en", lit "&nbsp;")]); (5000, [(lit "en", lit "b")])].
Proof. vm_compute. reflexivity. Qed.
Example C14_example_sami_write :
  let cs := [(lit "en", [mkWcue 1000000 2000000 (lit "a1"); mkWcue 5000000 6000000 (lit "a2")]);
             (lit "fr", [mkWcue 500000 1500000 (lit "f1"); mkWcue 5000000 5500000 (lit "f2")])] in
  caps_sorted 0 (snd (hd (lit "", []) cs)) /\
  sami_write cs = [(500, [(lit "fr", lit "f1")]); (1000, [(lit "en", lit "a1")]); (1500, [(lit "fr", lit "&nbsp;")]);
                   (2000, [(lit "en", lit "&nbsp;")]); (5000, [(lit "en", lit "a2"); (lit "fr", lit "f2")])] /\
  cpars (lit "fr") (sami_write cs) = [(500, lit "f1"); (1500, lit "&nbsp;"); (5000, lit "f2")].
Proof. vm_compute. repeat split; intros; discriminate. Qed.
